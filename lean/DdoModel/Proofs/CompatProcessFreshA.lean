import DdoModel.Proofs.CompatProcess
/-! C10e — the field `JCFresh` of the joint contract, top-down part.

Structural facts about the diagram BUILT by a relaxed compilation of width ≥ 1 with the threshold cache **and** the dominance
checker (any cache content, any store content, any rule), read off one invariant `KJ` of the compilation loop
(`buildLoop_kj`, through `buildLoop_ind_joint`):

* `KInvA` of `Proofs/CacheClosedInvA.lean` (nothing is marked; every inbound arc comes from a node that was handed to the
  expansion, hence neither pruned by the cache nor deleted) — `_filter_with_dominance` only removes positions and only writes
  `theta`;
* `KInvX`: the nodes of a layer that are **not flagged relaxed** have pairwise distinct states (`DistX`) — the form of
  `built_distinct` that survives the checker: a node dropped by the checker is neither deleted nor pruned by the cache, and the
  merged node created by `_relax` may carry its state, but that node is flagged relaxed; and `built_filtered` (`Filt`). -/
set_option linter.unusedSectionVars false
set_option linter.unusedVariables false
namespace Ddo.C10d
open Ddo Ddo.C01 Ddo.Closed Ddo.C09 Ddo.C10 Ddo.C10c Ddo.Truth
variable {S K : Type} [DecidableEq S] [DecidableEq K]

/-! ## 1. `_filter_with_dominance` keeps a sub-list of the positions it is given (whatever the store holds) -/

theorem fdStep_keep (D : DomRule S K) (acc : List (Node S) × List Nat × DomStore S K × Bool) (p : Nat) :
    (fdStep D acc p).2.1 = acc.2.1 ∨ (fdStep D acc p).2.1 = acc.2.1 ++ [p] := by
  unfold fdStep
  cases acc.1[p]? with
  | none => exact .inl rfl
  | some n =>
    dsimp only
    split
    · cases DomStore.query D acc.2.2.1 n.state n.depth n.value with
      | none => exact .inr rfl
      | some r =>
        obtain ⟨st', dom, thr⟩ := r
        dsimp only
        split
        · exact .inl rfl
        · exact .inr rfl
    · exact .inr rfl

theorem fdFold_sublist (D : DomRule S K) :
    ∀ (l proc : List Nat) (acc : List (Node S) × List Nat × DomStore S K × Bool),
      acc.2.1.Sublist proc → (l.foldl (fdStep D) acc).2.1.Sublist (proc ++ l) := by
  intro l
  induction l with
  | nil => intro proc acc h; simpa using h
  | cons p ps ih =>
    intro proc acc h
    rw [List.foldl_cons]
    have h' : (fdStep D acc p).2.1.Sublist (proc ++ [p]) := by
      rcases fdStep_keep D acc p with e | e
      · rw [e]; exact h.trans (List.sublist_append_left _ _)
      · rw [e]; exact List.Sublist.append h (List.Sublist.refl _)
    have := ih (proc ++ [p]) _ h'
    simpa using this

/-- the positions kept by `_filter_with_dominance` are positions it was given, without repetition -/
theorem filterDom_sub (cfg : Cfg S K) (store : DomStore S K) (layer : List (Node S)) (cur : List Nat) :
    (∀ p ∈ (filterDom cfg store layer cur).2.1, p ∈ cur) ∧ (cur.Nodup → (filterDom cfg store layer cur).2.1.Nodup) := by
  cases hD : cfg.dom with
  | none =>
    have : filterDom cfg store layer cur = (layer, cur, store, true) := by
      unfold filterDom; simp only [hD]
    rw [this]
    exact ⟨fun _ h => h, fun h => h⟩
  | some D =>
    rw [filterDom_eq cfg D hD]
    have h := fdFold_sublist D (fdSorted D layer cur) [] (layer, [], store, true) (List.Sublist.refl _)
    rw [List.nil_append] at h
    refine ⟨fun p hp => (Cover.mem_sortBy _ _ _).mp (h.subset hp), fun hn => ?_⟩
    exact h.nodup (C12.nodup_sortBy _ cur hn)

/-! ## 2. the fields `_filter_with_dominance` leaves alone -/

theorem stripT_k {a b : Node S} (h : Bounds.stripT a = Bounds.stripT b) :
    a.state = b.state ∧ a.value = b.value ∧ a.depth = b.depth ∧ a.cache = b.cache ∧ a.deleted = b.deleted ∧
    a.fRelaxed = b.fRelaxed ∧ a.marked = b.marked ∧ a.inb = b.inb := by
  have h1 := congrArg Node.state h
  have h2 := congrArg Node.value h
  have h3 := congrArg Node.depth h
  have h4 := congrArg Node.cache h
  have h5 := congrArg Node.deleted h
  have h6 := congrArg Node.fRelaxed h
  have h7 := congrArg Node.marked h
  have h8 := congrArg Node.inb h
  simp only [Bounds.stripT] at h1 h2 h3 h4 h5 h6 h7 h8
  exact ⟨h1, h2, h3, h4, h5, h6, h7, h8⟩

/-! ## 3. distinct states among the nodes that are not flagged relaxed -/

/-- the nodes of the layer that are not flagged relaxed have pairwise distinct states -/
def DistX (ly : List (Node S)) : Prop :=
  ∀ (p q : Nat) (n m : Node S), ly[p]? = some n → ly[q]? = some m →
    n.fRelaxed = false → m.fRelaxed = false → n.state = m.state → p = q

theorem DistX.of_rubEq {ly ly0 : List (Node S)} (h : RubEq ly ly0) (h0 : DistX ly0) : DistX ly := by
  intro p q n m hn hm hnr hmr hs
  obtain ⟨n0, hn0, sn⟩ := h.get hn
  obtain ⟨m0, hm0, sm⟩ := h.get hm
  obtain ⟨a1, _, _, _, _, a6⟩ := CacheClosedB.strip_flds sn
  obtain ⟨b1, _, _, _, _, b6⟩ := CacheClosedB.strip_flds sm
  exact h0 p q n0 m0 hn0 hm0 (a6 ▸ hnr) (b6 ▸ hmr) (by rw [a1, b1]; exact hs)

/-- position-wise reading of an image that grew by at most one element -/
theorem map_pos {α : Type} (g : Node S → α) {r l : List (Node S)} {x : α} (h : r.map g = l.map g ++ [x])
    {q : Nat} {n' : Node S} (hn' : r[q]? = some n') :
    (∃ n, l[q]? = some n ∧ g n' = g n) ∨ (q = l.length ∧ g n' = x) := by
  have hm : (r.map g)[q]? = some (g n') := by rw [List.getElem?_map, hn']; rfl
  rw [h] at hm
  by_cases hq : q < l.length
  · rw [List.getElem?_append_left (by rw [List.length_map]; exact hq), List.getElem?_map] at hm
    rw [List.getElem?_eq_getElem hq] at hm ⊢
    simp only [Option.map_some, Option.some.injEq] at hm
    exact .inl ⟨_, rfl, hm.symm⟩
  · have hlt := Cover.lt_of_getElem?_some hm
    rw [List.length_append, List.length_map, List.length_singleton] at hlt
    have hq' : q = l.length := by omega
    subst hq'
    have : (l.map g ++ [x])[l.length]? = some x := by
      have := List.getElem?_concat_length (l := l.map g) (a := x)
      rw [List.length_map] at this
      exact this
    rw [this] at hm
    simp only [Option.some.injEq] at hm
    exact .inr ⟨rfl, hm.symm⟩

theorem map_pos_same {α : Type} (g : Node S → α) {r l : List (Node S)} (h : r.map g = l.map g)
    {q : Nat} {n' : Node S} (hn' : r[q]? = some n') : ∃ n, l[q]? = some n ∧ g n' = g n := by
  have hm : (r.map g)[q]? = some (g n') := by rw [List.getElem?_map, hn']; rfl
  rw [h, List.getElem?_map] at hm
  cases h1 : l[q]? with
  | none => rw [h1] at hm; cases hm
  | some n =>
    rw [h1] at hm
    simp only [Option.map_some, Option.some.injEq] at hm
    exact ⟨n, rfl, hm.symm⟩

/-- `DistX` through `_relax`: the old positions keep their states, the node `_relax` may append is flagged relaxed -/
theorem relaxLayer_distX (cfg : Cfg S K) (layers : List (List (Node S))) (layer : List (Node S)) (cur : List Nat)
    (log : List (Call S))
    (hD : ∀ (p q : Nat) (n m : Node S), layer[p]? = some n → layer[q]? = some m → n.state = m.state → p = q) :
    DistX (relaxLayer cfg layers layer cur log).1 := by
  refine Theta.relaxLayer_elimD cfg layers layer cur log (fun r => DistX r.1) ?_ ?_
  · intro _ lg
    dsimp only
    -- the pair (state, flag relaxed) position-wise: the fresh node is already flagged relaxed
    have hmap : ((Cover.restOf cfg layer cur).foldl (Cover.dropStep cfg layers (Cover.mergedOf cfg layer cur) layer.length)
        (Cover.markRelaxed (layer ++ [Cover.freshMerged (Cover.mergedOf cfg layer cur) (Theta.d0Of cfg layer cur)]) layer.length,
          lg)).1.map (fun n => (n.state, n.fRelaxed)) =
        layer.map (fun n => (n.state, n.fRelaxed)) ++ [(Cover.mergedOf cfg layer cur, true)] := by
      rw [Theta.outer_map (fun n => (n.state, n.fRelaxed))
        (fun src m a => by rw [Cover.appendEdge_state, CacheClosedB.appendEdge_fRelaxed]) (fun _ _ => rfl)]
      dsimp only
      have hget : (layer ++ [Cover.freshMerged (Cover.mergedOf cfg layer cur) (Theta.d0Of cfg layer cur)])[layer.length]? =
          some (Cover.freshMerged (Cover.mergedOf cfg layer cur) (Theta.d0Of cfg layer cur)) := List.getElem?_concat_length
      unfold Cover.markRelaxed
      rw [hget]
      dsimp only
      exact (C12.map_set_same (fun n => (n.state, n.fRelaxed)) _ _ _ _ hget rfl).trans (by rw [List.map_append])
    intro p q n m hn hm hnr hmr hs
    rcases map_pos _ hmap hn with ⟨n0, hn0, en⟩ | ⟨_, en⟩
    · rcases map_pos _ hmap hm with ⟨m0, hm0, em⟩ | ⟨_, em⟩
      · have e1 := congrArg Prod.fst en
        have e2 := congrArg Prod.fst em
        dsimp only at e1 e2
        exact hD p q n0 m0 hn0 hm0 (by rw [← e1, ← e2]; exact hs)
      · have e2 := congrArg Prod.snd em
        dsimp only at e2
        rw [hmr] at e2; cases e2
    · have e2 := congrArg Prod.snd en
      dsimp only at e2
      rw [hnr] at e2; cases e2
  · intro mp _ lg
    dsimp only
    have hmap : (Cover.undelete ((Cover.restOf cfg layer cur).foldl
        (Cover.dropStep cfg layers (Cover.mergedOf cfg layer cur) mp) (Cover.markRelaxed layer mp, lg)).1
        ((sortSquash cfg layer cur).take cfg.width)).map Node.state = layer.map Node.state := by
      rw [Theta.undelete_map Node.state (fun _ _ => rfl),
        Theta.outer_map Node.state (fun src m a => Cover.appendEdge_state src m a) (fun _ _ => rfl)]
      dsimp only
      rw [Theta.markRelaxed_map Node.state (fun _ => rfl)]
    intro p q n m hn hm _ _ hs
    obtain ⟨n0, hn0, en⟩ := map_pos_same _ hmap hn
    obtain ⟨m0, hm0, em⟩ := map_pos_same _ hmap hm
    exact hD p q n0 m0 hn0 hm0 (by rw [← en, ← em]; exact hs)

/-! ## 4. the invariant of the loop -/

/-- the part of the invariant that reads the cache -/
structure KInvX (cfg : Cfg S K) (cache : Cache S) (dd : DD S K) : Prop where
  cacheEq : dd.cache = cache
  nextD : (dd.next.map (·.state)).Nodup
  distL : ∀ (i : Nat) ly, dd.layers[i]? = some ly → DistX ly
  filtL : ∀ (i : Nat) ly, 1 ≤ i → dd.layers[i]? = some ly → ∀ n ∈ ly, CacheClosedB.Filt cfg cache n

theorem KInvX.congr {cfg : Cfg S K} {cache : Cache S} {dd dd' : DD S K} (h : KInvX cfg cache dd)
    (h1 : dd'.layers = dd.layers) (h2 : dd'.next = dd.next) (h4 : dd'.cache = dd.cache) : KInvX cfg cache dd' := by
  obtain ⟨a1, a2, a4, a5⟩ := h
  exact ⟨by rw [h4]; exact a1, by rw [h2]; exact a2, by rw [h1]; exact a4, by rw [h1]; exact a5⟩

/-- the invariant of the compilation loop with both filters -/
def KJ (cfg : Cfg S K) (cache : Cache S) (dd : DD S K) : Prop := CacheClosed.KInvA dd ∧ KInvX cfg cache dd

theorem Filt_of_stripT {cfg : Cfg S K} {cache : Cache S} {a b : Node S} (h : Bounds.stripT a = Bounds.stripT b)
    (ha : CacheClosedB.Filt cfg cache a) : CacheClosedB.Filt cfg cache b := by
  obtain ⟨h1, h2, h3, h4, _, h6, _, _⟩ := stripT_k h
  have hlk : Theta.lookup cfg cache a = Theta.lookup cfg cache b := by unfold Theta.lookup; rw [h1, h3]
  intro hc hr t ht
  rw [← h2]
  exact ha (h4 ▸ hc) (h6 ▸ hr) t (hlk ▸ ht)

/-- what the invariant gives on the layer after both filters -/
theorem fd_facts (cfg : Cfg S K) (cache : Cache S) (dd : DD S K) (hI : KJ cfg cache dd) :
    CacheClosed.PostK dd.layers (CacheClosed.fdOf cfg dd).1 (CacheClosed.fdOf cfg dd).2.1 ∧
    (CacheClosed.fdOf cfg dd).2.1.Nodup ∧
    (∀ (p q : Nat) (n m : Node S), (CacheClosed.fdOf cfg dd).1[p]? = some n → (CacheClosed.fdOf cfg dd).1[q]? = some m →
      n.state = m.state → p = q) ∧
    (dd.layers ≠ [] → ∀ n ∈ (CacheClosed.fdOf cfg dd).1, CacheClosedB.Filt cfg cache n) := by
  obtain ⟨hA, hX⟩ := hI
  obtain ⟨hpost, hnd⟩ := CacheClosed.postK_fc cfg dd.cache dd hA _ _ (Theta.fcOf_desc cfg dd)
  have hth : ThEq (CacheClosed.fdOf cfg dd).1 (Theta.fcOf cfg dd).1 :=
    (filterDom_weak' cfg dd.store (Theta.fcOf cfg dd).1 (Theta.fcOf cfg dd).2).1
  obtain ⟨hsub, hnd'⟩ := filterDom_sub cfg dd.store (Theta.fcOf cfg dd).1 (Theta.fcOf cfg dd).2
  have hsub' : ∀ p ∈ (CacheClosed.fdOf cfg dd).2.1, p ∈ (Theta.fcOf cfg dd).2 := hsub
  have hnd'' : (CacheClosed.fdOf cfg dd).2.1.Nodup := hnd' hnd
  refine ⟨⟨?_, ?_⟩, hnd'', ?_, ?_⟩
  · intro n hn
    obtain ⟨i, hi⟩ := List.mem_iff_getElem?.1 hn
    obtain ⟨n0, h0, hs⟩ := hth.get hi
    obtain ⟨_, _, _, _, _, _, h7, h8⟩ := stripT_k hs
    have := hpost.good n0 (List.mem_of_getElem? h0)
    exact ⟨h7 ▸ this.1, h8 ▸ this.2⟩
  · intro q hq
    obtain ⟨n0, h0, c0, d0⟩ := hpost.live q (hsub' q hq)
    obtain ⟨n, hn, hs⟩ := hth.symm.get h0
    obtain ⟨_, _, _, h4, h5, _⟩ := stripT_k hs
    exact ⟨n, hn, by rw [← h4]; exact c0, by rw [← h5]; exact d0⟩
  · -- the states are those of the layer under construction
    obtain ⟨g, keep, hlay, _, _, hg, _⟩ := Theta.fcOf_desc cfg dd
    have hsame : ∀ m, (g m).state = m.state := by
      intro m
      rcases hg m with ⟨_, h⟩ | ⟨_, t, _, _, h⟩
      · rw [h]
      · rw [h]
    have hget : ∀ (q : Nat) n, (CacheClosed.fdOf cfg dd).1[q]? = some n → ∃ m, dd.next[q]? = some m ∧ n.state = m.state := by
      intro q n hn
      obtain ⟨n0, h0, hs⟩ := hth.get hn
      rw [hlay, List.getElem?_map] at h0
      cases h1 : dd.next[q]? with
      | none => rw [h1] at h0; cases h0
      | some m =>
        rw [h1] at h0
        simp only [Option.map_some, Option.some.injEq] at h0
        exact ⟨m, rfl, by rw [(stripT_k hs).1, ← h0, hsame]⟩
    intro p q n m hn hm hs
    obtain ⟨n0, hn0, en⟩ := hget p n hn
    obtain ⟨m0, hm0, em⟩ := hget q m hm
    exact CacheClosedB.pos_of_nodup (·.state) _ hX.nextD hn0 hm0 (by rw [← en, ← em]; exact hs)
  · intro hne n hn
    obtain ⟨i, hi⟩ := List.mem_iff_getElem?.1 hn
    obtain ⟨n0, h0, hs⟩ := hth.get hi
    refine Filt_of_stripT hs.symm ?_
    have hemp : dd.layers.isEmpty = false := by
      cases h : dd.layers with
      | nil => exact absurd h hne
      | cons _ _ => rfl
    have hm0 := List.mem_of_getElem? h0
    unfold Theta.fcOf at hm0
    rw [hemp] at hm0
    simp only [Bool.false_eq_true, if_false] at hm0
    rw [(Theta.filterCache_spec cfg dd.cache dd.next).1, hX.cacheEq] at hm0
    obtain ⟨m, _, rfl⟩ := List.mem_map.mp hm0
    exact CacheClosedB.fcNode_filt cfg cache m

/-- the expansion, the part of the invariant that reads the cache -/
theorem expand_kinvX (cfg : Cfg S K) (cache : Cache S) (dd dd' : DD S K) (var : Nat) (layer' : List (Node S))
    (cur' : List Nat) (lg : List (Call S)) (hI : KInvX cfg cache dd) (hD : DistX layer')
    (hF : dd.layers ≠ [] → ∀ n ∈ layer', CacheClosedB.Filt cfg cache n)
    (hl : dd'.layers = dd.layers ++ [(expandAll cfg var dd.layers.length layer' cur' lg).1])
    (hn : dd'.next = (expandAll cfg var dd.layers.length layer' cur' lg).2.1)
    (hc : dd'.cache = dd.cache) : KInvX cfg cache dd' := by
  unfold expandAll at hl hn
  have hrub : RubEq (cur'.foldl (expandOne cfg var dd.layers.length) (layer', [], lg)).1 layer' :=
    Bounds.fold_rubEq cfg var dd.layers.length cur' (layer', [], lg)
  refine ⟨by rw [hc]; exact hI.cacheEq, ?_, ?_, ?_⟩
  · rw [hn]
    exact CacheClosedB.fold_nodup cfg var dd.layers.length cur' (layer', [], lg) List.nodup_nil
  · intro i ly hi
    rw [hl] at hi
    rcases getElem?_append_singleton_cases hi with hi | ⟨_, rfl⟩
    · exact hI.distL i ly hi
    · exact DistX.of_rubEq hrub hD
  · intro i ly h1i hi
    rw [hl] at hi
    rcases getElem?_append_singleton_cases hi with hi | ⟨hil, rfl⟩
    · exact hI.filtL i ly h1i hi
    · have hne : dd.layers ≠ [] := by
        intro h; rw [h] at hil; simp only [List.length_nil] at hil; omega
      intro n hnm
      obtain ⟨q, hq⟩ := List.mem_iff_getElem?.mp hnm
      obtain ⟨n0, h0, hs⟩ := hrub.get hq
      exact (hF hne n0 (List.mem_of_getElem? h0)).of_strip hs

/-- one successful layer step of a relaxed compilation with both filters preserves the invariant -/
theorem step_kj (cfg : Cfg S K) (cache : Cache S) (hrel : cfg.ctype = .relaxed) (hW : 1 ≤ cfg.width)
    (dd dd' : DD S K) (var : Nat) (sq : List (Node S) × List Nat × List (Call S) × Option Nat)
    (hI : KJ cfg cache dd)
    (hsq : squash cfg dd (CacheClosed.fdOf cfg dd).1 (CacheClosed.fdOf cfg dd).2.1 = some sq)
    (hl : dd'.layers = dd.layers ++ [(expandAll cfg var dd.layers.length sq.1 sq.2.1 sq.2.2.1).1])
    (hn : dd'.next = (expandAll cfg var dd.layers.length sq.1 sq.2.1 sq.2.2.1).2.1)
    (hc : dd'.cache = dd.cache) : KJ cfg cache dd' := by
  obtain ⟨f1, f2, f3, f4⟩ := fd_facts cfg cache dd hI
  have key : CacheClosed.PostK dd.layers sq.1 sq.2.1 → DistX sq.1 →
      (dd.layers ≠ [] → ∀ n ∈ sq.1, CacheClosedB.Filt cfg cache n) → KJ cfg cache dd' := by
    intro hp hD hF
    obtain ⟨e1, e2⟩ := CacheClosed.expand_kinv cfg var dd.layers sq.1 sq.2.1 sq.2.2.1 hp hI.1.goodL
    exact ⟨⟨by rw [hn, hl]; exact fun n hn => (e2 n hn).1, by rw [hl]; exact e1, by rw [hn]; exact fun n hn => (e2 n hn).2⟩,
      expand_kinvX cfg cache dd dd' var _ _ _ hI.2 hD hF hl hn hc⟩
  rcases Bounds.squash_cases cfg dd (CacheClosed.fdOf cfg dd).1 (CacheClosed.fdOf cfg dd).2.1 hrel hW with
    ⟨_, hsq'⟩ | ⟨c1, _, hsq'⟩
  · rw [hsq'] at hsq
    cases hsq
    exact key f1 (fun p q n m hn hm _ _ hs => f3 p q n m hn hm hs) f4
  · rw [hsq'] at hsq
    cases hsq
    refine key (CacheClosed.postK_relax cfg dd.layers _ _ dd.log hW c1 f2 f1) (relaxLayer_distX cfg dd.layers _ _ dd.log f3) ?_
    intro hne
    exact CacheClosedB.relaxLayer_filt cfg cache dd.layers _ _ dd.log (f4 hne)

theorem init_kj (cfg : Cfg S K) (cache : Cache S) (store : DomStore S K) (polls : Nat) :
    KJ cfg cache (initDD cfg cache store polls) := by
  have hK := CacheClosedB.init_kinv cfg cache store polls
  refine ⟨CacheClosed.init_kinv cfg cache store polls, hK.cacheEq, hK.nextD, ?_, ?_⟩
  · intro i ly hi
    have hlay : (initDD cfg cache store polls).layers = [] := rfl
    rw [hlay] at hi; simp at hi
  · exact hK.filtL

/-- the invariant holds on whatever diagram the loop returns -/
theorem buildLoop_kj (cfg : Cfg S K) (cache : Cache S) (hrel : cfg.ctype = .relaxed) (hW : 1 ≤ cfg.width) :
    ∀ (fuel : Nat) (dd : DD S K), KJ cfg cache dd → KJ cfg cache (buildLoop cfg none fuel dd).1 := by
  refine buildLoop_ind_joint cfg (fun _ dd => KJ cfg cache dd) (KJ cfg cache) ?_ ?_ ?_ ?_ ?_
  · intro _ dd var h; exact ⟨h.1.congr rfl rfl, h.2.congr rfl rfl rfl⟩
  · intro _ dd h; exact h
  · intro _ dd h; exact ⟨h.1.congr rfl rfl, h.2.congr rfl rfl rfl⟩
  · intro _ dd h hne
    obtain ⟨hA, hX⟩ := h
    refine ⟨⟨?_, ?_, ?_⟩, ⟨hX.cacheEq, hX.nextD, ?_, ?_⟩⟩
    · intro n hn; exact (hA.goodN n hn).mono _
    · intro ly hly n hn
      rcases List.mem_append.mp hly with hly | hly
      · exact (hA.goodL ly hly n hn).mono _
      · rw [List.mem_singleton] at hly
        rw [hly] at hn
        exact absurd hn List.not_mem_nil
    · exact hA.cleanN
    · intro i ly hi
      rcases getElem?_append_singleton_cases hi with hi | ⟨_, rfl⟩
      · exact hX.distL i ly hi
      · intro p q n m hn; simp at hn
    · intro i ly h1i hi
      rcases getElem?_append_singleton_cases hi with hi | ⟨_, rfl⟩
      · exact hX.filtL i ly h1i hi
      · intro n hn; cases hn
  · intro _ dd var sq dd' h _ _ hsq hst hl hn _
    refine step_kj cfg cache hrel hW dd dd' var sq h hsq hl hn ?_
    obtain ⟨_, s2⟩ := stepLayer_joint cfg dd var (by
      intro hnil
      rw [stepLayer_empty cfg dd var hnil] at hst
      cases hst)
    cases hokd : (CacheClosed.fdOf cfg dd).2.2.2 with
    | false =>
      have := (stepLayer_joint cfg dd var (by
        intro hnil
        rw [stepLayer_empty cfg dd var hnil] at hst
        cases hst)).1 hokd
      rw [this] at hst; cases hst
    | true =>
      obtain ⟨dd'', hst', _, _, _, _, _, hc⟩ := (s2 hokd).2 sq hsq
      rw [hst'] at hst
      cases hst
      exact hc

end Ddo.C10d
