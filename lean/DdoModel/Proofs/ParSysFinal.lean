import DdoModel.Proofs.ParSysInv
/-! What `maximize()` returns when no cut-off happened: an auxiliary invariant `DoneInv` of the concrete
    parallel system saying that a worker can only have left its loop, with the abort flag down, through
    `Complete` — and then nothing is open any more, for ever.  With `SysInv` this gives the final-state
    theorem `final_optimal`.  Core Lean only. -/
set_option linter.unusedSectionVars false
set_option linter.unusedVariables false
namespace Ddo.ParSys
variable {S : Type} [DecidableEq S]

/-- (1) if some worker has left and the search is not aborted, nothing is in the fringe, nothing is in
    progress and `best_ub = best_lb`; (2) a worker on its way out after its own `abort_search` implies
    the abort flag -/
structure DoneInv (s : Sys S) : Prop where
  closed : (∃ j : Nat, s.ws[j]? = some .done) → s.crit.base.abort = false →
    s.crit.base.fringe = [] ∧ s.crit.ongoing = 0 ∧ s.crit.base.bestUb = s.crit.base.bestLb
  exiting : ∀ (j : Nat) (n : SubP S), s.ws[j]? = some (.fin n true) → s.crit.base.abort = true

theorem wake_eq_done {w : WSt S} (h : w.wake = .done) : w = .done := by cases w <;> simp_all [WSt.wake]
theorem wake_eq_fin {w : WSt S} {n : SubP S} {b : Bool} (h : w.wake = .fin n b) : w = .fin n b := by
  cases w <;> simp_all [WSt.wake]

theorem get_map_wake {ws : List (WSt S)} {j : Nat} {w' : WSt S} (h : (ws.map WSt.wake)[j]? = some w') :
    ∃ w, ws[j]? = some w ∧ w' = w.wake := by
  rw [List.getElem?_map] at h
  cases hj : ws[j]? with
  | none => rw [hj] at h; cases h
  | some wj => rw [hj] at h; injection h with h; exact ⟨wj, rfl, h.symm⟩

section
variable (Phi : SubP S → EInt) (opt : Int) (Sol : List Dec → Int → Prop)

theorem holder_pos {s : Sys S} (hi : SysInv Phi opt Sol s) {i : Nat} {w : WSt S} (hw : s.ws[i]? = some w)
    (hh : w.holds = true) : s.crit.ongoing ≠ 0 := by
  intro h0
  have h1 : s.ws.countP WSt.holds = 0 := by rw [← hi.cnt]; exact h0
  have := List.countP_eq_zero.mp h1 w (List.mem_iff_getElem?.mpr ⟨i, hw⟩)
  exact this hh

/-- a step of a worker that holds a node, that does not lower the abort flag and sends nobody new to `done`
    or to `fin _ true` -/
theorem done_of_holder {s : Sys S} (hi : SysInv Phi opt Sol s) (hd : DoneInv s) {i : Nat} {w : WSt S}
    (hw : s.ws[i]? = some w) (hh : w.holds = true) (c' : ParCrit S) (ws' : List (WSt S))
    (hab : c'.base.abort = s.crit.base.abort)
    (hdone : ∀ j : Nat, ws'[j]? = some .done → ∃ j' : Nat, s.ws[j']? = some .done)
    (hfin : ∀ (j : Nat) (n : SubP S), ws'[j]? = some (.fin n true) → ∃ j' : Nat, s.ws[j']? = some (.fin n true)) :
    DoneInv { crit := c', ws := ws' } := by
  refine ⟨fun ⟨j, hj⟩ ha => ?_, fun j n hj => ?_⟩
  · have ha : c'.base.abort = false := ha
    rw [hab] at ha
    obtain ⟨_, h0, _⟩ := hd.closed (hdone j hj) ha
    exact absurd h0 (holder_pos Phi opt Sol hi hw hh)
  · obtain ⟨j', hj'⟩ := hfin j n hj
    show c'.base.abort = true
    rw [hab]; exact hd.exiting j' n hj'

theorem set_done {ws : List (WSt S)} {i j : Nat} {w' : WSt S} (hne : w' ≠ .done)
    (h : (ws.set i w')[j]? = some .done) : ∃ j' : Nat, ws[j']? = some .done := by
  rcases get_set_split h with ⟨_, e⟩ | ⟨_, e⟩
  · exact absurd e.symm hne
  · exact ⟨j, e⟩

theorem set_fin {ws : List (WSt S)} {i j : Nat} {w' : WSt S} {n : SubP S} (hne : ∀ m, w' ≠ .fin m true)
    (h : (ws.set i w')[j]? = some (.fin n true)) : ∃ j' : Nat, ws[j']? = some (.fin n true) := by
  rcases get_set_split h with ⟨_, e⟩ | ⟨_, e⟩
  · exact absurd e.symm (hne n)
  · exact ⟨j, e⟩

/-- the local steps of `process_one_node` (shared record untouched or only its incumbent) -/
theorem done_local {s : Sys S} (hi : SysInv Phi opt Sol s) (hd : DoneInv s) {i : Nat} {w : WSt S}
    (hw : s.ws[i]? = some w) (hh : w.holds = true) (c' : ParCrit S) (w' : WSt S)
    (hab : c'.base.abort = s.crit.base.abort) (h1 : w' ≠ .done) (h2 : ∀ m, w' ≠ .fin m true) :
    DoneInv { crit := c', ws := s.ws.set i w' } :=
  done_of_holder Phi opt Sol hi hd hw hh c' _ hab (fun j h => set_done h1 h) (fun j n h => set_fin h2 h)

theorem enqueue_abort (dedup : Bool) (st : SeqSt S) (cs : List (SubP S)) :
    (st.enqueue dedup cs).abort = st.abort := by
  cases dedup
  · exact (enqueue_false_spec st cs).2.2.2.1
  · exact (enqueue_true_spec st cs).2.2.2.1

theorem step_done (dedup : Bool) {okR okX : SubP S → Int → DDOut S → Prop}
    {s t : Sys S} (h : Step dedup okR okX s t) (hi : SysInv Phi opt Sol s) (hd : DoneInv s) : DoneInv t := by
  cases h with
  | gwAborted i hw ha =>
    refine ⟨fun _ h => ?_, fun j n hj => ?_⟩
    · have h : s.crit.base.abort = false := h
      rw [ha] at h; cases h
    · exact ha
  | gwComplete i hw ha ho hf => exact ⟨fun _ _ => ⟨hf, ho, rfl⟩, fun j n hj => by
      obtain ⟨j', hj'⟩ := set_fin (w' := WSt.done) (fun m => by simp) hj
      have := hd.exiting j' n hj'
      rw [ha] at this; cases this⟩
  | gwWait i hw ha ho hf =>
    refine ⟨fun ⟨j, hj⟩ _ => ?_, fun j n hj => ?_⟩
    · obtain ⟨_, h0, _⟩ := hd.closed (set_done (w' := WSt.waiting) (by simp) hj) ha
      exact absurd h0 ho
    · obtain ⟨j', hj'⟩ := set_fin (w' := WSt.waiting) (fun m => by simp) hj
      exact hd.exiting j' n hj'
  | gwStarve i N rest c' k hw ha hp hl =>
    refine ⟨fun hj _ => ?_, fun j n hj => ?_⟩
    · obtain ⟨hf, _, _⟩ := hd.closed hj ha
      have := (mem_of_popMax hp N).mpr (Or.inl rfl)
      rw [hf] at this; cases this
    · have := hd.exiting j n hj
      rw [ha] at this; cases this
  | gwItem i N rest c' nn k c'' hw ha hp hl ht =>
    refine ⟨fun ⟨j, hj⟩ _ => ?_, fun j n hj => ?_⟩
    · obtain ⟨hf, _, _⟩ := hd.closed (set_done (w' := WSt.readR nn) (by simp) hj) ha
      have := (mem_of_popMax hp N).mpr (Or.inl rfl)
      rw [hf] at this; cases this
    · obtain ⟨j', hj'⟩ := set_fin (w' := WSt.readR nn) (fun m => by simp) hj
      have := hd.exiting j' n hj'
      rw [ha] at this; cases this
  | gwCrash i N rest c' nn k hw ha hp hl ht =>
    refine ⟨fun ⟨j, hj⟩ _ => ?_, fun j n hj => ?_⟩
    · obtain ⟨hf, _, _⟩ := hd.closed (set_done (w' := WSt.crashed nn) (by simp) hj) ha
      have := (mem_of_popMax hp N).mpr (Or.inl rfl)
      rw [hf] at this; cases this
    · obtain ⟨j', hj'⟩ := set_fin (w' := WSt.crashed nn) (fun m => by simp) hj
      have := hd.exiting j' n hj'
      rw [ha] at this; cases this
  | readLbR i n hw =>
    refine done_local Phi opt Sol hi hd hw rfl _ _ rfl ?_ ?_
    · split <;> simp
    · intro m; split <;> simp
  | compileR i n lb r hw hok =>
    refine done_local Phi opt Sol hi hd hw rfl _ _ rfl ?_ ?_
    · cases r <;> simp [WSt.afterR]
    · intro m; cases r <;> simp [WSt.afterR]
  | updateR i n lb o hw =>
    refine done_local Phi opt Sol hi hd hw rfl _ _ (updateBest_fringe s.crit.base o).2.2.1 ?_ ?_
    · split <;> simp
    · intro m; split <;> simp
  | readLbX i n hw => exact done_local Phi opt Sol hi hd hw rfl _ _ rfl (by simp) (fun m => by simp)
  | compileX i n lb r hw hok =>
    refine done_local Phi opt Sol hi hd hw rfl _ _ rfl ?_ ?_
    · cases r <;> simp [WSt.afterX]
    · intro m; cases r <;> simp [WSt.afterX]
  | updateX i n lb o hw =>
    refine done_local Phi opt Sol hi hd hw rfl _ _ (updateBest_fringe s.crit.base o).2.2.1 ?_ ?_
    · split <;> simp
    · intro m; split <;> simp
  | enqueue i n lb o hw =>
    exact done_local Phi opt Sol hi hd hw rfl _ _ (enqueue_abort dedup _ _) (by simp) (fun m => by simp)
  | abort i n top hw htop =>
    refine ⟨fun _ h => ?_, fun _ _ _ => rfl⟩
    have h : (s.crit.abortSearch n.ub top).base.abort = false := h
    cases h
  | notify i n te c' hw hn =>
    obtain ⟨n1, _, _, _⟩ := notify_spec hn
    have hab : c'.base.abort = s.crit.base.abort := by rw [n1]
    cases te with
    | false =>
      refine done_of_holder Phi opt Sol hi hd hw rfl c' _ hab (fun j h => ?_) (fun j m h => ?_)
      · obtain ⟨j', hj'⟩ := set_done (w' := WSt.idle) (by simp) h
        obtain ⟨w, hw', e⟩ := get_map_wake hj'
        exact ⟨j', by rw [hw', wake_eq_done e.symm]⟩
      · obtain ⟨j', hj'⟩ := set_fin (w' := WSt.idle) (fun m => by simp) h
        obtain ⟨w, hw', e⟩ := get_map_wake hj'
        exact ⟨j', by rw [hw', wake_eq_fin e.symm]⟩
    | true =>
      have ha := hd.exiting i n hw
      refine ⟨fun _ h => ?_, fun _ _ _ => ?_⟩
      · have h : c'.base.abort = false := h
        rw [hab, ha] at h; cases h
      · show c'.base.abort = true
        rw [hab]; exact ha

theorem init_done (P : Problem S) (primal : Option (Int × List Dec)) (dedup : Bool) (U : Nat) :
    DoneInv (Sys.init P primal dedup U) := by
  have hws : ∀ (i : Nat) (w : WSt S), (Sys.init P primal dedup U).ws[i]? = some w → w = .idle := by
    intro i w h
    have h : (List.replicate U (WSt.idle : WSt S))[i]? = some w := h
    rw [List.getElem?_replicate] at h
    split at h
    · injection h with h; exact h.symm
    · cases h
  exact ⟨(fun ⟨j, hj⟩ _ => by cases hws j _ hj), (fun j n hj => by cases hws j _ hj)⟩

theorem run_done (dedup : Bool) (hphi : PhiOk Phi dedup) {okR okX : SubP S → Int → DDOut S → Prop}
    (hR : ∀ n lb o, okR n lb o → OkR Phi opt Sol n lb o) (hX : ∀ n lb o, okX n lb o → OkX Phi opt Sol n lb o)
    {s t : Sys S} (h : Run dedup okR okX s t) (hi : SysInv Phi opt Sol s) (hd : DoneInv s) : DoneInv t := by
  induction h with
  | refl => exact hd
  | tail hr hst ih => exact step_done Phi opt Sol dedup hst (run_inv Phi opt Sol dedup hphi hR hX hr hi) ih

/-- when some worker has left and the abort flag is down, the incumbent is the optimum and `best_ub` equals it -/
theorem final_optimal {s : Sys S} (hi : SysInv Phi opt Sol s) (hd : DoneInv s) {j : Nat} (hj : s.ws[j]? = some .done)
    (ha : s.crit.base.abort = false) :
    s.crit.base.bestLb = opt ∧ s.crit.base.bestUb = opt ∧ ∀ p, s.crit.base.bestSol = some p → Sol p opt := by
  obtain ⟨hf, ho, hub⟩ := hd.closed ⟨j, hj⟩ ha
  have h1 : ¬ opt > s.crit.base.bestLb := by
    intro hgt
    rcases hi.cover hgt with ⟨x, hx, _⟩ | ⟨h, _⟩
    · exact nothing_open Phi opt Sol hi ho hf x hx
    · rw [ha] at h; cases h
  have h2 := hi.lbOk
  have : s.crit.base.bestLb = opt := by omega
  exact ⟨this, by rw [hub]; exact this, fun p hp => this ▸ hi.solOk p hp⟩


/-! ### no solution stored ⇒ the incumbent is still `isize::MIN` -/

/-- `best_sol` and `best_lb` are written together: without a stored solution the lower bound is the sentinel -/
def NoSol (s : Sys S) : Prop := s.crit.base.bestSol = none → s.crit.base.bestLb = iMin

theorem enqueue_lb_sol (dedup : Bool) (st : SeqSt S) (cs : List (SubP S)) :
    (st.enqueue dedup cs).bestLb = st.bestLb ∧ (st.enqueue dedup cs).bestSol = st.bestSol := by
  cases dedup
  · exact ⟨(enqueue_false_spec st cs).1, (enqueue_false_spec st cs).2.1⟩
  · exact ⟨(enqueue_true_spec st cs).1, (enqueue_true_spec st cs).2.1⟩

theorem update_noSol {b : SeqSt S} {n : SubP S} {lb : Int} {o : DDOut S} (hc : CompileOk Phi opt Sol n lb o)
    (h : b.bestSol = none → b.bestLb = iMin) :
    (b.updateBest o).bestSol = none → (b.updateBest o).bestLb = iMin := by
  unfold SeqSt.updateBest
  cases hb : o.bestExact with
  | none => exact h
  | some w =>
    simp only
    split
    · intro hn
      obtain ⟨p, hp, _⟩ := hc.sound w hb
      have hn : o.bestExactSol = none := hn
      rw [hp] at hn; cases hn
    · exact h

theorem step_noSol (dedup : Bool) {okR okX : SubP S → Int → DDOut S → Prop}
    {s t : Sys S} (h : Step dedup okR okX s t) (hi : SysInv Phi opt Sol s) (hn : NoSol s) : NoSol t := by
  cases h with
  | gwAborted i hw ha => exact hn
  | gwComplete i hw ha ho hf => exact hn
  | gwWait i hw ha ho hf => exact hn
  | gwStarve i N rest c' k hw ha hp hl =>
    rw [popLoop_single] at hl
    split at hl
    · injection hl with hc _; subst hc; exact hn
    · injection hl with _ hl; injection hl with hl; cases hl
  | gwItem i N rest c' nn k c'' hw ha hp hl ht =>
    obtain ⟨rfl, rfl⟩ := popLoop_item hl
    obtain ⟨_, t2, t3, _⟩ := take_spec ht
    intro h
    have h : c''.base.bestSol = none := h
    show c''.base.bestLb = iMin
    rw [t2]; rw [t3] at h; exact hn h
  | gwCrash i N rest c' nn k hw ha hp hl ht =>
    obtain ⟨rfl, rfl⟩ := popLoop_item hl
    exact hn
  | readLbR i n hw => exact hn
  | compileR i n lb r hw hok => exact hn
  | updateR i n lb o hw =>
    have hc : CompileOk Phi opt Sol n lb o := ((hi.loc i _ hw).stage : _ ∧ _).2
    exact update_noSol Phi opt Sol hc hn
  | readLbX i n hw => exact hn
  | compileX i n lb r hw hok => exact hn
  | updateX i n lb o hw =>
    have hc : CompileOk Phi opt Sol n lb o := ((hi.loc i _ hw).stage : _ ∧ _ ∧ _).2.1
    exact update_noSol Phi opt Sol hc hn
  | enqueue i n lb o hw =>
    obtain ⟨e1, e2⟩ := enqueue_lb_sol dedup s.crit.base o.cutset
    intro h
    have h : (s.crit.base.enqueue dedup o.cutset).bestSol = none := h
    show (s.crit.base.enqueue dedup o.cutset).bestLb = iMin
    rw [e1]; rw [e2] at h; exact hn h
  | abort i n top hw htop => exact hn
  | notify i n te c' hw hn' =>
    obtain ⟨n1, _⟩ := notify_spec hn'
    intro h
    have h : c'.base.bestSol = none := h
    show c'.base.bestLb = iMin
    rw [n1] at h ⊢; exact hn h

theorem init_noSol (P : Problem S) (primal : Option (Int × List Dec)) (dedup : Bool) (U : Nat) :
    NoSol (Sys.init P primal dedup U) := by
  obtain ⟨_, _, _, b4, b5⟩ := init_base P primal dedup
  intro h
  have h : (SeqSt.init P primal dedup).bestSol = none := h
  show (SeqSt.init P primal dedup).bestLb = iMin
  rw [b4]; rw [b5] at h
  cases primal with
  | none => rfl
  | some vs =>
    obtain ⟨v, sol⟩ := vs
    simp only [primalSol, primalLb] at h ⊢
    split at h
    · cases h
    · next hv => rw [if_neg hv]

theorem run_noSol (dedup : Bool) (hphi : PhiOk Phi dedup) {okR okX : SubP S → Int → DDOut S → Prop}
    (hR : ∀ n lb o, okR n lb o → OkR Phi opt Sol n lb o) (hX : ∀ n lb o, okX n lb o → OkX Phi opt Sol n lb o)
    {s t : Sys S} (h : Run dedup okR okX s t) (hi : SysInv Phi opt Sol s) (hn : NoSol s) : NoSol t := by
  induction h with
  | refl => exact hn
  | tail hr hst ih => exact step_noSol Phi opt Sol dedup hst (run_inv Phi opt Sol dedup hphi hR hX hr hi) ih

/-! ### contracts are monotone in the optimum and in the feasibility predicate (for unverified primals) -/

theorem CompileOk.weaken {opt' : Int} {Sol' : List Dec → Int → Prop} (hle : opt ≤ opt') (hS : ∀ p w, Sol p w → Sol' p w)
    {n : SubP S} {lb : Int} {o : DDOut S} (h : CompileOk Phi opt Sol n lb o) : CompileOk Phi opt' Sol' n lb o :=
  ⟨fun w hw => by
      obtain ⟨p, hp, hs, hw'⟩ := h.sound w hw
      exact ⟨p, hp, hS p w hs, by omega⟩,
   h.within, h.exact⟩

theorem CutsetOk.weaken {opt' : Int} (hle : opt ≤ opt') {n : SubP S} {lb : Int} {o : DDOut S}
    (h : CutsetOk Phi opt n lb o) : CutsetOk Phi opt' n lb o :=
  ⟨fun c hc x hx => by have := h.good c hc x hx; omega, h.ub, h.cover, h.sub⟩

end
end Ddo.ParSys
