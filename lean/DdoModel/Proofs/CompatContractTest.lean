import DdoModel.Proofs.CompatSearch
/-! C10e — **executable test of the contract of a single compilation** (`Ddo.C10d.JointContract`, `Proofs/CompatProcess.lean`) on the
models of `Proofs/CompatSearch.lean`.

Executable code only.  For every compilation of every best-first run (restricted when it is exact, relaxed otherwise), as long as the
incumbent after the compilation is below the optimum, the five fields the joint statement is reduced to are evaluated with the
pseudo-potential of the model (`tmin`: the least value with which a state is `GAbove`, from `goodTable`; `hot (d, x, v)` ⟺ `v ≥ tmin`):
`JCEasy` (cut-set of an exact diagram below `opt`, cut-set strictly deeper), `JCTheta`, `JCRoot`, `JCUb`, `JCFresh`.  The counters of
violated fields are what the driver prints. -/
set_option linter.unusedVariables false
namespace Ddo.C10d.ContractTest
open Ddo Ddo.C01 Ddo.Closed Ddo.C09 Ddo.C10 Ddo.C10c Ddo.C10d.Grid Ddo.C10d.Search
open Ddo.C09.NoCapSearch (Rng)

structure Viol where
  comps : Nat := 0
  easy : Nat := 0
  theta : Nat := 0
  root : Nat := 0
  ub : Nat := 0
  fresh : Nat := 0
  hotUps : Nat := 0      -- updates that apply to a hot item (the field `JCTheta` is not vacuous)
  hotRoots : Nat := 0
  hotCut : Nat := 0
  hits : Nat := 0        -- justifications through the consulted cache (`HitO`)
  deriving Repr

def Viol.add (a b : Viol) : Viol :=
  { comps := a.comps + b.comps, easy := a.easy + b.easy, theta := a.theta + b.theta, root := a.root + b.root, ub := a.ub + b.ub,
    fresh := a.fresh + b.fresh, hotUps := a.hotUps + b.hotUps, hotRoots := a.hotRoots + b.hotRoots, hotCut := a.hotCut + b.hotCut,
    hits := a.hits + b.hits }

/-- least value with which the state `x` is `GAbove` at depth `d` -/
def tmin (T : Tab) (good : Array (List (Nat × Int))) (d : Nat) (x : Int) : Option Int :=
  (good.getD d []).foldl (fun (a : Option Int) g =>
    if geS T (st T x) g.1 then (match a with | none => some g.2 | some t => some (min t g.2)) else a) none

def hot (T : Tab) (good : Array (List (Nat × Int))) (d : Nat) (x : Int) (v : Int) : Bool :=
  match tmin T good d x with
  | some t => decide (t ≤ v)
  | none => false

/-- the cache holds, strictly deeper than `d`, an entry that applies to a hot item -/
def hitO (T : Tab) (good : Array (List (Nat × Int))) (c : Cache Int) (d : Nat) : Bool :=
  (List.range c.layers.length).any (fun d' => decide (d < d') &&
    (c.layers.getD d' []).any (fun e => hot T good d' e.1 e.2.value))

/-- the fields of the contract for one compilation result `r` of `N`, consulted cache `c`, incumbent `lb` -/
def checkComp (T : Tab) (opt : Int) (good : Array (List (Nat × Int))) (c : Cache Int) (N : SubP Int) (lb : Int) (r : Result Int) :
    Viol :=
  let bk := match r.bestExactValue with | some w => max lb w | none => lb
  if bk ≥ opt then {} else
  let hotN := fun (q : SubP Int) => hot T good q.depth q.state q.value
  let hitAt := fun d => hitO T good c d
  let easyOk := (!r.isExact || r.cutset.all (fun q => decide (q.ub < opt))) && r.cutset.all (fun q => decide (N.depth < q.depth))
  let hotU := r.cacheUpdates.filter (fun u => hot T good u.2.1 u.1 u.2.2.1)
  let thetaOk := hotU.all (fun u => r.cutset.any (fun q => decide (u.2.1 ≤ q.depth) && hotN q) || hitAt u.2.1)
  let rootOk := !hotN N || (if r.isExact then hitAt N.depth else (r.cutset.any hotN || hitAt N.depth))
  let hotC := r.cutset.filter hotN
  let ubOk := hotC.all (fun q => decide (opt ≤ q.ub) || hitAt q.depth)
  let c' := (applyUps c r.cacheUpdates.reverse).getD c
  let freshOk := r.cutset.all (fun q => !decide (opt ≤ q.ub) || (c'.mustExplore q.state q.depth q.value == some true))
  { comps := 1, easy := if easyOk then 0 else 1, theta := if thetaOk then 0 else 1, root := if rootOk then 0 else 1,
    ub := if ubOk then 0 else 1, fresh := if freshOk then 0 else 1, hotUps := hotU.length,
    hotRoots := if hotN N then 1 else 0, hotCut := hotC.length,
    hits := (if hotN N && hitAt N.depth then 1 else 0) + (hotU.filter (fun u => hitAt u.2.1)).length }

/-- `process_one_node` with cache and checker (as `DSolverCfg.kdprocess`), checking the contract of the compilations that count -/
def processC (T : Tab) (opt : Int) (good : Array (List (Nat × Int))) (dv : DSolverCfg Int Int) (st : SeqSt Int) (c0 : Cache Int)
    (d0 : DomStore Int Int) (N : SubP Int) : Option (KDSt Int Int × Viol) :=
  if N.ub ≤ st.bestLb then some (⟨st, c0, d0⟩, {})
  else
    match c0.mustExplore N.state N.depth N.value with
    | none => none
    | some false => some (⟨st, c0, d0⟩, {})
    | some true =>
      let cR := dv.kdcompR c0 d0 N st.bestLb
      if cR.1 ≠ .ok then none
      else
        match applyUps c0 cR.2.1.cacheUpdates.reverse with
        | none => none
        | some c1 =>
          let st1 := st.updateBest (toOut cR.2.1)
          let d1 := cR.2.2.2.store
          if cR.2.1.isExact then some (⟨st1, c1, d1⟩, checkComp T opt good c0 N st.bestLb cR.2.1)
          else
            let cX := dv.kdcompX c1 d1 N st1.bestLb
            if cX.1 ≠ .ok then none
            else
              match applyUps c1 cX.2.1.cacheUpdates.reverse with
              | none => none
              | some c2 =>
                let st2 := st1.updateBest (toOut cX.2.1)
                let d2 := cX.2.2.2.store
                let v := checkComp T opt good c1 N st1.bestLb cX.2.1
                if cX.2.1.isExact then some (⟨st2, c2, d2⟩, v)
                else some (⟨st2.enqueue dv.sv.dedup cX.2.1.cutset, c2, d2⟩, v)

def turnC (T : Tab) (opt : Int) (good : Array (List (Nat × Int))) (dv : DSolverCfg Int Int) (s : KDSt Int Int) (N : SubP Int)
    (rest : List (SubP Int)) : Option (KDSt Int Int × Viol) :=
  match cleanCache dv.sv.P.nbVars s.st.openByLayer dv.sv.P.nbVars s.st.firstActive s.cache with
  | none => none
  | some c0 =>
    processC T opt good dv (popped s.st N rest (cleanLoop dv.sv.P.nbVars s.st.openByLayer dv.sv.P.nbVars s.st.firstActive)) c0 s.store N

/-- a run (best-first, or any order), accumulating the violations -/
def runC (T : Tab) (opt : Int) (good : Array (List (Nat × Int))) (dv : DSolverCfg Int Int) (anyOrder : Bool) :
    Nat → Rng → KDSt Int Int → Viol → Rng × Viol × Bool
  | 0, g, _, v => (g, v, false)
  | fuel + 1, g, s, v =>
    if s.st.fringe.isEmpty then (g, v, s.st.bestLb == opt)
    else
      let cands := if anyOrder then List.range s.st.fringe.length else maxIdx s.st.fringe
      let (g, j) := g.below cands.length
      match popAt s.st.fringe (cands.getD j 0) with
      | none => (g, v, false)
      | some (N, rest) =>
        match turnC T opt good dv s N rest with
        | none => (g, v, false)
        | some (t, w) => runC T opt good dv anyOrder fuel g t (v.add w)

def contractMain (args : List String) : IO UInt32 := do
  let a := args.map String.toNat!
  let seed := a.getD 0 1
  let count := a.getD 1 1000
  let pp : Params := { nlo := a.getD 2 5, nhi := a.getD 3 9, mmax := a.getD 4 40, rubMode := 0, gmax := a.getD 5 5 }
  let anyOrder := a.getD 6 0 != 0
  -- sanity: on `Shadow` (rough upper bound below the value-to-go of the shadow state) the contract must fail
  let TS := Ddo.C10d.Shadow.T
  let dS := dv TS Ddo.C10d.Shadow.ws false .lel
  let (_, vS, _) := runC TS 10 (goodTable TS 10) dS false 40 ⟨1⟩ (KDSt.init dS) {}
  IO.println s!"sanity Shadow (must violate): {repr vS}"
  let mut r : Rng := ⟨seed.toUInt64 * 0x2545F4914F6CDD1D + 777001⟩
  let mut tot : Viol := {}
  let mut models := 0
  let mut runs := 0
  let mut bad := 0
  let mut shown := 0
  let mutMode := a.getD 7 0 != 0
  let base := honest Ddo.C10d.Shadow.T
  while models < count do
    -- `mutMode`: mutants of `Shadow` with the rough upper bound repaired (the dangerous regime) instead of random models
    let (r1, T) := if mutMode then
        (let (r1, k) := r.below 6
         let (r2, T1, _) := mutate r1 base Ddo.C10d.Shadow.ws (k + 1)
         (r2, honest T1))
      else genModel r pp
    r := r1
    if checkShape T && checkSim T && checkJoin T then
      match optimum T with
      | none => pure ()
      | some opt =>
        models := models + 1
        let good := goodTable T opt
        for (dedup, kind) in [(false, CutsetKind.lel), (false, CutsetKind.frontier), (true, CutsetKind.lel), (true, CutsetKind.frontier)] do
          let (r2, ws) := genWs r T
          r := r2
          let dvv := dv T ws dedup kind
          let (r3, v, ok) := runC T opt good dvv anyOrder 80 r (KDSt.init dvv) {}
          r := r3
          runs := runs + 1
          if !ok then bad := bad + 1
          if v.easy + v.theta + v.root + v.ub + v.fresh > 0 && shown < 4 then
            shown := shown + 1
            IO.println s!"VIOLATION {repr v} dedup={dedup} kind={repr kind} ws={ws} opt={opt} | {showTab T}"
          tot := tot.add v
        if models % 20000 == 0 then
          IO.println s!"progress models={models} runs={runs} wrongValue={bad} {repr tot}"
          (← IO.getStdout).flush
  IO.println s!"final models={models} runs={runs} wrongValue={bad} {repr tot}"
  return 0

end Ddo.C10d.ContractTest
