import DdoModel.Proofs.ParDomGenDefs
/-! # The parallel solver with the dominance checker, generic in the answer relations — side conditions, bookkeeping, progress

The proofs of `ParDomLay.lean` for arbitrary answer relations `okR` / `okX` meeting `AnsOk`. -/
set_option linter.unusedSectionVars false
set_option linter.unusedVariables false
namespace Ddo.ParDom
open Ddo Ddo.Truth Ddo.Closed Ddo.ParSys Ddo.ParClosed Ddo.C10
open Ddo.C01 (SolverCfg WellFormed toOut SolOf)
variable {S K : Type} [DecidableEq S] [DecidableEq K]

/-! ## the side conditions as an invariant -/

theorem gwokp_wake {dv : DSolverCfg S K} {okR okX : SubP S → Int → DDOut S → Prop} {B : Int} {w : WSt S}
    (h : GWOkP dv okR okX B w) : GWOkP dv okR okX B w.wake := by
  cases w <;> first | exact h | exact ⟨fun n hn => (by cases hn), trivial⟩

theorem gwokp_free {dv : DSolverCfg S K} {okR okX : SubP S → Int → DDOut S → Prop} {B : Int} {w : WSt S}
    (hn : w.node = none) (hs : GWInv okR okX B w) : GWOkP dv okR okX B w :=
  ⟨fun n h => (by rw [hn] at h; cases h), hs⟩

theorem gwokp_keep {dv : DSolverCfg S K} {okR okX : SubP S → Int → DDOut S → Prop} {B : Int} {w w' : WSt S} {n : SubP S}
    (h : GWOkP dv okR okX B w) (hn : w.node = some n) (hn' : w'.node = some n) (hs : GWInv okR okX B w') :
    GWOkP dv okR okX B w' :=
  ⟨fun m hm => (by rw [hn'] at hm; injection hm with hm; subst hm; exact h.node _ hn), hs⟩

/-- **every section of every worker preserves `GPCInv`** (`opt` exists: the `infeas` field of `BaseOk` is vacuous) -/
theorem gstep_pcinv {dv : DSolverCfg S K} {H : Nat → S → EInt} {B0 B opt : Int} {Prot : Nat → S → Int → Prop}
    {okR okX : SubP S → Int → DDOut S → Prop} (hwf : WellFormed dv.sv H B0 B)
    (hopt : (H 0 dv.sv.P.init).addI dv.sv.P.initVal = some opt) (hA : AnsOk dv B opt Prot okR okX) {s t : Sys S}
    (h : Step dv.sv.dedup okR okX s t) (hI : GPCInv dv H okR okX B s) : GPCInv dv H okR okX B t := by
  have hmem : ∀ {i : Nat} {w : WSt S}, s.ws[i]? = some w → GWOkP dv okR okX B w :=
    fun hw => hI.ws _ (List.mem_of_getElem? hw)
  have hinf0 : ∀ {o : DDOut S}, (H 0 dv.sv.P.init).addI dv.sv.P.initVal = none → o.bestExact = none :=
    fun hinf => by rw [hopt] at hinf; cases hinf
  cases h with
  | gwAborted i hw ha => exact ⟨hI.base, mem_set_elim hI.ws (gwokp_free rfl trivial)⟩
  | gwComplete i hw ha ho hf =>
    exact ⟨hI.base.of_eq (fun c hc => hc) rfl rfl, mem_set_elim hI.ws (gwokp_free rfl trivial)⟩
  | gwWait i hw ha ho hf => exact ⟨hI.base, mem_set_elim hI.ws (gwokp_free rfl trivial)⟩
  | gwStarve i N rest c' k hw ha hp hl =>
    rw [popLoop_single] at hl
    split at hl
    · injection hl with hc _
      subst hc
      exact ⟨hI.base.of_eq (fun c hc => by cases hc) rfl rfl, hI.ws⟩
    · injection hl with _ hl; injection hl with hl; cases hl
  | gwItem i N rest c' nn k c'' hw ha hp hl ht =>
    obtain ⟨rfl, rfl⟩ := popLoop_item hl
    obtain ⟨t1, t2, t3, _⟩ := take_spec ht
    have hN : nn ∈ s.crit.base.fringe := (mem_of_popMax hp nn).mpr (Or.inl rfl)
    refine ⟨hI.base.of_eq (fun c hc => ?_) t2 t3, mem_set_elim hI.ws ⟨fun m hm => ?_, trivial⟩⟩
    · rw [t1] at hc
      exact (mem_of_popMax hp c).mpr (Or.inr hc)
    · injection hm with hm; subst hm; exact hI.base.fr _ hN
  | gwCrash i N rest c' nn k hw ha hp hl ht =>
    obtain ⟨rfl, rfl⟩ := popLoop_item hl
    have hN : nn ∈ s.crit.base.fringe := (mem_of_popMax hp nn).mpr (Or.inl rfl)
    refine ⟨hI.base.of_eq (fun c hc => ?_) rfl rfl, mem_set_elim hI.ws ⟨fun m hm => ?_, trivial⟩⟩
    · exact (mem_of_popMax hp c).mpr (Or.inr hc)
    · injection hm with hm; subst hm; exact hI.base.fr _ hN
  | readLbR i n hw =>
    refine ⟨hI.base, mem_set_elim hI.ws ?_⟩
    split
    · exact gwokp_keep (hmem hw) rfl rfl trivial
    · exact gwokp_keep (hmem hw) rfl rfl ⟨hI.base.lbLo, hI.base.lbHi⟩
  | compileR i n lb r hw hok =>
    refine ⟨hI.base, mem_set_elim hI.ws ?_⟩
    cases r with
    | ok o => exact gwokp_keep (hmem hw) rfl rfl (hok o rfl)
    | cutoff => exact gwokp_keep (hmem hw) rfl rfl trivial
  | updateR i n lb o hw =>
    have f1 := hA.factsR _ _ _ ((hmem hw).node n rfl) (hmem hw).stage
    refine ⟨baseOk_update hI.base f1 hinf0, mem_set_elim hI.ws ?_⟩
    split
    · exact gwokp_keep (hmem hw) rfl rfl trivial
    · exact gwokp_keep (hmem hw) rfl rfl trivial
  | readLbX i n hw =>
    exact ⟨hI.base, mem_set_elim hI.ws (gwokp_keep (hmem hw) rfl rfl ⟨hI.base.lbLo, hI.base.lbHi⟩)⟩
  | compileX i n lb r hw hok =>
    refine ⟨hI.base, mem_set_elim hI.ws ?_⟩
    cases r with
    | ok o => exact gwokp_keep (hmem hw) rfl rfl (hok o rfl)
    | cutoff => exact gwokp_keep (hmem hw) rfl rfl trivial
  | updateX i n lb o hw =>
    obtain ⟨f1, _⟩ := hA.factsX _ _ _ ((hmem hw).node n rfl) (hmem hw).stage
    refine ⟨baseOk_update hI.base f1 hinf0, mem_set_elim hI.ws ?_⟩
    split
    · exact gwokp_keep (hmem hw) rfl rfl trivial
    · exact gwokp_keep (hmem hw) rfl rfl (hmem hw).stage
  | enqueue i n lb o hw =>
    obtain ⟨_, f3⟩ := hA.factsX _ _ _ ((hmem hw).node n rfl) (hmem hw).stage
    obtain ⟨e1, e2⟩ := enqueue_lb_sol dv.sv.dedup s.crit.base o.cutset
    refine ⟨⟨?_, ?_, ?_, ?_, ?_⟩, mem_set_elim hI.ws (gwokp_keep (hmem hw) rfl rfl trivial)⟩
    · exact enqueue_forall (C01.NodeOk dv.sv.P) (C01.nodeOk_ub dv.sv.P) dv.sv.dedup s.crit.base o.cutset hI.base.fr
        (fun c hc => (f3 c hc).1)
    · show iMin ≤ (s.crit.base.enqueue dv.sv.dedup o.cutset).bestLb
      rw [e1]; exact hI.base.lbLo
    · show (s.crit.base.enqueue dv.sv.dedup o.cutset).bestLb ≤ B
      rw [e1]; exact hI.base.lbHi
    · show (s.crit.base.enqueue dv.sv.dedup o.cutset).bestSol = none → (s.crit.base.enqueue dv.sv.dedup o.cutset).bestLb = iMin
      rw [e1, e2]; exact hI.base.solLb
    · show _ → (s.crit.base.enqueue dv.sv.dedup o.cutset).bestLb = iMin ∧ (s.crit.base.enqueue dv.sv.dedup o.cutset).bestSol = none
      rw [e1, e2]; exact hI.base.infeas
  | abort i n top hw htop =>
    exact ⟨hI.base.of_eq (fun c hc => by cases hc) rfl rfl, mem_set_elim hI.ws (gwokp_keep (hmem hw) rfl rfl trivial)⟩
  | notify i n te c' hw hn =>
    obtain ⟨n1, _, _, _⟩ := notify_spec hn
    refine ⟨by rw [n1]; exact hI.base, mem_set_elim (fun w hw' => ?_) ?_⟩
    · obtain ⟨w0, hw0, rfl⟩ := List.mem_map.mp hw'
      exact gwokp_wake (hI.ws w0 hw0)
    · cases te
      · exact gwokp_free rfl trivial
      · exact gwokp_free rfl trivial

/-- **`GPCInv` holds initially** -/
theorem init_gpcinv {dv : DSolverCfg S K} {H : Nat → S → EInt} {B0 B : Int} (okR okX : SubP S → Int → DDOut S → Prop)
    (hwf : WellFormed dv.sv H B0 B) (U : Nat) : GPCInv dv H okR okX B (Sys.init dv.sv.P none dv.sv.dedup U) := by
  refine ⟨(init_pcinv hwf none (fun _ _ h => by cases h) U).base, ?_⟩
  intro w hw
  have hw : w ∈ List.replicate U (WSt.idle : WSt S) := hw
  rw [List.eq_of_mem_replicate hw]
  exact gwokp_free rfl trivial

/-! ## the bookkeeping -/

/-- **every section of every worker preserves the bookkeeping invariant** — and the panic step `gwCrash` is not enabled -/
theorem gstep_layinv {dv : DSolverCfg S K} {H : Nat → S → EInt} {B0 B opt : Int} {Prot : Nat → S → Int → Prop}
    {okR okX : SubP S → Int → DDOut S → Prop} (hwf : WellFormed dv.sv H B0 B) (hA : AnsOk dv B opt Prot okR okX) {s t : Sys S}
    (h : Step dv.sv.dedup okR okX s t) (hI : GPCInv dv H okR okX B s) (hL : LayInv dv.sv s) : LayInv dv.sv t := by
  have hmem : ∀ {i : Nat} {w : WSt S}, s.ws[i]? = some w → GWOkP dv okR okX B w :=
    fun hw => hI.ws _ (List.mem_of_getElem? hw)
  cases h with
  | gwAborted i hw ha => exact ⟨hL.crit, handLay_set hL.hand hw rfl rfl (fun e => by cases e) rfl rfl rfl⟩
  | gwComplete i hw ha ho hf =>
    exact ⟨⟨hL.crit.openLen, hL.crit.openOk, hL.crit.noPanic⟩,
      handLay_set hL.hand hw rfl rfl (fun e => by cases e) rfl rfl rfl⟩
  | gwWait i hw ha ho hf => exact ⟨hL.crit, handLay_set hL.hand hw rfl rfl (fun _ => ho) rfl rfl rfl⟩
  | gwStarve i N rest c' k hw ha hp hl =>
    rw [popLoop_single] at hl
    split at hl
    · injection hl with hc _
      subst hc
      refine ⟨⟨?_, fun _ => ⟨?_, fun d hd' => ?_⟩, hL.crit.noPanic⟩,
        ⟨hL.hand.ongoLen, hL.hand.ongoCnt, hL.hand.cnt, hL.hand.len, hL.hand.noCrash, hL.hand.parked⟩⟩
      · show (s.crit.base.openByLayer.map (fun _ => 0)).length = _
        rw [List.length_map]; exact hL.crit.openLen
      · show (s.crit.base.openByLayer.map (fun _ => 0)).length = _
        rw [List.length_map]; exact hL.crit.openLen
      · show (s.crit.base.openByLayer.map (fun _ => 0))[d]? = some (cntD [] d)
        rw [List.getElem?_map, List.getElem?_eq_getElem (by rw [hL.crit.openLen]; omega)]
        rfl
    · injection hl with _ hl; injection hl with hl; cases hl
  | gwItem i N rest c' nn k c'' hw ha hp hl ht =>
    obtain ⟨rfl, rfl⟩ := popLoop_item hl
    obtain ⟨t1, _, _, _, t5, t6, t7, _⟩ := take_spec ht
    obtain ⟨l, ol, h1, h2, h3, h4, h5⟩ := take_full ht
    have hN : nn.depth ≤ dv.sv.P.nbVars :=
      node_depth_le hwf (hI.base.fr nn ((mem_of_popMax hp nn).mpr (Or.inl rfl)))
    obtain ⟨l', hl', hlay⟩ := open_dec (hL.crit.openOk ha) hp.1 hN
    have hll : l = l' := by
      have h1 : decLayer s.crit.base.openByLayer nn.depth = some l := h1
      rw [hl'] at h1; exact (Option.some.inj h1).symm
    refine ⟨⟨by rw [h3, hll]; exact hlay.1, fun _ => ?_, by rw [h5]; exact hL.crit.noPanic⟩, ?_⟩
    · rw [h3, hll, t1]; exact hlay
    · exact handLay_take hL.hand hw hN h2 h4 t6 (by rw [t7, List.length_set]; rfl)
  | gwCrash i N rest c' nn k hw ha hp hl ht =>
    obtain ⟨rfl, rfl⟩ := popLoop_item hl
    have hN : nn.depth ≤ dv.sv.P.nbVars :=
      node_depth_le hwf (hI.base.fr nn ((mem_of_popMax hp nn).mpr (Or.inl rfl)))
    obtain ⟨c'', hc''⟩ := take_ne_none hL hw ha hp hN
    rw [hc''] at ht; cases ht
  | readLbR i n hw =>
    refine ⟨hL.crit, handLay_set hL.hand hw ?_ ?_ (fun e => ?_) rfl rfl rfl⟩
    · split <;> rfl
    · split <;> rfl
    · split at e <;> cases e
  | compileR i n lb r hw hok =>
    refine ⟨hL.crit, handLay_set hL.hand hw ?_ ?_ (fun e => ?_) rfl rfl rfl⟩
    · cases r <;> rfl
    · cases r <;> rfl
    · cases r <;> cases e
  | updateR i n lb o hw =>
    refine ⟨critLay_update o hL.crit, handLay_set hL.hand hw ?_ ?_ (fun e => ?_) rfl rfl rfl⟩
    · split <;> rfl
    · split <;> rfl
    · split at e <;> cases e
  | readLbX i n hw => exact ⟨hL.crit, handLay_set hL.hand hw rfl rfl (fun e => by cases e) rfl rfl rfl⟩
  | compileX i n lb r hw hok =>
    refine ⟨hL.crit, handLay_set hL.hand hw ?_ ?_ (fun e => ?_) rfl rfl rfl⟩
    · cases r <;> rfl
    · cases r <;> rfl
    · cases r <;> cases e
  | updateX i n lb o hw =>
    refine ⟨critLay_update o hL.crit, handLay_set hL.hand hw ?_ ?_ (fun e => ?_) rfl rfl rfl⟩
    · split <;> rfl
    · split <;> rfl
    · split at e <;> cases e
  | enqueue i n lb o hw =>
    obtain ⟨_, f3⟩ := hA.factsX _ _ _ ((hmem hw).node n rfl) (hmem hw).stage
    exact ⟨critLay_enqueue dv.sv.dedup o.cutset (fun c hc => (f3 c hc).2.2) hL.crit,
      handLay_set hL.hand hw rfl rfl (fun e => by cases e) rfl rfl rfl⟩
  | abort i n top hw htop =>
    exact ⟨⟨hL.crit.openLen, fun ha => (by cases ha), hL.crit.noPanic⟩,
      handLay_set hL.hand hw rfl rfl (fun e => by cases e) rfl rfl rfl⟩
  | notify i n te c' hw hn =>
    obtain ⟨n1, n2, n3, _⟩ := notify_spec hn
    obtain ⟨ol, h1, h2⟩ := notify_full hn
    have hN : n.depth ≤ dv.sv.P.nbVars := node_depth_le hwf ((hmem hw).node n rfl)
    refine ⟨by rw [n1]; exact hL.crit, ?_⟩
    cases te
    · exact handLay_notify hL.hand hw hN h1 h2 n2 (by rw [n3, List.length_set]) .idle (Or.inl rfl)
    · exact handLay_notify hL.hand hw hN h1 h2 n2 (by rw [n3, List.length_set]) .done (Or.inr rfl)

/-! ## progress -/

/-- **no deadlock, no lost wake-up, no panic**: some step that cuts nothing off is enabled as long as a worker has not left -/
theorem gstep_progress {dv : DSolverCfg S K} {H : Nat → S → EInt} {B0 B opt : Int} {Prot : Nat → S → Int → Prop}
    {okR okX : SubP S → Int → DDOut S → Prop} (hwf : WellFormed dv.sv H B0 B) (hA : AnsOk dv B opt Prot okR okX) {s : Sys S}
    (hI : GPCInv dv H okR okX B s) (hL : LayInv dv.sv s) (hnc : NoCut s) (hlive : ¬ AllDone s) :
    ∃ t, GStep dv.sv.dedup okR okX s t := by
  -- some worker is neither gone nor parked
  have hex : ∃ w ∈ s.ws, w ≠ WSt.done ∧ w ≠ WSt.waiting := by
    by_cases hwait : WSt.waiting ∈ s.ws
    · have h0 := hL.hand.parked hwait
      rw [hL.hand.cnt] at h0
      have hpos : 0 < s.ws.countP WSt.holds := by omega
      obtain ⟨w, hw, hh⟩ := List.countP_pos_iff.mp hpos
      refine ⟨w, hw, ?_, ?_⟩ <;> intro e <;> rw [e] at hh <;> cases hh
    · have : ∃ w ∈ s.ws, w ≠ WSt.done := by
        apply Classical.byContradiction
        intro hno
        apply hlive
        intro w hw
        apply Classical.byContradiction
        intro hne
        exact hno ⟨w, hw, hne⟩
      obtain ⟨w, hw, hne⟩ := this
      exact ⟨w, hw, hne, fun e => hwait (e ▸ hw)⟩
  obtain ⟨w, hw, h1, h2⟩ := hex
  obtain ⟨i, hi⟩ := List.mem_iff_getElem?.mp hw
  have hcr := hL.hand.noCrash w hw
  have hwok := hI.ws w hw
  have ha : s.crit.base.abort = false := hnc.1
  have hws : ∀ w ∈ s.ws, ∀ n, w ≠ WSt.abortS n := fun w hw n => (hnc.2 w hw n).1
  have key : ∀ (c : ParCrit S) (w' : WSt S), (∀ n, w' ≠ WSt.abortS n) → NoAbortS { crit := c, ws := s.ws.set i w' } :=
    fun c w' hw' => mem_set_elim (P := fun w => ∀ n, w ≠ WSt.abortS n) hws hw'
  cases w with
  | idle =>
    cases hp : popMax s.crit.base.fringe with
    | none =>
      have hf := popMax_none hp
      by_cases ho : s.crit.ongoing = 0
      · exact ⟨_, .gwComplete s i hi ha ho hf, key _ _ (fun n => by simp)⟩
      · exact ⟨_, .gwWait s i hi ha ho hf, key _ _ (fun n => by simp)⟩
    | some p =>
      obtain ⟨N, rest⟩ := p
      have hpm := popMax_popMax hp
      by_cases hle : N.ub ≤ s.crit.base.bestLb
      · refine ⟨_, .gwStarve s i N rest (starved (setFringe s.crit rest)) 1 hi ha hpm ?_, hws⟩
        rw [popLoop_single]
        exact if_pos hle
      · have hl : popLoop (setFringe s.crit rest) [(N, true)] 0 = (setFringe s.crit rest, some (some N), 1) := by
          rw [popLoop_single]; exact if_neg hle
        have hN : N.depth ≤ dv.sv.P.nbVars :=
          node_depth_le hwf (hI.base.fr N ((mem_of_popMax hpm N).mpr (Or.inl rfl)))
        obtain ⟨c'', hc''⟩ := take_ne_none hL hi ha hpm hN
        exact ⟨_, .gwItem s i N rest _ N 1 c'' hi ha hpm hl hc'', key _ _ (fun n => by simp)⟩
  | waiting => exact absurd rfl h2
  | done => exact absurd rfl h1
  | crashed n => cases hcr
  | readR n => exact ⟨_, .readLbR s i n hi, key _ _ (fun m => by split <;> simp)⟩
  | compR n lb =>
    obtain ⟨o0, ho0⟩ := hA.answersR n lb (hwok.node n rfl)
    refine ⟨_, .compileR s i n lb (.ok o0) hi (fun o ho => ?_), key _ _ (fun m => by simp [WSt.afterR])⟩
    injection ho with ho; subst ho
    exact ho0
  | updR n lb o => exact ⟨_, .updateR s i n lb o hi, key _ _ (fun m => by split <;> simp)⟩
  | readX n => exact ⟨_, .readLbX s i n hi, key _ _ (fun m => by simp)⟩
  | compX n lb =>
    obtain ⟨o0, ho0⟩ := hA.answersX n lb (hwok.node n rfl)
    refine ⟨_, .compileX s i n lb (.ok o0) hi (fun o ho => ?_), key _ _ (fun m => by simp [WSt.afterX])⟩
    injection ho with ho; subst ho
    exact ho0
  | updX n lb o => exact ⟨_, .updateX s i n lb o hi, key _ _ (fun m => by split <;> simp)⟩
  | enq n lb o => exact ⟨_, .enqueue s i n lb o hi, key _ _ (fun m => by simp)⟩
  | abortS n => exact absurd rfl (hws _ hw n)
  | fin n te =>
    obtain ⟨c', hc'⟩ := notify_ne_none hL hi (node_depth_le hwf (hwok.node n rfl))
    refine ⟨_, .notify s i n te c' hi hc', ?_⟩
    refine mem_set_elim (P := fun w => ∀ n, w ≠ WSt.abortS n) (fun w hw' m e => ?_) (fun m => by split <;> simp)
    obtain ⟨w0, hw0, rfl⟩ := List.mem_map.mp hw'
    have : w0 = .abortS m := by cases w0 <;> simp_all [WSt.wake]
    exact hws w0 hw0 m this

/-- the pending cut-sets make progress (for termination: `C03b.sys_terminates`) -/
theorem gpcinv_progOk {dv : DSolverCfg S K} {H : Nat → S → EInt} {B opt : Int} {Prot : Nat → S → Int → Prop}
    {okR okX : SubP S → Int → DDOut S → Prop} (hA : AnsOk dv B opt Prot okR okX) {s : Sys S}
    (hI : GPCInv dv H okR okX B s) : ProgOk dv.sv.P.nbVars s := by
  intro j n lb o hw c hc
  cases hw with
  | inl hw =>
    have h := hI.ws _ (List.mem_of_getElem? hw)
    exact ((hA.factsX _ _ _ (h.node n rfl) h.stage).2 c hc).2
  | inr hw =>
    have h := hI.ws _ (List.mem_of_getElem? hw)
    exact ((hA.factsX _ _ _ (h.node n rfl) h.stage).2 c hc).2

end Ddo.ParDom
