import DdoModel.Proofs.DomSound
/-! # Relaxed compilations with the dominance checker enabled: soundness of the reported exact value, no crash

* `filterDom_weak` — what `_filter_with_dominance` does, *without any hypothesis on the contents of the store*: the layer
  changes in `theta` only, at most `cur.length` positions are kept, and the checker does not panic (and the store keeps its
  number of layers) when the exact nodes of the layer have a depth inside the store.
* `stepLayer_g2_gen` / `buildLoop_g2_dom` — the invariant `G2` of `Proofs/MddTruth.lean` (every node not flagged relaxed is
  exact or has genuine arcs) with the checker on.
* `ebpMust_sound_dom`, **`isSol_relaxed_dom`** — `Truth.ebpMust_sound` / `Closed.isSol_relaxed` without `cfg.dom = none`.
* `buildLoop_no_crash_dom`, **`compile_no_crash_dom`** — `Closed.compile_no_crash` with the checker on.
* `relaxed_isExact_cases` — what `is_exact` means for a relaxed compilation. -/
set_option linter.unusedSectionVars false
set_option linter.unusedVariables false
namespace Ddo.C10
open Ddo Ddo.C01 Ddo.Closed Ddo.Truth
variable {S K : Type} [DecidableEq S] [DecidableEq K]

/-! ## 1. `_filter_with_dominance`, facts that need nothing of the store's contents -/

/-- the weak invariant of the fold: `k` bounds the number of positions kept -/
structure FdW (store : DomStore S K) (layer : List (Node S)) (k : Nat)
    (acc : List (Node S) × List Nat × DomStore S K × Bool) : Prop where
  th : ThEq acc.1 layer
  klen : acc.2.1.length ≤ k
  ok : (∀ n ∈ layer, n.isExact = true → n.depth < store.layers.length) →
    acc.2.2.2 = true ∧ acc.2.2.1.layers.length = store.layers.length

theorem fdStep_weak (D : DomRule S K) (store : DomStore S K) (layer : List (Node S)) (k : Nat)
    (acc : List (Node S) × List Nat × DomStore S K × Bool) (p : Nat) (h : FdW store layer k acc) :
    FdW store layer (k + 1) (fdStep D acc p) := by
  obtain ⟨ly, keep, st, ok⟩ := acc
  obtain ⟨hth, hk, hok⟩ := h
  dsimp only at hth hk hok
  unfold fdStep
  dsimp only
  cases hp : ly[p]? with
  | none => exact ⟨hth, by dsimp only; omega, hok⟩
  | some n =>
    dsimp only
    have hkA : (keep ++ [p]).length ≤ k + 1 := by rw [List.length_append, List.length_singleton]; omega
    by_cases hex : n.isExact = true
    · rw [if_pos hex]
      cases hq : DomStore.query D st n.state n.depth n.value with
      | none =>
        dsimp only
        refine ⟨hth, hkA, fun hd => ?_⟩
        exfalso
        obtain ⟨n0, hn0, hs0⟩ := hth.get hp
        obtain ⟨_, _, ed, ee, _, _⟩ := stripT_all hs0
        have := hd n0 (List.mem_of_getElem? hn0) (by rw [← ee]; exact hex)
        exact query_ne_none D st n.state n.depth n.value (by rw [(hok hd).2, ed]; exact this) hq
      | some r =>
        obtain ⟨st', dom, thr⟩ := r
        dsimp only
        have hlen' := query_len D st st' _ _ _ dom thr hq
        cases dom with
        | true =>
          rw [if_pos rfl]
          exact ⟨hth.set hp rfl, by dsimp only; omega, fun hd => ⟨(hok hd).1, hlen'.trans (hok hd).2⟩⟩
        | false =>
          rw [if_neg (by simp)]
          exact ⟨hth, hkA, fun hd => ⟨(hok hd).1, hlen'.trans (hok hd).2⟩⟩
    · rw [if_neg hex]
      exact ⟨hth, hkA, hok⟩

theorem fdFold_weak (D : DomRule S K) (store : DomStore S K) (layer : List (Node S)) :
    ∀ (l : List Nat) (k : Nat) (acc : List (Node S) × List Nat × DomStore S K × Bool), FdW store layer k acc →
      FdW store layer (k + l.length) (l.foldl (fdStep D) acc) := by
  intro l
  induction l with
  | nil => intro k acc h; simpa using h
  | cons p ps ih =>
    intro k acc h
    rw [List.foldl_cons]
    have := ih (k + 1) _ (fdStep_weak D store layer k acc p h)
    rw [List.length_cons, show k + (ps.length + 1) = k + 1 + ps.length by omega]
    exact this

/-- **`_filter_with_dominance`, whatever the store holds**: the layer changes in `theta` only; no more positions are kept than
    were presented; when the exact nodes of the layer have a depth inside the store the checker does not panic and the store
    keeps its number of layers -/
theorem filterDom_weak (cfg : Cfg S K) (D : DomRule S K) (hD : cfg.dom = some D) (store : DomStore S K)
    (layer : List (Node S)) (cur : List Nat) :
    ThEq (filterDom cfg store layer cur).1 layer ∧
    (filterDom cfg store layer cur).2.1.length ≤ cur.length ∧
    ((∀ n ∈ layer, n.isExact = true → n.depth < store.layers.length) →
      (filterDom cfg store layer cur).2.2.2 = true ∧
      (filterDom cfg store layer cur).2.2.1.layers.length = store.layers.length) := by
  rw [filterDom_eq cfg D hD]
  have h := fdFold_weak D store layer (fdSorted D layer cur) 0 (layer, [], store, true)
    ⟨ThEq.refl _, Nat.le_refl _, fun _ => ⟨rfl, rfl⟩⟩
  have hl : (fdSorted D layer cur).length = cur.length := Cover.length_sortBy _ _
  rw [hl, Nat.zero_add] at h
  exact ⟨h.th, h.klen, h.ok⟩

/-- the checker panics ⇒ the step crashes -/
theorem stepLayer_dom_crash (cfg : Cfg S K) (dd : DD S K) (var : Nat) (hne : dd.next ≠ []) (hc : cfg.useCache = false)
    (hok : (fdOf cfg dd).2.2.2 = false) : stepLayer cfg dd var = (none, .crash) := by
  have h1 : dd.next.isEmpty = false := by
    cases h : dd.next with
    | nil => exact absurd h hne
    | cons _ _ => rfl
  have h2 : (if dd.layers.isEmpty then (dd.next, List.range dd.next.length)
      else filterCache cfg dd.cache dd.next (List.range dd.next.length)) = (dd.next, List.range dd.next.length) := by
    split
    · rfl
    · exact Cover.filterCache_id cfg dd.cache dd.next _ hc (fun p hp => List.mem_range.mp hp)
  unfold fdOf at hok
  unfold stepLayer
  simp only [h1, h2, hok]
  rfl

/-! ## 2. the invariant `G2` with the checker enabled -/

theorem ess_of_stripT {a b : Node S} (h : Bounds.stripT a = Bounds.stripT b) : Ess a b := by
  have h1 := congrArg Node.state h
  have h2 := congrArg Node.value h
  have h3 := congrArg Node.best h
  have h4 := congrArg Node.inb h
  have h5 := congrArg Node.fRelaxed h
  have h6 := congrArg Node.fExact h
  simp only [Bounds.stripT] at h1 h2 h3 h4 h5 h6
  exact ⟨h1, h2, h3, h4, h5, h6⟩

/-- `Truth.stepLayer_g2` for the squash of any layer that equals `dd.next` up to `theta`, any list of positions -/
theorem stepLayer_g2_gen (cfg : Cfg S K) (hrel : cfg.ctype = .relaxed) (hW : 1 ≤ cfg.width)
    (dd dd' : DD S K) (var : Nat) (layer : List (Node S)) (cur : List Nat) (hth : ThEq layer dd.next)
    (hG : G2 cfg dd) (hdepth : dd.depth = cfg.root.depth + dd.layers.length)
    (hnv : cfg.P.nextVar dd.depth (dd.next.map (·.state)) = some var)
    (sq : List (Node S) × List Nat × List (Call S) × Option Nat)
    (hsq : squash cfg dd layer cur = some sq)
    (hl : dd'.layers = dd.layers ++ [(expandAll cfg var dd.layers.length sq.1 sq.2.1 sq.2.2.1).1])
    (hn : dd'.next = (expandAll cfg var dd.layers.length sq.1 sq.2.1 sq.2.2.1).2.1) : G2 cfg dd' := by
  have hsub := squash_subN cfg dd layer cur hrel hW sq hsq
  have hE := expandAll_ginv cfg dd.layers.length var sq.1 sq.2.1 sq.2.2.1
  generalize expandAll cfg var dd.layers.length sq.1 sq.2.1 sq.2.2.1 = ex at hE hl hn
  obtain ⟨hrub, hchild⟩ := hE
  -- a node of the squashed layer that is not flagged relaxed comes from `dd.next`
  have hback : ∀ m ∈ sq.1, m.fRelaxed = false → ∃ n00 ∈ dd.next, Ess n00 m := by
    intro m hm hr
    obtain ⟨n0, h0, hs⟩ := hsub m hm hr
    obtain ⟨i, hi⟩ := List.mem_iff_getElem?.1 h0
    obtain ⟨n00, h00, hs0⟩ := hth.get hi
    exact ⟨n00, List.mem_of_getElem? h00, (ess_of_stripT hs0.symm).trans (ess_of_stripD hs)⟩
  have hlen' : dd'.layers.length = dd.layers.length + 1 := by rw [hl, List.length_append, List.length_singleton]
  refine ⟨?_, ?_⟩
  · rw [hl]
    refine gOk_append_layer hG.layers ?_
    intro n hn' hr
    obtain ⟨i, hi⟩ := List.mem_iff_getElem?.1 hn'
    obtain ⟨n0, h0, hs⟩ := hrub.get hi
    have e0 := ess_of_stripRub hs
    obtain ⟨n00, h00, e00⟩ := hback n0 (List.mem_of_getElem? h0) (e0.2.2.2.2.1.trans hr)
    exact ((hG.next n00 h00).of_ess (e00.trans e0)) hr
  · rw [hn, hlen', hl]
    intro c hc _
    right
    obtain ⟨_, ⟨a, par, hb, ha, hp, hv⟩, harcs⟩ := hchild c hc
    refine ⟨dd.layers.length, dd.next.map (·.state), var, rfl, hdepth ▸ hnv, ?_, ?_⟩
    · obtain ⟨parF, hpF, hsF⟩ := hrub.get' hp
      refine ⟨a, parF, hb, ha, ?_, ?_⟩
      · rw [Cover.getNode_last]; exact hpF
      · rw [hv, (ess_of_stripRub hsF).2.1]
    · intro a ha
      obtain ⟨hfl, par, hp, h1, h2, h3, h4⟩ := harcs a ha
      obtain ⟨parF, hpF, hsF⟩ := hrub.get' hp
      have eF := ess_of_stripRub hsF
      refine ⟨hfl, parF, by rw [Cover.getNode_last]; exact hpF, ?_, h1, ?_, ?_, ?_⟩
      · intro hr
        obtain ⟨n00, h00, e00⟩ := hback par (List.mem_of_getElem? hp) (eF.2.2.2.2.1.trans hr)
        rw [← eF.1, ← e00.1]
        exact List.mem_map_of_mem h00
      · rw [← eF.1]; exact h2
      · rw [← eF.1]; exact h3
      · rw [← eF.1]; exact h4

/-- `Truth.buildLoop_g2` with the checker enabled (whatever the outcome of the loop) -/
theorem buildLoop_g2_dom (cfg : Cfg S K) (D : DomRule S K) (hD : cfg.dom = some D) (hrel : cfg.ctype = .relaxed)
    (hW : 1 ≤ cfg.width) (hc : cfg.useCache = false) :
    ∀ (fuel : Nat) (dd : DD S K), G2 cfg dd → dd.depth = cfg.root.depth + dd.layers.length →
      G2 cfg (buildLoop cfg none fuel dd).1 ∧
      (buildLoop cfg none fuel dd).1.layers.length ≤ dd.layers.length + fuel := by
  intro fuel
  induction fuel with
  | zero => intro dd hG _; exact ⟨hG, Nat.le_refl _⟩
  | succ fuel ih =>
    intro dd hG hdepth
    cases hnv : cfg.P.nextVar dd.depth (dd.next.map (·.state)) with
    | none =>
      have : buildLoop cfg none (fuel + 1) dd =
          ({ dd with log := Call.nextVar dd.depth (dd.next.map (·.state)) none :: dd.log }, .ok) := by
        conv => lhs; unfold buildLoop
        simp only [hnv]
      rw [this]
      exact ⟨hG.congr rfl rfl, by dsimp only; omega⟩
    | some var =>
      have hG1 : G2 cfg (tick dd var) := hG.congr rfl rfl
      rw [buildLoop_step cfg fuel dd var hnv]
      by_cases hne : (tick dd var).next = []
      · rw [stepLayer_empty cfg _ var hne]
        dsimp only
        refine ⟨⟨?_, ?_⟩, ?_⟩
        · exact gOk_append_layer hG1.layers (fun n hn => by cases hn)
        · intro n hn; rw [hne] at hn; cases hn
        · rw [List.length_append, List.length_singleton]; show dd.layers.length + 1 ≤ _; omega
      · cases hokd : (fdOf cfg (tick dd var)).2.2.2 with
        | false =>
          rw [stepLayer_dom_crash cfg _ var hne hc hokd]
          exact ⟨hG1, by show dd.layers.length ≤ _; omega⟩
        | true =>
          obtain ⟨s1, s2⟩ := stepLayer_dom cfg (tick dd var) var hne hc hokd
          cases hsq : squash cfg (tick dd var) (fdOf cfg (tick dd var)).1 (fdOf cfg (tick dd var)).2.1 with
          | none =>
            rw [s1 hsq]
            exact ⟨hG1, by show dd.layers.length ≤ _; omega⟩
          | some sq =>
            obtain ⟨dd', hst, hl, hn, hdd, _⟩ := s2 sq hsq
            rw [hst]
            dsimp only
            have hlen' : dd'.layers.length = dd.layers.length + 1 := by
              rw [hl, List.length_append, List.length_singleton]; rfl
            have hth : ThEq (fdOf cfg (tick dd var)).1 (tick dd var).next :=
              (filterDom_weak cfg D hD _ _ _).1
            have hG' : G2 cfg dd' :=
              stepLayer_g2_gen cfg hrel hW (tick dd var) dd' var _ _ hth hG1 hdepth hnv sq hsq hl hn
            obtain ⟨h1, h2⟩ := ih dd' hG' (by rw [hdd, hlen']; show dd.depth + 1 = _; omega)
            exact ⟨h1, by omega⟩

/-! ## 3. soundness of the reported exact value -/

/-- `Truth.ebpMust_sound` with the checker enabled -/
theorem ebpMust_sound_dom (cfg : Cfg S K) (D : DomRule S K) (hD : cfg.dom = some D) (B : Int) (p0 : List Dec)
    (hrel : cfg.ctype = .relaxed) (hW : 1 ≤ cfg.width) (hc : cfg.useCache = false)
    (hB : NoClamp cfg.P cfg.R cfg.root.value B)
    (hroot : Reach cfg.P cfg.root.depth cfg.root.state cfg.root.value p0)
    (cache : Cache S) (store : DomStore S K) (polls : Nat)
    (hok : (buildLoop cfg none (cfg.P.nbVars + 2) (initDD cfg cache store polls)).2 = .ok)
    (hmust : (finalizeLayers (buildLoop cfg none (cfg.P.nbVars + 2) (initDD cfg cache store polls)).1).ebpMust true = true)
    (w : Int)
    (hw : (finalize cfg (finalizeLayers (buildLoop cfg none (cfg.P.nbVars + 2) (initDD cfg cache store polls)).1) true).1.bestExactValue
      = some w) :
    Truthful cfg p0 w (finalize cfg (finalizeLayers (buildLoop cfg none (cfg.P.nbVars + 2) (initDD cfg cache store polls)).1) true).1 := by
  obtain ⟨hinv, hinv2⟩ := buildLoop_inv2 cfg B p0 hB none (cfg.P.nbVars + 2) (initDD cfg cache store polls)
    (initDD_inv cfg B p0 hB hroot cache store polls) (initDD_inv2 cfg cache store polls) rfl
    (by simp only [initDD, List.length_nil]; omega)
  have hterm := (buildLoop_inv cfg B p0 hB none (cfg.P.nbVars + 2) (initDD cfg cache store polls)
    (initDD_inv cfg B p0 hB hroot cache store polls) rfl (by simp only [initDD, List.length_nil]; omega)).2 hok
  obtain ⟨hG, hlen⟩ := buildLoop_g2_dom cfg D hD hrel hW hc (cfg.P.nbVars + 2) (initDD cfg cache store polls)
    (initDD_g2 cfg cache store polls) rfl
  have hlen0 : (initDD cfg cache store polls).layers.length = 0 := rfl
  rw [hlen0] at hlen
  generalize (buildLoop cfg none (cfg.P.nbVars + 2) (initDD cfg cache store polls)).1 = dd at *
  rw [finalize_bestExactValue] at hw
  simp only [if_true] at hw
  have hbv : maxValue dd.next = some w := by
    unfold Built.bestValue at hw; rwa [terminals_finalizeLayers] at hw
  obtain ⟨n1, _, hn1, _⟩ := find?_of_maxValue hbv
  rcases hterm with hnil | ⟨hnv, hdepth⟩
  · rw [hnil] at hn1; cases hn1
  · have hne : dd.next ≠ [] := List.ne_nil_of_mem hn1
    obtain ⟨hlayers, _⟩ := finalizeLayers_nonempty dd hne
    have hbt := bestTerminals_finalizeLayers dd w hbv
    have hF : FinOk cfg B p0 (dd.layers ++ [dd.next]) :=
      ⟨MInv.append_layer hinv.layers hinv.next, gOk_append_layer hG.layers hG.next, by
        rw [List.length_append, List.length_singleton]; omega⟩
    have hlast : (dd.layers ++ [dd.next])[dd.layers.length]? = some dd.next := List.getElem?_concat_length
    simp only [Built.ebpMust, Bool.true_and, hbt, hlayers, List.all_eq_true, List.mem_filter, decide_eq_true_eq] at hmust
    refine finalize_truthful cfg p0 w dd true hbv hnv ?_ (fun h => by cases h)
    intro n hf
    have h1 := List.find?_some hf
    simp only [decide_eq_true_eq] at h1
    have hn := List.mem_of_find?_eq_some hf
    obtain ⟨q, c1, c2, _⟩ := ebpAll_reach cfg B p0 hB _ hF _ _ _ n hlast hn (hmust n ⟨hn, h1⟩)
    exact ⟨q, c1, hdepth ▸ c2⟩

/-- **soundness of the reported exact value of a relaxed compilation, checker enabled** (`Closed.isSol_relaxed` without
    `cfg.dom = none`; nothing is assumed of the store): the `must` result reports as best exact value the value of the
    reported best exact solution, a complete feasible path through the root sub-problem -/
theorem isSol_relaxed_dom (cfg : Cfg S K) (D : DomRule S K) (hD : cfg.dom = some D) (B : Int) (p0 : List Dec)
    (cache : Cache S) (store : DomStore S K) (polls : Nat)
    (hrel : cfg.ctype = .relaxed) (hcache : cfg.useCache = false) (hW : 1 ≤ cfg.width)
    (hB : NoClamp cfg.P cfg.R cfg.root.value B)
    (hroot : Reach cfg.P cfg.root.depth cfg.root.state cfg.root.value p0)
    (hok : (compile cfg cache store polls none).1 = .ok) (w : Int)
    (hw : (compile cfg cache store polls none).2.1.bestExactValue = some w) :
    IsSol cfg p0 w (compile cfg cache store polls none).2.1.bestExactSol := by
  obtain ⟨hbl, _, hres'⟩ := Ddo.compile_ok cfg cache store polls none hok
  have e2 : (cfg.ctype == CompType.relaxed) = true := by rw [hrel]; decide
  rw [e2] at hres'
  rw [hres'] at hw ⊢
  cases hm : (finalizeLayers (buildLoop cfg none (cfg.P.nbVars + 2) (initDD cfg cache store polls)).1).ebpMust true with
  | false =>
    rw [hm] at hw
    exact bestExact_sol_false cfg B p0 hB hroot cache store polls none hbl w hw
  | true =>
    rw [hm] at hw
    exact (ebpMust_sound_dom cfg D hD B p0 hrel hW hcache hB hroot cache store polls hbl hm w hw).exactSol

/-! ## 4. no crash -/

/-- `Closed.squash_ne_none` for any layer / list of positions: the only panics of `_squash_if_needed` are a relaxation of
    width 0 and a restriction of the root layer -/
theorem squash_ne_none_gen (cfg : Cfg S K) (dd : DD S K) (layer : List (Node S)) (cur : List Nat) (hW : 1 ≤ cfg.width)
    (hJ : dd.layers = [] → cur.length ≤ 1) : squash cfg dd layer cur ≠ none := by
  unfold squash
  have h1 : (cfg.width == 0) = false := by
    cases h : cfg.width with
    | zero => omega
    | succ n => rfl
  have h2 : ((cfg.ctype == .restricted && decide (cur.length > cfg.width)) && dd.layers.isEmpty) = false := by
    cases hl : dd.layers with
    | nil =>
      have := hJ hl
      have h3 : decide (cur.length > cfg.width) = false := decide_eq_false (by omega)
      rw [h3]; simp
    | cons _ _ => simp
  simp only [h1, h2, Bool.and_false, Bool.false_eq_true, if_false]
  split
  · simp
  · split <;> simp

/-- the loop does not crash with the checker enabled: the checker is queried at depths `< nb_variables` only and its store keeps
    its `nb_variables + 1` layers -/
theorem buildLoop_no_crash_dom (cfg : Cfg S K) (D : DomRule S K) (hD : cfg.dom = some D) (B : Int) (p0 : List Dec)
    (hc : cfg.useCache = false) (hW : 1 ≤ cfg.width) (hNV : NvBound cfg.P)
    (hB : NoClamp cfg.P cfg.R cfg.root.value B) :
    ∀ (fuel : Nat) (dd : DD S K), MInv cfg B p0 dd → dd.depth = cfg.root.depth + dd.layers.length →
      dd.store.layers.length = cfg.P.nbVars + 1 → (dd.layers = [] → dd.next.length ≤ 1) → dd.depth ≤ cfg.P.nbVars →
      cfg.P.nbVars + 1 ≤ dd.depth + fuel → (buildLoop cfg none fuel dd).2 = .ok := by
  intro fuel
  induction fuel with
  | zero => intro dd _ _ _ _ h1 h2; omega
  | succ fuel ih =>
    intro dd hM hdepth hS hJ h1 h2
    cases hnv : cfg.P.nextVar dd.depth (dd.next.map (·.state)) with
    | none =>
      unfold buildLoop
      simp only [hnv]
    | some var =>
      have hlt : dd.depth < cfg.P.nbVars := nv_depth_lt hNV hnv
      rw [buildLoop_step cfg fuel dd var hnv]
      by_cases hne : dd.next = []
      · rw [stepLayer_empty cfg (tick dd var) var hne]
      · have hM' : MInv cfg B p0 (tick dd var) := hM.congr rfl rfl
        have hdep : ∀ n ∈ (tick dd var).next, n.isExact = true → n.depth < (tick dd var).store.layers.length := by
          intro n hn he
          obtain ⟨_, _, _, hd, _⟩ := hM.next n hn he
          show n.depth < dd.store.layers.length
          rw [hS, hd, ← hdepth]; omega
        obtain ⟨_, f2, f3⟩ := filterDom_weak cfg D hD (tick dd var).store (tick dd var).next
          (List.range (tick dd var).next.length)
        obtain ⟨f4, f5⟩ := f3 hdep
        obtain ⟨s1, s2⟩ := stepLayer_dom cfg (tick dd var) var hne hc f4
        have hJ' : (tick dd var).layers = [] → (fdOf cfg (tick dd var)).2.1.length ≤ 1 := by
          intro hl
          have := hJ hl
          rw [List.length_range] at f2
          exact Nat.le_trans f2 this
        cases hsq : squash cfg (tick dd var) (fdOf cfg (tick dd var)).1 (fdOf cfg (tick dd var)).2.1 with
        | none => exact absurd hsq (squash_ne_none_gen cfg (tick dd var) _ _ hW hJ')
        | some sq =>
          obtain ⟨dd', e, hl, _, hdp, _, hst, _⟩ := s2 sq hsq
          obtain ⟨m1, m2, _⟩ := Ddo.stepLayer_inv cfg B p0 hB (tick dd var) var hM' hdepth hnv
            (by show dd.layers.length ≤ _; omega) dd' .ok e
          obtain ⟨m2a, _⟩ := m2 rfl
          rw [e]
          refine ih dd' m1 m2a ?_ ?_ ?_ ?_
          · rw [hst]; exact f5.trans hS
          · intro h; rw [hl] at h; simp at h
          · rw [hdp]; show dd.depth + 1 ≤ _; omega
          · rw [hdp]; show _ ≤ dd.depth + 1 + fuel; omega

/-- **no crash, checker enabled**: a compilation without cache, of width ≥ 1, of a sub-problem reached exactly, from a checker
    with `nb_variables + 1` layers (whatever they hold), ends normally (no cutoff) -/
theorem compile_no_crash_dom (cfg : Cfg S K) (D : DomRule S K) (hD : cfg.dom = some D) (B : Int) (p0 : List Dec)
    (cache : Cache S) (store : DomStore S K) (polls : Nat)
    (hc : cfg.useCache = false) (hW : 1 ≤ cfg.width) (hNV : NvBound cfg.P)
    (hB : NoClamp cfg.P cfg.R cfg.root.value B)
    (hroot : Reach cfg.P cfg.root.depth cfg.root.state cfg.root.value p0)
    (hlen : store.layers.length = cfg.P.nbVars + 1) :
    (compile cfg cache store polls none).1 = .ok := by
  rw [compile_fst]
  have hdepth := reach_depth_le hNV hroot
  refine buildLoop_no_crash_dom cfg D hD B p0 hc hW hNV hB _ _ (initDD_inv cfg B p0 hB hroot cache store polls) rfl hlen
    ?_ hdepth ?_
  · intro _; simp [initDD]
  · show cfg.P.nbVars + 1 ≤ cfg.root.depth + (cfg.P.nbVars + 2); omega

/-! ## 5. what `is_exact` means for a relaxed compilation -/

/-- a relaxed compilation that ended normally reports `is_exact` only if nothing was squashed or the `must` bit of
    `has_exact_best_path` is set — and then the best exact value is the best value -/
theorem relaxed_isExact_cases (cfg : Cfg S K) (cache : Cache S) (store : DomStore S K) (polls : Nat)
    (hrel : cfg.ctype = .relaxed) (hok : (compile cfg cache store polls none).1 = .ok)
    (he : (compile cfg cache store polls none).2.1.isExact = true) :
    (compile cfg cache store polls none).2.2.2.lel = none ∨
    ((finalizeLayers (compile cfg cache store polls none).2.2.2).ebpMust true = true ∧
      (compile cfg cache store polls none).2.1.bestExactValue = (compile cfg cache store polls none).2.1.bestValue) := by
  obtain ⟨_, hdd, hr⟩ := Ddo.compile_ok cfg cache store polls none hok
  have e2 : (cfg.ctype == CompType.relaxed) = true := by rw [hrel]; decide
  rw [e2] at hr
  rw [hr] at he ⊢
  rw [hdd]
  rw [finalize_isExact] at he
  cases hm : (finalizeLayers (buildLoop cfg none (cfg.P.nbVars + 2) (initDD cfg cache store polls)).1).ebpMust true with
  | true =>
    right
    refine ⟨rfl, ?_⟩
    rw [finalize_bestExactValue, Ddo.finalize_bestValue]
    rfl
  | false =>
    left
    rw [hm, Bool.or_false] at he
    have : (buildLoop cfg none (cfg.P.nbVars + 2) (initDD cfg cache store polls)).1.lel.isNone = true := he
    simpa using this

#print axioms isSol_relaxed_dom
#print axioms compile_no_crash_dom
#print axioms relaxed_isExact_cases

end Ddo.C10
