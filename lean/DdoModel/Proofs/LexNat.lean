/-! Lexicographic order on the first `n` coordinates of a vector of naturals (`Nat → Nat`, coordinate
    `0` the most significant) and its well-foundedness.  Core Lean only, no import. -/
namespace Ddo

/-- `f` is lexicographically below `g` on the coordinates `0 … n-1` -/
def LexLT (n : Nat) (f g : Nat → Nat) : Prop :=
  ∃ d, d < n ∧ f d < g d ∧ ∀ e, e < d → f e = g e

/-- peeling the least significant coordinate -/
theorem lexLT_succ {n : Nat} {f g : Nat → Nat} (h : LexLT (n + 1) f g) :
    LexLT n f g ∨ ((∀ e, e < n → f e = g e) ∧ f n < g n) := by
  obtain ⟨d, hd, hlt, heq⟩ := h
  by_cases hdn : d < n
  · exact Or.inl ⟨d, hdn, hlt, heq⟩
  · have : d = n := by omega
    subst this
    exact Or.inr ⟨heq, hlt⟩

theorem lexLT_acc_succ (n : Nat) (g : Nat → Nat) (hg : Acc (LexLT n) g) :
    ∀ (k : Nat) (f : Nat → Nat), (∀ e, e < n → f e = g e) → f n = k → Acc (LexLT (n + 1)) f := by
  induction hg with
  | intro g _ ihg =>
    intro k
    induction k using Nat.strongRecOn with
    | _ k ihk =>
      intro f hfg hfk
      refine Acc.intro f (fun f' hlt => ?_)
      rcases lexLT_succ hlt with ⟨d, hd, hlt', heq⟩ | ⟨heq, hlt'⟩
      · -- a more significant coordinate decreases
        have hf'g : LexLT n f' g :=
          ⟨d, hd, by rw [← hfg d hd]; exact hlt', fun e he => by rw [← hfg e (by omega)]; exact heq e he⟩
        exact ihg f' hf'g (f' n) f' (fun _ _ => rfl) rfl
      · -- only the last coordinate decreases
        exact ihk (f' n) (by omega) f' (fun e he => (heq e he).trans (hfg e he)) rfl

/-- **the lexicographic order on `n` coordinates is well-founded** -/
theorem lexLT_wf (n : Nat) : WellFounded (LexLT n) := by
  induction n with
  | zero => exact ⟨fun g => Acc.intro g (fun f ⟨d, hd, _⟩ => absurd hd (Nat.not_lt_zero d))⟩
  | succ n ih => exact ⟨fun g => lexLT_acc_succ n g (ih.apply g) (g n) g (fun _ _ => rfl) rfl⟩

/-- a convenient sufficient condition: strictly smaller at `d`, not larger before `d` -/
theorem lexLT_of_le {n : Nat} {f g : Nat → Nat} (d : Nat) (hd : d < n) (hlt : f d < g d)
    (hle : ∀ e, e < d → f e ≤ g e) : LexLT n f g := by
  induction d using Nat.strongRecOn with
  | _ d ih =>
    by_cases hex : ∃ e, e < d ∧ f e ≠ g e
    · obtain ⟨e, he, hne⟩ := hex
      have := hle e he
      exact ih e he (by omega) (by omega) (fun e' he' => hle e' (by omega))
    · exact ⟨d, hd, hlt, fun e he => Decidable.byContradiction (fun h => hex ⟨e, he, h⟩)⟩

/-- no infinite descending chain in a well-founded relation -/
theorem no_infinite_chain {α : Type} {r : α → α → Prop} (hwf : WellFounded r) (f : Nat → α) :
    ¬ ∀ n, r (f (n + 1)) (f n) := by
  intro hf
  have : ∀ a, Acc r a → ∀ n, f n = a → False := by
    intro a ha
    induction ha with
    | intro a _ ih => intro n hn; exact ih (f (n + 1)) (hn ▸ hf n) (n + 1) rfl
  exact this (f 0) (hwf.apply _) 0 rfl

end Ddo
