import DdoModel.Proofs.ParDomOpReach
import DdoModel.Proofs.ParDomOpSpec
import DdoModel.Props.C10b
/-! # The cut-set of an operation-wise compilation (`compileOp`): exact sub-problems, strictly deeper than the root

The analogue of `C08.cutset_exact` / `C08.cutset_progress` for `compileOp`, whatever the oracle `τ` (ANY stores): the second
invariant `Inv2` of `Proofs/MddCutset.lean` is preserved by `stepLayerO` (the operation-wise filter changes `theta` only), hence
the finalized layers are `CutWF` and `finalize_cutset_sound` applies unchanged. -/
set_option linter.unusedSectionVars false
set_option linter.unusedVariables false
namespace Ddo.ParDom
open Ddo Ddo.Truth Ddo.Closed Ddo.C10
open Ddo.C01 (SolverCfg WellFormed toOut SolOf)
variable {S K : Type} [DecidableEq S] [DecidableEq K]

/-- one step of the operation-wise filter keeps the inbound arcs -/
theorem cs_fdStepO_arcs (D : DomRule S K) (τ : Nat → DomStore S K) (l : Nat)
    (acc : List (Node S) × List Nat × Nat × Bool × List (Op S)) (p : Nat)
    (h : ∀ n ∈ acc.1, ArcOk l n) : ∀ n ∈ (fdStepO D τ acc p).1, ArcOk l n := by
  unfold fdStepO
  cases hn : acc.1[p]? with
  | none => exact h
  | some n =>
    simp only
    by_cases he : n.isExact = true
    · rw [if_pos he]
      cases hq : DomStore.query D (τ acc.2.2.1) n.state n.depth n.value with
      | none => exact h
      | some x =>
        obtain ⟨st', dom, thr⟩ := x
        cases dom
        · exact h
        · exact forall_mem_set h p (h n (List.mem_of_getElem? hn))
    · rw [if_neg he]; exact h

/-- the operation-wise filter keeps the inbound arcs (the oracle form of `filterDom_arcs`) -/
theorem cs_filterDomO_arcs (cfg : Cfg S K) (τ : Nat → DomStore S K) (k : Nat) (layer : List (Node S)) (cur : List Nat)
    (l : Nat) (h : ∀ n ∈ layer, ArcOk l n) : ∀ n ∈ (filterDomO cfg τ k layer cur).1, ArcOk l n := by
  unfold filterDomO
  cases hd : cfg.dom with
  | none => exact h
  | some D =>
    simp only
    refine foldl_inv (β := List (Node S) × List Nat × Nat × Bool × List (Op S))
      (fun acc => ∀ n ∈ acc.1, ArcOk l n) _ _ _ h ?_
    intro acc p _ h
    exact cs_fdStepO_arcs D τ l acc p h

theorem cs_fcOf_arcs (cfg : Cfg S K) (dd : DD S K) (h : ∀ n ∈ dd.next, ArcOk dd.layers.length n) :
    ∀ n ∈ (fcOf cfg dd).1, ArcOk dd.layers.length n := by
  unfold fcOf
  split
  · exact h
  · exact filterCache_arcs _ _ _ _ _ h

/-- **one layer** (the analogue of `stepLayer_inv2`), whatever the oracle -/
theorem cs_stepLayerO_inv2 (cfg : Cfg S K) (B : Int) (p0 : List Dec) (hB : NoClamp cfg.P cfg.R cfg.root.value B)
    (τ : Nat → DomStore S K) (dd : DD S K) (k : Nat) (ops : List (Op S)) (var : Nat)
    (hinv : MInv cfg B p0 dd) (hinv2 : Inv2 cfg dd)
    (hdepth : dd.depth = cfg.root.depth + dd.layers.length)
    (hnv : cfg.P.nextVar dd.depth (dd.next.map (·.state)) = some var)
    (hlen : dd.layers.length ≤ cfg.P.nbVars + 1) (dd' : DD S K) (k' : Nat) (ops' : List (Op S)) (oc : Outcome)
    (h : stepLayerO cfg τ dd k ops var = (some (dd', k', ops'), oc)) : Inv2 cfg dd' := by
  by_cases hempty : dd.next.isEmpty = true
  · unfold stepLayerO at h
    rw [if_pos hempty] at h
    simp only [Prod.mk.injEq, Option.some.injEq] at h
    obtain ⟨⟨rfl, rfl, rfl⟩, rfl⟩ := h
    have hnil : dd.next = [] := List.isEmpty_iff.1 hempty
    refine ⟨?_, ?_, ?_, ?_⟩
    · intro l ly hl
      dsimp only at hl
      rcases getElem?_append_singleton_cases hl with hl | ⟨_, rfl⟩
      · exact hinv2.arcsL l ly hl
      · intro n hn; cases hn
    · dsimp only; rw [hnil]; intro n hn; cases hn
    · dsimp only
      intro hnone
      refine ⟨fun ly hly n hn => ?_, (hinv2.lelNone hnone).2⟩
      rcases List.mem_append.1 hly with hly | hly
      · exact (hinv2.lelNone hnone).1 ly hly n hn
      · rw [List.mem_singleton] at hly; subst hly; cases hn
    · dsimp only
      intro k hk
      obtain ⟨h1, h2, h3⟩ := hinv2.lelSome k hk
      refine ⟨by rw [List.length_append]; omega, h2, fun l ly hlk hl n hn => ?_⟩
      rcases getElem?_append_singleton_cases hl with hl | ⟨_, rfl⟩
      · exact h3 l ly hlk hl n hn
      · cases hn
  · have hne' : dd.next.isEmpty = false := by simpa using hempty
    rw [stepLayerO_unfold cfg τ dd k ops var hne'] at h
    have hfc := fcOf_subS cfg dd
    have hfcA := cs_fcOf_arcs cfg dd hinv2.arcsN
    have hfd := filterDomO_subS cfg τ k (fcOf cfg dd).1 (fcOf cfg dd).2
    have hfdA := cs_filterDomO_arcs cfg τ k (fcOf cfg dd).1 (fcOf cfg dd).2 _ hfcA
    generalize fcOf cfg dd = fc at h hfc hfd hfcA hfdA
    generalize filterDomO cfg τ k fc.1 fc.2 = fd at h hfd hfdA
    unfold stepTailO at h
    split at h
    · cases h
    · split at h
      · cases h
      · rename_i lsq csq lgsq lel hsq
        simp only [Prod.mk.injEq, Option.some.injEq] at h
        obtain ⟨⟨rfl, rfl, rfl⟩, rfl⟩ := h
        obtain ⟨hsub, _⟩ := squash_sub cfg dd fd.1 fd.2.1 lsq csq lgsq lel hsq
        obtain ⟨hlelN, hlelS, hsqA⟩ := squash_lel cfg dd fd.1 fd.2.1 lsq csq lgsq lel hsq
        have hsub0 : SubE lsq dd.next := hsub.trans (hfd.trans hfc).toSub
        have hpar0 : ∀ n ∈ dd.next, ParOk cfg B p0 dd.layers (dd.next.map (·.state)) n := fun n hn =>
          ⟨hinv.next n hn, fun _ => List.mem_map.2 ⟨n, hn, rfl⟩⟩
        have hpar : ∀ n ∈ lsq, ParOk cfg B p0 dd.layers (dd.next.map (·.state)) n := ParOk.of_sub hsub0 hpar0
        have hE := expandAll_inv cfg B p0 hB dd.layers hlen lsq (dd.next.map (·.state)) var (hdepth ▸ hnv) hpar csq lgsq
        have hEA := expandAll_arcs cfg var dd.layers.length lsq csq lgsq
        generalize expandAll cfg var dd.layers.length lsq csq lgsq = ex at hE hEA
        obtain ⟨hrub, _, hallEx⟩ := hE
        have hlsqA : ∀ n ∈ lsq, ArcOk dd.layers.length n := hsqA _ hfdA
        -- the appended layer
        have hFA : ∀ n ∈ ex.1, ArcOk dd.layers.length n := by
          intro n hn
          obtain ⟨i, hi⟩ := List.mem_iff_getElem?.1 hn
          obtain ⟨n0, h0, hs⟩ := hrub.get hi
          have : n0.inb = n.inb := by have := congrArg Node.inb hs; simpa only [stripRub] using this
          intro e he
          exact hlsqA n0 (List.mem_of_getElem? h0) e (this ▸ he)
        have hFE : (∀ n ∈ lsq, n.isExact = true) → ∀ n ∈ ex.1, n.isExact = true := by
          intro hall n hn
          obtain ⟨n0, h0, he0, _⟩ := hrub.subS n hn
          rw [← he0]; exact hall n0 h0
        refine ⟨?_, ?_, ?_, ?_⟩
        · intro l ly hl
          dsimp only at hl
          rcases getElem?_append_singleton_cases hl with hl | ⟨rfl, rfl⟩
          · exact hinv2.arcsL l ly hl
          · exact hFA
        · dsimp only
          rw [List.length_append, List.length_singleton]
          exact hEA
        · dsimp only
          intro hnone
          obtain ⟨rfl, hdn⟩ := hlelN hnone
          obtain ⟨hLs, hNx⟩ := hinv2.lelNone hdn
          have hall : ∀ n ∈ fd.1, n.isExact = true := by
            intro n hn
            obtain ⟨n0, h0, he0, _⟩ := (hfd.trans hfc) n hn
            rw [← he0]; exact hNx n0 h0
          refine ⟨fun ly hly n hn => ?_, hallEx hall⟩
          rcases List.mem_append.1 hly with hly | hly
          · exact hLs ly hly n hn
          · rw [List.mem_singleton] at hly; subst hly; exact hFE hall n hn
        · dsimp only
          intro k hk
          rw [List.length_append, List.length_singleton]
          rcases hlelS k hk with hold | ⟨hdn, hkL, hrel⟩
          · obtain ⟨h1, h2, h3⟩ := hinv2.lelSome k hold
            refine ⟨by omega, h2, fun l ly hlk hl n hn => ?_⟩
            rcases getElem?_append_singleton_cases hl with hl | ⟨rfl, _⟩
            · exact h3 l ly hlk hl n hn
            · omega
          · obtain ⟨hLs, _⟩ := hinv2.lelNone hdn
            refine ⟨by omega, fun hr => by have := hrel hr; omega, fun l ly hlk hl n hn => ?_⟩
            rcases getElem?_append_singleton_cases hl with hl | ⟨rfl, _⟩
            · exact hLs ly (List.mem_of_getElem? hl) n hn
            · omega

/-- **the loop** (the analogue of `buildLoop_inv2`), whatever the oracle -/
theorem cs_buildLoopO_inv2 (cfg : Cfg S K) (B : Int) (p0 : List Dec) (hB : NoClamp cfg.P cfg.R cfg.root.value B)
    (τ : Nat → DomStore S K) :
    ∀ (fuel : Nat) (dd : DD S K) (k : Nat) (ops : List (Op S)), MInv cfg B p0 dd → Inv2 cfg dd →
      dd.depth = cfg.root.depth + dd.layers.length → dd.layers.length + fuel ≤ cfg.P.nbVars + 2 →
      MInv cfg B p0 (buildLoopO cfg τ fuel dd k ops).1.1 ∧ Inv2 cfg (buildLoopO cfg τ fuel dd k ops).1.1 := by
  intro fuel
  induction fuel with
  | zero => intro dd k ops hM hI _ _; exact ⟨hM, hI⟩
  | succ fuel ih =>
    intro dd k ops hM hI hdepth hfuel
    cases hnv : cfg.P.nextVar dd.depth (dd.next.map (·.state)) with
    | none =>
      rw [buildLoopO_stop cfg τ fuel dd k ops hnv]
      exact ⟨hM.congr rfl rfl, hI.congr rfl rfl rfl⟩
    | some var =>
      rw [buildLoopO_step cfg τ fuel dd k ops var hnv]
      have hM' : MInv cfg B p0 (tick dd var) := hM.congr rfl rfl
      have hI' : Inv2 cfg (tick dd var) := hI.congr rfl rfl rfl
      cases hs : stepLayerO cfg τ (tick dd var) k ops var with
      | mk o oc =>
        cases o with
        | none => exact ⟨hM', hI'⟩
        | some x =>
          obtain ⟨dd', k', ops'⟩ := x
          obtain ⟨m1, m2, _⟩ := stepLayerO_inv cfg B p0 hB τ (tick dd var) k ops var hM' hdepth hnv
            (by show dd.layers.length ≤ _; omega) dd' k' ops' oc hs
          have i1 := cs_stepLayerO_inv2 cfg B p0 hB τ (tick dd var) k ops var hM' hI' hdepth hnv
            (by show dd.layers.length ≤ _; omega) dd' k' ops' oc hs
          cases oc with
          | cutoff => exact ⟨m1, i1⟩
          | crash => exact ⟨m1, i1⟩
          | ok =>
            obtain ⟨m2a, m2b⟩ := m2 rfl
            exact ih dd' k' ops' m1 i1 m2a (by rw [m2b]; show dd.layers.length + 1 + fuel ≤ _; omega)

/-- the well-formedness of the finalized layers of an operation-wise compilation (the analogue of `compile_wf`) -/
theorem cs_compileOp_wf (cfg : Cfg S K) (B : Int) (p0 : List Dec) (hB : NoClamp cfg.P cfg.R cfg.root.value B)
    (hroot : Reach cfg.P cfg.root.depth cfg.root.state cfg.root.value p0)
    (cache : Cache S) (τ : Nat → DomStore S K) (polls : Nat) :
    CutWF cfg p0
      (finalizeLayers (buildLoopO cfg τ (cfg.P.nbVars + 2) (initDD cfg cache (τ 0) polls) 0 []).1.1).layers
      (finalizeLayers (buildLoopO cfg τ (cfg.P.nbVars + 2) (initDD cfg cache (τ 0) polls) 0 []).1.1).lel := by
  obtain ⟨h1, h2⟩ := cs_buildLoopO_inv2 cfg B p0 hB τ (cfg.P.nbVars + 2) (initDD cfg cache (τ 0) polls) 0 []
    (initDD_inv cfg B p0 hB hroot cache (τ 0) polls) (initDD_inv2 cfg cache (τ 0) polls)
    (by show cfg.root.depth = cfg.root.depth + 0; rfl)
    (by show 0 + (cfg.P.nbVars + 2) ≤ cfg.P.nbVars + 2; omega)
  exact finalizeLayers_wf cfg B p0 _ h1 h2

/-- (i) and (ii) together -/
theorem cs_cutsetOp_sound (cfg : Cfg S K) (B : Int) (p0 : List Dec) (cache : Cache S) (τ : Nat → DomStore S K) (polls : Nat)
    (hroot : Reach cfg.P cfg.root.depth cfg.root.state cfg.root.value p0)
    (hB : NoClamp cfg.P cfg.R cfg.root.value B) :
    ∀ c ∈ (compileOp cfg cache τ polls).2.1.cutset,
      (∃ q, Reach cfg.P c.depth c.state c.value (p0 ++ q) ∧ c.path = cfg.root.path ++ q.reverse) ∧
      (cfg.ctype = .relaxed → cfg.root.depth < c.depth) := by
  intro c hc
  exact finalize_cutset_sound cfg p0 _ _ (cs_compileOp_wf cfg B p0 hB hroot cache τ polls) c hc

/-- **C08 (i) for the operation-wise compilation**: the sub-problems of the cut-set are exact, whatever the oracle -/
theorem cutsetOp_exact (cfg : Cfg S K) (B : Int) (p0 : List Dec) (cache : Cache S) (τ : Nat → DomStore S K) (polls : Nat)
    (hroot : Reach cfg.P cfg.root.depth cfg.root.state cfg.root.value p0)
    (hB : NoClamp cfg.P cfg.R cfg.root.value B)
    (hok : (compileOp cfg cache τ polls).1 = .ok) :
    ∀ c ∈ (compileOp cfg cache τ polls).2.1.cutset,
      ∃ q, Reach cfg.P c.depth c.state c.value (p0 ++ q) ∧ c.path = cfg.root.path ++ q.reverse :=
  fun c hc => (cs_cutsetOp_sound cfg B p0 cache τ polls hroot hB c hc).1

/-- **C08 (ii) for the operation-wise compilation**: in a relaxed compilation the sub-problems of the cut-set are strictly
    deeper than the root sub-problem, whatever the oracle -/
theorem cutsetOp_progress (cfg : Cfg S K) (B : Int) (p0 : List Dec) (cache : Cache S) (τ : Nat → DomStore S K) (polls : Nat)
    (hrel : cfg.ctype = .relaxed)
    (hroot : Reach cfg.P cfg.root.depth cfg.root.state cfg.root.value p0)
    (hB : NoClamp cfg.P cfg.R cfg.root.value B)
    (hok : (compileOp cfg cache τ polls).1 = .ok) :
    ∀ c ∈ (compileOp cfg cache τ polls).2.1.cutset, cfg.root.depth < c.depth :=
  fun c hc => (cs_cutsetOp_sound cfg B p0 cache τ polls hroot hB c hc).2 hrel

end Ddo.ParDom
