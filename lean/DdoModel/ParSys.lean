import DdoModel.ParSolver
/-! The *concrete* transition system of `ParallelSolver` (`implementation/solver/parallel.rs`):
    the shared `Critical` record (`ParCrit S`, evolved by the very functions of `ParSolver.lean`)
    together with one worker-local state per thread.  One `Step` constructor per critical section /
    lock-free compilation, composed exactly as the trace validator `Engines/Par.lean` (`simStep`,
    `simGetWorkload`) composes them when it replays a recorded run of the real solver:

    * `get_workload(i)`: abort flag first (`gwAborted`), then the completion test
      `ongoing == 0 && fringe.is_empty()` (`gwComplete`, `best_ub := best_lb`), then the empty fringe
      (`gwWait`, the worker parks on the condvar), otherwise a maximal node `N` is popped
      (`PopMax`: any element of a permutation of the fringe whose bound is the largest) and the pop loop
      `popLoop` runs on it: either `N.ub ≤ best_lb` and the fringe is cleared (`gwStarve`), or the node
      is kept and `take` does the bookkeeping (`gwItem`; `gwCrash` if that bookkeeping panics);
    * `process_one_node`: `best_lb()` read and the local test `node.ub ≤ best_lb` (`readLbR`), the
      restricted compilation — lock-free, any outcome `DDRes S` allowed by `okR` (`compileR`) —,
      `maybe_update_best` (`updateR`), then, unless the restricted diagram was exact, `best_lb()`
      again (`readLbX`), the relaxed compilation (`compileX`), `maybe_update_best` (`updateX`) and,
      unless the relaxed diagram was exact, `enqueue_cutset()` (`enqueue`);
    * a cut-off compilation leads to `abort_search(reason, node.ub)` (`abort`; `AbortTop` = what the
      `fringe.pop()` inside it hands out) and the worker leaves after its `notify_node_finished`
      (the formula of `abort_search` is a parameter `ab` of `StepG` so that the system can also be built
      with the formula before fix D4b, `ParCrit.abortSearchD4`, for the violation witness;
      `Step` = `StepG ParCrit.abortSearch` is the code as it is);
    * `notify_node_finished(i, depth)` (`notify`) wakes every parked worker (`notify_all`).

    No cache (`must_explore = true`: the pop loop consumes exactly one pop), no dominance.  Both
    fringes (`dedup`).  `okR` / `okX` are the contracts the compilations are assumed to meet (relative
    to the node and to the *stale* incumbent the worker read); `fun _ _ _ => True` gives the
    unconstrained system. -/
namespace Ddo.ParSys
variable {S : Type} [DecidableEq S]

/-- worker-local state: what thread `i` remembers between two sections -/
inductive WSt (S : Type)
  | idle                                           -- next section: `get_workload`
  | waiting                                        -- parked in `monitor.wait`
  | done                                           -- left the loop (`Complete`, `Aborted`, or after its own abort)
  | crashed (n : SubP S)                           -- panicked at the end of `get_workload`, `n` popped
  | readR (n : SubP S)                             -- holds `n`; next: `best_lb()`
  | compR (n : SubP S) (lb : Int)                  -- next: restricted compilation with `best_lb = lb`
  | updR (n : SubP S) (lb : Int) (o : DDOut S)     -- next: `maybe_update_best`
  | readX (n : SubP S)                             -- next: `best_lb()` (second read)
  | compX (n : SubP S) (lb : Int)                  -- next: relaxed compilation
  | updX (n : SubP S) (lb : Int) (o : DDOut S)     -- next: `maybe_update_best`
  | enq (n : SubP S) (lb : Int) (o : DDOut S)      -- next: `enqueue_cutset()`
  | abortS (n : SubP S)                            -- a compilation was cut off; next: `abort_search`
  | fin (n : SubP S) (thenExit : Bool)             -- next: `notify_node_finished`

/-- the node the worker has taken and not yet acknowledged (`ongoing` counts these) -/
def WSt.node : WSt S → Option (SubP S)
  | .idle | .waiting | .done => none
  | .crashed n | .readR n | .compR n _ | .updR n _ _ | .readX n | .compX n _ | .updX n _ _
  | .enq n _ _ | .abortS n | .fin n _ => some n

/-- the node in hand as long as it is still *open* (its sub-tree is neither closed nor handed back) -/
def WSt.openNode : WSt S → Option (SubP S)
  | .idle | .waiting | .done | .fin _ _ => none
  | .crashed n | .readR n | .compR n _ | .updR n _ _ | .readX n | .compX n _ | .updX n _ _
  | .enq n _ _ | .abortS n => some n

def WSt.holds (w : WSt S) : Bool := w.node.isSome

def WSt.isCrashed : WSt S → Bool
  | .crashed _ => true
  | _ => false

/-- effect of `notify_all` on a worker -/
def WSt.wake : WSt S → WSt S
  | .waiting => .idle
  | w => w

/-- where the answer of the restricted compilation sends the worker -/
def WSt.afterR (n : SubP S) (lb : Int) : DDRes S → WSt S
  | .ok o => .updR n lb o
  | .cutoff => .abortS n

/-- where the answer of the relaxed compilation sends the worker -/
def WSt.afterX (n : SubP S) (lb : Int) : DDRes S → WSt S
  | .ok o => .updX n lb o
  | .cutoff => .abortS n

structure Sys (S : Type) where
  crit : ParCrit S
  ws : List (WSt S)

/-- `maximize()` after `initialize()`: the root is in the fringe, `U` workers are about to call `get_workload` -/
def Sys.init (P : Problem S) (primal : Option (Int × List Dec)) (dedup : Bool) (U : Nat) : Sys S :=
  { crit := ParCrit.init P primal dedup U, ws := List.replicate U .idle }

/-- the open sub-problems: the fringe and the nodes in hand -/
def Sys.openList (s : Sys S) : List (SubP S) := s.crit.base.fringe ++ s.ws.filterMap WSt.openNode

def setFringe (c : ParCrit S) (fr : List (SubP S)) : ParCrit S := { c with base := { c.base with fringe := fr } }

/-- `fringe.pop()`: `N` is an element with the largest bound, `rest` is what is left -/
def PopMax (fr : List (SubP S)) (N : SubP S) (rest : List (SubP S)) : Prop :=
  fr.Perm (N :: rest) ∧ ∀ c ∈ rest, c.ub ≤ N.ub

/-- what the `fringe.pop()` of `abort_search` contributes: nothing on an empty fringe, else the largest bound -/
def AbortTop (fr : List (SubP S)) (top : Option Int) : Prop :=
  (fr = [] ∧ top = none) ∨ ∃ t ∈ fr, top = some t.ub ∧ ∀ c ∈ fr, c.ub ≤ t.ub

/-- the steps, for a given `abort_search` formula `ab` (the code's: `ParCrit.abortSearch`, see `Step`) -/
inductive StepG (ab : ParCrit S → Int → Option Int → ParCrit S) (dedup : Bool)
    (okR okX : SubP S → Int → DDOut S → Prop) : Sys S → Sys S → Prop
  /- ### `get_workload(i)` -/
  | gwAborted (s : Sys S) (i : Nat) (hw : s.ws[i]? = some .idle) (ha : s.crit.base.abort = true) :
      StepG ab dedup okR okX s { crit := s.crit, ws := s.ws.set i .done }
  | gwComplete (s : Sys S) (i : Nat) (hw : s.ws[i]? = some .idle) (ha : s.crit.base.abort = false)
      (ho : s.crit.ongoing = 0) (hf : s.crit.base.fringe = []) :
      StepG ab dedup okR okX s { crit := s.crit.complete, ws := s.ws.set i .done }
  | gwWait (s : Sys S) (i : Nat) (hw : s.ws[i]? = some .idle) (ha : s.crit.base.abort = false)
      (ho : s.crit.ongoing ≠ 0) (hf : s.crit.base.fringe = []) :
      StepG ab dedup okR okX s { crit := s.crit, ws := s.ws.set i .waiting }
  | gwStarve (s : Sys S) (i : Nat) (N : SubP S) (rest : List (SubP S)) (c' : ParCrit S) (k : Nat)
      (hw : s.ws[i]? = some .idle) (ha : s.crit.base.abort = false) (hp : PopMax s.crit.base.fringe N rest)
      (hl : popLoop (setFringe s.crit rest) [(N, true)] 0 = (c', some none, k)) :
      StepG ab dedup okR okX s { crit := c', ws := s.ws }
  | gwItem (s : Sys S) (i : Nat) (N : SubP S) (rest : List (SubP S)) (c' : ParCrit S) (nn : SubP S) (k : Nat) (c'' : ParCrit S)
      (hw : s.ws[i]? = some .idle) (ha : s.crit.base.abort = false) (hp : PopMax s.crit.base.fringe N rest)
      (hl : popLoop (setFringe s.crit rest) [(N, true)] 0 = (c', some (some nn), k))
      (ht : c'.take i nn = some c'') :
      StepG ab dedup okR okX s { crit := c'', ws := s.ws.set i (.readR nn) }
  | gwCrash (s : Sys S) (i : Nat) (N : SubP S) (rest : List (SubP S)) (c' : ParCrit S) (nn : SubP S) (k : Nat)
      (hw : s.ws[i]? = some .idle) (ha : s.crit.base.abort = false) (hp : PopMax s.crit.base.fringe N rest)
      (hl : popLoop (setFringe s.crit rest) [(N, true)] 0 = (c', some (some nn), k))
      (ht : c'.take i nn = none) :
      StepG ab dedup okR okX s { crit := c'.takeCrash, ws := s.ws.set i (.crashed nn) }
  /- ### `process_one_node` -/
  | readLbR (s : Sys S) (i : Nat) (n : SubP S) (hw : s.ws[i]? = some (.readR n)) :
      StepG ab dedup okR okX s
        { crit := s.crit, ws := s.ws.set i (if n.ub ≤ s.crit.readLb then .fin n false else .compR n s.crit.readLb) }
  | compileR (s : Sys S) (i : Nat) (n : SubP S) (lb : Int) (r : DDRes S) (hw : s.ws[i]? = some (.compR n lb))
      (hok : ∀ o, r = .ok o → okR n lb o) :
      StepG ab dedup okR okX s
        { crit := s.crit, ws := s.ws.set i (WSt.afterR n lb r) }
  | updateR (s : Sys S) (i : Nat) (n : SubP S) (lb : Int) (o : DDOut S) (hw : s.ws[i]? = some (.updR n lb o)) :
      StepG ab dedup okR okX s
        { crit := s.crit.updateBest o, ws := s.ws.set i (if o.isExact then .fin n false else .readX n) }
  | readLbX (s : Sys S) (i : Nat) (n : SubP S) (hw : s.ws[i]? = some (.readX n)) :
      StepG ab dedup okR okX s { crit := s.crit, ws := s.ws.set i (.compX n s.crit.readLb) }
  | compileX (s : Sys S) (i : Nat) (n : SubP S) (lb : Int) (r : DDRes S) (hw : s.ws[i]? = some (.compX n lb))
      (hok : ∀ o, r = .ok o → okX n lb o) :
      StepG ab dedup okR okX s
        { crit := s.crit, ws := s.ws.set i (WSt.afterX n lb r) }
  | updateX (s : Sys S) (i : Nat) (n : SubP S) (lb : Int) (o : DDOut S) (hw : s.ws[i]? = some (.updX n lb o)) :
      StepG ab dedup okR okX s
        { crit := s.crit.updateBest o, ws := s.ws.set i (if o.isExact then .fin n false else .enq n lb o) }
  | enqueue (s : Sys S) (i : Nat) (n : SubP S) (lb : Int) (o : DDOut S) (hw : s.ws[i]? = some (.enq n lb o)) :
      StepG ab dedup okR okX s
        { crit := s.crit.enqueue dedup o.cutset, ws := s.ws.set i (.fin n false) }
  /- ### cutoff -/
  | abort (s : Sys S) (i : Nat) (n : SubP S) (top : Option Int) (hw : s.ws[i]? = some (.abortS n))
      (htop : AbortTop s.crit.base.fringe top) :
      StepG ab dedup okR okX s { crit := ab s.crit n.ub top, ws := s.ws.set i (.fin n true) }
  /- ### `notify_node_finished(i, depth)` -/
  | notify (s : Sys S) (i : Nat) (n : SubP S) (te : Bool) (c' : ParCrit S) (hw : s.ws[i]? = some (.fin n te))
      (hn : s.crit.notifyFinished i n.depth = some c') :
      StepG ab dedup okR okX s { crit := c', ws := (s.ws.map WSt.wake).set i (if te then .done else .idle) }

/-- finite schedules -/
inductive RunG (ab : ParCrit S → Int → Option Int → ParCrit S) (dedup : Bool)
    (okR okX : SubP S → Int → DDOut S → Prop) : Sys S → Sys S → Prop
  | refl (s : Sys S) : RunG ab dedup okR okX s s
  | tail {s t u : Sys S} : RunG ab dedup okR okX s t → StepG ab dedup okR okX t u → RunG ab dedup okR okX s u

/-- **the steps of the parallel solver** (with the `abort_search` of the code as it is now) -/
abbrev Step (dedup : Bool) (okR okX : SubP S → Int → DDOut S → Prop) : Sys S → Sys S → Prop :=
  StepG ParCrit.abortSearch dedup okR okX
abbrev Run (dedup : Bool) (okR okX : SubP S → Int → DDOut S → Prop) : Sys S → Sys S → Prop :=
  RunG ParCrit.abortSearch dedup okR okX

/-- a worker's `get_workload` answers `Complete` in `s` -/
def CompletesAt (s : Sys S) (i : Nat) : Prop :=
  s.ws[i]? = some .idle ∧ s.crit.base.abort = false ∧ s.crit.ongoing = 0 ∧ s.crit.base.fringe = []

/-- every worker has left its loop: `maximize()` returns -/
def AllDone (s : Sys S) : Prop := ∀ w ∈ s.ws, w = WSt.done

end Ddo.ParSys
