import DdoModel.Basic
/-! Models of the two fringes.

* `NoDup` mirrors `NoDupFringe` (`implementation/fringe/no_duplicate.rs`) field by field: the map
  `states` (an association list: the hash map is only ever looked up, never iterated), `nodes`,
  `pos`, `heap`, `recycle_bin`; `push` (both branches, in the order "compute the action against the
  old entry, then overwrite"), `pop` (`swap_remove(0)` + `bubble_down`), `clear`, `len`.
  A result `none` = the Rust code panics (index out of range).
* `MaxUB` over a state ranking is `subCmp`.
* `SimpleFringe` wraps `binary_heap_plus::BinaryHeap`, which is modelled, not verified: `pop`
  returns a comparator-maximal element (relation `PQ.popOk`). -/
namespace Ddo

/-- a sub-problem as the fringe sees it; the decision path is abstracted by an integer tag -/
structure Sub where
  state : Int
  depth : Nat
  value : Int
  ub : Int
  tag : Int
deriving DecidableEq, Repr

/-- `MaxUB::compare`: ub, then value, then the state ranking -/
def subCmp (rank : Int → Int → Ordering) (l r : Sub) : Ordering :=
  match icmp l.ub r.ub with
  | .eq => (match icmp l.value r.value with
            | .eq => rank l.state r.state
            | o => o)
  | o => o

/-- the key under which `NoDupFringe` de-duplicates -/
structure FKey where
  state : Int
  depth : Nat
deriving DecidableEq, Repr

/-- the key the code uses: `(state, depth)` (`states: FxHashMap<(Arc<State>, usize), NodeId>`) -/
def Sub.key (s : Sub) : FKey := ⟨s.state, s.depth⟩

/-- the key of the pinned commit (before `fix:` D2): the state alone.  Kept for the negation witness. -/
def Sub.keyOld (s : Sub) : FKey := ⟨s.state, 0⟩

structure NoDup where
  states : List (FKey × Nat)
  nodes : List Sub
  pos : List Nat
  heap : List Nat
  bin : List Nat            -- `recycle_bin`, top of the stack first
deriving Repr

def NoDup.empty : NoDup := ⟨[], [], [], [], []⟩

def NoDup.len (f : NoDup) : Nat := f.heap.length

def lookupKey (m : List (FKey × Nat)) (k : FKey) : Option Nat :=
  match m with
  | [] => none
  | (k', id) :: r => if k' = k then some id else lookupKey r k

def removeKey (m : List (FKey × Nat)) (k : FKey) : List (FKey × Nat) :=
  m.filter (fun p => p.1 ≠ k)

/-- `parent(pos)` -/
def hparent (p : Nat) : Nat := if p = 0 then p else if p % 2 = 1 then p / 2 else p / 2 - 1

section
variable (rank : Int → Int → Ordering)

/-- `compare_at_pos(x, y)` -/
def NoDup.cmpAt (f : NoDup) (x y : Nat) : Option Ordering := do
  let ix ← f.heap[x]?
  let iy ← f.heap[y]?
  let nx ← f.nodes[ix]?
  let ny ← f.nodes[iy]?
  pure (subCmp rank nx ny)

/-- one swap of the loops: positions `me` and `other` exchange their ids -/
def NoDup.swapPos (f : NoDup) (me other : Nat) : Option NoDup := do
  let idMe ← f.heap[me]?
  let idO ← f.heap[other]?
  if idMe < f.pos.length ∧ idO < f.pos.length then
    pure { f with pos := (f.pos.set idO me).set idMe other, heap := (f.heap.set me idO).set other idMe }
  else none

/-- `bubble_up`, started at position `me`; `fuel` bounds the loop (the heap height suffices) -/
def NoDup.bubbleUpAt (f : NoDup) (me : Nat) : Nat → Option NoDup
  | 0 => some f
  | fuel + 1 =>
    if me = 0 then some f else
    match f.cmpAt rank me (hparent me) with
    | none => none
    | some .gt =>
      match f.swapPos me (hparent me) with
      | none => none
      | some f' => NoDup.bubbleUpAt f' (hparent me) fuel
    | some _ => some f

def NoDup.bubbleUp (f : NoDup) (id : Nat) : Option NoDup :=
  match f.pos[id]? with
  | none => none
  | some me => f.bubbleUpAt rank me (f.heap.length + 1)

/-- `max_child_of(pos)`; `0` = no child -/
def NoDup.maxChild (f : NoDup) (p : Nat) : Option Nat :=
  let size := f.heap.length
  let left := p * 2 + 1
  let right := p * 2 + 2
  if left ≥ size then some 0
  else if right ≥ size then some left
  else match f.cmpAt rank left right with
    | none => none
    | some .gt => some left
    | some _ => some right

def NoDup.bubbleDownAt (f : NoDup) (me : Nat) : Nat → Option NoDup
  | 0 => some f
  | fuel + 1 =>
    match f.maxChild rank me with
    | none => none
    | some kid =>
      if kid = 0 then some f else
      match f.cmpAt rank me kid with
      | none => none
      | some .lt =>
        match f.swapPos me kid with
        | none => none
        | some f' => NoDup.bubbleDownAt f' kid fuel
      | some _ => some f

def NoDup.bubbleDown (f : NoDup) (id : Nat) : Option NoDup :=
  match f.pos[id]? with
  | none => none
  | some me => f.bubbleDownAt rank me (f.heap.length + 1)

/-- `push` -/
def NoDup.push (f : NoDup) (node : Sub) : Option NoDup :=
  match lookupKey f.states node.key with
  | some id =>
    match f.nodes[id]? with
    | none => none
    | some old =>
      let node' := { node with ub := max node.ub old.ub }
      let up := subCmp rank node' old == .gt
      let nodes1 := if node.value > old.value then f.nodes.set id node' else f.nodes
      let nodes2 := if node.ub > old.ub then
          (match nodes1[id]? with | some n => nodes1.set id { n with ub := node.ub } | none => nodes1)
        else nodes1
      let f' := { f with nodes := nodes2 }
      if up then f'.bubbleUp rank id else some f'
  | none =>
    let (id, nodes, pos, bin) :=
      match f.bin with
      | [] => (f.nodes.length, f.nodes ++ [node], f.pos ++ [0], ([] : List Nat))
      | id :: rest => (id, f.nodes.set id node, f.pos, rest)
    if id < pos.length ∧ id < nodes.length then
      let heap := f.heap ++ [id]
      let f' : NoDup := { states := (node.key, id) :: f.states, nodes := nodes, pos := pos.set id (heap.length - 1), heap := heap, bin := bin }
      f'.bubbleUp rank id
    else none

/-- `pop`: `none` = panic, `some (f, none)` = empty fringe -/
def NoDup.pop (f : NoDup) : Option (NoDup × Option Sub) :=
  match f.heap with
  | [] => some (f, none)
  | id :: _ =>
    -- swap_remove(0): the last element takes position 0
    let last := f.heap.getLast?.getD id
    let heap' := if f.heap.length = 1 then [] else (f.heap.set 0 last).dropLast
    let f1 : NoDup := { f with heap := heap' }
    let f2? : Option NoDup :=
      match heap' with
      | [] => some f1
      | h0 :: _ =>
        if h0 < f1.pos.length then
          let f1' := { f1 with pos := f1.pos.set h0 0 }
          f1'.bubbleDown rank h0
        else none
    match f2? with
    | none => none
    | some f2 =>
      match f2.nodes[id]? with
      | none => none
      | some node =>
        some ({ f2 with bin := id :: f2.bin, states := removeKey f2.states node.key }, some node)

end

def NoDup.clear (_ : NoDup) : NoDup := NoDup.empty

/-! ## Abstract specification: a keyed priority queue (what the property describes) -/

/-- coalescing rule of the property: same key ⇒ the survivor keeps the larger value with that
    value's own path (on equal values the entry already present), and the larger upper bound -/
def coalesce (old new : Sub) : Sub :=
  if new.value > old.value then { new with ub := max new.ub old.ub } else { old with ub := max new.ub old.ub }

def KeyedPQ := List Sub

def KeyedPQ.push (q : List Sub) (x : Sub) : List Sub :=
  match q with
  | [] => [x]
  | y :: r => if y.key = x.key then coalesce y x :: r else y :: KeyedPQ.push r x

/-- `x` may be popped: it is present and comparator-maximal -/
def KeyedPQ.popOk (rank : Int → Int → Ordering) (q : List Sub) (x : Sub) : Prop :=
  x ∈ q ∧ ∀ y ∈ q, subCmp rank y x ≠ .gt

end Ddo
