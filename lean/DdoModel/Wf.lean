import DdoModel.Dp
import DdoModel.Mdd
/-! Well-formedness of a user model (what C01 calls "a well-formed model"), in *potential* form
    (DESIGN.md §5.2): a function `H : depth → state → EInt` (value-to-go, `none` = −∞) such that

* `Potential.att`  — on **every** state (merged ones included) some decision of the domain does
  not lose potential: `H k s ≤ cost + H (k+1) (trans s d)`;
* `Potential.le`   — on states reached exactly (`Reach`) every decision of the domain satisfies
  `cost + H (k+1) (trans s d) ≤ H k s`; so on exact states `H` is the true value-to-go;
* `Potential.term` — `H k s = 0` when `nextVar` answers `none` for a layer containing `s`;
* `MergeOk` — the merge operator and the arc relaxation over-approximate: redirecting an arc
  `src —d,c→ u` to `merge X` (`u ∈ X`) with cost `relax src u (merge X) d c` loses no potential;
* `RubOk`   — the rough upper bound dominates the potential;
* `NoClamp` — magnitudes are such that `isize` saturation never fires on path values. -/
namespace Ddo
variable {S : Type}

/-- `(s, v)` is reached exactly at depth `k` by the decisions `p` (in order) from the problem root -/
inductive Reach (P : Problem S) : Nat → S → Int → List Dec → Prop
  | root : Reach P 0 P.init P.initVal []
  | step (k : Nat) (s : S) (v : Int) (p : List Dec) (L : List S) (x : Nat) (d : Int) :
      Reach P k s v p → P.nextVar k L = some x → s ∈ L → d ∈ P.domain x s →
      Reach P (k + 1) (P.trans s ⟨x, d⟩) (v + P.cost s (P.trans s ⟨x, d⟩) ⟨x, d⟩) (p ++ [⟨x, d⟩])

structure Potential (P : Problem S) (H : Nat → S → EInt) : Prop where
  att : ∀ k L x s h, P.nextVar k L = some x → s ∈ L → H k s = some h →
      ∃ d ∈ P.domain x s, ∃ h', H (k + 1) (P.trans s ⟨x, d⟩) = some h' ∧
        h ≤ P.cost s (P.trans s ⟨x, d⟩) ⟨x, d⟩ + h'
  le : ∀ k L x s v p d, Reach P k s v p → P.nextVar k L = some x → s ∈ L → d ∈ P.domain x s →
      (H (k + 1) (P.trans s ⟨x, d⟩)).addI (P.cost s (P.trans s ⟨x, d⟩) ⟨x, d⟩) ≤ H k s
  term : ∀ k L s, P.nextVar k L = none → s ∈ L → H k s = some 0

def RubOk (R : Relax S) (H : Nat → S → EInt) : Prop := ∀ k s h, H k s = some h → h ≤ R.rub s

def MergeOk (R : Relax S) (H : Nat → S → EInt) : Prop :=
  ∀ k (X : List S) (u src : S) (d : Dec) (c h : Int), u ∈ X → H k u = some h →
    ∃ h', H k (R.merge X) = some h' ∧ c + h ≤ R.relax src u (R.merge X) d c + h'

/-- no `isize` saturation on path values: all costs (original and relaxed) are bounded by `B`, and
    `(nbVars + 2) · B` stays far inside the `isize` range -/
structure NoClamp (P : Problem S) (R : Relax S) (rootValue : Int) (B : Int) : Prop where
  nonneg : 0 ≤ B
  root : -B ≤ rootValue ∧ rootValue ≤ B
  cost : ∀ s s' d, -B ≤ P.cost s s' d ∧ P.cost s s' d ≤ B
  relax : ∀ s u m d c, -B ≤ c ∧ c ≤ B → -B ≤ R.relax s u m d c ∧ R.relax s u m d c ≤ B
  small : ((P.nbVars : Int) + 2) * B ≤ 4611686018427387904

/-- the optimum of a sub-problem `N`: its value plus the potential of its state -/
def optOf (H : Nat → S → EInt) (N : SubP S) : EInt := (H N.depth N.state).addI N.value

end Ddo
