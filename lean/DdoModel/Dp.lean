import DdoModel.Basic
/-! Structures mirroring `abstraction/dp.rs`, `abstraction/heuristics.rs`, `common.rs`:
    the user-supplied DP model, its relaxation, a state ranking, sub-problems, compilation inputs. -/
namespace Ddo

structure Dec where
  var : Nat
  val : Int
deriving DecidableEq, Repr

structure Problem (S : Type) where
  nbVars  : Nat
  init    : S
  initVal : Int
  trans   : S → Dec → S
  cost    : S → S → Dec → Int            -- (source, destination, decision), as `transition_cost`
  nextVar : Nat → List S → Option Nat     -- depth, states of the next layer
  domain  : Nat → S → List Int            -- `for_each_in_domain`, in call order
  impacted : Nat → S → Bool               -- `is_impacted_by`

structure Relax (S : Type) where
  merge : List S → S
  relax : S → S → S → Dec → Int → Int     -- (source, dest, merged, decision, cost)
  rub   : S → Int                          -- `fast_upper_bound`

structure Ranking (S : Type) where
  cmp : S → S → Ordering

structure SubP (S : Type) where
  state : S
  value : Int
  path  : List Dec
  ub    : Int
  depth : Nat

inductive CompType | exact | relaxed | restricted
deriving DecidableEq, Repr

inductive CutsetKind | lel | frontier
deriving DecidableEq, Repr

/-- extended integers: `none` = −∞ (value-to-go of a state without completion) -/
abbrev EInt := Option Int

def EInt.le : EInt → EInt → Prop
  | none, _ => True
  | some _, none => False
  | some a, some b => a ≤ b
instance : LE EInt := ⟨EInt.le⟩
instance (a b : EInt) : Decidable (a ≤ b) :=
  match a, b with
  | none, _ => isTrue True.intro
  | some _, none => isFalse (fun h => h)
  | some x, some y => if h : x ≤ y then isTrue h else isFalse h

def EInt.addI (a : EInt) (c : Int) : EInt := a.map (· + c)
def EInt.max (a b : EInt) : EInt :=
  match a, b with
  | none, b => b
  | a, none => a
  | some x, some y => some (Max.max x y)

@[simp] theorem EInt.none_le (a : EInt) : (none : EInt) ≤ a := by cases a <;> exact True.intro
@[simp] theorem EInt.some_le_some (a b : Int) : ((some a : EInt) ≤ some b) ↔ a ≤ b := Iff.rfl
@[simp] theorem EInt.some_le_none (a : Int) : ((some a : EInt) ≤ none) ↔ False := Iff.rfl
theorem EInt.le_refl (a : EInt) : a ≤ a := by cases a <;> simp
theorem EInt.le_trans {a b c : EInt} (h1 : a ≤ b) (h2 : b ≤ c) : a ≤ c := by
  cases a <;> cases b <;> cases c <;> simp_all <;> omega

/-- replay of a decision list from a state: every decision must belong to the domain of its
    variable in the state reached so far; returns the final state and the accumulated value.
    Variables are taken in the order `nextVar` dictates (static orders: `nextVar k _ = some (ord k)`). -/
def evalFrom {S : Type} (P : Problem S) (depth : Nat) (s : S) (v : Int) : List Dec → Option (S × Int × Nat)
  | [] => some (s, v, depth)
  | d :: ds =>
    match P.nextVar depth [s] with
    | none => none
    | some x =>
      if d.var = x ∧ d.val ∈ P.domain x s then
        let s' := P.trans s d
        evalFrom P (depth + 1) s' (v + P.cost s s' d) ds
      else none

/-- default-completed replay (pooled diagrams, long arcs): a variable without a decision in the list is
    legal iff the state reached so far is not impacted by it; it then contributes cost 0 and leaves
    the state unchanged.  `fuel` bounds the number of layers. -/
def evalSkip {S : Type} (P : Problem S) : Nat → Nat → S → Int → List Dec → Option (S × Int × Nat)
  | 0, depth, s, v, ds => if ds.isEmpty then some (s, v, depth) else none
  | fuel + 1, depth, s, v, ds =>
    match P.nextVar depth [s] with
    | none => if ds.isEmpty then some (s, v, depth) else none
    | some x =>
      match ds with
      | d :: rest =>
        if d.var = x then
          (if d.val ∈ P.domain x s then
            let s' := P.trans s d
            evalSkip P fuel (depth + 1) s' (v + P.cost s s' d) rest
           else none)
        else if P.impacted x s then none else evalSkip P fuel (depth + 1) s v ds
      | [] => if P.impacted x s then none else evalSkip P fuel (depth + 1) s v []

end Ddo
