import DdoModel.SeqSolver
/-! Model of `ParallelSolver` (`implementation/solver/parallel.rs`) as a transition system whose
    steps are the critical sections (`get_workload`, `best_lb`, `maybe_update_best`,
    `enqueue_cutset`, `notify_node_finished`, `abort_search`) and the lock-free compilations.

Shared state `ParCrit` = the `Critical` record (the `SeqSt` fields plus `ongoing`,
`ongoing_by_layer`, `upper_bounds`, sized at construction).  `parking_lot::{Mutex, Condvar}` are
modelled, not verified: sections are atomic, `wait` releases the lock and parks atomically,
`notify_all` wakes every parked worker.  As in `SeqSolver`, what the diagram, the fringe (which
maximal node a pop returns) and the cache answer are inputs. -/
namespace Ddo
variable {S : Type} [DecidableEq S]

structure ParCrit (S : Type) where
  base : SeqSt S
  ongoing : Nat := 0
  ongoingByLayer : List Nat
  upperBounds : List Int            -- `upper_bounds`, one cell per thread *at construction time*

/-- `custom(..)` / `with_nb_threads(U)` (+ optional `set_primal`) + `initialize`: one cell of
    `upper_bounds` per thread (`with_nb_threads` resizes it since fix D3), idle marker `isize::MIN` -/
def ParCrit.init (P : Problem S) (primal : Option (Int × List Dec)) (dedup : Bool) (U : Nat) : ParCrit S :=
  { base := SeqSt.init P primal dedup, ongoingByLayer := List.replicate (P.nbVars + 1) 0, upperBounds := List.replicate U iMin }

/-- outcome of `get_workload` -/
inductive WorkLoad (S : Type)
  | complete
  | aborted
  | wait                 -- `monitor.wait` then `Starvation`
  | starvation
  | item (n : SubP S)
  | crash                -- the Rust code panics inside the section (index out of range, `usize` underflow)

/-- the cache-cleaning loop of the parallel `get_workload`: a layer is cleared when nothing of it
    is open or in progress -/
def cleanLoopPar (nbVars : Nat) (openByLayer ongoingByLayer : List Nat) : Nat → Nat → Nat
  | 0, fa => fa
  | fuel + 1, fa =>
    if fa < nbVars ∧ (openByLayer[fa]?.getD 1) + (ongoingByLayer[fa]?.getD 1) = 0
    then cleanLoopPar nbVars openByLayer ongoingByLayer fuel (fa + 1) else fa

/-- the pop loop of `get_workload`: `pops` are the nodes the fringe hands out, in order, each with the
    cache's `must_explore` answer (consulted only if the node beats the incumbent).
    Returns the new state, the outcome, and how many of the supplied pops were consumed. -/
def popLoop (c : ParCrit S) : List (SubP S × Bool) → Nat → ParCrit S × Option (Option (SubP S)) × Nat
  -- result: `some (some n)` = node kept, `some none` = starvation, `none` = crash / ran out of supplied pops
  | [], k => (c, none, k)
  | (nn, me) :: rest, k =>
    if nn.ub ≤ c.base.bestLb then
      -- nothing relevant: clear the fringe, zero the open counters
      ({ c with base := { c.base with fringe := [], openByLayer := c.base.openByLayer.map (fun _ => 0) } }, some none, k + 1)
    else if me then (c, some (some nn), k + 1)
    else
      match decLayer c.base.openByLayer nn.depth with
      | none => (c, none, k + 1)
      | some l =>
        let c := { c with base := { c.base with openByLayer := l } }
        if c.base.fringe.isEmpty then (c, some none, k + 1) else popLoop c rest (k + 1)

/-- the end of `get_workload` once a node `nn` has been kept (thread `i`) -/
def ParCrit.take (c : ParCrit S) (i : Nat) (nn : SubP S) : Option (ParCrit S) :=
  -- `ongoing += 1; explored += 1; upper_bounds[i] = nn.ub; open_by_layer[d] -= 1; ongoing_by_layer[d] += 1`
  if i < c.upperBounds.length then
    match decLayer c.base.openByLayer nn.depth, bumpLayer c.ongoingByLayer nn.depth 1 with
    | some l, some ol =>
      some { c with base := { c.base with explored := c.base.explored + 1, openByLayer := l },
                    ongoing := c.ongoing + 1, upperBounds := c.upperBounds.set i nn.ub, ongoingByLayer := ol }
    | _, _ => none
  else none

/-- state left behind when the index `upper_bounds[i]` panics: `ongoing` and `explored` were already raised -/
def ParCrit.takeCrash (c : ParCrit S) : ParCrit S :=
  { c with base := { c.base with explored := c.base.explored + 1 }, ongoing := c.ongoing + 1 }

/-- `best_lb()` -/
def ParCrit.readLb (c : ParCrit S) : Int := c.base.bestLb

/-- `maybe_update_best` -/
def ParCrit.updateBest (c : ParCrit S) (o : DDOut S) : ParCrit S := { c with base := c.base.updateBest o }

/-- `enqueue_cutset()` (no cap since the repair of D14: the same `SeqSt.enqueue` as the sequential solver) -/
def ParCrit.enqueue (dedup : Bool) (c : ParCrit S) (cs : List (SubP S)) : ParCrit S :=
  { c with base := c.base.enqueue dedup cs }

/-- `notify_node_finished(thread_id, depth)`; `none` = panic (`ongoing` underflow / index out of range) -/
def ParCrit.notifyFinished (c : ParCrit S) (i : Nat) (depth : Nat) : Option (ParCrit S) :=
  if c.ongoing = 0 then none
  else if i < c.upperBounds.length then
    match decLayer c.ongoingByLayer depth with
    | some ol => some { c with ongoing := c.ongoing - 1, upperBounds := c.upperBounds.set i iMin, ongoingByLayer := ol }
    | none => none
  else none

/-- `abort_search(reason, current_ub)` (since fixes D4 / D4b): the recorded bound covers the aborting node, every
    node in progress (`upper_bounds`) and the best node left in the fringe (`fringeTop` = the bound of the
    node `fringe.pop()` hands out, if any); a later abort can only raise it; and it never ends below the
    incumbent (which another thread may have raised above the bound of every node left) -/
def ParCrit.abortSearch (c : ParCrit S) (currentUb : Int) (fringeTop : Option Int) : ParCrit S :=
  let ub := c.upperBounds.foldl max currentUb
  let ub := match fringeTop with | some t => max ub t | none => ub
  let ub := if c.base.abort then max ub c.base.bestUb else ub
  { c with base := { c.base with abort := true, fringe := [], bestUb := max ub c.base.bestLb } }

/-- the formula between fixes D4 and D4b, kept for the violation witness: without the final `max … best_lb` the
    bound can end below the incumbent (= the optimum) when another thread improved it after the aborting
    worker read it -/
def ParCrit.abortSearchD4 (c : ParCrit S) (currentUb : Int) (fringeTop : Option Int) : ParCrit S :=
  let ub := c.upperBounds.foldl max currentUb
  let ub := match fringeTop with | some t => max ub t | none => ub
  let ub := if c.base.abort then max ub c.base.bestUb else ub
  { c with base := { c.base with abort := true, fringe := [], bestUb := ub } }

/-- the formula of the pinned commit (before `fix:` D4), kept for the violation witness: the bound of the
    aborting node alone (and the next `get_workload` then overwrote it by `best_lb`) -/
def ParCrit.abortSearchOld (c : ParCrit S) (currentUb : Int) : ParCrit S :=
  { c with base := { c.base with abort := true, fringe := [],
                                 bestUb := if c.base.bestUb = iMax then currentUb else max currentUb c.base.bestUb } }

/-- `get_workload` found `ongoing == 0 && fringe.is_empty()` -/
def ParCrit.complete (c : ParCrit S) : ParCrit S := { c with base := c.base.complete }

end Ddo
