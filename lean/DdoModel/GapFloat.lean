import DdoModel.Gap
/-! # IEEE-754 binary32, concretely enough to compute `Solver::gap`

`Gap.lean` models `Solver::gap` by the exact fraction.  This file adds the float layer: an
executable model of binary32 with the two operations the Rust code uses,

* `F.ofNat` — `usize as f32`: round-to-nearest-even conversion of an unsigned integer,
* `F.div`   — `/` on `f32`: correctly rounded (nearest-even) division,

both instances of one function `F.round neg n d` = *the binary32 nearest to the exact rational
`(-1)^neg · n / d`, ties to the even mantissa, overflow to ±∞* — and `gapF`, the Rust computation
itself.  Only `Nat`/`Int` arithmetic is used (no `Float`).

## How the rounding is spelled out

Every non-negative binary32 (and +∞) is identified by its **magnitude bit pattern**
`b = E · 2^23 + f` (`E` = biased exponent field, `f` = fraction field, i.e. the low 31 bits of
`to_bits()`); `F.val b` is its exact value **in units of `2^-149`** (an integer, since `2^-149` is
the smallest subnormal):  `val b = f` if `E = 0`, `(2^23 + f) · 2^(E-1)` otherwise; the pattern
`255 · 2^23` of +∞ gets `2^128` (which is what IEEE-754 rounding uses as the successor of the
largest finite number).  `val` is strictly increasing in `b` (the well-known property of the
encoding), the mantissa is even iff `b` is even, and a carry out of the fraction field moves to the
next exponent.  So rounding `q = n / d ≥ 0` is:

1. `b := floorBits ⌊q · 2^149⌋` — the largest pattern with `val b ≤ q` (`F.floorBits`);
2. go to `b + 1` iff `q` is above the midpoint of `val b` and `val (b+1)`, or on it and `b` is odd
   (`F.roundAt`, `F.roundBits`; the comparison is exact: cross-multiplied integers);
3. patterns `≥ 255 · 2^23` are +∞ (`F.round`).

`Props/C17f.lean` proves that this is what it claims to be (floor property, nearest property,
monotonicity, exactness on representable values) and derives the clauses of C17 for `gapF`. -/
namespace Ddo

/-- binary32: NaN, ±∞, or the finite value `(-1)^neg · mant · 2^exp` (`mant` includes the hidden
    bit).  The values of the format are those satisfying `F.WF`. -/
inductive F
  | nan
  | inf (neg : Bool)
  | fin (neg : Bool) (mant : Nat) (exp : Int)
deriving DecidableEq, Repr

namespace F

/-- the finite values of the format, in the canonical form in which the bit pattern stores them:
    normal (`2^23 ≤ mant < 2^24`, `-149 ≤ exp ≤ 104`) or subnormal/zero (`mant < 2^23`, `exp = -149`) -/
def WF : F → Prop
  | fin _ m e => m < 2 ^ 24 ∧ -149 ≤ e ∧ e ≤ 104 ∧ (2 ^ 23 ≤ m ∨ e = -149)
  | _ => True

instance (a : F) : Decidable a.WF := by
  cases a <;> unfold WF <;> exact inferInstance

/-- `+0.0` -/
def zero : F := fin false 0 (-149)
/-- `1.0` = `2^23 · 2^-23` -/
def one : F := fin false 8388608 (-23)
/-- `2.0` -/
def two : F := fin false 8388608 (-22)
/-- the smallest positive value, `2^-149` -/
def minPos : F := fin false 1 (-149)

def isNaN : F → Bool
  | nan => true
  | _ => false

def isFinite : F → Bool
  | fin _ _ _ => true
  | _ => false

/-- the sign bit (of NaN: irrelevant, `false`) -/
def signBit : F → Bool
  | nan => false
  | inf s => s
  | fin s _ _ => s

/-- magnitude in units of `2^-149` (finite values: exact, an integer for every `WF` value;
    ±∞: `2^128`; NaN: junk 0) -/
def mag : F → Nat
  | nan => 0
  | inf _ => 2 ^ 277
  | fin _ m e => m * 2 ^ (e + 149).toNat

/-- the value on the extended line, in units of `2^-149` (±∞ ↦ ±2^128; NaN: junk) -/
def ext (a : F) : Int := if a.signBit then -(a.mag : Int) else a.mag

/-- IEEE `≤` (false as soon as a NaN is involved; `-0 ≤ +0 ≤ -0`) -/
def le (a b : F) : Prop := a.isNaN = false ∧ b.isNaN = false ∧ a.ext ≤ b.ext
/-- IEEE `<` -/
def lt (a b : F) : Prop := a.isNaN = false ∧ b.isNaN = false ∧ a.ext < b.ext

instance : LE F := ⟨le⟩
instance : LT F := ⟨lt⟩
instance (a b : F) : Decidable (a ≤ b) := by
  show Decidable (le a b); unfold le; exact inferInstance
instance (a b : F) : Decidable (a < b) := by
  show Decidable (lt a b); unfold lt; exact inferInstance

/-- "not negative": sign bit clear, or a zero -/
def nonneg (a : F) : Bool := !a.signBit || (a.isFinite && a.mag == 0)

/-! ### magnitude bit patterns -/

/-- pattern of +∞: exponent field 255, fraction 0 -/
def infBits : Nat := 2139095040   -- 255 * 2^23 = 0x7F800000

/-- value (units of `2^-149`) of the magnitude pattern `b = E·2^23 + f` -/
def val (b : Nat) : Nat :=
  if b / 2 ^ 23 = 0 then b % 2 ^ 23 else (2 ^ 23 + b % 2 ^ 23) * 2 ^ (b / 2 ^ 23 - 1)

/-- mantissa (with hidden bit) stored in pattern `b` -/
def mantOf (b : Nat) : Nat := if b / 2 ^ 23 = 0 then b % 2 ^ 23 else 2 ^ 23 + b % 2 ^ 23
/-- exponent of the mantissa's unit stored in pattern `b` -/
def expOf (b : Nat) : Int := if b / 2 ^ 23 = 0 then -149 else (b / 2 ^ 23 : Nat) - 150

/-- the float with sign `neg` and magnitude pattern `b` (`b ≥ infBits` ↦ ∞: used for overflow) -/
def decode (neg : Bool) (b : Nat) : F :=
  if infBits ≤ b then inf neg else fin neg (mantOf b) (expOf b)

/-- magnitude pattern of a non-NaN float (inverse of `decode` on `WF` values) -/
def bits : F → Nat
  | nan => infBits + 1
  | inf _ => infBits
  | fin _ m e => if m < 2 ^ 23 then m else (e + 149).toNat * 2 ^ 23 + m

/-- the full 32-bit pattern `to_bits()` of a non-NaN float -/
def toBits (a : F) : Nat := (if a.signBit then 2 ^ 31 else 0) + a.bits

/-- largest pattern `b` with `val b ≤ t`:  with `L = ⌊log2 t⌋` and `sh = L - 23` (0 when `L ≤ 23`),
    the mantissa is `t >> sh` and the pattern `sh · 2^23 + (t >> sh)`
    (for `L ≥ 23`: exponent field `sh + 1`, fraction `(t >> sh) - 2^23`; below: `E = 0`, `f = t`). -/
def floorBits (t : Nat) : Nat := (t.log2 - 23) * 2 ^ 23 + t >>> (t.log2 - 23)

/-- round-to-nearest-even of `x / d` (`d > 0`; `x / d` is the value in units of `2^-149`) to a
    magnitude pattern, exponent field unbounded -/
def roundAt (x d : Nat) : Nat :=
  let b := floorBits (x / d)
  let mid2 := val b + val (b + 1)           -- twice the midpoint of the two neighbours
  -- `x/d > mid` ⇔ `2·x > mid2·d`
  if mid2 * d < 2 * x ∨ (mid2 * d = 2 * x ∧ b % 2 = 1) then b + 1 else b

/-- round-to-nearest-even of the rational `n / d` (`d > 0`) -/
def roundBits (n d : Nat) : Nat := roundAt (n * 2 ^ 149) d

/-- the binary32 nearest (ties to even, overflow to ∞) to `(-1)^neg · n / d`, for `d > 0` -/
def round (neg : Bool) (n d : Nat) : F := decode neg (min (roundBits n d) infBits)

/-- `n as f32` for an unsigned integer `n` -/
def ofNat (n : Nat) : F := round false n 1

/-- IEEE-754 division, round-to-nearest-even.  Finite operands: the exact quotient of the two
    magnitudes (both integers in units of `2^-149`) is rounded; the sign is the xor. -/
def div : F → F → F
  | nan, _ => nan
  | _, nan => nan
  | inf _, inf _ => nan
  | inf s, fin t _ _ => inf (s != t)
  | fin s _ _, inf t => fin (s != t) 0 (-149)
  | fin s m e, fin t m' e' =>
    if (fin t m' e').mag = 0 then
      if (fin s m e).mag = 0 then nan else inf (s != t)
    else round (s != t) (fin s m e).mag (fin t m' e').mag

/-- the same tokens as the harness prints (`f32_tokens` in `harness/src/eng_small.rs`):
    `nan` | `inf <sign>` | `fin <sign> <mantissa incl. hidden bit> <exponent>` -/
def toTokens : F → List String
  | nan => ["nan"]
  | inf s => ["inf", if s then "1" else "0"]
  | fin s m e => ["fin", if s then "1" else "0", toString m, toString e]

def toString (a : F) : String := " ".intercalate a.toTokens

/-- as the driver's observed-output type -/
def toFOut : F → FOut
  | nan => .nan
  | inf s => .inf s
  | fin s m e => .fin ⟨s, m, e⟩

end F

/-- `Solver::gap` on `isize` bounds, with the `f32` arithmetic:
```rust
if ub == isize::MAX || lb == isize::MIN { 1.0 } else if ub == lb { 0.0 }
else { ub.abs_diff(lb) as f32 / ub.unsigned_abs().max(lb.unsigned_abs()) as f32 }
``` -/
def gapF (lb ub : Int) : F :=
  if ub = iMax ∨ lb = iMin then F.one
  else if ub = lb then F.zero
  else F.div (F.ofNat (ub - lb).natAbs) (F.ofNat (max ub.natAbs lb.natAbs))

/-- the model's answer in the harness' token form, for the driver -/
def gapFTokens (lb ub : Int) : List String := (gapF lb ub).toTokens

/-- the float denoted by a result of the exact model `gap` -/
def Gap.toF : Gap → F
  | .one => F.one
  | .nan => F.nan
  | .frac n d => F.div (F.ofNat n.toNat) (F.ofNat d.toNat)

end Ddo
