import DdoModel.Examples.SrflpProofsRubMergedDefs
/-! Merged states of the srflp example: (1) counting domination of two lists of flows gives the rearrangement bound
    (`dot_le_of_cntDom`); (2) the consistent virtual weights `vrow` (`vrow_sum`, `GG_eq_aftV`, `vrow_perm`). -/
namespace Ddo.Examples.SrflpModel
open Ddo Ddo.Examples Ddo.Examples.Util Ddo.SpecUtil


private theorem dot_comm (xs ys : List Int) : dot xs ys = dot ys xs := by
  unfold dot
  rw [List.zipWith_comm_of_comm (fun x y => Int.mul_comm x y)]

private theorem countP_lt_eq_zero (θ : Int) (L : List Int) (h : ∀ x ∈ L, θ ≤ x) :
    L.countP (fun x => decide (x < θ)) = 0 := by
  rw [List.countP_eq_zero]
  intro a ha
  have := h a ha
  simp only [decide_eq_true_eq]; omega

/-- counting domination of two increasing lists of the same length is domination position by position -/
private theorem pointwise_of_cntDom : ∀ (F G : List Int), F.Pairwise (· ≤ ·) → G.Pairwise (· ≤ ·) → F.length = G.length →
    (∀ θ : Int, G.countP (fun x => decide (x < θ)) ≤ F.countP (fun x => decide (x < θ))) →
    ∀ p ∈ F.zip G, p.1 ≤ p.2 := by
  intro F
  induction F with
  | nil => intro G _ _ _ _ p hp; simp at hp
  | cons a F ih =>
    intro G hF hG hlen hcnt
    cases G with
    | nil => simp at hlen
    | cons b G =>
      obtain ⟨ha, hF'⟩ := List.pairwise_cons.mp hF
      obtain ⟨hb, hG'⟩ := List.pairwise_cons.mp hG
      have hab : a ≤ b := by
        have h0 := countP_lt_eq_zero a (a :: F) (by
          intro x hx
          rcases List.mem_cons.mp hx with e | e
          · subst e; exact Int.le_refl _
          · exact ha x e)
        have h1 := hcnt a
        rw [h0, List.countP_cons] at h1
        by_cases hba : b < a
        · simp only [hba, decide_true, if_true] at h1; omega
        · omega
      have htail : ∀ θ : Int, G.countP (fun x => decide (x < θ)) ≤ F.countP (fun x => decide (x < θ)) := by
        intro θ
        have h1 := hcnt θ
        rw [List.countP_cons, List.countP_cons] at h1
        by_cases hbθ : b < θ
        · have haθ : a < θ := by omega
          simp only [hbθ, haθ, decide_true, if_true] at h1
          omega
        · have h0 := countP_lt_eq_zero θ G (fun x hx => by have := hb x hx; omega)
          omega
      have hih := ih G hF' hG' (by simpa using hlen) htail
      intro p hp
      simp only [List.zip_cons_cons] at hp
      rcases List.mem_cons.mp hp with e | e
      · subst e; exact hab
      · exact hih p e

private theorem mem_zip_reverse {F G : List Int} (h : F.length = G.length) {p : Int × Int}
    (hp : p ∈ F.reverse.zip G.reverse) : p ∈ F.zip G := by
  unfold List.zip at hp
  rw [← List.reverse_zipWith h, List.mem_reverse] at hp
  exact hp

/-- if, for every threshold, `G` has at most as many values below it as the increasing list `F` of the same length (so the
    sorted `G` dominates `F` position by position), then pairing `F` (decreasing) with the increasing non-negative weights `W`
    costs at most ANY pairing `ps` of the values of `G` with the weights `W` -/
theorem dot_le_of_cntDom (F G W : List Int) (ps : List (Int × Int))
    (hF : F.Pairwise (· ≤ ·)) (hlen : F.length = G.length)
    (hcnt : ∀ θ : Int, G.countP (fun x => decide (x < θ)) ≤ F.countP (fun x => decide (x < θ)))
    (hW : W.Pairwise (· ≤ ·)) (hW0 : ∀ w ∈ W, 0 ≤ w)
    (h1 : G.Perm (ps.map Prod.fst)) (h2 : W.Perm (ps.map Prod.snd)) :
    dot F.reverse W ≤ (ps.map (fun p => p.1 * p.2)).sum := by
  have hperm : (sortInts G).Perm G := List.mergeSort_perm G _
  have hsorted := sortInts_pairwise G
  have hlen' : F.length = (sortInts G).length := by rw [hperm.length_eq]; exact hlen
  have hcnt' : ∀ θ : Int, (sortInts G).countP (fun x => decide (x < θ)) ≤ F.countP (fun x => decide (x < θ)) := by
    intro θ
    rw [hperm.countP_eq]
    exact hcnt θ
  have hpt := pointwise_of_cntDom F (sortInts G) hF hsorted hlen' hcnt'
  have h3 : dot F.reverse W ≤ dot (sortInts G).reverse W := by
    rw [dot_comm F.reverse W, dot_comm (sortInts G).reverse W]
    exact dot_mono_right W hW0 F.reverse (sortInts G).reverse (by simp [hlen'])
      (fun p hp => hpt p (mem_zip_reverse hlen' hp))
  have h4 := rearrangement ps (sortInts G).reverse W
    ((List.reverse_perm _).trans (hperm.trans h1)) h2
    (by rw [List.pairwise_reverse]; exact hsorted.imp (fun h => h)) hW
  omega


private theorem filter_ne_of_not_mem (Y : List Nat) (j : Nat) (h : j ∉ Y) : Y.filter (· ≠ j) = Y := by
  rw [List.filter_eq_self]
  intro a ha
  simp only [ne_eq, decide_not, Bool.not_eq_eq_eq_not, Bool.not_true, decide_eq_false_iff_not]
  intro e; subst e; exact h ha

private theorem leastSum_zero (L : List Int) : leastSum 0 L = 0 := by
  simp [leastSum]

private theorem tail_cond {M : List Nat} {j : Nat} {q Y : List Nat} (h : ∀ i ∈ j :: q, i ∈ M → i ∉ Y) :
    ∀ i ∈ q, i ∈ M → i ∉ Y.filter (· ≠ j) :=
  fun i hi hiM hmem => h i (List.mem_cons_of_mem _ hi) hiM (List.mem_filter.mp hmem).1

/-- the virtual weights of the optional picks add up to the sum of the least weights of `Y` -/
theorem vrow_sum (v : Nat → Int) (M : List Nat) : ∀ (q Y : List Nat), (∀ j ∈ q, j ∈ M → j ∉ Y) →
    (vrow v M Y q).sum = ((q.filter (fun i => M.contains i)).map v).sum + leastSum (nonM M q) (Y.map v) := by
  intro q
  induction q with
  | nil => intro Y _; simp [vrow, leastSum_zero]
  | cons j q ih =>
    intro Y h
    have ih' := ih (Y.filter (· ≠ j)) (tail_cond h)
    simp only [vrow, List.sum_cons]
    rw [ih', nonM_cons, List.filter_cons]
    by_cases hj : M.contains j = true
    · have hjM : j ∈ M := by simpa using hj
      rw [filter_ne_of_not_mem Y j (h j List.mem_cons_self hjM)]
      simp only [hj, if_true, List.map_cons, List.sum_cons, Nat.zero_add]
      omega
    · simp only [hj, if_false, Bool.false_eq_true]
      have e : 1 + nonM M q = nonM M q + 1 := by omega
      rw [e]
      omega

/-- the cost of a path with fixed weights is the cost of the path with the virtual weights -/
theorem GG_eq_aftV (l v : Nat → Int) (M : List Nat) : ∀ (q Y : List Nat), (∀ j ∈ q, j ∈ M → j ∉ Y) →
    GG l v M Y q = aftV (q.map l) (vrow v M Y q) := by
  intro q
  induction q with
  | nil => intro Y _; simp [GG, aftV]
  | cons j q ih =>
    intro Y h
    have ih' := ih (Y.filter (· ≠ j)) (tail_cond h)
    have hs := vrow_sum v M q (Y.filter (· ≠ j)) (tail_cond h)
    simp only [GG, vrow, List.map_cons, aftV]
    rw [ih', hs]


/-- pigeonhole: distinct members of `Z` are at most `Z.length` many -/
private theorem nodup_subset_length : ∀ (A Z : List Nat), A.Nodup → (∀ a ∈ A, a ∈ Z) → A.length ≤ Z.length := by
  intro A
  induction A with
  | nil => intro Z _ _; simp
  | cons a A ih =>
    intro Z hnd hsub
    obtain ⟨haA, hndA⟩ := List.nodup_cons.mp hnd
    have haZ : a ∈ Z := hsub a List.mem_cons_self
    have h1 := ih (Z.erase a) hndA (by
      intro x hx
      have hxa : x ≠ a := by intro e; subst e; exact haA hx
      exact (List.mem_erase_of_ne hxa).mpr (hsub x (List.mem_cons_of_mem _ hx)))
    have h2 := List.length_erase_of_mem haZ
    have h3 : 0 < Z.length := List.length_pos_of_mem haZ
    simp only [List.length_cons]
    omega

private theorem exists_argmin (v : Nat → Int) : ∀ L : List Nat, L ≠ [] → ∃ z ∈ L, ∀ a ∈ L, v z ≤ v a := by
  intro L
  induction L with
  | nil => intro h; exact absurd rfl h
  | cons x L ih =>
    intro _
    by_cases hL : L = []
    · subst hL
      exact ⟨x, List.mem_cons_self, fun a ha => by simp at ha; subst ha; exact Int.le_refl _⟩
    · obtain ⟨z, hz, hmin⟩ := ih hL
      by_cases hxz : v x ≤ v z
      · refine ⟨x, List.mem_cons_self, fun a ha => ?_⟩
        rcases List.mem_cons.mp ha with e | e
        · subst e; exact Int.le_refl _
        · have := hmin a e; omega
      · refine ⟨z, List.mem_cons_of_mem _ hz, fun a ha => ?_⟩
        rcases List.mem_cons.mp ha with e | e
        · subst e; omega
        · exact hmin a e

private theorem sum_map_erase (v : Nat → Int) (A : List Nat) (a : Nat) (h : a ∈ A) :
    (A.map v).sum = v a + ((A.erase a).map v).sum := by
  rw [perm_sum_eq ((List.perm_cons_erase h).map v)]; simp

/-- the exchange step: adding to an optimal choice `Z'` of `Y` without `j` the cheapest free member of `Y` gives an optimal
    choice of `Y` with one more member -/
private theorem exchange (v : Nat → Int) (Y : List Nat) (j : Nat) (Z' : List Nat) (z : Nat) (hY : Y.Nodup)
    (hZnd : Z'.Nodup) (hZsub : ∀ a ∈ Z', a ∈ Y.filter (· ≠ j))
    (hZopt : (Z'.map v).sum = leastSum Z'.length ((Y.filter (· ≠ j)).map v))
    (hzY : z ∈ Y) (hzZ : z ∉ Z') (hmin : ∀ a ∈ Y, a ∉ Z' → v z ≤ v a) :
    (Z'.map v).sum + v z = leastSum (Z'.length + 1) (Y.map v) := by
  have hY'nd : (Y.filter (· ≠ j)).Nodup := List.Nodup.sublist List.filter_sublist hY
  have hmemY' : ∀ a, a ∈ Y.filter (· ≠ j) ↔ a ∈ Y ∧ a ≠ j := by
    intro a; simp [List.mem_filter]
  have hZY : ∀ a ∈ z :: Z', a ∈ Y := by
    intro a ha
    rcases List.mem_cons.mp ha with e | e
    · subst e; exact hzY
    · exact ((hmemY' a).mp (hZsub a e)).1
  have hznd : (z :: Z').Nodup := List.nodup_cons.mpr ⟨hzZ, hZnd⟩
  have hge := leastSum_le_choice (z :: Z') Y v v hznd hZY (fun _ _ => Int.le_refl _)
  rw [sum_eq] at hge
  simp only [List.length_cons, List.map_cons, List.sum_cons] at hge
  have hlen : Z'.length + 1 ≤ Y.length := by
    have := nodup_subset_length (z :: Z') Y hznd hZY
    simpa using this
  obtain ⟨A, hAnd, hAsub, hAlen, hAsum⟩ := leastSum_attained Y v (Z'.length + 1) hY hlen
  rw [sum_eq] at hAsum
  -- a member of `A` outside `Z'` whose removal leaves a choice inside `Y` without `j`
  have hex : ∃ a ∈ A, a ∉ Z' ∧ ∀ x ∈ A.erase a, x ∈ Y.filter (· ≠ j) := by
    by_cases hjA : j ∈ A
    · refine ⟨j, hjA, fun hjZ => ((hmemY' j).mp (hZsub j hjZ)).2 rfl, fun x hx => ?_⟩
      obtain ⟨hxj, hxA⟩ := (hAnd.mem_erase_iff).mp hx
      exact (hmemY' x).mpr ⟨hAsub x hxA, hxj⟩
    · have hne : ¬ (∀ a ∈ A, a ∈ Z') := by
        intro hall
        have := nodup_subset_length A Z' hAnd hall
        omega
      have : ∃ a ∈ A, a ∉ Z' := by
        apply Classical.byContradiction
        intro hcon
        exact hne (fun a ha => Classical.byContradiction (fun hn => hcon ⟨a, ha, hn⟩))
      obtain ⟨a, haA, haZ⟩ := this
      refine ⟨a, haA, haZ, fun x hx => ?_⟩
      have hxA : x ∈ A := List.mem_of_mem_erase hx
      exact (hmemY' x).mpr ⟨hAsub x hxA, fun e => hjA (e ▸ hxA)⟩
  obtain ⟨a, haA, haZ, hsubE⟩ := hex
  have h1 := leastSum_le_choice (A.erase a) (Y.filter (· ≠ j)) v v (hAnd.erase a) hsubE (fun _ _ => Int.le_refl _)
  rw [sum_eq, List.length_erase_of_mem haA, hAlen] at h1
  simp only [Nat.add_sub_cancel] at h1
  have h2 := sum_map_erase v A a haA
  have h3 := hmin a (hAsub a haA) haZ
  omega

/-- as a multiset the virtual weights are the weights of the members of `M` on the path and of `nonM M q` DISTINCT members of
    `Y` (a choice `Z` of least total weight) -/
theorem vrow_perm (v : Nat → Int) (M : List Nat) : ∀ (q Y : List Nat), q.Nodup → Y.Nodup →
    (∀ j ∈ q, j ∈ M ∨ j ∈ Y) → (∀ j ∈ q, j ∈ M → j ∉ Y) →
    ∃ Z : List Nat, Z.Nodup ∧ (∀ z ∈ Z, z ∈ Y) ∧ Z.length = nonM M q ∧
      (Z.map v).sum = leastSum (nonM M q) (Y.map v) ∧
      (vrow v M Y q).Perm ((q.filter (fun i => M.contains i)).map v ++ Z.map v) := by
  intro q
  induction q with
  | nil =>
    intro Y _ _ _ _
    exact ⟨[], List.nodup_nil, fun _ h => absurd h (by simp), by simp, by simp [leastSum_zero], by simp [vrow]⟩
  | cons j q ih =>
    intro Y hq hY hcov hdis
    obtain ⟨hjq, hqnd⟩ := List.nodup_cons.mp hq
    have hmemY' : ∀ a, a ∈ Y.filter (· ≠ j) ↔ a ∈ Y ∧ a ≠ j := by
      intro a; simp [List.mem_filter]
    have hY'nd : (Y.filter (· ≠ j)).Nodup := List.Nodup.sublist List.filter_sublist hY
    obtain ⟨Z', hZnd, hZsub, hZlen, hZsum, hZperm⟩ := ih (Y.filter (· ≠ j)) hqnd hY'nd (by
      intro i hi
      rcases hcov i (List.mem_cons_of_mem _ hi) with h | h
      · exact Or.inl h
      · exact Or.inr ((hmemY' i).mpr ⟨h, fun e => hjq (e ▸ hi)⟩)) (tail_cond hdis)
    by_cases hj : M.contains j = true
    · have hjM : j ∈ M := by simpa using hj
      have hYY := filter_ne_of_not_mem Y j (hdis j List.mem_cons_self hjM)
      rw [hYY] at hZsub hZsum hZperm
      refine ⟨Z', hZnd, hZsub, ?_, ?_, ?_⟩
      · rw [nonM_cons]; simp only [hj, if_true]; omega
      · rw [nonM_cons]; simp only [hj, if_true, Nat.zero_add]; exact hZsum
      · simp only [vrow, hj, if_true, List.filter_cons, List.map_cons, List.cons_append, hYY]
        exact hZperm.cons _
    · have hjM : j ∉ M := by simpa using hj
      have hjY : j ∈ Y := by
        rcases hcov j List.mem_cons_self with h | h
        · exact absurd h hjM
        · exact h
      have hjZ : j ∉ Z' := fun h => ((hmemY' j).mp (hZsub j h)).2 rfl
      -- the cheapest member of `Y` outside `Z'`
      have hne : Y.filter (fun a => decide (a ∉ Z')) ≠ [] := by
        intro e
        have : j ∈ Y.filter (fun a => decide (a ∉ Z')) := by
          rw [List.mem_filter]; exact ⟨hjY, by simpa using hjZ⟩
        rw [e] at this; simp at this
      obtain ⟨z, hz, hzmin⟩ := exists_argmin v _ hne
      rw [List.mem_filter] at hz
      obtain ⟨hzY, hzZ⟩ := hz
      have hzZ' : z ∉ Z' := by simpa using hzZ
      have hex := exchange v Y j Z' z hY hZnd hZsub (by rw [hZlen]; exact hZsum) hzY hzZ'
        (fun a haY haZ => hzmin a (by rw [List.mem_filter]; exact ⟨haY, by simpa using haZ⟩))
      rw [hZlen] at hex
      have hnm : nonM M (j :: q) = nonM M q + 1 := by
        rw [nonM_cons]; simp only [hj, if_false, Bool.false_eq_true]; omega
      refine ⟨z :: Z', List.nodup_cons.mpr ⟨hzZ', hZnd⟩, ?_, ?_, ?_, ?_⟩
      · intro a ha
        rcases List.mem_cons.mp ha with e | e
        · subst e; exact hzY
        · exact ((hmemY' a).mp (hZsub a e)).1
      · rw [hnm]; simp only [List.length_cons]; omega
      · rw [hnm, ← hex]; simp only [List.map_cons, List.sum_cons]; omega
      · have hhead : leastSum (nonM M q + 1) (Y.map v) - leastSum (nonM M q) ((Y.filter (· ≠ j)).map v) = v z := by
          rw [← hex, ← hZsum]; omega
        simp only [vrow, hj, if_false, Bool.false_eq_true, List.filter_cons, List.map_cons, hhead]
        exact (hZperm.cons _).trans List.perm_middle.symm

#print axioms dot_le_of_cntDom
#print axioms vrow_sum
#print axioms GG_eq_aftV
#print axioms vrow_perm

end Ddo.Examples.SrflpModel
