import DdoModel.Examples.SopDp
/-! Statements and proofs about the Lean model of the shipped sop example (`SopDp.lean`, the model the driver engine
    `exmodel`, family `sop`, ties pointwise to the example's own code).

* `spec_eq_specBestIn` (**proved**): with no decision taken, the specification value the driver compares the DP with is
  `Sop.spec` (the `-1` of "no solution" being the `none` of `specBestIn`);
* `relax_eq`, `rankCmp_eq`, `maxWidth_eq` (**proved**): `relax` is the identity on costs, the ranking compares depths, the
  width is `nb_vars * (depth + 1) * factor`;
* `trans?_depth`, `trans?_prev`, `trans?_maybe_none` (**proved**): a transition goes one layer down, to the job decided, and
  never creates a `maybe_schedule` set; `nextVar_eq_some` (**proved**): the variable of depth `k` is `k`, for `k < n - 1`;
  `domain?_last` (**proved**): on the last variable the domain is the last job WHATEVER the state holds (this is why the
  relaxed DP can leave mandatory jobs of a merged state out, see `RubDominatesRelaxedDpStmt`);
* `merge_nil`, `merge_prev_virt`, `foldl_max_ge`, `merge_depth_ge` (**proved**): the merge of no state is
  `(Virtual ∅, all 256 jobs, None, 0)`; a merged state always has a pool of previous jobs; it is at least as deep as every
  merged state;
* `chk_eq_some`, `cost?_le_imax` (**proved**): `isize` range of the checked operations;
* `mergeOkWith_mono` (**proved**): `MergeOk` at a point is monotone in the value-to-go of the merged state;
* `canSchedule?_exact`, `trans?_exact` (**proved**): on a state without a `maybe_schedule` set (every exact state) the repaired
  `can_schedule` and `transition` ARE the ones shipped before (`canScheduleOld?`, `transOld?`): the repair of D12 only changes
  what merged states and their descendants do;
* `d12_refutes_MergeOkStmt`, `d12_lax_ok`, `d12_repaired`, `d12_values`, `d12_merge`, `d12_inDomain` (**proved**, kernel
  evaluation on the recorded D12 witness): with the rule shipped before (`canScheduleOld`) `MergeOkOldStmt` is false on an
  instance of the domain; the weakened rule, and the repaired code, are sound at that point;
  `rub_refutes_RubAdmissibleStmt`, `rub_values`, `rub_inDomain` (**proved**, kernel evaluation): `RubAdmissibleStmt` is false on
  an instance of the domain without inner precedences;
* `rubFinalFixed_eq_of_ge`, `rubFinalFixed_eq_of_nil`, `rubFixed?_eq_of_must_ge`, `rub_fixed_values` (**proved**): the corrected
  bound `rubFixed?` is the first shipped bound wherever no optional edge is mixed with mandatory ones (in particular on exact
  states), and repairs the recorded point; `RubFixedAdmissibleStmt` (stated): it is admissible on every valid state;
  `satAdd_eq_of_addC`, `rubFinalSat_eq_of_some`, `rub?_eq_of_rubFixed?` (**proved**): the bound of the repaired code (`rub?`,
  saturating addition of the distance from the position) is `rubFixed?` wherever that one does not overflow;
* **now THEOREMS** (`SopProofsMain.lean`, summary; `SopProofsBase/Step/Merge/Conc/Tab/Rub/Exact/Wf.lean`), on every table the
  reader builds from an instance of the input domain (`TabOk`, `DomOk`; `tabOk_tabOf`, `domOk_tabOf`: `inDomain`, at most 256
  jobs, `isize` entries): `mergeOk : MergeOkStmt T`; `rubFixedAdmissible : RubFixedAdmissibleStmt T`, `rubAdmissible` (the
  repaired `rub?`), `rubAdmissibleExact : RubAdmissibleExactStmt T`; `dpExact_partial : DpExactStmt n rows`, `root_exact`;
  `wfRelV`, `noClamp`, `sop_relaxed_ub` (closed corollary against `Sop.spec`).  As stated for an ARBITRARY table / matrix the
  three statements are false — kernel-checked witnesses, none reachable: `mergeOk_false_degenerate` (no `predecessors`
  table), `rb_cex_refutes` (a last job without predecessors), `dpExact_false_unbounded` (an entry that is no `isize`);
* stated (`def … : Prop`), evaluated pointwise by the driver on every generated instance of the domain:
  - `RubAdmissibleExactStmt`: on exact states (a previous job, no optional job) the rough bound dominates the value-to-go
    — holds on every generated point;
  - `RubAdmissibleStmt`: on every valid state the rough bound dominates the value-to-go of every exact state it stands for —
    REFUTED pointwise on merged states (note `sop-rub`: with mandatory edges `[1]`, optional edges `[0, 2, 8]` and three
    positions left the code compares the largest mandatory edge with the FIRST optional one and sums `0 + 2` where
    `1 + 0` is the sound choice);
  - `RubDominatesRelaxedDpStmt`: the stronger reading (the relaxed DP's own value-to-go) — REFUTED pointwise, harmless;
  - `MergeOkStmt`: `c + H(u) ≤ relax(c) + H(merge X)` for every `u ∈ X`, in the DP of the REPAIRED code — holds on every
    generated point (driver note `sop-merge` otherwise); `MergeOkOldStmt`: the same in the DP shipped before — REFUTED
    (finding D12, `d12_refutes_MergeOkStmt`); `MergeOkLaxStmt`: the old DP with `can_schedule` merely weakened to the mandatory
    jobs in the merged state;
  - `DpExactStmt`: value of a prefix + value-to-go = minus the least cost of the specification among the sequences that
    extend the prefix. -/
namespace Ddo.Examples.SopModel
open Ddo Ddo.Examples Ddo.Examples.Util

-- ------------------------------------------------------------------------------------------------------------------
-- the specification value of the driver

theorem filter_prefix_zero (l : List (List Nat)) (h : ∀ q ∈ l, ∃ r, q = 0 :: r) :
    l.filter (fun q => ([0] : List Nat).isPrefixOf q) = l := by
  apply List.filter_eq_self.mpr
  intro q hq
  obtain ⟨r, rfl⟩ := h q hq
  simp [List.isPrefixOf]

theorem specSeqs_head (n : Nat) : ∀ q ∈ specSeqs n, ∃ r, q = 0 :: r := by
  intro q hq
  unfold specSeqs at hq
  split at hq
  · simp at hq; exact ⟨[], hq⟩
  · obtain ⟨p, _, rfl⟩ := List.mem_map.mp hq
    exact ⟨p ++ [n - 1], rfl⟩

/-- at the root the driver's specification value is `Sop.spec` -/
theorem spec_eq_specBestIn (n : Nat) (d : Nat → Nat → Int) :
    (specBestIn (specSeqs n) d []).getD (-1) = Sop.spec n d := by
  unfold specBestIn
  rw [filter_prefix_zero _ (specSeqs_head n)]
  rfl

-- ------------------------------------------------------------------------------------------------------------------
-- relax, ranking, width, transitions, variable order

variable (T : Tab)

theorem relax_eq (a b m : St) (d : Dec) (c : Int) : (relaxation T).relax a b m d c = c := rfl
theorem rankCmp_eq (a b : St) : rankCmp a b = compare a.depth b.depth := rfl
theorem maxWidth_eq (nbVars factor depth : Nat) : maxWidth nbVars factor depth = nbVars * (depth + 1) * factor := rfl

theorem trans?_depth {s s2 : St} {d : Dec} (h : trans? T s d = some s2) : s2.depth = s.depth + 1 := by
  unfold trans? at h
  split at h
  · cases h
  · split at h
    · simp at h; subst h; rfl
    · obtain ⟨p, _, hp⟩ := Option.bind_eq_some_iff.mp h
      simp at hp; subst hp; rfl

theorem trans?_prev {s s2 : St} {d : Dec} (h : trans? T s d = some s2) : s2.prev = .job d.val.toNat := by
  unfold trans? at h
  split at h
  · cases h
  · split at h
    · simp at h; subst h; rfl
    · obtain ⟨p, _, hp⟩ := Option.bind_eq_some_iff.mp h
      simp at hp; subst hp; rfl

theorem trans?_maybe_none {s s2 : St} {d : Dec} (h : trans? T s d = some s2) (hs : s.maybe = none) : s2.maybe = none := by
  unfold trans? at h
  split at h
  · cases h
  · split at h
    · simp at h; subst h; rfl
    · rename_i y hy; rw [hs] at hy; cases hy

/-- on a state without a `maybe_schedule` set (every exact state) the repaired transition is the one shipped before -/
theorem trans?_exact {s : St} (d : Dec) (hs : s.maybe = none) : trans? T s d = transOld? s d := by
  unfold trans? transOld?
  split
  · rfl
  · simp [hs]

/-- on a state without a `maybe_schedule` set (every exact state) the repaired `can_schedule` is the one shipped before -/
theorem canSchedule?_exact {s : St} (j : Nat) (hs : s.maybe = none) : canSchedule? T s j = canScheduleOld? T s j := by
  unfold canSchedule? canScheduleOld? pending
  cases hp : T.pred[j]? with
  | none => rfl
  | some p =>
    simp only [hs, Option.getD_none, Nat.or_zero, Option.bind_eq_bind, Option.bind_some]
    by_cases h : (p &&& s.must) = 0 <;> simp [h]

theorem nextVar_eq_some {k : Nat} (h : k < T.n - 1) : nextVar T k = some k := by
  simp [nextVar, nv, h]

/-- on the last variable the domain is the last job, whatever the state holds -/
theorem domain?_last {s : St} (hn : 2 ≤ T.n) (h : s.depth = T.n - 2) :
    domain? T s = some [((T.n - 1 : Nat) : Int)] := by
  unfold domain? domainWith?
  have : ¬ T.n ≤ 1 := by omega
  simp [this, h]

-- ------------------------------------------------------------------------------------------------------------------
-- merge

theorem merge_nil : merge [] = { prev := .virt 0, must := full256, maybe := none, depth := 0 } := by
  simp [merge, diff]

theorem merge_prev_virt (X : List St) : ∃ c, (merge X).prev = .virt c := ⟨_, rfl⟩

theorem foldl_max_ge (X : List St) : ∀ (a : Nat), a ≤ X.foldl (fun a s => max a s.depth) a ∧
    ∀ s ∈ X, s.depth ≤ X.foldl (fun a s => max a s.depth) a := by
  induction X with
  | nil => intro a; simp
  | cons x t ih =>
    intro a
    have h := ih (max a x.depth)
    refine ⟨by simp only [List.foldl_cons]; omega, ?_⟩
    intro s hs
    simp only [List.foldl_cons]
    rcases List.mem_cons.mp hs with rfl | hs
    · omega
    · exact h.2 s hs

/-- the merged state is at least as deep as every merged state -/
theorem merge_depth_ge (X : List St) (s : St) (hs : s ∈ X) : s.depth ≤ (merge X).depth :=
  (foldl_max_ge X 0).2 s hs

-- ------------------------------------------------------------------------------------------------------------------
-- checked arithmetic

theorem chk_eq_some {x y : Int} (h : chk x = some y) : y = x ∧ imin ≤ y ∧ y ≤ imax := by
  unfold chk at h
  split at h
  · simp at h; subst h; omega
  · cases h

/-- a transition cost that does not panic is an `isize` -/
theorem cost?_le_imax {s : St} {d : Dec} {c : Int} (h : cost? T s d = some c) : imin ≤ c ∧ c ≤ imax := by
  unfold cost? at h
  split at h
  · split at h
    · split at h
      · exact (chk_eq_some h).2
      · cases h
    · cases h
  · obtain ⟨w, _, hw⟩ := Option.bind_eq_some_iff.mp h
    exact (chk_eq_some hw).2

-- ------------------------------------------------------------------------------------------------------------------
-- `MergeOk` at a point

/-- `MergeOk` at a point is monotone in the value-to-go of the merged state -/
theorem mergeOkWith_mono {hu hm hm' : EInt} {c r : Int} (h : mergeOkWith hu hm c r = true) (hle : hm ≤ hm') :
    mergeOkWith hu hm' c r = true := by
  unfold mergeOkWith at *
  cases hu with
  | none => rfl
  | some a =>
    cases hm with
    | none => simp at h
    | some b =>
      cases hm' with
      | none => exact absurd hle (by simp)
      | some b' =>
        have hb : b ≤ b' := hle
        simp only [decide_eq_true_eq] at h ⊢
        omega

-- ------------------------------------------------------------------------------------------------------------------
-- stated, not proved: what the driver evaluates pointwise

/-- an exact state: a previous job and no optional job -/
def exactB (s : St) : Bool := s.maybe.isNone && (match s.prev with | .job _ => true | .virt _ => false)

/-- on exact states the rough bound dominates the value-to-go (holds on every generated point) -/
def RubAdmissibleExactStmt : Prop :=
  ∀ (s : St) (r : Int), validB T s = true → exactB s = true → rubOld? T s = some r → bestRem T s ≤ some r

/-- on every valid state the rough bound dominates the value-to-go of every exact state it stands for.  REFUTED pointwise on
    merged states (driver note `sop-rub`): the mandatory / optional selection of `fast_upper_bound` compares the largest
    mandatory edge with the FIRST optional edge -/
def RubAdmissibleStmt : Prop :=
  ∀ (s : St) (r : Int), validB T s = true → rubOld? T s = some r → bestRemConc T s ≤ some r

/-- the stronger reading: the rough bound dominates the value-to-go of the relaxed DP itself.  REFUTED pointwise (the relaxed
    DP may leave mandatory jobs of a merged state out, `domain?_last`); harmless: no solution is lost -/
def RubDominatesRelaxedDpStmt : Prop :=
  ∀ (s : St) (r : Int), validB T s = true → rubOld? T s = some r → bestRem T s ≤ some r

/-- `merge` + `relax` over-approximate every merged-away state (potential form), in the DP of the REPAIRED code (`canSchedule?`,
    `trans?`): holds on every generated point (a violation is the driver note `sop-merge`) -/
def MergeOkStmt : Prop :=
  ∀ (X : List St) (u : St) (c : Int), u ∈ X → validB T u = true → (∀ s ∈ X, validB T s = true ∧ s.depth = u.depth) →
    mergeOkAt T u (merge X) c (relaxCost c) = true

/-- the same in the DP shipped before the repair (`canScheduleOld?`, `transOld?`).  REFUTED: finding D12,
    `d12_refutes_MergeOkStmt` -/
def MergeOkOldStmt : Prop :=
  ∀ (X : List St) (u : St) (c : Int), u ∈ X → validB T u = true → (∀ s ∈ X, validB T s = true ∧ s.depth = u.depth) →
    mergeOkOldAt T u (merge X) c (relaxCost c) = true

/-- the old DP with `can_schedule` weakened, in the merged state, to "no predecessor MUST still be scheduled" -/
def MergeOkLaxStmt : Prop :=
  ∀ (X : List St) (u : St) (c : Int), u ∈ X → validB T u = true → (∀ s ∈ X, validB T s = true ∧ s.depth = u.depth) →
    mergeOkLaxAt T u (merge X) c (relaxCost c) = true

/-- the weakened rule only adds completions to the old DP -/
def LaxDominatesStmt : Prop := ∀ (s : St), bestRemOld T s ≤ bestRemLax T s

/-- the DP model is exact: value of a prefix + value-to-go = minus the least cost, by the specification, among the sequences
    that extend the prefix (`none` = −∞ = no such sequence) -/
def DpExactStmt (n : Nat) (rows : List (List Int)) : Prop :=
  inDomain n rows = true →
  ∀ (decs : List Nat) (s : St) (v : Int) (k : Nat),
    evalFrom (problem (tabOf n rows)) 0 (initSt (tabOf n rows)) 0
      ((List.range decs.length).zipWith (fun (i : Nat) (x : Nat) => (⟨i, (x : Int)⟩ : Dec)) decs) = some (s, v, k) →
    (bestRem (tabOf n rows) s).addI v = (specBestIn (specSeqs n) (dfun (tabOf n rows)) decs).map (fun x => -x)

-- ------------------------------------------------------------------------------------------------------------------
-- the two refuted statements, on recorded instances (kernel evaluation of the model; no `native_decide`)

/-- the recorded witness of D12 (`corpus/C16/cases.txt`): 6 jobs, one precedence "3 before 2" -/
def d12Rows : List (List Int) :=
  [[0, 3, 3, 2, 2, 2], [-1, 0, 1, 2, 2, 1], [-1, 1, 0, -1, 1, 3], [-1, 2, 2, 0, 3, 3], [-1, 2, 0, 3, 0, 2], [-1, -1, -1, -1, -1, 0]]
def d12T : Tab := tabOf 6 d12Rows
/-- the merged-away state: jobs 3 and 4 done (job 2 may follow), at job 4 -/
def d12u : St := ⟨.job 4, ofList [1, 2, 5], none, 2⟩
/-- the exact layer of depth 2, in breadth-first order (what the harness merged) -/
def d12X : List St :=
  [⟨.job 3, ofList [2, 4, 5], none, 2⟩, ⟨.job 4, ofList [2, 3, 5], none, 2⟩, ⟨.job 1, ofList [2, 4, 5], none, 2⟩,
   ⟨.job 2, ofList [1, 4, 5], none, 2⟩, d12u, ⟨.job 1, ofList [2, 3, 5], none, 2⟩, ⟨.job 3, ofList [1, 2, 5], none, 2⟩]

theorem d12_inDomain : inDomain 6 d12Rows = true := by decide +kernel
theorem d12_merge : merge d12X = ⟨.virt (ofList [1, 2, 3, 4]), ofList [5], some (ofList [1, 2, 3, 4]), 2⟩ := by decide +kernel
/-- the rule shipped before the repair blocks job 2 on the merged state (job 3, its predecessor, is "maybe to do"); the
    repaired rule allows it (job 3 is done in `d12u`) -/
theorem d12_can_schedule : canScheduleOld d12T (merge d12X) 2 = false ∧ canSchedule? d12T (merge d12X) 2 = some true ∧
    canScheduleOld d12T d12u 2 = true := by decide +kernel
theorem d12_values : bestRemOld d12T d12u = some (-2) ∧ bestRemOld d12T (merge d12X) = some (-3) ∧
    bestRemLax d12T (merge d12X) = some (-1) ∧ bestRem d12T d12u = some (-2) ∧ bestRem d12T (merge d12X) = some (-2) := by
  decide +kernel

/-- D12 in the model, about the rule shipped BEFORE the repair (`canScheduleOld`): `merge` + `relax` do NOT over-approximate
    the merged-away state `d12u` (value-to-go `-2`: `4 → 2 → 1 → 5`; the merged state only reaches `-3`, job 3 being "maybe to
    do" blocks job 2) … -/
theorem d12_refutes_MergeOkStmt : ¬ MergeOkOldStmt d12T := by
  intro h
  have h1 := h d12X d12u (-3) (by decide +kernel) (by decide +kernel) (by decide +kernel)
  revert h1
  decide +kernel

/-- … and do with `can_schedule` weakened to the mandatory jobs … -/
theorem d12_lax_ok : mergeOkLaxAt d12T d12u (merge d12X) (-3) (relaxCost (-3)) = true := by decide +kernel

/-- … and in the DP of the repaired code -/
theorem d12_repaired : mergeOkAt d12T d12u (merge d12X) (-3) (relaxCost (-3)) = true := by decide +kernel

/-- an instance of the domain (7 jobs, no precedence among the inner jobs) met by the driver (note `sop-rub`) -/
def rubRows : List (List Int) :=
  [[0, 9, 8, 8, 2, 5, 4], [-1, 0, 5, 8, 1, 9, 3], [-1, 8, 0, 9, 7, 7, 4], [-1, 3, 1, 0, 3, 0, 3], [-1, 7, 5, 2, 0, 9, 2],
   [-1, 2, 8, 8, 4, 0, 1], [-1, -1, -1, -1, -1, -1, 0]]
def rubT : Tab := tabOf 7 rubRows
/-- a state below a merged state: at job 4, job 6 mandatory, two of the jobs 1, 3, 5 still to do -/
def rubS : St := ⟨.job 4, ofList [6], some (ofList [1, 3, 5]), 3⟩

theorem rub_inDomain : inDomain 7 rubRows = true := by decide +kernel
theorem rub_values : validB rubT rubS = true ∧ rubOld? rubT rubS = some (-4) ∧ bestRemConc rubT rubS = some (-3) := by
  decide +kernel

/-- the rough bound of the model (= of the code, pointwise) is NOT admissible on this state: it answers `-4`, the exact state
    `(Job 4, {3, 5, 6})` it stands for completes with `4 → 3 → 5 → 6` for `2 + 0 + 1 = 3` -/
theorem rub_refutes_RubAdmissibleStmt : ¬ RubAdmissibleStmt rubT := by
  intro h
  have h1 := h rubS (-4) (by decide +kernel) (by decide +kernel)
  revert h1
  decide +kernel

-- ------------------------------------------------------------------------------------------------------------------
-- the corrected bound `rubFixed?` (classification of `sop-rub` violations: `sop-rub-optional-edge`)

/-- the corrected bound differs from the code's only where optional edges are mixed with mandatory ones -/
theorem rubFinalFixed_eq_of_ge {ct nMust : Nat} (dist : Int) (toMust toMaybe : List Int) (h : nMust ≥ ct) :
    rubFinalFixed ct nMust dist toMust toMaybe = rubFinal ct nMust dist toMust toMaybe := by
  simp [rubFinalFixed, rubFinal, h]

theorem rubFinalFixed_eq_of_nil {ct nMust : Nat} (dist : Int) (toMaybe : List Int) :
    rubFinalFixed ct nMust dist [] toMaybe = rubFinal ct nMust dist [] toMaybe := by
  simp [rubFinalFixed, rubFinal]

/-- where the mandatory jobs fill the remaining positions (in particular on exact states) the corrected bound IS the code's -/
theorem rubFixed?_eq_of_must_ge (s : St) (hv : card s.must ≥ nv T - s.depth) (hd : s.depth ≤ nv T) (hn : T.n ≠ 0) :
    rubFixed? T s = rubOld? T s := by
  unfold rubFixed? rubOld? rubWith?
  have hnb : nbVars? T = some (T.n - 1) := by simp [nbVars?, hn]
  have hd' : ¬ s.depth > T.n - 1 := by unfold nv at hd; omega
  simp only [hnb, Option.bind_eq_bind, Option.bind_some, hd', if_false]
  have hge : (bits s.must).length ≥ T.n - 1 - s.depth := by unfold card nv at hv; exact hv
  simp [rubFinalFixed_eq_of_ge _ _ _ hge]

/-- on the recorded point the corrected bound is `-3` (= the value-to-go of the exact state it stands for), and the violation
    of the code's `-4` is of the class `sop-rub-optional-edge` -/
theorem rub_fixed_values : rubFixed? rubT rubS = some (-3) ∧ rubOkAt rubT rubS (-3) = true ∧
    rubOptionalEdgeAt rubT rubS (-4) = true := by decide +kernel

-- the bound of the repaired code (`rub?`): `rubFixed?` with a saturating addition of the distance from the position

theorem satAdd_eq_of_addC {a b x : Int} (h : addC a b = some x) : satAdd a b = x := by
  obtain ⟨rfl, h1, h2⟩ := chk_eq_some h
  unfold satAdd
  omega

theorem rubFinalSat_eq_of_some {ct nMust : Nat} {dist : Int} {toMust toMaybe : List Int} {r : Int}
    (h : rubFinalFixed ct nMust dist toMust toMaybe = some r) : rubFinalSat ct nMust dist toMust toMaybe = some r := by
  unfold rubFinalFixed at h
  unfold rubFinalSat
  split at h
  · split at h
    · cases h
    · obtain ⟨a, ha, hr⟩ := Option.bind_eq_some_iff.mp h
      simp [*, satAdd_eq_of_addC ha]
  · split at h
    · obtain ⟨a, ha, hr⟩ := Option.bind_eq_some_iff.mp h
      simp [*, satAdd_eq_of_addC ha]
    · obtain ⟨a, ha, hr⟩ := Option.bind_eq_some_iff.mp h
      simp [*, satAdd_eq_of_addC ha]

theorem rubWith?_mono {f g : Nat → Nat → Int → List Int → List Int → Option Int}
    (hfg : ∀ ct nm d a b r, f ct nm d a b = some r → g ct nm d a b = some r) {s : St} {r : Int}
    (h : rubWith? T f s = some r) : rubWith? T g s = some r := by
  unfold rubWith? at h ⊢
  simp only [Option.bind_eq_bind, Option.bind_eq_some_iff] at h ⊢
  obtain ⟨nbv, h1, ct, h2, rm, h3, dist, h4, rmy, h5, d2, h6, h7⟩ := h
  exact ⟨nbv, h1, ct, h2, rm, h3, dist, h4, rmy, h5, d2, h6, hfg _ _ _ _ _ _ h7⟩

/-- the bound of the repaired code is the bound corrected for D19 wherever that one does not overflow -/
theorem rub?_eq_of_rubFixed? {s : St} {r : Int} (h : rubFixed? T s = some r) : rub? T s = some r :=
  rubWith?_mono T (fun _ _ _ _ _ _ h => rubFinalSat_eq_of_some h) h

/-- the corrected bound is admissible on every valid state (argument in the comment of `rubFinalFixed`; holds on every
    generated point where the code's bound fails) -/
def RubFixedAdmissibleStmt : Prop :=
  ∀ (s : St) (r : Int), validB T s = true → rubFixed? T s = some r → bestRemConc T s ≤ some r

end Ddo.Examples.SopModel
