/-! Specification of the alp example (`ddo/examples/alp`): the Aircraft Landing Problem (several runways, target
    time = earliest time, cost = total delay).

    Problem.  Aircraft `0 … n-1`; aircraft `a` has a target landing time `target a` (it cannot land earlier), a
    latest landing time `latest a` and a class `cls a`; there are `r` identical runways and a matrix `sep`:
    when an aircraft of class `x` lands on a runway, an aircraft of class `y` cannot land on the SAME runway
    less than `sep[x][y]` time units later.  A solution assigns to every aircraft a runway and a landing time
    `t a` with `target a ≤ t a ≤ latest a`, such that the aircraft of each runway can be listed in a landing order in
    which every aircraft is separated, as above, from ALL the aircraft listed before it on its runway (not only
    from the one just before).  Its cost is the total delay `Σ (t a - target a)`; the program must print the
    minimum cost, and `Objective: -1` when there is no solution.

    Output convention: the example maximises the negated delay and prints `Objective: -best`, `-1` if none.

    The specification enumerates every global landing order (all permutations of the aircraft) together with every
    assignment of runways; given both, each aircraft lands as early as the aircraft listed before it on its runway
    permit — which is the best possible for that order, since landing earlier never hurts a later aircraft.

    Domain of the example (see the comments of its model): within a class the aircraft are listed by
    non-decreasing target AND latest times (the model lands the aircraft of a class in file order), and `sep`
    satisfies the triangle inequality `sep[x][z] ≤ sep[x][y] + sep[y][z]` (the model only separates consecutive
    landings).  Instances violating this are tagged `ood_…` by the generator.

    Instance file: a blank-separated list of non-negative integers: `n n_classes n_runways`, then
    `target latest class` per aircraft, then the `n_classes × n_classes` matrix `sep`, row by row.
    Spec tokens: exactly the same numbers. -/
namespace Ddo.Examples.Alp

def inserts (x : Nat) : List Nat → List (List Nat)
  | [] => [[x]]
  | y :: ys => (x :: y :: ys) :: (inserts x ys).map (y :: ·)

def perms : List Nat → List (List Nat)
  | [] => [[]]
  | x :: xs => (perms xs).flatMap (inserts x)

/-- all lists of `len` runways among `0 … r-1` -/
def assignments (r : Nat) : Nat → List (List Nat)
  | 0 => [[]]
  | len + 1 => (assignments r len).flatMap (fun rest => (List.range r).map (fun x => x :: rest))

structure Inst where
  target : Nat → Int
  latest : Nat → Int
  cls : Nat → Nat
  sep : Nat → Nat → Int

/-- total delay when the aircraft land in the order of `todo` (pairs aircraft, runway), each as early as
    possible; `landed` lists (runway, aircraft, landing time) of the aircraft already landed; `none` when some
    aircraft would land after its latest time -/
def delay (I : Inst) : List (Nat × Nat) → List (Nat × Nat × Int) → Option Int
  | [], _ => some 0
  | (a, rw) :: todo, landed =>
    let t := landed.foldl (fun t (rw', a', t') =>
               if rw' = rw then max t (t' + I.sep (I.cls a') (I.cls a)) else t) (I.target a)
    if t ≤ I.latest a then (delay I todo ((rw, a, t) :: landed)).map (fun rest => (t - I.target a) + rest)
    else none

def minimum : List Int → Option Int
  | [] => none
  | x :: xs => some (xs.foldl min x)

def spec (n r : Nat) (I : Inst) : Int :=
  let orders := perms (List.range n)
  let runways := assignments r n
  (minimum (orders.flatMap (fun o => runways.filterMap (fun rs => delay I (o.zip rs) [])))).getD (-1)

/-- tokens: `n k r`, `target latest class` per aircraft, `sep[0][0] … sep[k-1][k-1]` -/
def specFromTokens : List Int → Option Int
  | n :: k :: r :: rest =>
    let n := n.toNat
    let k := k.toNat
    let r := r.toNat
    let m := rest.toArray
    if n ≥ 1 ∧ k ≥ 1 ∧ r ≥ 1 ∧ m.size = 3 * n + k * k ∧ (List.range n).all (fun a => (m.getD (3 * a + 2) 0).toNat < k) then
      some (spec n r { target := fun a => m.getD (3 * a) 0, latest := fun a => m.getD (3 * a + 1) 0,
                       cls := fun a => (m.getD (3 * a + 2) 0).toNat,
                       sep := fun x y => m.getD (3 * n + x * k + y) 0 })
    else none
  | _ => none

end Ddo.Examples.Alp
