import DdoModel.Examples.SrflpProofsRubMergedDefs
/-! The two table walks of the srflp rough bound on ANY good state (merged states included): `lengthsLoop` returns the lengths
    of `must_place` and the `r` least lengths of `maybe_place` (these also as `maybe_lengths`), `flowsLoop` all the flows inside
    `must_place`, the `|must| r` least flows between the two sets and the `r (r-1) / 2` least flows inside `maybe_place`; both
    sorted increasingly (`r = n - depth - |must|`). -/
namespace Ddo.Examples.SrflpModel
open Ddo Ddo.Examples Ddo.Examples.Util Ddo.SpecUtil

/-! ### a walk with three classes (`pA`: always kept, `pB`, `pC`: kept while their quota lasts) and a stop -/

section QFold
variable {α β : Type} (pA pB pC : α → Bool) (g : α → β)

/-- the walk without the stop: the values kept -/
def pick : Nat → Nat → List α → List β
  | _, _, [] => []
  | a, b, e :: l =>
    if pA e = true then g e :: pick a b l
    else if 0 < a ∧ pB e = true then g e :: pick (a - 1) b l
    else if pC e = true ∧ 0 < b then g e :: pick a (b - 1) l
    else pick a b l

/-- the walk without the stop: the values kept for the class `pB` -/
def pickB : Nat → List α → List β
  | _, [] => []
  | a, e :: l =>
    if pA e = true then pickB a l
    else if 0 < a ∧ pB e = true then g e :: pickB (a - 1) l
    else pickB a l

/-- the walk with the stop at `ca` kept values: `(kept, kept of pB, quota of pB, quota of pC, stopped)` -/
def qStep (ca : Nat) (acc : List β × List β × Nat × Nat × Bool) (e : α) : List β × List β × Nat × Nat × Bool :=
  if acc.2.2.2.2 = true then acc else
    if pA e = true then (acc.1 ++ [g e], acc.2.1, acc.2.2.1, acc.2.2.2.1, decide ((acc.1 ++ [g e]).length = ca))
    else if 0 < acc.2.2.1 ∧ pB e = true then
      (acc.1 ++ [g e], acc.2.1 ++ [g e], acc.2.2.1 - 1, acc.2.2.2.1, decide ((acc.1 ++ [g e]).length = ca))
    else if pC e = true ∧ 0 < acc.2.2.2.1 then
      (acc.1 ++ [g e], acc.2.1, acc.2.2.1, acc.2.2.2.1 - 1, decide ((acc.1 ++ [g e]).length = ca))
    else (acc.1, acc.2.1, acc.2.2.1, acc.2.2.2.1, decide (acc.1.length = ca))

theorem qFold_stopped (ca : Nat) (l : List α) (ls ms : List β) (a b : Nat) :
    l.foldl (qStep pA pB pC g ca) (ls, ms, a, b, true) = (ls, ms, a, b, true) := by
  induction l with
  | nil => rfl
  | cons e l ih => simp only [List.foldl_cons]; exact ih

theorem pickB_nil_of_pick_nil : ∀ (l : List α) (a b : Nat), (pick pA pB pC g a b l).length = 0 → pickB pA pB g a l = []
  | [], _, _, _ => rfl
  | e :: l, a, b, h => by
    unfold pick at h
    unfold pickB
    split at h
    · simp at h
    · split at h
      · simp at h
      · rename_i h1 h2
        rw [if_neg h1, if_neg h2]
        split at h
        · simp at h
        · exact pickB_nil_of_pick_nil l a b h

theorem pick_sublist : ∀ (l : List α) (a b : Nat), (pick pA pB pC g a b l).Sublist (l.map g)
  | [], _, _ => by simp [pick]
  | e :: l, a, b => by
    unfold pick
    rw [List.map_cons]
    split
    · exact (pick_sublist l _ _).cons_cons _
    · split
      · exact (pick_sublist l _ _).cons_cons _
      · split
        · exact (pick_sublist l _ _).cons_cons _
        · exact (pick_sublist l _ _).cons _

/-- the walk with the stop returns what the walk without the stop does, when that is `ca` values in all -/
theorem qFold_spec (ca : Nat) : ∀ (l : List α) (init ms : List β) (a b : Nat) (flag : Bool),
    (pick pA pB pC g a b l).length + init.length = ca → (flag = true → init.length = ca) →
    (l.foldl (qStep pA pB pC g ca) (init, ms, a, b, flag)).1 = init ++ pick pA pB pC g a b l ∧
    (l.foldl (qStep pA pB pC g ca) (init, ms, a, b, flag)).2.1 = ms ++ pickB pA pB g a l := by
  intro l
  induction l with
  | nil => intro init ms a b flag _ _; simp [pick, pickB]
  | cons e l ih =>
    intro init ms a b flag hlen hflag
    cases flag with
    | true =>
      rw [qFold_stopped]
      have h0 : (pick pA pB pC g a b (e :: l)).length = 0 := by have := hflag rfl; omega
      rw [pickB_nil_of_pick_nil pA pB pC g _ _ _ h0, List.eq_nil_of_length_eq_zero h0]
      simp
    | false =>
      simp only [List.foldl_cons]
      unfold pick at hlen
      unfold pick pickB
      by_cases hA : pA e = true
      · have e1 : qStep pA pB pC g ca (init, ms, a, b, false) e
            = (init ++ [g e], ms, a, b, decide ((init ++ [g e]).length = ca)) := by simp [qStep, hA]
        rw [e1, if_pos hA, if_pos hA]
        rw [if_pos hA] at hlen
        have := ih (init ++ [g e]) ms a b (decide ((init ++ [g e]).length = ca))
          (by simp only [List.length_append, List.length_cons, List.length_nil] at hlen ⊢; omega) (by simp)
        simpa using this
      · by_cases hB : 0 < a ∧ pB e = true
        · have e1 : qStep pA pB pC g ca (init, ms, a, b, false) e
              = (init ++ [g e], ms ++ [g e], a - 1, b, decide ((init ++ [g e]).length = ca)) := by simp [qStep, hA, hB]
          rw [e1, if_neg hA, if_neg hA, if_pos hB, if_pos hB]
          rw [if_neg hA, if_pos hB] at hlen
          have := ih (init ++ [g e]) (ms ++ [g e]) (a - 1) b (decide ((init ++ [g e]).length = ca))
            (by simp only [List.length_append, List.length_cons, List.length_nil] at hlen ⊢; omega) (by simp)
          simpa using this
        · by_cases hC : pC e = true ∧ 0 < b
          · have e1 : qStep pA pB pC g ca (init, ms, a, b, false) e
                = (init ++ [g e], ms, a, b - 1, decide ((init ++ [g e]).length = ca)) := by
              simp only [qStep]; rw [if_neg (by simp), if_neg hA, if_neg hB, if_pos hC]
            rw [e1, if_neg hA, if_neg hA, if_neg hB, if_neg hB, if_pos hC]
            rw [if_neg hA, if_neg hB, if_pos hC] at hlen
            have := ih (init ++ [g e]) ms a (b - 1) (decide ((init ++ [g e]).length = ca))
              (by simp only [List.length_append, List.length_cons, List.length_nil] at hlen ⊢; omega) (by simp)
            simpa using this
          · have e1 : qStep pA pB pC g ca (init, ms, a, b, false) e
                = (init, ms, a, b, decide (init.length = ca)) := by
              simp only [qStep]; rw [if_neg (by simp), if_neg hA, if_neg hB, if_neg hC]
            rw [e1, if_neg hA, if_neg hA, if_neg hB, if_neg hB, if_neg hC]
            rw [if_neg hA, if_neg hB, if_neg hC] at hlen
            exact ih init ms a b (decide (init.length = ca)) hlen (by simp)

theorem pickB_eq (hAB : ∀ e, pA e = true → pB e = false) : ∀ (l : List α) (a : Nat),
    pickB pA pB g a l = ((l.filter pB).take a).map g
  | [], _ => by simp [pickB]
  | e :: l, a => by
    unfold pickB
    by_cases hA : pA e = true
    · rw [if_pos hA, pickB_eq hAB l a, List.filter_cons, hAB e hA]; simp
    · rw [if_neg hA]
      by_cases hB : 0 < a ∧ pB e = true
      · rw [if_pos hB, pickB_eq hAB l (a - 1), List.filter_cons, hB.2]
        obtain ⟨a', rfl⟩ : ∃ a', a = a' + 1 := ⟨a - 1, by omega⟩
        simp
      · rw [if_neg hB, pickB_eq hAB l a, List.filter_cons]
        by_cases hB' : pB e = true
        · have : a = 0 := Nat.eq_zero_of_not_pos (fun h => hB ⟨h, hB'⟩)
          subst this; simp
        · simp [hB']

theorem pick_perm [DecidableEq β] (hAB : ∀ e, pA e = true → pB e = false) (hAC : ∀ e, pA e = true → pC e = false)
    (hBC : ∀ e, pB e = true → pC e = false) (l : List α) (a b : Nat) :
    (pick pA pB pC g a b l).Perm
      ((l.filter pA).map g ++ (((l.filter pB).take a).map g ++ ((l.filter pC).take b).map g)) := by
  rw [List.perm_iff_count]
  intro x
  induction l generalizing a b with
  | nil => simp [pick]
  | cons e l ih =>
    unfold pick
    by_cases hA : pA e = true
    · rw [if_pos hA, List.count_cons, ih a b]
      simp only [List.filter_cons, hA, hAB e hA, hAC e hA, if_true, Bool.false_eq_true, if_false, List.map_cons,
        List.count_append, List.count_cons]
      omega
    · rw [if_neg hA]
      by_cases hB : 0 < a ∧ pB e = true
      · rw [if_pos hB, List.count_cons, ih (a - 1) b]
        obtain ⟨a', rfl⟩ : ∃ a', a = a' + 1 := ⟨a - 1, by omega⟩
        simp only [List.filter_cons, hA, hB.2, hBC e hB.2, if_true, Bool.false_eq_true, if_false, List.map_cons,
          List.count_append, List.count_cons, List.take_succ_cons, Nat.add_sub_cancel]
        omega
      · rw [if_neg hB]
        have eB : ((e :: l).filter pB).take a = (l.filter pB).take a := by
          rw [List.filter_cons]
          by_cases hB' : pB e = true
          · have : a = 0 := Nat.eq_zero_of_not_pos (fun h => hB ⟨h, hB'⟩)
            subst this; simp
          · simp [hB']
        by_cases hC : pC e = true ∧ 0 < b
        · rw [if_pos hC, List.count_cons, ih a (b - 1), eB]
          obtain ⟨b', rfl⟩ : ∃ b', b = b' + 1 := ⟨b - 1, by omega⟩
          simp only [List.filter_cons, hA, hC.1, if_true, Bool.false_eq_true, if_false, List.map_cons,
            List.count_append, List.count_cons, List.take_succ_cons, Nat.add_sub_cancel]
          omega
        · rw [if_neg hC, ih a b, eB]
          have eC : ((e :: l).filter pC).take b = (l.filter pC).take b := by
            rw [List.filter_cons]
            by_cases hC' : pC e = true
            · have : b = 0 := Nat.eq_zero_of_not_pos (fun h => hC ⟨hC', h⟩)
              subst this; simp
            · simp [hC']
          rw [eC]
          simp [hA]

end QFold

variable (T : Tab)

/-! ### the first loop -/

def lenStep (s : St) (ca : Nat) (acc : List Int × List Int × Nat × Bool) (e : Int × Nat) : List Int × List Int × Nat × Bool :=
  if acc.2.2.2 then acc else
    let ls := acc.1; let ms := acc.2.1; let q := acc.2.2.1
    let nxt : List Int × List Int × Nat :=
      if s.must.contains e.2 then (ls ++ [e.1], ms, q)
      else match s.maybe with
        | some mb => if mb.contains e.2 ∧ q > 0 then (ls ++ [e.1], ms ++ [e.1], q - 1) else (ls, ms, q)
        | none => (ls, ms, q)
    (nxt.1, nxt.2.1, nxt.2.2, decide (nxt.1.length = ca))

theorem lengthsLoop_def (s : St) (ca q : Nat) :
    lengthsLoop T s ca q = ((T.sl.foldl (lenStep s ca) ([], [], q, false)).1, (T.sl.foldl (lenStep s ca) ([], [], q, false)).2.1) := rfl

theorem lenStep_eq (s : St) (ca : Nat) (ls ms : List Int) (q : Nat) (flag : Bool) (e : Int × Nat) :
    qStep (fun e : Int × Nat => s.must.contains e.2) (fun e : Int × Nat => (mbOf s).contains e.2) (fun _ => false)
        (fun e : Int × Nat => e.1) ca (ls, ms, q, 0, flag) e
      = ((lenStep s ca (ls, ms, q, flag) e).1, (lenStep s ca (ls, ms, q, flag) e).2.1,
         (lenStep s ca (ls, ms, q, flag) e).2.2.1, 0, (lenStep s ca (ls, ms, q, flag) e).2.2.2) := by
  obtain ⟨d, must, mb, cut⟩ := s
  cases flag with
  | true => simp [qStep, lenStep]
  | false =>
    by_cases hM : e.2 ∈ must
    · simp [qStep, lenStep, hM]
    · cases mb with
      | none => simp [qStep, lenStep, hM, mbOf]
      | some mb =>
        by_cases hY : e.2 ∈ mb
        · by_cases hq : 0 < q
          · simp [qStep, lenStep, hM, mbOf, hY, hq]
          · simp [qStep, lenStep, hM, mbOf, hY, hq]
        · simp [qStep, lenStep, hM, mbOf, hY]

theorem lenFold_eq (s : St) (ca : Nat) (l : List (Int × Nat)) : ∀ (ls ms : List Int) (q : Nat) (flag : Bool),
    (l.foldl (qStep (fun e : Int × Nat => s.must.contains e.2) (fun e : Int × Nat => (mbOf s).contains e.2) (fun _ => false)
        (fun e : Int × Nat => e.1) ca) (ls, ms, q, 0, flag)).1 = (l.foldl (lenStep s ca) (ls, ms, q, flag)).1 ∧
    (l.foldl (qStep (fun e : Int × Nat => s.must.contains e.2) (fun e : Int × Nat => (mbOf s).contains e.2) (fun _ => false)
        (fun e : Int × Nat => e.1) ca) (ls, ms, q, 0, flag)).2.1 = (l.foldl (lenStep s ca) (ls, ms, q, flag)).2.1 := by
  induction l with
  | nil => intros; exact ⟨rfl, rfl⟩
  | cons e l ih =>
    intro ls ms q flag
    simp only [List.foldl_cons]
    rw [lenStep_eq]
    exact ih _ _ _ _

theorem sl_filter_perm (hS : TabSorted T) {m : List Nat} (hs : m.Pairwise (· < ·)) (hl : ∀ i ∈ m, i < T.n) :
    ((T.sl.filter (fun e : Int × Nat => m.contains e.2)).map (fun e => e.1)).Perm (m.map (lenOf T)) := by
  have p1 : T.sl.Perm ((List.range T.n).map (fun i => (lenOf T i, i))) := by
    rw [hS.sl]; exact List.mergeSort_perm _ _
  refine ((p1.filter _).map _).trans ?_
  rw [List.filter_map, List.map_map]
  have : (List.range T.n).filter ((fun e : Int × Nat => m.contains e.2) ∘ fun i => (lenOf T i, i)) = m :=
    range_filter_contains hs hl
  rw [this]
  exact List.Perm.of_eq rfl

theorem sl_map_sorted (hS : TabSorted T) : (T.sl.map (fun e => e.1)).Pairwise (· ≤ ·) := by
  have hs : T.sl.Pairwise (fun a b => le2 a b = true) := by
    rw [hS.sl]; exact List.pairwise_mergeSort le2_trans le2_total _
  rw [List.pairwise_map]
  refine hs.imp ?_
  intro a b hab
  rw [le2_iff] at hab
  omega

theorem lengthsLoop_merged (hS : TabSorted T) {s : St} (hG : Good T s) (hd : s.depth < T.n) :
    (lengthsLoop T s (T.n - s.depth) (T.n - s.depth - s.must.length)).2
        = (sortInts ((mbOf s).map (lenOf T))).take (T.n - s.depth - s.must.length) ∧
    (lengthsLoop T s (T.n - s.depth) (T.n - s.depth - s.must.length)).1.Perm
        (s.must.map (lenOf T) ++ (sortInts ((mbOf s).map (lenOf T))).take (T.n - s.depth - s.must.length)) ∧
    (lengthsLoop T s (T.n - s.depth) (T.n - s.depth - s.must.length)).1.Pairwise (· ≤ ·) := by
  have hltM : ∀ i ∈ s.must, i < T.n := fun i hi => hG.lt i (Or.inl hi)
  have hltY : ∀ i ∈ mbOf s, i < T.n := fun i hi => hG.lt i (Or.inr hi)
  have hAB : ∀ e : Int × Nat, s.must.contains e.2 = true → (mbOf s).contains e.2 = false := by
    intro e h
    have h' : e.2 ∈ s.must := by simpa using h
    simpa using hG.disj _ h'
  have hpermA := sl_filter_perm T hS hG.must_sorted hltM
  have hpermB := sl_filter_perm T hS hG.maybe_sorted hltY
  have hsorted := sl_map_sorted T hS
  have hB : (T.sl.filter (fun e : Int × Nat => (mbOf s).contains e.2)).map (fun e => e.1)
      = sortInts ((mbOf s).map (lenOf T)) :=
    (eq_sortInts hpermB (hsorted.sublist ((List.filter_sublist).map _))).symm
  have hpick := pick_perm (fun e : Int × Nat => s.must.contains e.2) (fun e : Int × Nat => (mbOf s).contains e.2)
    (fun _ => false) (fun e : Int × Nat => e.1) hAB (fun _ _ => rfl) (fun _ _ => rfl) T.sl
    (T.n - s.depth - s.must.length) 0
  rw [List.map_take, hB] at hpick
  simp only [List.take_zero, List.map_nil, List.append_nil] at hpick
  have hlen : (pick (fun e : Int × Nat => s.must.contains e.2) (fun e : Int × Nat => (mbOf s).contains e.2)
      (fun _ => false) (fun e : Int × Nat => e.1) (T.n - s.depth - s.must.length) 0 T.sl).length
        + ([] : List Int).length = T.n - s.depth := by
    rw [hpick.length_eq, List.length_append, hpermA.length_eq, List.length_take, ← hB, hpermB.length_eq]
    have := hG.must_le
    have := hG.fill
    simp only [List.length_map, List.length_nil]
    omega
  obtain ⟨h1, h2⟩ := qFold_spec _ _ _ _ (T.n - s.depth) T.sl [] [] (T.n - s.depth - s.must.length) 0 false hlen (by simp)
  obtain ⟨e1, e2⟩ := lenFold_eq s (T.n - s.depth) T.sl [] [] (T.n - s.depth - s.must.length) false
  rw [lengthsLoop_def]
  simp only
  rw [← e1, ← e2, h1, h2, pickB_eq _ _ _ hAB, List.nil_append, List.nil_append, List.map_take, hB]
  refine ⟨rfl, ?_, ?_⟩
  · exact hpick.trans (hpermA.append_right _)
  · exact hsorted.sublist (pick_sublist _ _ _ _ _ _ _)

/-! ### the second loop -/

def flowStep (s : St) (nFlows : Nat) (acc : List Int × Nat × Nat × Bool) (e : Int × Nat × Nat) : List Int × Nat × Nat × Bool :=
  if acc.2.2.2 then acc else
    let fs := acc.1; let a := acc.2.1; let b := acc.2.2.1
    let i := e.2.1; let j := e.2.2
    let nxt : List Int × Nat × Nat :=
      if s.must.contains i ∧ s.must.contains j then (fs ++ [e.1], a, b)
      else match s.maybe with
        | some mb =>
          if a > 0 ∧ ((s.must.contains i ∧ mb.contains j) ∨ (mb.contains i ∧ s.must.contains j)) then (fs ++ [e.1], a - 1, b)
          else if mb.contains i ∧ mb.contains j ∧ b > 0 then (fs ++ [e.1], a, b - 1)
          else (fs, a, b)
        | none => (fs, a, b)
    (nxt.1, nxt.2.1, nxt.2.2, decide (nxt.1.length = nFlows))

theorem flowsLoop_def (s : St) (nF q1 q2 : Nat) :
    flowsLoop T s nF q1 q2 = (T.sf.foldl (flowStep s nF) ([], q1, q2, false)).1 := rfl

/-- the three classes of the entries of the table of the flows -/
def isMM (M : List Nat) (e : Int × Nat × Nat) : Bool := M.contains e.2.1 && M.contains e.2.2
def isMY (M Y : List Nat) (e : Int × Nat × Nat) : Bool :=
  (M.contains e.2.1 && Y.contains e.2.2) || (Y.contains e.2.1 && M.contains e.2.2)

theorem flowStep_eq (s : St) (nF : Nat) (fs ms : List Int) (a b : Nat) (flag : Bool) (e : Int × Nat × Nat) :
    qStep (isMM s.must) (isMY s.must (mbOf s)) (isMM (mbOf s)) (fun e : Int × Nat × Nat => e.1) nF (fs, ms, a, b, flag) e
      = ((flowStep s nF (fs, a, b, flag) e).1,
         (qStep (isMM s.must) (isMY s.must (mbOf s)) (isMM (mbOf s)) (fun e : Int × Nat × Nat => e.1) nF (fs, ms, a, b, flag) e).2.1,
         (flowStep s nF (fs, a, b, flag) e).2.1, (flowStep s nF (fs, a, b, flag) e).2.2.1,
         (flowStep s nF (fs, a, b, flag) e).2.2.2) := by
  obtain ⟨d, must, mb, cut⟩ := s
  cases flag with
  | true => simp [qStep, flowStep]
  | false =>
    by_cases hMi : e.2.1 ∈ must <;> by_cases hMj : e.2.2 ∈ must
    · simp [qStep, flowStep, isMM, hMi, hMj]
    all_goals
      cases mb with
      | none => simp [qStep, flowStep, isMM, isMY, hMi, hMj, mbOf]
      | some mb =>
        by_cases hYi : e.2.1 ∈ mb <;> by_cases hYj : e.2.2 ∈ mb <;> by_cases ha : 0 < a <;> by_cases hb : 0 < b <;>
          simp [qStep, flowStep, isMM, isMY, hMi, hMj, mbOf, hYi, hYj, ha, hb]

theorem flowFold_eq (s : St) (nF : Nat) (l : List (Int × Nat × Nat)) : ∀ (fs ms : List Int) (a b : Nat) (flag : Bool),
    (l.foldl (qStep (isMM s.must) (isMY s.must (mbOf s)) (isMM (mbOf s)) (fun e : Int × Nat × Nat => e.1) nF)
        (fs, ms, a, b, flag)).1 = (l.foldl (flowStep s nF) (fs, a, b, flag)).1 := by
  induction l with
  | nil => intros; rfl
  | cons e l ih =>
    intro fs ms a b flag
    simp only [List.foldl_cons]
    rw [flowStep_eq]
    exact ih _ _ _ _ _

theorem sf_map_sorted (hS : TabSorted T) : (T.sf.map (fun e => e.1)).Pairwise (· ≤ ·) := by
  have hs : T.sf.Pairwise (fun a b => le3 a b = true) := by
    rw [hS.sf]; exact List.pairwise_mergeSort le3_trans le3_total _
  rw [List.pairwise_map]
  refine hs.imp ?_
  intro a b hab
  rw [le3_iff] at hab
  omega

theorem sf_filter_MM (hS : TabSorted T) {m : List Nat} (hs : m.Pairwise (· < ·)) (hl : ∀ i ∈ m, i < T.n) :
    ((T.sf.filter (isMM m)).map (fun e => e.1)).Perm (pairFlows (flow T) m) := by
  have p1 := hS.sf ▸ List.mergeSort_perm ((List.range T.n).flatMap (fun i =>
      ((List.range T.n).filter (fun j => decide (i < j))).map (fun j => (flow T i j, i, j)))) le3
  refine ((p1.filter _).map _).trans ?_
  have : isMM m = fun e : Int × Nat × Nat => m.contains e.2.1 && m.contains e.2.2 := rfl
  rw [this, tableFlows_eq (flow T) hs hl]

theorem filter_or_perm {α : Type} (p q : α → Bool) (h : ∀ x, p x = true → q x = false) (l : List α) :
    (l.filter (fun x => p x || q x)).Perm (l.filter p ++ l.filter q) := by
  induction l with
  | nil => simp
  | cons a l ih =>
    cases hp : p a with
    | true =>
      simp only [List.filter_cons, hp, h a hp, Bool.true_or, if_true, Bool.false_eq_true, if_false, List.cons_append]
      exact ih.cons _
    | false =>
      cases hq : q a with
      | true =>
        simp only [List.filter_cons, hp, hq, Bool.false_or, if_true, Bool.false_eq_true, if_false]
        exact (ih.cons _).trans List.perm_middle.symm
      | false =>
        simp only [List.filter_cons, hp, hq, Bool.false_or, Bool.false_eq_true, if_false]
        exact ih

theorem pairFlows_append (f : Nat → Nat → Int) (M Y : List Nat) :
    (pairFlows f (M ++ Y)).Perm (pairFlows f M ++ crossFlows f M Y ++ pairFlows f Y) := by
  rw [List.perm_iff_count]
  intro x
  induction M with
  | nil => simp [pairFlows, crossFlows]
  | cons a r ih =>
    simp only [List.cons_append, pairFlows, crossFlows, List.flatMap_cons, List.map_append, List.count_append] at ih ⊢
    omega

theorem lp_crossFlows_length (f : Nat → Nat → Int) (M Y : List Nat) : (crossFlows f M Y).length = M.length * Y.length := by
  induction M with
  | nil => simp [crossFlows]
  | cons a r ih =>
    simp only [crossFlows, List.flatMap_cons, List.length_append, List.length_map, List.length_cons] at ih ⊢
    rw [ih, Nat.succ_mul]; omega

theorem tri_split (m r : Nat) : m * (m - 1) / 2 + m * r + r * (r - 1) / 2 = (m + r) * (m + r - 1) / 2 := by
  have hm := pairFlows_length_two (fun _ _ => 0) (List.range m)
  have hr := pairFlows_length_two (fun _ _ => 0) (List.range r)
  rw [List.length_range] at hm hr
  have key : m * (m - 1) + 2 * (m * r) + r * (r - 1) = (m + r) * (m + r - 1) := by
    cases m with
    | zero => simp
    | succ m' =>
      cases r with
      | zero => simp
      | succ r' =>
        have : m' + 1 + (r' + 1) - 1 = m' + r' + 1 := by omega
        rw [this]
        simp only [Nat.add_sub_cancel]
        grind
  generalize m * (m - 1) = a at *
  generalize r * (r - 1) = b at *
  generalize m * r = c at *
  generalize (m + r) * (m + r - 1) = d at *
  omega

theorem cls_disj (a b c d : Bool) (h1 : a = true → c = false) (h2 : b = true → d = false) :
    ((a && b) = true → ((a && d) || (c && b)) = false) ∧ ((a && b) = true → (c && d) = false) ∧
    (((a && d) || (c && b)) = true → (c && d) = false) := by
  cases a <;> cases b <;> cases c <;> cases d <;> simp_all

theorem isM_disj {M Y : List Nat} (hd : ∀ i ∈ M, i ∉ Y) (e : Int × Nat × Nat) :
    (isMM M e = true → isMY M Y e = false) ∧ (isMM M e = true → isMM Y e = false) ∧
    (isMY M Y e = true → isMM Y e = false) := by
  have hc : ∀ i, M.contains i = true → Y.contains i = false := by
    intro i h
    have h' : i ∈ M := by simpa using h
    simpa using hd _ h'
  exact cls_disj _ _ _ _ (hc e.2.1) (hc e.2.2)

/-- the flows of the table between an increasing set and another one, disjoint -/
theorem sf_filter_MY (hS : TabSorted T) (hI : Inst T) {M Y : List Nat} (hM : M.Pairwise (· < ·)) (hY : Y.Pairwise (· < ·))
    (hlM : ∀ i ∈ M, i < T.n) (hlY : ∀ i ∈ Y, i < T.n) (hd : ∀ i ∈ M, i ∉ Y) :
    ((T.sf.filter (isMY M Y)).map (fun e => e.1)).Perm (crossFlows (flow T) M Y) := by
  have hZs : ((List.range T.n).filter (fun i => M.contains i || Y.contains i)).Pairwise (· < ·) :=
    List.pairwise_lt_range.filter _
  generalize hZ : (List.range T.n).filter (fun i => M.contains i || Y.contains i) = Z at hZs
  have hZm : ∀ i, i ∈ Z ↔ i ∈ M ∨ i ∈ Y := by
    intro i
    rw [← hZ]
    simp only [List.mem_filter, List.mem_range, Bool.or_eq_true, List.contains_iff_mem]
    exact ⟨fun h => h.2, fun h => ⟨h.elim (hlM i) (hlY i), h⟩⟩
  have hZl : ∀ i ∈ Z, i < T.n := fun i hi => ((hZm i).1 hi).elim (hlM i) (hlY i)
  have hZc : ∀ i, Z.contains i = (M.contains i || Y.contains i) := by
    intro i
    rw [Bool.eq_iff_iff]
    simp [hZm]
  have hpZ : Z.Perm (M ++ Y) := by
    have n1 : Z.Nodup := hZs.imp (fun h => Nat.ne_of_lt h)
    have n2 : (M ++ Y).Nodup := by
      rw [List.nodup_append]
      refine ⟨hM.imp (fun h => Nat.ne_of_lt h), hY.imp (fun h => Nat.ne_of_lt h), ?_⟩
      intro a ha b hb hab
      exact hd a ha (hab ▸ hb)
    rw [List.perm_ext_iff_of_nodup n1 n2]
    intro i
    rw [hZm, List.mem_append]
  have h1 := sf_filter_MM T hS hZs hZl
  have h2 := pairFlows_perm (flow T) hpZ (by
    intro i hi j hj
    rw [List.mem_append] at hi hj
    exact hI.flow_symm i j (hi.elim (hlM i) (hlY i)) (hj.elim (hlM j) (hlY j)))
  have h3 := pairFlows_append (flow T) M Y
  have e1 : T.sf.filter (isMM Z) = T.sf.filter (fun e => (isMM M e || isMY M Y e) || isMM Y e) := by
    apply List.filter_congr
    intro e _
    simp only [isMM, isMY, hZc]
    cases M.contains e.2.1 <;> cases M.contains e.2.2 <;> cases Y.contains e.2.1 <;> cases Y.contains e.2.2 <;> rfl
  have h4 := filter_or_perm (fun e => isMM M e || isMY M Y e) (isMM Y) (by
    intro e h
    obtain ⟨_, d2, d3⟩ := isM_disj hd e
    rw [Bool.or_eq_true] at h
    exact h.elim d2 d3) T.sf
  have h5 := filter_or_perm (isMM M) (isMY M Y) (fun e => (isM_disj hd e).1) T.sf
  have h6 : ((T.sf.filter (isMM Z)).map (fun e => e.1)).Perm
      ((T.sf.filter (isMM M)).map (fun e => e.1) ++ (T.sf.filter (isMY M Y)).map (fun e => e.1)
        ++ (T.sf.filter (isMM Y)).map (fun e => e.1)) := by
    rw [e1]
    refine (h4.map _).trans ?_
    rw [List.map_append]
    refine List.Perm.append_right _ ?_
    rw [← List.map_append]
    exact h5.map _
  have hA := sf_filter_MM T hS hM hlM
  have hC := sf_filter_MM T hS hY hlY
  have h7 : (pairFlows (flow T) M ++ (T.sf.filter (isMY M Y)).map (fun e => e.1) ++ pairFlows (flow T) Y).Perm
      (pairFlows (flow T) M ++ crossFlows (flow T) M Y ++ pairFlows (flow T) Y) :=
    (((hA.symm.append_right _).append hC.symm).trans h6.symm).trans ((h1.trans h2).trans h3)
  exact (List.perm_append_left_iff _).1 ((List.perm_append_right_iff _).1 h7)

theorem lp_sortInts_length (L : List Int) : (sortInts L).length = L.length := by
  unfold sortInts; exact List.length_mergeSort _

theorem flowsLoop_merged (hS : TabSorted T) (hI : Inst T) {s : St} (hG : Good T s) (hd : s.depth < T.n) :
    (flowsLoop T s ((T.n - s.depth) * (T.n - s.depth - 1) / 2) (s.must.length * (T.n - s.depth - s.must.length))
        ((T.n - s.depth - s.must.length) * (T.n - s.depth - s.must.length - 1) / 2)).Perm
      (pairFlows (flow T) s.must
        ++ (sortInts (crossFlows (flow T) s.must (mbOf s))).take (s.must.length * (T.n - s.depth - s.must.length))
        ++ (sortInts (pairFlows (flow T) (mbOf s))).take
            ((T.n - s.depth - s.must.length) * (T.n - s.depth - s.must.length - 1) / 2)) ∧
    (flowsLoop T s ((T.n - s.depth) * (T.n - s.depth - 1) / 2) (s.must.length * (T.n - s.depth - s.must.length))
        ((T.n - s.depth - s.must.length) * (T.n - s.depth - s.must.length - 1) / 2)).Pairwise (· ≤ ·) := by
  have _ := hd
  have hltM : ∀ i ∈ s.must, i < T.n := fun i hi => hG.lt i (Or.inl hi)
  have hltY : ∀ i ∈ mbOf s, i < T.n := fun i hi => hG.lt i (Or.inr hi)
  have hsorted := sf_map_sorted T hS
  have hpermA := sf_filter_MM T hS hG.must_sorted hltM
  have hpermB := sf_filter_MY T hS hI hG.must_sorted hG.maybe_sorted hltM hltY hG.disj
  have hpermC := sf_filter_MM T hS hG.maybe_sorted hltY
  have hB : (T.sf.filter (isMY s.must (mbOf s))).map (fun e => e.1) = sortInts (crossFlows (flow T) s.must (mbOf s)) :=
    (eq_sortInts hpermB (hsorted.sublist ((List.filter_sublist).map _))).symm
  have hC : (T.sf.filter (isMM (mbOf s))).map (fun e => e.1) = sortInts (pairFlows (flow T) (mbOf s)) :=
    (eq_sortInts hpermC (hsorted.sublist ((List.filter_sublist).map _))).symm
  generalize hk : T.n - s.depth = k
  generalize hr : k - s.must.length = r
  have hkm : k = s.must.length + r := by have := hG.must_le; omega
  have hry : r ≤ (mbOf s).length := by have := hG.fill; omega
  have hpick := pick_perm (isMM s.must) (isMY s.must (mbOf s)) (isMM (mbOf s)) (fun e : Int × Nat × Nat => e.1)
    (fun e => (isM_disj hG.disj e).1) (fun e => (isM_disj hG.disj e).2.1) (fun e => (isM_disj hG.disj e).2.2) T.sf
    (s.must.length * r) (r * (r - 1) / 2)
  rw [List.map_take, List.map_take, hB, hC] at hpick
  have hlen : (pick (isMM s.must) (isMY s.must (mbOf s)) (isMM (mbOf s)) (fun e : Int × Nat × Nat => e.1)
      (s.must.length * r) (r * (r - 1) / 2) T.sf).length + ([] : List Int).length = k * (k - 1) / 2 := by
    rw [hpick.length_eq, List.length_append, List.length_append, hpermA.length_eq, List.length_take, List.length_take,
      lp_sortInts_length, lp_sortInts_length, lp_crossFlows_length, pairFlows_length, pairFlows_length, hkm, ← tri_split]
    have i1 : s.must.length * r ≤ s.must.length * (mbOf s).length := Nat.mul_le_mul_left _ hry
    have i2 : r * (r - 1) / 2 ≤ (mbOf s).length * ((mbOf s).length - 1) / 2 :=
      Nat.div_le_div_right (Nat.mul_le_mul hry (by omega))
    rw [Nat.min_eq_left i1, Nat.min_eq_left i2]
    simp only [List.length_nil]
    omega
  have h1 := (qFold_spec _ _ _ _ (k * (k - 1) / 2) T.sf [] [] (s.must.length * r) (r * (r - 1) / 2) false hlen (by simp)).1
  have e1 := flowFold_eq s (k * (k - 1) / 2) T.sf [] [] (s.must.length * r) (r * (r - 1) / 2) false
  rw [flowsLoop_def, ← e1, h1, List.nil_append]
  refine ⟨?_, ?_⟩
  · refine hpick.trans ?_
    rw [← List.append_assoc]
    exact (hpermA.append_right _).append_right _
  · exact hsorted.sublist (pick_sublist _ _ _ _ _ _ _)

#print axioms lengthsLoop_merged
#print axioms flowsLoop_merged

end Ddo.Examples.SrflpModel
