import DdoModel.Examples.SopProofsBase
/-! One step of the sop model on well-formed tables (`TabOk`) and states (`Inv`): values of `minDist?`, `canSchedule?`,
    `domain`, `trans?`, `cost?`; `Inv` is closed under the transitions of the domain (`inv_succ`); the value-to-go
    `bestRemF` one step at a time (`bestRemF_ge`, `bestRemF_att`). -/
namespace Ddo.Examples.SopModel
open Ddo Ddo.Examples Ddo.Examples.Util

-- ------------------------------------------------------------------------------------------------------------------
-- small list / option lemmas (as in `TsptwProofs.lean`)

theorem mapM_total {α β : Type} (f : α → Option β) (g : α → β) : ∀ l : List α, (∀ x ∈ l, f x = some (g x)) →
    l.mapM f = some (l.map g) := by
  intro l
  induction l with
  | nil => intro _; rfl
  | cons a t ih =>
    intro h
    rw [List.mapM_cons, h a List.mem_cons_self, ih (fun x hx => h x (List.mem_cons_of_mem _ hx))]
    rfl

theorem EInt.le_max_left (a b : EInt) : a ≤ EInt.max a b := by
  cases a <;> cases b <;> simp [EInt.max] <;> omega
theorem EInt.le_max_right (a b : EInt) : b ≤ EInt.max a b := by
  cases a <;> cases b <;> simp [EInt.max] <;> omega
theorem EInt.max_cases (a b : EInt) : EInt.max a b = a ∨ EInt.max a b = b := by
  cases a <;> cases b <;> simp [EInt.max] <;> omega

theorem foldl_max_spec (f : Int → EInt) : ∀ (l : List Int) (acc : EInt),
    acc ≤ l.foldl (fun a v => EInt.max a (f v)) acc ∧
    (∀ v ∈ l, f v ≤ l.foldl (fun a v => EInt.max a (f v)) acc) ∧
    (l.foldl (fun a v => EInt.max a (f v)) acc = acc ∨ ∃ v ∈ l, l.foldl (fun a v => EInt.max a (f v)) acc = f v) := by
  intro l
  induction l with
  | nil => intro acc; exact ⟨EInt.le_refl _, (fun v hv => by cases hv), Or.inl rfl⟩
  | cons x t ih =>
    intro acc
    obtain ⟨h1, h2, h3⟩ := ih (EInt.max acc (f x))
    rw [List.foldl_cons]
    refine ⟨EInt.le_trans (EInt.le_max_left _ _) h1, ?_, ?_⟩
    · intro v hv
      rcases List.mem_cons.mp hv with rfl | hv
      · exact EInt.le_trans (EInt.le_max_right _ _) h1
      · exact h2 v hv
    · rcases h3 with h3 | ⟨v, hv, h3⟩
      · rcases EInt.max_cases acc (f x) with h | h
        · left; rw [h3, h]
        · right; exact ⟨x, List.mem_cons_self, by rw [h3, h]⟩
      · right; exact ⟨v, List.mem_cons_of_mem _ hv, h3⟩

theorem EInt.addI_mono {a b : EInt} (h : a ≤ b) (c : Int) : a.addI c ≤ b.addI c := by
  cases a <;> cases b <;> simp_all [EInt.addI]

theorem foldl_min_spec : ∀ (l : List Int) (a : Int),
    (l.foldl min a ≤ a ∧ ∀ x ∈ l, l.foldl min a ≤ x) ∧ (l.foldl min a = a ∨ l.foldl min a ∈ l) := by
  intro l
  induction l with
  | nil => intro a; simp
  | cons y t ih =>
    intro a
    obtain ⟨⟨h1, h2⟩, h3⟩ := ih (min a y)
    simp only [List.foldl_cons]
    refine ⟨⟨by omega, ?_⟩, ?_⟩
    · intro x hx
      rcases List.mem_cons.mp hx with rfl | hx
      · omega
      · exact h2 x hx
    · rcases h3 with h3 | h3
      · rw [h3]
        by_cases h : a ≤ y
        · left; omega
        · right; rw [show min a y = y by omega]; exact List.mem_cons_self
      · right; exact List.mem_cons_of_mem _ h3

theorem minOf_spec : ∀ l : List Int, l ≠ [] → ∃ m, minOf l = some m ∧ m ∈ l ∧ ∀ x ∈ l, m ≤ x := by
  intro l hl
  cases l with
  | nil => exact absurd rfl hl
  | cons a t =>
    obtain ⟨⟨h1, h2⟩, h3⟩ := foldl_min_spec t a
    refine ⟨t.foldl min a, rfl, ?_, ?_⟩
    · rcases h3 with h3 | h3
      · rw [h3]; exact List.mem_cons_self
      · exact List.mem_cons_of_mem _ h3
    · intro x hx
      rcases List.mem_cons.mp hx with rfl | hx
      · exact h1
      · exact h2 x hx

theorem and_eq_zero_iff {a b : Nat} : (a &&& b) = 0 ↔ ∀ x, a.testBit x = true → b.testBit x = false := by
  constructor
  · intro h x hx
    have := testBit_of_eq_zero h x
    rw [Nat.testBit_and, hx] at this
    simpa using this
  · intro h
    apply eq_zero_of_testBit
    intro x
    rw [Nat.testBit_and]
    cases hx : a.testBit x with
    | false => rfl
    | true => simp [h x hx]

-- ------------------------------------------------------------------------------------------------------------------
-- distances

variable {T : Tab}

/-- the distance with the precedence mark read as `isize::MAX` -/
def dI (T : Tab) (i j : Nat) : Int := if dfun T i j = -1 then imax else dfun T i j

/-- `min_distance_to` (`isize::MAX` on a panic) -/
def mdist (T : Tab) (s : St) (j : Nat) : Int := (minDist? T s j).getD imax

theorem dI_le_imax (hT : TabOk T) {i j : Nat} (hi : i < T.n) (hj : j < T.n) : dI T i j ≤ imax := by
  unfold dI
  split
  · exact Int.le_refl _
  · exact hT.d_le i j hi hj

theorem minDist?_spec (hT : TabOk T) {s : St} (hp : ∀ p, isPrev s p → p < T.n) {j : Nat} (hj : j < T.n) :
    ∃ w, minDist? T s j = some w ∧ -1 ≤ w ∧ w ≤ imax ∧ (∀ p, isPrev s p → w ≤ dI T p j) ∧
      (w = imax ∨ ∃ p, isPrev s p ∧ dfun T p j ≠ -1 ∧ w = dfun T p j) := by
  cases hs : s.prev with
  | job i =>
    have hi : i < T.n := hp i (by simp [isPrev, hs])
    refine ⟨dI T i j, ?_, ?_, dI_le_imax hT hi hj, ?_, ?_⟩
    · simp only [minDist?, hs, hT.dist i j hi hj, dI]
      rfl
    · unfold dI
      split
      · simp [imax]
      · exact hT.d_ge i j hi hj
    · intro p hpp
      have : p = i := by simpa [isPrev, hs] using hpp
      subst this
      exact Int.le_refl _
    · unfold dI
      split
      · left; rfl
      · rename_i hne
        right
        exact ⟨i, by simp [isPrev, hs], hne, rfl⟩
  | virt c =>
    have hc : ∀ i ∈ bits c, i < T.n := fun i hi => hp i (by simpa [isPrev, hs] using mem_bits.mp hi)
    have hm : (bits c).mapM (fun i => dist? T i j) = some ((bits c).map fun i => dfun T i j) :=
      mapM_total _ _ _ (fun i hi => hT.dist i j (hc i hi) hj)
    have hval : minDist? T s j = some ((minOf (((bits c).map fun i => dfun T i j).filter (· ≠ -1))).getD imax) := by
      simp only [minDist?, hs, hm]
      rfl
    rw [hval]
    refine ⟨_, rfl, ?_⟩
    by_cases hl : ((bits c).map fun i => dfun T i j).filter (· ≠ -1) = []
    · rw [hl]
      refine ⟨by simp [minOf, imax], by simp [minOf], ?_, Or.inl (by simp [minOf])⟩
      intro p hpp
      have hpc : p ∈ bits c := mem_bits.mpr (by simpa [isPrev, hs] using hpp)
      have : dfun T p j = -1 := by
        by_cases h : dfun T p j = -1
        · exact h
        · have hmem : dfun T p j ∈ ((bits c).map fun i => dfun T i j).filter (· ≠ -1) := by
            rw [List.mem_filter]
            exact ⟨List.mem_map.mpr ⟨p, hpc, rfl⟩, by simpa using h⟩
          rw [hl] at hmem
          cases hmem
      simp [minOf, dI, this]
    · obtain ⟨m, hm1, hm2, hm3⟩ := minOf_spec _ hl
      rw [hm1]
      simp only [Option.getD_some]
      rw [List.mem_filter] at hm2
      obtain ⟨hm2, hm4⟩ := hm2
      obtain ⟨p, hpc, hpm⟩ := List.mem_map.mp hm2
      have hm4' : m ≠ -1 := by simpa using hm4
      have hpn := hc p hpc
      refine ⟨?_, ?_, ?_, Or.inr ⟨p, by simpa [isPrev, hs] using mem_bits.mp hpc, by rw [hpm]; exact hm4', hpm.symm⟩⟩
      · rw [← hpm]; exact hT.d_ge p j hpn hj
      · rw [← hpm]; exact hT.d_le p j hpn hj
      · intro q hq
        have hqc : q ∈ bits c := mem_bits.mpr (by simpa [isPrev, hs] using hq)
        unfold dI
        split
        · rw [← hpm]; exact hT.d_le p j hpn hj
        · rename_i hne
          apply hm3
          rw [List.mem_filter]
          exact ⟨List.mem_map.mpr ⟨q, hqc, rfl⟩, by simpa using hne⟩

theorem minDist?_eq (hT : TabOk T) {s : St} (hp : ∀ p, isPrev s p → p < T.n) {j : Nat} (hj : j < T.n) :
    minDist? T s j = some (mdist T s j) := by
  obtain ⟨w, hw, _⟩ := minDist?_spec hT hp hj
  unfold mdist
  rw [hw]; rfl

theorem mdist_spec (hT : TabOk T) {s : St} (hp : ∀ p, isPrev s p → p < T.n) {j : Nat} (hj : j < T.n) :
    -1 ≤ mdist T s j ∧ mdist T s j ≤ imax ∧ (∀ p, isPrev s p → mdist T s j ≤ dI T p j) ∧
      (mdist T s j = imax ∨ ∃ p, isPrev s p ∧ dfun T p j ≠ -1 ∧ mdist T s j = dfun T p j) := by
  obtain ⟨w, hw, h⟩ := minDist?_spec hT hp hj
  have : mdist T s j = w := by unfold mdist; rw [hw]; rfl
  rw [this]; exact h

-- ------------------------------------------------------------------------------------------------------------------
-- `can_schedule`, the domain

/-- `can_schedule` -/
def canB (T : Tab) (s : St) (j : Nat) : Bool :=
  ((predOf T j &&& s.must) == 0) &&
  (match s.maybe with
   | none => true
   | some y => decide (card s.must + card (diff y (predOf T j)) ≥ nv T - s.depth))

theorem canSchedule?_eq (hT : TabOk T) (s : St) {j : Nat} (hj : j < T.n) : canSchedule? T s j = some (canB T s j) := by
  unfold canSchedule? canB
  rw [hT.pred_some j hj]
  simp only [Option.bind_eq_bind, Option.bind_some]
  by_cases h : (predOf T j &&& s.must) = 0
  · cases s.maybe <;> simp [h]
  · cases s.maybe <;> simp [h]

theorem canB_iff (s : St) (j : Nat) : canB T s j = true ↔
    (∀ x, (predOf T j).testBit x = true → s.must.testBit x = false) ∧
    (∀ y, s.maybe = some y → nv T - s.depth ≤ card s.must + card (diff y (predOf T j))) := by
  unfold canB
  rw [Bool.and_eq_true, beq_iff_eq, and_eq_zero_iff]
  cases s.maybe with
  | none => simp
  | some y => simp

theorem schedulable_eq (hT : TabOk T) (s : St) (js : List Nat) (hjs : ∀ j ∈ js, j < T.n) :
    schedulableWith? (canSchedule? T) s js = some (js.filter (canB T s)) := by
  unfold schedulableWith?
  rw [mapM_total _ (fun j => (j, canB T s j)) js (fun j hj => by rw [canSchedule?_eq hT s (hjs j hj)]; rfl)]
  simp only [Option.bind_eq_bind, Option.bind_some, List.filter_map, List.map_map]
  show some _ = some _
  congr 1
  simp [Function.comp_def]

/-- `j` is in the domain of `s` (`s.depth < nv`) -/
def InDom (T : Tab) (s : St) (j : Nat) : Prop :=
  if s.depth = T.n - 2 then j = T.n - 1
  else ((s.must.testBit j = true ∨ (mb s).testBit j = true) ∧ canB T s j = true)

theorem mem_domain_iff (hT : TabOk T) {s : St} (hs : Inv T s) (hd : s.depth < nv T) (v : Int) :
    v ∈ domain T s ↔ ∃ j : Nat, v = (j : Int) ∧ InDom T s j := by
  have hn : ¬ T.n ≤ 1 := by unfold nv at hd; omega
  unfold domain domain? domainWith? InDom
  rw [if_neg hn]
  by_cases hl : s.depth = T.n - 2
  · simp only [hl, if_true, Option.getD_some, List.mem_singleton]
    constructor
    · intro h; exact ⟨T.n - 1, h, rfl⟩
    · rintro ⟨j, rfl, rfl⟩; rfl
  · simp only [hl, if_false]
    rw [schedulable_eq hT s _ (fun j hj => (hs.must_lt j (mem_bits.mp hj)).2)]
    cases hm : s.maybe with
    | none =>
      simp only [Option.bind_eq_bind, Option.bind_some, mb]
      simp only [pure]
      simp only [Option.bind_some, Option.getD_some, List.append_nil, List.mem_map, List.mem_filter, mem_bits]
      constructor
      · rintro ⟨j, ⟨h1, h2⟩, rfl⟩; exact ⟨j, rfl, Or.inl h1, h2⟩
      · rintro ⟨j, rfl, h1, h2⟩
        rcases h1 with h1 | h1
        · exact ⟨j, ⟨h1, h2⟩, rfl⟩
        · rw [hm] at h1; simp at h1
    | some y =>
      have hy : ∀ j ∈ bits y, j < T.n := fun j hj => (hs.maybe_lt j (by simpa [mb, hm] using mem_bits.mp hj)).2
      have hmb : s.maybe.getD 0 = y := by rw [hm]; rfl
      simp only [schedulable_eq hT s _ hy, Option.bind_eq_bind, Option.bind_some, mb]
      simp only [pure]
      simp only [Option.getD_some, List.mem_map, List.mem_append, List.mem_filter, mem_bits, hmb]
      constructor
      · rintro ⟨j, h, rfl⟩
        rcases h with ⟨h1, h2⟩ | ⟨h1, h2⟩
        · exact ⟨j, rfl, Or.inl h1, h2⟩
        · exact ⟨j, rfl, Or.inr h1, h2⟩
      · rintro ⟨j, rfl, h1, h2⟩
        rcases h1 with h1 | h1
        · exact ⟨j, Or.inl ⟨h1, h2⟩, rfl⟩
        · exact ⟨j, Or.inr ⟨h1, h2⟩, rfl⟩

theorem InDom.lt (hT : TabOk T) {s : St} (hs : Inv T s) {j : Nat} (h : InDom T s j) : j < T.n := by
  unfold InDom at h
  split at h
  · have := hT.n_pos; omega
  · rcases h.1 with h1 | h1
    · exact (hs.must_lt j h1).2
    · exact (hs.maybe_lt j h1).2

-- ------------------------------------------------------------------------------------------------------------------
-- transition, cost

/-- the successor of `s` by job `j` -/
def succSt (T : Tab) (s : St) (j : Nat) : St :=
  { prev := .job j, must := diff s.must (single j),
    maybe := s.maybe.map fun y => diff (diff y (single j)) (predOf T j), depth := s.depth + 1 }

theorem trans?_eq (hT : TabOk T) (s : St) {j : Nat} (hj : j < T.n) (x : Nat) :
    trans? T s ⟨x, (j : Int)⟩ = some (succSt T s j) := by
  have h256 := hT.n_le
  unfold trans? succSt
  have hc : ¬ ((j : Int) < 0 ∨ (j : Int) ≥ 256) := by omega
  simp only [hc, if_false, Int.toNat_natCast]
  cases s.maybe with
  | none => rfl
  | some y => simp [hT.pred_some j hj]

theorem cost?_eq (hT : TabOk T) {s : St} (hp : ∀ p, isPrev s p → p < T.n) {j : Nat} (hj : j < T.n) (x : Nat) :
    cost? T s ⟨x, (j : Int)⟩ = some (-mdist T s j) := by
  unfold cost?
  have hc : ¬ ((j : Int) < 0) := by omega
  simp only [hc, if_false, Int.toNat_natCast, minDist?_eq hT hp hj, Option.bind_eq_bind, Option.bind_some]
  obtain ⟨h1, h2, _⟩ := mdist_spec hT hp hj
  unfold chk
  rw [if_pos]
  simp only [imin, imax] at *
  omega

theorem mb_succSt (s : St) (j : Nat) : mb (succSt T s j) = diff (diff (mb s) (single j)) (predOf T j) := by
  unfold mb succSt
  cases s.maybe with
  | none =>
    simp only [Option.map_none, Option.getD_none]
    apply Nat.eq_of_testBit_eq
    intro x
    simp [testBit_diff]
  | some y => rfl

theorem diff_single_of_not {a j : Nat} (h : a.testBit j = false) : diff a (single j) = a := by
  apply Nat.eq_of_testBit_eq
  intro x
  rw [testBit_diff, testBit_single]
  by_cases hx : j = x
  · subst hx; simp [h]
  · simp [hx]

theorem diff_comm (a b c : Nat) : diff (diff a b) c = diff (diff a c) b := by
  apply Nat.eq_of_testBit_eq
  intro x
  simp only [testBit_diff]
  cases a.testBit x <;> cases b.testBit x <;> cases c.testBit x <;> rfl

/-- `Inv` is closed under the transitions of the domain -/
theorem inv_succ (hT : TabOk T) {s : St} (hs : Inv T s) (hd : s.depth < nv T) {j : Nat} (hj : InDom T s j) :
    Inv T (succSt T s j) := by
  have hjn := hj.lt hT hs
  refine ⟨?_, ?_, ?_, ?_, ?_, ?_⟩
  · show s.depth + 1 ≤ nv T
    omega
  · intro x hx
    have : (diff s.must (single j)).testBit x = true := hx
    rw [testBit_diff] at this
    exact hs.must_lt x (by simp at this; exact this.1)
  · intro x hx
    rw [mb_succSt, testBit_diff, testBit_diff] at hx
    simp at hx
    exact hs.maybe_lt x hx.1.1
  · intro x hx
    have h1 : (diff s.must (single j)).testBit x = true := hx
    rw [testBit_diff] at h1
    simp at h1
    rw [mb_succSt, testBit_diff, testBit_diff, hs.disj x h1.1]
    rfl
  · intro p hp
    have : p = j := hp
    omega
  · show nv T - (s.depth + 1) ≤ card (diff s.must (single j)) + card (mb (succSt T s j))
    rw [mb_succSt]
    unfold InDom at hj
    split at hj
    · unfold nv; omega
    · obtain ⟨hmem, hcan⟩ := hj
      obtain ⟨_, hcnt⟩ := (canB_iff s j).mp hcan
      cases hm : s.maybe with
      | none =>
        have h0 : mb s = 0 := by simp [mb, hm]
        have hc := hs.count
        rw [h0, card_zero] at hc
        have := card_diff_single_ge s.must j
        omega
      | some y =>
        have hy : mb s = y := by simp [mb, hm]
        have hc := hcnt y hm
        rw [hy, diff_comm]
        by_cases hjm : s.must.testBit j = true
        · have hjy : y.testBit j = false := by rw [← hy]; exact hs.disj j hjm
          have h1 := card_diff_single hjm
          have h2 : (diff y (predOf T j)).testBit j = false := by rw [testBit_diff, hjy]; rfl
          rw [diff_single_of_not h2]
          omega
        · have hjm' : s.must.testBit j = false := by simpa using hjm
          rw [diff_single_of_not hjm']
          have := card_diff_single_ge (diff y (predOf T j)) j
          omega

-- ------------------------------------------------------------------------------------------------------------------
-- the value-to-go, one step

/-- what the decision `v` contributes to the value-to-go of `s` -/
def stepVal (T : Tab) (fuel : Nat) (s : St) (v : Int) : EInt :=
  match trans? T s ⟨s.depth, v⟩, cost? T s ⟨s.depth, v⟩ with
  | some s2, some c => (bestRemF T .code fuel s2).addI c
  | _, _ => none

theorem bestRemF_done (fuel : Nat) (s : St) (h : nv T ≤ s.depth) : bestRemF T .code fuel s = some 0 := by
  cases fuel with
  | zero => rfl
  | succ f => simp only [bestRemF]; rw [if_pos h]

theorem bestRemF_succ (fuel : Nat) (s : St) (h : s.depth < nv T) :
    bestRemF T .code (fuel + 1) s = (domain T s).foldl (fun acc v => EInt.max acc (stepVal T fuel s v)) none := by
  simp only [bestRemF]
  rw [if_neg (by omega)]
  congr 1
  funext acc v
  unfold stepVal
  cases trans? T s ⟨s.depth, v⟩ <;> cases cost? T s ⟨s.depth, v⟩ <;> cases acc <;> simp [EInt.max]

theorem stepVal_eq (hT : TabOk T) {s : St} (hs : Inv T s) (fuel : Nat) {j : Nat} (hj : j < T.n) :
    stepVal T fuel s (j : Int) = (bestRemF T .code fuel (succSt T s j)).addI (-mdist T s j) := by
  unfold stepVal
  rw [trans?_eq hT s hj, cost?_eq hT hs.prev_lt hj]

/-- every decision of the domain bounds the value-to-go from below -/
theorem bestRemF_ge (hT : TabOk T) {s : St} (hs : Inv T s) (hd : s.depth < nv T) (fuel : Nat) {j : Nat}
    (hj : InDom T s j) :
    (bestRemF T .code fuel (succSt T s j)).addI (-mdist T s j) ≤ bestRemF T .code (fuel + 1) s := by
  rw [bestRemF_succ fuel s hd, ← stepVal_eq hT hs fuel (hj.lt hT hs)]
  exact (foldl_max_spec (stepVal T fuel s) (domain T s) none).2.1 _
    ((mem_domain_iff hT hs hd _).mpr ⟨j, rfl, hj⟩)

/-- the value-to-go is attained by a decision of the domain -/
theorem bestRemF_att (hT : TabOk T) {s : St} (hs : Inv T s) (hd : s.depth < nv T) (fuel : Nat) {h : Int}
    (hh : bestRemF T .code (fuel + 1) s = some h) :
    ∃ j, InDom T s j ∧ ∃ h', bestRemF T .code fuel (succSt T s j) = some h' ∧ h = h' + -mdist T s j := by
  rw [bestRemF_succ fuel s hd] at hh
  rcases (foldl_max_spec (stepVal T fuel s) (domain T s) none).2.2 with h3 | ⟨v, hv, h3⟩
  · rw [h3] at hh; cases hh
  · obtain ⟨j, rfl, hj⟩ := (mem_domain_iff hT hs hd v).mp hv
    rw [h3, stepVal_eq hT hs fuel (hj.lt hT hs)] at hh
    refine ⟨j, hj, ?_⟩
    cases hb : bestRemF T .code fuel (succSt T s j) with
    | none => rw [hb] at hh; cases hh
    | some h' =>
      rw [hb] at hh
      refine ⟨h', rfl, ?_⟩
      simp only [EInt.addI, Option.map_some, Option.some.injEq] at hh
      omega

theorem succSt_depth (s : St) (j : Nat) : (succSt T s j).depth = s.depth + 1 := rfl

end Ddo.Examples.SopModel
