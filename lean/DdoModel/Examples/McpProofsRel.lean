import DdoModel.Examples.McpProofs
import DdoModel.Proofs.MddCoverRel
/-! The model of the shipped mcp example and the generic relaxed-compilation theorem RELATIVE TO VALID LAYERS
    (`Ddo.CoverRel.relaxed_ub_rel_valid`, `Proofs/MddCoverRel.lean`): the corollary `mcp_relaxed_ub_partial` of
    `McpProofs.lean` was conditional on `NoClampDom`, which `noClampDom_false` shows unsatisfiable for `n ≥ 1` (`relax` adds
    `Σ_l |dst_l| - |merged_l|`, unbounded over arbitrary states).  Here the no-saturation hypothesis is DISCHARGED from a
    bound `A` on the weights of the matrix.

* `WBound T A`: every weight read in the matrix is within `A` (`wBound_of_entries`: from a bound on the entries of `adj`);
* `VB T A k s` = `V T k s` (one benefit per vertex, the stored depth is the depth of the layer) and every benefit within
  `k · A`: a transition adds `v · w T k l`, `v = ±1`, to the components `l = k … n-1` and zeroes the components `l < k`
  (`trans_bAt`, `trans_bAt_lt`; the components `l ≥ n` read as `0`: `bAt_ge`); a merged benefit is no larger in absolute
  value than any merged-away one (`merge_abs_le`): `VB_init`, `VB_trans`, `VB_merge`;
* `wfRelVB` (**proved**): `WfRelV` for `VB` on every `GraphOk` matrix whose weights are within `A` — the clauses `att`,
  `attMerge`, `term`, `rub`, `merge` are those of `wfRel` (`VB → V`), the closure clauses use `VB_trans`, `VB_merge`;
* `noClampRel` (**proved**): `NoClampRel` for `VB`, root value `vr = sum_of_negative_edges`, with
  `B0 n A = n · A` (a transition cost from a valid state of depth `k` is `max(0, ∓b_k) + Σ_{l = k…n-1} termF`, within
  `k · A + (n - k) · A`; it is `≥ 0`) and `BR n A = n · A + n · (n · A)` (`relax` adds `n` terms, each within `n · A`; `vr`
  is the sum over `j < n`, `i < j` of `min 0 w_ij`, within `n · (n · A)`: `vr_bound`), under the only size hypothesis
  `(n + 2) · BR n A ≤ 2^62`;
* `mcp_relaxed_ub` (**proved**, unconditional in `NoClamp`): the statement of `mcp_relaxed_ub_partial` with `NoClampDom`
  replaced by `WBound` and the size hypothesis; `mcp_relaxed_ub_entries`: the same from a bound on the entries of `adj`. -/
namespace Ddo.Examples.McpModel
open Ddo Ddo.Examples Ddo.Examples.Util

-- ------------------------------------------------------------------------------------------------------------------
-- arithmetic: sums of bounded terms

theorem rsum_const (k c : Nat) (C : Int) : rsum k c (fun _ => C) = (c : Int) * C := by
  induction c generalizing k with
  | zero => simp
  | succ c ih =>
    rw [rsum_succ, ih, Int.natCast_add, Int.add_mul]
    simp only [Int.natCast_one, Int.one_mul]
    omega

/-- a sum of `c` terms within `[L, U]` is within `[c · L, c · U]` -/
theorem rsum_between {k c : Nat} {f : Nat → Int} {L U : Int} (h : ∀ l, k ≤ l → l < k + c → L ≤ f l ∧ f l ≤ U) :
    (c : Int) * L ≤ rsum k c f ∧ rsum k c f ≤ (c : Int) * U := by
  have h1 := rsum_le (k := k) (c := c) (f := f) (g := fun _ => U) (fun l a b => (h l a b).2)
  have h2 := rsum_le (k := k) (c := c) (f := fun _ => L) (g := f) (fun l a b => (h l a b).1)
  rw [rsum_const] at h1 h2
  exact ⟨h2, h1⟩

theorem natCast_mul_le {k n : Nat} {A : Int} (hkn : k ≤ n) (hA : 0 ≤ A) : (k : Int) * A ≤ (n : Int) * A :=
  Int.mul_le_mul_of_nonneg_right (Int.ofNat_le.mpr hkn) hA

theorem iabs_zero : iabs 0 = 0 := rfl

variable (T : Tab)

-- ------------------------------------------------------------------------------------------------------------------
-- the bound on the weights

/-- every weight read in the matrix is within `A` -/
def WBound (A : Int) : Prop := ∀ i j, -A ≤ w T i j ∧ w T i j ≤ A

theorem WBound.nonneg {T : Tab} {A : Int} (h : WBound T A) : 0 ≤ A := by
  have := h 0 0; omega

/-- from a bound on the entries of the matrix (a cell outside the matrix reads as `0`) -/
theorem wBound_of_entries {A : Int} (hA0 : 0 ≤ A) (h : ∀ row ∈ T.adj, ∀ q ∈ row, -A ≤ q ∧ q ≤ A) : WBound T A := by
  intro i j
  show -A ≤ (T.adj.getD i []).getD j 0 ∧ (T.adj.getD i []).getD j 0 ≤ A
  by_cases hi : i < T.adj.length
  · have hrow : T.adj.getD i [] ∈ T.adj := getD_mem hi
    generalize T.adj.getD i [] = row at hrow ⊢
    by_cases hj : j < row.length
    · have : row.getD j 0 ∈ row := by
        rw [List.getD_eq_getElem?_getD, List.getElem?_eq_getElem hj]
        exact List.getElem_mem hj
      exact h _ hrow _ this
    · rw [List.getD_eq_getElem?_getD, List.getElem?_eq_none (by omega)]
      simp only [Option.getD_none]; omega
  · have : T.adj.getD i [] = [] := by
      rw [List.getD_eq_getElem?_getD, List.getElem?_eq_none (by omega)]; rfl
    rw [this]
    simp only [List.getD_eq_getElem?_getD, List.getElem?_nil, Option.getD_none]; omega

-- ------------------------------------------------------------------------------------------------------------------
-- the components of a state outside `[depth, n)`

/-- a component beyond the benefit vector reads as `0` -/
theorem bAt_ge {s : St} {l : Nat} (h : s.benef.length ≤ l) : bAt s l = 0 := by
  unfold bAt
  rw [List.getD_eq_getElem?_getD, List.getElem?_eq_none h]; rfl

/-- `transition` zeroes the components before the variable decided -/
theorem trans_bAt_lt {s : St} (hlen : s.benef.length = T.n) (x : Nat) (v : Int) {l : Nat} (hlx : l < x) (hx : x ≤ T.n) :
    bAt (trans T s ⟨x, v⟩) l = 0 := by
  rw [trans_ok T hlen]
  unfold bAt
  simp only [List.getD_eq_getElem?_getD]
  rw [List.getElem?_append_left (by simp; omega)]
  have hm : l < min x T.n := by omega
  simp [hm]

theorem domain_pm {x : Nat} {s : St} {d : Int} (hd : d ∈ (problem T).domain x s) : d = 1 ∨ d = -1 := by
  simp only [problem, domain] at hd
  split at hd <;> simp at hd <;> omega

-- ------------------------------------------------------------------------------------------------------------------
-- the layer validity with the magnitude bound

/-- layer validity: `V` (one benefit per vertex, the depth stored in the state is the depth of the layer) and every benefit
    within `depth · A` (each transition adds `± w` to a benefit) -/
def VB (A : Int) (k : Nat) (s : St) : Prop := V T k s ∧ ∀ l, iabs (bAt s l) ≤ (k : Int) * A

theorem VB_init (A : Int) : VB T A 0 (problem T).init := by
  refine ⟨V_init T, fun l => ?_⟩
  show iabs (bAt (initSt T) l) ≤ ((0 : Nat) : Int) * A
  rw [bAt_init, iabs_zero]; simp

variable {T}
variable {A : Int}

theorem VB.le_n {k : Nat} {s : St} (h : VB T A k s) : k ≤ T.n := by
  have := h.1.1.2; have := h.1.2; omega

/-- the benefits of a valid state are within `n · A` -/
theorem VB.abs_le {k : Nat} {s : St} (h : VB T A k s) (hA0 : 0 ≤ A) (l : Nat) :
    0 ≤ iabs (bAt s l) ∧ iabs (bAt s l) ≤ (T.n : Int) * A :=
  ⟨iabs_nonneg _, Int.le_trans (h.2 l) (natCast_mul_le h.le_n hA0)⟩

theorem VB_trans (hA : WBound T A) {k : Nat} {s : St} (hV : VB T A k s) (hk : k < T.n) {v : Int} (hv : v = 1 ∨ v = -1) :
    VB T A (k + 1) ((problem T).trans s ⟨k, v⟩) := by
  refine ⟨V_trans T hV.1 hk v, fun l => ?_⟩
  have hA0 := hA.nonneg
  have hlen := hV.1.1.1
  have hkA : 0 ≤ (k : Int) * A := Int.mul_nonneg (Int.natCast_nonneg k) hA0
  have e : ((k + 1 : Nat) : Int) * A = (k : Int) * A + A := by
    rw [Int.natCast_add, Int.add_mul]; simp
  rw [e]
  show iabs (bAt (trans T s ⟨k, v⟩) l) ≤ (k : Int) * A + A
  by_cases h1 : l < k
  · rw [trans_bAt_lt T hlen k v h1 (by omega), iabs_zero]; omega
  · by_cases h2 : l < T.n
    · rw [trans_bAt T hlen k v (by omega) h2]
      have hb := hV.2 l
      have hw := hA k l
      unfold stepF
      rw [iabs_eq_max] at hb ⊢
      rcases hv with rfl | rfl
      · rw [Int.one_mul]; omega
      · rw [Int.neg_mul, Int.one_mul]; omega
    · rw [bAt_ge (by rw [trans_length T hlen k v (by omega)]; omega), iabs_zero]; omega

theorem VB_merge {k : Nat} {X : List St} (hne : X ≠ []) (hX : ∀ u ∈ X, VB T A k u) :
    ∃ m, merge? T X = some m ∧ (relaxation T).merge X = m ∧ VB T A k m := by
  obtain ⟨m, hm?, hm, hVm⟩ := V_merge T hne (fun u hu => (hX u hu).1)
  refine ⟨m, hm?, hm, hVm, fun l => ?_⟩
  obtain ⟨u, hu⟩ := List.exists_mem_of_ne_nil X hne
  have hub := (hX u hu).2 l
  by_cases hl : l < T.n
  · obtain ⟨a, b, ha, hb, h1, _, _⟩ := merge_abs_le T hm? hu hl
    rw [getElem?_bAt (by rw [hVm.1.1]; exact hl)] at ha
    rw [getElem?_bAt (by rw [(hX u hu).1.1.1]; exact hl)] at hb
    cases ha; cases hb
    exact Int.le_trans h1 hub
  · rw [bAt_ge (by rw [hVm.1.1]; omega), iabs_zero]
    have := iabs_nonneg (bAt u l)
    omega

-- ------------------------------------------------------------------------------------------------------------------
-- `WfRelV`

/-- **the model of the mcp example is well formed relative to layers of valid states of bounded benefits** (`WfRelV` for
    `VB`), on every instance of the domain (symmetric matrix, zero diagonal) whose weights are within `A` -/
theorem wfRelVB {n : Nat} {adj : List (List Int)} (hG : GraphOk n adj) (hA : WBound (tabOfAdj n adj) A) :
    WfRelV (problem (tabOfAdj n adj)) (relaxation (tabOfAdj n adj)) (H (tabOfAdj n adj)) (VB (tabOfAdj n adj) A) where
  vstep := by
    intro k L x s d hnv hL hs hd
    obtain ⟨rfl, hk⟩ := nextVar_some _ hnv
    exact VB_trans hA (hL s hs) hk (domain_pm _ hd)
  vstepMerge := by
    intro k L x X d hnv hL hne hsub hd
    obtain ⟨rfl, hk⟩ := nextVar_some _ hnv
    obtain ⟨m, _, hm, hVm⟩ := VB_merge hne (fun u hu => hL u (hsub u hu))
    rw [hm] at hd ⊢
    exact VB_trans hA hVm hk (domain_pm _ hd)
  vmerge := by
    intro k X hne hX
    obtain ⟨m, _, hm, hVm⟩ := VB_merge hne hX
    rw [hm]; exact hVm
  att := fun k L x s h hnv hL hs hH => (wfRel hG).att k L x s h hnv hs (hL s hs).1 hH
  attMerge := fun k L x X h hnv hL hne hsub hH =>
    (wfRel hG).attMerge k L x X h hnv hne hsub (fun u hu => (hL u (hsub u hu)).1) hH
  term := fun k L s h hnv hL hs hH => (wfRel hG).term k L s h hnv hs (hL s hs).1 hH
  rub := fun k s h hV hH => (wfRel hG).rub k s h hV.1 hH
  merge := fun k X u src d c h hu hX hH => (wfRel hG).merge k X u src d c h hu (fun w hw => (hX w hw).1) hH

-- ------------------------------------------------------------------------------------------------------------------
-- `NoClampRel`

/-- the bound on the transition costs from valid states -/
def B0 (n : Nat) (A : Int) : Int := (n : Int) * A
/-- the bound on the relaxed costs into merged states of valid layers, and on the root value -/
def BR (n : Nat) (A : Int) : Int := (n : Int) * A + (n : Int) * ((n : Int) * A)

theorem termF_bound (hA : WBound T A) (b : Nat → Int) (k : Nat) (v : Int) (l : Nat) :
    0 ≤ termF T b k v l ∧ termF T b k v l ≤ A := by
  have hw := hA k l
  have hA0 := hA.nonneg
  unfold termF
  simp only [iabs_eq_max]
  split <;> omega

/-- a transition cost from a valid state of depth `k < n`, for a decision `±1` on variable `k`: between `0` and `n · A` -/
theorem costF_bound (hA : WBound T A) {k : Nat} {s : St} (hV : VB T A k s) (hk : k < T.n) {v : Int} (hv : v = 1 ∨ v = -1) :
    0 ≤ costF T (bAt s) k v ∧ costF T (bAt s) k v ≤ (T.n : Int) * A := by
  have hA0 := hA.nonneg
  unfold costF
  obtain ⟨h1, h2⟩ := rsum_between (k := k) (c := T.n - k) (f := termF T (bAt s) k v) (L := 0) (U := A)
    (fun l _ _ => termF_bound hA _ _ _ _)
  have hb := hV.2 k
  rw [iabs_eq_max] at hb
  have e : ((T.n - k : Nat) : Int) * A = (T.n : Int) * A - (k : Int) * A := by
    rw [Int.natCast_sub (by omega), Int.sub_mul]
  rw [e] at h2
  rw [Int.mul_zero] at h1
  rcases hv with rfl | rfl
  · rw [Int.one_mul]; omega
  · rw [Int.neg_mul, Int.one_mul]; omega

/-- the root value `sum_of_negative_edges` is between `-(n · (n · A))` and `0` -/
theorem vr_bound {n : Nat} {adj : List (List Int)} (hG : GraphOk n adj) (hA : WBound (tabOfAdj n adj) A) :
    -((n : Int) * ((n : Int) * A)) ≤ (tabOfAdj n adj).vr ∧ (tabOfAdj n adj).vr ≤ 0 := by
  have hA0 := hA.nonneg
  show -((n : Int) * ((n : Int) * A)) ≤ sumNeg adj ∧ sumNeg adj ≤ 0
  rw [sumNeg_eq hG]
  unfold colNeg
  obtain ⟨h1, h2⟩ := rsum_between (k := 0) (c := n) (f := fun j => rsum 0 j fun i => min 0 (wAt adj i j))
    (L := -((n : Int) * A)) (U := 0) (by
      intro j _ hj
      obtain ⟨h3, h4⟩ := rsum_between (k := 0) (c := j) (f := fun i => min 0 (wAt adj i j)) (L := -A) (U := 0) (by
        intro i _ _
        have := hA i j
        have e : w (tabOfAdj n adj) i j = wAt adj i j := rfl
        rw [e] at this
        omega)
      have := natCast_mul_le (k := j) (n := n) (by omega) hA0
      rw [Int.mul_neg] at h3
      rw [Int.mul_zero] at h4
      omega)
  rw [Int.mul_neg] at h1
  rw [Int.mul_zero] at h2
  exact ⟨h1, h2⟩

/-- **no `isize` saturation on the mcp model, relative to the valid states of bounded benefits**: transition costs within
    `B0 n A = n · A`, relaxed costs and root value within `BR n A = n · A + n · (n · A)` -/
theorem noClampRel {n : Nat} {adj : List (List Int)} (hG : GraphOk n adj) (hA : WBound (tabOfAdj n adj) A)
    (hsmall : ((n : Int) + 2) * BR n A ≤ 4611686018427387904) :
    NoClampRel (problem (tabOfAdj n adj)) (relaxation (tabOfAdj n adj)) (VB (tabOfAdj n adj) A) (tabOfAdj n adj).vr
      (B0 n A) (BR n A) := by
  have hA0 := hA.nonneg
  have hnA : 0 ≤ (n : Int) * A := Int.mul_nonneg (Int.natCast_nonneg n) hA0
  have hnnA : 0 ≤ (n : Int) * ((n : Int) * A) := Int.mul_nonneg (Int.natCast_nonneg n) hnA
  refine ⟨hnA, by unfold B0 BR; omega, ?_, ?_, ?_, hsmall⟩
  · have := vr_bound hG hA
    unfold BR; omega
  · intro k L x s d hnv _ hV hd
    obtain ⟨rfl, hk⟩ := nextVar_some _ hnv
    have hv := domain_pm _ hd
    show -B0 n A ≤ cost (tabOfAdj n adj) s ⟨x, d⟩ ∧ cost (tabOfAdj n adj) s ⟨x, d⟩ ≤ B0 n A
    rw [cost_ok _ hV.1.1.1 hk hv]
    unfold B0
    split
    · omega
    · have := costF_bound hA hV hk hv
      have e : ((tabOfAdj n adj).n : Int) = (n : Int) := rfl
      rw [e] at this
      omega
  · intro k X u src d c hu hX hc
    obtain ⟨m, _, hm, hVm⟩ := VB_merge (List.ne_nil_of_mem hu) hX
    have hVu := hX u hu
    rw [hm]
    show -BR n A ≤ (relax? (tabOfAdj n adj) u m c).getD c ∧ (relax? (tabOfAdj n adj) u m c).getD c ≤ BR n A
    rw [relax?_ok _ hVu.1.1.1 hVm.1.1.1]
    simp only [Option.getD_some]
    obtain ⟨h1, h2⟩ := rsum_between (k := 0) (c := (tabOfAdj n adj).n)
      (f := fun l => iabs (bAt u l) - iabs (bAt m l)) (L := -((n : Int) * A)) (U := (n : Int) * A) (by
        intro l _ _
        have h3 := hVu.abs_le hA0 l
        have h4 := hVm.abs_le hA0 l
        have e : ((tabOfAdj n adj).n : Int) = (n : Int) := rfl
        rw [e] at h3 h4
        omega)
    have e : ((tabOfAdj n adj).n : Int) = (n : Int) := rfl
    rw [e, Int.mul_neg] at h1
    rw [e] at h2
    unfold B0 at hc
    unfold BR
    omega

-- ------------------------------------------------------------------------------------------------------------------
-- the corollary

/-- **a relaxed compilation of the mcp model from the root** (no cache, no dominance, width ≥ 1) **reports an upper bound
    of `vr + bestRem root`** (the optimum of the model, which `dpExact_partial` identifies with the best cut on the matrix),
    on every instance of the domain whose weights are within `A` with `(n + 2) · (n·A + n·n·A) ≤ 2^62`: the statement of
    `mcp_relaxed_ub_partial` with the unsatisfiable `NoClampDom` replaced by bounds on the instance -/
theorem mcp_relaxed_ub {K : Type} [DecidableEq K] (cfg : Cfg St K) (A : Int)
    (cache : Cache St) (store : DomStore St K) (polls : Nat) {n : Nat} {adj : List (List Int)} (hG : GraphOk n adj)
    (hP : cfg.P = problem (tabOfAdj n adj)) (hR : cfg.R = relaxation (tabOfAdj n adj))
    (hrs : cfg.root.state = initSt (tabOfAdj n adj)) (hrv : cfg.root.value = (tabOfAdj n adj).vr) (hrd : cfg.root.depth = 0)
    (hrel : cfg.ctype = .relaxed) (hcache : cfg.useCache = false) (hdom : cfg.dom = none) (hW : 1 ≤ cfg.width)
    (hA : WBound (tabOfAdj n adj) A)
    (hsmall : ((n : Int) + 2) * BR n A ≤ 4611686018427387904)
    (hlb : InI cfg.lb) (o : Int)
    (ho : (bestRem (tabOfAdj n adj) (initSt (tabOfAdj n adj))).addI (tabOfAdj n adj).vr = some o) (hgt : o > cfg.lb)
    (hO : o ≤ iMax ∨ cfg.lb < iMax) :
    (compile cfg cache store polls none).1 = .ok →
    ∃ bv, (compile cfg cache store polls none).2.1.bestValue = some bv ∧ o ≤ bv := by
  refine Ddo.CoverRel.relaxed_ub_rel_valid cfg (H (tabOfAdj n adj)) (VB (tabOfAdj n adj) A) (B0 n A) (BR n A)
    cache store polls hrel hcache hdom hW ?_ ?_ ?_ hlb o ?_ hgt hO
  · rw [hP, hR]; exact wfRelVB hG hA
  · rw [hrd, hrs]; exact VB_init _ A
  · rw [hP, hR, hrv]; exact noClampRel hG hA hsmall
  · unfold optOf
    rw [hrd, hrs, hrv]
    exact ho

/-- the same from a bound on the ENTRIES of the matrix -/
theorem mcp_relaxed_ub_entries {K : Type} [DecidableEq K] (cfg : Cfg St K) (A : Int)
    (cache : Cache St) (store : DomStore St K) (polls : Nat) {n : Nat} {adj : List (List Int)} (hG : GraphOk n adj)
    (hP : cfg.P = problem (tabOfAdj n adj)) (hR : cfg.R = relaxation (tabOfAdj n adj))
    (hrs : cfg.root.state = initSt (tabOfAdj n adj)) (hrv : cfg.root.value = (tabOfAdj n adj).vr) (hrd : cfg.root.depth = 0)
    (hrel : cfg.ctype = .relaxed) (hcache : cfg.useCache = false) (hdom : cfg.dom = none) (hW : 1 ≤ cfg.width)
    (hA0 : 0 ≤ A) (hA : ∀ row ∈ adj, ∀ q ∈ row, -A ≤ q ∧ q ≤ A)
    (hsmall : ((n : Int) + 2) * BR n A ≤ 4611686018427387904)
    (hlb : InI cfg.lb) (o : Int)
    (ho : (bestRem (tabOfAdj n adj) (initSt (tabOfAdj n adj))).addI (tabOfAdj n adj).vr = some o) (hgt : o > cfg.lb)
    (hO : o ≤ iMax ∨ cfg.lb < iMax) :
    (compile cfg cache store polls none).1 = .ok →
    ∃ bv, (compile cfg cache store polls none).2.1.bestValue = some bv ∧ o ≤ bv :=
  mcp_relaxed_ub cfg A cache store polls hG hP hR hrs hrv hrd hrel hcache hdom hW
    (wBound_of_entries (tabOfAdj n adj) hA0 hA) hsmall hlb o ho hgt hO

section Axioms
#print axioms wfRelVB
#print axioms noClampRel
#print axioms mcp_relaxed_ub
#print axioms mcp_relaxed_ub_entries
end Axioms

end Ddo.Examples.McpModel
