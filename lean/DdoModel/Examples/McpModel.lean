import DdoModel.Examples.McpDp
/-! Statements and proofs about the Lean model of the shipped mcp example (`McpDp.lean`, the model the driver engine
    `exmodel`, family `mcp`, ties pointwise to the example's own code).

* `best_eq_specBestExt` (**proved**): with no decision taken, the specification value the driver compares the DP with is
  `Mcp.best` (all `2^n` sides: the root domain `{S}` is a symmetry breaking that the pointwise check validates);
* `cost_nonneg` (**proved**): every transition cost of the model is `≥ 0` (the objective starts at the sum of the negative
  weights and only grows);
* `mergeComp_abs_le`, `mergeComp_sign` (**proved**): component by component the merged benefit is no larger in absolute
  value than every merged benefit, and never of the opposite sign — the two facts the relaxation argument of Bergman et al.
  rests on; `merge_depth`, `merge_length` (**proved**): the merged state has the depth of the FIRST state and one benefit
  per vertex; `merge_abs_le` (**proved**): the same, on the states; `relax_ge`, `relax_ge_of_merge` (**proved**): the relaxed cost of an arc into a
  merged-away state is at least its cost;
* `domain_ne_nil` (**proved**): no state has an empty domain (every state has a completion: the value-to-go is never −∞);
* stated here (`def … : Prop`), all three evaluated pointwise by the driver on every generated instance of the domain;
  `McpProofs.lean` PROVES the first two at full strength (`mergeOk : MergeOkStmt`, `rubAdmissible : RubAdmissibleStmt`), the
  `WfRel` instance (`wfRel`) and the model half of the third (`dpExact_partial`): `RubAdmissibleStmt` (the rough bound dominates the value-to-go of every state with one benefit per vertex — not
  only the reachable ones), `MergeOkStmt` (`c + H(u) ≤ relax(c) + H(merge X)` for every `u ∈ X`), `DpExactStmt` (value of a
  prefix + value-to-go = the best cut of the specification among the sides extending the prefix). -/
namespace Ddo.Examples.McpModel
open Ddo Ddo.Examples Ddo.Examples.Util

/-- at the root the driver's specification value is `Mcp.best` -/
theorem best_eq_specBestExt (n : Nat) (edges : List (Int × Int × Int)) : Mcp.best n edges = specBestExt n edges [] := by
  simp [Mcp.best, specBestExt]

theorem iabs_nonneg (x : Int) : 0 ≤ iabs x := by unfold iabs; split <;> omega
theorem iabs_neg (x : Int) : iabs (-x) = iabs x := by unfold iabs; split <;> split <;> omega

-- ------------------------------------------------------------------------------------------------------------------
-- lists: `mapM` in `Option`, sums, least elements

theorem mapM_some {α β : Type} {f : α → Option β} : ∀ {l : List α} {r : List β}, l.mapM f = some r →
    r.length = l.length ∧ ∀ b ∈ r, ∃ a ∈ l, f a = some b := by
  intro l
  induction l with
  | nil => intro r h; simp at h; subst h; simp
  | cons a t ih =>
    intro r h
    rw [List.mapM_cons] at h
    cases hfa : f a with
    | none => simp [hfa] at h
    | some b =>
      cases ht : t.mapM f with
      | none => simp [hfa, ht] at h
      | some bs =>
        simp [hfa, ht] at h
        subst h
        have := ih ht
        refine ⟨by simp [this.1], ?_⟩
        intro b' hb'
        rcases List.mem_cons.mp hb' with rfl | hb'
        · exact ⟨a, List.mem_cons_self .., hfa⟩
        · obtain ⟨a', ha', hfa'⟩ := this.2 b' hb'
          exact ⟨a', List.mem_cons_of_mem _ ha', hfa'⟩

theorem mapM_cons_some {α β : Type} {f : α → Option β} {a : α} {t : List α} {r : List β} (h : (a :: t).mapM f = some r) :
    ∃ b bs, f a = some b ∧ t.mapM f = some bs ∧ r = b :: bs := by
  rw [List.mapM_cons] at h
  obtain ⟨b, hb, h⟩ := Option.bind_eq_some_iff.mp h
  obtain ⟨bs, hbs, h⟩ := Option.bind_eq_some_iff.mp h
  exact ⟨b, bs, hb, hbs, by cases h; rfl⟩

theorem mapM_getElem {α β : Type} {f : α → Option β} : ∀ {l : List α} {r : List β}, l.mapM f = some r →
    ∀ (i : Nat) (hi : i < l.length) (hr : i < r.length), f l[i] = some r[i] := by
  intro l
  induction l with
  | nil => intro r _ i hi; simp at hi
  | cons a t ih =>
    intro r h i hi hr
    obtain ⟨b, bs, hb, hbs, rfl⟩ := mapM_cons_some h
    cases i with
    | zero => simpa using hb
    | succ j =>
      simp only [List.getElem_cons_succ]
      exact ih hbs j (by simpa using hi) (by simpa using hr)

theorem mapM_mem {α β : Type} {f : α → Option β} : ∀ {l : List α} {r : List β}, l.mapM f = some r →
    ∀ a ∈ l, ∃ b, f a = some b ∧ b ∈ r := by
  intro l
  induction l with
  | nil => intro r _ a ha; cases ha
  | cons x t ih =>
    intro r h a ha
    obtain ⟨b, bs, hb, hbs, rfl⟩ := mapM_cons_some h
    rcases List.mem_cons.mp ha with rfl | ha
    · exact ⟨b, hb, List.mem_cons_self ..⟩
    · obtain ⟨b', hb', hin⟩ := ih hbs a ha
      exact ⟨b', hb', List.mem_cons_of_mem _ hin⟩

theorem foldl_add_nonneg : ∀ (l : List Int) (acc : Int), 0 ≤ acc → (∀ x ∈ l, 0 ≤ x) → 0 ≤ l.foldl (· + ·) acc := by
  intro l
  induction l with
  | nil => intro acc h _; exact h
  | cons a t ih =>
    intro acc h hl
    simp only [List.foldl_cons]
    exact ih _ (by have := hl a (List.mem_cons_self ..); omega) (fun x hx => hl x (List.mem_cons_of_mem _ hx))

theorem sum_nonneg {l : List Int} (h : ∀ x ∈ l, 0 ≤ x) : 0 ≤ sum l := foldl_add_nonneg l 0 (Int.le_refl 0) h

theorem foldl_min_spec : ∀ (l : List Int) (m : Int),
    (l.foldl min m ≤ m ∧ ∀ v ∈ l, l.foldl min m ≤ v) ∧ (l.foldl min m = m ∨ l.foldl min m ∈ l) := by
  intro l
  induction l with
  | nil => intro m; simp
  | cons a t ih =>
    intro m
    simp only [List.foldl_cons]
    have h := ih (min m a)
    refine ⟨⟨by have := h.1.1; omega, ?_⟩, ?_⟩
    · intro v hv
      rcases List.mem_cons.mp hv with rfl | hv
      · have := h.1.1; omega
      · exact h.1.2 v hv
    · rcases h.2 with h2 | h2
      · by_cases hma : m ≤ a
        · left; rw [h2]; omega
        · right; rw [h2]; exact List.mem_cons.mpr (Or.inl (by omega))
      · right; exact List.mem_cons_of_mem _ h2

/-- the least element of a non-empty list: below every element, and one of them -/
theorem minOf_spec {l : List Int} {v : Int} (hv : v ∈ l) : ∃ m, minOf l = some m ∧ m ≤ v ∧ m ∈ l := by
  cases l with
  | nil => cases hv
  | cons a t =>
    have h := foldl_min_spec t a
    refine ⟨t.foldl min a, rfl, ?_, ?_⟩
    · rcases List.mem_cons.mp hv with rfl | hv
      · exact h.1.1
      · exact h.1.2 v hv
    · rcases h.2 with h2 | h2
      · rw [h2]; exact List.mem_cons_self ..
      · exact List.mem_cons_of_mem _ h2

-- ------------------------------------------------------------------------------------------------------------------
-- the merge operator, component by component

/-- the merged benefit is no larger in absolute value than every merged benefit -/
theorem mergeComp_abs_le {vals : List Int} {v : Int} (hv : v ∈ vals) : iabs (mergeComp vals) ≤ iabs v := by
  unfold mergeComp
  simp only []
  split
  · next h =>
    -- some value positive, none negative: the least value
    have hneg : ∀ x ∈ vals, ¬ x < 0 := by
      intro x hx hlt
      have : vals.any (· < 0) = true := List.any_eq_true.mpr ⟨x, hx, by simpa using hlt⟩
      simp [this] at h
    obtain ⟨m, hm, hle, hmem⟩ := minOf_spec hv
    rw [hm]
    have h1 := hneg m hmem
    have h2 := hneg v hv
    simp only [Option.getD_some]
    have e1 : iabs m = m := by unfold iabs; split <;> omega
    have e2 : iabs v = v := by unfold iabs; split <;> omega
    omega
  · split
    · next h =>
      have hv' : iabs v ∈ vals.map iabs := List.mem_map.mpr ⟨v, hv, rfl⟩
      obtain ⟨m, hm, hle, hmem⟩ := minOf_spec hv'
      rw [hm]
      simp only [Option.getD_some]
      obtain ⟨y, _, hy⟩ := List.mem_map.mp hmem
      have := iabs_nonneg y
      rw [iabs_neg]
      have hm0 : 0 ≤ m := by omega
      have : iabs m = m := by unfold iabs; split <;> omega
      omega
    · have := iabs_nonneg v
      show iabs 0 ≤ iabs v
      have : iabs 0 = 0 := rfl
      omega

/-- the merged benefit never has the sign opposite to a merged benefit -/
theorem mergeComp_sign {vals : List Int} {v : Int} (hv : v ∈ vals) :
    (0 < v → 0 ≤ mergeComp vals) ∧ (v < 0 → mergeComp vals ≤ 0) := by
  unfold mergeComp
  simp only []
  split
  · next h =>
    have hneg : ∀ x ∈ vals, ¬ x < 0 := by
      intro x hx hlt
      have : vals.any (· < 0) = true := List.any_eq_true.mpr ⟨x, hx, by simpa using hlt⟩
      simp [this] at h
    obtain ⟨m, hm, _, hmem⟩ := minOf_spec hv
    rw [hm]
    simp only [Option.getD_some]
    have h1 := hneg m hmem
    have h2 := hneg v hv
    exact ⟨fun _ => by omega, fun h => absurd h h2⟩
  · split
    · next h1 h =>
      have hpos : ∀ x ∈ vals, ¬ 0 < x := by
        intro x hx hlt
        have : vals.any (· > 0) = true := List.any_eq_true.mpr ⟨x, hx, by simpa using hlt⟩
        simp [this] at h
      have hv' : iabs v ∈ vals.map iabs := List.mem_map.mpr ⟨v, hv, rfl⟩
      obtain ⟨m, hm, _, hmem⟩ := minOf_spec hv'
      rw [hm]
      simp only [Option.getD_some]
      obtain ⟨y, _, hy⟩ := List.mem_map.mp hmem
      have := iabs_nonneg y
      exact ⟨fun h => absurd h (hpos v hv), fun _ => by omega⟩
    · exact ⟨fun _ => Int.le_refl 0, fun _ => Int.le_refl 0⟩

variable (T : Tab)

/-- no state has an empty domain -/
theorem domain_ne_nil (s : St) : domain s ≠ [] := by unfold domain; split <;> simp

theorem merge?_cons (f : St) (r : List St) : merge? T (f :: r) =
    ((List.range T.n).mapM fun l => (f :: r).mapM fun s => s.benef[l]?).bind
      (fun cols => some { depth := f.depth, benef := cols.map mergeComp }) := rfl

theorem branch?_eq (s : St) (x : Nat) (sgn : Int) : branch? T s x sgn =
    (s.benef[x]?).bind fun sx =>
      (((List.range T.n).drop x).mapM fun l => (s.benef[l]?).map fun skl =>
        if sgn * (skl * w T x l) ≤ 0 then min (iabs skl) (iabs (w T x l)) else 0).bind
        fun terms => some (max 0 (-(sgn * sx)) + sum terms) := rfl

theorem relax?_eq (dst mrg : St) (c : Int) : relax? T dst mrg c =
    ((List.range T.n).mapM fun l => (dst.benef[l]?).bind fun a => (mrg.benef[l]?).bind fun b => some (iabs a - iabs b)).bind
      fun diffs => some (c + sum diffs) := rfl

/-- the merged state has the depth of the FIRST merged state, and one benefit per vertex -/
theorem merge_depth {f : St} {r : List St} {m : St} (h : merge? T (f :: r) = some m) : m.depth = f.depth := by
  rw [merge?_cons] at h
  obtain ⟨cols, _, hm⟩ := Option.bind_eq_some_iff.mp h
  cases hm; rfl

theorem merge_length {X : List St} {m : St} (h : merge? T X = some m) : m.benef.length = T.n := by
  cases X with
  | nil => cases h
  | cons f r =>
    rw [merge?_cons] at h
    obtain ⟨cols, hc, hm⟩ := Option.bind_eq_some_iff.mp h
    cases hm
    simp [(mapM_some hc).1]

/-- every component of the merged state is `mergeComp` of the column of that component -/
theorem merge_abs_le {X : List St} {m u : St} (h : merge? T X = some m) (hu : u ∈ X) {l : Nat} (hl : l < T.n) :
    ∃ a b, m.benef[l]? = some a ∧ u.benef[l]? = some b ∧ iabs a ≤ iabs b ∧ (0 < b → 0 ≤ a) ∧ (b < 0 → a ≤ 0) := by
  cases X with
  | nil => cases hu
  | cons f r =>
    rw [merge?_cons] at h
    obtain ⟨cols, hc, hm⟩ := Option.bind_eq_some_iff.mp h
    cases hm
    · have hlen := (mapM_some hc).1
      have hl' : l < cols.length := by simp [hlen, hl]
      -- the column of component `l`, and the value of `u` in it
      have hcol : (f :: r).mapM (fun s => s.benef[l]?) = some cols[l] := by
        have := mapM_getElem hc l (by simp [hl]) hl'
        simpa using this
      obtain ⟨b, hb, hbin⟩ := mapM_mem hcol u hu
      exact ⟨mergeComp cols[l], b, by simp [hl'], hb, mergeComp_abs_le hbin, (mergeComp_sign hbin).1, (mergeComp_sign hbin).2⟩

/-- every transition cost of the model is non-negative -/
theorem cost_nonneg {s : St} {d : Dec} {c : Int} (h : cost? T s d = some c) : 0 ≤ c := by
  unfold cost? at h
  split at h
  · split at h
    · cases h; exact Int.le_refl 0
    · rw [branch?_eq] at h
      obtain ⟨sx, _, h⟩ := Option.bind_eq_some_iff.mp h
      obtain ⟨terms, ht, h⟩ := Option.bind_eq_some_iff.mp h
      cases h
      have hterms : ∀ x ∈ terms, 0 ≤ x := by
        intro x hx
        obtain ⟨l, _, hl⟩ := (mapM_some ht).2 x hx
        cases hb : s.benef[l]? with
        | none => rw [hb] at hl; cases hl
        | some skl =>
          rw [hb] at hl
          simp only [Option.map_some, Option.some.injEq] at hl
          subst hl
          have := iabs_nonneg skl
          have := iabs_nonneg (w T d.var l)
          split <;> omega
      have := sum_nonneg hterms
      omega
  · cases h

/-- `relax` never lowers a cost when the merged benefits are no larger in absolute value (which `merge` guarantees:
    `merge_abs_le`) -/
theorem relax_ge {dst mrg : St} {c r : Int} (h : relax? T dst mrg c = some r)
    (habs : ∀ (l : Nat), l < T.n → ∀ (a b : Int), dst.benef[l]? = some a → mrg.benef[l]? = some b → iabs b ≤ iabs a) : c ≤ r := by
  rw [relax?_eq] at h
  obtain ⟨diffs, hd, h⟩ := Option.bind_eq_some_iff.mp h
  cases h
  have hdiffs : ∀ x ∈ diffs, 0 ≤ x := by
    intro x hx
    obtain ⟨l, hlr, hl⟩ := (mapM_some hd).2 x hx
    obtain ⟨a, ha, hl⟩ := Option.bind_eq_some_iff.mp hl
    obtain ⟨b, hb, hl⟩ := Option.bind_eq_some_iff.mp hl
    cases hl
    have := habs l (List.mem_range.mp hlr) a b ha hb
    omega
  have := sum_nonneg hdiffs
  omega

/-- the relaxed cost of an arc into a merged-away state is at least its cost -/
theorem relax_ge_of_merge {X : List St} {m u : St} {c r : Int} (hm : merge? T X = some m) (hu : u ∈ X)
    (h : relax? T u m c = some r) : c ≤ r :=
  relax_ge T h (fun l hl a b ha hb => by
    obtain ⟨a', b', ha', hb', hle, _, _⟩ := merge_abs_le T hm hu hl
    rw [ha'] at hb; rw [hb'] at ha
    cases ha; cases hb
    exact hle)

-- ------------------------------------------------------------------------------------------------------------------
-- stated, not proved: what the driver evaluates pointwise on every generated case

/-- the matrix of an instance of the domain: `n` rows of `n` weights, symmetric, zero diagonal -/
def GraphOk (n : Nat) (adj : List (List Int)) : Prop :=
  adj.length = n ∧ (∀ row ∈ adj, row.length = n) ∧ ∀ x y, wAt adj x y = wAt adj y x ∧ wAt adj x x = 0

/-- the states the statements are about: one benefit per vertex, not deeper than the last layer (reachable or not) -/
def StOk (s : St) : Prop := s.benef.length = T.n ∧ s.depth ≤ T.n

/-- `RubOk` (stated): the rough upper bound dominates the value-to-go of every such state -/
def RubAdmissibleStmt : Prop :=
  ∀ (n : Nat) (adj : List (List Int)), GraphOk n adj → ∀ s : St, StOk (tabOfAdj n adj) s →
    bestRem (tabOfAdj n adj) s ≤ some ((relaxation (tabOfAdj n adj)).rub s)

/-- `MergeOk` (stated, potential form): for every merged-away state `u` of a list `X` of states of one depth, an arc of
    cost `c` into `u` and the cost `r` it is relaxed to: `c + H(u) ≤ r + H(merge X)` -/
def MergeOkStmt : Prop :=
  ∀ (n : Nat) (adj : List (List Int)), GraphOk n adj → ∀ (X : List St) (u m : St) (c r : Int),
    (∀ s ∈ X, StOk (tabOfAdj n adj) s ∧ s.depth = u.depth) → u ∈ X →
    merge? (tabOfAdj n adj) X = some m → relax? (tabOfAdj n adj) u m c = some r →
    mergeOkAt (tabOfAdj n adj) u m c r = true

/-- exactness of the DP model (stated): along any path of the model from the root, value + value-to-go is the best cut of
    the specification among the sides that extend the decisions of the path -/
def DpExactStmt : Prop :=
  ∀ (n : Nat) (edges : List (Int × Int × Int)), inDomain n edges = true →
    ∀ (vals : List Int) (s : St) (v : Int) (k : Nat),
      evalFrom (problem (tabOf n edges)) 0 (problem (tabOf n edges)).init (problem (tabOf n edges)).initVal
        ((List.range vals.length).zipWith (fun (k : Nat) (x : Int) => (⟨k, x⟩ : Dec)) vals) = some (s, v, k) →
      (bestRem (tabOf n edges) s).addI v = specBestExt n edges vals

end Ddo.Examples.McpModel
