import DdoModel.Examples.TalentschedDp
/-! Statements about the Lean model of the talentsched example (`TalentschedDp.lean`).
    Proved here: `relax` leaves the cost alone (`relax_id`); bit-level facts about `TalentSchedRelax::merge` as shipped — the
    `scenes` of the merged state belong to the `scenes` of every merged state (`merge_scenes_sub`), its two sets are disjoint
    (`merge_disjoint`), every scene in a set of a state OTHER THAN THE FIRST is in a set of the merged state
    (`merge_covers_tail`) — and that the last property FAILS for the first state (`merge_first_lost`: a scene of the first
    state only is in neither set of the merged state, which `get_present` then takes as shot), with a concrete instance on
    which the merged state is worth strictly less than its first state (`merge_not_relaxation_of_first`: `MergeOk` is false
    as shipped; the driver's `talentsched-merge-first-lost`).  For the REPAIRED merge `mergeStates`: `merge_covers_first`,
    `merge_covers` (every scene of EVERY merged state is in a set of the merged state), `mergeStates_scenes_sub`,
    `mergeStates_disjoint`.
    Stated here as `def … : Prop` and PROVED in `TalentschedProofs*.lean`:
    * `MergeOkStmt` (`MergeOk`, potential form, for the REPAIRED merge `mergeStates` and EVERY merged state, the first
      included): `TalentschedProofs.mergeOkStmt`, from the monotonicity of the value-to-go `bestRem_mono` (a state that must
      shoot fewer scenes and may shoot more is worth at least as much);
    * `MergeOkTailStmt` (the merge as shipped before the repair, states other than the first): `mergeOkTailStmt`;
      `MergeOkSymStmt` (the symmetric variant `mergeSym`): `mergeOkSymStmt`;
    * `DpExactStmt` (initial value + value-to-go of the root = minus the specification's minimum): `TalentschedProofsExact.
      dpExactStmt`, and its prefix form `DpExactPrefixStmt` / `dpExactPrefixStmt`.
    * `RubAdmissibleStmt` (the rough upper bound, evaluated on exact rationals, dominates the value-to-go of EVERY valid state,
      exact or merged): `TalentschedProofsRubFull.rubAdmissibleStmt` (and `rubAdmissible_inv` for every state with `Inv`), from
      the single-machine argument of Garcia de la Banda, Stuckey & Chu (`TalentschedProofsSmith.lean`: Smith's rule and the
      one-scene inequality; `TalentschedProofsPath.lean`: what every completion pays at least; `TalentschedProofsAdm.lean`:
      the bound along any order of the scenes).  Earlier partial result: `TalentschedProofsRub.rubAdmissible_partial` (nobody on
      location).  With it `talentsched_wfRel` (every clause of `WfRel`) and the closed corollary
      `TalentschedProofsMain.talentsched_relaxed_ub` against the specification `Talentsched.spec`.
    NOT covered by any of this: the shipped code evaluates the bound in `f64` (see `TalentschedDp.lean`); the theorems are about
    the exact evaluation `rubQ?`. -/
namespace Ddo.Examples.TalentschedModel
open Ddo Ddo.Examples Ddo.Examples.Util

/-- `TalentSchedRelax::relax` leaves the cost of the arc alone -/
theorem relax_id (T : Tab) (a b c : St) (d : Dec) (x : Int) : (relaxation T).relax a b c d x = x := rfl

/-- `Set64::diff`, bit by bit -/
theorem testBit_sdiff (a b i : Nat) : (sdiff a b).testBit i = (a.testBit i && !b.testBit i) := by
  unfold sdiff
  rw [Nat.testBit_xor, Nat.testBit_and]
  cases a.testBit i <;> cases b.testBit i <;> rfl

/-- the accumulation loop of `merge` -/
def mergeAcc (f : St) (rest : List St) : St :=
  rest.foldl (fun (m : St) s => { scenes := m.scenes &&& s.scenes, maybe := (m.maybe ||| s.scenes) ||| s.maybe }) f

theorem mergeStatesOld_cons (f : St) (rest : List St) :
    mergeStatesOld (f :: rest) = { scenes := (mergeAcc f rest).scenes, maybe := sdiff (mergeAcc f rest).maybe (mergeAcc f rest).scenes } := rfl

theorem mergeAcc_scenes (i : Nat) : ∀ (rest : List St) (f : St),
    (mergeAcc f rest).scenes.testBit i = true → f.scenes.testBit i = true ∧ ∀ u ∈ rest, u.scenes.testBit i = true := by
  intro rest
  induction rest with
  | nil => intro f h; exact ⟨h, by simp⟩
  | cons a r ih =>
    intro f h
    have h' := ih { scenes := f.scenes &&& a.scenes, maybe := (f.maybe ||| a.scenes) ||| a.maybe } h
    have h1 := h'.1
    simp only [Nat.testBit_and, Bool.and_eq_true] at h1
    refine ⟨h1.1, ?_⟩
    intro u hu
    rcases List.mem_cons.mp hu with rfl | hu
    · exact h1.2
    · exact h'.2 u hu

/-- the scenes that MUST be shot in the merged state must be shot in every merged state -/
theorem merge_scenes_sub (X : List St) (i : Nat) (h : (mergeStatesOld X).scenes.testBit i = true) :
    ∀ u ∈ X, u.scenes.testBit i = true := by
  cases X with
  | nil => intro u hu; cases hu
  | cons f rest =>
    rw [mergeStatesOld_cons] at h
    have h' := mergeAcc_scenes i rest f h
    intro u hu
    rcases List.mem_cons.mp hu with rfl | hu
    · exact h'.1
    · exact h'.2 u hu

/-- no scene is in both sets of a merged state -/
theorem merge_disjoint (X : List St) (i : Nat) :
    ¬ ((mergeStatesOld X).scenes.testBit i = true ∧ (mergeStatesOld X).maybe.testBit i = true) := by
  cases X with
  | nil => simp [mergeStatesOld]
  | cons f rest =>
    rw [mergeStatesOld_cons]
    simp only [testBit_sdiff]
    intro h
    rcases h with ⟨h1, h2⟩
    simp [h1] at h2

theorem mergeAcc_maybe_mono (i : Nat) : ∀ (rest : List St) (f : St),
    f.maybe.testBit i = true → (mergeAcc f rest).maybe.testBit i = true := by
  intro rest
  induction rest with
  | nil => intro f h; exact h
  | cons a r ih =>
    intro f h
    apply ih { scenes := f.scenes &&& a.scenes, maybe := (f.maybe ||| a.scenes) ||| a.maybe }
    simp [Nat.testBit_or, h]

theorem mergeAcc_covers (i : Nat) : ∀ (rest : List St) (f : St) (u : St), u ∈ rest →
    (u.scenes.testBit i = true ∨ u.maybe.testBit i = true) → (mergeAcc f rest).maybe.testBit i = true := by
  intro rest
  induction rest with
  | nil => intro f u hu; cases hu
  | cons a r ih =>
    intro f u hu hbit
    rcases List.mem_cons.mp hu with rfl | hu
    · apply mergeAcc_maybe_mono i r { scenes := f.scenes &&& u.scenes, maybe := (f.maybe ||| u.scenes) ||| u.maybe }
      rcases hbit with hb | hb <;> simp [Nat.testBit_or, hb]
    · exact ih _ u hu hbit

/-- every scene in one of the two sets of a merged state OTHER THAN THE FIRST is in one of the two sets of the merged state -/
theorem merge_covers_tail (f : St) (rest : List St) (u : St) (hu : u ∈ rest) (i : Nat)
    (h : u.scenes.testBit i = true ∨ u.maybe.testBit i = true) :
    (mergeStatesOld (f :: rest)).scenes.testBit i = true ∨ (mergeStatesOld (f :: rest)).maybe.testBit i = true := by
  rw [mergeStatesOld_cons]
  simp only [testBit_sdiff]
  have hm := mergeAcc_covers i rest f u hu h
  cases hs : (mergeAcc f rest).scenes.testBit i
  · right; simp [hm]
  · left; rfl

/-- … which fails for the FIRST state: merging `{0,1,2}` (first) with `{1,2,3}` gives `scenes = {1,2}`, `maybe = {3}`;
    scene 0 is in neither set of the merged state -/
theorem merge_first_lost :
    let m := mergeStatesOld [{ scenes := 7, maybe := 0 }, { scenes := 14, maybe := 0 }]
    m = { scenes := 6, maybe := 8 } ∧ m.scenes.testBit 0 = false ∧ m.maybe.testBit 0 = false := by decide

/-- the instance of case `talentsched | 4 5 1 1 0 0 4 1 1 0 1 19 1 0 0 1 18 1 1 1 0 16 1 0 1 1 2 1 1 1 1` (4 scenes of one
    day, 5 actors: cost 4 in scenes 0 1, cost 19 in 0 1 3, cost 18 in 0 3, cost 16 in 0 1 2, cost 2 in 0 2 3) -/
def witness : Tab :=
  tabOf 4 5 [[1, 1, 0, 0], [1, 1, 0, 1], [1, 0, 0, 1], [1, 1, 1, 0], [1, 0, 1, 1]] [4, 19, 18, 16, 2] [[1, 1, 1, 1]]

/-- `MergeOk` is false as shipped: on `witness`, after one scene, the exact states `{0,1,3}` (scene 2 shot; FIRST) and
    `{1,2,3}` (scene 0 shot) merge into `scenes = {1,3}`, `maybe = {2}` (scene 0 lost: taken as shot); the first state has a
    completion that costs 2, every completion of the merged state costs at least 20 -/
theorem merge_not_relaxation_of_first :
    mergeStatesOld [{ scenes := 11, maybe := 0 }, { scenes := 14, maybe := 0 }] = { scenes := 10, maybe := 4 } ∧
    validB witness 1 { scenes := 11, maybe := 0 } = true ∧ validB witness 1 { scenes := 14, maybe := 0 } = true ∧
    validB witness 1 { scenes := 10, maybe := 4 } = true ∧
    bestRem witness 1 { scenes := 11, maybe := 0 } = some (-2) ∧
    bestRem witness 1 { scenes := 10, maybe := 4 } = some (-20) ∧
    mergeOkAt witness 1 { scenes := 11, maybe := 0 } { scenes := 10, maybe := 4 } 0 0 = false := by decide

-- ------------------------------------------------------------------------------------------------------------------
-- statements (checked pointwise by the driver); all are proved in `TalentschedProofs*.lean`

/-- a well-formed instance: `k` rows of `n` flags, one cost ≥ 1 per actor, at least `n` durations ≥ 0 -/
structure TabOk (T : Tab) : Prop where
  npos : 1 ≤ T.n ∧ T.n ≤ 64 ∧ T.k ≤ 64
  flags : T.flags.length = T.k ∧ ∀ r ∈ T.flags, r.length = T.n
  cost : T.cost.length = T.k ∧ ∀ c ∈ T.cost, 1 ≤ c
  dur : T.n ≤ T.dur.length ∧ ∀ d ∈ T.dur, 0 ≤ d
  act : T.act = (List.range T.n).map (actOf T.k T.flags)

/-- `RubOk`: the rough upper bound (exact rational evaluation) dominates the value-to-go of every valid state of a depth.
    PROVED: `TalentschedProofsRubFull.rubAdmissibleStmt` (earlier partial result: `TalentschedProofsRub.rubAdmissible_partial`) -/
def RubAdmissibleStmt (T : Tab) : Prop :=
  TabOk T → ∀ (d : Nat) (s : St) (r : Int), validB T d s = true → rub? T s = some r → bestRem T d s ≤ (some r : EInt)

/-- `MergeOk` (potential form; `relax` is the identity) for the states OTHER THAN THE FIRST: the merged state is worth at
    least as much.  PROVED: `TalentschedProofs.mergeOkTailStmt` -/
def MergeOkTailStmt (T : Tab) : Prop :=
  TabOk T → ∀ (d : Nat) (f : St) (rest : List St) (u : St) (h : Int), u ∈ rest →
    (∀ w ∈ f :: rest, validB T d w = true) → bestRem T d u = some h →
    ∃ h', bestRem T d (mergeStatesOld (f :: rest)) = some h' ∧ h ≤ h'

/-- the merge that also makes the scenes of the first state optional (`maybe ∪= first.scenes` before the final difference) -/
def mergeSym : List St → St
  | [] => { scenes := 0, maybe := 0 }
  | f :: rest =>
    let m := mergeAcc f rest
    { scenes := m.scenes, maybe := sdiff (m.maybe ||| f.scenes) m.scenes }

/-- `MergeOk` for EVERY merged state, with the symmetric merge.  PROVED: `TalentschedProofs.mergeOkSymStmt` -/
def MergeOkSymStmt (T : Tab) : Prop :=
  TabOk T → ∀ (d : Nat) (X : List St) (u : St) (h : Int), u ∈ X →
    (∀ w ∈ X, validB T d w = true) → bestRem T d u = some h →
    ∃ h', bestRem T d (mergeSym X) = some h' ∧ h ≤ h'

/-- the DP model is exact: minus (the initial value + the value-to-go of the root) is the specification's minimum.
    PROVED: `TalentschedProofsExact.dpExactStmt` (prefix form: `DpExactPrefixStmt`, `dpExactPrefixStmt` there) -/
def DpExactStmt (T : Tab) : Prop :=
  TabOk T → (bestRem T 0 (initSt T)).addI (initVal T) = (specBestExt (specTable T) []).map (fun c => -c)

/-! ### the repaired merge (`mergeStates`): the first state is covered as well -/

theorem mergeStates_cons' (f : St) (rest : List St) :
    mergeStates (f :: rest) = mergeStatesOld ({ scenes := f.scenes, maybe := f.maybe ||| f.scenes } :: rest) := rfl

/-- on the witness of `merge_first_lost` the repaired merge keeps scene 0 possible -/
theorem merge_first_kept :
    mergeStates [{ scenes := 11, maybe := 0 }, { scenes := 14, maybe := 0 }] = { scenes := 10, maybe := 5 } := by decide

/-- a scene that the FIRST state may (`maybe`) still have to shoot is in one of the two sets of the merged state, whatever the
    merge (old or repaired): the accumulator starts from the first state's `maybe` and only grows -/
theorem mergeOld_covers_first_maybe (f : St) (rest : List St) (i : Nat) (h : f.maybe.testBit i = true) :
    (mergeStatesOld (f :: rest)).scenes.testBit i = true ∨ (mergeStatesOld (f :: rest)).maybe.testBit i = true := by
  rw [mergeStatesOld_cons]
  simp only [testBit_sdiff]
  have hm := mergeAcc_maybe_mono i rest f h
  cases hs : (mergeAcc f rest).scenes.testBit i
  · right; simp [hm]
  · left; rfl

/-- REPAIRED merge: every scene in one of the two sets of the FIRST merged state is in one of the two sets of the merged
    state (what `merge_first_lost` refutes for the merge as shipped before) -/
theorem merge_covers_first (f : St) (rest : List St) (i : Nat)
    (h : f.scenes.testBit i = true ∨ f.maybe.testBit i = true) :
    (mergeStates (f :: rest)).scenes.testBit i = true ∨ (mergeStates (f :: rest)).maybe.testBit i = true := by
  rw [mergeStates_cons']
  apply mergeOld_covers_first_maybe
  rcases h with h | h <;> simp [Nat.testBit_or, h]

/-- REPAIRED merge: every scene in one of the two sets of ANY merged state is in one of the two sets of the merged state -/
theorem merge_covers (X : List St) (u : St) (hu : u ∈ X) (i : Nat)
    (h : u.scenes.testBit i = true ∨ u.maybe.testBit i = true) :
    (mergeStates X).scenes.testBit i = true ∨ (mergeStates X).maybe.testBit i = true := by
  cases X with
  | nil => cases hu
  | cons f rest =>
    rcases List.mem_cons.mp hu with rfl | hu
    · exact merge_covers_first _ rest i h
    · rw [mergeStates_cons']
      exact merge_covers_tail _ rest u hu i h

/-- REPAIRED merge: the scenes that MUST be shot in the merged state must be shot in every merged state -/
theorem mergeStates_scenes_sub (X : List St) (i : Nat) (h : (mergeStates X).scenes.testBit i = true) :
    ∀ u ∈ X, u.scenes.testBit i = true := by
  cases X with
  | nil => intro u hu; cases hu
  | cons f rest =>
    rw [mergeStates_cons'] at h
    have h' := merge_scenes_sub _ i h
    intro u hu
    rcases List.mem_cons.mp hu with rfl | hu
    · exact h' { scenes := u.scenes, maybe := u.maybe ||| u.scenes } List.mem_cons_self
    · exact h' u (List.mem_cons_of_mem _ hu)

/-- REPAIRED merge: no scene is in both sets of a merged state -/
theorem mergeStates_disjoint (X : List St) (i : Nat) :
    ¬ ((mergeStates X).scenes.testBit i = true ∧ (mergeStates X).maybe.testBit i = true) := by
  cases X with
  | nil => simp [mergeStates]
  | cons f rest => rw [mergeStates_cons']; exact merge_disjoint _ i

/-- **`MergeOk`** (potential form, `Wf.lean`; `relax` is the identity) for the REPAIRED merge and EVERY merged state, the first
    included: a completion of a merged state `u` worth `h` is matched by a completion of `merge X` worth `h' ≥ h`.
    PROVED: `mergeOkStmt` (`TalentschedProofs.lean`), under `TabOk` (only: costs and durations are not negative). -/
def MergeOkStmt (T : Tab) : Prop :=
  TabOk T → ∀ (d : Nat) (X : List St) (u src : St) (dec : Dec) (c h : Int), u ∈ X →
    (∀ w ∈ X, validB T d w = true) → bestRem T d u = some h →
    ∃ h', bestRem T d (mergeStates X) = some h' ∧
      c + h ≤ (relaxation T).relax src u ((relaxation T).merge X) dec c + h'

end Ddo.Examples.TalentschedModel
