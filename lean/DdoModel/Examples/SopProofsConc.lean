import DdoModel.Examples.SopProofsMerge
/-! The exact states a (merged) state of the sop model stands for: the enumeration `concretize` of `SopDp.lean` is the
    predicate `Conc` (`mem_concretize_iff`), and the potential `hStar` (best value-to-go among them). -/
namespace Ddo.Examples.SopModel
open Ddo Ddo.Examples Ddo.Examples.Util

variable {T : Tab}

theorem mem_sublists {α : Type} : ∀ (l Y : List α), Y ∈ sublists l ↔ Y.Sublist l := by
  intro l
  induction l with
  | nil =>
    intro Y
    simp [sublists]
  | cons x xs ih =>
    intro Y
    simp only [sublists, List.mem_append, List.mem_map]
    constructor
    · rintro (h | ⟨Y', h, rfl⟩)
      · exact List.Sublist.cons _ ((ih Y).mp h)
      · exact List.Sublist.cons_cons _ ((ih Y').mp h)
    · intro h
      cases h with
      | cons _ h => exact Or.inl ((ih Y).mpr h)
      | cons_cons _ h => exact Or.inr ⟨_, (ih _).mpr h, rfl⟩

theorem foldl_max_specG {α : Type} (f : α → EInt) : ∀ (l : List α) (acc : EInt),
    acc ≤ l.foldl (fun a v => EInt.max a (f v)) acc ∧
    (∀ v ∈ l, f v ≤ l.foldl (fun a v => EInt.max a (f v)) acc) ∧
    (l.foldl (fun a v => EInt.max a (f v)) acc = acc ∨ ∃ v ∈ l, l.foldl (fun a v => EInt.max a (f v)) acc = f v) := by
  intro l
  induction l with
  | nil => intro acc; exact ⟨EInt.le_refl _, (fun v hv => by cases hv), Or.inl rfl⟩
  | cons x t ih =>
    intro acc
    obtain ⟨h1, h2, h3⟩ := ih (EInt.max acc (f x))
    rw [List.foldl_cons]
    refine ⟨EInt.le_trans (EInt.le_max_left _ _) h1, ?_, ?_⟩
    · intro v hv
      rcases List.mem_cons.mp hv with rfl | hv
      · exact EInt.le_trans (EInt.le_max_right _ _) h1
      · exact h2 v hv
    · rcases h3 with h3 | ⟨v, hv, h3⟩
      · rcases EInt.max_cases acc (f x) with h | h
        · left; rw [h3, h]
        · right; exact ⟨x, List.mem_cons_self, by rw [h3, h]⟩
      · right; exact ⟨v, List.mem_cons_of_mem _ hv, h3⟩

/-- membership in the enumeration, unfolded -/
theorem mem_concretize (s u : St) : u ∈ concretize T s ↔
    ∃ p, isPrev s p ∧ ∃ Y : List Nat, Y.Sublist (bits (mb s)) ∧ Y.length = nv T - s.depth - card s.must ∧
      (s.must ||| ofList Y).testBit p = false ∧
      u = { prev := .job p, must := s.must ||| ofList Y, maybe := none, depth := s.depth } := by
  unfold concretize
  simp only [List.mem_flatMap, List.mem_filterMap, List.mem_filter, mem_sublists, beq_iff_eq, has]
  constructor
  · rintro ⟨p, hp, Y, ⟨hY1, hY2⟩, hu⟩
    refine ⟨p, ?_, Y, hY1, hY2, ?_⟩
    · unfold isPrev
      cases hs : s.prev with
      | job i => rw [hs] at hp; simpa using hp
      | virt c => rw [hs] at hp; exact mem_bits.mp hp
    · cases hb : (s.must ||| ofList Y).testBit p with
      | true => simp [hb] at hu
      | false => simp [hb] at hu; exact ⟨rfl, hu.symm⟩
  · rintro ⟨p, hp, Y, hY1, hY2, hb, hu⟩
    refine ⟨p, ?_, Y, ⟨hY1, hY2⟩, ?_⟩
    · unfold isPrev at hp
      cases hs : s.prev with
      | job i => rw [hs] at hp; simp [hp]
      | virt c => rw [hs] at hp; exact mem_bits.mpr hp
    · simp [hb, hu]

theorem card_must_or (s : St) (hs : Inv T s) {Y : List Nat} (hY : Y.Sublist (bits (mb s))) :
    card (s.must ||| ofList Y) = card s.must + Y.length := by
  rw [card_union_disj, card_ofList Y (List.Nodup.sublist hY (bits_nodup _))]
  intro x hx
  rw [testBit_ofList]
  have := hs.disj x hx
  simp only [decide_eq_false_iff_not]
  intro hxY
  rw [mem_bits.mp (hY.subset hxY)] at this
  cases this

/-- **the enumeration `concretize` is the predicate `Conc`** (on the states with no more mandatory jobs than positions
    left, as `validB` demands; with more, the enumeration answers the state itself, which is no completion) -/
theorem mem_concretize_iff {s : St} (hs : Inv T s) (hc : card s.must ≤ nv T - s.depth) (u : St) :
    u ∈ concretize T s ↔ Conc T s u := by
  rw [mem_concretize]
  constructor
  · rintro ⟨p, hp, Y, hY1, hY2, hb, rfl⟩
    refine ⟨⟨p, rfl, hp, hb⟩, rfl, rfl, ?_, ?_, ?_⟩
    · intro x hx
      show (s.must ||| ofList Y).testBit x = true
      rw [Nat.testBit_or, hx]; rfl
    · intro x hx
      have hx' : (s.must ||| ofList Y).testBit x = true := hx
      rw [Nat.testBit_or, Bool.or_eq_true, testBit_ofList] at hx'
      rcases hx' with h | h
      · exact Or.inl h
      · exact Or.inr (mem_bits.mp (hY1.subset (by simpa using h)))
    · show card (s.must ||| ofList Y) = _
      rw [card_must_or s hs hY1, hY2]
      omega
  · intro h
    obtain ⟨p, hp1, hp2, hp3⟩ := h.prev
    let Y := (bits (mb s)).filter u.must.testBit
    have hY1 : Y.Sublist (bits (mb s)) := List.filter_sublist
    have hU : s.must ||| ofList Y = u.must := by
      apply Nat.eq_of_testBit_eq
      intro x
      rw [Nat.testBit_or, testBit_ofList]
      cases hx : u.must.testBit x with
      | true =>
        rcases h.hi x hx with h1 | h1
        · rw [h1]; rfl
        · have : x ∈ Y := List.mem_filter.mpr ⟨mem_bits.mpr h1, hx⟩
          simp [this]
      | false =>
        have h1 : s.must.testBit x = false := by
          cases h1 : s.must.testBit x with
          | false => rfl
          | true => rw [h.lo x h1] at hx; cases hx
        have h2 : x ∉ Y := fun hm => by rw [(List.mem_filter.mp hm).2] at hx; cases hx
        simp [h1, h2]
    have hcard := card_must_or s hs hY1
    rw [hU, h.card] at hcard
    refine ⟨p, hp2, Y, hY1, by omega, by rw [hU]; exact hp3, ?_⟩
    rw [hU]
    cases u with
    | mk pr mu ma de =>
      have e1 : pr = .job p := hp1
      have e2 : ma = none := h.maybe
      have e3 : de = s.depth := h.depth
      subst e1 e2 e3
      rfl

/-- the potential: the best value-to-go among the exact states `s` stands for (`none` when `s` has more mandatory jobs than
    positions left: it stands for no exact state) -/
def hStar (T : Tab) (s : St) : EInt := if card s.must ≤ nv T - s.depth then bestRemConc T s else none

theorem conc_card_must_le {s u : St} (hc : Conc T s u) : card s.must ≤ nv T - s.depth := by
  rw [← hc.card]
  exact card_mono hc.lo

theorem hStar_ge {s u : St} (hs : Inv T s) (hc : Conc T s u) : bestRem T u ≤ hStar T s := by
  unfold hStar bestRemConc
  rw [if_pos (conc_card_must_le hc)]
  exact (foldl_max_specG (bestRem T) (concretize T s) none).2.1 u
    ((mem_concretize_iff hs (conc_card_must_le hc) u).mpr hc)

theorem hStar_att {s : St} (hs : Inv T s) {h : Int} (hh : hStar T s = some h) :
    ∃ u, Conc T s u ∧ bestRem T u = some h := by
  unfold hStar at hh
  split at hh
  · rename_i hc
    unfold bestRemConc at hh
    rcases (foldl_max_specG (bestRem T) (concretize T s) none).2.2 with h3 | ⟨u, hu, h3⟩
    · rw [h3] at hh; cases hh
    · exact ⟨u, (mem_concretize_iff hs hc u).mp hu, by rw [← h3]; exact hh⟩
  · cases hh

/-- on the states `validB` accepts the potential is `bestRemConc` -/
theorem hStar_eq_of_validB {s : St} (h : validB T s = true) : hStar T s = bestRemConc T s := by
  unfold hStar
  rw [if_pos]
  unfold validB at h
  simp only [Bool.and_eq_true, decide_eq_true_eq] at h
  exact h.1.2

/-- a bound on the value-to-go of every exact state `s` stands for bounds `bestRemConc` -/
theorem bestRemConc_le {s : St} (hT : TabOk T) (hv : validB T s = true) {r : Int}
    (h : ∀ u, Conc T s u → bestRem T u ≤ some r) : bestRemConc T s ≤ some r := by
  rw [← hStar_eq_of_validB hv]
  cases hh : hStar T s with
  | none => exact EInt.none_le _
  | some g =>
    obtain ⟨u, hu, hg⟩ := hStar_att (inv_of_validB hT hv) hh
    rw [← hg]; exact h u hu

end Ddo.Examples.SopModel
