import DdoModel.WfRel
import DdoModel.Examples.Knapsack
import DdoModel.Examples.KnapsackDp
import DdoModel.Props.C06
/-! The DP model of the shipped knapsack example (`ddo/examples/knapsack/main.rs`) in Lean, and the proof that it is
    well formed relative to the layer-validity predicate "the depth stored in the state is the depth of the layer"
    (`WfRel`), hence (`Ddo.C06.relaxed_ub_rel_dom`) that a relaxed compilation of it reports an upper bound on the true
    optimum `Ddo.Examples.Knapsack.best`.

Mirror of the Rust code (state = `(depth, capacity)`):
* `order` is the permutation of the items computed by `Knapsack::new` (`sort_unstable_by_key` on the `f64` ratio
  `-profit/weight`): a **parameter** here; what is needed of it is stated as hypotheses (`Perm`, `Sorted`);
* `next_variable depth _ = if depth < n then Some(order[depth]) else None`, modelled as `order[depth]?` (the same when
  `order.length = n`, which `Perm` gives);
* domain `[1, 0]` if `capacity ≥ weight[var]`, else `[0]` (call order of `for_each_in_domain`);
* transition: `depth + 1`, capacity minus the weight when the value is `1`; cost `profit[var] * value`;
* `merge` = `max_by_key(capacity)`: the **last** maximal state in iteration order (as `Iterator::max_by_key`);
  `[]` (an `unwrap` panic in Rust) is mapped to `(0, 0)`; `relax` = the cost unchanged;
* `fast_upper_bound`: the fractional (Dantzig) bound following `order` from `state.depth` (exact integer arithmetic, as the
  code since fix 4f57927).  Definitions: `KnapsackDp.lean`. -/
namespace Ddo.Examples.KnapsackModel
open Ddo Ddo.Examples

variable (I : Inst)

/-! ## `merge` -/

theorem fold_max (r : List St) (s : St) :
    (r.foldl (fun best t => if best.2 ≤ t.2 then t else best) s) ∈ s :: r ∧
    s.2 ≤ (r.foldl (fun best t => if best.2 ≤ t.2 then t else best) s).2 ∧
    ∀ u ∈ r, u.2 ≤ (r.foldl (fun best t => if best.2 ≤ t.2 then t else best) s).2 := by
  induction r generalizing s with
  | nil => exact ⟨List.mem_cons_self, Nat.le_refl _, fun u hu => by cases hu⟩
  | cons t r ih =>
    rw [List.foldl_cons]
    by_cases hc : s.2 ≤ t.2
    · rw [if_pos hc]
      obtain ⟨h1, h2, h3⟩ := ih t
      refine ⟨List.mem_cons_of_mem _ h1, by omega, fun u hu => ?_⟩
      rcases List.mem_cons.mp hu with rfl | hu
      · exact h2
      · exact h3 u hu
    · rw [if_neg hc]
      obtain ⟨h1, h2, h3⟩ := ih s
      refine ⟨?_, h2, fun u hu => ?_⟩
      · rcases List.mem_cons.mp h1 with h | h
        · rw [h]; exact List.mem_cons_self
        · exact List.mem_cons_of_mem _ (List.mem_cons_of_mem _ h)
      · rcases List.mem_cons.mp hu with rfl | hu
        · omega
        · exact h3 u hu

theorem merge_mem {X : List St} (hX : X ≠ []) : mergeStates X ∈ X := by
  cases X with
  | nil => exact absurd rfl hX
  | cons s r => exact (fold_max r s).1

theorem merge_max {X : List St} : ∀ u ∈ X, u.2 ≤ (mergeStates X).2 := by
  cases X with
  | nil => intro u hu; cases hu
  | cons s r =>
    intro u hu
    rcases List.mem_cons.mp hu with rfl | hu
    · exact (fold_max r u).2.1
    · exact (fold_max r s).2.2 u hu

/-! ## `best` -/

theorem best_nil (c : Nat) : Knapsack.best c [] = 0 := by simp [Knapsack.best]

theorem best_cons (c : Nat) (p : Int) (w : Nat) (rest : List (Int × Nat)) :
    Knapsack.best c ((p, w) :: rest) =
      if w ≤ c then max (Knapsack.best c rest) (p + Knapsack.best (c - w) rest) else Knapsack.best c rest := by
  simp [Knapsack.best]

/-- more capacity never hurts -/
theorem best_mono (items : List (Int × Nat)) : ∀ {c c' : Nat}, c ≤ c' → Knapsack.best c items ≤ Knapsack.best c' items := by
  induction items with
  | nil => intro c c' _; rw [best_nil, best_nil]; exact Int.le_refl _
  | cons it rest ih =>
    obtain ⟨p, w⟩ := it
    intro c c' h
    rw [best_cons, best_cons]
    have h1 := ih h
    by_cases hw : w ≤ c
    · have hw' : w ≤ c' := by omega
      have h2 := ih (show c - w ≤ c' - w by omega)
      rw [if_pos hw, if_pos hw']; omega
    · rw [if_neg hw]
      split <;> omega

/-! ## well-formedness relative to `V` -/

theorem itemsFrom_cons {k x : Nat} (h : I.order[k]? = some x) :
    I.itemsFrom k = (I.p x, I.w x) :: I.itemsFrom (k + 1) := by
  unfold Inst.itemsFrom
  obtain ⟨hlt, hx⟩ := List.getElem?_eq_some_iff.mp h
  rw [List.drop_eq_getElem_cons hlt, List.map_cons, hx]

theorem itemsFrom_nil {k : Nat} (h : I.order[k]? = none) : I.itemsFrom k = [] := by
  unfold Inst.itemsFrom
  rw [List.drop_eq_nil_of_le (List.getElem?_eq_none_iff.mp h)]; rfl

/-- the rough upper bound is admissible: it dominates the best profit of the remaining items -/
def RubAdmissible : Prop := ∀ k c, Knapsack.best c (I.itemsFrom k) ≤ dantzig (I.itemsFrom k) c

/-- `att` on any valid state (no membership in the layer needed) -/
theorem attV (k : Nat) (L : List St) (x : Nat) (s : St) (h : Int)
    (hnv : (problem I).nextVar k L = some x) (hV : V k s) (hH : H I k s = some h) :
    ∃ d ∈ (problem I).domain x s, ∃ h', H I (k + 1) ((problem I).trans s ⟨x, d⟩) = some h' ∧
      h ≤ (problem I).cost s ((problem I).trans s ⟨x, d⟩) ⟨x, d⟩ + h' := by
  obtain ⟨dp, c⟩ := s
  simp only [V] at hV
  subst hV
  have hx : I.order[dp]? = some x := hnv
  simp only [H, if_true, Option.some.injEq] at hH
  rw [itemsFrom_cons I hx, best_cons] at hH
  simp only [problem, H]
  by_cases hw : I.w x ≤ c
  · rw [if_pos hw] at hH ⊢
    by_cases ht : Knapsack.best c (I.itemsFrom (dp + 1)) ≤ I.p x + Knapsack.best (c - I.w x) (I.itemsFrom (dp + 1))
    · exact ⟨1, by simp, Knapsack.best (c - I.w x) (I.itemsFrom (dp + 1)), by simp, by simp; omega⟩
    · exact ⟨0, by simp, Knapsack.best c (I.itemsFrom (dp + 1)), by simp, by simp; omega⟩
  · rw [if_neg hw] at hH ⊢
    exact ⟨0, by simp, Knapsack.best c (I.itemsFrom (dp + 1)), by simp, by simp; omega⟩

theorem vstepV (k : Nat) (x : Nat) (s : St) (d : Int) (hV : V k s) : V (k + 1) ((problem I).trans s ⟨x, d⟩) := by
  simp only [V, problem] at *; omega

theorem wfRel (hadm : RubAdmissible I) : WfRel (problem I) (relaxation I) (H I) V where
  vstep := fun k L x s d _ _ hV _ => vstepV I k x s d hV
  vstepMerge := fun k L x X d _ hX _ hXV _ => vstepV I k x _ d (hXV _ (merge_mem hX))
  vmerge := fun k X hX hXV => hXV _ (merge_mem hX)
  att := fun k L x s h hnv _ hV hH => attV I k L x s h hnv hV hH
  attMerge := fun k L x X h hnv hX _ hXV hH => attV I k L x _ h hnv (hXV _ (merge_mem hX)) hH
  term := by
    intro k L s h hnv _ hV hH
    have hx : I.order[k]? = none := hnv
    simp only [V] at hV
    simp only [H, hV, if_true, Option.some.injEq] at hH
    rw [itemsFrom_nil I hx, best_nil] at hH
    omega
  rub := by
    intro k s h hV hH
    simp only [V] at hV
    simp only [H, hV, if_true, Option.some.injEq] at hH
    simp only [relaxation, hV]
    rw [← hH]; exact hadm k s.2
  merge := by
    intro k X u src d c h hu hXV hH
    have hX : X ≠ [] := List.ne_nil_of_mem hu
    have hm : V k (mergeStates X) := hXV _ (merge_mem hX)
    have hVu : V k u := hXV u hu
    simp only [V] at hm hVu
    simp only [H, hVu, if_true, Option.some.injEq] at hH
    refine ⟨Knapsack.best (mergeStates X).2 (I.itemsFrom k), by simp [H, relaxation, hm], ?_⟩
    have := best_mono (I.itemsFrom k) (merge_max u hu)
    simp only [relaxation]
    omega

/-! ## the potential of the root is the specification `Knapsack.best` -/

/-- the optimum does not depend on the order of the items -/
theorem best_perm {l l' : List (Int × Nat)} (h : l.Perm l') : ∀ c, Knapsack.best c l = Knapsack.best c l' := by
  induction h with
  | nil => intro c; rfl
  | cons x _ ih =>
    intro c
    obtain ⟨p, w⟩ := x
    rw [best_cons, best_cons, ih c, ih (c - w)]
  | swap x y l =>
    intro c
    obtain ⟨p, w⟩ := x
    obtain ⟨q, v⟩ := y
    simp only [best_cons]
    have e : c - w - v = c - v - w := by omega
    rw [e]
    by_cases h1 : w ≤ c <;> by_cases h2 : v ≤ c <;> by_cases h3 : v ≤ c - w <;> by_cases h4 : w ≤ c - v <;>
      simp only [h1, h2, h3, h4, if_true, if_false] <;> omega
  | trans _ _ ih1 ih2 => intro c; rw [ih1 c, ih2 c]

theorem items_identity (hlen : I.weight.length = I.profit.length) :
    (List.range I.profit.length).map (fun i => (I.p i, I.w i)) = I.profit.zip I.weight := by
  apply List.ext_getElem
  · simp [hlen]
  · intro i h1 h2
    simp only [List.length_map, List.length_range] at h1
    have hw : i < I.weight.length := by omega
    simp only [List.getElem_map, List.getElem_range, List.getElem_zip, Inst.p, Inst.w,
      List.getElem?_eq_getElem h1, List.getElem?_eq_getElem hw, Option.getD_some]

theorem itemsFrom_zero (hperm : I.order.Perm (List.range I.profit.length)) (hlen : I.weight.length = I.profit.length) :
    (I.itemsFrom 0).Perm (I.profit.zip I.weight) := by
  unfold Inst.itemsFrom
  rw [List.drop_zero, ← items_identity I hlen]
  exact hperm.map _

/-- the potential of the root state is the exhaustive specification of the optimum -/
theorem H_root (hperm : I.order.Perm (List.range I.profit.length)) (hlen : I.weight.length = I.profit.length) :
    H I 0 (0, I.capacity) = some (Knapsack.best I.capacity (I.profit.zip I.weight)) := by
  simp only [H, if_true]
  rw [best_perm (itemsFrom_zero I hperm hlen)]

/-! ## admissibility of the Dantzig bound -/

/-- the ratio `p / w` dominates the ratio of every item of the list (cross-multiplied) -/
def Dom (p : Int) (w : Nat) (items : List (Int × Nat)) : Prop := ∀ it ∈ items, it.1 * (w : Int) ≤ p * (it.2 : Int)

/-- items by non-increasing profit/weight ratio (cross-multiplied: no division) -/
def Sorted (items : List (Int × Nat)) : Prop :=
  items.Pairwise (fun a b => b.1 * (a.2 : Int) ≤ a.1 * (b.2 : Int))

instance (items : List (Int × Nat)) : Decidable (Sorted items) := by unfold Sorted; exact inferInstance

def PosW (items : List (Int × Nat)) : Prop := ∀ it ∈ items, 0 < it.2
def NonnegP (items : List (Int × Nat)) : Prop := ∀ it ∈ items, 0 ≤ it.1

theorem dantzig_nil (c : Nat) : dantzig [] c = 0 := by simp [dantzig]

/-- with a positive weight the test `capacity > 0` of the loop is subsumed by the formula -/
theorem dantzig_cons (p : Int) (w : Nat) (rest : List (Int × Nat)) (c : Nat) (hw : 0 < w) :
    dantzig ((p, w) :: rest) c = if w ≤ c then p + dantzig rest (c - w) else ((c : Int) * p) / (w : Int) := by
  simp only [dantzig]
  by_cases hc : c = 0
  · subst hc
    have : ¬ w ≤ 0 := by omega
    simp [this]
  · simp [hc]

theorem cancel_right {a b w : Int} (hw : 0 < w) (h : a * w ≤ b * w) : a ≤ b := Int.le_of_mul_le_mul_right h hw

/-- value ≤ capacity × dominating ratio, for the exact optimum -/
theorem best_ratio (p : Int) (w : Nat) (hp : 0 ≤ p) (items : List (Int × Nat)) (hd : Dom p w items) :
    ∀ c : Nat, Knapsack.best c items * (w : Int) ≤ (c : Int) * p := by
  induction items with
  | nil =>
    intro c; rw [best_nil]
    have : 0 ≤ (c : Int) * p := Int.mul_nonneg (by omega) hp
    omega
  | cons it rest ih =>
    obtain ⟨q, v⟩ := it
    intro c
    have hq : q * (w : Int) ≤ p * (v : Int) := hd (q, v) List.mem_cons_self
    have ih' := ih (fun it h => hd it (List.mem_cons_of_mem _ h))
    rw [best_cons]
    have hskip := ih' c
    by_cases hv : v ≤ c
    · rw [if_pos hv]
      have htake := ih' (c - v)
      have hcv : ((c - v : Nat) : Int) = (c : Int) - (v : Int) := by omega
      rw [hcv] at htake
      have e : (q + Knapsack.best (c - v) rest) * (w : Int) ≤ (c : Int) * p := by grind
      rcases Int.le_total (Knapsack.best c rest) (q + Knapsack.best (c - v) rest) with h | h
      · rw [Int.max_eq_right h]; exact e
      · rw [Int.max_eq_left h]; exact hskip
    · rw [if_neg hv]; exact hskip

/-- the same for the Dantzig bound -/
theorem dantzig_ratio (p : Int) (w : Nat) (hw : 0 < w) (hp : 0 ≤ p) (items : List (Int × Nat)) (hd : Dom p w items)
    (hpos : PosW items) : ∀ c : Nat, dantzig items c * (w : Int) ≤ (c : Int) * p := by
  induction items with
  | nil =>
    intro c; rw [dantzig_nil]
    have : 0 ≤ (c : Int) * p := Int.mul_nonneg (by omega) hp
    omega
  | cons it rest ih =>
    obtain ⟨q, v⟩ := it
    intro c
    have hv0 : 0 < v := hpos (q, v) List.mem_cons_self
    have hq : q * (w : Int) ≤ p * (v : Int) := hd (q, v) List.mem_cons_self
    have ih' := ih (fun it h => hd it (List.mem_cons_of_mem _ h)) (fun it h => hpos it (List.mem_cons_of_mem _ h))
    rw [dantzig_cons q v rest c hv0]
    by_cases hv : v ≤ c
    · rw [if_pos hv]
      have htake := ih' (c - v)
      have hcv : ((c - v : Nat) : Int) = (c : Int) - (v : Int) := by omega
      rw [hcv] at htake
      grind
    · rw [if_neg hv]
      have hf : (c : Int) * q / (v : Int) * (v : Int) ≤ (c : Int) * q := Int.ediv_mul_le _ (by omega)
      have a := Int.mul_le_mul_of_nonneg_right hf (show (0 : Int) ≤ (w : Int) by omega)
      have b := Int.mul_le_mul_of_nonneg_left hq (show (0 : Int) ≤ (c : Int) by omega)
      apply cancel_right (show (0 : Int) < (v : Int) by omega)
      grind

/-- the Dantzig bound grows by at most `p` when the capacity grows by `w`, if `p / w` dominates every ratio -/
theorem dantzig_lip (p : Int) (w : Nat) (hw : 0 < w) (hp : 0 ≤ p) (items : List (Int × Nat)) (hd : Dom p w items)
    (hpos : PosW items) : ∀ c : Nat, w ≤ c → dantzig items c ≤ dantzig items (c - w) + p := by
  induction items with
  | nil => intro c _; rw [dantzig_nil, dantzig_nil]; omega
  | cons it rest ih =>
    obtain ⟨p1, w1⟩ := it
    intro c hwc
    have hw1 : 0 < w1 := hpos (p1, w1) List.mem_cons_self
    have hq : p1 * (w : Int) ≤ p * (w1 : Int) := hd (p1, w1) List.mem_cons_self
    have hd' : Dom p w rest := fun it h => hd it (List.mem_cons_of_mem _ h)
    have hpos' : PosW rest := fun it h => hpos it (List.mem_cons_of_mem _ h)
    have ih' := ih hd' hpos'
    rw [dantzig_cons p1 w1 rest c hw1, dantzig_cons p1 w1 rest (c - w) hw1]
    have hcw : ((c - w : Nat) : Int) = (c : Int) - (w : Int) := by omega
    by_cases h1 : w1 ≤ c
    · rw [if_pos h1]
      by_cases h2 : w1 ≤ c - w
      · rw [if_pos h2]
        have := ih' (c - w1) (by omega)
        have e : c - w1 - w = c - w - w1 := by omega
        rw [e] at this
        omega
      · rw [if_neg h2]
        -- p1 + D(c - w1) ≤ ⌊(c - w) p1 / w1⌋ + p
        have hB := dantzig_ratio p w hw hp rest hd' hpos' (c - w1)
        have hcw1 : ((c - w1 : Nat) : Int) = (c : Int) - (w1 : Int) := by omega
        rw [hcw1] at hB
        have key : p1 + dantzig rest (c - w1) - p ≤ ((c - w : Nat) : Int) * p1 / (w1 : Int) := by
          rw [Int.le_ediv_iff_mul_le (by omega), hcw]
          apply cancel_right (show (0 : Int) < (w : Int) by omega)
          have a := Int.mul_le_mul_of_nonneg_right hB (show (0 : Int) ≤ (w1 : Int) by omega)
          have b : 0 ≤ (p * (w1 : Int) - p1 * (w : Int)) * ((w : Int) + (w1 : Int) - (c : Int)) :=
            Int.mul_nonneg (by omega) (by omega)
          grind
        omega
    · rw [if_neg h1, if_neg (by omega)]
      have hf : (c : Int) * p1 / (w1 : Int) * (w1 : Int) ≤ (c : Int) * p1 := Int.ediv_mul_le _ (by omega)
      have key : (c : Int) * p1 / (w1 : Int) - p ≤ ((c - w : Nat) : Int) * p1 / (w1 : Int) := by
        rw [Int.le_ediv_iff_mul_le (by omega), hcw]
        grind
      omega

theorem dantzig_adm (items : List (Int × Nat)) (hs : Sorted items) (hpos : PosW items) (hnn : NonnegP items) :
    ∀ c : Nat, Knapsack.best c items ≤ dantzig items c := by
  induction items with
  | nil => intro c; rw [best_nil, dantzig_nil]; exact Int.le_refl _
  | cons it rest ih =>
    obtain ⟨p1, w1⟩ := it
    intro c
    have hw1 : 0 < w1 := hpos (p1, w1) List.mem_cons_self
    have hp1 : 0 ≤ p1 := hnn (p1, w1) List.mem_cons_self
    have hpos' : PosW rest := fun it h => hpos it (List.mem_cons_of_mem _ h)
    obtain ⟨hdom, hs'⟩ := List.pairwise_cons.mp hs
    have hd : Dom p1 w1 rest := fun it h => hdom it h
    have ih' := ih hs' hpos' (fun it h => hnn it (List.mem_cons_of_mem _ h))
    rw [best_cons, dantzig_cons p1 w1 rest c hw1]
    by_cases h1 : w1 ≤ c
    · rw [if_pos h1, if_pos h1]
      have a := ih' c
      have b := ih' (c - w1)
      have l := dantzig_lip p1 w1 hw1 hp1 rest hd hpos' c h1
      omega
    · rw [if_neg h1, if_neg h1]
      rw [Int.le_ediv_iff_mul_le (by omega)]
      exact best_ratio p1 w1 hp1 rest hd c

theorem sorted_drop {items : List (Int × Nat)} (h : Sorted items) (k : Nat) : Sorted (items.drop k) :=
  List.Pairwise.sublist (List.drop_sublist k items) h

theorem itemsFrom_eq_drop (k : Nat) : I.itemsFrom k = (I.itemsFrom 0).drop k := by
  unfold Inst.itemsFrom
  rw [List.drop_zero, List.map_drop]

/-- the rough upper bound of the example is admissible when `order` lists the items by non-increasing profit / weight
    ratio (what `Knapsack::new` computes, up to the `f64` rounding of the ratios), weights are positive (with a
    zero-weight item of positive profit the bound is **not** admissible: the loop stops as soon as the capacity is 0)
    and profits are non-negative -/
theorem rubAdmissible (hs : Sorted (I.itemsFrom 0)) (hpos : PosW (I.itemsFrom 0)) (hnn : NonnegP (I.itemsFrom 0)) :
    RubAdmissible I := by
  intro k c
  rw [itemsFrom_eq_drop]
  exact dantzig_adm _ (sorted_drop hs k) (fun it h => hpos it (List.mem_of_mem_drop h))
    (fun it h => hnn it (List.mem_of_mem_drop h)) c

/-! ## the corollary: a relaxed compilation of the example bounds the true optimum -/

theorem best_le_len (B : Int) (hB0 : 0 ≤ B) (items : List (Int × Nat)) (hb : ∀ it ∈ items, it.1 ≤ B) :
    ∀ c : Nat, Knapsack.best c items ≤ (items.length : Int) * B := by
  induction items with
  | nil => intro c; rw [best_nil]; simp
  | cons it rest ih =>
    obtain ⟨q, v⟩ := it
    intro c
    have hq : q ≤ B := hb (q, v) List.mem_cons_self
    have ih' := ih (fun it h => hb it (List.mem_cons_of_mem _ h))
    have e : (((q, v) :: rest).length : Int) * B = (rest.length : Int) * B + B := by
      rw [List.length_cons]; grind
    rw [best_cons, e]
    have a := ih' c
    have b := ih' (c - v)
    split <;> omega

/-- the members of `itemsFrom 0` are items of the instance -/
theorem mem_itemsFrom_zero (hperm : I.order.Perm (List.range I.profit.length)) (hlen : I.weight.length = I.profit.length)
    (it : Int × Nat) (h : it ∈ I.itemsFrom 0) : it.1 ∈ I.profit ∧ it.2 ∈ I.weight := by
  unfold Inst.itemsFrom at h
  rw [List.drop_zero] at h
  obtain ⟨i, hi, rfl⟩ := List.mem_map.mp h
  have hi' : i < I.profit.length := List.mem_range.mp (hperm.mem_iff.mp hi)
  have hw : i < I.weight.length := by omega
  simp only [Inst.p, Inst.w, List.getElem?_eq_getElem hi', List.getElem?_eq_getElem hw, Option.getD_some]
  exact ⟨List.getElem_mem _, List.getElem_mem _⟩

theorem p_bound (B : Int) (hB0 : 0 ≤ B) (hb : ∀ q ∈ I.profit, 0 ≤ q ∧ q ≤ B) (i : Nat) : 0 ≤ I.p i ∧ I.p i ≤ B := by
  unfold Inst.p
  cases h : I.profit[i]? with
  | none => simp; exact hB0
  | some q => simp; exact hb q (List.mem_of_getElem? h)

theorem noClampDom (B : Int) (hB0 : 0 ≤ B) (hb : ∀ q ∈ I.profit, 0 ≤ q ∧ q ≤ B)
    (hsmall : ((I.profit.length : Int) + 2) * B ≤ 4611686018427387904) :
    NoClampDom (problem I) (relaxation I) 0 B where
  nonneg := hB0
  root := by omega
  cost := by
    intro x s d hd
    have hp := p_bound I B hB0 hb x
    simp only [problem] at hd ⊢
    have hd' : d = 1 ∨ d = 0 := by
      split at hd
      · simpa using hd
      · right; simpa using hd
    rcases hd' with rfl | rfl
    · rw [Int.mul_one]; omega
    · rw [Int.mul_zero]; omega
  relax := fun _ _ _ _ _ hc => hc
  small := hsmall

/-- **The shipped knapsack example**: a relaxed compilation of its model from the root (no cache, no dominance
    checker, width ≥ 1, any incumbent `lb` that the optimum beats) reports a best value that is at least the true
    optimum — the exhaustive specification `Knapsack.best capacity (profit.zip weight)`.

    Hypotheses on the instance: `order` is a permutation of the items (`hperm`) by non-increasing profit / weight ratio
    (`hsorted`, cross-multiplied; needed for the admissibility of the Dantzig rough upper bound), one weight per item,
    positive weights, profits in `[0, B]` with `(n + 2) · B ≤ 2^62` (no `isize` saturation). -/
theorem knapsack_relaxed_ub {K : Type} [DecidableEq K] (cfg : Cfg St K) (B : Int)
    (cache : Cache St) (store : DomStore St K) (polls : Nat)
    (hP : cfg.P = problem I) (hR : cfg.R = relaxation I)
    (hrs : cfg.root.state = (0, I.capacity)) (hrv : cfg.root.value = 0) (hrd : cfg.root.depth = 0)
    (hrel : cfg.ctype = .relaxed) (hcache : cfg.useCache = false) (hdom : cfg.dom = none) (hW : 1 ≤ cfg.width)
    (hperm : I.order.Perm (List.range I.profit.length)) (hlen : I.weight.length = I.profit.length)
    (hsorted : Sorted (I.itemsFrom 0)) (hposw : ∀ w ∈ I.weight, 0 < w)
    (hb : ∀ q ∈ I.profit, 0 ≤ q ∧ q ≤ B) (hB0 : 0 ≤ B)
    (hsmall : ((I.profit.length : Int) + 2) * B ≤ 4611686018427387904)
    (hlb : InI cfg.lb) (hgt : Knapsack.best I.capacity (I.profit.zip I.weight) > cfg.lb) :
    (compile cfg cache store polls none).1 = .ok →
    ∃ bv, (compile cfg cache store polls none).2.1.bestValue = some bv ∧
      Knapsack.best I.capacity (I.profit.zip I.weight) ≤ bv := by
  have hadm : RubAdmissible I := rubAdmissible I hsorted
    (fun it h => hposw _ (mem_itemsFrom_zero I hperm hlen it h).2)
    (fun it h => (hb _ (mem_itemsFrom_zero I hperm hlen it h).1).1)
  have hO : Knapsack.best I.capacity (I.profit.zip I.weight) ≤ iMax := by
    have h1 := best_le_len B hB0 (I.profit.zip I.weight)
      (fun it h => (hb it.1 (List.of_mem_zip h).1).2) I.capacity
    have h2 : ((I.profit.zip I.weight).length : Int) ≤ (I.profit.length : Int) + 2 := by
      rw [List.length_zip]; omega
    have h3 := Int.mul_le_mul_of_nonneg_right h2 hB0
    simp only [iMax]; omega
  refine C06.relaxed_ub_rel_dom cfg (H I) V B cache store polls hrel hcache hdom hW ?_ ?_ ?_ hlb _ ?_ hgt (Or.inl hO)
  · rw [hP, hR]; exact wfRel I hadm
  · rw [hrd, hrs]; rfl
  · rw [hP, hR, hrv]; exact noClampDom I B hB0 hb hsmall
  · unfold optOf
    rw [hrd, hrs, hrv, H_root I hperm hlen]
    simp [EInt.addI]

/-! ## non-vacuity: a concrete instance (non-trivial `order`, width 2: merges happen) -/
namespace Demo

/-- 4 items (profit, weight) = (4,4) (6,2) (5,3) (3,3), capacity 7; ratios 1, 3, 5/3, 1: `order = [1, 2, 0, 3]` -/
def inst : Inst := { capacity := 7, profit := [4, 6, 5, 3], weight := [4, 2, 3, 3], order := [1, 2, 0, 3] }

def cfg : Cfg St Unit :=
  { P := problem inst, R := relaxation inst, rank := ⟨fun a b => icmp (a.2 : Int) (b.2 : Int)⟩, dom := none,
    useCache := false, kind := .lel, ctype := .relaxed, width := 2, root := ⟨(0, 7), 0, [], iMax, 0⟩, lb := 0 }

example : ∃ bv, (compile cfg (Cache.init 4) (DomStore.init 4) 0 none).2.1.bestValue = some bv ∧
    Knapsack.best 7 [(4, 4), (6, 2), (5, 3), (3, 3)] ≤ bv :=
  knapsack_relaxed_ub inst cfg 6 (Cache.init 4) (DomStore.init 4) 0 rfl rfl rfl rfl rfl rfl rfl rfl (by decide)
    (by decide) rfl (by decide) (by decide) (by decide) (by decide) (by decide) (by decide) (by decide) (by decide)

end Demo

end Ddo.Examples.KnapsackModel
