import DdoModel.Examples.LcsModel
/-! `DominanceOkStmt` of the lcs example follows from `BestRemAntitoneStmt` (`LcsModel.lean`): a verdict of the default
    `partial_cmp` on the coordinates `-position` and the value orders the positions pointwise (the other way round) and the
    values, and the value-to-go is antitone in the positions. -/
namespace Ddo.Examples.LcsModel
open Ddo Ddo.Examples Ddo.Examples.Util

/-- adding ordered values to ordered extended integers -/
theorem addI_le_addI {x y : EInt} {va vb : Int} (h : x ≤ y) (hv : va ≤ vb) : x.addI va ≤ y.addI vb := by
  cases x with
  | none => simp [EInt.addI]
  | some p =>
    cases y with
    | none => exact absurd h (by simp)
    | some q =>
      have hpq : p ≤ q := h
      show ((some (p + va) : EInt) ≤ some (q + vb))
      simp only [EInt.some_le_some]
      omega

theorem icompare_cases (a b : Int) :
    (icompare a b = .lt ∧ a < b) ∨ (icompare a b = .eq ∧ a = b) ∨ (icompare a b = .gt ∧ b < a) := by
  unfold icompare
  by_cases h1 : a < b
  · simp [h1]
  · by_cases h2 : a = b
    · simp [h2]
    · simp [h1, h2]; omega

/-- pointwise `≤` on the common indices -/
def PwLe (as bs : List Int) : Prop := ∀ (i : Nat) (x y : Int), as[i]? = some x → bs[i]? = some y → x ≤ y

theorem pwLe_nil_left (bs : List Int) : PwLe [] bs := by
  intro i x y h; simp at h
theorem pwLe_nil_right (as : List Int) : PwLe as [] := by
  intro i x y _ h; simp at h
theorem pwLe_cons {a b : Int} {as bs : List Int} (h : a ≤ b) (ht : PwLe as bs) : PwLe (a :: as) (b :: bs) := by
  intro i x y hx hy
  cases i with
  | zero =>
    simp only [List.getElem?_cons_zero, Option.some.injEq] at hx hy
    omega
  | succ j =>
    simp only [List.getElem?_cons_succ] at hx hy
    exact ht j x y hx hy

/-- the coordinate loop: `lt` and `gt` are absorbing, a final verdict other than `gt` has every coordinate `≤`, a final
    verdict other than `lt` has every coordinate `≥` -/
theorem coordLoop_spec : ∀ (as bs : List Int) (o o' : Ordering), coordLoop o as bs = some o' →
    (o = .lt → o' = .lt) ∧ (o = .gt → o' = .gt) ∧ (o' ≠ .gt → PwLe as bs) ∧ (o' ≠ .lt → PwLe bs as) := by
  intro as
  induction as with
  | nil =>
    intro bs o o' h
    simp only [coordLoop, Option.some.injEq] at h
    subst h
    exact ⟨id, id, fun _ => pwLe_nil_left _, fun _ => pwLe_nil_right _⟩
  | cons a as ih =>
    intro bs o o' h
    cases bs with
    | nil =>
      simp only [coordLoop, Option.some.injEq] at h
      subst h
      exact ⟨id, id, fun _ => pwLe_nil_right _, fun _ => pwLe_nil_left _⟩
    | cons b bs =>
      rcases icompare_cases a b with ⟨hc, hab⟩ | ⟨hc, hab⟩ | ⟨hc, hab⟩ <;> cases o <;>
        simp only [coordLoop, hc, reduceCtorEq] at h <;>
        first
        | (obtain ⟨h1, h2, h3, h4⟩ := ih _ _ _ h
           refine ⟨?_, ?_, ?_, ?_⟩
           · intro ho
             first | exact h1 rfl | cases ho
           · intro ho
             first | exact h2 rfl | cases ho
           · intro ho
             first
             | exact pwLe_cons (by omega) (h3 ho)
             | exact absurd (h2 rfl) ho
           · intro ho
             first
             | exact pwLe_cons (by omega) (h4 ho)
             | exact absurd (h1 rfl) ho)

theorem coordsN_getElem? (n : Nat) (s : St) (i : Nat) (hi : i < n) :
    (domRule.coordsN n s)[i]? = some (- (((s[i]?).getD 0 : Nat) : Int)) := by
  simp [DomRule.coordsN, domRule, hi]

theorem validB_length {J : Inst} {s : St} (h : validB J s = true) : s.length = J.nStrings := by
  simp only [validB, Bool.and_eq_true, beq_iff_eq] at h
  exact h.1

/-- coordinates `≤` pointwise: positions `≥` pointwise -/
theorem posLe_of_pwLe {a b : St} (hl : a.length = b.length)
    (h : PwLe (domRule.coordsN a.length a) (domRule.coordsN a.length b)) : PosLe b a := by
  refine ⟨hl.symm, ?_⟩
  intro i x y hx hy
  have hi : i < a.length := by
    rcases Nat.lt_or_ge i a.length with h' | h'
    · exact h'
    · have : a[i]? = none := List.getElem?_eq_none (by omega)
      rw [this] at hy; cases hy
  have := h i _ _ (coordsN_getElem? a.length a i hi) (coordsN_getElem? a.length b i hi)
  rw [hx, hy] at this
  simp only [Option.getD_some] at this
  omega

theorem posLe_of_pwGe {a b : St} (hl : a.length = b.length)
    (h : PwLe (domRule.coordsN a.length b) (domRule.coordsN a.length a)) : PosLe a b := by
  refine ⟨hl, ?_⟩
  intro i x y hx hy
  have hi : i < a.length := by
    rcases Nat.lt_or_ge i a.length with h' | h'
    · exact h'
    · have : a[i]? = none := List.getElem?_eq_none (by omega)
      rw [this] at hx; cases hx
  have := h i _ _ (coordsN_getElem? a.length b i hi) (coordsN_getElem? a.length a i hi)
  rw [hx, hy] at this
  simp only [Option.getD_some] at this
  omega

/-- the dominance rule is admissible as soon as the value-to-go is antitone in the positions -/
theorem dominanceOk_of_antitone (hanti : BestRemAntitoneStmt) : DominanceOkStmt := by
  intro k declared lines J hJ a b va vb o ovd ha hb _ hcmp
  have hl : a.length = b.length := by rw [validB_length ha, validB_length hb]
  have hA := hanti k declared lines J hJ
  unfold DomRule.partialCmp at hcmp
  have hdims : domRule.dims a = a.length := rfl
  have huse : domRule.useValue = true := rfl
  rw [hdims, huse] at hcmp
  cases hco : coordLoop .eq (domRule.coordsN a.length a) (domRule.coordsN a.length b) with
  | none => rw [hco] at hcmp; cases hcmp
  | some o1 =>
    rw [hco] at hcmp
    obtain ⟨_, _, h3, h4⟩ := coordLoop_spec _ _ _ _ hco
    -- the two facts the verdicts rest on
    have hlt : o1 ≠ .gt → va ≤ vb → (bestRem J a).addI va ≤ (bestRem J b).addI vb := fun ho hv =>
      addI_le_addI (hA a b ha hb (posLe_of_pwLe hl (h3 ho))) hv
    have hgt : o1 ≠ .lt → vb ≤ va → (bestRem J b).addI vb ≤ (bestRem J a).addI va := fun ho hv =>
      addI_le_addI (hA b a hb ha (posLe_of_pwGe hl (h4 ho))) hv
    unfold domOkAt
    rcases icompare_cases va vb with ⟨hc, hv⟩ | ⟨hc, hv⟩ | ⟨hc, hv⟩ <;> cases o1 <;>
      simp only [valueStep, hc, if_true, Option.some.injEq, Prod.mk.injEq, reduceCtorEq] at hcmp <;>
      first
      | (obtain ⟨rfl, _⟩ := hcmp
         simp only [decide_eq_true_eq, Bool.and_eq_true]
         first
         | exact hlt (by simp) (by omega)
         | exact hgt (by simp) (by omega)
         | exact ⟨hlt (by simp) (by omega), hgt (by simp) (by omega)⟩)

#print axioms dominanceOk_of_antitone
end Ddo.Examples.LcsModel
