import DdoModel.Props.C16
import DdoModel.Examples.PspProofsWf
/-! `DpExactStmt` for the psp example: the DP model is exact.  A completion of a state `s` (`time = k`) is a plan prefix `p` for
    the periods `0 … k-1`; it is feasible for `s` (`Feas`) when it produces exactly the pending units of every item
    (`pend`: the units due up to `prev_demands[i]`) and never lets the stock go negative (`remF_i(t+1) ≤ made p i t`, the
    specification's condition).  Its cost relative to `s` (`relCost`) is the specification's stocking cost of the periods
    `< k`, plus the IN-FLIGHT stock of the periods `≥ k` (`tailS`: the pending units due later than the period, which the
    prefix will have produced by then), plus the changeover cost of the productions of `p` followed by `s.next`.  One
    decision of the domain changes the relative cost by exactly the transition cost (`relCost_idle`, `relCost_item`), the
    invariant `Inv` (every unit due before `time` is pending) is kept, hence `bestRem s` is minus the least relative cost
    (`dp_sound`, `dp_complete`); at the root `Feas` / `relCost` are the specification's `Feasible` / `cost`
    (`feas_root`, `relCost_root`). -/
namespace Ddo.Examples.PspModel
open Ddo Ddo.Examples Ddo.Examples.Util

-- ------------------------------------------------------------------------------------------------------------------
-- sums

theorem sumTo_mul (c : Int) (f : Nat → Int) : ∀ n : Nat, sumTo n (fun i => c * f i) = c * sumTo n f := by
  intro n
  induction n with
  | zero => simp [sumTo]
  | succ n ih => simp only [sumTo, ih, Int.mul_add]

/-- the number of `t < T` with `x ≤ t < y` -/
theorem sumTo_count (x y : Nat) : ∀ T : Nat,
    sumTo T (fun t => if x ≤ t ∧ t < y then (1 : Int) else 0) = ((min y T - x : Nat) : Int) := by
  intro T
  induction T with
  | zero => simp [sumTo]
  | succ T ih =>
    simp only [sumTo, ih]
    split <;> omega

theorem sumTo_eq_sumRange (f : Nat → Int) : ∀ n : Nat, sumTo n f = SpecUtil.sumRange n f := by
  intro n
  induction n with
  | zero => rfl
  | succ n ih => rw [SpecUtil.sumRange_succ, ← ih]; rfl

/-- the units produced by the plan are at most its periods, idle periods not counted -/
theorem sum_count_le (n : Nat) : ∀ p : Psp.Plan,
    sumTo n (fun i => ((p.count (some i) : Nat) : Int)) + ((p.count none : Nat) : Int) ≤ (p.length : Int) := by
  intro p
  induction p with
  | nil =>
    simp only [List.count_nil, List.length_nil, Int.natCast_zero]
    rw [sumTo_zero]; simp
  | cons e r ih =>
    have hind : ∀ (j : Nat) (n : Nat), sumTo n (fun i => if j = i then (1 : Int) else 0) ≤ 1 ∧
        0 ≤ sumTo n (fun i => if j = i then (1 : Int) else 0) ∧
        (n ≤ j → sumTo n (fun i => if j = i then (1 : Int) else 0) = 0) := by
      intro j n
      induction n with
      | zero => simp [sumTo]
      | succ n ihn =>
        simp only [sumTo]
        obtain ⟨h1, h2, h3⟩ := ihn
        by_cases hj : j = n
        · have := h3 (by omega)
          simp only [hj, if_true] at this ⊢
          omega
        · simp only [hj, if_false]
          refine ⟨by omega, by omega, fun h => ?_⟩
          have := h3 (by omega); omega
    cases e with
    | none =>
      have : sumTo n (fun i => (((none :: r).count (some i) : Nat) : Int)) = sumTo n (fun i => ((r.count (some i) : Nat) : Int)) :=
        sumTo_congr (fun i _ => by simp)
      rw [this]
      simp only [List.count_cons, List.length_cons, beq_self_eq_true, if_true]
      omega
    | some j =>
      have : sumTo n (fun i => ((((some j) :: r).count (some i) : Nat) : Int)) =
          sumTo n (fun i => ((r.count (some i) : Nat) : Int)) + sumTo n (fun i => if j = i then (1 : Int) else 0) := by
        rw [← sumTo_add]
        apply sumTo_congr
        intro i _
        simp only [List.count_cons]
        by_cases h : j = i <;> simp [h]
      rw [this]
      have h1 := (hind j n).1
      have hc : (some j :: r).count none = r.count none := by simp
      rw [hc]
      simp only [List.length_cons]
      omega

-- ------------------------------------------------------------------------------------------------------------------
-- pending units, the invariant, feasible completions

/-- the units of item `i` still to produce in `s`: the units due up to `prev_demands[i]` -/
def pend (I : Psp.Inst) (s : St) (i : Nat) : Int := contrib (rowOf I i) (pdAt s i)
/-- the units of item `i` the plan (prefix) produces in the periods `≤ t` -/
def made (p : Psp.Plan) (i t : Nat) : Int := (((p.take (t + 1)).count (some i) : Nat) : Int)
/-- every unit due before `time` is still to produce (none of them can have been produced in a period `≥ time`) -/
def Inv (I : Psp.Inst) (s : St) : Prop := ∀ i, i < I.n → remF (rowOf I i) s.time ≤ pend I s i

/-- `p` (periods `0 … time-1`) completes `s` feasibly: it produces exactly the pending units, each of them in time -/
structure Feas (I : Psp.Inst) (s : St) (p : Psp.Plan) : Prop where
  len : p.length = s.time
  dom : ∀ i, some i ∈ p → i < I.n
  tot : ∀ i, i < I.n → ((p.count (some i) : Nat) : Int) = pend I s i
  stock : ∀ i t, i < I.n → t < s.time → remF (rowOf I i) (t + 1) ≤ made p i t

theorem rem_eq_pend (I : Psp.Inst) (s : St) : rem I s = sumTo I.n (pend I s) := rfl

theorem made_append {p : Psp.Plan} (e : Option Nat) (i : Nat) {t : Nat} (h : t < p.length) : made (p ++ [e]) i t = made p i t := by
  unfold made
  rw [List.take_append_of_le_length (by omega)]

theorem made_full {p : Psp.Plan} (i : Nat) {t : Nat} (h : p.length ≤ t + 1) : made p i t = ((p.count (some i) : Nat) : Int) := by
  unfold made
  rw [List.take_of_length_le h]

section
variable {I : Psp.Inst} (hI : InstOk I)
include hI

theorem pend_nonneg (s : St) (i : Nat) : 0 ≤ pend I s i := contrib_nonneg hI i _

omit hI in
theorem pend_idle (s : St) (i : Nat) : pend I (idle s) i = pend I s i := rfl

theorem pend_produce {s : St} (hs : Ok I s) {i : Nat} (hi : i < I.n) (hp : 0 ≤ pdAt s i) (j : Nat) :
    pend I (produce I s i) j = if j = i then pend I s i - 1 else pend I s j := by
  unfold pend
  rw [pdAt_produce hs hi]
  split
  · next h =>
    subst h
    rw [contrib_prevF _ (row_bin hI j)]
    rcases hs.due j hi with h | ⟨h0, h1⟩
    · omega
    · rw [contrib_due _ (row_bin hI j) h0 h1]; omega
  · rfl

/-- the units due before `τ` are fewer than the pending ones iff the latest pending unit is due at `τ` or later -/
theorem lt_pend_iff {s : St} (hs : Ok I s) {i : Nat} (hi : i < I.n) (τ : Nat) :
    remF (rowOf I i) τ < pend I s i ↔ (τ : Int) ≤ pdAt s i := by
  unfold pend
  rcases hs.due i hi with h | ⟨h0, h1⟩
  · have := remF_nonneg _ (row_bin hI i) τ
    rw [h]
    simp only [contrib]
    constructor
    · intro h'; simp at h'; omega
    · intro h'; omega
  · rw [contrib_due _ (row_bin hI i) h0 h1]
    constructor
    · intro hlt
      apply Classical.byContradiction
      intro hgt
      have h2 := remF_mono _ (row_bin hI i) ((pdAt s i).toNat + 1) τ (by omega)
      simp only [remF] at h2
      omega
    · intro hle
      have := remF_mono _ (row_bin hI i) τ (pdAt s i).toNat (by omega)
      omega

theorem inv_idle {s : St} (hinv : Inv I s) : Inv I (idle s) := by
  intro i hi
  have := hinv i hi
  have := remF_mono _ (row_bin hI i) (s.time - 1) s.time (by omega)
  rw [pend_idle]
  show remF (rowOf I i) (s.time - 1) ≤ _
  omega

theorem inv_produce {s : St} (hs : Ok I s) (hinv : Inv I s) {i : Nat} (hi : i < I.n)
    (hp : ((s.time - 1 : Nat) : Int) ≤ pdAt s i) : Inv I (produce I s i) := by
  intro j hj
  have h1 := hinv j hj
  have h2 := remF_mono _ (row_bin hI j) (s.time - 1) s.time (by omega)
  rw [pend_produce hI hs hi (by omega)]
  show remF (rowOf I j) (s.time - 1) ≤ _
  split
  · next h =>
    subst h
    have := (lt_pend_iff hI hs hi (s.time - 1)).mpr hp
    omega
  · omega

theorem inv_trans {s : St} (hs : Ok I s) (hinv : Inv I s) (ht : s.time ≠ 0) {d : Int}
    (hd : d ∈ domain (tabOf I) (s.time - 1) s) : Inv I (trans (tabOf I) s ⟨s.time - 1, d⟩) := by
  rcases (domain_cases hI hs ht hd).2 with ⟨_, _, h⟩ | ⟨i, hi, _, hp, h⟩ <;> rw [h]
  · exact inv_idle hI hinv
  · exact inv_produce hI hs hinv hi hp

/-- a feasible completion exists only from a state that satisfies the invariant -/
theorem Feas.inv {s : St} {p : Psp.Plan} (hf : Feas I s p) : Inv I s := by
  intro i hi
  by_cases ht : s.time = 0
  · rw [ht]; exact pend_nonneg hI s i
  · have := hf.stock i (s.time - 1) hi (by omega)
    rw [made_full i (by rw [hf.len]; omega), hf.tot i hi] at this
    have e : s.time - 1 + 1 = s.time := by omega
    rw [e] at this
    exact this

omit hI in
theorem Feas.rem_le {s : St} {p : Psp.Plan} (hf : Feas I s p) : rem I s + ((p.count none : Nat) : Int) ≤ (s.time : Int) := by
  rw [rem_eq_pend, ← sumTo_congr (fun i hi => hf.tot i hi), ← hf.len]
  exact sum_count_le I.n p

omit hI in
/-- a feasible completion that idles in the latest period -/
theorem feas_idle_of {s : St} {p : Psp.Plan} (hf : Feas I s (p ++ [none])) :
    Feas I (idle s) p ∧ rem I s < (s.time : Int) := by
  have hlen : p.length + 1 = s.time := by have := hf.len; simpa using this
  refine ⟨⟨by simp [idle]; omega, fun i hi => hf.dom i (List.mem_append_left _ hi), ?_, ?_⟩, ?_⟩
  · intro i hi
    have := hf.tot i hi
    rw [pend_idle]
    simpa [List.count_append] using this
  · intro i t hi ht
    have ht' : t < p.length := by simp only [idle] at ht; omega
    have := hf.stock i t hi (by omega)
    rw [made_append none i ht'] at this
    exact this
  · have := hf.rem_le
    simp only [List.count_append, List.count_singleton, beq_self_eq_true, if_true] at this
    omega

/-- a feasible completion that produces `i` in the latest period -/
theorem feas_item_of {s : St} {p : Psp.Plan} {i : Nat} (hs : Ok I s) (hf : Feas I s (p ++ [some i])) :
    i < I.n ∧ ((s.time - 1 : Nat) : Int) ≤ pdAt s i ∧ Feas I (produce I s i) p ∧ rem I s ≤ (s.time : Int) := by
  have hlen : p.length + 1 = s.time := by have := hf.len; simpa using this
  have hi : i < I.n := hf.dom i (by simp)
  have htot : ∀ j, j < I.n → ((p.count (some j) : Nat) : Int) = pend I s j - if j = i then 1 else 0 := by
    intro j hj
    have := hf.tot j hj
    simp only [List.count_append, List.count_singleton] at this
    by_cases h : j = i
    · subst h; simp at this ⊢; omega
    · have h' : ¬ i = j := fun e => h e.symm
      simp [h, h'] at this ⊢; omega
  have hpos : 0 ≤ pdAt s i := by
    have h1 := htot i hi
    simp only [if_true] at h1
    have : remF (rowOf I i) 0 < pend I s i := by simp only [remF]; omega
    have := (lt_pend_iff hI hs hi 0).mp this
    omega
  have hdom : ((s.time - 1 : Nat) : Int) ≤ pdAt s i := by
    apply (lt_pend_iff hI hs hi (s.time - 1)).mp
    have h1 := htot i hi
    simp only [if_true] at h1
    by_cases hk : s.time - 1 = 0
    · rw [hk]; simp only [remF]; omega
    · have := hf.stock i (s.time - 2) hi (by omega)
      rw [made_append (some i) i (by omega), made_full i (by omega)] at this
      have e : s.time - 2 + 1 = s.time - 1 := by omega
      rw [e] at this
      omega
  refine ⟨hi, hdom, ⟨by simp [produce]; omega, fun j hj => hf.dom j (List.mem_append_left _ hj), ?_, ?_⟩, ?_⟩
  · intro j hj
    rw [pend_produce hI hs hi hpos, htot j hj]
    by_cases h : j = i
    · subst h; simp
    · simp [h]
  · intro j t hj ht
    have ht' : t < p.length := by simp only [produce] at ht; omega
    have := hf.stock j t hj (by omega)
    rw [made_append (some i) j ht'] at this
    exact this
  · have := hf.rem_le
    omega

omit hI in
theorem feas_of_idle {s : St} {p : Psp.Plan} (ht : s.time ≠ 0) (hinv : Inv I s) (hf : Feas I (idle s) p) :
    Feas I s (p ++ [none]) := by
  have hlen : p.length = s.time - 1 := hf.len
  refine ⟨by simp; omega, ?_, ?_, ?_⟩
  · intro i hi
    rcases List.mem_append.mp hi with h | h
    · exact hf.dom i h
    · simp at h
  · intro i hi
    have := hf.tot i hi
    rw [pend_idle] at this
    simpa [List.count_append] using this
  · intro i t hi htt
    by_cases hlt : t < p.length
    · rw [made_append none i hlt]
      exact hf.stock i t hi (by simp only [idle]; omega)
    · have e : t + 1 = s.time := by omega
      rw [made_full i (by simp; omega), e]
      have h1 := hf.tot i hi
      rw [pend_idle] at h1
      have h2 := hinv i hi
      simp only [List.count_append, List.count_singleton]
      simp
      omega

theorem feas_of_item {s : St} {p : Psp.Plan} {i : Nat} (hs : Ok I s) (ht : s.time ≠ 0) (hinv : Inv I s) (hi : i < I.n)
    (hp : 0 ≤ pdAt s i) (hf : Feas I (produce I s i) p) : Feas I s (p ++ [some i]) := by
  have hlen : p.length = s.time - 1 := hf.len
  have htot : ∀ j, j < I.n → (((p ++ [some i]).count (some j) : Nat) : Int) = pend I s j := by
    intro j hj
    have := hf.tot j hj
    rw [pend_produce hI hs hi hp] at this
    simp only [List.count_append, List.count_singleton]
    by_cases h : j = i
    · subst h; simp at this ⊢; omega
    · have h' : ¬ i = j := fun e => h e.symm
      simp [h, h'] at this ⊢; omega
  refine ⟨by simp; omega, ?_, htot, ?_⟩
  · intro j hj
    rcases List.mem_append.mp hj with h | h
    · exact hf.dom j h
    · simp at h; omega
  · intro j t hj htt
    by_cases hlt : t < p.length
    · rw [made_append (some i) j hlt]
      exact hf.stock j t hj (by simp only [produce]; omega)
    · have e : t + 1 = s.time := by omega
      rw [made_full j (by simp; omega), e, htot j hj]
      exact hinv j hj

end

-- ------------------------------------------------------------------------------------------------------------------
-- the cost of a completion relative to the state

/-- the in-flight stock of the periods `k … T-1`: the units among the `c` pending ones that are due later than the period
    (the completion will have produced them by then) -/
def tailS (I : Psp.Inst) (row : List Int) (c : Int) (k : Nat) : Int :=
  sumTo I.T (fun t => if k ≤ t then max 0 (c - remF row (t + 1)) else 0)
/-- the specification's stock of the periods `< k` -/
def headS (row : List Int) (p : Psp.Plan) (i k : Nat) : Int := sumTo k (fun t => made p i t - remF row (t + 1))
/-- the unit-periods of stock of item `i` that the completion `p` of `s` pays -/
def W (I : Psp.Inst) (s : St) (p : Psp.Plan) (i : Nat) : Int :=
  headS (rowOf I i) p i s.time + tailS I (rowOf I i) (pend I s i) s.time
/-- the changeover cost of the productions of `p`, then `s.next` -/
def CO (I : Psp.Inst) (s : St) (p : Psp.Plan) : Int :=
  wc (qq I) (p.filterMap id ++ (if s.next = -1 then [] else [s.next.toNat]))
def relCost (I : Psp.Inst) (s : St) (p : Psp.Plan) : Int := sumTo I.n (fun i => stkOf I i * W I s p i) + CO I s p

theorem tail_peel (I : Psp.Inst) (row : List Int) (c : Int) {k : Nat} (hk : k < I.T) :
    tailS I row c k = tailS I row c (k + 1) + max 0 (c - remF row (k + 1)) := by
  unfold tailS
  rw [sumTo_update (c := k) (g := fun t => if k + 1 ≤ t then max 0 (c - remF row (t + 1)) else 0) hk]
  · simp only [Nat.le_refl, if_true]
    rw [if_neg (by omega)]; omega
  · intro t _ hne
    by_cases h : k ≤ t
    · rw [if_pos h, if_pos (by omega)]
    · rw [if_neg h, if_neg (by omega)]

theorem tail_top (I : Psp.Inst) (row : List Int) (c : Int) : tailS I row c I.T = 0 := by
  unfold tailS
  rw [sumTo_congr (g := fun _ => 0) (fun t ht => by rw [if_neg (by omega)]), sumTo_zero]

theorem head_congr (row : List Int) {p : Psp.Plan} (e : Option Nat) (i : Nat) {k : Nat} (hk : k ≤ p.length) :
    headS row (p ++ [e]) i k = headS row p i k := by
  unfold headS
  exact sumTo_congr (fun t ht => by rw [made_append e i (by omega)])

section
variable {I : Psp.Inst} (hI : InstOk I)
include hI

theorem tail_zero (i : Nat) (k : Nat) : tailS I (rowOf I i) 0 k = 0 := by
  unfold tailS
  rw [sumTo_congr (g := fun _ => 0) (fun t _ => by
    have := remF_nonneg _ (row_bin hI i) (t + 1)
    split <;> omega), sumTo_zero]

/-- one unit less: every period from `x` up to its due date carries one unit less -/
theorem tail_diff {s : St} (hs : Ok I s) {i : Nat} (hi : i < I.n) {x : Nat} (hx : (x : Int) ≤ pdAt s i) :
    tailS I (rowOf I i) (pend I s i) x = tailS I (rowOf I i) (pend I s i - 1) x + (pdAt s i - (x : Int)) := by
  have hlt := hs.lt_T hI hi
  obtain ⟨y, hy⟩ : ∃ y : Nat, pdAt s i = (y : Int) := ⟨(pdAt s i).toNat, by omega⟩
  unfold tailS
  rw [sumTo_congr (g := fun t => (if x ≤ t then max 0 (pend I s i - 1 - remF (rowOf I i) (t + 1)) else 0) +
      (if x ≤ t ∧ t < y then (1 : Int) else 0)), sumTo_add, sumTo_count, hy]
  · omega
  · intro t _
    have h1 := lt_pend_iff hI hs hi (t + 1)
    by_cases hxt : x ≤ t
    · by_cases hty : t < y
      · have := h1.mpr (by omega)
        simp only [hxt, hty, if_true, and_self]
        omega
      · have : ¬ (remF (rowOf I i) (t + 1) < pend I s i) := fun h => by have := h1.mp h; omega
        simp only [hxt, hty, if_true, and_false, if_false]
        omega
    · simp [hxt]

/-- the stock of a completion whose latest period is peeled off -/
theorem W_pre {s : St} {p : Psp.Plan} {e : Option Nat} (hf : Feas I s (p ++ [e])) (hT : s.time ≤ I.T) {i : Nat} (hi : i < I.n) :
    W I s (p ++ [e]) i = headS (rowOf I i) p i (s.time - 1) + tailS I (rowOf I i) (pend I s i) (s.time - 1) := by
  have hlen : p.length + 1 = s.time := by have := hf.len; simpa using this
  have hinv := hf.inv hI i hi
  obtain ⟨k, hk⟩ : ∃ k, s.time = k + 1 := ⟨p.length, hlen.symm⟩
  unfold W
  rw [hk] at hinv ⊢
  simp only [Nat.add_sub_cancel]
  rw [tail_peel I _ _ (show k < I.T by omega)]
  have : headS (rowOf I i) (p ++ [e]) i (k + 1) =
      headS (rowOf I i) p i k + (pend I s i - remF (rowOf I i) (k + 1)) := by
    rw [← head_congr (rowOf I i) e i (show k ≤ p.length by omega)]
    simp only [headS, sumTo]
    rw [made_full i (by simp; omega), hf.tot i hi]
  rw [this]
  omega

theorem relCost_idle {s : St} {p : Psp.Plan} (hf : Feas I s (p ++ [none])) (hT : s.time ≤ I.T) :
    relCost I s (p ++ [none]) = relCost I (idle s) p := by
  unfold relCost
  congr 1
  · apply sumTo_congr
    intro i hi
    rw [W_pre hI hf hT hi]
    rfl
  · simp only [CO, idle, List.filterMap_append, List.filterMap_cons, List.filterMap_nil, id, List.append_nil]
    rfl

theorem relCost_item {s : St} {p : Psp.Plan} {i : Nat} (hs : Ok I s) (hnx : NextOk I s) (hf : Feas I s (p ++ [some i]))
    (hT : s.time ≤ I.T) :
    relCost I s (p ++ [some i]) =
      relCost I (produce I s i) p + (chgTo I s.next i + stkOf I i * (pdAt s i - ((s.time - 1 : Nat) : Int))) := by
  obtain ⟨hi, hdom, _, _⟩ := feas_item_of hI hs hf
  have hW : ∀ j, j < I.n → W I s (p ++ [some i]) j =
      W I (produce I s i) p j + if j = i then pdAt s i - ((s.time - 1 : Nat) : Int) else 0 := by
    intro j hj
    rw [W_pre hI hf hT hj]
    show _ = headS (rowOf I j) p j (s.time - 1) + tailS I (rowOf I j) (pend I (produce I s i) j) (s.time - 1) + _
    rw [pend_produce hI hs hi (by omega)]
    by_cases h : j = i
    · subst h
      simp only [if_true]
      rw [tail_diff hI hs hj hdom]
      omega
    · simp [h]
  have hCO : CO I s (p ++ [some i]) = CO I (produce I s i) p + chgTo I s.next i := by
    have h1 : ¬ ((i : Int) = -1) := by omega
    simp only [CO, produce, h1, if_false, Int.toNat_natCast, List.filterMap_append, List.filterMap_cons, id,
      List.filterMap_nil]
    rcases hnx with hn | ⟨hn0, hn1⟩
    · simp [hn, chgTo_none]
    · have hne : ¬ (s.next = -1) := by omega
      obtain ⟨b, hb⟩ : ∃ b : Nat, s.next = (b : Int) := ⟨s.next.toNat, by omega⟩
      simp only [hne, if_false]
      rw [hb, chgTo_item, Int.toNat_natCast, List.append_assoc]
      show wc (qq I) (List.filterMap id p ++ i :: [b]) = _
      rw [wc_split]
      simp [wc]
  unfold relCost
  rw [hCO, sumTo_update (c := i) (g := fun j => stkOf I j * W I (produce I s i) p j) hi]
  · simp only [hW i hi, if_true, Int.mul_add]
    omega
  · intro j hj hne
    simp only [hW j hj, if_neg hne, Int.add_zero]

omit hI in
theorem relCost_nil {s : St} (ht : s.time = 0) (hp : ∀ i, i < I.n → pend I s i = 0) (hI : InstOk I) : relCost I s [] = 0 := by
  unfold relCost
  have h1 : sumTo I.n (fun i => stkOf I i * W I s [] i) = 0 := by
    rw [sumTo_congr (g := fun _ => 0), sumTo_zero]
    intro i hi
    unfold W
    rw [hp i hi, tail_zero hI, ht]
    simp [headS, sumTo]
  have h2 : CO I s [] = 0 := by
    unfold CO
    split <;> simp [wc]
  omega

end

-- ------------------------------------------------------------------------------------------------------------------
-- the value-to-go is minus the least relative cost of the feasible completions

section
variable {I : Psp.Inst} (hI : InstOk I)
include hI

/-- a state with no more units than periods, at `time = 0`: nothing is pending -/
theorem pend_zero {s : St} (ht : s.time = 0) (hrem : rem I s ≤ (s.time : Int)) {i : Nat} (hi : i < I.n) : pend I s i = 0 := by
  have h1 := sumTo_ge_term (n := I.n) (f := pend I s) (fun j _ => pend_nonneg hI s j) hi
  have h2 := pend_nonneg hI s i
  rw [rem_eq_pend, ht] at hrem
  have : ((0 : Nat) : Int) = 0 := rfl
  omega

/-- **soundness of the DP**: the value-to-go of a state a compilation can build is minus the relative cost of a feasible
    completion -/
theorem dp_sound : ∀ (k : Nat) (s : St) (h : Int), s.time = k → StOk I s → Inv I s → bestRem (tabOf I) s = some h →
    ∃ p, Feas I s p ∧ relCost I s p = -h := by
  intro k
  induction k with
  | zero =>
    intro s h ht hs _ hh
    rw [bestRem_zero _ ht] at hh
    cases hh
    have hp : ∀ i, i < I.n → pend I s i = 0 := fun i hi => pend_zero hI ht ((validB_iff hI hs.ok).mp hs.valid) hi
    refine ⟨[], ⟨(by simp [ht]), (fun i hi => by cases hi), (fun i hi => by rw [hp i hi]; rfl), (fun i t _ htt => by omega)⟩, ?_⟩
    rw [relCost_nil ht hp hI]; rfl
  | succ k ih =>
    intro s h ht hs hinv hh
    have ht0 : s.time ≠ 0 := by omega
    have hx : s.time - 1 = k := by omega
    obtain ⟨d, hd, h1, hh1, hcost⟩ := bestRem_att hI hs.ok ht0 hh
    obtain ⟨hs', ht'⟩ := stOk_trans hI hs ht0 hd
    have hinv' := inv_trans hI hs.ok hinv ht0 hd
    obtain ⟨p, hf, hc⟩ := ih _ h1 (by rw [ht']; exact hx) hs' hinv' hh1
    obtain ⟨_, hcase⟩ := domain_cases hI hs.ok ht0 hd
    rcases hcase with ⟨rfl, _, htr⟩ | ⟨i, hi, rfl, hp, htr⟩
    · rw [htr] at hf hc
      have hf2 := feas_of_idle ht0 hinv hf
      refine ⟨p ++ [none], hf2, ?_⟩
      rw [relCost_idle hI hf2 hs.time_le, hc, hcost, cost_idle]
      omega
    · rw [htr] at hf hc
      have hf2 := feas_of_item hI hs.ok ht0 hinv hi (by omega) hf
      refine ⟨p ++ [some i], hf2, ?_⟩
      rw [relCost_item hI hs.ok hs.nextOk hf2 hs.time_le, hc, hcost, cost_item hI hs.ok hs.nextOk _ hi]
      omega

/-- **completeness of the DP**: every feasible completion is matched by the value-to-go -/
theorem dp_complete : ∀ (k : Nat) (s : St) (p : Psp.Plan), s.time = k → s.time ≤ I.T → Ok I s → NextOk I s → Feas I s p →
    ∃ h, bestRem (tabOf I) s = some h ∧ -h ≤ relCost I s p := by
  intro k
  induction k with
  | zero =>
    intro s p ht _ hs _ hf
    have hp0 : p = [] := List.length_eq_zero_iff.mp (by rw [hf.len, ht])
    subst hp0
    refine ⟨0, bestRem_zero _ ht, ?_⟩
    rw [relCost_nil ht (fun i hi => by rw [← hf.tot i hi]; rfl) hI]
    omega
  | succ k ih =>
    intro s p ht hT hs hnx hf
    have ht0 : s.time ≠ 0 := by omega
    have hx : s.time - 1 = k := by omega
    have key : ∀ (dm : Int) (h2 : Int), dm ∈ domain (tabOf I) (s.time - 1) s →
        bestRem (tabOf I) (trans (tabOf I) s ⟨s.time - 1, dm⟩) = some h2 →
        ∃ h', bestRem (tabOf I) s = some h' ∧ h2 + cost (tabOf I) s ⟨s.time - 1, dm⟩ ≤ h' := by
      intro dm h2 hdm hb
      have := bestRem_ge hI hs ht0 (d := dm) hdm
      rw [hb] at this
      cases hbm : bestRem (tabOf I) s with
      | none => rw [hbm] at this; exact absurd this (by simp [EInt.addI])
      | some h' => rw [hbm] at this; exact ⟨h', rfl, by simpa [EInt.addI] using this⟩
    rcases List.eq_nil_or_concat p with hp0 | ⟨p', e, hpe⟩
    · have := hf.len; rw [hp0] at this; simp at this; omega
    · rw [List.concat_eq_append] at hpe
      subst hpe
      cases e with
      | none =>
        obtain ⟨hf', hrem⟩ := feas_idle_of hf
        have hdm : (-1 : Int) ∈ domain (tabOf I) (s.time - 1) s :=
          (mem_domain hI hs _ (-1)).mpr ⟨by omega, Or.inl ⟨rfl, by omega⟩⟩
        obtain ⟨h2, hb2, hle2⟩ := ih (idle s) p' (by simp [idle]; omega) (by simp [idle]; omega) (ok_idle hs) hnx hf'
        obtain ⟨h', hb, hle⟩ := key (-1) h2 hdm (by rw [trans_idle' ht0]; exact hb2)
        refine ⟨h', hb, ?_⟩
        rw [relCost_idle hI hf hT]
        rw [cost_idle] at hle
        omega
      | some i =>
        obtain ⟨hi, hdom, hf', hrem⟩ := feas_item_of hI hs hf
        have hdm : (i : Int) ∈ domain (tabOf I) (s.time - 1) s :=
          (mem_domain hI hs _ i).mpr ⟨by omega, Or.inr ⟨i, hi, rfl, hdom⟩⟩
        obtain ⟨h2, hb2, hle2⟩ := ih (produce I s i) p' (by simp [produce]; omega) (by simp [produce]; omega)
          (ok_produce hs hi) (Or.inr ⟨by simp [produce], by simp [produce]; omega⟩) hf'
        obtain ⟨h', hb, hle⟩ := key i h2 hdm (by rw [trans_item' hI hs ht0 _ hi (by omega)]; exact hb2)
        refine ⟨h', hb, ?_⟩
        rw [relCost_item hI hs hnx hf hT]
        rw [cost_item hI hs hnx _ hi] at hle
        omega

/-- **exactness at every state**: the value-to-go of a state a compilation can build (with the invariant) is minus the least
    relative cost of its feasible completions -/
theorem bestRem_isMinOf {s : St} (hs : StOk I s) (hinv : Inv I s) (h : Int) :
    bestRem (tabOf I) s = some h ↔ SpecUtil.IsMinOf (Feas I s) (relCost I s) (-h) := by
  constructor
  · intro hb
    obtain ⟨p, hf, hc⟩ := dp_sound hI s.time s h rfl hs hinv hb
    refine ⟨⟨p, hf, hc⟩, ?_⟩
    intro p' hf'
    obtain ⟨h', hb', hle⟩ := dp_complete hI s.time s p' rfl hs.time_le hs.ok hs.nextOk hf'
    rw [hb] at hb'
    cases hb'
    exact hle
  · rintro ⟨⟨p, hf, hc⟩, hmin⟩
    obtain ⟨h', hb', hle⟩ := dp_complete hI s.time s p rfl hs.time_le hs.ok hs.nextOk hf
    obtain ⟨p', hf', hc'⟩ := dp_sound hI s.time s h' rfl hs hinv hb'
    have := hmin p' hf'
    rw [hb']
    congr 1
    omega

/-- … and it has no completion iff it has no feasible completion -/
theorem bestRem_none_iff {s : St} (hs : StOk I s) (hinv : Inv I s) :
    bestRem (tabOf I) s = none ↔ ¬ ∃ p, Feas I s p := by
  constructor
  · rintro hb ⟨p, hf⟩
    obtain ⟨h', hb', _⟩ := dp_complete hI s.time s p rfl hs.time_le hs.ok hs.nextOk hf
    rw [hb] at hb'
    cases hb'
  · intro hno
    cases hb : bestRem (tabOf I) s with
    | none => rfl
    | some h =>
      obtain ⟨p, hf, _⟩ := dp_sound hI s.time s h rfl hs hinv hb
      exact absurd ⟨p, hf⟩ hno

end

-- ------------------------------------------------------------------------------------------------------------------
-- at the root: the specification

theorem take_sum (row : List Int) : ∀ t : Nat, (row.take t).sum = remF row t := by
  intro t
  induction t with
  | zero => simp [remF]
  | succ t ih =>
    rw [List.take_add_one, List.sum_append, ih]
    simp only [remF]
    congr 1
    rw [List.getD_eq_getElem?_getD]
    cases row[t]? <;> simp

theorem stock_eq (I : Psp.Inst) (p : Psp.Plan) (i t : Nat) :
    C16.PspD.stock I p i t = made p i t - remF (rowOf I i) (t + 1) := by
  unfold C16.PspD.stock C16.PspD.produced C16.PspD.due made rowOf
  rw [take_sum]

theorem chg_eq_wc (I : Psp.Inst) : ∀ l : List Nat, Psp.changeoverCost I l = wc (qq I) l := by
  intro l
  induction l with
  | nil => rfl
  | cons a r ih =>
    cases r with
    | nil => rfl
    | cons b r' => simp only [Psp.changeoverCost, wc, ih]; rfl

theorem pdAt_init (I : Psp.Inst) {i : Nat} (hi : i < I.n) : pdAt (initSt (tabOf I)) i = prevF (rowOf I i) I.T := by
  show ((List.range I.n).map (fun i => ((tabOf I).prevD.getD i []).getD I.T (-1))).getD i (-1) = _
  rw [List.getD_eq_getElem?_getD, List.getElem?_map, List.getElem?_range hi]
  simp only [Option.map_some, Option.getD_some]
  rw [tab_prevD I hi]
  simp [List.getD_eq_getElem?_getD]

theorem ok_init (I : Psp.Inst) : Ok I (initSt (tabOf I)) := by
  refine ⟨by simp [initSt, tabOf], ?_⟩
  intro i hi
  rw [pdAt_init I hi]
  exact prevF_due _ _

section
variable {I : Psp.Inst} (hI : InstOk I)
include hI

theorem pend_init {i : Nat} (hi : i < I.n) : pend I (initSt (tabOf I)) i = remF (rowOf I i) I.T := by
  unfold pend
  rw [pdAt_init I hi, contrib_prevF _ (row_bin hI i)]

theorem inv_init : Inv I (initSt (tabOf I)) := by
  intro i hi
  rw [pend_init hI hi]
  exact Int.le_refl _

theorem remF_last {i : Nat} (hi : i < I.n) : remF (rowOf I i) (I.T - 1 + 1) = remF (rowOf I i) I.T := by
  by_cases hT : I.T = 0
  · rw [hT]
    have hl := row_len hI hi
    simp only [remF, List.getD_eq_getElem?_getD]
    rw [List.getElem?_eq_none (by omega)]
    simp [remF]
  · have : I.T - 1 + 1 = I.T := by omega
    rw [this]

/-- at the root the feasible completions are the specification's feasible plans -/
theorem feas_root (p : Psp.Plan) : Feas I (initSt (tabOf I)) p ↔ C16.PspD.Feasible I p := by
  have htime : (initSt (tabOf I)).time = I.T := rfl
  constructor
  · intro hf
    have hlen : p.length = I.T := hf.len
    refine ⟨⟨hlen, hf.dom⟩, ?_, ?_⟩
    · intro i t hi ht
      rw [stock_eq]
      have := hf.stock i t hi (by rw [htime]; exact ht)
      omega
    · intro i hi
      rw [stock_eq, made_full i (by omega), hf.tot i hi, pend_init hI hi, remF_last hI hi]
      omega
  · intro hf
    have hlen : p.length = I.T := hf.plan.1
    refine ⟨hlen, hf.plan.2, ?_, ?_⟩
    · intro i hi
      have := hf.noExcess i hi
      rw [stock_eq, made_full i (by omega), remF_last hI hi] at this
      rw [pend_init hI hi]
      omega
    · intro i t hi ht
      have := hf.noBacklog i t hi (by rw [← htime]; exact ht)
      rw [stock_eq] at this
      omega

omit hI in
/-- at the root the relative cost is the specification's cost -/
theorem relCost_root (p : Psp.Plan) : relCost I (initSt (tabOf I)) p = C16.PspD.cost I p := by
  have htime : (initSt (tabOf I)).time = I.T := rfl
  unfold relCost C16.PspD.cost
  congr 1
  · unfold C16.PspD.stocking
    rw [sumTo_eq_sumRange]
    apply SpecUtil.sumRange_congr
    intro i _
    unfold W
    rw [htime, tail_top, Int.add_zero, ← sumTo_eq_sumRange, sumTo_mul]
    congr 1
    unfold headS
    apply sumTo_congr
    intro t _
    rw [stock_eq]
  · show wc (qq I) (p.filterMap id ++ []) = _
    rw [List.append_nil, ← chg_eq_wc, C16.psp_changeoverCost]
    rfl

end

/-- the specification side of `DpExactStmt`: the least cost of the specification's feasible plans -/
theorem specBestExt_root (I : Psp.Inst) :
    specBestExt (specTable I) [] = minOf ((tuples (none :: (List.range I.n).map some) I.T).filterMap (fun p =>
        if Psp.feasible I p then some (Psp.stockingCost I p + Psp.changeoverCost I (p.filterMap id)) else none)) := by
  have hfilter : (specTable I).filter (fun e => extends_ e.1 []) = specTable I := by
    apply List.filter_eq_self.mpr
    intro e _
    simp [extends_]
  unfold specBestExt
  rw [hfilter]
  unfold specTable
  simp only [List.map_filterMap]
  congr 2
  funext p
  by_cases hf : Psp.feasible I p = true <;> simp [hf]

/-- **`DpExactStmt` is a theorem**: the DP model of the shipped psp example is exact — the value-to-go of the root is minus the
    least cost of the specification's feasible plans, and there is none iff there is no such plan -/
theorem dpExact (I : Psp.Inst) : DpExactStmt I := by
  intro hI
  rw [specBestExt_root]
  have hcomp : ∀ p, C16.PspD.Feasible I p → ∃ h, bestRem (tabOf I) (initSt (tabOf I)) = some h ∧ -h ≤ C16.PspD.cost I p := by
    intro p hp
    obtain ⟨h, hb, hle⟩ := dp_complete hI I.T (initSt (tabOf I)) p rfl (Nat.le_refl _) (ok_init I) (Or.inl rfl)
      ((feas_root hI p).mpr hp)
    rw [relCost_root] at hle
    exact ⟨h, hb, hle⟩
  cases hb : bestRem (tabOf I) (initSt (tabOf I)) with
  | none =>
    have : minOf ((tuples (none :: (List.range I.n).map some) I.T).filterMap (fun p =>
        if Psp.feasible I p then some (Psp.stockingCost I p + Psp.changeoverCost I (p.filterMap id)) else none)) = none := by
      apply (SpecUtil.minOf_none_iff (C16.psp_values I)).mpr
      rintro ⟨p, hp⟩
      obtain ⟨h, hb', _⟩ := hcomp p hp
      rw [hb] at hb'
      cases hb'
    rw [this]; rfl
  | some h =>
    have hV := valid_init hI hb
    obtain ⟨p, hf, hc⟩ := dp_sound hI I.T (initSt (tabOf I)) h rfl hV.1 (inv_init hI) hb
    rw [relCost_root] at hc
    have hmin : SpecUtil.IsMinOf (C16.PspD.Feasible I) (C16.PspD.cost I) (-h) := by
      refine ⟨⟨p, (feas_root hI p).mp hf, hc⟩, ?_⟩
      intro p' hp'
      obtain ⟨h', hb', hle⟩ := hcomp p' hp'
      rw [hb] at hb'
      cases hb'
      exact hle
    rw [(SpecUtil.minOf_isMinOf (C16.psp_values I) (-h)).mpr hmin]
    simp

/-- the invariant is not implied by `StOk` (which over-approximates the states a compilation builds): in the instance of
    `PspProofsWf.lean`, the state at the root's `time = 5` in which the unit of item 0 due in period 4 counts as produced
    already (no period is left for that) is `StOk`, has a completion in the model (worth `-5`), and no feasible one -/
theorem inv_needed :
    StOk Demo.inst { time := 5, next := -1, pd := [2, 1, 3] } ∧ ¬ Inv Demo.inst { time := 5, next := -1, pd := [2, 1, 3] } ∧
    bestRem (tabOf Demo.inst) { time := 5, next := -1, pd := [2, 1, 3] } = some (-5) ∧
    ¬ ∃ p, Feas Demo.inst { time := 5, next := -1, pd := [2, 1, 3] } p := by
  have hinv : ¬ Inv Demo.inst { time := 5, next := -1, pd := [2, 1, 3] } := by
    intro h
    have := h 0 (by decide)
    revert this
    decide
  refine ⟨by unfold StOk; decide, hinv, by decide +kernel, ?_⟩
  rintro ⟨p, hf⟩
  exact hinv (hf.inv Demo.instOk)

#print axioms dp_sound
#print axioms dp_complete
#print axioms bestRem_isMinOf
#print axioms bestRem_none_iff
#print axioms dpExact

end Ddo.Examples.PspModel
