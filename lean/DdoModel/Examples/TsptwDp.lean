import DdoModel.Dp
import DdoModel.Examples.Tsptw
import DdoModel.Examples.Util
/-! The DP model, relaxation, ranking, width heuristic and dominance rule of the shipped tsptw example
    (`ddo/examples/tsptw/{instance,state,model,relax,heuristics,dominance}.rs`, travelling salesman with time windows) in
    Lean: definitions only (the driver engine `exmodel`, family `tsptw`, compares them pointwise with the example's own code,
    compiled into the harness; statements about them are in `TsptwModel.lean`).

Mirror of the Rust code (MINIMISATION of the time at which the tour ends: the costs are NEGATED durations).
* `instance.rs`: every number of the file is parsed as `f32`, multiplied by `10000.0` and truncated to `usize`: the model
  works in 1/10000 of a time unit (`main.rs::objective` prints `-(x / 10000)` with two decimals).  The cases of the family
  give the numbers in HUNDREDTHS (multiples of 25, small enough for `f32` to be exact): model integer = `100 *` hundredths;
* `state.rs`: a state = position (`Node(i)` or `Virtual(set)`), elapsed time (`FixedAmount{d}` or `FuzzyAmount{e,l}`),
  `must_visit`, `maybe_visit : Option set`, `depth`.  Sets (`Set256`) are iterated in increasing order: sorted lists here;
* `model.rs`: root = `(Node 0, Fixed 0, {1..n-1}, None, 0)`, `initial_value = 0`; `next_variable(depth) = depth` unless
  `depth = n` (so `n + 1 ↦ n + 1`); `for_each_in_domain` (the variable is not read): at `depth = n - 1` the depot `0` iff
  `can_move_to(0)`; otherwise nothing as soon as ONE city of `must_visit` cannot be reached in time (`earliest(elapsed) +
  min distance ≤ latest_j`), else all of `must_visit` then the reachable cities of `maybe_visit`;
  `transition(s, j)`: `Node(j)`, `j` removed from both sets, `depth + 1`, elapsed = `arrival_time`: with `a = earliest +
  min distance`, `b = latest + max distance`: `a = b`: `Fixed(max a e_j)` (NOT clamped to `l_j`); else `e = max a e_j`,
  `l = min b l_j`, `Fixed e` if `e = l` else `Fuzzy(e, l)` (possibly `e > l`);
  `transition_cost = -(travel + waiting)`, travel = min distance, waiting = `max 0 (e_j - (earliest + travel))`;
* `relax.rs`: `cheapest_edge[i] = min_{j ≠ i} d[j][i]` (`usize::MAX` when `n = 1`); `merge`: depth = max, position =
  `Virtual(∪)`, elapsed = `[min earliest, max latest]` (`Fixed` when equal), `must = ∩`, `maybe = (∪ maybe ∪ ∪ must) \ ∩ must`
  (`None` when empty); no state at all: `(Virtual ∅, Fuzzy(usize::MAX, 0), {0..255}, None, 0)`; `relax = cost + (dest.earliest − merged.earliest)` (repaired; `cost` before);
  `fast_upper_bound`: see `rub?` (line by line, `isize::MIN` = infeasible = inner `none`);
* `heuristics.rs`: ranking = comparison of the depths; `max_width = nb_vars * (depth + 1) * factor`;
* `dominance.rs`: key = `(position, must_visit)`, no coordinate, `use_value`: the inherited `partial_cmp` compares the values.
`usize` arithmetic is checked (the harness and the example's debug build panic on overflow): outer `none` = a panic. -/
namespace Ddo.Examples.TsptwModel
open Ddo Ddo.Examples Ddo.Examples.Util

inductive Pos where
  | node (i : Nat)
  | virt (s : List Nat)
deriving DecidableEq, Repr

inductive El where
  | fixed (d : Nat)
  | fuzzy (e l : Nat)
deriving DecidableEq, Repr

structure St where
  pos : Pos
  el : El
  must : List Nat
  maybe : Option (List Nat)
  depth : Nat
deriving DecidableEq, Repr

def El.earliest : El → Nat
  | .fixed d => d
  | .fuzzy e _ => e
def El.latest : El → Nat
  | .fixed d => d
  | .fuzzy _ l => l

def umax : Nat := 2 ^ 64 - 1
/-- checked `usize` addition -/
def uadd? (a b : Nat) : Option Nat := if a + b ≤ umax then some (a + b) else none
/-- `ElapsedTime::add_duration` -/
def addDur? : El → Nat → Option El
  | .fixed d, x => (uadd? d x).map .fixed
  | .fuzzy e l, x => do let e' ← uadd? e x; let l' ← uadd? l x; pure (.fuzzy e' l')

/-- what the model functions need: the `TsptwInstance` built by the reader and the table of `TsptwRelax::new` -/
structure Tab where
  n : Nat
  d : List (List Nat)
  tw : List (Nat × Nat)
  ce : List Nat

def minNat : List Nat → Option Nat
  | [] => none
  | x :: xs => some (xs.foldl min x)
def maxNat : List Nat → Option Nat
  | [] => none
  | x :: xs => some (xs.foldl max x)

def distOf (d : List (List Nat)) (i j : Nat) : Nat := (d.getD i []).getD j 0

/-- `TsptwRelax::compute_cheapest_edges` -/
def cheapestOf (n : Nat) (d : List (List Nat)) : List Nat :=
  (List.range n).map fun i => ((List.range n).filter (· != i)).foldl (fun m j => min m (distOf d j i)) umax

/-- the instance the reader builds from numbers in hundredths (`x.xx * 10000.0` truncated) -/
def tabOf (n : Nat) (dh : List Int) (twh : List (Int × Int)) : Tab :=
  let d := (List.range n).map fun i => (List.range n).map fun j => ((dh.getD (i * n + j) 0) * 100).toNat
  { n := n, d := d, tw := twh.map (fun (e, l) => ((e * 100).toNat, (l * 100).toNat)), ce := cheapestOf n d }

variable (T : Tab)

def dist? (i j : Nat) : Option Nat := (T.d[i]?).bind (·[j]?)
def tw? (j : Nat) : Option (Nat × Nat) := T.tw[j]?

/-- `min_distance_to` / `max_distance_to`; `none` = a panic (index out of range, empty set of positions) -/
def minDist? (s : St) (j : Nat) : Option Nat :=
  match s.pos with
  | .node i => dist? T i j
  | .virt c => do let ds ← c.mapM (dist? T · j); minNat ds
def maxDist? (s : St) (j : Nat) : Option Nat :=
  match s.pos with
  | .node i => dist? T i j
  | .virt c => do let ds ← c.mapM (dist? T · j); maxNat ds

/-- `can_move_to` -/
def canMove? (s : St) (j : Nat) : Option Bool := do
  let (_, lj) ← tw? T j
  let md ← minDist? T s j
  let a ← addDur? s.el md
  pure (decide (a.earliest ≤ lj))

def initSt : St := { pos := .node 0, el := .fixed 0, must := (List.range T.n).drop 1, maybe := none, depth := 0 }

def nextVar (depth : Nat) : Option Nat := if depth = T.n then none else some depth

/-- the first loop of `for_each_in_domain`: stops (no panic further on) at the first unreachable city -/
def allReach? (s : St) : List Nat → Option Bool
  | [] => some true
  | i :: r => do let b ← canMove? T s i; if b then allReach? s r else pure false

/-- `for_each_in_domain` in call order; `none` = a panic -/
def domain? (s : St) : Option (List Int) :=
  if T.n = 0 then none else
  if s.depth = T.n - 1 then do
    let b ← canMove? T s 0
    pure (if b then [0] else [])
  else do
    let ok ← allReach? T s s.must
    if !ok then pure [] else
    let ys ← match s.maybe with
      | none => pure []
      | some ys => ys.filterMapM (fun i => do let b ← canMove? T s i; pure (if b then some i else none))
    pure ((s.must ++ ys).map Int.ofNat)

/-- `arrival_time` -/
def arrival? (s : St) (j : Nat) : Option El := do
  let mn ← minDist? T s j
  let mx ← maxDist? T s j
  let a1 ← addDur? s.el mn
  let a2 ← addDur? s.el mx
  let (ej, lj) ← tw? T j
  let a := a1.earliest
  let b := a2.latest
  if a = b then pure (.fixed (max a ej)) else
  let e := max a ej
  let l := min b lj
  pure (if e = l then .fixed e else .fuzzy e l)

/-- `transition`; `none` = a panic (a city that does not exist, a position that does not exist) -/
def trans? (s : St) (d : Dec) : Option St :=
  if d.val < 0 ∨ d.val ≥ T.n then none else do
    let j := d.val.toNat
    let el ← arrival? T s j
    pure { pos := .node j, el := el, must := s.must.erase j, maybe := s.maybe.map (·.erase j), depth := s.depth + 1 }

/-- `transition_cost`; `none` = a panic -/
def cost? (s : St) (d : Dec) : Option Int :=
  if d.val < 0 ∨ d.val ≥ T.n then none else do
    let j := d.val.toNat
    let (ej, _) ← tw? T j
    let travel ← minDist? T s j
    let a ← uadd? s.el.earliest travel
    let waiting := if a < ej then ej - a else 0
    pure (-((travel + waiting : Nat) : Int))

def domain (s : St) : List Int := (domain? T s).getD []
def trans (s : St) (d : Dec) : St := (trans? T s d).getD s
def cost (s : St) (d : Dec) : Int := (cost? T s d).getD 0

def problem : Problem St :=
  { nbVars := T.n
    init := initSt T
    initVal := 0
    trans := trans T
    cost := fun s _ d => cost T s d
    nextVar := fun depth _ => nextVar T depth
    domain := fun _ s => domain T s
    impacted := fun _ _ => true }

/-- a `Set256` from a list: increasing order, no duplicate, members below 256 -/
def norm (l : List Nat) : List Nat := (List.range 256).filter (fun x => l.contains x)

def posSet : Pos → List Nat
  | .node i => [i]
  | .virt c => c

/-- `TsptwRelax::merge` (never panics) -/
def merge (X : List St) : St :=
  let depth := X.foldl (fun m s => max m s.depth) 0
  let pos := norm (X.flatMap fun s => posSet s.pos)
  let e := X.foldl (fun m s => min m s.el.earliest) umax
  let l := X.foldl (fun m s => max m s.el.latest) 0
  let allMust := norm (X.flatMap (·.must))
  let agree := X.foldl (fun a s => a.filter (s.must.contains ·)) (List.range 256)
  let allMaybe := X.flatMap fun s => s.maybe.getD []
  let maybe := (norm (allMaybe ++ allMust)).filter (!agree.contains ·)
  { pos := .virt pos, el := if e = l then .fixed e else .fuzzy e l, must := agree,
    maybe := if maybe.isEmpty then none else some maybe, depth := depth }

def insertSorted (x : Nat) : List Nat → List Nat
  | [] => [x]
  | y :: ys => if x ≤ y then x :: y :: ys else y :: insertSorted x ys
def sortNat (l : List Nat) : List Nat := l.foldr insertSorted []

def usum? (l : List Nat) : Option Nat := l.foldlM uadd? 0

/-- the loop of `fast_upper_bound` over `must_visit`: outer `none` = a panic, inner `none` = `isize::MIN`, else
    `(complete_tour, mandatory, back_to_depot)` -/
def rubMust? (el : El) : List Nat → Nat → Nat → Nat → Option (Option (Nat × Nat × Nat))
  | [], ct, mand, back => some (some (ct, mand, back))
  | i :: r, ct, mand, back =>
    if ct = 0 then some none else do
      let ce ← T.ce[i]?
      let mand' ← uadd? mand ce
      let di0 ← dist? T i 0
      let (_, li) ← tw? T i
      let a ← addDur? el ce
      if a.earliest > li then pure none else rubMust? el r (ct - 1) mand' (min back di0)

/-- `fast_upper_bound`: outer `none` = a panic, inner `none` = `isize::MIN` (infeasible) -/
def rub? (s : St) : Option (Option Int) :=
  if s.depth > T.n then none else
  match rubMust? T s.el s.must (T.n - s.depth) 0 umax with
  | none => none
  | some none => some none
  | some (some (ct, mand, back)) => do
    let r ← (match s.maybe with
      | none => pure (some (mand, back))
      | some ys => do
        let ces ← ys.mapM (T.ce[·]?)
        let backs ← ys.mapM (dist? T · 0)
        let viol ← ys.mapM (fun i => do
          let ce ← T.ce[i]?
          let (_, li) ← tw? T i
          let a ← addDur? s.el ce
          pure (decide (a.earliest > li)))
        let ct' := ct - 1
        if ys.length - (viol.filter id).length < ct' then pure none else do
          let extra ← usum? ((sortNat ces).take ct')
          let mand' ← uadd? mand extra
          pure (some (mand', backs.foldl min back)) : Option (Option (Nat × Nat)))
    match r with
    | none => pure none
    | some (mand, back) => do
      let back ← (if mand = 0 then do let h ← minDist? T s 0; pure (min back h) else pure back : Option Nat)
      let total ← uadd? mand back
      let a ← addDur? s.el total
      let (_, l0) ← tw? T 0
      pure (if a.earliest > l0 then none else some (-(total : Int)))

/-- the relaxation AS SHIPPED BEFORE the repair (`fix:` commit of /repo, finding D20): `relax` returned the cost unchanged although
    `merge` keeps the earliest time — a later arrival merged with an earlier one and then absorbed by a wait was charged that wait
    twice (`TsptwModel.potential_form_fails`) -/
def relaxationOld : Relax St :=
  { merge := merge
    relax := fun _ _ _ _ c => c
    rub := fun s => match rub? T s with | some (some v) => v | _ => 0 }

/-- `TsptwRelax` (repaired): the arc redirected to the merged node gives back the time by which its former target is later
    than the merged node (`cost + (dest.earliest - merged.earliest)`) -/
def relaxation : Relax St :=
  { merge := merge
    relax := fun _ u m _ c => c + ((u.el.earliest : Int) - (m.el.earliest : Int))
    rub := fun s => match rub? T s with | some (some v) => v | _ => 0 }

/-- `TsptwRanking::compare` -/
def rankCmp (a b : St) : Ordering := compare a.depth b.depth

/-- `TsptwWidth::max_width` -/
def maxWidth (nbVars factor depth : Nat) : Nat := nbVars * (depth + 1) * factor

/-- `TsptwKey::eq` -/
def keyEq (a b : St) : Bool := a.pos == b.pos && a.must == b.must

/-- the inherited `Dominance::partial_cmp` with no coordinate and `use_value() = true`: `(ordering, only_val_diff)` -/
def domCmp (va vb : Int) : Ordering × Bool :=
  match compare va vb with
  | .gt => (.gt, true)
  | .lt => (.lt, true)
  | .eq => (.eq, false)

-- ------------------------------------------------------------------------------------------------------------------
-- what the driver evaluates pointwise (exhaustive enumeration over the remaining steps with the model's own functions)

/-- the value-to-go of `s`: the best total transition cost over ALL completions of `s` (every sequence of decisions on the
    variables `s.depth, …, n-1`, each in the domain of the state reached); `none` = −∞ (no completion).
    `fuel ≥ n - s.depth`. -/
def bestRemF : Nat → St → EInt
  | 0, _ => some 0
  | fuel + 1, s =>
    if s.depth ≥ T.n then some 0 else
    (domain T s).foldl (fun acc v => EInt.max acc ((bestRemF fuel (trans T s ⟨s.depth, v⟩)).addI (cost T s ⟨s.depth, v⟩))) none
def bestRem (s : St) : EInt := bestRemF T (T.n - s.depth) s

/-- the value-to-go over the LEGITIMATE completions only — those that end with every mandatory city visited (a state reached
    from a merged one may fill its remaining steps with optional cities and arrive at the last layer with mandatory cities
    left: a path of the relaxed diagram, not a tour).  On the states reached exactly this is `bestRem`
    (`TsptwModel.bestRemL_eq_on_exact`, stated); this is the potential the pointwise `RubOk` / `MergeOk` are evaluated with -/
def bestRemLF : Nat → St → EInt
  | 0, s => if s.must.isEmpty then some 0 else none
  | fuel + 1, s =>
    if s.depth ≥ T.n then (if s.must.isEmpty then some 0 else none) else
    (domain T s).foldl (fun acc v => EInt.max acc ((bestRemLF fuel (trans T s ⟨s.depth, v⟩)).addI (cost T s ⟨s.depth, v⟩))) none
def bestRemL (s : St) : EInt := bestRemLF T (T.n - s.depth) s

/-- the states the pointwise statements are about: a depth `≤ n`, positions that exist (at least one; the depot alone on the last layer), cities `1..n-1` to
    visit none of which is a MANDATORY city the salesman stands on, times far from the end of `usize` -/
def validB (s : St) : Bool :=
  decide (1 ≤ T.n) && decide (s.depth ≤ T.n) && (decide (s.depth < T.n) || posSet s.pos == [0]) && !(posSet s.pos).isEmpty && (posSet s.pos).all (· < T.n) &&
  s.must.all (fun i => decide (1 ≤ i ∧ i < T.n) && !(posSet s.pos).contains i) &&
  (s.maybe.getD []).all (fun i => decide (1 ≤ i ∧ i < T.n)) &&
  decide (s.el.earliest < 2 ^ 40) && decide (s.el.latest < 2 ^ 40)

/-- the states `RubOk` is evaluated on: not the merged states one of whose possible positions is also an optional city (the
    model lets the salesman "move" to the city he may already stand on at no cost; the bound counts the cheapest edge INTO
    that city from another one) -/
def rubScope (s : St) : Bool :=
  match s.pos with
  | .node _ => true
  | .virt c => c.all (fun i => !(s.maybe.getD []).contains i)

/-- `RubOk` at one state: the bound `r` claimed for `s` (`none` = `isize::MIN`) dominates the value-to-go -/
def rubOkAt (s : St) (r : EInt) : Bool := decide (bestRemL T s ≤ r)

/-- `MergeOk` (potential form, `Wf.lean`) at one merged-away state `u`, merged state `m`, arc cost `c` relaxed to `r`:
    if `u` has a completion worth `h` then `m` has one worth `h'` with `c + h ≤ r + h'` -/
def mergeOkAt (u m : St) (c r : Int) : Bool :=
  match bestRem T u with
  | none => true
  | some h =>
    match bestRem T m with
    | none => false
    | some h' => decide (c + h ≤ r + h')

/-- the invariant of the nodes of a decision diagram of this model: the value of a node is minus the earliest time of its
    state (exact nodes: a single position, a fixed time, no optional city) -/
def exactShape (s : St) (v : Int) : Bool :=
  match s.pos, s.el, s.maybe with
  | .node _, .fixed t, none => v == -(t : Int)
  | _, _, _ => false
def valueInv (s : St) (v : Int) : Bool := v == -(s.el.earliest : Int)

/-- `MergeOk` in the form the tsptw relaxation satisfies (value form): a node `(u, v)` with `v = -earliest(u)` merged into `m`
    (whose value is then at least `-earliest(m)`): `v + H(u) ≤ -earliest(m) + H(m)` -/
def mergeValOkAt (u m : St) : Bool :=
  match bestRemL T u with
  | none => true
  | some h =>
    match bestRemL T m with
    | none => false
    | some h' => decide (-(u.el.earliest : Int) + h ≤ -(m.el.earliest : Int) + h')

/-- admissibility of a dominance verdict between two exact nodes of one layer with the same key: the dominated one (smaller
    value) has no better completion, value included -/
def domOkAt (a : St) (va : Int) (b : St) (vb : Int) : Bool :=
  match (domCmp va vb).1 with
  | .lt => decide ((bestRem T a).addI va ≤ (bestRem T b).addI vb)
  | .gt => decide ((bestRem T b).addI vb ≤ (bestRem T a).addI va)
  | .eq => true

-- ------------------------------------------------------------------------------------------------------------------
-- the independent specification (`Tsptw.lean`)

def dI (i j : Nat) : Int := (distOf T.d i j : Nat)
def eI (i : Nat) : Int := ((T.tw.getD i (0, 0)).1 : Nat)
def lI (i : Nat) : Int := ((T.tw.getD i (0, 0)).2 : Nat)

/-- the specification's best tour among those that start with the cities `decs` (a complete prefix ends with the depot):
    minus the earliest end of such a tour by `Tsptw.finish` over all orders of the other cities; `none` = no feasible one.
    With no decision at all this is `Tsptw.spec` (`TsptwModel.spec_eq_specBestExt`) -/
def specBestExt (decs : List Int) : EInt :=
  let pre := decs.map Int.toNat
  if pre.length ≥ T.n then
    (Tsptw.finish (dI T) (eI T) (lI T) 0 0 pre).map (fun t => -t)
  else
    let rest := ((List.range T.n).drop 1).filter (fun c => !pre.contains c)
    let tours := (Tsptw.perms rest).map (fun p => pre ++ p ++ [0])
    (Tsptw.minimum (tours.filterMap (Tsptw.finish (dI T) (eI T) (lI T) 0 0))).map (fun t => -t)

/-- in the domain of the example: at least the depot, a zero diagonal, the triangle inequality, closed windows -/
def inDomain : Bool :=
  decide (1 ≤ T.n) && T.tw.length == T.n &&
  (List.range T.n).all (fun i => distOf T.d i i == 0) &&
  (List.range T.n).all (fun i => (List.range T.n).all fun j => (List.range T.n).all fun k =>
    decide (distOf T.d i j ≤ distOf T.d i k + distOf T.d k j)) &&
  T.tw.all (fun (e, l) => decide (e ≤ l))

end Ddo.Examples.TsptwModel
