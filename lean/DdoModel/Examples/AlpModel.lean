import DdoModel.Examples.AlpDp
/-! Statements and proofs about the Lean model of the shipped alp example (`AlpDp.lean`, the model the driver engine
    `exmodel`, family `alp`, ties pointwise to the example's own code).

* `arrival_ge_target`, `cost_nonpos` (**proved**): no aircraft lands before its target time; every transition cost (a
  negated delay) is `≤ 0`;
* `rub_admissible` (**proved**, no hypothesis on the instance or the state): the rough upper bound (`0`) dominates the best
  total transition cost of any completion of any state, `bestRem I fuel s ≤ some 0` — `RubOk` for the potential "best
  completion under the model's own domains and transition costs"; `rubOkAt_rub`: what the driver evaluates pointwise
  (`rubOkAt`) holds for the bound of the model;
* `minSepTo_le` (**proved**): `min_separation_to[j]` is a lower bound of COLUMN `j` of the separation matrix — the
  separation before an aircraft of class `j` whatever was landed before it; this is what a walk from a merged state relies
  on, and what the transposed index (`separation[j][i]`, the row) breaks on asymmetric matrices;
* `MergeOkStmt`, `DomAdmissibleStmt` (`def … : Prop`, as first written, on `StOk` states): **FALSE** — kernel-checked
  counter-examples `mergeOkStmt_false`, `mergeOkStmt_false'`, `domAdmissibleStmt_false` (`AlpProofsMain.lean`), all on states
  NO run can build (`StOk` forgot that runway times are `≥ 0` and runway classes are `-1` or classes of the instance); not a
  defect of the example;
* `MergeOkValidStmt`, `DomAdmissibleValidStmt` (end of this file: the same on `StValid` states = `StOk` + those two facts):
  **theorems** `mergeOkValid`, `domAdmissibleValid` (`AlpProofsMain.lean`; every instance of the input domain; the proof —
  `AlpProofsSort/Dom/Sim.lean` — is a simulation on best completions: the relaxing state answers a landing by the same
  landing on the matched runway, or by nothing when it has not the aircraft; uses the triangle inequality, `minSepTo_le`,
  and that the early `return` and the symmetry breaking of `for_each_in_domain` lose nothing);
* `wfRel` (`AlpProofsWf.lean`): the `WfRel` instance (potential `best`); `alp_relaxed_ub_partial`: the corollary of the generic
  relaxed-diagram theorem, conditional on `NoClampDom`, which `noClampDom_false` shows to be false for this model (the clause
  quantifies over ill-shaped states too);
* `DpExactStmt` (value of a prefix + best completion = minus the least delay of the specification `Alp.delay` — every
  order, every runway assignment, each landing as early as possible — among the schedules extending the prefix):
  **theorem** `dpExact` (`AlpProofsPrefix.lean`), on every instance of the input domain; `DpExactRootStmt` (end of this file:
  the empty prefix): **theorem** `dpExactRoot` / `root_exact` (`AlpProofsExact.lean`).  Proof: the value-to-go of ANY valid
  state is the best worth of a schedule (`Sched`) of the remaining aircraft from the physical runways of the state
  (`sched_le_best`: the exchange argument inside a class — the earliest event of a schedule is answered by landing the
  first remaining aircraft of its class, where the sorted targets / latest times enter; `best_sched`: separation from the
  last landing of a runway implies separation from all of them, by the triangle inequality; sorted runways vs physical
  ones: `sortRw_eq_of_perm`, `set_perm_of_perm`); schedules from the root are the solutions of the declarative problem
  `Ddo.C16.AlpD.Feasible` (`Props/C16.lean`); for a prefix, `replayPhys` keeps the invariant `RInv` (the tagged stable sort
  carries the physical identities; the landings of the specification stay compatible with the runway states: `Compat`);
* `alp_relaxed_ub` (`AlpProofsClosed.lean`): the closed corollary of the generic relaxed-diagram theorem through
  `CoverRel.relaxed_ub_rel_valid` (`NoClampRel` on valid states: `noClampRel`, for latest times within `B`,
  `(n + 2) · B ≤ 2^62`), against the specification `Alp.spec`; non-vacuity instance `Demo`.
  Nothing is left stated-only. -/
namespace Ddo.Examples.AlpModel
open Ddo Ddo.Examples Ddo.Examples.Util

variable (I : Inst)

theorem arrival_ge_target (info : List Rw) (a r : Nat) : I.tgt a ≤ arrival I info a r := by
  unfold arrival
  simp only []
  split
  · exact Int.le_refl _
  · split
    · exact Int.le_max_left _ _
    · exact Int.le_max_left _ _

theorem cost_nonpos {s : St} {v c : Int} (h : cost? I s v = some c) : c ≤ 0 := by
  unfold cost? at h
  split at h
  · cases h; exact Int.le_refl _
  · split at h
    · cases h
    · simp only [] at h
      split at h
      · cases h
      · split at h
        · cases h
          have := arrival_ge_target I s.2 ‹Nat› (fromDecision I v).2
          omega
        · cases h

private theorem foldl_le_zero {α : Type} (f : EInt → α → EInt) (l : List α) (acc : EInt)
    (hacc : acc ≤ some 0) (hf : ∀ a x, a ≤ some 0 → x ∈ l → f a x ≤ some 0) : l.foldl f acc ≤ some 0 := by
  induction l generalizing acc with
  | nil => exact hacc
  | cons x r ih =>
    simp only [List.foldl_cons]
    exact ih _ (hf _ _ hacc (List.mem_cons_self ..)) (fun a y ha hy => hf a y ha (List.mem_cons_of_mem _ hy))

private theorem emax_le {a b : EInt} {z : Int} (ha : a ≤ some z) (hb : b ≤ some z) : EInt.max a b ≤ some z := by
  cases a <;> cases b <;> simp_all [EInt.max] <;> omega

private theorem addI_le {a : EInt} {c : Int} (ha : a ≤ some 0) (hc : c ≤ 0) : a.addI c ≤ some 0 := by
  cases a with
  | none => exact EInt.none_le _
  | some x =>
    have hx : x ≤ 0 := (EInt.some_le_some x 0).mp ha
    show (some (x + c) : EInt) ≤ some 0
    exact (EInt.some_le_some _ _).mpr (by omega)

/-- `RubOk`: the rough upper bound `0` dominates every completion of every state -/
theorem rub_admissible (fuel : Nat) (s : St) : bestRem I fuel s ≤ some 0 := by
  induction fuel generalizing s with
  | zero => exact EInt.le_refl _
  | succ fuel ih =>
    unfold bestRem
    simp only []
    split
    · exact EInt.le_refl _
    · apply foldl_le_zero
      · exact EInt.none_le _
      · intro acc v hacc _
        split
        · next s2 c _ hc => exact emax_le hacc (addI_le (ih s2) (cost_nonpos I hc))
        · exact hacc

/-- what the driver evaluates on every `rub` event holds for the bound of the model -/
theorem rubOkAt_rub (s : St) : rubOkAt I s ((relaxation I).rub s) = true := by
  unfold rubOkAt best
  exact decide_eq_true (rub_admissible I _ s)

private theorem foldl_min_le (f : Nat → Int) (l : List Nat) (m : Int) :
    l.foldl (fun m i => min m (f i)) m ≤ m ∧ ∀ i ∈ l, l.foldl (fun m i => min m (f i)) m ≤ f i := by
  induction l generalizing m with
  | nil => exact ⟨Int.le_refl _, fun _ h => by cases h⟩
  | cons x r ih =>
    simp only [List.foldl_cons]
    have h := ih (min m (f x))
    refine ⟨by have := h.1; omega, fun i hi => ?_⟩
    cases hi with
    | head => have := h.1; omega
    | tail _ hr => exact h.2 i hr

/-- `min_separation_to[j]` is a lower bound of column `j` -/
theorem minSepTo_le {i : Nat} (j : Nat) (h : i < I.nbClasses) : I.minSepTo j ≤ I.sepAt i j :=
  (foldl_min_le (fun i => I.sepAt i j) (List.range I.nbClasses) iMax).2 i (List.mem_range.mpr h)

/-- the states of a layer as the model produces them: the runways sorted, one entry per class / runway -/
def StOk (s : St) : Prop := s.1.length = I.nbClasses ∧ s.2.length = I.nbRunways ∧ sortRw s.2 = s.2

/-- `MergeOk` (stated): on an instance of the domain, the best completion of the merged state is worth at least the best
    completion of each merged state (`relax` leaves the arc costs unchanged) -/
def MergeOkStmt : Prop :=
  I.inDomain = true → ∀ (ts : List St) (t : St), (∀ u ∈ ts, StOk I u) → t ∈ ts → best I t ≤ best I (mergeStates I ts)

/-- admissibility of the dominance rule (stated): same key, every coordinate of `a` at least that of `b` (no runway
    later) — then `a` reaches at least what `b` reaches -/
def DomAdmissibleStmt : Prop :=
  I.inDomain = true → ∀ (a b : St), StOk I a → StOk I b → keyOf a = keyOf b →
    (∀ i : Nat, i < I.nbRunways → domRule.coord b i ≤ domRule.coord a i) → best I b ≤ best I a

/-- exactness of the DP model (stated): along any path of the model from the root, value + best completion is minus the
    least delay of the specification among the schedules that extend the landings of the path -/
def DpExactStmt : Prop :=
  I.inDomain = true → ∀ (decs : List Int) (s : St) (v : Int) (pre : List (Nat × Nat)),
    replayPhys I decs (initState I) (List.range I.nbRunways) 0 [] = some (s, v, pre) →
    (best I s).addI v = (specExt I pre).map (fun d => -d)

-- ------------------------------------------------------------------------------------------------------------------
-- the statements restricted to the states the model can produce (proofs: `AlpProofs*.lean`)

/-- a runway as the model produces them: a non-negative time (no aircraft lands before its target time, and the targets
    of the domain are `≥ 0`), class `-1` (unknown) or a class of the instance -/
def RwOk (p : Rw) : Prop := 0 ≤ p.1 ∧ -1 ≤ p.2 ∧ p.2 < (I.nbClasses : Int)

/-- `StOk` and every runway is `RwOk`: what `StOk` forgot (the statements above are FALSE on `StOk` states whose runways
    carry a negative time or a class that is not one of the instance: `AlpProofsMain.lean`, `mergeOkStmt_false`,
    `domAdmissibleStmt_false`) -/
def StValid (s : St) : Prop := StOk I s ∧ ∀ p ∈ s.2, RwOk I p

/-- `MergeOkStmt` on valid states -/
def MergeOkValidStmt : Prop :=
  I.inDomain = true → ∀ (ts : List St) (t : St), (∀ u ∈ ts, StValid I u) → t ∈ ts → best I t ≤ best I (mergeStates I ts)

/-- `DomAdmissibleStmt` on valid states -/
def DomAdmissibleValidStmt : Prop :=
  I.inDomain = true → ∀ (a b : St), StValid I a → StValid I b → keyOf a = keyOf b →
    (∀ i : Nat, i < I.nbRunways → domRule.coord b i ≤ domRule.coord a i) → best I b ≤ best I a

/-- `DpExactStmt` at the root (the empty prefix): the best completion of the root is minus the least total delay of the
    specification, `none` when no schedule is feasible -/
def DpExactRootStmt : Prop :=
  I.inDomain = true → best I (initState I) = (specExt I []).map (fun d => -d)

end Ddo.Examples.AlpModel
