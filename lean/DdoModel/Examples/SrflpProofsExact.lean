import DdoModel.Examples.SrflpProofsBase
import DdoModel.Props.C16
/-! The DP model of the srflp example is exact on instances of at most 64 departments (`dpExact_partial`,
    `dpExactPrefix_partial`): twice (`root_value()` minus the value of a prefix and the value-to-go of the state reached) is the
    least `Srflp.cost2` over the orders that extend the prefix.  (The model's `trans?` answers `none` for departments `≥ 64` —
    `Set64` —: the statements are not provable for `T.n > 64`.)
    (A) on exact states (`maybe = none`) the value-to-go is the best `runCost` over the orders of `must_place`
        (`run_le_bestRemF`, `bestRemF_attained`);
    (B) along an order of all departments, `root2 - 2 * runCost = cost2` (`cost2_eq_run`). -/
namespace Ddo.Examples.SrflpModel
open Ddo Ddo.Examples Ddo.Examples.Util Ddo.SpecUtil Ddo.C16
variable (T : Tab)

/-- the total transition cost of placing the departments `q` in that order from state `s` -/
def runCost (T : Tab) : St → List Nat → Int
  | _, [] => 0
  | s, j :: q => cost T s ⟨s.depth, (j : Int)⟩ + runCost T (stepSt T s j) q

theorem mbOf_exact {s : St} (hM : s.maybe = none) : mbOf s = [] := by
  unfold mbOf; rw [hM]; rfl

theorem stepSt_exact {s : St} (hM : s.maybe = none) (i : Nat) : (stepSt T s i).maybe = none := by
  unfold stepSt; simp [hM]

theorem filter_ne_eq_erase {l : List Nat} (hl : l.Nodup) (i : Nat) : l.filter (· ≠ i) = l.erase i := by
  rw [hl.erase_eq_filter]
  apply List.filter_congr
  intro x _
  by_cases hx : x = i <;> simp [hx]

theorem mem_domain_exact {s : St} (hG : Good T s) (hM : s.maybe = none) (v : Int) :
    v ∈ domain T s ↔ ∃ i : Nat, v = (i : Int) ∧ i ∈ s.must := by
  rw [mem_domain T hG, mbOf_exact hM]
  simp

theorem must_length_exact {s : St} (hG : Good T s) (hM : s.maybe = none) : s.must.length = T.n - s.depth := by
  have h1 := hG.must_le
  have h2 := hG.fill
  rw [mbOf_exact hM] at h2
  simp at h2
  omega

/-- (A1) every order of the remaining departments is a completion -/
theorem run_le_bestRemF (hI : Inst T) (h64 : T.n ≤ 64) : ∀ (q : List Nat) (s : St), Good T s → s.maybe = none → q.Perm s.must →
    (some (runCost T s q) : EInt) ≤ bestRemF T q.length s := by
  intro q
  induction q with
  | nil => intro s _ _ _; exact EInt.le_refl _
  | cons j q ih =>
    intro s hG hM hp
    have hjm : j ∈ s.must := hp.subset List.mem_cons_self
    have hjd : (j : Int) ∈ domain T s := (mem_domain_exact T hG hM _).mpr ⟨j, rfl, hjm⟩
    obtain ⟨hjn, hd⟩ := domain_lt T hG hjd
    rw [List.length_cons, bestRemF_succ T _ s hd, runCost]
    refine EInt.le_trans ?_ ((foldl_emax_ge _ _ _).2 (j : Int) hjd)
    rw [trans_nat T s s.depth j (by rw [hG.cut_len]; exact hjn) (by omega)]
    have hp' : q.Perm (stepSt T s j).must := by
      rw [stepSt_must, filter_ne_eq_erase (pairwise_lt_nodup hG.must_sorted)]
      have := hp.erase j
      rwa [List.erase_cons_head] at this
    have := ih (stepSt T s j) (good_step T hI hG hjd) (stepSt_exact T hM j) hp'
    revert this
    generalize bestRemF T q.length (stepSt T s j) = b
    cases b <;> simp [EInt.addI]
    omega

/-- (A2) the value-to-go is attained by an order of the remaining departments -/
theorem bestRemF_attained (hI : Inst T) (h64 : T.n ≤ 64) : ∀ (fuel : Nat) (s : St), Good T s → s.maybe = none →
    s.must.length = fuel → ∃ q, q.Perm s.must ∧ bestRemF T fuel s = some (runCost T s q) := by
  intro fuel
  induction fuel with
  | zero =>
    intro s _ _ hl
    have : s.must = [] := List.eq_nil_of_length_eq_zero hl
    exact ⟨[], by rw [this], rfl⟩
  | succ fuel ih =>
    intro s hG hM hl
    have hnd : s.must.Nodup := pairwise_lt_nodup hG.must_sorted
    have hstep : ∀ v ∈ domain T s, ∃ j : Nat, v = (j : Int) ∧ j ∈ s.must ∧ ∃ q, q.Perm (s.must.erase j) ∧
        (bestRemF T fuel (trans T s ⟨s.depth, v⟩)).addI (cost T s ⟨s.depth, v⟩) = some (runCost T s (j :: q)) := by
      intro v hv
      obtain ⟨j, rfl, hjm⟩ := (mem_domain_exact T hG hM v).mp hv
      obtain ⟨hjn, hd⟩ := domain_lt T hG hv
      have hmust : (stepSt T s j).must = s.must.erase j := by rw [stepSt_must, filter_ne_eq_erase hnd]
      obtain ⟨q, hq, he⟩ := ih (stepSt T s j) (good_step T hI hG hv) (stepSt_exact T hM j)
        (by rw [hmust, List.length_erase_of_mem hjm, hl]; rfl)
      refine ⟨j, rfl, hjm, q, hmust ▸ hq, ?_⟩
      rw [runCost, trans_nat T s s.depth j (by rw [hG.cut_len]; exact hjn) (by omega), he]
      simp [EInt.addI]; omega
    have hd : s.depth < T.n := by
      have := hG.must_le
      omega
    rw [bestRemF_succ T _ s hd]
    cases hm : s.must with
    | nil => rw [hm] at hl; cases hl
    | cons j0 q0 =>
      have hv0 : (j0 : Int) ∈ domain T s := (mem_domain_exact T hG hM _).mpr ⟨j0, rfl, by rw [hm]; exact List.mem_cons_self⟩
      rcases foldl_emax_attained (fun v => (bestRemF T fuel (trans T s ⟨s.depth, v⟩)).addI (cost T s ⟨s.depth, v⟩))
        (domain T s) none with h | ⟨v, hv, h⟩
      · exfalso
        have hge := (foldl_emax_ge (fun v => (bestRemF T fuel (trans T s ⟨s.depth, v⟩)).addI (cost T s ⟨s.depth, v⟩))
          (domain T s) none).2 _ hv0
        rw [h] at hge
        obtain ⟨j, _, _, q, _, he⟩ := hstep _ hv0
        rw [he] at hge
        exact hge
      · obtain ⟨j, hvj, hjm, q, hq, he⟩ := hstep v hv
        refine ⟨j :: q, ?_, by rw [h, he]⟩
        rw [← hm]
        exact (hq.cons j).trans (List.perm_cons_erase hjm).symm

/-! ### (B) the accounting identity -/

/-- `Σ_t l_t · Σ_{j after t} w_j` -/
def after (l w : Nat → Int) : List Nat → Int
  | [] => 0
  | t :: r => l t * (r.map w).sum + after l w r

/-- `Σ_{i before j} g i j` -/
def pairSum (g : Nat → Nat → Int) : List Nat → Int
  | [] => 0
  | i :: r => (r.map (g i)).sum + pairSum g r

theorem sum_map_congr {q : List Nat} {a b : Nat → Int} (h : ∀ j ∈ q, a j = b j) : (q.map a).sum = (q.map b).sum := by
  rw [List.map_congr_left h]

theorem sum_map_add (q : List Nat) (a b : Nat → Int) : (q.map fun j => a j + b j).sum = (q.map a).sum + (q.map b).sum := by
  induction q with
  | nil => rfl
  | cons x q ih => simp only [List.map_cons, List.sum_cons, ih]; omega

theorem sum_map_mul_add (q : List Nat) (w a : Nat → Int) (c : Int) :
    (q.map fun k => w k * (a k + c)).sum = (q.map fun k => w k * a k).sum + c * (q.map w).sum := by
  induction q with
  | nil => simp
  | cons x q ih => simp only [List.map_cons, List.sum_cons, ih]; grind

theorem after_congr (l : Nat → Int) {q : List Nat} {a b : Nat → Int} (h : ∀ j ∈ q, a j = b j) : after l a q = after l b q := by
  induction q with
  | nil => rfl
  | cons x q ih =>
    have h' : ∀ j ∈ q, a j = b j := fun j hj => h j (List.mem_cons_of_mem _ hj)
    rw [after, after, ih h', sum_map_congr h']

theorem after_add (l a b : Nat → Int) (q : List Nat) : after l (fun j => a j + b j) q = after l a q + after l b q := by
  induction q with
  | nil => rfl
  | cons x q ih => rw [after, after, after, ih, sum_map_add]; grind

theorem after_zero (l : Nat → Int) (q : List Nat) : after l (fun _ => 0) q = 0 := by
  induction q with
  | nil => rfl
  | cons x q ih =>
    rw [after, ih]
    have : (q.map fun _ => (0 : Int)).sum = 0 := by
      clear ih; induction q with
      | nil => rfl
      | cons y q ih => simp [ih]
    rw [this]; simp

/-- (B1) the pairs of a department with those placed after it -/
theorem pairsFrom_eq (l : Nat → Int) (c : Nat → Nat → Int) (i : Nat) : ∀ (rest : List Nat) (B : Int),
    Srflp.pairsFrom l c i B rest =
      (rest.map fun j => c (min i j) (max i j) * (l i + l j + B)).sum + 2 * after l (fun j => c (min i j) (max i j)) rest := by
  intro rest
  induction rest with
  | nil => intro B; rfl
  | cons j rest ih =>
    intro B
    rw [Srflp.pairsFrom, ih, after, List.map_cons, List.sum_cons]
    have := sum_map_mul_add rest (fun k => c (min i k) (max i k)) (fun k => l i + l k + B) (2 * l j)
    have e : (rest.map fun k => c (min i k) (max i k) * (l i + l k + (B + 2 * l j))).sum =
        (rest.map fun k => c (min i k) (max i k) * (l i + l k + B + 2 * l j)).sum := by
      apply sum_map_congr; intro k _; rw [Int.add_assoc (l i + l k)]
    rw [e, this]
    grind

theorem flow_minmax (hI : Inst T) {i j : Nat} (hi : i < T.n) (hj : j < T.n) : flow T (min i j) (max i j) = flow T i j := by
  by_cases h : i ≤ j
  · rw [Nat.min_eq_left h, Nat.max_eq_right h]
  · rw [Nat.min_eq_right (by omega), Nat.max_eq_left (by omega)]
    exact hI.flow_symm j i hj hi

theorem leastSum_nil (r : Nat) : leastSum r [] = 0 := by
  simp [leastSum, sortInts]

/-- the transition cost of an exact state -/
theorem cost_exact (hI : Inst T) {s : St} (hG : Good T s) (hM : s.maybe = none) {i : Nat} {q : List Nat}
    (hp : (i :: q).Perm s.must) (x : Nat) :
    cost T s ⟨x, (i : Int)⟩ = -((q.map (cutAt s)).sum) * lenOf T i := by
  have him : i ∈ s.must := hp.subset List.mem_cons_self
  have hid : (i : Int) ∈ domain T s := (mem_domain_exact T hG hM _).mpr ⟨i, rfl, him⟩
  rw [cost_nat T hI hG hid, mbOf_exact hM]
  simp only [List.filter_nil, List.map_nil, leastSum_nil, Int.add_zero]
  rw [sum_eq, filter_ne_eq_erase (pairwise_lt_nodup hG.must_sorted)]
  have hq : q.Perm (s.must.erase i) := by
    have := hp.erase i
    rwa [List.erase_cons_head] at this
  rw [perm_sum_eq (hq.map (cutAt s))]

/-- (B2) the transition costs along an order of the free departments of an exact state -/
theorem run_eq (hI : Inst T) : ∀ (q : List Nat) (s : St), Good T s → s.maybe = none → q.Perm s.must →
    -(2 * runCost T s q) = 2 * after (lenOf T) (cutAt s) q +
      (Srflp.cost2 (lenOf T) (flow T) q - pairSum (fun i j => (lenOf T i + lenOf T j) * flow T i j) q) := by
  intro q
  induction q with
  | nil => intro s _ _ _; rfl
  | cons i q ih =>
    intro s hG hM hp
    have hnd0 : (i :: q).Nodup := hp.nodup_iff.mpr (pairwise_lt_nodup hG.must_sorted)
    have hnd := List.nodup_cons.mp hnd0
    have him : i ∈ s.must := hp.subset List.mem_cons_self
    have hid : (i : Int) ∈ domain T s := (mem_domain_exact T hG hM _).mpr ⟨i, rfl, him⟩
    have hin : i < T.n := hG.lt i (Or.inl him)
    have hqm : ∀ j ∈ q, j ∈ s.must := fun j hj => hp.subset (List.mem_cons_of_mem _ hj)
    have hp' : q.Perm (stepSt T s i).must := by
      rw [stepSt_must, filter_ne_eq_erase (pairwise_lt_nodup hG.must_sorted)]
      have := hp.erase i
      rwa [List.erase_cons_head] at this
    have hih := ih (stepSt T s i) (good_step T hI hG hid) (stepSt_exact T hM i) hp'
    have hcut : ∀ j ∈ q, cutAt (stepSt T s i) j = cutAt s j + flow T i j := by
      intro j hj
      have hne : j ≠ i := fun e => hnd.1 (e ▸ hj)
      rw [cutAt_step T hG, if_neg hne, if_pos (Or.inl (hqm j hj))]
    rw [after_congr (lenOf T) hcut, after_add] at hih
    rw [runCost, cost_exact T hI hG hM hp, Srflp.cost2, pairsFrom_eq, after, pairSum]
    have hf : ∀ j ∈ q, flow T (min i j) (max i j) = flow T i j :=
      fun j hj => flow_minmax T hI hin (hG.lt j (Or.inl (hqm j hj)))
    rw [after_congr (lenOf T) hf]
    have e1 : (q.map fun j => flow T (min i j) (max i j) * (lenOf T i + lenOf T j + 0)).sum =
        (q.map fun j => (lenOf T i + lenOf T j) * flow T i j).sum := by
      apply sum_map_congr
      intro j hj
      rw [hf j hj, Int.add_zero, Int.mul_comm]
    rw [e1]
    grind

/-- (B3) `pairSum` of a symmetric function does not depend on the order -/
theorem pairSum_perm (g : Nat → Nat → Int) {l₁ l₂ : List Nat} (h : l₁.Perm l₂) :
    (∀ i ∈ l₁, ∀ j ∈ l₁, g i j = g j i) → pairSum g l₁ = pairSum g l₂ := by
  induction h with
  | nil => intro _; rfl
  | cons x hp ih =>
    intro hs
    rw [pairSum, pairSum, ih (fun i hi j hj => hs i (List.mem_cons_of_mem _ hi) j (List.mem_cons_of_mem _ hj)),
      perm_sum_eq (hp.map (g x))]
  | swap x y l =>
    intro hs
    have := hs y List.mem_cons_self x (List.mem_cons_of_mem _ List.mem_cons_self)
    simp only [pairSum, List.map_cons, List.sum_cons]
    omega
  | trans h1 _ ih1 ih2 =>
    intro hs
    rw [ih1 hs, ih2 (fun i hi j hj => hs i (h1.mem_iff.mpr hi) j (h1.mem_iff.mpr hj))]

theorem sum_flatMap {α : Type} (l : List α) (f : α → List Int) : (l.flatMap f).sum = (l.map fun x => (f x).sum).sum := by
  induction l with
  | nil => rfl
  | cons x l ih => simp [List.flatMap_cons, List.sum_append, ih]

theorem pairSum_sorted (g : Nat → Nat → Int) : ∀ (l : List Nat), l.Pairwise (· < ·) →
    pairSum g l = (l.map fun i => ((l.filter (fun j => decide (i < j))).map (g i)).sum).sum := by
  intro l
  induction l with
  | nil => intro _; rfl
  | cons x r ih =>
    intro hp
    obtain ⟨hx, hr⟩ := List.pairwise_cons.mp hp
    rw [pairSum, ih hr, List.map_cons, List.sum_cons]
    have e1 : (x :: r).filter (fun j => decide (x < j)) = r := by
      rw [List.filter_cons_of_neg (by simp)]
      apply List.filter_eq_self.mpr
      intro a ha
      simpa using hx a ha
    have e2 : ∀ i ∈ r, (((x :: r).filter (fun j => decide (i < j))).map (g i)).sum =
        ((r.filter (fun j => decide (i < j))).map (g i)).sum := by
      intro i hi
      have := hx i hi
      rw [List.filter_cons_of_neg (by simp; omega)]
    rw [e1, List.map_congr_left e2]

theorem root2_eq : root2 T = pairSum (fun i j => (lenOf T i + lenOf T j) * flow T i j) (List.range T.n) := by
  rw [pairSum_sorted _ _ List.pairwise_lt_range, root2, sum_eq, sum_flatMap]

theorem cutAt_init (j : Nat) : cutAt (initSt T) j = 0 := by
  simp only [cutAt, initSt, List.getD_eq_getElem?_getD, List.getElem?_replicate]
  split <;> simp

/-- (B) twice the cost of an order of all departments is twice (`root_value()` minus the transition costs along it) -/
theorem cost2_eq_run (hI : Inst T) {q : List Nat} (hq : q.Perm (List.range T.n)) :
    Srflp.cost2 (lenOf T) (flow T) q = root2 T - 2 * runCost T (initSt T) q := by
  have h := run_eq T hI q (initSt T) (good_init T) rfl hq
  rw [after_congr (lenOf T) (fun j _ => cutAt_init T j), after_zero] at h
  have hs : ∀ i ∈ q, ∀ j ∈ q, (fun i j => (lenOf T i + lenOf T j) * flow T i j) i j =
      (fun i j => (lenOf T i + lenOf T j) * flow T i j) j i := by
    intro i hi j hj
    have hin : i < T.n := List.mem_range.mp (hq.mem_iff.mp hi)
    have hjn : j < T.n := List.mem_range.mp (hq.mem_iff.mp hj)
    show (lenOf T i + lenOf T j) * flow T i j = (lenOf T j + lenOf T i) * flow T j i
    rw [hI.flow_symm i j hin hjn, Int.add_comm]
  rw [pairSum_perm _ hq hs, ← root2_eq] at h
  omega

/-! ### `DpExactStmt` -/

theorem specBestExt_nil : specBestExt (specTable T) [] =
    minOf ((Srflp.perms (List.range T.n)).map (Srflp.cost2 (lenOf T) (flow T))) := by
  have hfilter : (specTable T).filter (fun e => e.1.take (([] : List Int).map Int.toNat).length == ([] : List Int).map Int.toNat) = specTable T := by
    apply List.filter_eq_self.mpr
    intro e _
    simp
  unfold specBestExt
  simp only [List.any_nil, Bool.false_eq_true, if_false]
  rw [hfilter]
  unfold specTable
  simp only [List.map_map]
  congr 1

/-- **the DP model is exact** (instances of at most 64 departments: the model's `trans?` refuses the departments `≥ 64`): twice
    (`root_value()` minus the value-to-go of the root) is the least `cost2` over all orders -/
theorem dpExact_partial (h64 : T.n ≤ 64) : DpExactStmt T := by
  intro hOk
  have hI := inst_of_instOk T hOk
  obtain ⟨q0, hq0, hbest⟩ := bestRemF_attained T hI h64 T.n (initSt T) (good_init T) rfl (by simp [initSt])
  have hq0 : q0.Perm (List.range T.n) := hq0
  have hB : bestRem T (initSt T) = some (runCost T (initSt T) q0) := hbest
  rw [hB, specBestExt_nil]
  have hmin : minOf ((Srflp.perms (List.range T.n)).map (Srflp.cost2 (lenOf T) (flow T))) =
      some (root2 T - 2 * runCost T (initSt T) q0) := by
    rw [minOf_eq_some]
    constructor
    · rw [List.mem_map]
      exact ⟨q0, by rw [srflp_perms, mem_perms]; exact hq0, cost2_eq_run T hI hq0⟩
    · intro y hy
      obtain ⟨q, hq, rfl⟩ := List.mem_map.mp hy
      rw [srflp_perms, mem_perms] at hq
      rw [cost2_eq_run T hI hq]
      have hle := run_le_bestRemF T hI h64 q (initSt T) (good_init T) rfl hq
      rw [hq.length_eq, List.length_range, hbest] at hle
      have : runCost T (initSt T) q ≤ runCost T (initSt T) q0 := hle
      omega
  rw [hmin]
  simp [printed2]

/-! ### the prefix form -/

/-- a successful replay from a good exact state places distinct free departments `pre`, reaches a good exact state whose free
    departments are the others, and its value is the `runCost` of `pre` -/
theorem replay (hI : Inst T) (h64 : T.n ≤ 64) : ∀ (decs : List Int) (d0 : Nat) (s0 : St) (v0 : Int) (s : St) (v : Int) (k : Nat),
    Good T s0 → s0.maybe = none →
    evalFrom (problem T) d0 s0 v0 ((List.range' d0 decs.length).zipWith (fun (k : Nat) (x : Int) => (⟨k, x⟩ : Dec)) decs) = some (s, v, k) →
    ∃ pre : List Nat, decs = pre.map (fun (i : Nat) => (i : Int)) ∧ Good T s ∧ s.maybe = none ∧ (pre ++ s.must).Perm s0.must ∧
      ∀ q, v + runCost T s q = v0 + runCost T s0 (pre ++ q) := by
  intro decs
  induction decs with
  | nil =>
    intro d0 s0 v0 s v k hG hM he
    simp only [List.length_nil, List.range'_zero, List.zipWith_nil_left, evalFrom, Option.some.injEq, Prod.mk.injEq] at he
    obtain ⟨rfl, rfl, _⟩ := he
    exact ⟨[], rfl, hG, hM, List.Perm.refl _, fun q => rfl⟩
  | cons x ds ih =>
    intro d0 s0 v0 s v k hG hM he
    rw [List.length_cons, List.range'_succ, List.zipWith_cons_cons, evalFrom] at he
    have hnv : (problem T).nextVar d0 [s0] = if d0 < T.n then some d0 else none := rfl
    rw [hnv] at he
    by_cases hd : d0 < T.n
    · rw [if_pos hd] at he
      simp only at he
      by_cases hc : (True ∧ x ∈ (problem T).domain d0 s0)
      · rw [if_pos hc] at he
        have hx : x ∈ domain T s0 := hc.2
        obtain ⟨i, rfl, him⟩ := (mem_domain_exact T hG hM x).mp hx
        obtain ⟨hin, _⟩ := domain_lt T hG hx
        have htr : (problem T).trans s0 ⟨d0, (i : Int)⟩ = stepSt T s0 i :=
          trans_nat T s0 d0 i (by rw [hG.cut_len]; exact hin) (by omega)
        rw [htr] at he
        obtain ⟨pre, hdecs, hG', hM', hperm, hrun⟩ :=
          ih (d0 + 1) (stepSt T s0 i) _ s v k (good_step T hI hG hx) (stepSt_exact T hM i) he
        refine ⟨i :: pre, by rw [hdecs]; rfl, hG', hM', ?_, fun q => ?_⟩
        · rw [stepSt_must, filter_ne_eq_erase (pairwise_lt_nodup hG.must_sorted)] at hperm
          exact (hperm.cons i).trans (List.perm_cons_erase him).symm
        · rw [hrun q, List.cons_append, runCost]
          have : (problem T).cost s0 (stepSt T s0 i) ⟨d0, (i : Int)⟩ = cost T s0 ⟨s0.depth, (i : Int)⟩ := rfl
          rw [this]
          omega
      · rw [if_neg hc] at he; cases he
    · rw [if_neg hd] at he; cases he

theorem specBestExt_nat (pre : List Nat) : specBestExt (specTable T) (pre.map fun (i : Nat) => (i : Int)) =
    minOf (((specTable T).filter (fun e => e.1.take pre.length == pre)).map (·.2)) := by
  have hany : (pre.map fun (i : Nat) => (i : Int)).any (· < 0) = false := by
    rw [List.any_eq_false]
    intro x hx
    obtain ⟨i, _, rfl⟩ := List.mem_map.mp hx
    simp
  have hpre : (pre.map fun (i : Nat) => (i : Int)).map Int.toNat = pre := by
    rw [List.map_map]
    have : (Int.toNat ∘ fun (i : Nat) => (i : Int)) = id := by funext i; simp
    rw [this, List.map_id]
  unfold specBestExt
  simp only [hany, hpre, Bool.false_eq_true, if_false]

/-- **the DP model is exact on every prefix** (instances of at most 64 departments): after any replayed prefix of decisions, twice
    (`root_value()` minus the value of the prefix and the value-to-go of the state reached) is the least `cost2` among the orders
    that begin with the prefix -/
theorem dpExactPrefix_partial (h64 : T.n ≤ 64) : DpExactPrefixStmt T := by
  intro hOk decs s v k he
  have hI := inst_of_instOk T hOk
  rw [List.range_eq_range'] at he
  obtain ⟨pre, rfl, hG, hM, hperm, hrun⟩ := replay T hI h64 decs 0 (initSt T) 0 s v k (good_init T) rfl he
  have hperm : (pre ++ s.must).Perm (List.range T.n) := hperm
  obtain ⟨q0, hq0, hbest⟩ := bestRemF_attained T hI h64 _ s hG hM rfl
  have hB : bestRem T s = some (runCost T s q0) := by
    unfold bestRem; rw [← must_length_exact T hG hM]; exact hbest
  have hall : ∀ q, q.Perm s.must → (pre ++ q).Perm (List.range T.n) :=
    fun q hq => (List.Perm.append_left pre hq).trans hperm
  have hrun' : ∀ q, v + runCost T s q = runCost T (initSt T) (pre ++ q) := by
    intro q; rw [hrun q]; omega
  have hmin : specBestExt (specTable T) (pre.map fun (i : Nat) => (i : Int)) =
      some (root2 T - 2 * runCost T (initSt T) (pre ++ q0)) := by
    rw [specBestExt_nat, minOf_eq_some]
    constructor
    · rw [List.mem_map]
      refine ⟨(pre ++ q0, _), ?_, (cost2_eq_run T hI (hall q0 hq0))⟩
      rw [List.mem_filter]
      constructor
      · unfold specTable
        rw [List.mem_map]
        exact ⟨pre ++ q0, by rw [srflp_perms, mem_perms]; exact hall q0 hq0, rfl⟩
      · simp
    · intro y hy
      obtain ⟨e, he, rfl⟩ := List.mem_map.mp hy
      rw [List.mem_filter] at he
      obtain ⟨he1, he2⟩ := he
      unfold specTable at he1
      obtain ⟨o, ho, rfl⟩ := List.mem_map.mp he1
      rw [srflp_perms, mem_perms] at ho
      rw [beq_iff_eq] at he2
      dsimp only at he2 ⊢
      have hsplit : o = pre ++ o.drop pre.length := by
        have := List.take_append_drop pre.length o
        rw [he2] at this; exact this.symm
      have hod : (o.drop pre.length).Perm s.must := by
        have : (pre ++ o.drop pre.length).Perm (pre ++ s.must) := (hsplit ▸ ho).trans hperm.symm
        exact (List.perm_append_left_iff pre).mp this
      rw [cost2_eq_run T hI ho, hsplit]
      have hle := run_le_bestRemF T hI h64 _ s hG hM hod
      rw [hod.length_eq, hbest] at hle
      have : runCost T s (o.drop pre.length) ≤ runCost T s q0 := hle
      have h1 := hrun' (o.drop pre.length)
      have h2 := hrun' q0
      omega
  rw [hB, hmin, ← hrun' q0]
  simp [printed2]

end Ddo.Examples.SrflpModel

section
open Ddo.Examples.SrflpModel
#print axioms run_le_bestRemF
#print axioms bestRemF_attained
#print axioms cost2_eq_run
#print axioms dpExact_partial
#print axioms dpExactPrefix_partial
end
