import DdoModel.Props.C06
import DdoModel.Examples.TalentschedProofsRubFull
/-! The closed corollary for the shipped talentsched example (REPAIRED merge, finding D18; rough bound evaluated exactly):
    `WfRel` holds (`talentsched_wfRel`, every clause, `RubAdmissibleStmt` included), the unrestricted no-saturation clause
    `NoClampDom` IS satisfiable for this model (`relax` is the identity, the transition cost of ANY state is at most what all
    actors cost during the scene: `noClampDom`), and the model is exact at the root (`dpExactStmt`); hence
    `talentsched_relaxed_ub`: a relaxed compilation from the root reports at least minus the specification's least pay
    `Talentsched.spec`.  No hypothesis about the model is left: only `TabOk` (a well-formed instance) and a size bound
    (`totC · totD ≤ B`, `(n + 2) · B ≤ 2^62`: no `isize` saturation). -/
namespace Ddo.Examples.TalentschedModel
open Ddo Ddo.Examples Ddo.Examples.Util Ddo.SpecUtil

/-- what all actors cost per day / how long all scenes take -/
def totC (T : Tab) : Int := sumRange 64 (costA T)
def totD (T : Tab) : Int := sumRange T.n (durS T)

theorem totC_nonneg {T : Tab} (hn : NonNeg T) : 0 ≤ totC T := sumRange_nonneg fun a _ => hn.cost a
theorem totD_nonneg {T : Tab} (hn : NonNeg T) : 0 ≤ totD T := sumRange_nonneg fun j _ => hn.dur j

/-- a sum over some of the actors, of `cost · duration_j`, is at most `duration_j · totC` -/
theorem sum_sel_le {T : Tab} (hn : NonNeg T) (b : Nat → Bool) (j : Nat) :
    (sumRange 64 fun a => if b a then costA T a * durS T j else 0) ≤ durS T j * totC T := by
  rw [totC, sumRange_mul_left]
  apply sumRange_le
  intro a _
  have := Int.mul_nonneg (hn.dur j) (hn.cost a)
  split
  · rw [Int.mul_comm]; exact Int.le_refl _
  · exact this

theorem dur_le_totD {T : Tab} (hn : NonNeg T) {j : Nat} (hj : j < T.n) : durS T j ≤ totD T :=
  sumRange_ge_term (fun i _ => hn.dur i) hj

/-- the transition cost from ANY state -/
theorem cost_ge (T : Tab) (hn : NonNeg T) (s : St) (d : Dec) : -(totC T * totD T) ≤ cost T s d := by
  have hC := totC_nonneg hn
  have hD := totD_nonneg hn
  have hCD := Int.mul_nonneg hC hD
  unfold cost cost?
  split
  · simp only [Option.getD_none]; omega
  · rename_i hc
    simp only [Option.getD_some]
    rw [sum_bits_eq]
    have hj : d.val.toNat < T.n := by omega
    have h1 := sum_sel_le hn (fun a => (sdiff (present T s) (actS T d.val.toNat)).testBit a) d.val.toNat
    have h2 := Int.mul_le_mul_of_nonneg_right (dur_le_totD hn hj) hC
    rw [Int.mul_comm (totD T)] at h2
    omega

theorem initVal_bounds {T : Tab} (hT : TabOk T) : -(totC T * totD T) ≤ initVal T ∧ initVal T ≤ 0 := by
  have hn := hT.nonNeg
  rw [initVal_eq hT]
  have h1 : sumRange T.n (playSum T) ≤ sumRange T.n fun j => totC T * durS T j := by
    apply sumRange_le
    intro j _
    have := sum_sel_le hn (fun a => P T a j) j
    rw [Int.mul_comm] at this
    exact this
  rw [← sumRange_mul_left] at h1
  have h2 : 0 ≤ sumRange T.n (playSum T) := by
    apply sumRange_nonneg
    intro j _
    apply sumRange_nonneg
    intro a _
    split
    · exact Int.mul_nonneg (hn.cost a) (hn.dur j)
    · exact Int.le_refl _
  unfold totD
  omega

/-- `NoClampDom` (the UNRESTRICTED no-saturation clause) is met by the talentsched model -/
theorem noClampDom {T : Tab} (hT : TabOk T) (B : Int) (hb : totC T * totD T ≤ B)
    (hsmall : ((T.n : Int) + 2) * B ≤ 4611686018427387904) :
    NoClampDom (problem T) (relaxation T) (initVal T) B where
  nonneg := by
    have := Int.mul_nonneg (totC_nonneg hT.nonNeg) (totD_nonneg hT.nonNeg)
    omega
  root := by have := initVal_bounds hT; omega
  cost := by
    intro x s d _
    show -B ≤ cost T s ⟨x, d⟩ ∧ cost T s ⟨x, d⟩ ≤ B
    have h1 := cost_ge T hT.nonNeg s ⟨x, d⟩
    have h2 := cost_nonpos T hT.nonNeg s ⟨x, d⟩
    have := Int.mul_nonneg (totC_nonneg hT.nonNeg) (totD_nonneg hT.nonNeg)
    omega
  relax := fun _ _ _ _ _ hc => hc
  small := hsmall

theorem countP_range_lt (n : Nat) : ∀ m, (List.range m).countP (fun j => decide (j < n)) = min m n
  | 0 => by simp
  | m + 1 => by
    rw [List.range_succ, List.countP_append, countP_range_lt n m]
    by_cases h : m < n <;> simp [h] <;> omega

theorem inv_init (T : Tab) (hT : TabOk T) : Inv T 0 (initSt T) := by
  refine ⟨?_, fun i h => by simp [initSt] at h⟩
  have hsub : Sub (initSt T).scenes (initSt T).scenes := fun _ h => h
  -- `card (initSt T).scenes ≤ n`: its members are `< n`
  have : card (initSt T).scenes ≤ T.n := by
    rw [card_eq]
    have h64 := hT.npos.2.1
    have h1 : (List.range 64).countP (fun j => (initSt T).scenes.testBit j) ≤ (List.range 64).countP (fun j => decide (j < T.n)) :=
      List.countP_mono_left fun j _ hj => by simpa using (testBit_init T j).mp hj
    have h2 := countP_range_lt T.n 64
    omega
  omega

/-- **The shipped talentsched example (repaired merge)**: a relaxed compilation of its model from the root (layer by layer,
    no cache, no dominance checker, width ≥ 1, any incumbent `lb` that the optimum beats) reports a best value that is at
    least the true optimum — minus the least total pay `Talentsched.spec` over all orders of the scenes —, for every
    well-formed instance (`TabOk`) whose total pay cannot saturate an `isize` -/
theorem talentsched_relaxed_ub {K : Type} [DecidableEq K] {T : Tab} (hT : TabOk T)
    (cfg : Cfg St K) (B : Int) (cache : Cache St) (store : DomStore St K) (polls : Nat)
    (hP : cfg.P = problem T) (hR : cfg.R = relaxation T)
    (hrs : cfg.root.state = initSt T) (hrv : cfg.root.value = initVal T) (hrd : cfg.root.depth = 0)
    (hrel : cfg.ctype = .relaxed) (hcache : cfg.useCache = false) (hdom : cfg.dom = none) (hW : 1 ≤ cfg.width)
    (hb : totC T * totD T ≤ B) (hsmall : ((T.n : Int) + 2) * B ≤ 4611686018427387904)
    (hlb : InI cfg.lb)
    (t : Int) (ht : Talentsched.spec T.n T.k (fun a s => (T.flags.getD a []).getD s 0 == 1) (costA T) (durS T) = t)
    (hgt : -t > cfg.lb) :
    (compile cfg cache store polls none).1 = .ok →
    ∃ bv, (compile cfg cache store polls none).2.1.bestValue = some bv ∧ -t ≤ bv := by
  -- exactness at the root
  have hex := dpExactStmt T hT
  rw [specBestExt_nil] at hex
  have hspec : minOf ((Talentsched.perms (List.range T.n)).map
      (Talentsched.pay T.k (fun (a s : Nat) => (T.flags.getD a []).getD s 0 == 1) (costA T) (durS T))) = some t := by
    unfold Talentsched.spec at ht
    rw [C16.talent_minimum] at ht
    cases hm : minOf ((Talentsched.perms (List.range T.n)).map
      (Talentsched.pay T.k (fun (a s : Nat) => (T.flags.getD a []).getD s 0 == 1) (costA T) (durS T))) with
    | none =>
      exfalso
      rw [minOf_eq_none, List.map_eq_nil_iff] at hm
      have : List.range T.n ∈ Talentsched.perms (List.range T.n) := by
        rw [C16.talent_perms, mem_perms]
      rw [hm] at this
      cases this
    | some v => rw [hm] at ht; simp at ht; rw [ht]
  rw [hspec] at hex
  have hroot : optOf (bestRem T) ⟨initSt T, initVal T, [], 0, 0⟩ = some (-t) := hex
  have hO : -t ≤ iMax := by
    have h1 := bestRem_le_zero T hT.nonNeg 0 (initSt T)
    have h2 := (initVal_bounds hT).2
    cases hb0 : bestRem T 0 (initSt T) with
    | none => rw [hb0] at hex; cases hex
    | some h =>
      rw [hb0] at hex h1
      have h1' : h ≤ 0 := h1
      simp only [EInt.addI, Option.map_some, Option.some.injEq] at hex
      simp only [iMax]
      omega
  refine C06.relaxed_ub_rel_dom cfg (bestRem T) (Inv T) B cache store polls hrel hcache hdom hW ?_ ?_ ?_ hlb (-t) ?_ hgt
    (Or.inl hO)
  · rw [hP, hR]; exact talentsched_wfRel T hT
  · rw [hrd, hrs]; exact inv_init T hT
  · rw [hP, hR, hrv]; exact noClampDom hT B hb hsmall
  · unfold optOf
    rw [hrd, hrs, hrv]
    exact hroot

/-! ## non-vacuity: the instance `witness` of `TalentschedModel.lean` (4 scenes, 5 actors; least pay 179), width 2: merges
    happen, the merged states have actors on location and optional scenes -/
namespace Demo

theorem witness_ok : TabOk witness :=
  ⟨by decide, by decide, by decide, by decide, by decide⟩

def cfg : Cfg St Unit :=
  { P := problem witness, R := relaxation witness, rank := ⟨rankCmp⟩, dom := none,
    useCache := false, kind := .lel, ctype := .relaxed, width := 2,
    root := ⟨initSt witness, initVal witness, [], iMax, 0⟩, lb := -1000000 }

set_option maxRecDepth 100000 in
theorem spec_witness : Talentsched.spec witness.n witness.k (fun a s => (witness.flags.getD a []).getD s 0 == 1)
    (costA witness) (durS witness) = 157 := by decide +kernel

set_option maxRecDepth 100000 in
theorem ok : (compile cfg (Cache.init 4) (DomStore.init 4) 0 none).1 = .ok := by decide +kernel

example : ∃ bv, (compile cfg (Cache.init 4) (DomStore.init 4) 0 none).2.1.bestValue = some bv ∧ -157 ≤ bv :=
  talentsched_relaxed_ub witness_ok cfg 236 (Cache.init 4) (DomStore.init 4) 0 rfl rfl rfl rfl rfl rfl rfl rfl (by decide)
    (by decide +kernel) (by decide +kernel) (by decide) 157 spec_witness (by decide) ok

end Demo

end Ddo.Examples.TalentschedModel

section
open Ddo.Examples.TalentschedModel
#print axioms noClampDom
#print axioms talentsched_relaxed_ub
end
