import DdoModel.Examples.SopProofsBase
/-! Exactness of the Lean model of the shipped sop example (`SopDp.lean`) on the states reached exactly.

    * `dpExact_partial`: `DpExactStmt n rows` (value of a prefix + value-to-go = minus the least cost, by the specification
      `Sop.perms` / `Sop.respects` / `Sop.cost` / `Sop.minimum`, among the sequences that extend the prefix) for every
      instance with at most 256 jobs whose entries are at most `2^63 = -imin` (`isize` entries: `dpExact_partial_isize`);
    * `dpExact_false_unbounded`: without the bound on the entries the statement is FALSE (kernel-checked witness; not reachable
      by the program: the entry is no `isize`);
    * `root_exact`: at the root, `Sop.spec` = minus the value-to-go of the root (`-1` = no completion).

    Everything of this file that is not one of these statements lives in the namespace `Exact`. -/
namespace Ddo.Examples.SopModel
open Ddo Ddo.Examples Ddo.Examples.Util

namespace Exact

-- ------------------------------------------------------------------------------------------------------------------
-- the fold of `EInt.max`

theorem le_max_left (a b : EInt) : a ≤ EInt.max a b := by
  cases a <;> cases b <;> simp [EInt.max] <;> omega
theorem le_max_right (a b : EInt) : b ≤ EInt.max a b := by
  cases a <;> cases b <;> simp [EInt.max] <;> omega
theorem max_cases (a b : EInt) : EInt.max a b = a ∨ EInt.max a b = b := by
  cases a <;> cases b <;> simp [EInt.max] <;> omega
theorem max_none (a : EInt) : EInt.max a none = a := by cases a <;> rfl

theorem foldl_max_spec (f : Int → EInt) : ∀ (l : List Int) (acc : EInt),
    acc ≤ l.foldl (fun a v => EInt.max a (f v)) acc ∧
    (∀ v ∈ l, f v ≤ l.foldl (fun a v => EInt.max a (f v)) acc) ∧
    (l.foldl (fun a v => EInt.max a (f v)) acc = acc ∨ ∃ v ∈ l, l.foldl (fun a v => EInt.max a (f v)) acc = f v) := by
  intro l
  induction l with
  | nil => intro acc; exact ⟨EInt.le_refl _, (fun v hv => by cases hv), Or.inl rfl⟩
  | cons x t ih =>
    intro acc
    obtain ⟨h1, h2, h3⟩ := ih (EInt.max acc (f x))
    rw [List.foldl_cons]
    refine ⟨EInt.le_trans (le_max_left _ _) h1, ?_, ?_⟩
    · intro v hv
      rcases List.mem_cons.mp hv with rfl | hv
      · exact EInt.le_trans (le_max_right _ _) h1
      · exact h2 v hv
    · rcases h3 with h3 | ⟨v, hv, h3⟩
      · rcases max_cases acc (f x) with h | h
        · left; rw [h3, h]
        · right; exact ⟨x, List.mem_cons_self, by rw [h3, h]⟩
      · right; exact ⟨v, List.mem_cons_of_mem _ hv, h3⟩

theorem addI_mono {a b : EInt} (h : a ≤ b) (c : Int) : a.addI c ≤ b.addI c := by
  cases a <;> cases b <;> simp_all [EInt.addI]

theorem mapM_total {α β : Type} (f : α → Option β) (g : α → β) : ∀ l : List α, (∀ x ∈ l, f x = some (g x)) →
    l.mapM f = some (l.map g) := by
  intro l
  induction l with
  | nil => intro _; rfl
  | cons a t ih =>
    intro h
    rw [List.mapM_cons, h a List.mem_cons_self, ih (fun x hx => h x (List.mem_cons_of_mem _ hx))]
    rfl

-- ------------------------------------------------------------------------------------------------------------------
-- the specification: permutations, minimum

theorem perm_of_mem_inserts (x : Nat) : ∀ (l q : List Nat), q ∈ Sop.inserts x l → q.Perm (x :: l) := by
  intro l
  induction l with
  | nil => intro q hq; simp [Sop.inserts] at hq; subst hq; exact List.Perm.refl _
  | cons y ys ih =>
    intro q hq
    simp only [Sop.inserts, List.mem_cons, List.mem_map] at hq
    rcases hq with rfl | ⟨q', hq', rfl⟩
    · exact List.Perm.refl _
    · exact ((ih q' hq').cons y).trans (List.Perm.swap x y ys)

theorem mem_inserts_append (x : Nat) : ∀ (a b : List Nat), a ++ x :: b ∈ Sop.inserts x (a ++ b) := by
  intro a
  induction a with
  | nil => intro b; cases b <;> simp [Sop.inserts]
  | cons y ys ih =>
    intro b
    simp only [List.cons_append, Sop.inserts, List.mem_cons, List.mem_map]
    right
    exact ⟨_, ih b, rfl⟩

theorem mem_perms : ∀ (l q : List Nat), q ∈ Sop.perms l ↔ q.Perm l := by
  intro l
  induction l with
  | nil => intro q; simp [Sop.perms]
  | cons x xs ih =>
    intro q
    simp only [Sop.perms, List.mem_flatMap]
    constructor
    · rintro ⟨r, hr, hq⟩
      exact (perm_of_mem_inserts x r q hq).trans (((ih r).mp hr).cons x)
    · intro hq
      have hx : x ∈ q := hq.mem_iff.mpr List.mem_cons_self
      obtain ⟨a, b, rfl⟩ := List.append_of_mem hx
      have : (a ++ b).Perm xs := (List.perm_middle.symm.trans hq).cons_inv
      exact ⟨a ++ b, (ih _).mpr this, mem_inserts_append x a b⟩

theorem foldl_minI_le : ∀ (l : List Int) (a : Int),
    l.foldl min a ≤ a ∧ (∀ i ∈ l, l.foldl min a ≤ i) ∧ (l.foldl min a = a ∨ l.foldl min a ∈ l) := by
  intro l
  induction l with
  | nil => intro a; simp
  | cons x t ih =>
    intro a
    obtain ⟨h1, h2, h3⟩ := ih (min a x)
    simp only [List.foldl_cons, List.mem_cons, forall_eq_or_imp]
    refine ⟨by omega, ⟨by omega, h2⟩, ?_⟩
    rcases h3 with h3 | h3
    · rw [h3]
      rcases Int.le_total a x with h | h
      · left; omega
      · right; left; omega
    · right; right; exact h3

theorem minimum_spec : ∀ l : List Int, l ≠ [] → ∃ m, Sop.minimum l = some m ∧ m ∈ l ∧ ∀ x ∈ l, m ≤ x := by
  intro l hl
  cases l with
  | nil => exact absurd rfl hl
  | cons a t =>
    obtain ⟨h1, h2, h3⟩ := foldl_minI_le t a
    refine ⟨_, rfl, ?_, ?_⟩
    · rcases h3 with h3 | h3
      · rw [h3]; exact List.mem_cons_self
      · exact List.mem_cons_of_mem _ h3
    · intro x hx
      rcases List.mem_cons.mp hx with rfl | hx
      · exact h1
      · exact h2 x hx

/-- the minimum is characterised by membership -/
theorem minimum_eq_some {l : List Int} {m : Int} (h1 : m ∈ l) (h2 : ∀ x ∈ l, m ≤ x) : Sop.minimum l = some m := by
  obtain ⟨m', e, k1, k2⟩ := minimum_spec l (List.ne_nil_of_mem h1)
  have := h2 m' k1
  have := k2 m h1
  rw [e]; congr 1; omega

-- ------------------------------------------------------------------------------------------------------------------
-- the specification: `respects`, `cost`

theorem respects_cons (d : Nat → Nat → Int) (i : Nat) (r : List Nat) :
    Sop.respects d (i :: r) = (r.all (fun j => d i j != -1) && Sop.respects d r) := rfl

theorem respects_of_append (d : Nat → Nat → Int) : ∀ (a c : List Nat), Sop.respects d (a ++ c) = true →
    Sop.respects d c = true := by
  intro a
  induction a with
  | nil => intro c h; exact h
  | cons x a ih =>
    intro c h
    rw [List.cons_append, respects_cons, Bool.and_eq_true] at h
    exact ih c h.2

theorem cost_cons_cons (d : Nat → Nat → Int) (i j : Nat) (r : List Nat) :
    Sop.cost d (i :: j :: r) = d i j + Sop.cost d (j :: r) := rfl

theorem cost_single (d : Nat → Nat → Int) (i : Nat) : Sop.cost d [i] = 0 := rfl

-- ------------------------------------------------------------------------------------------------------------------
-- tables

/-- what the proofs below need of a table: at most 256 jobs (`Set256`), every entry read is there, is at least `-1` and at
    most `2^63` (so that its negation is an `isize`), `predecessors[j]` = the columns of row `j` that hold `-1`, a zero
    diagonal, every job before the last one, no job before job 0 -/
structure Ok (T : Tab) : Prop where
  n_pos : 1 ≤ T.n
  n_le : T.n ≤ 256
  dist : ∀ i j, i < T.n → j < T.n → dist? T i j = some (dfun T i j)
  d_ge : ∀ i j, i < T.n → j < T.n → -1 ≤ dfun T i j
  d_le : ∀ i j, i < T.n → j < T.n → dfun T i j ≤ -imin
  pred : ∀ j, j < T.n → ∃ p, T.pred[j]? = some p ∧ ∀ x, (p.testBit x = true ↔ (x < T.n ∧ dfun T j x = -1))
  diag : ∀ i, i < T.n → dfun T i i = 0
  last_row : ∀ j, j < T.n - 1 → dfun T (T.n - 1) j = -1
  first_row : ∀ j, 0 < j → j < T.n → dfun T 0 j ≠ -1

theorem dfun_tabOf (n : Nat) (rows : List (List Int)) (i j : Nat) :
    dfun (tabOf n rows) i j = (rows.getD i []).getD j 0 := by
  unfold dfun tabOf
  simp only [Array.getD_eq_getD_getElem?, List.getElem?_toArray, List.getElem?_map, List.getD_eq_getElem?_getD]
  cases rows[i]? <;> simp

theorem ok_tabOf {n : Nat} {rows : List (List Int)} (hD : inDomain n rows = true) (hn : n ≤ 256)
    (hb : ∀ r ∈ rows, ∀ w ∈ r, w ≤ -imin) : Ok (tabOf n rows) := by
  simp only [inDomain, Bool.and_eq_true, decide_eq_true_eq, List.all_eq_true, beq_iff_eq, List.mem_range] at hD
  obtain ⟨⟨⟨h1, hlen⟩, hrow⟩, hent⟩ := hD
  have hTn : (tabOf n rows).n = n := rfl
  have hget : ∀ i, i < n → ∃ r, rows[i]? = some r ∧ r ∈ rows ∧ r.length = n ∧ rows.getD i [] = r := by
    intro i hi
    have hi' : i < rows.length := by omega
    refine ⟨rows[i], List.getElem?_eq_getElem hi', List.getElem_mem hi', hrow _ (List.getElem_mem hi'), ?_⟩
    simp [List.getD_eq_getElem?_getD, hi']
  have hget2 : ∀ i j, i < n → j < n → ∃ r, rows[i]? = some r ∧ r ∈ rows ∧ r[j]? = some (dfun (tabOf n rows) i j) ∧
      dfun (tabOf n rows) i j ∈ r := by
    intro i j hi hj
    obtain ⟨r, e1, e2, e3, e4⟩ := hget i hi
    have hj' : j < r.length := by omega
    refine ⟨r, e1, e2, ?_, ?_⟩
    · rw [dfun_tabOf, e4]; simp [List.getD_eq_getElem?_getD, hj']
    · rw [dfun_tabOf, e4]; simp [List.getD_eq_getElem?_getD, hj']
  have hE : ∀ i j, i < n → j < n →
      (if i = j then dfun (tabOf n rows) i j = 0
       else if j = 0 then dfun (tabOf n rows) i j = -1
       else if i = n - 1 then dfun (tabOf n rows) i j = -1
       else if i = 0 ∨ j = n - 1 then 0 ≤ dfun (tabOf n rows) i j
       else -1 ≤ dfun (tabOf n rows) i j) := by
    intro i j hi hj
    have := hent i hi j hj
    rw [dfun_tabOf]
    by_cases c1 : i = j
    · simpa [c1] using this
    · by_cases c2 : j = 0
      · simpa [c1, c2] using this
      · by_cases c3 : i = n - 1
        · simpa [c1, c2, c3] using this
        · by_cases c4 : i = 0 ∨ j = n - 1
          · rcases c4 with c4 | c4 <;> simpa [c1, c2, c3, c4] using this
          · have c5 : ¬ i = 0 := fun e => c4 (Or.inl e)
            have c6 : ¬ j = n - 1 := fun e => c4 (Or.inr e)
            simpa [c1, c2, c3, c5, c6] using this
  refine ⟨h1, hn, ?_, ?_, ?_, ?_, ?_, ?_, ?_⟩
  · intro i j hi hj
    obtain ⟨r, e1, _, e3, _⟩ := hget2 i j hi hj
    unfold dist?
    show (do let r ← ((rows.map List.toArray).toArray)[i]?; r[j]?) = _
    simp [e1, e3]
  · intro i j hi hj
    have := hE i j hi hj
    rw [hTn] at hi hj
    split at this
    · omega
    · split at this
      · omega
      · split at this
        · omega
        · split at this <;> omega
  · intro i j hi hj
    obtain ⟨r, _, e2, _, e4⟩ := hget2 i j hi hj
    exact hb r e2 _ e4
  · intro j hj
    obtain ⟨r, e1, _, e3, e4⟩ := hget j hj
    refine ⟨predOfRow r, ?_, ?_⟩
    · show ((rows.map predOfRow).toArray)[j]? = _
      simp [e1]
    · intro x
      rw [dfun_tabOf, e4, hTn]
      unfold predOfRow
      rw [testBit_ofList]
      simp [e3]
  · intro i hi
    have := hE i i hi hi
    simpa using this
  · intro j hj
    rw [hTn] at hj ⊢
    have := hE (n - 1) j (by omega) (by omega)
    rw [if_neg (by omega)] at this
    split at this
    · exact this
    · simpa using this
  · intro j hj0 hj
    rw [hTn] at hj
    have := hE 0 j (by omega) hj
    rw [if_neg (by omega), if_neg (by omega)] at this
    split at this
    · omega
    · simp at this; omega

-- ------------------------------------------------------------------------------------------------------------------
-- the states of the shape of the states reached exactly

/-- the successor of an exact state by job `j` -/
def succSt (s : St) (j : Nat) : St :=
  { prev := .job j, must := diff s.must (single j), maybe := none, depth := s.depth + 1 }

/-- an exact state at job `i` whose pending jobs are (in some order) the duplicate-free list `l`: jobs of the instance, as
    many as there are positions left, the last job among them, none of them required before `i` -/
structure Core (T : Tab) (s : St) (i : Nat) (l : List Nat) : Prop where
  prev : s.prev = .job i
  maybe : s.maybe = none
  nd : l.Nodup
  mem : ∀ x, x ∈ l ↔ s.must.testBit x = true
  len : s.depth + l.length = T.n - 1
  last : l ≠ [] → T.n - 1 ∈ l
  rng : ∀ x ∈ l, x < T.n
  ok : ∀ x ∈ l, dfun T i x ≠ -1
  ilt : i < T.n

theorem and_eq_zero_iff (a b : Nat) : a &&& b = 0 ↔ ∀ x, a.testBit x = true → b.testBit x = false := by
  constructor
  · intro h x hx
    have : (a &&& b).testBit x = false := by rw [h, Nat.zero_testBit]
    rw [Nat.testBit_and, hx] at this
    simpa using this
  · intro h
    apply Nat.eq_of_testBit_eq
    intro x
    rw [Nat.testBit_and, Nat.zero_testBit]
    cases ha : a.testBit x with
    | false => rfl
    | true => rw [h x ha]; rfl

section
variable {T : Tab} (hT : Ok T) {s : St} {i : Nat} {l : List Nat} (h : Core T s i l)
include hT h

/-- `can_schedule` on an exact state: no pending job is required before `j` -/
theorem canSchedule_core {j : Nat} (hj : j < T.n) :
    canSchedule? T s j = some (l.all (fun x => dfun T j x != -1)) := by
  obtain ⟨p, hp, hspec⟩ := hT.pred j hj
  have key : ((p &&& s.must) = 0) ↔ (l.all (fun x => dfun T j x != -1) = true) := by
    rw [and_eq_zero_iff, List.all_eq_true]
    constructor
    · intro hh x hx
      have hm := (h.mem x).mp hx
      simp only [bne_iff_ne, ne_eq]
      intro e
      have := hh x ((hspec x).mpr ⟨h.rng x hx, e⟩)
      rw [hm] at this; cases this
    · intro hh x hx
      obtain ⟨_, e⟩ := (hspec x).mp hx
      cases hb : s.must.testBit x with
      | false => rfl
      | true => have := hh x ((h.mem x).mpr hb); simp [e] at this
  unfold canSchedule?
  rw [hp]
  simp only [Option.bind_eq_bind, Option.bind_some, h.maybe]
  by_cases hz : p &&& s.must = 0
  · simp [hz, key.mp hz]
  · have : l.all (fun x => dfun T j x != -1) = false := by
      cases hb : l.all (fun x => dfun T j x != -1) with
      | false => rfl
      | true => exact absurd (key.mpr hb) hz
    simp [hz, this]

theorem schedulable_core : schedulableWith? (canSchedule? T) s (bits s.must) =
    some ((bits s.must).filter (fun j => l.all (fun x => dfun T j x != -1))) := by
  unfold schedulableWith?
  rw [mapM_total _ (fun j => (j, l.all (fun x => dfun T j x != -1))) _ (fun j hj => by
    rw [canSchedule_core hT h (h.rng j ((h.mem j).mpr (mem_bits.mp hj)))]; rfl)]
  simp [List.filter_map, Function.comp_def]

/-- the domain of an exact state that is not terminal: the pending jobs no pending job is required before -/
theorem domain_core (hl : l ≠ []) (v : Int) :
    v ∈ domain T s ↔ ∃ j ∈ l, v = (j : Int) ∧ ∀ x ∈ l, dfun T j x ≠ -1 := by
  have hlen : 0 < l.length := List.length_pos_iff.mpr hl
  have hlen' := h.len
  have hn : ¬ T.n ≤ 1 := by omega
  unfold domain domain? domainWith?
  rw [if_neg hn]
  by_cases hd : s.depth = T.n - 2
  · rw [if_pos hd]
    have h1 : l.length = 1 := by omega
    obtain ⟨a, rfl⟩ := List.length_eq_one_iff.mp h1
    have ha : T.n - 1 = a := by simpa using h.last hl
    subst ha
    simp only [Option.getD_some, List.mem_singleton]
    constructor
    · rintro rfl
      refine ⟨T.n - 1, rfl, rfl, ?_⟩
      intro x hx
      rw [hx, hT.diag _ (by omega)]
      decide
    · rintro ⟨j, hj, rfl, _⟩
      rw [hj]
  · rw [if_neg hd, schedulable_core hT h, h.maybe]
    simp only [Option.bind_eq_bind, Option.bind_some, Option.pure_def, List.append_nil, Option.getD_some, List.mem_map,
      List.mem_filter, mem_bits, List.all_eq_true, bne_iff_ne, ne_eq]
    constructor
    · rintro ⟨j, ⟨hj, hok⟩, rfl⟩
      exact ⟨j, (h.mem j).mpr hj, rfl, hok⟩
    · rintro ⟨j, hj, rfl, hok⟩
      exact ⟨j, ⟨(h.mem j).mp hj, hok⟩, rfl⟩

/-- transition and cost out of an exact state, by a pending job -/
theorem core_step {j : Nat} (hj : j ∈ l) (x : Nat) :
    trans? T s ⟨x, (j : Int)⟩ = some (succSt s j) ∧ cost? T s ⟨x, (j : Int)⟩ = some (-(dfun T i j)) := by
  have hjn := h.rng j hj
  have hn := hT.n_le
  constructor
  · unfold trans?
    have : ¬ ((j : Int) < 0 ∨ (j : Int) ≥ 256) := by omega
    simp only [this, if_false, h.maybe, Int.toNat_natCast]
    rfl
  · unfold cost? minDist?
    have : ¬ ((j : Int) < 0) := by omega
    simp only [this, if_false, h.prev, Int.toNat_natCast, hT.dist i j h.ilt hjn, Option.bind_eq_bind, Option.bind_some,
      Option.pure_def, if_neg (h.ok j hj)]
    have h1 := hT.d_ge i j h.ilt hjn
    have h2 := hT.d_le i j h.ilt hjn
    unfold chk
    rw [if_pos]
    unfold imin imax at *
    omega

/-- the successor of an exact state by a job of its domain is an exact state -/
theorem core_succ {j : Nat} (hj : j ∈ l) (hok : ∀ x ∈ l, dfun T j x ≠ -1) : Core T (succSt s j) j (l.erase j) := by
  refine ⟨rfl, rfl, h.nd.erase j, ?_, ?_, ?_, ?_, ?_, h.rng j hj⟩
  · intro x
    show _ ↔ (diff s.must (single j)).testBit x = true
    rw [h.nd.mem_erase_iff, testBit_diff, testBit_single, h.mem x]
    by_cases e : j = x
    · subst e; simp
    · have : ¬ x = j := fun e' => e e'.symm
      simp [e, this]
  · show s.depth + 1 + (l.erase j).length = T.n - 1
    rw [List.length_erase_of_mem hj]
    have := h.len
    have : 0 < l.length := List.length_pos_of_mem hj
    omega
  · intro hne
    obtain ⟨y, hy⟩ := List.exists_mem_of_ne_nil _ hne
    have hy' := (h.nd.mem_erase_iff).mp hy
    have hlast := h.last (List.ne_nil_of_mem hj)
    rw [h.nd.mem_erase_iff]
    refine ⟨?_, hlast⟩
    intro e
    have hyn := h.rng y hy'.2
    have := hT.last_row y (by omega)
    exact hok y hy'.2 (by rw [← e]; exact this)
  · intro x hx
    exact h.rng x (List.mem_of_mem_erase hx)
  · intro x hx
    exact hok x (List.mem_of_mem_erase hx)

end

-- ------------------------------------------------------------------------------------------------------------------
-- the value-to-go, one step

/-- the value of the decision `v` in `s`: cost + value-to-go of the successor (`none` when the transition or the cost panic) -/
def stepVal (T : Tab) (fuel : Nat) (s : St) (v : Int) : EInt :=
  match trans? T s ⟨s.depth, v⟩, cost? T s ⟨s.depth, v⟩ with
  | some s2, some c => (bestRemF T .code fuel s2).addI c
  | _, _ => none

theorem brem_succ (T : Tab) (fuel : Nat) (s : St) (hd : s.depth < nv T) :
    bestRemF T .code (fuel + 1) s = (domain T s).foldl (fun acc v => EInt.max acc (stepVal T fuel s v)) none := by
  simp only [bestRemF]
  rw [if_neg (by omega)]
  congr 1
  funext acc v
  unfold stepVal
  cases trans? T s ⟨s.depth, v⟩ <;> cases cost? T s ⟨s.depth, v⟩ <;> simp [max_none]

theorem brem_ge (T : Tab) (fuel : Nat) (s : St) (hd : s.depth < nv T) {v : Int} (hv : v ∈ domain T s) :
    stepVal T fuel s v ≤ bestRemF T .code (fuel + 1) s := by
  rw [brem_succ T fuel s hd]
  exact (foldl_max_spec (stepVal T fuel s) (domain T s) none).2.1 v hv

theorem brem_att (T : Tab) (fuel : Nat) (s : St) (hd : s.depth < nv T) {g : Int}
    (hg : bestRemF T .code (fuel + 1) s = some g) : ∃ v ∈ domain T s, stepVal T fuel s v = some g := by
  rw [brem_succ T fuel s hd] at hg
  rcases (foldl_max_spec (stepVal T fuel s) (domain T s) none).2.2 with h3 | ⟨v, hv, h3⟩
  · rw [h3] at hg; cases hg
  · exact ⟨v, hv, by rw [← h3]; exact hg⟩

theorem stepVal_core {T : Tab} (hT : Ok T) {s : St} {i : Nat} {l : List Nat} (h : Core T s i l) {j : Nat} (hj : j ∈ l)
    (fuel : Nat) : stepVal T fuel s (j : Int) = (bestRemF T .code fuel (succSt s j)).addI (-(dfun T i j)) := by
  obtain ⟨h1, h2⟩ := core_step hT h hj s.depth
  unfold stepVal
  rw [h1, h2]

-- ------------------------------------------------------------------------------------------------------------------
-- the core: the value-to-go of an exact state is the best order of its pending jobs that respects the precedences

/-- every order of the pending jobs that respects the precedences is a completion of the model -/
theorem core_ge {T : Tab} (hT : Ok T) : ∀ (q : List Nat) (s : St) (i : Nat) (l : List Nat), Core T s i l → q.Perm l →
    Sop.respects (dfun T) q = true →
    (some (-(Sop.cost (dfun T) (i :: q))) : EInt) ≤ bestRemF T .code q.length s := by
  intro q
  induction q with
  | nil =>
    intro s i l _ _ _
    simp [bestRemF, Sop.cost]
  | cons j q ih =>
    intro s i l h hq hr
    have hjl : j ∈ l := hq.mem_iff.mp List.mem_cons_self
    have hl : l ≠ [] := List.ne_nil_of_mem hjl
    rw [respects_cons, Bool.and_eq_true, List.all_eq_true] at hr
    obtain ⟨hall, hresp⟩ := hr
    have hok : ∀ x ∈ l, dfun T j x ≠ -1 := by
      intro x hx
      rcases List.mem_cons.mp (hq.mem_iff.mpr hx) with rfl | hx'
      · rw [hT.diag _ (h.rng _ hjl)]; decide
      · simpa using hall x hx'
    have hd : s.depth < nv T := by
      have := h.len
      have : 0 < l.length := List.length_pos_of_mem hjl
      unfold nv; omega
    have hdom : ((j : Nat) : Int) ∈ domain T s := (domain_core hT h hl _).mpr ⟨j, hjl, rfl, hok⟩
    have hge := brem_ge T q.length s hd hdom
    rw [stepVal_core hT h hjl] at hge
    have hq' : q.Perm (l.erase j) := by
      have := hq.erase j
      rwa [List.erase_cons_head] at this
    have ih' := ih (succSt s j) j (l.erase j) (core_succ hT h hjl hok) hq' hresp
    refine EInt.le_trans ?_ hge
    refine EInt.le_trans ?_ (addI_mono ih' _)
    simp only [EInt.addI, Option.map_some, EInt.some_le_some, cost_cons_cons]
    omega

/-- every completion of the model is an order of the pending jobs that respects the precedences -/
theorem core_att {T : Tab} (hT : Ok T) : ∀ (fuel : Nat) (s : St) (i : Nat) (l : List Nat), Core T s i l →
    fuel = l.length → ∀ g : Int, bestRemF T .code fuel s = some g →
    ∃ q : List Nat, q.Perm l ∧ Sop.respects (dfun T) q = true ∧ g = -(Sop.cost (dfun T) (i :: q)) := by
  intro fuel
  induction fuel with
  | zero =>
    intro s i l _ hf g hg
    have hl : l = [] := List.eq_nil_of_length_eq_zero hf.symm
    subst hl
    refine ⟨[], List.Perm.refl _, rfl, ?_⟩
    simp [bestRemF] at hg
    simp [Sop.cost, ← hg]
  | succ n ih =>
    intro s i l h hf g hg
    have hl : l ≠ [] := by intro e; rw [e] at hf; simp at hf
    have hd : s.depth < nv T := by
      have := h.len
      unfold nv; omega
    obtain ⟨v, hv, hval⟩ := brem_att T n s hd hg
    obtain ⟨j, hjl, rfl, hok⟩ := (domain_core hT h hl v).mp hv
    rw [stepVal_core hT h hjl] at hval
    cases hg' : bestRemF T .code n (succSt s j) with
    | none => rw [hg'] at hval; simp [EInt.addI] at hval
    | some g' =>
      rw [hg'] at hval
      simp only [EInt.addI, Option.map_some, Option.some.injEq] at hval
      have hlen : n = (l.erase j).length := by
        rw [List.length_erase_of_mem hjl]; omega
      obtain ⟨q, hq, hrq, hgq⟩ := ih (succSt s j) j (l.erase j) (core_succ hT h hjl hok) hlen g' hg'
      refine ⟨j :: q, (hq.cons j).trans (List.perm_cons_erase hjl).symm, ?_, ?_⟩
      · rw [respects_cons, Bool.and_eq_true, List.all_eq_true]
        refine ⟨?_, hrq⟩
        intro x hx
        have := hok x (List.mem_of_mem_erase (hq.mem_iff.mp hx))
        simpa using this
      · rw [cost_cons_cons]; omega

-- ------------------------------------------------------------------------------------------------------------------
-- the prefix: what the decisions taken so far say about the state reached

/-- the state `s` (value `v`) reached by the decisions `pre`: an exact state at job `i` whose pending jobs `l` are the jobs
    `1 … n-1` that are not in `pre`; a sequence `0 :: pre ++ r`, `r` an order of `l`, respects the precedences iff `r` does, and
    costs `-v` + the cost of `i :: r` -/
structure Pre (T : Tab) (pre : List Nat) (s : St) (v : Int) (i : Nat) (l : List Nat) : Prop where
  core : Core T s i l
  perm : (pre ++ l).Perm ((List.range T.n).drop 1)
  resp : ∀ r : List Nat, (∀ x, x ∈ r ↔ x ∈ l) →
    Sop.respects (dfun T) (0 :: (pre ++ r)) = Sop.respects (dfun T) r
  cost : ∀ r : List Nat, Sop.cost (dfun T) (0 :: (pre ++ r)) = -v + Sop.cost (dfun T) (i :: r)

theorem mem_drop_one_range (n x : Nat) : x ∈ (List.range n).drop 1 ↔ 0 < x ∧ x < n := by
  cases n with
  | zero => simp
  | succ n =>
    rw [List.range_succ_eq_map]
    simp only [List.drop_succ_cons, List.drop_zero, List.mem_map, List.mem_range]
    constructor
    · rintro ⟨a, ha, rfl⟩; omega
    · intro h; exact ⟨x - 1, by omega, by omega⟩

theorem nodup_drop_one_range (n : Nat) : ((List.range n).drop 1).Nodup :=
  List.Nodup.sublist (List.drop_sublist 1 _) List.nodup_range

theorem pre_root {T : Tab} (hT : Ok T) : Pre T [] (initSt T) 0 0 ((List.range T.n).drop 1) := by
  have hn := hT.n_pos
  refine ⟨⟨rfl, rfl, nodup_drop_one_range _, ?_, ?_, ?_, ?_, ?_, by omega⟩, List.Perm.refl _, ?_, ?_⟩
  · intro x
    show _ ↔ (ofList ((List.range T.n).drop 1)).testBit x = true
    rw [testBit_ofList]; simp
  · show 0 + ((List.range T.n).drop 1).length = T.n - 1
    simp
  · intro hne
    obtain ⟨y, hy⟩ := List.exists_mem_of_ne_nil _ hne
    rw [mem_drop_one_range] at hy ⊢
    omega
  · intro x hx
    exact ((mem_drop_one_range _ _).mp hx).2
  · intro x hx
    have := (mem_drop_one_range _ _).mp hx
    exact hT.first_row x this.1 this.2
  · intro r hr
    rw [List.nil_append, respects_cons]
    have : r.all (fun j => dfun T 0 j != -1) = true := by
      rw [List.all_eq_true]
      intro x hx
      have := (mem_drop_one_range _ _).mp ((hr x).mp hx)
      simpa using hT.first_row x this.1 this.2
    rw [this, Bool.true_and]
  · intro r
    simp

theorem pre_step {T : Tab} (hT : Ok T) {pre : List Nat} {s : St} {v : Int} {i : Nat} {l : List Nat} (h : Pre T pre s v i l)
    {j : Nat} (hj : j ∈ l) (hok : ∀ x ∈ l, dfun T j x ≠ -1) :
    Pre T (pre ++ [j]) (succSt s j) (v + -(dfun T i j)) j (l.erase j) := by
  refine ⟨core_succ hT h.core hj hok, ?_, ?_, ?_⟩
  · refine List.Perm.trans ?_ h.perm
    rw [List.append_assoc]
    exact List.Perm.append_left _ (List.perm_cons_erase hj).symm
  · intro r hr
    have hmem : ∀ x, x ∈ j :: r ↔ x ∈ l := by
      intro x
      rw [List.mem_cons, hr x, h.core.nd.mem_erase_iff]
      constructor
      · rintro (rfl | ⟨_, hx⟩)
        · exact hj
        · exact hx
      · intro hx
        by_cases e : x = j
        · exact Or.inl e
        · exact Or.inr ⟨e, hx⟩
    have := h.resp (j :: r) hmem
    rw [List.append_assoc, List.singleton_append, this, respects_cons]
    have : r.all (fun y => dfun T j y != -1) = true := by
      rw [List.all_eq_true]
      intro x hx
      have := hok x (List.mem_of_mem_erase ((hr x).mp hx))
      simpa using this
    rw [this, Bool.true_and]
  · intro r
    rw [List.append_assoc, List.singleton_append, h.cost (j :: r), cost_cons_cons]
    omega

/-- the invariant along a replay (`evalFrom`) of job decisions from a state that satisfies it -/
theorem eval_pre {T : Tab} (hT : Ok T) : ∀ (ds pre : List Nat) (s : St) (v : Int) (i : Nat) (l : List Nat),
    Pre T pre s v i l → ∀ (s' : St) (v' : Int) (k' : Nat),
    evalFrom (problem T) pre.length s v
      ((List.range' pre.length ds.length).zipWith (fun (i : Nat) (x : Nat) => (⟨i, (x : Int)⟩ : Dec)) ds)
        = some (s', v', k') →
    ∃ i' l', Pre T (pre ++ ds) s' v' i' l' := by
  intro ds
  induction ds with
  | nil =>
    intro pre s v i l h s' v' k' he
    simp [evalFrom] at he
    obtain ⟨rfl, rfl, _⟩ := he
    exact ⟨i, l, by rw [List.append_nil]; exact h⟩
  | cons j ds ih =>
    intro pre s v i l h s' v' k' he
    rw [List.length_cons, List.range'_succ, List.zipWith_cons_cons] at he
    simp only [evalFrom, problem] at he
    by_cases hk : pre.length < nv T
    · have hnv : nextVar T pre.length = some pre.length := by simp [nextVar, hk]
      rw [hnv] at he
      simp only [true_and] at he
      by_cases hdom : ((j : Nat) : Int) ∈ domain T s
      · rw [if_pos hdom] at he
        have hl : l ≠ [] := by
          intro e
          have := h.perm.length_eq
          rw [e] at this
          simp at this
          unfold nv at hk; omega
        obtain ⟨j', hj', e, hok⟩ := (domain_core hT h.core hl _).mp hdom
        have : j = j' := by omega
        subst this
        obtain ⟨h1, h2⟩ := core_step hT h.core hj' pre.length
        have e1 : trans T s ⟨pre.length, (j : Int)⟩ = succSt s j := by unfold trans; rw [h1]; rfl
        have e2 : cost T s ⟨pre.length, (j : Int)⟩ = -(dfun T i j) := by unfold cost; rw [h2]; rfl
        rw [e1, e2] at he
        have hlen : (pre ++ [j]).length = pre.length + 1 := by simp
        rw [← hlen] at he
        obtain ⟨i', l', hP⟩ := ih (pre ++ [j]) _ _ _ _ (pre_step hT h hj' hok) s' v' k' he
        exact ⟨i', l', by rw [List.append_assoc, List.singleton_append] at hP; exact hP⟩
      · rw [if_neg hdom] at he; cases he
    · have hnv : nextVar T pre.length = none := by simp [nextVar, hk]
      rw [hnv] at he
      cases he

-- ------------------------------------------------------------------------------------------------------------------
-- the sequences of the specification

theorem drop_one_range_succ (m : Nat) (hm : 1 ≤ m) :
    (List.range (m + 1)).drop 1 = (List.range m).drop 1 ++ [m] := by
  rw [List.range_succ, List.drop_append_of_le_length (by simp; omega)]

theorem mem_specSeqs_perm {n : Nat} {q : List Nat} (hn : 1 ≤ n) (hq : q ∈ specSeqs n) :
    ∃ t, q = 0 :: t ∧ t.Perm ((List.range n).drop 1) := by
  unfold specSeqs at hq
  split at hq
  · rename_i h1
    subst h1
    have : q = [0] := by simpa using hq
    exact ⟨[], this, by decide⟩
  · rename_i h1
    obtain ⟨p, hp, rfl⟩ := List.mem_map.mp hq
    refine ⟨p ++ [n - 1], rfl, ?_⟩
    obtain ⟨m, rfl⟩ : ∃ m, n = m + 1 := ⟨n - 1, by omega⟩
    have hm : 1 ≤ m := by omega
    rw [drop_one_range_succ m hm]
    exact ((mem_perms _ _).mp hp).append_right _

theorem mem_specSeqs_of {T : Tab} (hT : Ok T) {t : List Nat} (ht : t.Perm ((List.range T.n).drop 1))
    (hr : Sop.respects (dfun T) (0 :: t) = true) : 0 :: t ∈ specSeqs T.n := by
  have hn := hT.n_pos
  unfold specSeqs
  by_cases h1 : T.n = 1
  · rw [if_pos h1]
    rw [h1] at ht
    have : t = [] := by
      have := ht.length_eq
      simp at this
      exact this
    subst this
    simp
  · rw [if_neg h1]
    obtain ⟨m, hm⟩ : ∃ m, T.n = m + 1 := ⟨T.n - 1, by omega⟩
    have hm1 : 1 ≤ m := by omega
    have hmt : m ∈ t := ht.mem_iff.mpr ((mem_drop_one_range _ _).mpr (by omega))
    obtain ⟨a, b, rfl⟩ := List.append_of_mem hmt
    have hnd : (a ++ m :: b).Nodup := ht.nodup_iff.mpr (nodup_drop_one_range _)
    have hb : b = [] := by
      cases b with
      | nil => rfl
      | cons y b' =>
        exfalso
        have h2 := respects_of_append (dfun T) (0 :: a) (m :: y :: b') hr
        rw [respects_cons, Bool.and_eq_true, List.all_eq_true] at h2
        have h3 := h2.1 y List.mem_cons_self
        have hy : y ∈ (List.range T.n).drop 1 := ht.mem_iff.mp (by simp)
        rw [mem_drop_one_range] at hy
        have hne : m ≠ y := by
          have := (List.nodup_append.mp hnd).2.1
          have := (List.nodup_cons.mp this).1
          intro e; apply this; rw [e]; exact List.mem_cons_self
        have h4 := hT.last_row y (by omega)
        have e : T.n - 1 = m := by omega
        rw [e] at h4
        simp [h4] at h3
    subst hb
    rw [hm, drop_one_range_succ m hm1] at ht
    have ha : a.Perm ((List.range m).drop 1) := (List.perm_append_right_iff [m]).mp ht
    have e : T.n - 1 = m := by omega
    rw [e]
    exact List.mem_map.mpr ⟨a, (mem_perms _ _).mpr ha, rfl⟩

-- ------------------------------------------------------------------------------------------------------------------
-- DP exactness

theorem dpExact_of_ok {T : Tab} (hT : Ok T) (decs : List Nat) (s : St) (v : Int) (k : Nat)
    (he : evalFrom (problem T) 0 (initSt T) 0
      ((List.range decs.length).zipWith (fun (i : Nat) (x : Nat) => (⟨i, (x : Int)⟩ : Dec)) decs) = some (s, v, k)) :
    (bestRem T s).addI v = (specBestIn (specSeqs T.n) (dfun T) decs).map (fun x => -x) := by
  rw [List.range_eq_range'] at he
  obtain ⟨i, l, hP⟩ := eval_pre hT decs [] _ _ _ _ (pre_root hT) s v k he
  rw [List.nil_append] at hP
  have hC := hP.core
  have hbr : bestRem T s = bestRemF T .code l.length s := by
    unfold bestRem
    congr 1
    have := hC.len
    unfold nv; omega
  have hmem : ∀ x : Int, x ∈ (((specSeqs T.n).filter fun q => (0 :: decs).isPrefixOf q).filter
        (Sop.respects (dfun T))).map (Sop.cost (dfun T)) ↔
      ∃ r : List Nat, r.Perm l ∧ Sop.respects (dfun T) r = true ∧ x = -v + Sop.cost (dfun T) (i :: r) := by
    intro x
    simp only [List.mem_map, List.mem_filter]
    constructor
    · rintro ⟨q, ⟨⟨hq, hpre⟩, hresp⟩, rfl⟩
      obtain ⟨t, rfl, ht⟩ := mem_specSeqs_perm hT.n_pos hq
      obtain ⟨r, hr⟩ := List.isPrefixOf_iff_prefix.mp hpre
      have ht' : t = decs ++ r := by
        rw [List.cons_append] at hr
        exact (List.cons.inj hr).2.symm
      subst ht'
      have hrl : r.Perm l := (List.perm_append_left_iff decs).mp (ht.trans hP.perm.symm)
      refine ⟨r, hrl, ?_, ?_⟩
      · rw [← hP.resp r (fun x => hrl.mem_iff)]; exact hresp
      · exact hP.cost r
    · rintro ⟨r, hrl, hrr, rfl⟩
      refine ⟨0 :: (decs ++ r), ⟨⟨?_, ?_⟩, ?_⟩, hP.cost r⟩
      · apply mem_specSeqs_of hT ((List.Perm.append_left decs hrl).trans hP.perm)
        rw [hP.resp r (fun x => hrl.mem_iff)]; exact hrr
      · exact List.isPrefixOf_iff_prefix.mpr ⟨r, rfl⟩
      · rw [hP.resp r (fun x => hrl.mem_iff)]; exact hrr
  unfold specBestIn
  rw [hbr]
  cases hb : bestRemF T .code l.length s with
  | none =>
    have hnil : (((specSeqs T.n).filter fun q => (0 :: decs).isPrefixOf q).filter
        (Sop.respects (dfun T))).map (Sop.cost (dfun T)) = [] := by
      apply List.eq_nil_iff_forall_not_mem.mpr
      intro x hx
      obtain ⟨r, hrl, hrr, _⟩ := (hmem x).mp hx
      have := core_ge hT r s i l hC hrl hrr
      rw [hrl.length_eq, hb] at this
      exact this
    rw [hnil]
    rfl
  | some g =>
    obtain ⟨q, hq, hrq, hgq⟩ := core_att hT _ s i l hC rfl g hb
    have hmin := minimum_eq_some ((hmem _).mpr ⟨q, hq, hrq, rfl⟩) (by
      intro x hx
      obtain ⟨r, hrl, hrr, rfl⟩ := (hmem x).mp hx
      have := core_ge hT r s i l hC hrl hrr
      rw [hrl.length_eq, hb] at this
      have : -(Sop.cost (dfun T) (i :: r)) ≤ g := this
      omega)
    rw [hmin]
    simp only [EInt.addI, Option.map_some]
    congr 1; omega

end Exact

-- ------------------------------------------------------------------------------------------------------------------
-- the statements

/-- **`DpExactStmt` holds** on every instance of the domain with
    * at most 256 jobs (`hn`; what a `Set256` holds: `transition` panics on a job `≥ 256` — `trans? = none` —, the model DP then
      loses the completions that schedule such a job while the specification counts them: for `n > 256` without inner
      precedences the root has no completion at all in the model; this necessity is argued, not kernel-checked — the
      specification enumerates `255!` sequences there), and
    * entries at most `2^63 = -imin` (`hb`; `transition_cost` negates the distance with an overflow check: for a larger entry
      `cost? = none`, the model DP skips the decision, the specification counts it).  The bound is tight: with an entry
      `2^63 + 1` the statement is false, `dpExact_false_unbounded` (kernel-checked).
    Both bounds hold for whatever the program can read (`isize` entries, `dpExact_partial_isize`; `Set256`).  Nothing else is
    assumed (`inDomain` is the hypothesis of `DpExactStmt` itself; `n = 1` and `n = 2` are covered). -/
theorem dpExact_partial (n : Nat) (rows : List (List Int)) (hn : n ≤ 256) (hb : ∀ r ∈ rows, ∀ w ∈ r, w ≤ -imin) :
    DpExactStmt n rows := by
  intro hD decs s v k he
  exact Exact.dpExact_of_ok (Exact.ok_tabOf hD hn hb) decs s v k he

/-- `DpExactStmt` for `isize` entries (what the reader of the example parses) -/
theorem dpExact_partial_isize (n : Nat) (rows : List (List Int)) (hn : n ≤ 256) (hb : ∀ r ∈ rows, ∀ w ∈ r, w ≤ imax) :
    DpExactStmt n rows :=
  dpExact_partial n rows hn (fun r hr w hw => by have := hb r hr w hw; unfold imax at this; unfold imin; omega)

/-- the instance of the counter-example below: two jobs, the distance from job 0 to job 1 is `2^63 + 1` -/
def bigRows : List (List Int) := [[0, 9223372036854775809], [-1, 0]]

theorem bigRows_inDomain : inDomain 2 bigRows = true := by decide +kernel

/-- at the root: the model DP has no completion (the cost `-(2^63 + 1)` of the only decision overflows, the decision is
    skipped), the specification answers `2^63 + 1` -/
theorem bigRows_values : bestRem (tabOf 2 bigRows) (initSt (tabOf 2 bigRows)) = none ∧
    specBestIn (specSeqs 2) (dfun (tabOf 2 bigRows)) [] = some 9223372036854775809 := by decide +kernel

/-- **without a bound on the entries `DpExactStmt` is FALSE**: `inDomain` does not bound the entries, the checked negation
    of `transition_cost` panics on `2^63 + 1` (in the model: the decision is skipped), the specification counts the sequence.
    NOT reachable by the program: `2^63 + 1` is no `isize`, the reader of the example fails to parse it. -/
theorem dpExact_false_unbounded : ¬ DpExactStmt 2 bigRows := by
  intro h
  have h1 := h bigRows_inDomain [] (initSt (tabOf 2 bigRows)) 0 0 rfl
  revert h1
  decide +kernel

/-- corollary at the root: the specification is minus the value-to-go of the root of the model (`-1` = no completion) -/
theorem root_exact (n : Nat) (rows : List (List Int)) (hD : inDomain n rows = true) (hn : n ≤ 256)
    (hb : ∀ r ∈ rows, ∀ w ∈ r, w ≤ -imin) :
    Sop.spec n (dfun (tabOf n rows)) =
      ((bestRem (tabOf n rows) (initSt (tabOf n rows))).map (fun v => -v)).getD (-1) := by
  rw [← spec_eq_specBestIn]
  have h := dpExact_partial n rows hn hb hD [] (initSt (tabOf n rows)) 0 0 rfl
  cases hbr : bestRem (tabOf n rows) (initSt (tabOf n rows)) with
  | none =>
    rw [hbr] at h
    cases hs : specBestIn (specSeqs n) (dfun (tabOf n rows)) [] with
    | none => rfl
    | some x => rw [hs] at h; simp [EInt.addI] at h
  | some g =>
    rw [hbr] at h
    cases hs : specBestIn (specSeqs n) (dfun (tabOf n rows)) [] with
    | none => rw [hs] at h; simp [EInt.addI] at h
    | some x =>
      rw [hs] at h
      simp only [EInt.addI, Option.map_some, Option.some.injEq] at h
      simp only [Option.map_some, Option.getD_some]
      omega

#print axioms dpExact_partial
#print axioms dpExact_partial_isize
#print axioms dpExact_false_unbounded
#print axioms root_exact

end Ddo.Examples.SopModel
