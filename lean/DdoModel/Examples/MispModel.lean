import DdoModel.WfRel
import DdoModel.Examples.Misp
import DdoModel.Examples.MispDp
import DdoModel.Proofs.SpecUtil
import DdoModel.Props.C06
import DdoModel.Props.C07b
import DdoModel.Props.C16
/-! The DP model of the shipped misp example (`ddo/examples/misp/main.rs`, Lean mirror: `MispDp.lean`, tied pointwise to
    the example's own code by the driver engine `exmodel`) is well formed (`WfRel`, theorem `wfRel`, no hypothesis on
    the instance) for the potential `H k s = mwis s` — the weight of a maximum weight independent set within the
    vertices of the state — and the validity predicate `V k s` = "`s` is a strictly increasing list of vertices of the
    graph"; hence (`Ddo.C06.relaxed_ub_rel_dom`) a relaxed compilation of it reports an upper bound on the true optimum,
    the exhaustive specification `Misp.best` (`misp_relaxed_ub`).

    * `mwis_isMax`: `mwis s` is, declaratively, the maximum of the weight over the independent sub-lists of `s`;
      `best_eq_mwis` / `H_root`: on the root state it is `Misp.best weight edges`; `H_eq_best_induced`: on any state it is
      `Misp.best` of the subgraph induced by the state (relabelled);
    * the dynamic variable order (`next_variable` looks at the whole layer; the merged node is branched on the variable
      chosen for the un-merged layer) is harmless for this model: `attV` holds for ANY variable — a vertex that is not in
      the state has the single decision `NO`, which changes nothing; `nextVar_none`: `None` is answered only when every
      state of the layer is empty;
    * `rub_adm`: `Σ max(w, 0)` is admissible (negative weights included); `sublist_merge` + `mwis_mono`: the union is a
      relaxation;
    * lower direction (`lowRel`, instances without self-loop): no decision gains potential, so `mwis` is the exact
      value-to-go and an exact compilation computes `Misp.best` (`misp_exact_opt`, via `Ddo.C07.exact_mode_opt_rel`);
    * `skip_sound`: `is_impacted_by = false` implies that branching would be the identity at no cost (long arcs). -/
namespace Ddo.Examples.MispModel
open Ddo Ddo.Examples Ddo.Examples.Util Ddo.SpecUtil

variable (I : Inst)

/-! ## independence, weights -/

theorem indep_iff (T : List Nat) : indep I T = true ↔ ∀ e ∈ I.edges, ¬ (e.1 ∈ T ∧ e.2 ∈ T) := by
  simp only [indep, List.all_eq_true]
  constructor
  · intro h e he ⟨h1, h2⟩
    have := h e he
    simp [h1, h2] at this
  · intro h e he
    have := h e he
    cases h1 : T.contains e.1 <;> cases h2 : T.contains e.2 <;> simp_all

theorem indep_nil : indep I [] = true := by simp [indep_iff]

theorem indep_subset {T T' : List Nat} (hsub : ∀ v ∈ T', v ∈ T) (h : indep I T = true) : indep I T' = true := by
  rw [indep_iff] at h ⊢
  exact fun e he ⟨h1, h2⟩ => h e he ⟨hsub _ h1, hsub _ h2⟩

theorem adj_iff (u v : Nat) :
    I.adj u v = true ↔ ∃ e ∈ I.edges, (e.1 = u ∧ e.2 = v) ∨ (e.1 = v ∧ e.2 = u) := by
  simp [Inst.adj, List.any_eq_true]

/-- two members of an independent set are not adjacent -/
theorem indep_not_adj {T : List Nat} (h : indep I T = true) {u v : Nat} (hu : u ∈ T) (hv : v ∈ T) :
    I.adj u v = false := by
  cases hadj : I.adj u v with
  | false => rfl
  | true =>
    obtain ⟨e, he, h1 | h1⟩ := (adj_iff I u v).mp hadj
    · exact absurd ⟨h1.1 ▸ hu, h1.2 ▸ hv⟩ ((indep_iff I T).mp h e he)
    · exact absurd ⟨h1.1 ▸ hv, h1.2 ▸ hu⟩ ((indep_iff I T).mp h e he)

theorem wsum_eq (T : List Nat) : wsum I T = (T.map I.w).sum := sum_eq _

theorem wsum_nil : wsum I [] = 0 := rfl

/-- taking `x` out of a duplicate-free list that contains it -/
theorem wsum_remove {T : List Nat} (hnd : T.Nodup) {x : Nat} (hx : x ∈ T) :
    wsum I T = I.w x + wsum I (T.filter (· != x)) := by
  simp only [wsum_eq]
  induction T with
  | nil => cases hx
  | cons a r ih =>
    obtain ⟨ha, hr⟩ := List.nodup_cons.mp hnd
    by_cases hax : a = x
    · subst hax
      have : r.filter (· != a) = r := by
        apply List.filter_eq_self.mpr
        intro v hv
        have : v ≠ a := fun e => ha (e ▸ hv)
        simpa using this
      simp [this]
    · have hxr : x ∈ r := by
        rcases List.mem_cons.mp hx with h | h
        · exact absurd h.symm hax
        · exact h
      have := ih hr hxr
      simp only [List.filter_cons, bne_iff_ne, ne_eq, hax, not_false_eq_true, if_true, List.map_cons, List.sum_cons]
      omega

/-! ## the potential `mwis`, declaratively -/

/-- the candidate solutions within the vertices `s`: independent sub-lists -/
def Feas (s T : List Nat) : Prop := T.Sublist s ∧ indep I T = true

theorem mwis_values (s : List Nat) (x : Int) :
    x ∈ (sublists s).filterMap (fun T => if indep I T then some (wsum I T) else none) ↔
      ∃ T, Feas I s T ∧ wsum I T = x := by
  simp only [List.mem_filterMap, mem_sublists, Feas]
  constructor
  · rintro ⟨T, hT, hx⟩
    split at hx
    · rename_i hi
      exact ⟨T, ⟨hT, hi⟩, by simpa using hx⟩
    · cases hx
  · rintro ⟨T, ⟨hT, hi⟩, rfl⟩
    exact ⟨T, hT, by simp [hi]⟩

/-- `mwis s` is the largest weight of an independent set within `s` -/
theorem mwis_isMax (s : List Nat) : IsMaxOf (Feas I s) (wsum I) (mwis I s) := by
  rcases (maxOf_getD_iff (mwis_values I s) 0 (mwis I s)).mp rfl with h | ⟨hno, _⟩
  · exact h
  · exact absurd ⟨[], List.nil_sublist _, indep_nil I⟩ hno

theorem mwis_attained (s : List Nat) : ∃ T, T.Sublist s ∧ indep I T = true ∧ wsum I T = mwis I s := by
  obtain ⟨⟨T, ⟨h1, h2⟩, h3⟩, _⟩ := mwis_isMax I s
  exact ⟨T, h1, h2, h3⟩

theorem mwis_ge {s T : List Nat} (h1 : T.Sublist s) (h2 : indep I T = true) : wsum I T ≤ mwis I s :=
  (mwis_isMax I s).2 T ⟨h1, h2⟩

theorem mwis_mono {s s' : List Nat} (h : s.Sublist s') : mwis I s ≤ mwis I s' := by
  obtain ⟨T, h1, h2, h3⟩ := mwis_attained I s
  rw [← h3]
  exact mwis_ge I (h1.trans h) h2

theorem mwis_nil : mwis I [] = 0 := by
  obtain ⟨T, h1, _, h3⟩ := mwis_attained I []
  rw [← h3, List.sublist_nil.mp h1]; rfl

theorem mwis_nonneg (s : List Nat) : 0 ≤ mwis I s := by
  have := mwis_ge I (List.nil_sublist s) (indep_nil I)
  simpa [wsum_nil] using this

/-! ## strictly increasing lists -/

/-- an increasing list included (as a set) in another one is a sub-list of it -/
theorem sublist_of_subset_sorted : ∀ {l₂ l₁ : List Nat}, l₁.Pairwise (· < ·) → l₂.Pairwise (· < ·) →
    (∀ v ∈ l₁, v ∈ l₂) → l₁.Sublist l₂
  | [], l₁, _, _, hsub => by
    cases l₁ with
    | nil => exact List.Sublist.slnil
    | cons a r => exact absurd (hsub a List.mem_cons_self) (by simp)
  | b :: t, [], _, _, _ => List.nil_sublist _
  | b :: t, a :: r, h1, h2, hsub => by
    obtain ⟨ha, hr⟩ := List.pairwise_cons.mp h1
    obtain ⟨hb, ht⟩ := List.pairwise_cons.mp h2
    by_cases hab : a = b
    · subst hab
      refine List.Sublist.cons_cons a (sublist_of_subset_sorted hr ht ?_)
      intro v hv
      have hlt := ha v hv
      rcases List.mem_cons.mp (hsub v (List.mem_cons_of_mem _ hv)) with h | h
      · omega
      · exact h
    · refine List.Sublist.cons b (sublist_of_subset_sorted h1 ht ?_)
      have hat : a ∈ t := by
        rcases List.mem_cons.mp (hsub a List.mem_cons_self) with h | h
        · exact absurd h hab
        · exact h
      have hba := hb a hat
      intro v hv
      rcases List.mem_cons.mp (hsub v hv) with h | h
      · rcases List.mem_cons.mp hv with h' | h'
        · omega
        · have := ha v h'; omega
      · exact h

theorem nodup_of_sorted {l : List Nat} (h : l.Pairwise (· < ·)) : l.Nodup :=
  h.imp (fun hab => by omega)

/-! ## validity is closed under what the compilation does -/

theorem V_filter {k k' : Nat} {s : St} (p : Nat → Bool) (h : V I k s) : V I k' (s.filter p) :=
  ⟨h.1.filter p, fun v hv => h.2 v ((List.mem_filter.mp hv).1)⟩

theorem V_trans {k k' : Nat} {s : St} (h : V I k s) (d : Dec) : V I k' (trans I s d) := by
  unfold trans
  split
  · exact V_filter I _ (V_filter I (k' := k) _ h)
  · exact V_filter I _ h

theorem V_merge (k : Nat) (X : List St) : V I k (mergeStates I X) :=
  ⟨List.pairwise_lt_range.filter _, fun _ hv => List.mem_range.mp ((List.mem_filter.mp hv).1)⟩

theorem V_init (k : Nat) : V I k (List.range I.n) :=
  ⟨List.pairwise_lt_range, fun _ hv => List.mem_range.mp hv⟩

theorem mem_merge {X : List St} {v : Nat} : v ∈ mergeStates I X ↔ v < I.n ∧ ∃ s ∈ X, v ∈ s := by
  simp [mergeStates, List.mem_filter, List.any_eq_true]

/-- a valid member of `X` is a sub-list of the merged state -/
theorem sublist_merge {k : Nat} {X : List St} {u : St} (hu : u ∈ X) (hV : V I k u) : u.Sublist (mergeStates I X) :=
  sublist_of_subset_sorted hV.1 (V_merge I k X).1 (fun v hv => (mem_merge I).mpr ⟨hV.2 v hv, u, hu, hv⟩)

/-! ## the clauses of `WfRel` -/

theorem filter_ne_self {s : St} {x : Nat} (hx : x ∉ s) : s.filter (· != x) = s := by
  apply List.filter_eq_self.mpr
  intro v hv
  have : v ≠ x := fun e => hx (e ▸ hv)
  simpa using this

/-- `att` on any valid state and for **any** variable `x` (chosen for whatever layer): when `x` is not in the state the
    only decision `NO` leaves the state unchanged at no cost; otherwise follow an optimal independent set -/
theorem attV (k : Nat) (x : Nat) (s : St) (hV : V I k s) :
    ∃ d ∈ (problem I).domain x s, ∃ h', H I (k + 1) ((problem I).trans s ⟨x, d⟩) = some h' ∧
      mwis I s ≤ (problem I).cost s ((problem I).trans s ⟨x, d⟩) ⟨x, d⟩ + h' := by
  simp only [problem, H]
  by_cases hx : x ∈ s
  · obtain ⟨T, hTs, hTi, hTw⟩ := mwis_attained I s
    have hTnd : T.Nodup := (nodup_of_sorted hV.1).sublist hTs
    by_cases hxT : x ∈ T
    · -- take `x`
      refine ⟨1, by simp [hx], _, rfl, ?_⟩
      have hsub : (T.filter (· != x)).Sublist (trans I s ⟨x, 1⟩) := by
        have h1 : (T.filter (· != x)).Sublist (s.filter (· != x)) := hTs.filter _
        have h2 := h1.filter (fun u => decide (u < I.n) && !I.adj x u)
        have h3 : (T.filter (· != x)).filter (fun u => decide (u < I.n) && !I.adj x u) = T.filter (· != x) := by
          apply List.filter_eq_self.mpr
          intro v hv
          have hvT : v ∈ T := (List.mem_filter.mp hv).1
          have hvn : v < I.n := hV.2 v (hTs.subset hvT)
          have := indep_not_adj I hTi hxT hvT
          simp [hvn, this]
        rw [h3] at h2
        simpa [trans] using h2
      have hind : indep I (T.filter (· != x)) = true := indep_subset I (fun v hv => (List.mem_filter.mp hv).1) hTi
      have := mwis_ge I hsub hind
      have hw := wsum_remove I hTnd hxT
      simp only [show ((1 : Int) = 0) = False from by simp, if_false]
      omega
    · -- leave `x` out
      refine ⟨0, by simp [hx], _, rfl, ?_⟩
      have hsub : T.Sublist (trans I s ⟨x, 0⟩) := by
        have h1 : (T.filter (· != x)).Sublist (s.filter (· != x)) := hTs.filter _
        rw [filter_ne_self hxT] at h1
        simpa [trans] using h1
      have := mwis_ge I hsub hTi
      simp only [if_true]
      omega
  · refine ⟨0, by simp [hx], _, rfl, ?_⟩
    have : trans I s ⟨x, 0⟩ = s := by simp [trans, filter_ne_self hx]
    rw [this]
    simp

/-- `next_variable` answers `None` only when no state of the layer contains a vertex of the graph -/
theorem nextVar_none {L : List St} (h : nextVar I L = none) {s : St} (hs : s ∈ L) {v : Nat} (hv : v ∈ s) (hvn : v < I.n) :
    False := by
  unfold nextVar at h
  rw [Option.map_eq_none_iff] at h
  have hnil : (((List.range I.n).map fun v => (v, occ L v)).filter fun p => decide (0 < p.2)) = [] := by
    cases hl : (((List.range I.n).map fun v => (v, occ L v)).filter fun p => decide (0 < p.2)) with
    | nil => rfl
    | cons c r => rw [hl] at h; simp [firstMin] at h
  have hmem : (v, occ L v) ∈ (((List.range I.n).map fun v => (v, occ L v)).filter fun p => decide (0 < p.2)) := by
    rw [List.mem_filter]
    refine ⟨List.mem_map.mpr ⟨v, List.mem_range.mpr hvn, rfl⟩, ?_⟩
    have : s ∈ L.filter (·.contains v) := List.mem_filter.mpr ⟨hs, by simpa using hv⟩
    have := List.length_pos_of_mem this
    simpa [occ] using this
  rw [hnil] at hmem
  cases hmem

theorem termV (k : Nat) (L : List St) (s : St) (h : nextVar I L = none) (hs : s ∈ L) (hV : V I k s) : mwis I s = 0 := by
  cases s with
  | nil => exact mwis_nil I
  | cons v r => exact (nextVar_none I h hs List.mem_cons_self (hV.2 v List.mem_cons_self)).elim

theorem sum_sublist_le {f : Nat → Int} (hf : ∀ v, 0 ≤ f v) {T s : List Nat} (h : T.Sublist s) :
    (T.map f).sum ≤ (s.map f).sum := by
  induction h with
  | slnil => simp
  | cons a _ ih => have := hf a; simp only [List.map_cons, List.sum_cons]; omega
  | cons_cons a _ ih => simp only [List.map_cons, List.sum_cons]; omega

theorem sum_map_le {f g : Nat → Int} (hfg : ∀ v, f v ≤ g v) (T : List Nat) : (T.map f).sum ≤ (T.map g).sum := by
  induction T with
  | nil => simp
  | cons a r ih => have := hfg a; simp only [List.map_cons, List.sum_cons]; omega

/-- the rough upper bound `Σ max(w, 0)` is admissible -/
theorem rub_adm (s : St) : mwis I s ≤ rub I s := by
  obtain ⟨T, hTs, _, hTw⟩ := mwis_attained I s
  rw [← hTw, wsum_eq]
  have h1 : (T.map I.w).sum ≤ (T.map fun v => max (I.w v) 0).sum := sum_map_le (fun v => by omega) T
  have h2 : (T.map fun v => max (I.w v) 0).sum ≤ (s.map fun v => max (I.w v) 0).sum :=
    sum_sublist_le (fun v => by omega) hTs
  unfold rub
  omega

/-- **the model of the misp example is well formed** (no hypothesis on the instance) -/
theorem wfRel : WfRel (problem I) (relaxation I) (H I) (V I) where
  vstep := fun k _ x s d _ _ hV _ => V_trans I hV ⟨x, d⟩
  vstepMerge := fun k _ x X d _ _ _ _ _ => V_trans I (V_merge I k X) ⟨x, d⟩
  vmerge := fun k X _ _ => V_merge I k X
  att := by
    intro k L x s h _ _ hV hH
    simp only [H, Option.some.injEq] at hH
    subst hH
    exact attV I k x s hV
  attMerge := by
    intro k L x X h _ _ _ _ hH
    simp only [H, Option.some.injEq] at hH
    subst hH
    exact attV I k x _ (V_merge I k X)
  term := by
    intro k L s h hnv hs hV hH
    simp only [H, Option.some.injEq] at hH
    have := termV I k L s hnv hs hV
    omega
  rub := by
    intro k s h _ hH
    simp only [H, Option.some.injEq] at hH
    subst hH
    exact rub_adm I s
  merge := by
    intro k X u src d c h hu hXV hH
    simp only [H, Option.some.injEq] at hH
    subst hH
    refine ⟨mwis I (mergeStates I X), rfl, ?_⟩
    have := mwis_mono I (sublist_merge I hu (hXV u hu))
    simp only [relaxation]
    omega

/-! ## the potential of the root is the specification `Misp.best` -/

/-- the edges as the instance file (and `Misp.best`) lists them: 1-based -/
def Inst.edges1 : List (Int × Int) := I.edges.map fun e => ((e.1 : Int) + 1, (e.2 : Int) + 1)

theorem sublists_map {α β : Type} (f : α → β) (l : List α) : sublists (l.map f) = (sublists l).map (List.map f) := by
  induction l with
  | nil => rfl
  | cons x xs ih =>
    simp only [List.map_cons, sublists, ih, List.map_append, List.map_map]
    congr 1

theorem vertices_eq (hlen : I.weight.length = I.n) :
    (oneTo I.weight.length).zip I.weight = (List.range I.n).map (fun v : Nat => ((v : Int) + 1, I.w v)) := by
  apply List.ext_getElem
  · simp [length_oneTo, hlen]
  · intro i h1 h2
    simp only [List.length_map, List.length_range] at h2
    have hw : i < I.weight.length := by omega
    simp [oneTo, Inst.w, List.getElem?_eq_getElem hw]

theorem contains_map_succ (T : List Nat) (u : Nat) :
    (T.map fun v : Nat => ((v : Int) + 1)).contains ((u : Int) + 1) = T.contains u := by
  rw [Bool.eq_iff_iff]
  simp only [List.contains_iff_mem, List.mem_map]
  constructor
  · rintro ⟨v, hv, e⟩
    have : v = u := by omega
    exact this ▸ hv
  · exact fun h => ⟨u, h, rfl⟩

theorem independent_eq (T : List Nat) :
    Misp.independent I.edges1 (T.map fun v : Nat => ((v : Int) + 1)) = indep I T := by
  simp only [Misp.independent, Inst.edges1, indep, List.all_map]
  apply List.all_congr rfl
  intro e
  show (!((T.map fun v : Nat => ((v : Int) + 1)).contains ((e.1 : Int) + 1) &&
          (T.map fun v : Nat => ((v : Int) + 1)).contains ((e.2 : Int) + 1))) = _
  rw [contains_map_succ, contains_map_succ]

/-- the enumeration of `Misp.best` on the whole graph is the enumeration of `mwis` on the root state -/
theorem best_eq_mwis (hlen : I.weight.length = I.n) :
    Misp.best I.weight I.edges1 = some (mwis I (List.range I.n)) := by
  have hlist : (sublists ((oneTo I.weight.length).zip I.weight)).filterMap (fun s =>
        if Misp.independent I.edges1 (s.map (·.1)) then some (sum (s.map (·.2))) else none) =
      (sublists (List.range I.n)).filterMap (fun T => if indep I T then some (wsum I T) else none) := by
    rw [vertices_eq I hlen, sublists_map, List.filterMap_map]
    congr 1
    funext T
    simp only [Function.comp, List.map_map]
    have e1 : ((fun x : Int × Int => x.1) ∘ fun v : Nat => ((v : Int) + 1, I.w v)) = fun v : Nat => ((v : Int) + 1) := rfl
    have e2 : ((fun x : Int × Int => x.2) ∘ fun v : Nat => ((v : Int) + 1, I.w v)) = I.w := rfl
    rw [e1, e2, independent_eq]
    rfl
  unfold Misp.best
  simp only []
  rw [hlist]
  obtain ⟨T, hT⟩ := (mwis_isMax I (List.range I.n)).1
  cases hm : maxOf ((sublists (List.range I.n)).filterMap fun T => if indep I T then some (wsum I T) else none) with
  | none =>
    have := (maxOf_none_iff (mwis_values I (List.range I.n))).mp hm
    exact absurd ⟨T, hT.1⟩ this
  | some v => simp [mwis, hm]

/-- the potential of the root state is the exhaustive specification of the optimum -/
theorem H_root (hlen : I.weight.length = I.n) : H I 0 (List.range I.n) = Misp.best I.weight I.edges1 := by
  rw [best_eq_mwis I hlen]; rfl

/-! ## the potential of ANY state is the specification on the induced subgraph -/

/-- the sub-instance induced by the vertices `s`, relabelled `0 … |s|-1` in the order of `s`; an edge `(i, j)` for
    every ordered pair of adjacent members (a self-loop stays a self-loop) -/
def induced (s : List Nat) : Inst :=
  { n := s.length
    weight := s.map I.w
    edges := (List.range s.length).flatMap fun i =>
      ((List.range s.length).filter fun j => I.adj (s.getD i 0) (s.getD j 0)).map fun j => (i, j) }

theorem mem_induced_edges (s : List Nat) (i j : Nat) :
    (i, j) ∈ (induced I s).edges ↔ i < s.length ∧ j < s.length ∧ I.adj (s.getD i 0) (s.getD j 0) = true := by
  simp only [induced, List.mem_flatMap, List.mem_map, List.mem_filter, List.mem_range, Prod.mk.injEq]
  constructor
  · rintro ⟨a, ha, b, ⟨hb, hadj⟩, rfl, rfl⟩; exact ⟨ha, hb, hadj⟩
  · rintro ⟨hi, hj, hadj⟩; exact ⟨i, hi, j, ⟨hj, hadj⟩, rfl, rfl⟩

theorem eq_map_getD (s : List Nat) : s = (List.range s.length).map (fun i => s.getD i 0) := by
  apply List.ext_getElem
  · simp
  · intro i h1 h2
    simp [List.getD_eq_getElem?_getD, List.getElem?_eq_getElem h1]

theorem filterMap_congr_mem {α β : Type} {f g : α → Option β} {l : List α} (h : ∀ a ∈ l, f a = g a) :
    l.filterMap f = l.filterMap g := by
  induction l with
  | nil => rfl
  | cons a r ih =>
    have h1 := h a List.mem_cons_self
    have h2 := ih (fun b hb => h b (List.mem_cons_of_mem _ hb))
    simp only [List.filterMap_cons, h1, h2]

theorem induced_w (s : List Nat) {i : Nat} (hi : i < s.length) : (induced I s).w i = I.w (s.getD i 0) := by
  simp [induced, Inst.w, List.getD_eq_getElem?_getD, List.getElem?_eq_getElem hi]

theorem induced_indep (s : List Nat) {T : List Nat} (hT : ∀ i ∈ T, i < s.length) :
    indep (induced I s) T = indep I (T.map fun i => s.getD i 0) := by
  rw [Bool.eq_iff_iff, indep_iff, indep_iff]
  constructor
  · intro h e he ⟨h1, h2⟩
    obtain ⟨i, hi, e1⟩ := List.mem_map.mp h1
    obtain ⟨j, hj, e2⟩ := List.mem_map.mp h2
    have hadj : I.adj (s.getD i 0) (s.getD j 0) = true := (adj_iff I _ _).mpr ⟨e, he, Or.inl ⟨e1.symm, e2.symm⟩⟩
    exact h (i, j) ((mem_induced_edges I s i j).mpr ⟨hT i hi, hT j hj, hadj⟩) ⟨hi, hj⟩
  · intro h e' he' ⟨h1, h2⟩
    obtain ⟨i, j⟩ := e'
    obtain ⟨_, _, hadj⟩ := (mem_induced_edges I s i j).mp he'
    obtain ⟨e, he, h3 | h3⟩ := (adj_iff I _ _).mp hadj
    · exact h e he ⟨List.mem_map.mpr ⟨i, h1, h3.1.symm⟩, List.mem_map.mpr ⟨j, h2, h3.2.symm⟩⟩
    · exact h e he ⟨List.mem_map.mpr ⟨j, h2, h3.1.symm⟩, List.mem_map.mpr ⟨i, h1, h3.2.symm⟩⟩

theorem induced_wsum (s : List Nat) {T : List Nat} (hT : ∀ i ∈ T, i < s.length) :
    wsum (induced I s) T = wsum I (T.map fun i => s.getD i 0) := by
  simp only [wsum, List.map_map]
  congr 1
  apply List.map_congr_left
  intro i hi
  exact induced_w I s (hT i hi)

/-- the potential does not change when the state is cut out of the graph and relabelled -/
theorem mwis_induced (s : List Nat) : mwis (induced I s) (List.range s.length) = mwis I s := by
  conv => rhs; unfold mwis; rw [eq_map_getD s, sublists_map, List.filterMap_map]
  unfold mwis
  congr 2
  apply filterMap_congr_mem
  intro T hT
  have hsub : ∀ i ∈ T, i < s.length := fun i hi => List.mem_range.mp ((mem_sublists.mp hT).subset hi)
  simp only [Function.comp]
  rw [induced_indep I s hsub, induced_wsum I s hsub]

/-- **the potential of a state is the specification `Misp.best` of the subgraph induced by the state** (weights
    `s.map w`, an edge between positions `i` and `j` iff the vertices `s[i]`, `s[j]` are adjacent) -/
theorem H_eq_best_induced (k : Nat) (s : St) :
    H I k s = Misp.best (s.map I.w) (induced I s).edges1 := by
  have h : Misp.best (s.map I.w) (induced I s).edges1 = some (mwis (induced I s) (List.range s.length)) :=
    best_eq_mwis (induced I s) (by simp [induced])
  rw [mwis_induced] at h
  simp only [H]
  exact h.symm

/-! ## the corollary: a relaxed compilation of the example bounds the true optimum -/

theorem w_bound (B : Int) (hB0 : 0 ≤ B) (hb : ∀ q ∈ I.weight, -B ≤ q ∧ q ≤ B) (v : Nat) : -B ≤ I.w v ∧ I.w v ≤ B := by
  unfold Inst.w
  cases h : I.weight[v]? with
  | none => simp; omega
  | some q => simp; exact hb q (List.mem_of_getElem? h)

theorem rub_le_len (B : Int) (hB0 : 0 ≤ B) (hb : ∀ q ∈ I.weight, -B ≤ q ∧ q ≤ B) (s : St) :
    rub I s ≤ (s.length : Int) * B := by
  unfold rub
  induction s with
  | nil => simp
  | cons v r ih =>
    have := (w_bound I B hB0 hb v).2
    have e : (((v :: r).length : Nat) : Int) * B = (r.length : Int) * B + B := by
      rw [List.length_cons]; grind
    simp only [List.map_cons, List.sum_cons, e]
    omega

theorem noClampDom (B : Int) (hB0 : 0 ≤ B) (hb : ∀ q ∈ I.weight, -B ≤ q ∧ q ≤ B)
    (hsmall : ((I.n : Int) + 2) * B ≤ 4611686018427387904) :
    NoClampDom (problem I) (relaxation I) 0 B where
  nonneg := hB0
  root := by omega
  cost := by
    intro x s d _
    have hw := w_bound I B hB0 hb x
    simp only [problem]
    split <;> omega
  relax := fun _ _ _ _ _ hc => hc
  small := hsmall

/-- **The shipped misp example**: a relaxed compilation of its model from the root (no cache, no dominance checker,
    width ≥ 1, any incumbent `lb` that the optimum beats) reports a best value that is at least the true optimum — the
    exhaustive specification `Misp.best weight edges` (adequate: `Ddo.C16.misp_spec_adequate`).

    Hypotheses on the instance: one weight per vertex, weights in `[-B, B]` with `(n + 2) · B ≤ 2^62` (no `isize`
    saturation).  Nothing about the edges (repetitions, both orientations, even self-loops: a vertex with a self-loop
    is in no independent set of the specification, the model may take it — the bound only gets weaker). -/
theorem misp_relaxed_ub {K : Type} [DecidableEq K] (cfg : Cfg St K) (B : Int)
    (cache : Cache St) (store : DomStore St K) (polls : Nat)
    (hP : cfg.P = problem I) (hR : cfg.R = relaxation I)
    (hrs : cfg.root.state = List.range I.n) (hrv : cfg.root.value = 0) (hrd : cfg.root.depth = 0)
    (hrel : cfg.ctype = .relaxed) (hcache : cfg.useCache = false) (hdom : cfg.dom = none) (hW : 1 ≤ cfg.width)
    (hlen : I.weight.length = I.n)
    (hb : ∀ q ∈ I.weight, -B ≤ q ∧ q ≤ B) (hB0 : 0 ≤ B)
    (hsmall : ((I.n : Int) + 2) * B ≤ 4611686018427387904)
    (hlb : InI cfg.lb) (o : Int) (ho : Misp.best I.weight I.edges1 = some o) (hgt : o > cfg.lb) :
    (compile cfg cache store polls none).1 = .ok →
    ∃ bv, (compile cfg cache store polls none).2.1.bestValue = some bv ∧ o ≤ bv := by
  have hoe : o = mwis I (List.range I.n) := by
    rw [best_eq_mwis I hlen] at ho
    exact (Option.some.inj ho).symm
  have hO : o ≤ iMax := by
    have h1 := rub_adm I (List.range I.n)
    have h2 := rub_le_len I B hB0 hb (List.range I.n)
    rw [List.length_range] at h2
    have h3 := Int.mul_le_mul_of_nonneg_right (show (I.n : Int) ≤ (I.n : Int) + 2 by omega) hB0
    simp only [iMax]; omega
  refine C06.relaxed_ub_rel_dom cfg (H I) (V I) B cache store polls hrel hcache hdom hW ?_ ?_ ?_ hlb o ?_ hgt (Or.inl hO)
  · rw [hP, hR]; exact wfRel I
  · rw [hrd, hrs]; exact V_init I 0
  · rw [hP, hR, hrv]; exact noClampDom I B hB0 hb hsmall
  · unfold optOf
    rw [hrd, hrs, hrv, hoe]
    simp [H, EInt.addI]

/-! ## the lower direction: the potential is the exact value-to-go (instances without self-loop)

`WfRel` says that some decision keeps the potential (`att`).  Conversely no decision of the domain gains potential
(`Potential.le` on valid states, `LowRel`): taking `x ∈ s` and then an independent set of `s ∖ {x} ∖ N(x)` is an
independent set of `s` — provided `x` carries no self-loop (the model takes such a vertex, the specification does
not).  Together: `mwis` satisfies the Bellman equation of the model, and an EXACT compilation of the example computes
`Misp.best` (`misp_exact_opt`). -/

def NoLoops : Prop := ∀ e ∈ I.edges, e.1 ≠ e.2

instance : Decidable (NoLoops I) := by unfold NoLoops; exact inferInstance

/-- putting `x ∈ s` back into an independent set of `trans s (x := YES)` -/
theorem le_take (hnl : NoLoops I) {k : Nat} {s : St} (hV : V I k s) {x : Nat} (hx : x ∈ s) :
    I.w x + mwis I (trans I s ⟨x, 1⟩) ≤ mwis I s := by
  obtain ⟨T, hTs, hTi, hTw⟩ := mwis_attained I (trans I s ⟨x, 1⟩)
  have hs' : trans I s ⟨x, 1⟩ = (s.filter (· != x)).filter (fun u => decide (u < I.n) && !I.adj x u) := by
    simp [trans]
  -- members of `T`: in `s`, different from `x`, not adjacent to `x`
  have hTmem : ∀ v ∈ T, v ∈ s ∧ v ≠ x ∧ I.adj x v = false := by
    intro v hv
    have h1 := hTs.subset hv
    rw [hs', List.mem_filter, List.mem_filter] at h1
    obtain ⟨⟨h1, h2⟩, h3⟩ := h1
    refine ⟨h1, by simpa using h2, ?_⟩
    simp only [Bool.and_eq_true, decide_eq_true_eq, Bool.not_eq_true'] at h3
    exact h3.2
  have hxT : x ∉ T := fun h => (hTmem x h).2.1 rfl
  have hTss : T.Sublist s := by
    rw [hs'] at hTs
    exact (hTs.trans List.filter_sublist).trans List.filter_sublist
  have hsnd : s.Nodup := nodup_of_sorted hV.1
  -- `T = s.filter (T.contains ·)`
  have hTeq : T = s.filter (fun v => T.contains v) := by
    have := sublist_eq_filter (fun v : Nat => v) hTss (by simpa using hsnd)
    simpa using this
  let T2 := s.filter (fun v => v == x || T.contains v)
  have hT2s : T2.Sublist s := List.filter_sublist
  have hxT2 : x ∈ T2 := List.mem_filter.mpr ⟨hx, by simp⟩
  have hT2mem : ∀ v ∈ T2, v = x ∨ v ∈ T := by
    intro v hv
    have := (List.mem_filter.mp hv).2
    simpa using this
  have hT2i : indep I T2 = true := by
    rw [indep_iff]
    rintro e he ⟨h1, h2⟩
    rcases hT2mem _ h1 with h1 | h1 <;> rcases hT2mem _ h2 with h2 | h2
    · exact hnl e he (h1.trans h2.symm)
    · have := (hTmem _ h2).2.2
      have hadj : I.adj x e.2 = true := (adj_iff I x e.2).mpr ⟨e, he, Or.inl ⟨h1, rfl⟩⟩
      rw [hadj] at this; cases this
    · have := (hTmem _ h1).2.2
      have hadj : I.adj x e.1 = true := (adj_iff I x e.1).mpr ⟨e, he, Or.inr ⟨rfl, h2⟩⟩
      rw [hadj] at this; cases this
    · exact (indep_iff I T).mp hTi e he ⟨h1, h2⟩
  have hrem : T2.filter (· != x) = T := by
    show (s.filter (fun v => v == x || T.contains v)).filter (· != x) = T
    rw [List.filter_filter]
    conv => rhs; rw [hTeq]
    apply List.filter_congr
    intro v _
    by_cases hvx : v = x
    · subst hvx
      simpa using hxT
    · have h1 : (v != x) = true := by simpa using hvx
      have h2 : (v == x) = false := by simpa using hvx
      simp [h1, h2]
  have h1 := wsum_remove I (hsnd.sublist hT2s) hxT2
  rw [hrem] at h1
  have h2 := mwis_ge I hT2s hT2i
  omega

theorem lowRel (hnl : NoLoops I) : Truth.LowRel (problem I) (H I) (V I) where
  vstep := fun k _ x s d _ _ hV _ => V_trans I hV ⟨x, d⟩
  le := by
    intro k L x s v p d _ hV _ _ hd
    simp only [problem] at hd
    simp only [H, EInt.addI, Option.map_some, EInt.some_le_some, problem]
    by_cases hx : x ∈ s
    · have hd' : d = 1 ∨ d = 0 := by simpa [hx] using hd
      rcases hd' with rfl | rfl
      · have := le_take I hnl hV hx
        simp only [show ((1 : Int) = 0) = False from by simp, if_false]
        omega
      · have : (trans I s ⟨x, 0⟩).Sublist s := by simp [trans]
        have := mwis_mono I this
        simp only [if_true]
        omega
    · have hd' : d = 0 := by simpa [hx] using hd
      subst hd'
      have : trans I s ⟨x, 0⟩ = s := by simp [trans, filter_ne_self hx]
      rw [this]
      simp
  term := fun k L s hnv hs hV => ⟨mwis I s, rfl, by rw [termV I k L s hnv hs hV]; exact Int.le_refl 0⟩

/-- long arcs are sound: on a state that `is_impacted_by` declares not impacted by `x`, branching on `x` has the single
    decision `NO`, which leaves the state unchanged at no cost — exactly what the pooled diagram assumes when it
    carries the node over to the next layer without branching -/
theorem skip_sound (x : Nat) (s : St) (h : (problem I).impacted x s = false) :
    (problem I).domain x s = [0] ∧ (problem I).trans s ⟨x, 0⟩ = s ∧ (problem I).cost s s ⟨x, 0⟩ = 0 := by
  simp only [problem] at h ⊢
  have hx : x ∉ s := by simpa using h
  refine ⟨by simp [hx], ?_, by simp⟩
  simp [trans, filter_ne_self hx]

/-- why `NoLoops`: on `p edge 1 1 / n 1 5 / e 1 1` the specification is 0 (the vertex is adjacent to itself), the model
    takes the vertex and collects 5 -/
example : let J : Inst := { n := 1, weight := [5], edges := [(0, 0)] }
    Misp.best J.weight J.edges1 = some 0 ∧ mwis J [0] = 0 ∧
    (problem J).cost [0] ((problem J).trans [0] ⟨0, 1⟩) ⟨0, 1⟩ + mwis J ((problem J).trans [0] ⟨0, 1⟩) = 5 := by decide

theorem noClamp (B : Int) (hB0 : 0 ≤ B) (hb : ∀ q ∈ I.weight, -B ≤ q ∧ q ≤ B)
    (hsmall : ((I.n : Int) + 2) * B ≤ 4611686018427387904) :
    NoClamp (problem I) (relaxation I) 0 B where
  nonneg := hB0
  root := by omega
  cost := by
    intro s s' d
    have hw := w_bound I B hB0 hb d.var
    simp only [problem]
    split <;> omega
  relax := fun _ _ _ _ _ hc => hc
  small := hsmall

/-- **The DP model of the shipped misp example is exact**: an exact compilation from the root (no cache, no dominance
    checker, any width, any incumbent the optimum beats) is flagged exact and reports exactly the optimum of the
    specification `Misp.best`, with a solution path that the model evaluates to that value (`Truthful`), on instances
    without self-loop. -/
theorem misp_exact_opt {K : Type} [DecidableEq K] (cfg : Cfg St K) (B : Int)
    (cache : Cache St) (store : DomStore St K) (polls : Nat)
    (hP : cfg.P = problem I) (hR : cfg.R = relaxation I)
    (hrs : cfg.root.state = List.range I.n) (hrv : cfg.root.value = 0) (hrd : cfg.root.depth = 0)
    (hx : cfg.ctype = .exact) (hcache : cfg.useCache = false) (hdom : cfg.dom = none)
    (hlen : I.weight.length = I.n) (hnl : NoLoops I)
    (hb : ∀ q ∈ I.weight, -B ≤ q ∧ q ≤ B) (hB0 : 0 ≤ B)
    (hsmall : ((I.n : Int) + 2) * B ≤ 4611686018427387904)
    (hlb : InI cfg.lb) (o : Int) (ho : Misp.best I.weight I.edges1 = some o) (hgt : o > cfg.lb)
    (hok : (compile cfg cache store polls none).1 = .ok) :
    (compile cfg cache store polls none).2.1.isExact = true ∧
    Truth.Truthful cfg [] o (compile cfg cache store polls none).2.1 := by
  have hoe : o = mwis I (List.range I.n) := by
    rw [best_eq_mwis I hlen] at ho
    exact (Option.some.inj ho).symm
  have hO : o ≤ iMax := by
    have h1 := rub_adm I (List.range I.n)
    have h2 := rub_le_len I B hB0 hb (List.range I.n)
    rw [List.length_range] at h2
    have h3 := Int.mul_le_mul_of_nonneg_right (show (I.n : Int) ≤ (I.n : Int) + 2 by omega) hB0
    simp only [iMax]; omega
  have hroot : Reach cfg.P cfg.root.depth cfg.root.state cfg.root.value [] := by
    rw [hrd, hrs, hrv, hP]; exact Reach.root
  have := C07.exact_mode_opt_rel cfg (H I) (V I) B o [] cache store polls hx hcache hdom
    (by rw [hP, hR]; exact Truth.WfX.of_rel (wfRel I)) (by rw [hP]; exact lowRel I hnl)
    (by rw [hrd, hrs]; exact V_init I 0) (by rw [hP, hR, hrv]; exact noClamp I B hB0 hb hsmall) hlb hroot
    (by unfold optOf; rw [hrd, hrs, hrv, hoe]; simp [H, EInt.addI]) hgt (Or.inl hO) hok
  exact ⟨this.1, this.2.1⟩

/-! ## non-vacuity: a concrete instance (the path 0 – 1 – 2 – 3 with a chord, a negative weight, width 2: merges happen) -/
namespace Demo

/-- `p edge 4 4 / n 1 3 / n 2 4 / n 3 -1 / n 4 5 / e 1 2 / e 2 3 / e 3 4 / e 4 2`: optimum 8 = {1, 4} -/
def inst : Inst := { n := 4, weight := [3, 4, -1, 5], edges := [(0, 1), (1, 2), (2, 3), (3, 1)] }

def cfg : Cfg St Unit :=
  { P := problem inst, R := relaxation inst, rank := ⟨rankCmp⟩, dom := none,
    useCache := false, kind := .lel, ctype := .relaxed, width := 2, root := ⟨List.range 4, 0, [], iMax, 0⟩, lb := 0 }

example : ∃ bv, (compile cfg (Cache.init 4) (DomStore.init 4) 0 none).2.1.bestValue = some bv ∧ 8 ≤ bv :=
  misp_relaxed_ub inst cfg 5 (Cache.init 4) (DomStore.init 4) 0 rfl rfl rfl rfl rfl rfl rfl rfl (by decide)
    rfl (by decide) (by decide) (by decide) (by decide) 8 (by decide) (by decide) (by decide)

def cfgX : Cfg St Unit := { cfg with ctype := .exact }

example : (compile cfgX (Cache.init 4) (DomStore.init 4) 0 none).2.1.bestValue = some 8 :=
  (misp_exact_opt inst cfgX 5 (Cache.init 4) (DomStore.init 4) 0 rfl rfl rfl rfl rfl rfl rfl rfl rfl (by decide)
    (by decide) (by decide) (by decide) (by decide) 8 (by decide) (by decide) (by decide)).2.bestValue

/-- the potential of the state `{1, 2, 3}` (after leaving vertex 0 out): the triangle 1 – 2 – 3, weights 4, -1, 5 -/
example : H inst 1 [1, 2, 3] = some 5 := by decide

end Demo

end Ddo.Examples.MispModel

#print axioms Ddo.Examples.MispModel.wfRel
#print axioms Ddo.Examples.MispModel.best_eq_mwis
#print axioms Ddo.Examples.MispModel.misp_relaxed_ub
#print axioms Ddo.Examples.MispModel.lowRel
#print axioms Ddo.Examples.MispModel.misp_exact_opt
#print axioms Ddo.Examples.MispModel.H_eq_best_induced
#print axioms Ddo.Examples.MispModel.skip_sound
