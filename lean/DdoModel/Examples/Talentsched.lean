/-! Specification of the talentsched example (`ddo/examples/talentsched`): the Talent Scheduling Problem.

    Problem.  A film consists of scenes `0 … n-1`; scene `s` takes `duration[s]` days to shoot and requires a given
    set of actors.  The scenes are shot one after the other in an order to be chosen.  Every actor is on location
    (and paid `cost[a]` per day) from the first day of the first scene he plays in until the last day of the last
    scene he plays in, also during the scenes in between in which he does not play.  The cost of an order is the
    total pay of all actors; the program must print the minimum over all orders of the scenes.  An actor who plays
    in no scene is never paid.

    Output convention.  The example maximises the negated cost and prints `Objective: -best` (the full cost,
    including the unavoidable pay for the scenes the actors do play in, which is the model's initial value);
    `-1` would be printed if there were no solution: that never happens, every order is a solution.

    The specification enumerates all permutations of the scenes.

    Instance file: a name line (ignored), `n_scenes`, `n_actors` (on one or two lines), then one line per actor with
    `n_scenes` flags (1 = plays in the scene) followed by the actor's cost, then a line with the `n_scenes`
    durations; empty lines are skipped.
    Spec tokens: `n_scenes n_actors`, then per actor `flag_0 … flag_{n-1} cost`, then `duration_0 … duration_{n-1}`. -/
namespace Ddo.Examples.Talentsched

def inserts (x : Nat) : List Nat → List (List Nat)
  | [] => [[x]]
  | y :: ys => (x :: y :: ys) :: (inserts x ys).map (y :: ·)

def perms : List Nat → List (List Nat)
  | [] => [[]]
  | x :: xs => (perms xs).flatMap (inserts x)

/-- the scenes, among the shooting order `order`, during which an actor is on location: what remains after
    removing the scenes before his first one and the scenes after his last one -/
def onLocation (plays : Nat → Bool) (order : List Nat) : List Nat :=
  ((order.dropWhile (fun s => !plays s)).reverse.dropWhile (fun s => !plays s))

def sum : List Int → Int
  | [] => 0
  | x :: xs => x + sum xs

/-- total pay for a shooting order; `plays a s` ⇔ actor `a` plays in scene `s` -/
def pay (nActors : Nat) (plays : Nat → Nat → Bool) (cost duration : Nat → Int) (order : List Nat) : Int :=
  sum ((List.range nActors).map (fun a => cost a * sum ((onLocation (plays a) order).map duration)))

def minimum : List Int → Option Int
  | [] => none
  | x :: xs => some (xs.foldl min x)

def spec (nScenes nActors : Nat) (plays : Nat → Nat → Bool) (cost duration : Nat → Int) : Int :=
  (minimum ((perms (List.range nScenes)).map (pay nActors plays cost duration))).getD (-1)

/-- tokens: `n_scenes n_actors`, per actor `n_scenes` flags and a cost, then `n_scenes` durations -/
def specFromTokens : List Int → Option Int
  | n :: k :: rest =>
    let n := n.toNat
    let k := k.toNat
    let m := rest.toArray
    if n ≥ 1 ∧ m.size = k * (n + 1) + n then
      some (spec n k (fun a s => m.getD (a * (n + 1) + s) 0 == 1) (fun a => m.getD (a * (n + 1) + n) 0)
                 (fun s => m.getD (k * (n + 1) + s) 0))
    else none
  | _ => none

end Ddo.Examples.Talentsched
