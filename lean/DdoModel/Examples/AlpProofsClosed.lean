import DdoModel.Proofs.MddCoverRel
import DdoModel.Examples.AlpProofsExact
/-! The closed corollary for the shipped alp example: the no-saturation clause restricted to the valid states
    (`Ddo.NoClampRel`, `Proofs/MddCoverRel.lean`; the unrestricted `NoClampDom` is unsatisfiable here: `noClampDom_false`) IS met
    as soon as the latest landing times are within a bound `B` with `(n + 2) · B ≤ 2^62` (`Small`; transition costs are
    negated delays, within `[-B, 0]`; `relax` leaves the costs unchanged), hence `alp_relaxed_ub` against the
    specification `Alp.spec`, with no hypothesis left about the model. -/
namespace Ddo.Examples.AlpModel
open Ddo Ddo.Examples Ddo.Examples.Util

variable (I : Inst)

/-- the latest landing times are small enough for path values never to saturate -/
structure Small (B : Int) : Prop where
  nonneg : 0 ≤ B
  lat_le : ∀ a, a < I.nbAircraft → I.lat a ≤ B
  small : ((I.nbAircraft : Int) + 2) * B ≤ 4611686018427387904

theorem cost_toDecision_none {s : St} {c r k : Nat} (hc : c < I.nbClasses) (hk : s.1[c]? = some k)
    (ha : (I.nextTab c)[k]? = none) : cost? I s (toDecision I c r) = none := by
  have h0 := toDecision_nonneg I c r
  have h1 : toDecision I c r ≠ -1 := by omega
  have h2 : ¬ (toDecision I c r < 0 ∨ I.nbClasses = 0) := by omega
  have h3 : aircraftOf? I s c = none := by
    unfold aircraftOf?
    rw [hk]
    exact ha
  unfold cost?
  simp only [h1, h2, if_false, fromDecision_toDecision I hc, h3]

/-- the cost of a decision of the domain of a well-shaped state: a negated delay within the window of the aircraft -/
theorem cost_bound (hD : InDom I) {B : Int} (hB : Small I B) {s : St} (hW : StW I s) {d : Int} (hd : d ∈ domain I s) :
    -B ≤ (cost? I s d).getD 0 ∧ (cost? I s d).getD 0 ≤ B := by
  have hB0 := hB.nonneg
  by_cases htot : totRem s = 0
  · rw [domain_zero I htot] at hd
    rw [List.mem_singleton.mp hd, cost_neg_one]
    simp only [Option.getD_some]
    omega
  · obtain ⟨c, k, r, hk, hpos, hr', e, hl⟩ := mem_domain I (by omega) hd
    have hc : c < I.nbClasses := by rw [← hW.1]; exact lt_of_getElem?_some hk
    subst e
    cases ha : (I.nextTab c)[k]? with
    | none =>
      rw [cost_toDecision_none I hc hk ha]
      simp only [Option.getD_none]
      omega
    | some a =>
      obtain ⟨k', rfl⟩ : ∃ k', k = k' + 1 := ⟨k - 1, by omega⟩
      rw [acOf_some I ha] at hl
      obtain ⟨_, h2⟩ := trans_toDecision I hc hk ha (r := r) (by rw [hW.2.1]; exact hr')
      rw [h2]
      simp only [Option.getD_some]
      have han := (nextTab_succ I ha).1
      have := hB.lat_le a han
      have := hD.tgt_nn a han
      have := tgt_le_arrP I (rwAt s r) a
      omega

theorem noClampRel (hD : InDom I) {B : Int} (hB : Small I B) :
    NoClampRel (problem I) (relaxation I) (V I) 0 B B where
  nonneg := hB.nonneg
  le := Int.le_refl _
  root := by have := hB.nonneg; omega
  cost := by
    intro k L x s d _ _ hV hd
    exact cost_bound I hD hB hV hd
  relax := by
    intro k X u src d c _ _ hc
    exact hc
  small := hB.small

/-- **The shipped alp example**: a relaxed compilation of its model from the root (layer by layer, no cache, no dominance
    checker, width ≥ 1, any incumbent `lb` that the optimum beats) reports a best value that is at least the true optimum —
    minus the least total delay `Alp.spec` of the instance —, for every instance of the input domain (`inDomain`: classes
    sorted by target and latest time, triangle inequality) that has a schedule (`t ≠ -1`) and whose latest times are small
    (`Small`) -/
theorem alp_relaxed_ub {K : Type} [DecidableEq K] (cfg : Cfg St K) (B : Int)
    (cache : Cache St) (store : DomStore St K) (polls : Nat) (hdomI : I.inDomain = true) (hB : Small I B)
    (hP : cfg.P = problem I) (hR : cfg.R = relaxation I)
    (hrs : cfg.root.state = initState I) (hrv : cfg.root.value = 0) (hrd : cfg.root.depth = 0)
    (hrel : cfg.ctype = .relaxed) (hcache : cfg.useCache = false) (hdom : cfg.dom = none) (hW : 1 ≤ cfg.width)
    (hlb : InI cfg.lb)
    (t : Int) (ht : Alp.spec I.nbAircraft I.nbRunways I.specInst = t) (hfeas : t ≠ -1) (hgt : -t > cfg.lb) :
    (compile cfg cache store polls none).1 = .ok →
    ∃ bv, (compile cfg cache store polls none).2.1.bestValue = some bv ∧ -t ≤ bv := by
  have hroot := root_exact_spec I hdomI t ht hfeas
  have hO : -t ≤ iMax := by
    have := rub_admissible I (totRem (initState I)) (initState I)
    unfold best at hroot
    rw [hroot] at this
    have := (EInt.some_le_some _ _).mp this
    unfold iMax; omega
  refine CoverRel.relaxed_ub_rel_valid cfg (H I) (V I) B B cache store polls hrel hcache hdom hW ?_ ?_ ?_ hlb (-t) ?_ hgt
    (Or.inl hO)
  · rw [hP, hR]; exact (wfRel I hdomI).toV
  · rw [hrd, hrs]; exact stW_init I
  · rw [hP, hR, hrv]; exact noClampRel I (inDom_of I hdomI) hB
  · unfold optOf
    rw [hrd, hrs, hrv]
    show (best I (initState I)).addI 0 = some (-t)
    rw [hroot]
    simp [EInt.addI]

/-! ## non-vacuity: 3 aircraft (targets 0, 0, 1; latest 10; classes 0, 1, 0), two runways, `sep = [[2, 3], [5, 2]]`; the
    least total delay is 1 (the third aircraft waits for the separation 2 behind the first); width 1: the children of the
    root are merged, the relaxed compilation reports 0 ≥ -1 -/
namespace Demo

def inst : Inst :=
  { nbClasses := 2, nbAircraft := 3, nbRunways := 2, classes := [0, 1, 0], target := [0, 0, 1], latest := [10, 10, 10],
    sep := [[2, 3], [5, 2]] }

def cfg : Cfg St Unit :=
  { P := problem inst, R := relaxation inst, rank := ⟨rankCmp⟩, dom := none,
    useCache := false, kind := .lel, ctype := .relaxed, width := 1, root := ⟨initState inst, 0, [], iMax, 0⟩, lb := -1000000 }

theorem inDomain_inst : inst.inDomain = true := by decide

theorem small_inst : Small inst 10 where
  nonneg := by decide
  lat_le := by
    intro a ha
    have : a = 0 ∨ a = 1 ∨ a = 2 := by
      have : a < 3 := ha
      omega
    rcases this with rfl | rfl | rfl <;> decide
  small := by decide

set_option maxRecDepth 100000 in
theorem spec_inst : Alp.spec inst.nbAircraft inst.nbRunways inst.specInst = 1 := by decide +kernel

set_option maxRecDepth 100000 in
theorem ok : (compile cfg (Cache.init 3) (DomStore.init 3) 0 none).1 = .ok := by decide +kernel

example : ∃ bv, (compile cfg (Cache.init 3) (DomStore.init 3) 0 none).2.1.bestValue = some bv ∧ -1 ≤ bv :=
  alp_relaxed_ub inst cfg 10 (Cache.init 3) (DomStore.init 3) 0 inDomain_inst small_inst rfl rfl rfl rfl rfl rfl rfl rfl
    (by decide) (by decide) 1 spec_inst (by decide) (by decide) ok

/-- the root of the demo is not exact: the relaxed compilation reports `0`, the optimum is `-1` -/
theorem demo_values : (compile cfg (Cache.init 3) (DomStore.init 3) 0 none).2.1.bestValue = some 0
    ∧ best inst (initState inst) = some (-1) := by
  constructor
  · decide +kernel
  · decide +kernel

end Demo

#print axioms noClampRel
#print axioms alp_relaxed_ub

end Ddo.Examples.AlpModel
