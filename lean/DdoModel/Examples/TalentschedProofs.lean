import DdoModel.Examples.TalentschedModel
import DdoModel.Proofs.SpecUtil
/-! Proofs about the Lean model of the talentsched example: bit-set library (`bits`, `card`, `present`), monotonicity of the
    value-to-go `bestRem` in the state (`bestRem_mono`: fewer mandatory scenes / more possible scenes never hurt) and, from
    it, `MergeOk` for the repaired merge (`mergeOk`, `MergeOkStmt`), for EVERY merged state, the first included. -/
namespace Ddo.Examples.TalentschedModel
open Ddo Ddo.Examples Ddo.Examples.Util Ddo.SpecUtil

/-! ### `bits` / `card` -/

theorem bitsFrom_eq : ∀ (f i m : Nat),
    bitsFrom f i m = ((List.range f).filter (fun j => m.testBit j)).map (fun j => i + j)
  | 0, _, _ => by simp [bitsFrom]
  | f + 1, i, m => by
    rw [bitsFrom, List.range_succ_eq_map, List.filter_cons]
    by_cases h0 : m = 0
    · subst h0; simp
    · rw [if_neg h0, bitsFrom_eq f (i + 1) (m / 2)]
      have e : ((List.map Nat.succ (List.range f)).filter fun j => m.testBit j) =
          ((List.range f).filter fun j => (m / 2).testBit j).map Nat.succ := by
        rw [List.filter_map]
        congr 1
        apply List.filter_congr
        intro j _
        simp [Nat.testBit_succ]
      rw [e, Nat.testBit_zero]
      by_cases h1 : m % 2 = 1
      · simp [h1, Nat.add_assoc, Nat.add_comm 1]
      · simp [h1, Nat.add_assoc, Nat.add_comm 1]

theorem bits_eq (m : Nat) : bits m = (List.range 64).filter (fun j => m.testBit j) := by
  simp [bits, bitsFrom_eq]

theorem mem_bits {m i : Nat} : i ∈ bits m ↔ i < 64 ∧ m.testBit i = true := by
  simp [bits_eq]

theorem card_eq (m : Nat) : card m = (List.range 64).countP (fun j => m.testBit j) := by
  simp [card, bits_eq, List.countP_eq_length_filter]

theorem countP_lt {α : Type} {p q : α → Bool} : ∀ {l : List α} {x : α}, x ∈ l → (∀ y ∈ l, p y = true → q y = true) →
    p x = false → q x = true → l.countP p < l.countP q := by
  intro l
  induction l with
  | nil => intro x hx; cases hx
  | cons a l ih =>
    intro x hx hpq hp hq
    have hmono : l.countP p ≤ l.countP q := List.countP_mono_left fun y hy => hpq y (List.mem_cons_of_mem _ hy)
    rcases List.mem_cons.mp hx with rfl | hx
    · rw [List.countP_cons_of_neg (by simp [hp]), List.countP_cons_of_pos hq]; omega
    · have := ih hx (fun y hy => hpq y (List.mem_cons_of_mem _ hy)) hp hq
      by_cases hpa : p a = true
      · rw [List.countP_cons_of_pos hpa, List.countP_cons_of_pos (hpq a List.mem_cons_self hpa)]; omega
      · rw [List.countP_cons_of_neg hpa]
        by_cases hqa : q a = true
        · rw [List.countP_cons_of_pos hqa]; omega
        · rw [List.countP_cons_of_neg hqa]; omega

/-- `a ⊆ b` -/
def Sub (a b : Nat) : Prop := ∀ i, a.testBit i = true → b.testBit i = true

theorem card_le_of_sub {a b : Nat} (h : Sub a b) : card a ≤ card b := by
  rw [card_eq, card_eq]
  exact List.countP_mono_left fun y _ => h y

theorem card_lt_of_sub {a b : Nat} (h : Sub a b) {x : Nat} (hx : x < 64) (ha : a.testBit x = false) (hb : b.testBit x = true) :
    card a < card b := by
  rw [card_eq, card_eq]
  exact countP_lt (List.mem_range.mpr hx) (fun y _ => h y) ha hb

theorem testBit_one_shiftLeft (x j : Nat) : (1 <<< x).testBit j = decide (x = j) := by
  rw [Nat.one_shiftLeft, Nat.testBit_two_pow]

theorem testBit_sdiff_bit (a x j : Nat) : (sdiff a (1 <<< x)).testBit j = (a.testBit j && decide (j ≠ x)) := by
  rw [testBit_sdiff, testBit_one_shiftLeft]
  by_cases h : x = j
  · subst h; simp
  · have h' : j ≠ x := fun e => h e.symm
    simp [h, h']

/-! ### sums over bit sets -/

theorem filter_sum_le {f : Nat → Int} (hf : ∀ a, 0 ≤ f a) {p q : Nat → Bool} : ∀ (l : List Nat),
    (∀ y ∈ l, p y = true → q y = true) → ((l.filter p).map f).sum ≤ ((l.filter q).map f).sum := by
  intro l
  induction l with
  | nil => intro _; simp
  | cons x l ih =>
    intro h
    have ih' := ih fun y hy => h y (List.mem_cons_of_mem _ hy)
    have hx := h x List.mem_cons_self
    have := hf x
    by_cases hp : p x = true
    · simp [hp, hx hp]; omega
    · by_cases hq : q x = true
      · simp [hp, hq]; omega
      · simp [hp, hq]; omega

theorem sum_bits_le {f : Nat → Int} (hf : ∀ a, 0 ≤ f a) {a b : Nat} (h : Sub a b) :
    sum ((bits a).map f) ≤ sum ((bits b).map f) := by
  rw [sum_eq, sum_eq, bits_eq, bits_eq]
  exact filter_sum_le hf _ fun y _ => h y

/-! ### `present` -/

theorem foldl_or_testBit {α : Type} (p : α → Bool) (g : α → Nat) (a : Nat) : ∀ (l : List α) (z : Nat),
    (l.foldl (fun acc i => if p i then acc ||| g i else acc) z).testBit a = true ↔
      z.testBit a = true ∨ ∃ i ∈ l, p i = true ∧ (g i).testBit a = true := by
  intro l
  induction l with
  | nil => intro z; simp
  | cons x l ih =>
    intro z
    rw [List.foldl_cons, ih]
    by_cases hp : p x = true
    · simp [hp, Nat.testBit_or, or_assoc]
    · simp [hp]

theorem present_fold_eq (T : Tab) (s : St) : ∀ (l : List Nat) (b a : Nat),
    l.foldl (fun (ba : Nat × Nat) i =>
      if s.maybe.testBit i then ba
      else if s.scenes.testBit i then (ba.1, ba.2 ||| actS T i) else (ba.1 ||| actS T i, ba.2)) (b, a) =
    (l.foldl (fun acc i => if (!s.maybe.testBit i && !s.scenes.testBit i) then acc ||| actS T i else acc) b,
     l.foldl (fun acc i => if (!s.maybe.testBit i && s.scenes.testBit i) then acc ||| actS T i else acc) a) := by
  intro l
  induction l with
  | nil => intro b a; rfl
  | cons x l ih =>
    intro b a
    simp only [List.foldl_cons]
    cases hm : s.maybe.testBit x <;> cases hs : s.scenes.testBit x <;> simp [ih]

/-- `get_present`, bit by bit: the actor plays in a scene taken as shot and in a scene that must still be shot (the scenes
    of `maybe` are ignored) -/
theorem testBit_present (T : Tab) (s : St) (a : Nat) :
    (present T s).testBit a = true ↔
      (∃ i, i < T.n ∧ s.maybe.testBit i = false ∧ s.scenes.testBit i = false ∧ (actS T i).testBit a = true) ∧
      (∃ i, i < T.n ∧ s.maybe.testBit i = false ∧ s.scenes.testBit i = true ∧ (actS T i).testBit a = true) := by
  unfold present
  dsimp only
  rw [present_fold_eq, Nat.testBit_and, Bool.and_eq_true, foldl_or_testBit, foldl_or_testBit]
  simp [and_assoc]

/-! ### extended integers -/

theorem emax_ge_left (a b : EInt) : a ≤ EInt.max a b := by
  cases a <;> cases b <;> simp [EInt.max] <;> omega
theorem emax_ge_right (a b : EInt) : b ≤ EInt.max a b := by
  cases a <;> cases b <;> simp [EInt.max] <;> omega
theorem emax_le {a b c : EInt} (ha : a ≤ c) (hb : b ≤ c) : EInt.max a b ≤ c := by
  cases a <;> cases b <;> cases c <;> simp_all [EInt.max] <;> omega
theorem addI_mono {a b : EInt} {c c' : Int} (h : a ≤ b) (hc : c ≤ c') : a.addI c ≤ b.addI c' := by
  cases a <;> cases b <;> simp_all [EInt.addI] <;> omega

theorem foldl_emax_ge {α : Type} (f : α → EInt) : ∀ (l : List α) (init : EInt),
    init ≤ l.foldl (fun acc v => EInt.max acc (f v)) init ∧
    ∀ v ∈ l, f v ≤ l.foldl (fun acc v => EInt.max acc (f v)) init := by
  intro l
  induction l with
  | nil => intro init; exact ⟨EInt.le_refl _, fun v hv => by cases hv⟩
  | cons x l ih =>
    intro init
    rw [List.foldl_cons]
    obtain ⟨h1, h2⟩ := ih (EInt.max init (f x))
    refine ⟨EInt.le_trans (emax_ge_left _ _) h1, fun v hv => ?_⟩
    rcases List.mem_cons.mp hv with rfl | hv
    · exact EInt.le_trans (emax_ge_right _ _) h1
    · exact h2 v hv

theorem foldl_emax_le {α : Type} (f : α → EInt) (B : EInt) : ∀ (l : List α) (init : EInt),
    init ≤ B → (∀ v ∈ l, f v ≤ B) → l.foldl (fun acc v => EInt.max acc (f v)) init ≤ B := by
  intro l
  induction l with
  | nil => intro init h _; exact h
  | cons x l ih =>
    intro init h hl
    rw [List.foldl_cons]
    exact ih _ (emax_le h (hl x List.mem_cons_self)) fun v hv => hl v (List.mem_cons_of_mem _ hv)

/-- the maximum is attained -/
theorem foldl_emax_attained {α : Type} (f : α → EInt) : ∀ (l : List α) (init : EInt),
    l.foldl (fun acc v => EInt.max acc (f v)) init = init ∨
    ∃ v ∈ l, l.foldl (fun acc v => EInt.max acc (f v)) init = f v := by
  intro l
  induction l with
  | nil => intro init; exact Or.inl rfl
  | cons x l ih =>
    intro init
    rw [List.foldl_cons]
    rcases ih (EInt.max init (f x)) with h | ⟨v, hv, h⟩
    · rw [h]
      have : EInt.max init (f x) = init ∨ EInt.max init (f x) = f x := by
        cases init <;> cases hfx : f x <;> simp [EInt.max] <;> omega
      rcases this with e | e
      · exact Or.inl e
      · exact Or.inr ⟨x, List.mem_cons_self, e⟩
    · exact Or.inr ⟨v, List.mem_cons_of_mem _ hv, h⟩

/-! ### domain, transition, cost -/

theorem mem_domain (T : Tab) (x : Nat) (s : St) (v : Int) :
    v ∈ domain T x s ↔ ∃ i : Nat, v = (i : Int) ∧ i < 64 ∧
      (s.scenes.testBit i = true ∨ (x + card s.scenes < T.n ∧ s.maybe.testBit i = true)) := by
  unfold domain
  simp only [List.mem_map, List.mem_append, card]
  constructor
  · rintro ⟨i, hi, rfl⟩
    refine ⟨i, rfl, ?_⟩
    rcases hi with hi | hi
    · exact ⟨(mem_bits.mp hi).1, Or.inl (mem_bits.mp hi).2⟩
    · split at hi
      · rename_i hlt
        exact ⟨(mem_bits.mp hi).1, Or.inr ⟨hlt, (mem_bits.mp hi).2⟩⟩
      · cases hi
  · rintro ⟨i, rfl, h64, h⟩
    refine ⟨i, ?_, rfl⟩
    rcases h with h | ⟨hlt, h⟩
    · exact Or.inl (mem_bits.mpr ⟨h64, h⟩)
    · right; rw [if_pos hlt]; exact mem_bits.mpr ⟨h64, h⟩

theorem trans_nat (s : St) (x i : Nat) (h : i < 64) :
    trans s ⟨x, (i : Int)⟩ = { scenes := sdiff s.scenes (1 <<< i), maybe := sdiff s.maybe (1 <<< i) } := by
  unfold trans trans?
  have : ¬ ((i : Int) < 0 ∨ (i : Int) ≥ 64) := by omega
  simp [this]

/-- the instance data the proofs need: costs and durations are not negative (`TabOk` gives it) -/
structure NonNeg (T : Tab) : Prop where
  cost : ∀ a, 0 ≤ costA T a
  dur : ∀ j, 0 ≤ durS T j

theorem getD_nonneg {l : List Int} (h : ∀ c ∈ l, 0 ≤ c) (i : Nat) : 0 ≤ l.getD i 0 := by
  rw [List.getD_eq_getElem?_getD]
  cases hi : l[i]? with
  | none => simp
  | some c => exact h c (List.mem_of_getElem? hi)

theorem TabOk.nonNeg {T : Tab} (h : TabOk T) : NonNeg T :=
  ⟨getD_nonneg fun c hc => by have := h.cost.2 c hc; omega, getD_nonneg h.dur.2⟩

/-- `u ⊑ m`: `m` must shoot no more than `u` and may shoot whatever `u` must or may shoot -/
structure Below (u m : St) : Prop where
  must : Sub m.scenes u.scenes
  may : ∀ i, (u.scenes.testBit i = true ∨ u.maybe.testBit i = true) → (m.scenes.testBit i = true ∨ m.maybe.testBit i = true)

/-- the two sets of the state share no scene -/
def Disj (u : St) : Prop := ∀ i, ¬ (u.scenes.testBit i = true ∧ u.maybe.testBit i = true)

theorem present_sub (T : Tab) {u m : St} (hb : Below u m) (hd : Disj u) : Sub (present T m) (present T u) := by
  intro a
  rw [testBit_present, testBit_present]
  rintro ⟨⟨i, hi, hM, hS, ha⟩, ⟨j, hj, hM', hS', ha'⟩⟩
  refine ⟨⟨i, hi, ?_, ?_, ha⟩, ⟨j, hj, ?_, hb.must j hS', ha'⟩⟩
  · cases h : u.maybe.testBit i
    · rfl
    · have := hb.may i (Or.inr h); simp [hM, hS] at this
  · cases h : u.scenes.testBit i
    · rfl
    · have := hb.may i (Or.inl h); simp [hM, hS] at this
  · cases h : u.maybe.testBit j
    · rfl
    · exact absurd ⟨hb.must j hS', h⟩ (hd j)

theorem sub_sdiff {a b : Nat} (h : Sub a b) (c : Nat) : Sub (sdiff a c) (sdiff b c) := by
  intro i
  rw [testBit_sdiff, testBit_sdiff]
  simp only [Bool.and_eq_true]
  exact fun ⟨h1, h2⟩ => ⟨h i h1, h2⟩

theorem cost_mono (T : Tab) (hn : NonNeg T) {u m : St} (hb : Below u m) (hd : Disj u) (d : Dec) :
    cost T u d ≤ cost T m d := by
  unfold cost cost?
  split
  · exact Int.le_refl _
  · simp only [Option.getD_some]
    have := sum_bits_le (f := fun a => costA T a * durS T d.val.toNat)
      (fun a => Int.mul_nonneg (hn.cost a) (hn.dur _)) (sub_sdiff (present_sub T hb hd) (actS T d.val.toNat))
    omega

/-! ### monotonicity of the value-to-go -/

/-- what is needed of the dominated state `u` at depth `d`: no more mandatory scenes than positions left, disjoint sets -/
structure Inv (T : Tab) (d : Nat) (u : St) : Prop where
  room : card u.scenes + d ≤ T.n
  disj : Disj u

theorem Inv.step {T : Tab} {d : Nat} {u : St} (h : Inv T d u) {i : Nat} (h64 : i < 64)
    (hi : u.scenes.testBit i = true ∨ (d + card u.scenes < T.n ∧ u.maybe.testBit i = true)) :
    Inv T (d + 1) { scenes := sdiff u.scenes (1 <<< i), maybe := sdiff u.maybe (1 <<< i) } := by
  constructor
  · dsimp only
    have hsub : Sub (sdiff u.scenes (1 <<< i)) u.scenes := by
      intro j; rw [testBit_sdiff]; simp only [Bool.and_eq_true]; exact fun h => h.1
    rcases hi with hi | ⟨hlt, _⟩
    · have := card_lt_of_sub hsub h64 (by rw [testBit_sdiff_bit]; simp) hi
      have := h.room
      omega
    · have := card_le_of_sub hsub
      omega
  · intro j
    dsimp only
    rw [testBit_sdiff, testBit_sdiff]
    simp only [Bool.and_eq_true]
    exact fun ⟨h1, h2⟩ => h.disj j ⟨h1.1, h2.1⟩

theorem Below.step {u m : St} (h : Below u m) (i : Nat) :
    Below { scenes := sdiff u.scenes (1 <<< i), maybe := sdiff u.maybe (1 <<< i) }
          { scenes := sdiff m.scenes (1 <<< i), maybe := sdiff m.maybe (1 <<< i) } := by
  constructor
  · exact sub_sdiff h.must _
  · intro j
    dsimp only
    simp only [testBit_sdiff, Bool.and_eq_true]
    rintro (⟨h1, h2⟩ | ⟨h1, h2⟩)
    · rcases h.may j (Or.inl h1) with h3 | h3
      · exact Or.inl ⟨h3, h2⟩
      · exact Or.inr ⟨h3, h2⟩
    · rcases h.may j (Or.inr h1) with h3 | h3
      · exact Or.inl ⟨h3, h2⟩
      · exact Or.inr ⟨h3, h2⟩

/-- every decision of the domain of `u` is in the domain of `m` -/
theorem domain_mono (T : Tab) {d : Nat} {u m : St} (hb : Below u m) (hi : Inv T d u) {v : Int}
    (hv : v ∈ domain T d u) : v ∈ domain T d m := by
  rw [mem_domain] at hv ⊢
  obtain ⟨i, rfl, h64, h⟩ := hv
  refine ⟨i, rfl, h64, ?_⟩
  have hle := card_le_of_sub hb.must
  have hroom := hi.room
  rcases h with h | ⟨hlt, h⟩
  · cases hm : m.scenes.testBit i
    · right
      have := card_lt_of_sub hb.must h64 hm h
      rcases hb.may i (Or.inl h) with h' | h'
      · rw [hm] at h'; cases h'
      · exact ⟨by omega, h'⟩
    · exact Or.inl rfl
  · rcases hb.may i (Or.inr h) with h' | h'
    · exact Or.inl h'
    · exact Or.inr ⟨by omega, h'⟩

theorem bestRemF_mono (T : Tab) (hn : NonNeg T) : ∀ (fuel d : Nat) (u m : St), Below u m → Inv T d u →
    bestRemF T fuel d u ≤ bestRemF T fuel d m := by
  intro fuel
  induction fuel with
  | zero => intro d u m _ _; exact EInt.le_refl _
  | succ fuel ih =>
    intro d u m hb hi
    rw [bestRemF, bestRemF]
    apply foldl_emax_le _ _ _ _ (EInt.none_le _)
    intro v hv
    have hvm := domain_mono T hb hi hv
    refine EInt.le_trans ?_ ((foldl_emax_ge _ _ _).2 v hvm)
    obtain ⟨i, rfl, h64, hdom⟩ := (mem_domain T d u v).mp hv
    rw [trans_nat u d i h64, trans_nat m d i h64]
    exact addI_mono (ih (d + 1) _ _ (hb.step i) (hi.step h64 hdom)) (cost_mono T hn hb hi.disj _)

/-- **monotonicity of the value-to-go**: a state that must shoot fewer scenes and may shoot more is worth at least as much -/
theorem bestRem_mono (T : Tab) (hn : NonNeg T) (d : Nat) (u m : St) (hb : Below u m) (hi : Inv T d u) :
    bestRem T d u ≤ bestRem T d m := bestRemF_mono T hn _ d u m hb hi

/-! ### `MergeOk` for the repaired merge -/

theorem validB_iff (T : Tab) (d : Nat) (s : St) : validB T d s = true ↔
    (d ≤ T.n ∧ card s.scenes + d ≤ T.n ∧ T.n ≤ card s.scenes + card s.maybe + d ∧
      s.scenes &&& s.maybe = 0 ∧ (s.scenes ||| s.maybe) >>> T.n = 0) := by
  simp [validB]

theorem disj_of_and_eq_zero {s : St} (h : s.scenes &&& s.maybe = 0) : Disj s := by
  intro i ⟨h1, h2⟩
  have : (s.scenes &&& s.maybe).testBit i = true := by rw [Nat.testBit_and, h1, h2]; rfl
  rw [h] at this
  simp at this

theorem inv_of_valid {T : Tab} {d : Nat} {s : St} (h : validB T d s = true) : Inv T d s := by
  rw [validB_iff] at h
  exact ⟨h.2.1, disj_of_and_eq_zero h.2.2.2.1⟩

/-- every merged state is below the (repaired) merged state -/
theorem below_merge (X : List St) (u : St) (hu : u ∈ X) : Below u (mergeStates X) :=
  ⟨fun i h => mergeStates_scenes_sub X i h u hu, fun i h => merge_covers X u hu i h⟩

/-- the merged state is worth at least as much as each merged state (`u` itself valid at the depth is all that is used) -/
theorem merge_bestRem_le (T : Tab) (hn : NonNeg T) (d : Nat) (X : List St) (u : St) (hu : u ∈ X)
    (hv : validB T d u = true) : bestRem T d u ≤ bestRem T d (mergeStates X) :=
  bestRem_mono T hn d u _ (below_merge X u hu) (inv_of_valid hv)

/-- **`MergeOk` holds for the repaired merge**, for every merged state -/
theorem mergeOkStmt (T : Tab) : MergeOkStmt T := by
  intro hT d X u src dec c h hu hX hh
  have hle := merge_bestRem_le T hT.nonNeg d X u hu (hX u hu)
  rw [hh] at hle
  cases hm : bestRem T d (mergeStates X) with
  | none => rw [hm] at hle; exact absurd hle (by simp)
  | some h' =>
    rw [hm] at hle
    refine ⟨h', rfl, ?_⟩
    have : h ≤ h' := hle
    show c + h ≤ c + h'
    omega

/-- the clause `merge` of `WfRel` for the talentsched model, `H = bestRem`, `V = validB` -/
theorem wfRel_merge (T : Tab) (hT : TabOk T) :
    ∀ k (X : List St) (u src : St) (d : Dec) (c h : Int), u ∈ X → (∀ w ∈ X, validB T k w = true) →
      bestRem T k u = some h →
      ∃ h', bestRem T k ((relaxation T).merge X) = some h' ∧
        c + h ≤ (relaxation T).relax src u ((relaxation T).merge X) d c + h' :=
  fun k X u src d c h hu hX hh => mergeOkStmt T hT k X u src d c h hu hX hh

/-- the merge as shipped before the repair is sound for the states OTHER THAN THE FIRST -/
theorem mergeOkTailStmt (T : Tab) : MergeOkTailStmt T := by
  intro hT d f rest u h hu hX hh
  have hb : Below u (mergeStatesOld (f :: rest)) :=
    ⟨fun i hi => merge_scenes_sub _ i hi u (List.mem_cons_of_mem _ hu), fun i hi => merge_covers_tail f rest u hu i hi⟩
  have hle := bestRem_mono T hT.nonNeg d u _ hb (inv_of_valid (hX u (List.mem_cons_of_mem _ hu)))
  rw [hh] at hle
  cases hm : bestRem T d (mergeStatesOld (f :: rest)) with
  | none => rw [hm] at hle; exact absurd hle (by simp)
  | some h' => rw [hm] at hle; exact ⟨h', rfl, hle⟩

/-- the symmetric variant of the merge (`mergeSym`) is sound for every merged state as well -/
theorem mergeOkSymStmt (T : Tab) : MergeOkSymStmt T := by
  intro hT d X u h hu hX hh
  have hb : Below u (mergeSym X) := by
    cases X with
    | nil => cases hu
    | cons f rest =>
      constructor
      · intro i hi
        have h' := mergeAcc_scenes i rest f hi
        rcases List.mem_cons.mp hu with rfl | hu
        · exact h'.1
        · exact h'.2 u hu
      · intro i hi
        show (mergeAcc f rest).scenes.testBit i = true ∨
          (sdiff ((mergeAcc f rest).maybe ||| f.scenes) (mergeAcc f rest).scenes).testBit i = true
        rw [testBit_sdiff, Nat.testBit_or]
        have hm : ((mergeAcc f rest).maybe.testBit i || f.scenes.testBit i) = true := by
          rcases List.mem_cons.mp hu with rfl | hu
          · rcases hi with hi | hi
            · simp [hi]
            · simp [mergeAcc_maybe_mono i rest u hi]
          · simp [mergeAcc_covers i rest f u hu hi]
        cases hs : (mergeAcc f rest).scenes.testBit i
        · right; simp [hm]
        · left; rfl
  have hle := bestRem_mono T hT.nonNeg d u _ hb (inv_of_valid (hX u hu))
  rw [hh] at hle
  cases hm : bestRem T d (mergeSym X) with
  | none => rw [hm] at hle; exact absurd hle (by simp)
  | some h' => rw [hm] at hle; exact ⟨h', rfl, hle⟩

/-! ### `bestRem` is a potential (the Bellman equation, on every state) -/

theorem bestRem_succ (T : Tab) {d : Nat} (hd : d < T.n) (s : St) :
    bestRem T d s = (domain T d s).foldl (fun acc v =>
      EInt.max acc ((bestRem T (d + 1) (trans s ⟨d, v⟩)).addI (cost T s ⟨d, v⟩))) none := by
  unfold bestRem
  have : T.n - d = (T.n - (d + 1)) + 1 := by omega
  rw [this, bestRemF]

/-- `Potential.term`: nothing is left at depth `n` -/
theorem bestRem_term (T : Tab) {d : Nat} (hd : T.n ≤ d) (s : St) : bestRem T d s = some 0 := by
  unfold bestRem
  have : T.n - d = 0 := by omega
  rw [this, bestRemF]

/-- `Potential.le` (on EVERY state): no decision of the domain beats the value-to-go -/
theorem bestRem_le (T : Tab) {d : Nat} (hd : d < T.n) (s : St) {v : Int} (hv : v ∈ domain T d s) :
    (bestRem T (d + 1) (trans s ⟨d, v⟩)).addI (cost T s ⟨d, v⟩) ≤ bestRem T d s := by
  rw [bestRem_succ T hd s]
  exact (foldl_emax_ge (fun v => (bestRem T (d + 1) (trans s ⟨d, v⟩)).addI (cost T s ⟨d, v⟩)) _ _).2 v hv

/-- `Potential.att` (on EVERY state): some decision of the domain attains the value-to-go -/
theorem bestRem_att (T : Tab) {d : Nat} (hd : d < T.n) (s : St) {h : Int} (hh : bestRem T d s = some h) :
    ∃ v ∈ domain T d s, ∃ h', bestRem T (d + 1) (trans s ⟨d, v⟩) = some h' ∧ h ≤ cost T s ⟨d, v⟩ + h' := by
  rw [bestRem_succ T hd s] at hh
  rcases foldl_emax_attained (fun v => (bestRem T (d + 1) (trans s ⟨d, v⟩)).addI (cost T s ⟨d, v⟩)) (domain T d s) none
    with e | ⟨v, hv, e⟩
  · rw [e] at hh; cases hh
  · rw [e] at hh
    refine ⟨v, hv, ?_⟩
    cases hb : bestRem T (d + 1) (trans s ⟨d, v⟩) with
    | none => rw [hb] at hh; cases hh
    | some h' =>
      rw [hb] at hh
      refine ⟨h', rfl, ?_⟩
      simp only [EInt.addI, Option.map_some, Option.some.injEq] at hh
      omega

end Ddo.Examples.TalentschedModel

section
open Ddo.Examples.TalentschedModel
#print axioms bestRem_mono
#print axioms mergeOkStmt
#print axioms mergeOkTailStmt
#print axioms mergeOkSymStmt
#print axioms bestRem_att
end
