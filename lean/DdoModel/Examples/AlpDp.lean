import DdoModel.Dp
import DdoModel.Dominance
import DdoModel.Examples.Alp
import DdoModel.Examples.Util
/-! The DP model, relaxation, ranking and dominance rule of the shipped alp example (`ddo/examples/alp/{model,dominance,
    io_utils}.rs`) in Lean: definitions only (the driver engine `exmodel`, family `alp`, compares them pointwise with the
    example's own code, compiled into the harness; statements about them are in `AlpModel.lean`).

Mirror of the Rust code (a MINIMISATION: every transition cost is the NEGATED delay of the aircraft landed):
* `AlpInstance` = what `read_instance` builds from `n k r`, `target latest class` per aircraft, the `k × k` matrix `sep`;
* `Alp::new`: `next[c] = [0] ++ (the aircraft of class c in REVERSE file order)`: with `rem` aircraft of class `c`
  left, the one to land is `next[c][rem]` = the first not yet landed in file order;
  `min_separation_to[j] = min_i sep[i][j]` (COLUMN minimum, starting from `isize::MAX`): a lower bound of the separation
  before an aircraft of class `j` whatever the class landed before it;
* state = `(rem, info)`: `rem[c]` aircraft of class `c` left; `info[r] = (prev_time, prev_class)` of runway `r`,
  `prev_class = -1` (`DUMMY`) = unknown; `info` is kept SORTED (derived `Ord`: time first, then class): the runways are
  interchangeable;
* `get_arrival_time(info, a, r)`: `target a` when `info[r] = (0, -1)` (nothing landed; a merged runway whose least time
  is 0 is treated alike); else `max (target a) (prev_time + min_separation_to[cls a])` when the class is unknown; else
  `max (target a) (prev_time + sep[prev_class][cls a])`;
* decision `(class, runway) ↦ class + k · runway`; `-1` = nothing left to land (padding up to `n` variables);
* `transition`: `-1` ↦ the same state; else `a = next[class][rem[class]]`, `rem[cls a] -= 1` (`cls a = class` inside the
  domain; outside — `rem[class] = 0` — `a = next[class][0] = 0`, and the subtraction overflows when `rem[cls 0] = 0`),
  `info[runway] = (arrival, class)`, sort.  `none` here = the Rust code panics (index out of bounds / overflow);
* `transition_cost = -(arrival - target a)`;
* `next_variable(depth) = depth` while `depth < n`;
* `for_each_in_domain`: per class with aircraft left, in class order, per runway in (sorted) order: skipped when a runway
  in the same state was already ACCEPTED for this class (`used`), accepted when `arrival ≤ latest a`; a class without any
  accepted runway empties the whole domain (its next aircraft will never land); `[-1]` when nothing is left;
* `merge`: per class the least `rem`, per (sorted) runway index the least `prev_time`, all classes unknown (from
  `usize::MAX` / `isize::MAX`: what an empty merge returns); `relax` = the cost unchanged; `fast_upper_bound = 0`;
* `AlpRanking::compare` = comparison of `Σ_r prev_time`;
* `AlpDominance`: key = (`rem`, the `prev_class` of every runway) — hashed as `len rem, rem…, prev_class…` —,
  one coordinate per runway `-prev_time`, `use_value = true`. -/
namespace Ddo.Examples.AlpModel
open Ddo Ddo.Examples Ddo.Examples.Util

/-- a runway: `(prev_time, prev_class)`, class `-1` = `DUMMY` -/
abbrev Rw := Int × Int
/-- `(rem, info)` -/
abbrev St := List Nat × List Rw

def uMax : Nat := 18446744073709551615

structure Inst where
  nbClasses : Nat
  nbAircraft : Nat
  nbRunways : Nat
  classes : List Nat
  target : List Int
  latest : List Int
  sep : List (List Int)

variable (I : Inst)

def Inst.cls (a : Nat) : Nat := (I.classes[a]?).getD 0
def Inst.tgt (a : Nat) : Int := (I.target[a]?).getD 0
def Inst.lat (a : Nat) : Int := (I.latest[a]?).getD 0
def Inst.sepAt (x y : Nat) : Int := (((I.sep[x]?).getD [])[y]?).getD 0

/-- `Alp.next[c]` -/
def Inst.nextTab (c : Nat) : List Nat :=
  0 :: ((List.range I.nbAircraft).filter (fun a => I.cls a == c)).reverse

/-- `Alp.min_separation_to[j]` -/
def Inst.minSepTo (j : Nat) : Int :=
  (List.range I.nbClasses).foldl (fun m i => min m (I.sepAt i j)) iMax

/-- `get_arrival_time` (an index out of range reads as an empty runway: the callers test the range first) -/
def arrival (info : List Rw) (a r : Nat) : Int :=
  let p := (info[r]?).getD (0, -1)
  if p.1 = 0 ∧ p.2 = -1 then I.tgt a
  else if p.2 = -1 then max (I.tgt a) (p.1 + I.minSepTo (I.cls a))
  else max (I.tgt a) (p.1 + I.sepAt p.2.toNat (I.cls a))

def toDecision (c r : Nat) : Int := ((c + I.nbClasses * r : Nat) : Int)
/-- `from_decision` of a non-negative value: `(class, runway)` -/
def fromDecision (v : Int) : Nat × Nat := (v.toNat % I.nbClasses, v.toNat / I.nbClasses)

/-- derived `Ord` of `RunwayState`: the time first, then the class -/
def rwLe (a b : Rw) : Bool := decide (a.1 < b.1) || (decide (a.1 = b.1) && decide (a.2 ≤ b.2))
def insertRw (x : Rw) : List Rw → List Rw
  | [] => [x]
  | y :: r => if rwLe x y then x :: y :: r else y :: insertRw x r
/-- `sort_unstable` (a total order on the whole content: every sort gives the same list) -/
def sortRw (l : List Rw) : List Rw := l.foldr insertRw []

/-- `self.next[class][state.rem[class]]` -/
def aircraftOf? (s : St) (c : Nat) : Option Nat :=
  match s.1[c]? with
  | none => none
  | some k => (I.nextTab c)[k]?

/-- `transition`; `none` = panic -/
def trans? (s : St) (v : Int) : Option St :=
  if v = -1 then some s
  else if v < 0 ∨ I.nbClasses = 0 then none      -- `value as usize` ≥ 2^63: the runway index is out of range
  else
    let c := (fromDecision I v).1
    let r := (fromDecision I v).2
    match aircraftOf? I s c with
    | none => none
    | some a =>
      let ca := I.cls a
      match s.1[ca]? with
      | none => none
      | some 0 => none                             -- `rem -= 1` on 0: attempt to subtract with overflow
      | some (k + 1) =>
        if r < s.2.length then some (s.1.set ca k, sortRw (s.2.set r (arrival I s.2 a r, (c : Int))))
        else none

/-- `transition_cost`; `none` = panic -/
def cost? (s : St) (v : Int) : Option Int :=
  if v = -1 then some 0
  else if v < 0 ∨ I.nbClasses = 0 then none
  else
    let c := (fromDecision I v).1
    let r := (fromDecision I v).2
    match aircraftOf? I s c with
    | none => none
    | some a => if r < s.2.length then some (-(arrival I s.2 a r - I.tgt a)) else none

/-- the runway loop of `for_each_in_domain` for the class `c` with `k > 0` aircraft left: `(decisions, used)` -/
def domRunways (s : St) (c a : Nat) : List Int × List Rw :=
  (List.range I.nbRunways).foldl (fun (acc : List Int × List Rw) r =>
    let p := (s.2[r]?).getD (0, -1)
    if acc.2.contains p then acc
    else if arrival I s.2 a r ≤ I.lat a then (acc.1 ++ [toDecision I c r], acc.2 ++ [p]) else acc) ([], [])

/-- the class loop: `none` = the early `return` (some aircraft can never land) -/
def domClasses (s : St) : List (Nat × Nat) → List Int → Nat → Option (List Int × Nat)
  | [], decs, tot => some (decs, tot)
  | (c, k) :: rest, decs, tot =>
    if k > 0 then
      let a := ((I.nextTab c)[k]?).getD 0
      let du := domRunways I s c a
      if du.2.isEmpty then none else domClasses s rest (decs ++ du.1) (tot + k)
    else domClasses s rest decs (tot + k)

/-- `for_each_in_domain`, in call order (the variable plays no role) -/
def domain (s : St) : List Int :=
  match domClasses I s ((List.range s.1.length).zip s.1) [] 0 with
  | none => []
  | some (decs, tot) => if tot = 0 then [-1] else decs

def nextVar (depth : Nat) : Option Nat := if depth < I.nbAircraft then some depth else none

def initState : St :=
  ((List.range I.nbClasses).map (fun c => (I.classes.take I.nbAircraft).count c), List.replicate I.nbRunways (0, -1))

def problem : Problem St :=
  { nbVars := I.nbAircraft
    init := initState I
    initVal := 0
    trans := fun s d => (trans? I s d.val).getD s
    cost := fun s _ d => (cost? I s d.val).getD 0
    nextVar := fun depth _ => nextVar I depth
    domain := fun _ s => domain I s
    impacted := fun _ _ => true }

/-- `merge` -/
def mergeStates (states : List St) : St :=
  ((List.range I.nbClasses).map (fun k => states.foldl (fun m s => min m ((s.1[k]?).getD 0)) uMax),
   (List.range I.nbRunways).map (fun r => (states.foldl (fun m s => min m ((s.2[r]?).getD (0, -1)).1) iMax, (-1 : Int))))

def relaxation : Relax St :=
  { merge := mergeStates I
    relax := fun _ _ _ _ c => c
    rub := fun _ => 0 }

def rank (s : St) : Int := sum (s.2.map (·.1))
/-- `AlpRanking::compare` -/
def rankCmp (a b : St) : Ordering := compare (rank a) (rank b)

/-- what `AlpKey::hash` feeds the hasher, as 64-bit words: the length prefix of `rem`, `rem`, the classes -/
def keyWords (s : St) : List Int := Int.ofNat s.1.length :: (s.1.map Int.ofNat ++ s.2.map (·.2))
/-- `AlpKey::eq` decides the equality of these -/
abbrev Key := List Nat × List Int
def keyOf (s : St) : Key := (s.1, s.2.map (·.2))

/-- `AlpDominance` -/
def domRule : DomRule St Key :=
  { key := fun s => some (keyOf s)
    dims := fun s => s.2.length
    coord := fun s i => - ((s.2[i]?).getD (0, -1)).1
    useValue := true }

-- ------------------------------------------------------------------------------------------------------------------
-- what the driver evaluates pointwise (exhaustive enumeration over the remaining aircraft)

def totRem (s : St) : Nat := s.1.foldl (· + ·) 0

/-- the best total transition cost (= minus the least total delay) of a completion of `s`, `none` = no completion lands
    every aircraft in time; `fuel` ≥ the number of aircraft left.  Once nothing is left the only decisions are `-1`,
    worth 0 and without effect on the state: the depth plays no role (for a state of depth `d`: `totRem s ≤ n - d`). -/
def bestRem : Nat → St → EInt
  | 0, _ => some 0
  | fuel + 1, s =>
    let dom := domain I s
    if dom == [-1] then some 0
    else dom.foldl (fun acc v =>
      match trans? I s v, cost? I s v with
      | some s2, some c => EInt.max acc ((bestRem fuel s2).addI c)
      | _, _ => acc) none

def best (s : St) : EInt := bestRem I (totRem s) s

/-- `RubOk` at one state: the bound `r` claimed for `s` dominates every completion -/
def rubOkAt (s : St) (r : Int) : Bool := decide (best I s ≤ some r)

/-- `MergeOk` at one merged-away state `t`, merged state `m`, increase `delta` of the cost of the arc into `t`: the best
    completion of `m` is worth at least the best completion of `t`.  (Not completion by completion: a decision names a
    runway by its rank among the sorted runways, and the domain keeps one of several runways in the same state.) -/
def mergeOkAt (t m : St) (delta : Int) : Bool := decide (best I t ≤ (best I m).addI delta)

/-- the rule's verdict `o` on `(a, va)`, `(b, vb)` of one key is admissible: the state the checker would discard
    (`a` when `lt`, `b` when `gt` or `eq`) reaches nothing better than the other -/
def domOkAt (a : St) (va : Int) (b : St) (vb : Int) (o : Ordering) : Bool :=
  let ta := (best I a).addI va
  let tb := (best I b).addI vb
  match o with
  | .lt => decide (ta ≤ tb)
  | .gt => decide (tb ≤ ta)
  | .eq => decide (ta ≤ tb) && decide (tb ≤ ta)

/-- an upper estimate of the number of completions enumerated by `bestRem` (orders of the classes × runways) -/
def enumSize (s : St) : Nat :=
  let m := totRem s
  let fact := fun (k : Nat) => (List.range k).foldl (fun p i => p * (i + 1)) 1
  (fact m / s.1.foldl (fun p k => p * fact k) 1) * (max 1 s.2.length) ^ m

-- ------------------------------------------------------------------------------------------------------------------
-- the independent specification (`Alp.lean`) among the schedules that extend a walk prefix

def Inst.specInst : Alp.Inst :=
  { target := I.tgt, latest := I.lat, cls := I.cls, sep := I.sepAt }

/-- the domain of the example: within a class targets and latest times are non-decreasing in file order, the
    separations satisfy the triangle inequality, every class is a class -/
def Inst.inDomain : Bool :=
  let n := I.nbAircraft
  let k := I.nbClasses
  let ac := List.range n
  decide (I.classes.length = n) && decide (I.target.length = n) && decide (I.latest.length = n)
    && ac.all (fun a => decide (I.cls a < k) && decide (0 ≤ I.tgt a))
    && ac.all (fun a => ac.all (fun b => !(decide (a < b) && I.cls a == I.cls b) || (decide (I.tgt a ≤ I.tgt b) && decide (I.lat a ≤ I.lat b))))
    && (List.range k).all (fun x => (List.range k).all (fun y => decide (0 ≤ I.sepAt x y) &&
          (List.range k).all (fun z => decide (I.sepAt x z ≤ I.sepAt x y + I.sepAt y z))))

/-- replay of the decisions of a prefix from the root, the runways keeping their PHYSICAL identity (the state only keeps
    them sorted): `(state, value, [(aircraft, physical runway)])`; `none` = not a path of the model -/
def replayPhys : List Int → St → List Nat → Int → List (Nat × Nat) → Option (St × Int × List (Nat × Nat))
  | [], s, _, v, acc => some (s, v, acc)
  | d :: ds, s, phys, v, acc =>
    if d = -1 then (if (domain I s).contains d then replayPhys ds s phys v acc else none) else
    if !(domain I s).contains d then none else
    let c := (fromDecision I d).1
    let r := (fromDecision I d).2
    match aircraftOf? I s c, trans? I s d, cost? I s d with
    | some a, some s2, some k =>
      -- the same update on (runway, physical id) pairs, sorted by a stable insertion sort on the runway state
      let tagged := (s.2.zip phys).set r ((arrival I s.2 a r, (c : Int)), (phys[r]?).getD 0)
      let ins := fun (x : Rw × Nat) (l : List (Rw × Nat)) =>
        let (lo, hi) := l.span (fun y => !(rwLe x.1 y.1))
        lo ++ x :: hi
      let sorted := tagged.foldr ins []
      replayPhys ds s2 (sorted.map (·.2)) (v + k) (acc ++ [(a, (phys[r]?).getD 0)])
    | _, _, _ => none

/-- the least total delay among the schedules of the specification that start with the landings `pre` (in this order, on
    these runways) — every order of the other aircraft, every runway for each; `none` = none is feasible -/
def specExt (pre : List (Nat × Nat)) : Option Int :=
  let rest := (List.range I.nbAircraft).filter (fun a => !(pre.any (fun p => p.1 == a)))
  let orders := Alp.perms rest
  let runways := Alp.assignments I.nbRunways rest.length
  Alp.minimum (orders.flatMap (fun o => runways.filterMap (fun rs => Alp.delay I.specInst (pre ++ o.zip rs) [])))

/-- the number of schedules `specExt` enumerates -/
def specSize (npre : Nat) : Nat :=
  let m := I.nbAircraft - npre
  (List.range m).foldl (fun p i => p * (i + 1)) 1 * (max 1 I.nbRunways) ^ m

end Ddo.Examples.AlpModel
