import DdoModel.Examples.AlpModel
/-! alp example, proofs (1): the runway sort (`sortRw`) returns THE sorted permutation of its argument, and a
    "matching" relation between two lists of runways (a bijection along which a relation holds), stable under the
    update of matched entries and under permutations — the runways of a state are interchangeable. -/
namespace Ddo.Examples.AlpModel
open Ddo Ddo.Examples Ddo.Examples.Util

theorem rwLe_total (a b : Rw) : rwLe a b = true ∨ rwLe b a = true := by
  obtain ⟨a1, a2⟩ := a
  obtain ⟨b1, b2⟩ := b
  simp only [rwLe, Bool.or_eq_true, Bool.and_eq_true, decide_eq_true_eq]
  omega

theorem rwLe_trans {a b c : Rw} (h1 : rwLe a b = true) (h2 : rwLe b c = true) : rwLe a c = true := by
  obtain ⟨a1, a2⟩ := a
  obtain ⟨b1, b2⟩ := b
  obtain ⟨c1, c2⟩ := c
  simp only [rwLe, Bool.or_eq_true, Bool.and_eq_true, decide_eq_true_eq] at *
  omega

theorem rwLe_antisymm {a b : Rw} (h1 : rwLe a b = true) (h2 : rwLe b a = true) : a = b := by
  obtain ⟨a1, a2⟩ := a
  obtain ⟨b1, b2⟩ := b
  simp only [rwLe, Bool.or_eq_true, Bool.and_eq_true, decide_eq_true_eq] at *
  have e1 : a1 = b1 := by omega
  have e2 : a2 = b2 := by omega
  subst e1; subst e2; rfl

theorem insertRw_perm (x : Rw) (l : List Rw) : (insertRw x l).Perm (x :: l) := by
  induction l with
  | nil => exact List.Perm.refl _
  | cons y r ih =>
    unfold insertRw
    split
    · exact List.Perm.refl _
    · exact ((List.Perm.cons y ih).trans (List.Perm.swap x y r))

theorem sortRw_perm (l : List Rw) : (sortRw l).Perm l := by
  induction l with
  | nil => exact List.Perm.refl _
  | cons x r ih =>
    show (insertRw x (sortRw r)).Perm (x :: r)
    exact (insertRw_perm x _).trans (List.Perm.cons x ih)

theorem insertRw_sorted (x : Rw) (l : List Rw) (h : l.Pairwise (fun a b => rwLe a b = true)) :
    (insertRw x l).Pairwise (fun a b => rwLe a b = true) := by
  induction l with
  | nil => simp [insertRw]
  | cons y r ih =>
    unfold insertRw
    have hy : ∀ {z : Rw}, z ∈ r → rwLe y z = true := fun hz => List.rel_of_pairwise_cons h hz
    split
    · next hxy =>
      refine List.Pairwise.cons ?_ h
      intro z hz
      rcases List.mem_cons.mp hz with rfl | hz
      · exact hxy
      · exact rwLe_trans hxy (hy hz)
    · next hxy =>
      refine List.Pairwise.cons ?_ (ih h.tail)
      intro z hz
      have hz' := (insertRw_perm x r).mem_iff.mp hz
      rcases List.mem_cons.mp hz' with rfl | hz'
      · rcases rwLe_total z y with h' | h'
        · exact absurd h' hxy
        · exact h'
      · exact hy hz'

theorem sortRw_sorted (l : List Rw) : (sortRw l).Pairwise (fun a b => rwLe a b = true) := by
  induction l with
  | nil => simp [sortRw]
  | cons x r ih => exact insertRw_sorted x _ ih

/-- every sort of the same content gives the same list -/
theorem sortRw_eq_of_perm {l₁ l₂ : List Rw} (h : l₁.Perm l₂) : sortRw l₁ = sortRw l₂ :=
  List.Perm.eq_of_pairwise (le := fun a b => rwLe a b = true) (fun _ _ _ _ h1 h2 => rwLe_antisymm h1 h2)
    (sortRw_sorted l₁) (sortRw_sorted l₂) ((sortRw_perm l₁).trans (h.trans (sortRw_perm l₂).symm))

theorem sortRw_length (l : List Rw) : (sortRw l).length = l.length := (sortRw_perm l).length_eq

theorem mem_sortRw {l : List Rw} {p : Rw} : p ∈ sortRw l ↔ p ∈ l := (sortRw_perm l).mem_iff

-- ------------------------------------------------------------------------------------------------------------------
-- permutations and `set`

theorem set_perm {α : Type} (l : List α) (i : Nat) (h : i < l.length) (x : α) :
    (l.set i x).Perm (x :: l.eraseIdx i) := by
  rw [List.set_eq_take_append_cons_drop, if_pos h, List.eraseIdx_eq_take_drop_succ]
  exact List.perm_middle

theorem self_perm_eraseIdx {α : Type} (l : List α) (i : Nat) (h : i < l.length) :
    l.Perm (l[i] :: l.eraseIdx i) := by
  have := set_perm l i h l[i]
  rwa [List.set_getElem_self] at this

/-- replacing either of two equal entries gives the same content -/
theorem set_perm_set {α : Type} (l : List α) (i j : Nat) (hi : i < l.length) (hj : j < l.length) (e : l[i] = l[j])
    (x : α) : (l.set i x).Perm (l.set j x) := by
  have h1 := self_perm_eraseIdx l i hi
  have h2 := self_perm_eraseIdx l j hj
  rw [e] at h1
  have h3 : (l.eraseIdx i).Perm (l.eraseIdx j) := (h1.symm.trans h2).cons_inv
  exact (set_perm l i hi x).trans ((List.Perm.cons x h3).trans (set_perm l j hj x).symm)

-- ------------------------------------------------------------------------------------------------------------------
-- matchings

inductive Fa2 {α β : Type} (R : α → β → Prop) : List α → List β → Prop
  | nil : Fa2 R [] []
  | cons {a : α} {b : β} {l₁ : List α} {l₂ : List β} : R a b → Fa2 R l₁ l₂ → Fa2 R (a :: l₁) (b :: l₂)

theorem Fa2.perm_right {α β : Type} {R : α → β → Prop} {X Y : List β} (hp : X.Perm Y) :
    ∀ {L : List α}, Fa2 R L X → ∃ L', L'.Perm L ∧ Fa2 R L' Y := by
  induction hp with
  | nil => intro L h; exact ⟨L, List.Perm.refl _, h⟩
  | cons x _ ih =>
    intro L h
    cases h with
    | cons hab hrest =>
      obtain ⟨L', hp', hf'⟩ := ih hrest
      exact ⟨_ :: L', List.Perm.cons _ hp', Fa2.cons hab hf'⟩
  | swap x y l =>
    intro L h
    cases h with
    | cons hab hrest =>
      cases hrest with
      | cons hab2 hrest2 =>
        exact ⟨_, List.Perm.swap _ _ _, Fa2.cons hab2 (Fa2.cons hab hrest2)⟩
  | trans _ _ ih1 ih2 =>
    intro L h
    obtain ⟨L1, hp1, hf1⟩ := ih1 h
    obtain ⟨L2, hp2, hf2⟩ := ih2 hf1
    exact ⟨L2, hp2.trans hp1, hf2⟩

/-- a bijection between the entries of `L` and those of `X` along which `R` holds -/
def Matching {α β : Type} (R : α → β → Prop) (L : List α) (X : List β) : Prop := ∃ L', L'.Perm L ∧ Fa2 R L' X

theorem Matching.perm {α β : Type} {R : α → β → Prop} {L L₂ : List α} {X X₂ : List β} (h : Matching R L X)
    (hL : L.Perm L₂) (hX : X.Perm X₂) : Matching R L₂ X₂ := by
  obtain ⟨L', hp, hf⟩ := h
  obtain ⟨L'', hp', hf'⟩ := Fa2.perm_right hX hf
  exact ⟨L'', hp'.trans (hp.trans hL), hf'⟩

theorem Fa2.of_forall {α β : Type} {R : α → β → Prop} : ∀ (L : List α) (X : List β), L.length = X.length →
    (∀ (i : Nat) (h1 : i < L.length) (h2 : i < X.length), R L[i] X[i]) → Fa2 R L X
  | [], [], _, _ => Fa2.nil
  | [], _ :: _, h, _ => by cases h
  | _ :: _, [], h, _ => by cases h
  | a :: l, b :: x, h, hr =>
    Fa2.cons (hr 0 (Nat.zero_lt_succ _) (Nat.zero_lt_succ _))
      (Fa2.of_forall l x (by simpa using h) (fun i h1 h2 => hr (i + 1) (Nat.succ_lt_succ h1) (Nat.succ_lt_succ h2)))

theorem Matching.of_forall {α β : Type} {R : α → β → Prop} (L : List α) (X : List β) (h : L.length = X.length)
    (hr : ∀ (i : Nat) (h1 : i < L.length) (h2 : i < X.length), R L[i] X[i]) : Matching R L X :=
  ⟨L, List.Perm.refl _, Fa2.of_forall L X h hr⟩

theorem Matching.length_eq {α β : Type} {R : α → β → Prop} {L : List α} {X : List β} (h : Matching R L X) :
    L.length = X.length := by
  obtain ⟨L', hp, hf⟩ := h
  rw [← hp.length_eq]
  clear hp
  induction hf with
  | nil => rfl
  | cons _ _ ih => simp [ih]

/-- the entry matched with `X[i]`, and the matching after an update of both -/
theorem Matching.set {α β : Type} {R : α → β → Prop} {L : List α} {X : List β} (h : Matching R L X) (i : Nat)
    (hi : i < X.length) :
    ∃ (j : Nat) (hj : j < L.length), R L[j] X[i] ∧
      ∀ (p' : α) (q' : β), R p' q' → Matching R (L.set j p') (X.set i q') := by
  have h1 := h.perm (List.Perm.refl _) (self_perm_eraseIdx X i hi)
  obtain ⟨L', hp, hf⟩ := h1
  cases hf with
  | @cons p _ L1 _ hpq hrest =>
    have hmem : p ∈ L := hp.mem_iff.mp (List.mem_cons_self ..)
    obtain ⟨j, hj, ej⟩ := List.mem_iff_getElem.mp hmem
    refine ⟨j, hj, by rw [ej]; exact hpq, ?_⟩
    intro p' q' hR
    have h2 := self_perm_eraseIdx L j hj
    rw [ej] at h2
    have h3 : L1.Perm (L.eraseIdx j) := (hp.trans h2).cons_inv
    have h4 : Matching R (L.set j p') (q' :: X.eraseIdx i) :=
      ⟨p' :: L1, (List.Perm.cons p' h3).trans (set_perm L j hj p').symm, Fa2.cons hR hrest⟩
    exact h4.perm (List.Perm.refl _) (set_perm X i hi q').symm

end Ddo.Examples.AlpModel
