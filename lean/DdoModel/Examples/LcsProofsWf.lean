import DdoModel.WfRel
import DdoModel.Props.C06
import DdoModel.Examples.LcsProofsRub
/-! The shipped lcs example is well-formed relative to the layer validity "a valid state whose position in string `0` is at
    least the depth of the layer" (`wfRel`, `noClampDom`), hence a relaxed compilation (no long arcs, no cache, no
    dominance) of its model from the root reports at least the value-to-go of the root (`lcs_relaxed_ub_bestRem`). -/
namespace Ddo.Examples.LcsModel
open Ddo Ddo.Examples Ddo.Examples.Util

/-- the potential: the value-to-go of the state, whatever the layer -/
def H (J : Inst) (_ : Nat) (s : St) : EInt := bestRem J s
/-- layer validity: a valid state whose position in string 0 is at least the depth of the layer (the compilation without
    long arcs branches every state of layer `k` on variable `k`; a state that is further in string 0 simply takes its next
    character earlier) -/
def V (ws : List (List Nat)) (k : Nat) (s : St) : Prop := Valid ws s ∧ k ≤ pos s 0

theorem pos_map_range (n : Nat) (f : Nat → Nat) {i : Nat} (hi : i < n) : pos ((List.range n).map f) i = f i := by
  simp [pos, hi]

theorem nextVar_some {J : Inst} {k x : Nat} {L : List St} (h : (problem J).nextVar k L = some x) :
    k < nbVars J ∧ x = k := by
  simp only [problem, nextVar] at h
  split at h
  · next hk => exact ⟨hk, by cases h; rfl⟩
  · cases h

theorem nextVar_none {J : Inst} {k : Nat} {L : List St} (h : (problem J).nextVar k L = none) : ¬ k < nbVars J := by
  simp only [problem, nextVar] at h
  split at h
  · cases h
  · next hk => exact hk

/-- one merge step on two position vectors of the right length, explicitly -/
theorem mergeStep_eq {J : Inst} {acc s : St} (ha : acc.length = J.nStrings) (hs : s.length = J.nStrings) :
    mergeStep J acc s = some ((List.range J.nStrings).map fun i => min (pos acc i) (pos s i)) := by
  unfold mergeStep
  apply mapM_total
  intro i hi
  have hi := List.mem_range.mp hi
  have h1 : i < acc.length := by omega
  have h2 : i < s.length := by omega
  simp [pos, h1, h2]

/-- the merge of position vectors of the right length does not panic; a lower bound on the merged position `0` -/
theorem foldl_merge_lower {J : Inst} (k : Nat) (h0 : 0 < J.nStrings) : ∀ (X : List St) (acc : St), acc.length = J.nStrings →
    (∀ u ∈ X, u.length = J.nStrings) → k ≤ pos acc 0 → (∀ u ∈ X, k ≤ pos u 0) →
    ∃ m, X.foldlM (mergeStep J) acc = some m ∧ k ≤ pos m 0 := by
  intro X
  induction X with
  | nil => intro acc _ _ hk _; exact ⟨acc, rfl, hk⟩
  | cons x t ih =>
    intro acc ha hX hk hXk
    rw [List.foldlM_cons, mergeStep_eq ha (hX x List.mem_cons_self)]
    simp only [Option.bind_eq_bind, Option.bind_some]
    apply ih
    · simp
    · intro u hu; exact hX u (List.mem_cons_of_mem _ hu)
    · rw [pos_map_range _ _ h0]
      have := hXk x List.mem_cons_self
      omega
    · intro u hu; exact hXk u (List.mem_cons_of_mem _ hu)

section
variable {J : Inst} {ws : List (List Nat)} (hB : Built J ws)
include hB

theorem pos_len {i : Nat} (hi : i < ws.length) : pos J.len i = (str ws i).length := by
  simp [pos, str, hB.len, hi]

theorem mem_domain {s : St} (hV : Valid ws s) {d : Int} (hd : d ∈ domain J s) :
    d = -1 ∨ ∃ c : Nat, c < J.nChars ∧ common ws s c = true ∧ d = (c : Int) := by
  rw [domain_eq hB hV] at hd
  split at hd
  · left; simpa using hd
  · right; exact mem_chars.mp hd

theorem domain_ne_nil' {s : St} (hV : Valid ws s) : domain J s ≠ [] := by
  rw [domain_eq hB hV]
  split
  · simp
  · next h => intro h'; rw [h'] at h; exact h rfl

theorem valid_trans {s : St} (hV : Valid ws s) {d : Int} (hd : d ∈ domain J s) (x : Nat) : Valid ws (trans J s ⟨x, d⟩) := by
  rcases mem_domain hB hV hd with rfl | ⟨c, hc, hcm, rfl⟩
  · rw [trans_end]; exact valid_len hB
  · rw [trans_char hB hV hc]; exact valid_step hV hcm

theorem vstepV {k : Nat} {s : St} (hV : V ws k s) (hk : k < nbVars J) {d : Int} (hd : d ∈ domain J s) (x : Nat) :
    V ws (k + 1) (trans J s ⟨x, d⟩) := by
  have h0 : 0 < ws.length := List.length_pos_iff.mpr hB.ne
  refine ⟨valid_trans hB hV.1 hd x, ?_⟩
  rcases mem_domain hB hV.1 hd with rfl | ⟨c, hc, hcm, rfl⟩
  · rw [trans_end, pos_len hB h0, ← nbVars_eq hB]; omega
  · rw [trans_char hB hV.1 hc, pos_step h0]
    have := hV.2
    omega

/-- merging a non-empty list of valid states of a layer: no panic, a valid state of the layer, position-wise no further -/
theorem merge_specV {k : Nat} {X : List St} (hne : X ≠ []) (hX : ∀ u ∈ X, V ws k u) :
    ∃ m, (relaxation J).merge X = m ∧ V ws k m ∧ ∀ u ∈ X, ∀ i, i < ws.length → pos m i ≤ pos u i := by
  have h0 : 0 < ws.length := List.length_pos_iff.mpr hB.ne
  obtain ⟨u0, hu0⟩ := List.exists_mem_of_ne_nil _ hne
  have hk0 : k ≤ pos J.len 0 := by
    rw [pos_len hB h0]
    have := (hX u0 hu0).1.2 0 h0
    have := (hX u0 hu0).2
    omega
  obtain ⟨m, hm, hkm⟩ := foldl_merge_lower (J := J) k (by rw [hB.nStrings]; exact h0) X J.len
    (by rw [hB.len, hB.nStrings]; simp) (fun u hu => by rw [hB.nStrings]; exact (hX u hu).1.1) hk0 (fun u hu => (hX u hu).2)
  have hm' : merge? J X = some m := by rw [merge?_eq]; exact hm
  obtain ⟨hVm, hle⟩ := merge_valid hB hm'
  refine ⟨m, ?_, ⟨hVm, hkm⟩, hle⟩
  show (merge? J X).getD J.len = m
  rw [hm']; rfl

theorem vmergeV {k : Nat} {X : List St} (hne : X ≠ []) (hX : ∀ u ∈ X, V ws k u) : V ws k ((relaxation J).merge X) := by
  obtain ⟨m, hm, hV, _⟩ := merge_specV hB hne hX
  rw [hm]; exact hV

/-- on every valid state some decision of the domain does not lose value-to-go -/
theorem attV {s : St} (hV : Valid ws s) (x : Nat) {h : Int} (hh : bestRem J s = some h) :
    ∃ d ∈ domain J s, ∃ h', bestRem J (trans J s ⟨x, d⟩) = some h' ∧ h ≤ cost d + h' := by
  obtain ⟨c, hc, hcs, hlt, _⟩ := bestRem_spec hB hV
  rw [hh] at hc
  have hc : h = (c.length : Int) := by simpa using hc
  subst hc
  cases c with
  | nil =>
    obtain ⟨d, hd⟩ := List.exists_mem_of_ne_nil _ (domain_ne_nil' hB hV)
    obtain ⟨c', hc', _⟩ := bestRem_spec hB (valid_trans hB hV hd x)
    refine ⟨d, hd, _, hc', ?_⟩
    have := cost_nonneg d
    simp only [List.length_nil]
    omega
  | cons x0 t =>
    have hx : x0 < J.nChars := hlt x0 List.mem_cons_self
    have hcm : common ws s x0 = true := common_of_cs hcs
    have hmem : (x0 : Int) ∈ chars J ws s := mem_chars.mpr ⟨x0, hx, hcm, rfl⟩
    refine ⟨(x0 : Int), ?_, ?_⟩
    · rw [domain_eq hB hV]
      split
      · next he => rw [List.isEmpty_iff.mp he] at hmem; cases hmem
      · exact hmem
    · rw [trans_char hB hV hx]
      obtain ⟨c', hc', _, _, hmax'⟩ := bestRem_spec hB (valid_step hV hcm)
      refine ⟨_, hc', ?_⟩
      have := hmax' t (fun y hy => hlt y (List.mem_cons_of_mem _ hy)) (cs_step hcs)
      have h1 : ¬ ((x0 : Int) = -1) := by omega
      simp only [cost, h1, if_false, List.length_cons]
      omega

/-- a valid state at the end of string `0` has no value-to-go left -/
theorem termV {k : Nat} {s : St} (hV : V ws k s) (hk : ¬ k < nbVars J) {h : Int} (hh : bestRem J s = some h) : h ≤ 0 := by
  have h0 : 0 < ws.length := List.length_pos_iff.mpr hB.ne
  obtain ⟨c, hc, hcs, _, _⟩ := bestRem_spec hB hV.1
  rw [hh] at hc
  have hc : h = (c.length : Int) := by simpa using hc
  subst hc
  have := hcs 0 h0
  have he : suf ws s 0 = [] := by
    have := hV.2
    rw [nbVars_eq hB] at hk
    simp [suf]; omega
  rw [he] at this
  simp [List.sublist_nil.mp this]

theorem rubV {s : St} (hV : Valid ws s) {h : Int} (hh : bestRem J s = some h) : h ≤ (relaxation J).rub s := by
  obtain ⟨c, hc, h1, h2, _⟩ := bestRem_spec hB hV
  obtain ⟨r, hr, hle⟩ := rub?_ge hB hV h2 h1
  rw [hh] at hc
  have hc : h = (c.length : Int) := by simpa using hc
  subst hc
  simp only [relaxation, hr, Option.getD_some]
  exact hle

/-- the value-to-go of a valid state is at most the length of string `0` -/
theorem bestRem_le_nbVars {s : St} (hV : Valid ws s) {h : Int} (hh : bestRem J s = some h) : h ≤ (nbVars J : Int) := by
  have h0 : 0 < ws.length := List.length_pos_iff.mpr hB.ne
  obtain ⟨c, hc, hcs, _, _⟩ := bestRem_spec hB hV
  rw [hh] at hc
  have hc : h = (c.length : Int) := by simpa using hc
  subst hc
  have h1 := (hcs 0 h0).length_le
  have h2 : (suf ws s 0).length ≤ (str ws 0).length := by simp [suf]
  rw [nbVars_eq hB]
  omega

end

/-- **the lcs model is well-formed relative to `V`**, with the value-to-go as potential -/
theorem wfRel {J : Inst} {ws : List (List Nat)} (hB : Built J ws) : WfRel (problem J) (relaxation J) (H J) (V ws) where
  vstep := by
    intro k L x s d hx _ hV hd
    obtain ⟨hk, rfl⟩ := nextVar_some hx
    exact vstepV hB hV hk hd _
  vstepMerge := by
    intro k L x X d hx hne _ hX hd
    obtain ⟨hk, rfl⟩ := nextVar_some hx
    exact vstepV hB (vmergeV hB hne hX) hk hd _
  vmerge := fun k X hne hX => vmergeV hB hne hX
  att := by
    intro k L x s h _ _ hV hh
    exact attV hB hV.1 x hh
  attMerge := by
    intro k L x X h _ hne _ hX hh
    exact attV hB (vmergeV hB hne hX).1 x hh
  term := by
    intro k L s h hx _ hV hh
    exact termV hB hV (nextVar_none hx) hh
  rub := fun k s h hV hh => rubV hB hV.1 hh
  merge := by
    intro k X u src d c h hu hX hh
    obtain ⟨m, hm, hVm, hle⟩ := merge_specV hB (List.ne_nil_of_mem hu) hX
    rw [hm]
    have hanti := antitone_valid hB (hX u hu).1 hVm.1 (hle u hu)
    obtain ⟨cm, hcm, _⟩ := bestRem_spec hB hVm.1
    refine ⟨_, hcm, ?_⟩
    have hh' : bestRem J u = some h := hh
    rw [hh', hcm] at hanti
    have : h ≤ (cm.length : Int) := hanti
    show c + h ≤ c + (cm.length : Int)
    omega

theorem noClampDom {J : Inst} (hsmall : ((nbVars J : Int) + 2) * 1 ≤ 4611686018427387904) :
    NoClampDom (problem J) (relaxation J) 0 1 where
  nonneg := by omega
  root := by omega
  cost := by
    intro x s d _
    show -1 ≤ cost d ∧ cost d ≤ 1
    have := cost_nonneg d
    have := cost_le_one d
    omega
  relax := fun _ _ _ _ _ hc => hc
  small := hsmall

/-- a relaxed compilation (no long arcs, no cache, no dominance) of the lcs model from the root reports at least the
    value-to-go of the root -/
theorem lcs_relaxed_ub_bestRem {K : Type} [DecidableEq K] {k declared : Nat} {lines : List (List Int)} {J : Inst}
    (hJ : InstOk k declared lines J) (cfg : Cfg St K) (cache : Cache St) (store : DomStore St K) (polls : Nat)
    (hP : cfg.P = problem J) (hR : cfg.R = relaxation J)
    (hrs : cfg.root.state = initSt J) (hrv : cfg.root.value = 0) (hrd : cfg.root.depth = 0)
    (hrel : cfg.ctype = .relaxed) (hcache : cfg.useCache = false) (hdom : cfg.dom = none) (hW : 1 ≤ cfg.width)
    (hsmall : ((nbVars J : Int) + 2) * 1 ≤ 4611686018427387904)
    (o : Int) (ho : bestRem J (initSt J) = some o) (hlb : InI cfg.lb) (hgt : o > cfg.lb) :
    (compile cfg cache store polls none).1 = .ok →
    ∃ bv, (compile cfg cache store polls none).2.1.bestValue = some bv ∧ o ≤ bv := by
  have hB := built_of_instOk hJ
  have hVi := valid_init hB
  have hO : o ≤ iMax := by
    have := bestRem_le_nbVars hB hVi ho
    simp only [iMax]
    omega
  refine C06.relaxed_ub_rel_dom cfg (H J) (V (J.strings.take J.nStrings)) 1 cache store polls hrel hcache hdom hW ?_ ?_ ?_
    hlb o ?_ hgt (Or.inl hO)
  · rw [hP, hR]; exact wfRel hB
  · rw [hrd, hrs]; exact ⟨hVi, Nat.zero_le _⟩
  · rw [hP, hR, hrv]; exact noClampDom hsmall
  · unfold optOf
    rw [hrd, hrs, hrv]
    show (bestRem J (initSt J)).addI 0 = some o
    rw [ho]
    simp [EInt.addI]

/-! ## non-vacuity: a concrete instance (two strings over three characters, width 2: merges happen) -/
namespace Demo

/-- the file `2 3 / 4 abcb / 3 bac` -/
def lines : List (List Int) := [[97, 98, 99, 98], [98, 97, 99]]

def inst : Inst :=
  match readInst 2 3 lines with
  | .ok J => J
  | _ => ⟨0, 0, [], [], [], [], [], []⟩

theorem instOk : InstOk 2 3 lines inst := ⟨by decide, rfl⟩

def cfg : Cfg St Unit :=
  { P := problem inst, R := relaxation inst, rank := ⟨fun a b => compare (natSum b) (natSum a)⟩, dom := none,
    useCache := false, kind := .lel, ctype := .relaxed, width := 2, root := ⟨initSt inst, 0, [], iMax, 0⟩, lb := 0 }

example : bestRem inst (initSt inst) = some 2 := by decide

example : ∃ bv, (compile cfg (Cache.init 3) (DomStore.init 3) 0 none).2.1.bestValue = some bv ∧ 2 ≤ bv :=
  lcs_relaxed_ub_bestRem instOk cfg (Cache.init 3) (DomStore.init 3) 0 rfl rfl rfl rfl rfl rfl rfl rfl (by decide)
    (by decide) 2 (by decide) (by decide) (by decide) (by decide)

end Demo

#print axioms wfRel
#print axioms noClampDom
#print axioms lcs_relaxed_ub_bestRem

end Ddo.Examples.LcsModel
