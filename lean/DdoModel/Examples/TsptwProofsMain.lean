import DdoModel.Examples.TsptwProofsInv
import DdoModel.Examples.TsptwProofsExact
import DdoModel.Examples.TsptwProofsWf
import DdoModel.Examples.TsptwProofsRub
/-! The shipped tsptw example (repaired `relax`), summary.  `TabOk T`: a table as the reader / `TsptwRelax::new` build it (square
    matrix, one window per node, cheapest incoming edges, ≤ 256 nodes, numbers `< 2^40`; `tabOk_tabOf`); `Valid T s`: `validB`
    plus "the lists are sets" (`Set256`).

* `mergeOk : MergeOkStmt T`, `mergeOkAny`, `mergeOk_hStar`, `merge_ok_valid` (`TsptwProofsMerge.lean`): `MergeOk`, potential
  form, for the repaired relaxation; `merge_ok_false`: the value form as STATED over `validB` states is false (a list with a
  duplicate; not reachable);
* `dominance_admissible_partial` (`TsptwProofsMerge.lean`);
* `valueInv_holds : ValueInv T`, `exactShape_partial`, `tabOk_tabOf` (`TsptwProofsInv.lean`);
* `bestRemL_eq_on_exact_partial`, `dp_exact_partial`, `spec_eq_specBestExt_proved`, `spec_eq_bestRem_root`
  (`TsptwProofsExact.lean`);
* `rub_hStar` (`TsptwProofsRub.lean`): the rough upper bound (its three "infeasible" answers included) is admissible for the
  potential `hStar` on every valid state that, on the last layer, is back at the depot in time (`rub_hStar_late_false`: not
  without that clause); `rub_admissible_partial` below: for the model's value-to-go on the states none of whose positions is
  a city still to visit; `rub_admissible_false`, `rub_admissible_late_false`, `rub_bestRemL_fails_merged`: not beyond;
* `wfRel` below: the `WfRel` instance (potential `hStar`, which is the model's value-to-go at the root and on every state
  reached exactly); `noClampDom_false`; `tsptw_relaxed_ub_partial`: the relaxed-diagram corollary against `Tsptw.spec`,
  conditional on the generic no-saturation hypothesis. -/
namespace Ddo.Examples.TsptwModel
open Ddo Ddo.Examples

/-- **`RubOk`** (`rub_admissible` of `TsptwModel.lean`) for the model's legitimate value-to-go, on the valid states none of
    whose positions is a city still to visit and which, on the last layer (back at the depot), are there in time.  Missing
    for `rub_admissible T`: nothing that is true (`rub_admissible_false`, `rub_admissible_late_false`) -/
theorem rub_admissible_partial {T : Tab} (hT : TabOk T) (hD : inDomain T = true) {s : St} (hV : Valid T s) (hC : Clean s)
    (hL : s.depth = T.n → s.el.earliest ≤ lN T 0) {r : Option Int} (hr : rub? T s = some r) : bestRemL T s ≤ r := by
  rw [← hStar_eq_bestRemL hT hV hC]
  exact rub_hStar hT hD hV (alt_of_clean hV.pos_ne hC) hL hr

/-- the same in the vocabulary of `rub_admissible`: a `validB` state in `rubScope` whose lists are sets, which, when it has a
    single position, does not have it among its optional cities, and which is not late at the depot on the last layer -/
theorem rub_admissible_partial' {T : Tab} (hT : TabOk T) (hD : inDomain T = true) (s : St) (hv : validB T s = true)
    (hs : rubScope s = true) (h1 : s.must.Nodup) (h2 : (mb s).Nodup) (h3 : ∀ i ∈ s.must, i ∉ mb s)
    (h4 : ∀ i, s.pos = .node i → i ∉ mb s) (hL : s.depth = T.n → s.el.earliest ≤ lN T 0) (r : Option Int) (hr : rub? T s = some r) : bestRemL T s ≤ r := by
  have hV := valid_of_validB hv h1 h2 h3
  refine rub_admissible_partial hT hD hV ?_ hL hr
  intro p hp
  refine ⟨fun hm => hV.must_pos p hm hp, ?_⟩
  cases hpos : s.pos with
  | node i =>
    have : p = i := by simpa [posSet, hpos] using hp
    subst this
    exact h4 p hpos
  | virt c =>
    have hp' : p ∈ c := by simpa [posSet, hpos] using hp
    simp only [rubScope, hpos, List.all_eq_true, Bool.not_eq_true', List.contains_eq_mem, decide_eq_false_iff_not] at hs
    exact hs p hp'

/-- **the tsptw model (repaired `relax`) is well-formed relative to `V`**, with the potential `hStar`, on every well-formed
    table of the domain -/
theorem wfRel {T : Tab} (hT : TabOk T) (hD : inDomain T = true) : WfRel (problem T) (relaxation T) (H T) (V T) :=
  wfRel_of_rub hT hD (fun _ hV hA hL _ hr => rub_hStar hT hD hV hA hL hr)

/-- at the root the potential is the model's value-to-go, which is the specification -/
theorem root_exact {T : Tab} (hT : TabOk T) (hD : inDomain T = true) :
    Tsptw.spec T.n (dI T) (eI T) (lI T) = ((hStar T (initSt T)).map (fun v => -v)).getD (-1) := by
  rw [hStar_eq_bestRemL hT (valid_init hT) (clean_init hT),
    bestRemL_eq_on_exact_partial hT hD 0 (initSt T) 0 [] Reach.root]
  exact spec_eq_bestRem_root hT hD

/-- **The shipped tsptw example**: a relaxed compilation of its model from the root (layer by layer, no cache, no dominance
    checker, width ≥ 1, any incumbent `lb` that the optimum beats) reports a best value that is at least the true optimum —
    minus the duration `Tsptw.spec` of a shortest tour —, for every well-formed table of the domain that has a tour;
    **conditional on `NoClampDom`**, which `noClampDom_false` shows unsatisfiable as stated (a `relax` with a state-dependent
    correction): everything but the no-saturation clause, which has to be restricted to the triples the compilation builds -/
theorem tsptw_relaxed_ub_partial {K : Type} [DecidableEq K] {T : Tab} (hT : TabOk T) (hD : inDomain T = true)
    (cfg : Cfg St K) (B : Int) (cache : Cache St) (store : DomStore St K) (polls : Nat)
    (hP : cfg.P = problem T) (hR : cfg.R = relaxation T)
    (hrs : cfg.root.state = initSt T) (hrv : cfg.root.value = 0) (hrd : cfg.root.depth = 0)
    (hrel : cfg.ctype = .relaxed) (hcache : cfg.useCache = false) (hdom : cfg.dom = none) (hW : 1 ≤ cfg.width)
    (hB : NoClampDom (problem T) (relaxation T) 0 B) (hlb : InI cfg.lb)
    (t : Int) (ht : Tsptw.spec T.n (dI T) (eI T) (lI T) = t) (hfeas : t ≠ -1) (hgt : -t > cfg.lb)
    (hO : -t ≤ iMax ∨ cfg.lb < iMax) :
    (compile cfg cache store polls none).1 = .ok →
    ∃ bv, (compile cfg cache store polls none).2.1.bestValue = some bv ∧ -t ≤ bv := by
  have hroot : bestRemL T (initSt T) = some (-t) := by
    have h := root_exact hT hD
    rw [hStar_eq_bestRemL hT (valid_init hT) (clean_init hT)] at h
    rw [ht] at h
    cases hb : bestRemL T (initSt T) with
    | none => rw [hb] at h; exact absurd h hfeas
    | some v =>
      rw [hb] at h
      have : t = -v := by simpa using h
      rw [this]; simp
  exact tsptw_relaxed_ub_of hT hD (fun _ hV hA hL _ hr => rub_hStar hT hD hV hA hL hr) cfg B cache store polls hP hR hrs hrv hrd hrel
    hcache hdom hW hB hlb (-t) hroot hgt hO

#print axioms mergeOk
#print axioms mergeOkAny
#print axioms merge_ok_valid
#print axioms merge_ok_false
#print axioms dominance_admissible_partial
#print axioms valueInv_holds
#print axioms exactShape_partial
#print axioms tabOk_tabOf
#print axioms bestRemL_eq_on_exact_partial
#print axioms dp_exact_partial
#print axioms spec_eq_specBestExt_proved
#print axioms rub_hStar
#print axioms rub_admissible_partial
#print axioms rub_admissible_false
#print axioms rub_admissible_late_false
#print axioms rub_bestRemL_fails_merged
#print axioms wfRel
#print axioms noClampDom_false
#print axioms root_exact
#print axioms tsptw_relaxed_ub_partial

end Ddo.Examples.TsptwModel
