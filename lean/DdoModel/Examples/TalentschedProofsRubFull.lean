import DdoModel.Examples.TalentschedProofsAdm
/-! **`RubAdmissibleStmt` of the talentsched model is a theorem** (`rubAdmissibleStmt`), for EVERY valid state (exact or merged,
    anybody or nobody on location), and in the stronger form `rubAdmissible_inv` (every state with `Inv`: no more mandatory
    scenes than positions left, the two sets disjoint), which is the one clause `wfRel_of_rubAdmissible` was missing:
    `talentsched_wfRel`.
    The pieces: `rub?_eq` (the value of `rubQ?` in terms of the named parts `denOf`, `neg2Of`, `keyOf`, `sortedOf`, `posOf` of the
    code), `rubScenes_eq` (the scenes the bound looks at), `den_spec` (the common denominator is positive and a multiple of every
    `T_j`), `sortedOf_spec` (the insertion sort sorts by key and permutes), `posOf_eq` (the second loop is `posK`), `keyOf_eq` /
    `neg2Of_eq` (the sums over the scenes do not depend on their order: they may be taken along the run), and then
    `bestRemF_run` + `runCost_le_G` (the value-to-go is the pay of a run, at least `G`), `posK_smith` (the sorted order is
    cheapest) and `smith_le_G`. -/
namespace Ddo.Examples.TalentschedModel
open Ddo Ddo.Examples Ddo.Examples.Util Ddo.SpecUtil

/-! ### the parts of `rubQ?` -/

def denOf (sc : List (Int × Int × Int × Nat)) : Int := sc.foldl (fun d e => d * e.2.1) 1
def neg2Of (sc : List (Int × Int × Int × Nat)) (den : Int) : Int :=
  sum (sc.map fun e => e.1 * (e.2.1 * den + e.2.2.1 * (den / e.2.1)))
def keyOf (sc : List (Int × Int × Int × Nat)) (den : Int) (a : Nat) : Int :=
  sum (sc.map fun e => if e.2.2.2.testBit a then e.1 * (den / e.2.1) else 0)
def sortedOf (k : Nat) (key : Nat → Int) : List (Int × Nat) :=
  (List.range k).foldl (fun l a => insertKey (key a, a) l) []
def posOf (T : Tab) (p : Nat) (sorted : List (Int × Nat)) : Int :=
  (sorted.foldl (fun (acc : Int × Int) ka =>
    if p.testBit ka.2 then
      let sumE := acc.1 + ka.1 * costA T ka.2
      (sumE, acc.2 + costA T ka.2 * sumE)
    else acc) (0, 0)).2

theorem rub?_eq (T : Tab) (s : St) (hs : s.scenes >>> T.n = 0)
    (hany : (rubScenes T s).any (fun e => e.2.1 = 0) = false) :
    rub? T s = some (-(ceilDiv
      (1000000 * (2 * posOf T (present T s) (sortedOf T.k (keyOf (rubScenes T s) (denOf (rubScenes T s)))) -
        neg2Of (rubScenes T s) (denOf (rubScenes T s))) - 2 * denOf (rubScenes T s))
      (2 * denOf (rubScenes T s) * 1000000))) := by
  unfold rub? rubQ?
  rw [if_neg (by simp [hs])]
  simp only [hany, Bool.false_eq_true, if_false]
  rfl

theorem rub?_some_range (T : Tab) (s : St) (r : Int) (h : rub? T s = some r) : s.scenes >>> T.n = 0 := by
  unfold rub? rubQ? at h
  by_cases hs : s.scenes >>> T.n = 0
  · exact hs
  · rw [if_pos hs] at h
    cases h

theorem lt_of_shiftRight_eq_zero {m n j : Nat} (h : m >>> n = 0) (hj : m.testBit j = true) : j < n := by
  apply Classical.byContradiction
  intro hge
  have := Nat.testBit_shiftRight (i := n) (j := j - n) m
  rw [h, show n + (j - n) = j by omega, hj] at this
  simp at this

/-! ### the scenes the bound looks at -/

def recOf (T : Tab) (P j : Nat) : Int × Int × Int × Nat := (durS T j, tjOf T P j, qjOf T P j, pjOf T P j)

/-- in increasing order -/
def relL (T : Tab) (P Q0 : Nat) : List Nat := (bits Q0).filter fun j => pjOf T P j != 0

theorem filterMap_ite {α β : Type} (c : α → Prop) [DecidablePred c] (f : α → β) : ∀ l : List α,
    l.filterMap (fun j => if c j then none else some (f j)) = (l.filter fun j => !decide (c j)).map f := by
  intro l
  induction l with
  | nil => rfl
  | cons x l ih =>
    by_cases h : c x
    · simp [h, ih]
    · simp [h, ih]

theorem rubScenes_eq (T : Tab) (s : St) : rubScenes T s = (relL T (present T s) s.scenes).map (recOf T (present T s)) := by
  unfold rubScenes relL
  have := filterMap_ite (fun j => pjOf T (present T s) j = 0) (recOf T (present T s)) (bits s.scenes)
  have e : (fun j => !decide (pjOf T (present T s) j = 0)) = fun j => pjOf T (present T s) j != 0 := by
    funext j
    by_cases h : pjOf T (present T s) j = 0 <;> simp [h]
  rw [e] at this
  rw [← this]
  rfl

theorem mem_relL (T : Tab) (P Q0 j : Nat) : j ∈ relL T P Q0 ↔ j < 64 ∧ relS T P Q0 j = true := by
  unfold relL relS
  rw [List.mem_filter, mem_bits]
  simp only [Bool.and_eq_true]
  exact ⟨fun ⟨⟨a, b⟩, c⟩ => ⟨a, b, c⟩, fun ⟨a, b, c⟩ => ⟨⟨a, b⟩, c⟩⟩

/-! ### the common denominator -/

theorem den_spec : ∀ (sc : List (Int × Int × Int × Nat)) (init : Int), 0 < init → (∀ e ∈ sc, 0 < e.2.1) →
    0 < sc.foldl (fun d e => d * e.2.1) init ∧ init ∣ sc.foldl (fun d e => d * e.2.1) init ∧
      ∀ e ∈ sc, e.2.1 ∣ sc.foldl (fun d e => d * e.2.1) init := by
  intro sc
  induction sc with
  | nil => intro init h _; exact ⟨h, Int.dvd_refl _, fun e he => by cases he⟩
  | cons x sc ih =>
    intro init h hp
    have hx := hp x List.mem_cons_self
    obtain ⟨h1, h2, h3⟩ := ih (init * x.2.1) (Int.mul_pos h hx) fun e he => hp e (List.mem_cons_of_mem _ he)
    rw [List.foldl_cons]
    refine ⟨h1, Int.dvd_trans (Int.dvd_mul_right _ _) h2, fun e he => ?_⟩
    rcases List.mem_cons.mp he with rfl | he
    · exact Int.dvd_trans (Int.dvd_mul_left _ _) h2
    · exact h3 e he

theorem sumRange_ge_term {n : Nat} {f : Nat → Int} (h : ∀ i, i < n → 0 ≤ f i) {a : Nat} (ha : a < n) : f a ≤ sumRange n f := by
  induction n with
  | zero => omega
  | succ n ih =>
    rw [sumRange_succ]
    have h0 := sumRange_nonneg (f := f) (n := n) fun i hi => h i (by omega)
    by_cases e : a = n
    · subst e; omega
    · have := ih (fun i hi => h i (by omega)) (by omega)
      have := h n (by omega)
      omega

/-- somebody of `P` plays in the scene: `T_j ≥ 1` -/
theorem tjOf_pos {T : Tab} (hT : TabOk T) (P : Nat) {j : Nat} (hj : j < T.n) (hne : pjOf T P j ≠ 0) : 0 < tjOf T P j := by
  obtain ⟨a, ha⟩ := Nat.exists_testBit_of_ne_zero hne
  have ha' := ha
  rw [testBit_pjOf, Bool.and_eq_true, testBit_actS hT hj] at ha'
  have hak : a < T.k := by
    apply Classical.byContradiction
    intro hge
    rw [P_false_of_ge hT (by omega) j] at ha'
    exact absurd ha'.1 (by simp)
  have h64 : a < 64 := by have := hT.npos.2.2; omega
  have hca : 1 ≤ costA T a := by
    unfold costA
    rw [List.getD_eq_getElem?_getD, List.getElem?_eq_getElem (by rw [hT.cost.1]; exact hak)]
    exact hT.cost.2 _ (List.getElem_mem _)
  rw [tjOf, sum_bits_eq]
  have hn := hT.nonNeg
  have := sumRange_ge_term (n := 64) (f := fun a => if (pjOf T P j).testBit a then costA T a else 0)
    (fun i _ => by
      show 0 ≤ (if (pjOf T P j).testBit i then costA T i else 0)
      split
      · exact hn.cost i
      · exact Int.le_refl _) h64
  simp only [ha, if_true] at this
  omega

/-! ### the insertion sort -/

theorem insertKey_perm (x : Int × Nat) : ∀ l, (insertKey x l).Perm (x :: l) := by
  intro l
  induction l with
  | nil => exact List.Perm.refl _
  | cons y ys ih =>
    rw [insertKey]
    split
    · exact List.Perm.refl _
    · exact (List.Perm.cons y ih).trans (List.Perm.swap x y ys)

theorem insertKey_sorted (x : Int × Nat) : ∀ l, l.Pairwise (fun a b => a.1 ≤ b.1) →
    (insertKey x l).Pairwise (fun a b => a.1 ≤ b.1) := by
  intro l
  induction l with
  | nil => intro _; simp [insertKey]
  | cons y ys ih =>
    intro h
    have h' := List.pairwise_cons.mp h
    rw [insertKey]
    split
    · rename_i hc
      refine List.pairwise_cons.mpr ⟨fun z hz => ?_, h⟩
      have hxy : x.1 ≤ y.1 := by omega
      rcases List.mem_cons.mp hz with rfl | hz
      · exact hxy
      · exact Int.le_trans hxy (h'.1 z hz)
    · rename_i hc
      refine List.pairwise_cons.mpr ⟨fun z hz => ?_, ih h'.2⟩
      rcases List.mem_cons.mp ((insertKey_perm x ys).mem_iff.mp hz) with rfl | hz
      · omega
      · exact h'.1 z hz

theorem sortedOf_aux (key : Nat → Int) : ∀ (as : List Nat) (l0 : List (Int × Nat)), l0.Pairwise (fun a b => a.1 ≤ b.1) →
    (as.foldl (fun l a => insertKey (key a, a) l) l0).Perm (as.map (fun a => (key a, a)) ++ l0) ∧
    (as.foldl (fun l a => insertKey (key a, a) l) l0).Pairwise (fun a b => a.1 ≤ b.1) := by
  intro as
  induction as with
  | nil => intro l0 h; exact ⟨List.Perm.refl _, h⟩
  | cons a as ih =>
    intro l0 h
    obtain ⟨h1, h2⟩ := ih (insertKey (key a, a) l0) (insertKey_sorted _ l0 h)
    refine ⟨?_, h2⟩
    rw [List.foldl_cons, List.map_cons, List.cons_append]
    exact (h1.trans (List.Perm.append_left _ (insertKey_perm _ l0))).trans List.perm_middle

/-- the sorted list: the actors `0 … k-1` with their keys, by increasing key -/
theorem sortedOf_spec (k : Nat) (key : Nat → Int) :
    ((sortedOf k key).map (·.2)).Perm (List.range k) ∧ (∀ x ∈ sortedOf k key, x.1 = key x.2) ∧
    ((sortedOf k key).map (·.2)).Pairwise (fun a b => key a ≤ key b) := by
  obtain ⟨h1, h2⟩ := sortedOf_aux key (List.range k) [] List.Pairwise.nil
  rw [List.append_nil] at h1
  have hmem : ∀ x ∈ sortedOf k key, x.1 = key x.2 := by
    intro x hx
    obtain ⟨a, _, rfl⟩ := List.mem_map.mp (h1.mem_iff.mp hx)
    rfl
  refine ⟨?_, hmem, ?_⟩
  · have := h1.map (·.2)
    rw [List.map_map] at this
    have e : ((fun x : Int × Nat => x.2) ∘ fun a => (key a, a)) = id := rfl
    rw [e, List.map_id] at this
    exact this
  · rw [List.pairwise_map]
    refine List.Pairwise.imp_of_mem ?_ h2
    intro a b ha hb hab
    rw [← hmem a ha, ← hmem b hb]
    exact hab

/-- the second loop of the code is `posK` over the present actors in sorted order -/
theorem posOf_aux (T : Tab) (p : Nat) (key : Nat → Int) : ∀ (l : List (Int × Nat)) (acc : Int × Int), (∀ x ∈ l, x.1 = key x.2) →
    (l.foldl (fun (acc : Int × Int) ka =>
      if p.testBit ka.2 then
        let sumE := acc.1 + ka.1 * costA T ka.2
        (sumE, acc.2 + costA T ka.2 * sumE)
      else acc) acc).2 = acc.2 + posK key (costA T) acc.1 ((l.map (·.2)).filter fun a => p.testBit a) := by
  intro l
  induction l with
  | nil => intro acc _; simp [posK]
  | cons x l ih =>
    intro acc h
    rw [List.foldl_cons, ih _ fun y hy => h y (List.mem_cons_of_mem _ hy)]
    rw [List.map_cons, List.filter_cons]
    by_cases hp : p.testBit x.2 = true
    · simp only [hp, if_true]
      rw [posK_cons, h x List.mem_cons_self]
      omega
    · simp only [hp]
      simp

theorem posOf_eq (T : Tab) (p k : Nat) (key : Nat → Int) :
    posOf T p (sortedOf k key) = posK key (costA T) 0 (((sortedOf k key).map (·.2)).filter fun a => p.testBit a) := by
  unfold posOf
  rw [posOf_aux T p key _ _ (sortedOf_spec k key).2.1]
  simp

/-! ### sums over the scenes, along the run -/

theorem relL_perm (T : Tab) (P Q0 : Nat) {q : List Nat} (hnd : q.Nodup) (hcov : ∀ j, j < 64 → Q0.testBit j = true → j ∈ q)
    (h64 : ∀ j, Q0.testBit j = true → j < 64) : (relL T P Q0).Perm (q.filter (relS T P Q0)) := by
  have hnd1 : (relL T P Q0).Nodup := (isOrder_bits Q0).nodup.filter _
  rw [List.perm_ext_iff_of_nodup hnd1 (hnd.filter _)]
  intro j
  rw [mem_relL, List.mem_filter]
  constructor
  · intro ⟨h1, h2⟩
    refine ⟨hcov j h1 ?_, h2⟩
    simp only [relS, Bool.and_eq_true] at h2
    exact h2.1
  · intro ⟨_, h2⟩
    refine ⟨h64 j ?_, h2⟩
    simp only [relS, Bool.and_eq_true] at h2
    exact h2.1

theorem sum_relL (T : Tab) (P Q0 : Nat) {q : List Nat} (hp : (relL T P Q0).Perm (q.filter (relS T P Q0))) (f : Nat → Int) :
    ((relL T P Q0).map f).sum = (q.map fun j => if relS T P Q0 j then f j else 0).sum := by
  rw [perm_sum_eq (hp.map f), sum_map_filter]

theorem keyOf_eq (T : Tab) (P Q0 : Nat) (den : Int) {q : List Nat} (hp : (relL T P Q0).Perm (q.filter (relS T P Q0))) (a : Nat) :
    keyOf ((relL T P Q0).map (recOf T P)) den a = Kq T P Q0 den q a := by
  unfold keyOf Kq
  rw [sum_eq, List.map_map, ← sum_relL T P Q0 hp]
  rfl

theorem neg2Of_eq (T : Tab) (P Q0 : Nat) (den : Int) {q : List Nat} (hp : (relL T P Q0).Perm (q.filter (relS T P Q0))) :
    neg2Of ((relL T P Q0).map (recOf T P)) den = Nq T P Q0 den q := by
  unfold neg2Of Nq
  rw [sum_eq, List.map_map, ← sum_relL T P Q0 hp]
  rfl

/-! ### the theorem -/

/-- the actors on location play in a scene below `k`… -/
theorem present_lt_k {T : Tab} (hT : TabOk T) (s : St) {a : Nat} (ha : (present T s).testBit a = true) : a < T.k := by
  obtain ⟨⟨i, hi, _, _, hA⟩, _⟩ := (testBit_present T s a).mp ha
  rw [testBit_actS hT hi] at hA
  apply Classical.byContradiction
  intro hge
  rw [P_false_of_ge hT (by omega) i] at hA
  cases hA

/-- **the rough upper bound is admissible on every state with `Inv`** (exact or merged) -/
theorem rubAdmissible_inv (T : Tab) (hT : TabOk T) (d : Nat) (s : St) (r : Int) (hi : Inv T d s) (hr : rub? T s = some r) :
    bestRem T d s ≤ (some r : EInt) := by
  cases hb : bestRem T d s with
  | none => exact EInt.none_le _
  | some h =>
    show h ≤ r
    have hn := hT.nonNeg
    have hs := rub?_some_range T s r hr
    have hQ : ∀ j, s.scenes.testBit j = true → j < T.n := fun j hj => lt_of_shiftRight_eq_zero hs hj
    have hn64 := hT.npos.2.1
    -- a run attains the value-to-go
    obtain ⟨q, hl, hrun, he⟩ := bestRemF_run T _ d s h hb
    have hroom := hi.room
    have hlen : q.length + d = T.n := by omega
    have hnd := run_nodup T q s d hrun
    have hcov := run_covers T q s d hrun hi hlen
    have hG := runCost_le_G T hn (present T s) s.scenes hQ q s d hrun hi (seenIn_present T s) (fun _ _ h => h)
    -- the scenes of the bound
    have hperm := relL_perm T (present T s) s.scenes hnd hcov (fun j hj => by have := hQ j hj; omega)
    have hsc := rubScenes_eq T s
    have hTpos : ∀ e ∈ rubScenes T s, 0 < e.2.1 := by
      intro e he
      rw [hsc] at he
      obtain ⟨j, hj, rfl⟩ := List.mem_map.mp he
      have hj' := (mem_relL _ _ _ _).mp hj
      simp only [relS, Bool.and_eq_true, bne_iff_ne, ne_eq] at hj'
      exact tjOf_pos hT _ (hQ j hj'.2.1) hj'.2.2
    have hany : (rubScenes T s).any (fun e => e.2.1 = 0) = false := by
      rw [List.any_eq_false]
      intro e he
      have := hTpos e he
      simp only [decide_eq_true_eq]
      omega
    obtain ⟨hden, _, hdvd⟩ := den_spec (rubScenes T s) 1 (by omega) hTpos
    have hr' := rub?_eq T s hs hany
    rw [hr] at hr'
    cases hr'
    -- name the parts
    have hdenE : denOf (rubScenes T s) = (rubScenes T s).foldl (fun d e => d * e.2.1) 1 := rfl
    rw [← hdenE] at hden hdvd
    generalize hdenG : denOf (rubScenes T s) = den at hden hdvd ⊢
    have hkey : ∀ a, keyOf (rubScenes T s) den a = Kq T (present T s) s.scenes den q a := by
      intro a; rw [hsc]; exact keyOf_eq T _ _ den hperm a
    have hneg : neg2Of (rubScenes T s) den = Nq T (present T s) s.scenes den q := by
      rw [hsc]; exact neg2Of_eq T _ _ den hperm
    -- Smith's rule: the sorted order is cheapest
    obtain ⟨hsp, _, hss⟩ := sortedOf_spec T.k (keyOf (rubScenes T s) den)
    have hpiperm : (piL T (present T s) s.scenes q).Perm
        (((sortedOf T.k (keyOf (rubScenes T s) den)).map (·.2)).filter fun a => (present T s).testBit a) := by
      rw [List.perm_ext_iff_of_nodup (nodup_piL _ _ _ _) ((hsp.nodup_iff.mpr List.nodup_range).filter _)]
      intro a
      rw [mem_piL, List.mem_filter, hsp.mem_iff, List.mem_range]
      constructor
      · intro ⟨_, hu⟩
        simp only [inU, Bool.and_eq_true] at hu
        exact ⟨present_lt_k hT s hu.1, hu.1⟩
      · intro ⟨hk, hp⟩
        have hk64 := hT.npos.2.2
        refine ⟨by omega, ?_⟩
        simp only [inU, hp, Bool.true_and, later, List.any_eq_true, Bool.and_eq_true]
        obtain ⟨_, ⟨i, hin, _, hS, hA⟩⟩ := (testBit_present T s a).mp hp
        exact ⟨i, hcov i (by omega) hS, hS, hA⟩
    have hsmith := posK_smith (keyOf (rubScenes T s) den) (costA T) hn.cost 0
      (hss.filter fun a => (present T s).testBit a) hpiperm
    rw [← posOf_eq] at hsmith
    rw [posK_congr (c := costA T) _ 0 (fun a _ => hkey a)] at hsmith
    -- the bound along the run
    have hmain := smith_le_G T hn (present T s) s.scenes den (Int.le_of_lt hden) q (fun j hj hrel => by
      have hjr : j ∈ relL T (present T s) s.scenes := hperm.mem_iff.mpr (List.mem_filter.mpr ⟨hj, hrel⟩)
      have : recOf T (present T s) j ∈ rubScenes T s := by rw [hsc]; exact List.mem_map_of_mem hjr
      exact Int.ediv_mul_cancel (hdvd _ this))
    rw [← hneg] at hmain
    -- arithmetic
    have hC : 2 * posOf T (present T s) (sortedOf T.k (keyOf (rubScenes T s) den)) - neg2Of (rubScenes T s) den ≤
        2 * den * (-h) := by
      have h1 : G T (present T s) s.scenes q ≤ -h := by omega
      have := Int.mul_le_mul_of_nonneg_left h1 (show (0 : Int) ≤ 2 * den by omega)
      omega
    revert hC
    generalize 2 * posOf T (present T s) (sortedOf T.k (keyOf (rubScenes T s) den)) - neg2Of (rubScenes T s) den = A
    intro hC
    unfold ceilDiv
    have hm : (0 : Int) < 2 * den * 1000000 := by omega
    have : (-(-h)) ≤ (-(1000000 * A - 2 * den)) / (2 * den * 1000000) := by
      rw [Int.le_ediv_iff_mul_le hm]
      have e : - -h * (2 * den * 1000000) = -(1000000 * (2 * den * (-h))) := by grind
      rw [e]
      omega
    omega

/-- **`RubAdmissibleStmt` is a theorem** -/
theorem rubAdmissibleStmt (T : Tab) : RubAdmissibleStmt T :=
  fun hT d s r hv hr => rubAdmissible_inv T hT d s r (inv_of_valid hv) hr

/-- **the talentsched model (repaired merge) is well formed** relative to `Inv`: every clause of `WfRel` -/
theorem talentsched_wfRel (T : Tab) (hT : TabOk T) : WfRel (problem T) (relaxation T) (bestRem T) (Inv T) :=
  wfRel_of_rubAdmissible T hT fun d s r hi hr => rubAdmissible_inv T hT d s r hi hr

end Ddo.Examples.TalentschedModel

section
open Ddo.Examples.TalentschedModel
#print axioms rubAdmissible_inv
#print axioms rubAdmissibleStmt
#print axioms talentsched_wfRel
end
