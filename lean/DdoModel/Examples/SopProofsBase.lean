import DdoModel.Examples.SopModel
/-! Base of the proofs about the sop model (`SopDp.lean`): a small library on bit masks (`bits`, `card`, `diff`, `single`,
    `ofList`), the table predicate `TabOk` (a table as the reader / `Sop::new` build it, `tabOk_tabOf`), the state invariant
    `Inv` (the part of `validB` the DP functions rely on; closed under the transitions of the domain), the exact states a
    state stands for as a predicate (`Conc`, `mem_concretize_iff`), and the characterisation of the model functions
    (`dist?`, `minDist?`, `canSchedule?`, `domain`, `trans?`, `cost?`, `bestRemF`) on such tables and states. -/
namespace Ddo.Examples.SopModel
open Ddo Ddo.Examples Ddo.Examples.Util

-- ------------------------------------------------------------------------------------------------------------------
-- bit masks

theorem testBit_single (x y : Nat) : (single x).testBit y = decide (x = y) := by
  unfold single
  rw [Nat.one_shiftLeft, Nat.testBit_two_pow]

theorem testBit_diff (a b x : Nat) : (diff a b).testBit x = (a.testBit x && !b.testBit x) := by
  unfold diff
  rw [Nat.testBit_xor, Nat.testBit_and]
  cases a.testBit x <;> cases b.testBit x <;> rfl

theorem testBit_false_of_lt {m x : Nat} (h : m < 2 ^ x) : m.testBit x = false := Nat.testBit_lt_two_pow h

theorem testBit_false_above (m x : Nat) (h : m.log2 + 1 ≤ x) : m.testBit x = false := by
  apply Nat.testBit_lt_two_pow
  exact Nat.lt_of_lt_of_le Nat.lt_log2_self (Nat.pow_le_pow_right (by omega) h)

theorem mem_bits {m x : Nat} : x ∈ bits m ↔ m.testBit x = true := by
  unfold bits
  rw [List.mem_filter, List.mem_range]
  constructor
  · exact fun h => h.2
  · intro h
    refine ⟨?_, h⟩
    by_cases hx : m.log2 + 1 ≤ x
    · rw [testBit_false_above m x hx] at h; cases h
    · omega

theorem bits_pairwise (m : Nat) : (bits m).Pairwise (· < ·) := List.Pairwise.filter _ List.pairwise_lt_range

theorem bits_nodup (m : Nat) : (bits m).Nodup := List.Nodup.sublist List.filter_sublist List.nodup_range

theorem eq_zero_of_testBit {m : Nat} (h : ∀ x, m.testBit x = false) : m = 0 :=
  Nat.eq_of_testBit_eq (fun i => by rw [h i, Nat.zero_testBit])

theorem testBit_of_eq_zero {m : Nat} (h : m = 0) (x : Nat) : m.testBit x = false := by rw [h, Nat.zero_testBit]

theorem bits_zero : bits 0 = [] := by
  apply List.eq_nil_iff_forall_not_mem.mpr
  intro x hx
  rw [mem_bits, Nat.zero_testBit] at hx
  cases hx

/-- number of members below `N` -/
def cnt (N m : Nat) : Nat := (List.range N).countP m.testBit

theorem cnt_stable {m L : Nat} (h : ∀ x, L ≤ x → m.testBit x = false) : ∀ N, L ≤ N → cnt N m = cnt L m := by
  intro N hN
  induction N with
  | zero => have : L = 0 := by omega
            subst this; rfl
  | succ N ih =>
    by_cases hL : L = N + 1
    · subst hL; rfl
    · have hLN : L ≤ N := by omega
      unfold cnt at *
      rw [List.range_succ, List.countP_append, ih hLN]
      simp [h N hLN]

theorem card_eq_cnt {m N : Nat} (h : ∀ x, m.testBit x = true → x < N) : card m = cnt N m := by
  have h1 : card m = cnt (m.log2 + 1) m := by
    unfold card bits cnt
    rw [List.countP_eq_length_filter]
  have hN : ∀ x, N ≤ x → m.testBit x = false := by
    intro x hx
    cases hb : m.testBit x with
    | false => rfl
    | true => have := h x hb; omega
  rw [h1]
  by_cases hle : m.log2 + 1 ≤ N
  · exact (cnt_stable (testBit_false_above m) N hle).symm
  · exact cnt_stable hN _ (by omega)

theorem bound_log2 (m : Nat) : ∀ x, m.testBit x = true → x < m.log2 + 1 := by
  intro x hx
  by_cases h : m.log2 + 1 ≤ x
  · rw [testBit_false_above m x h] at hx; cases hx
  · omega

/-- a common bound for two masks -/
theorem bound2 (a b : Nat) : ∃ N, (∀ x, a.testBit x = true → x < N) ∧ (∀ x, b.testBit x = true → x < N) :=
  ⟨a.log2 + 1 + (b.log2 + 1), fun x hx => by have := bound_log2 a x hx; omega,
    fun x hx => by have := bound_log2 b x hx; omega⟩

theorem card_mono {a b : Nat} (h : ∀ x, a.testBit x = true → b.testBit x = true) : card a ≤ card b := by
  have hb := bound_log2 b
  rw [card_eq_cnt hb, card_eq_cnt (fun x hx => hb x (h x hx))]
  exact List.countP_mono_left (fun x _ hx => h x hx)

theorem countP_or_le (p q : Nat → Bool) : ∀ l : List Nat,
    l.countP (fun x => p x || q x) ≤ l.countP p + l.countP q := by
  intro l
  induction l with
  | nil => simp
  | cons x t ih =>
    simp only [List.countP_cons]
    cases p x <;> cases q x <;> simp <;> omega

theorem countP_or_disj (p q : Nat → Bool) : ∀ l : List Nat, (∀ x ∈ l, p x = true → q x = false) →
    l.countP (fun x => p x || q x) = l.countP p + l.countP q := by
  intro l
  induction l with
  | nil => simp
  | cons x t ih =>
    intro h
    have ih' := ih (fun y hy => h y (List.mem_cons_of_mem _ hy))
    have hx := h x (List.mem_cons_self)
    simp only [List.countP_cons]
    cases hp : p x <;> cases hq : q x <;> simp_all <;> omega

theorem testBit_or_fun (a b : Nat) : (a ||| b).testBit = fun x => a.testBit x || b.testBit x := by
  funext x; exact Nat.testBit_or a b x

theorem card_union_le (a b : Nat) : card (a ||| b) ≤ card a + card b := by
  obtain ⟨N, ha, hb⟩ := bound2 a b
  have hab : ∀ x, (a ||| b).testBit x = true → x < N := by
    intro x hx
    rw [Nat.testBit_or, Bool.or_eq_true] at hx
    rcases hx with hx | hx
    · exact ha x hx
    · exact hb x hx
  rw [card_eq_cnt ha, card_eq_cnt hb, card_eq_cnt hab]
  unfold cnt
  rw [testBit_or_fun]
  exact countP_or_le _ _ _

theorem card_union_disj {a b : Nat} (h : ∀ x, a.testBit x = true → b.testBit x = false) :
    card (a ||| b) = card a + card b := by
  obtain ⟨N, ha, hb⟩ := bound2 a b
  have hab : ∀ x, (a ||| b).testBit x = true → x < N := by
    intro x hx
    rw [Nat.testBit_or, Bool.or_eq_true] at hx
    rcases hx with hx | hx
    · exact ha x hx
    · exact hb x hx
  rw [card_eq_cnt ha, card_eq_cnt hb, card_eq_cnt hab]
  unfold cnt
  rw [testBit_or_fun]
  exact countP_or_disj _ _ _ (fun x _ hx => h x hx)

theorem card_zero : card 0 = 0 := by unfold card; rw [bits_zero]; rfl

theorem card_single (j : Nat) : card (single j) = 1 := by
  have hb : ∀ x, (single j).testBit x = true → x < j + 1 := by
    intro x hx
    rw [testBit_single] at hx
    have : j = x := by simpa using hx
    omega
  rw [card_eq_cnt hb]
  unfold cnt
  rw [List.range_succ, List.countP_append]
  have h0 : (List.range j).countP (single j).testBit = 0 := by
    rw [List.countP_eq_zero]
    intro x hx
    rw [List.mem_range] at hx
    rw [testBit_single]
    simp; omega
  rw [h0]
  simp [testBit_single]

/-- removing a member lowers the size by one -/
theorem card_diff_single {a j : Nat} (h : a.testBit j = true) : card (diff a (single j)) + 1 = card a := by
  have h1 : a = diff a (single j) ||| single j := by
    apply Nat.eq_of_testBit_eq
    intro x
    rw [Nat.testBit_or, testBit_diff, testBit_single]
    by_cases hx : j = x
    · subst hx; simp [h]
    · simp [hx]
  have h2 : card (diff a (single j) ||| single j) = card (diff a (single j)) + card (single j) := by
    apply card_union_disj
    intro x hx
    rw [testBit_diff, testBit_single] at hx
    rw [testBit_single]
    simp at hx ⊢
    exact hx.2
  rw [card_single] at h2
  rw [← h2, ← h1]

theorem card_diff_single_ge (a j : Nat) : card a ≤ card (diff a (single j)) + 1 := by
  cases h : a.testBit j with
  | true => rw [card_diff_single h]; exact Nat.le_refl _
  | false =>
    have : diff a (single j) = a := by
      apply Nat.eq_of_testBit_eq
      intro x
      rw [testBit_diff, testBit_single]
      by_cases hx : j = x
      · subst hx; simp [h]
      · simp [hx]
    rw [this]; omega

theorem card_diff_le (a b : Nat) : card (diff a b) ≤ card a :=
  card_mono (fun x hx => by rw [testBit_diff] at hx; simp at hx; exact hx.1)

theorem testBit_ofList_aux (xs : List Nat) : ∀ (m x : Nat),
    (xs.foldl (fun m x => m ||| single x) m).testBit x = (m.testBit x || decide (x ∈ xs)) := by
  induction xs with
  | nil => intro m x; simp
  | cons y t ih =>
    intro m x
    simp only [List.foldl_cons]
    rw [ih, Nat.testBit_or, testBit_single]
    by_cases h : y = x
    · subst h; simp
    · have : ¬ x = y := fun e => h e.symm
      simp [h, this]

theorem testBit_ofList (xs : List Nat) (x : Nat) : (ofList xs).testBit x = decide (x ∈ xs) := by
  unfold ofList
  rw [testBit_ofList_aux]
  simp

/-- a mask is the set of its members -/
theorem ofList_bits (m : Nat) : ofList (bits m) = m := by
  apply Nat.eq_of_testBit_eq
  intro x
  rw [testBit_ofList]
  cases h : m.testBit x with
  | true => simp [mem_bits, h]
  | false => simp [mem_bits, h]

/-- the size of the set of a duplicate-free list -/
theorem card_ofList : ∀ (xs : List Nat), xs.Nodup → card (ofList xs) = xs.length := by
  intro xs
  induction xs with
  | nil => intro _; show card 0 = 0; exact card_zero
  | cons y t ih =>
    intro h
    have hy : y ∉ t := (List.nodup_cons.mp h).1
    have ht := ih (List.nodup_cons.mp h).2
    have e : ofList (y :: t) = ofList t ||| single y := by
      apply Nat.eq_of_testBit_eq
      intro x
      rw [Nat.testBit_or, testBit_ofList, testBit_ofList, testBit_single]
      by_cases hx : y = x
      · subst hx; simp
      · have : ¬ x = y := fun e => hx e.symm
        simp [hx, this]
    rw [e, card_union_disj, ht, card_single, List.length_cons]
    intro x hx
    rw [testBit_ofList] at hx
    rw [testBit_single]
    have hx' : x ∈ t := by simpa using hx
    simp
    intro e; subst e; exact hy hx'

theorem card_eq_length_bits (m : Nat) : card m = (bits m).length := rfl

/-- the jobs `1 … n-1` -/
def allJobs (n : Nat) : Nat := ofList ((List.range n).drop 1)

theorem testBit_allJobs (n x : Nat) : (allJobs n).testBit x = decide (0 < x ∧ x < n) := by
  unfold allJobs
  rw [testBit_ofList]
  cases n with
  | zero => simp
  | succ n =>
    rw [List.range_succ_eq_map]
    simp only [List.drop_succ_cons, List.drop_zero, List.mem_map, List.mem_range]
    apply decide_eq_decide.mpr
    constructor
    · rintro ⟨a, ha, rfl⟩; omega
    · intro h; exact ⟨x - 1, by omega, by omega⟩

-- ------------------------------------------------------------------------------------------------------------------
-- tables

/-- `predecessors[j]` (the empty set out of range) -/
def predOf (T : Tab) (j : Nat) : Nat := T.pred.getD j 0

/-- a table as the reader and `Sop::new` build it from a square matrix of `isize` entries `≥ -1`, at most 256 jobs -/
structure TabOk (T : Tab) : Prop where
  n_pos : 1 ≤ T.n
  n_le : T.n ≤ 256
  dist : ∀ i j, i < T.n → j < T.n → dist? T i j = some (dfun T i j)
  d_ge : ∀ i j, i < T.n → j < T.n → -1 ≤ dfun T i j
  d_le : ∀ i j, i < T.n → j < T.n → dfun T i j ≤ imax
  pred_some : ∀ j, j < T.n → T.pred[j]? = some (predOf T j)
  pred_spec : ∀ j x, j < T.n → ((predOf T j).testBit x = true ↔ (x < T.n ∧ dfun T j x = -1))
  cheap : ∀ i, i < T.n → T.cheap[i]? = some (cheapOf T.n T.d i)

/-- the precedence marks of the format (TSPLIB): every job before the last one, job 0 before every job; distances out of
    job 0 and into the last job -/
structure DomOk (T : Tab) : Prop where
  last_row : ∀ j, j < T.n - 1 → dfun T (T.n - 1) j = -1
  first_col : ∀ i, 0 < i → i < T.n → dfun T i 0 = -1
  first_row : ∀ j, 0 < j → j < T.n → 0 ≤ dfun T 0 j
  last_col : ∀ i, i < T.n - 1 → 0 ≤ dfun T i (T.n - 1)

-- ------------------------------------------------------------------------------------------------------------------
-- states

/-- the optional jobs of a state, as a mask -/
def mb (s : St) : Nat := s.maybe.getD 0

/-- is `p` one of the previous jobs of `s` -/
def isPrev (s : St) (p : Nat) : Prop :=
  match s.prev with
  | .job i => p = i
  | .virt c => c.testBit p = true

/-- the part of `validB` the DP functions rely on; closed under the transitions of the domain (`inv_trans`) -/
structure Inv (T : Tab) (s : St) : Prop where
  depth_le : s.depth ≤ nv T
  must_lt : ∀ x, s.must.testBit x = true → 0 < x ∧ x < T.n
  maybe_lt : ∀ x, (mb s).testBit x = true → 0 < x ∧ x < T.n
  disj : ∀ x, s.must.testBit x = true → (mb s).testBit x = false
  prev_lt : ∀ p, isPrev s p → p < T.n
  /-- at least as many jobs pending as positions left -/
  count : nv T - s.depth ≤ card s.must + card (mb s)

/-- `u` is one of the exact states the (merged) state `s` stands for: one of the previous jobs, all the mandatory jobs and
    as many of the optional ones as there are positions left (`mem_concretize_iff`) -/
structure Conc (T : Tab) (s u : St) : Prop where
  prev : ∃ p, u.prev = .job p ∧ isPrev s p ∧ u.must.testBit p = false
  maybe : u.maybe = none
  depth : u.depth = s.depth
  lo : ∀ x, s.must.testBit x = true → u.must.testBit x = true
  hi : ∀ x, u.must.testBit x = true → s.must.testBit x = true ∨ (mb s).testBit x = true
  card : card u.must = nv T - s.depth

end Ddo.Examples.SopModel
