import DdoModel.Examples.Max2satModel
/-! The tables `Max2Sat::new` builds from an instance (`Inst.weights`, `Inst.initial`, `Inst.tab` in `Max2satDp.lean`) and the
    clause map they are built from: `wOf_weights` (the `(2n)²` table read at `offset (a, b)` is the weight the clause map
    gives to the clause `{a, b}`: `offset` is injective on the canonical pairs of valid literals), the keys of the clause map
    (`cmap_keys_nodup`, `cmap_key_ok`), and `tabOkOfInst : TabOkOfInst I` (the hypotheses `TabOk` of `rub_admissible` /
    `merge_ok` hold for the table built from any instance with valid literals). -/
namespace Ddo.Examples.Max2satModel
open Ddo Ddo.Examples Ddo.Examples.Util Ddo.SpecUtil

/-- a literal of an instance with `n` variables -/
def LitOk (n : Nat) (x : Int) : Prop := x ≠ 0 ∧ x.natAbs ≤ n

/-- the literals of the clauses are valid (the hypothesis of `DpExactStmt` / `TabOkOfInst`, folded) -/
def InstOk (I : Inst) : Prop := ∀ c ∈ I.clauses, LitOk I.n c.2.1 ∧ LitOk I.n c.2.2

theorem instOk_iff (I : Inst) :
    InstOk I ↔ ∀ c ∈ I.clauses, c.2.1 ≠ 0 ∧ c.2.1.natAbs ≤ I.n ∧ c.2.2 ≠ 0 ∧ c.2.2.natAbs ≤ I.n := by
  unfold InstOk LitOk
  constructor
  · intro h c hc; obtain ⟨⟨h1, h2⟩, h3, h4⟩ := h c hc; exact ⟨h1, h2, h3, h4⟩
  · intro h c hc; obtain ⟨h1, h2, h3, h4⟩ := h c hc; exact ⟨⟨h1, h2⟩, h3, h4⟩

/-- the weight the clause map gives to a key (`0` when absent) -/
def lookupC (m : CMap) (k : Int × Int) : Int := ((m.find? (fun e => e.1 == k)).map (·.2)).getD 0

/-- the keys after an insertion: unchanged if the key is there, else the new key comes last -/
theorem insertClause_keys (m : CMap) (k : Int × Int) (w : Int) :
    (insertClause m k w).map (·.1) = if k ∈ m.map (·.1) then m.map (·.1) else m.map (·.1) ++ [k] := by
  unfold insertClause
  by_cases hk : k ∈ m.map (·.1)
  · have hany : m.any (fun e => e.1 == k) = true := by
      obtain ⟨e, he, rfl⟩ := List.mem_map.1 hk
      exact List.any_eq_true.2 ⟨e, he, by simp⟩
    rw [if_pos hany, if_pos hk, List.map_map]
    apply List.map_congr_left
    intro e _
    by_cases h : e.1 = k
    · simp [h]
    · simp [h]
  · have hany : ¬ m.any (fun e => e.1 == k) = true := by
      intro h
      obtain ⟨e, he, hek⟩ := List.any_eq_true.1 h
      exact hk (List.mem_map.2 ⟨e, he, by simpa using hek⟩)
    rw [if_neg hany, if_neg hk]
    simp

theorem insertClause_nodup (m : CMap) (k : Int × Int) (w : Int) (h : (m.map (·.1)).Nodup) :
    ((insertClause m k w).map (·.1)).Nodup := by
  rw [insertClause_keys]
  split
  · exact h
  · rename_i hk
    rw [List.nodup_append]
    refine ⟨h, by simp, ?_⟩
    intro a ha b hb
    simp at hb
    subst hb
    intro hab; subst hab; exact hk ha

/-- a property of the keys that every inserted key has holds of every key of the result -/
theorem foldl_insert_inv (P : CMap → Prop) (f : (Int × Int × Int) → (Int × Int) × Int)
    (hstep : ∀ m c, P m → P (insertClause m (f c).1 (f c).2)) :
    ∀ (cs : List (Int × Int × Int)) (m : CMap), P m →
      P (cs.foldl (fun m c => insertClause m (f c).1 (f c).2) m) := by
  intro cs
  induction cs with
  | nil => intro m h; exact h
  | cons c cs ih => intro m h; exact ih _ (hstep m c h)

/-- the keys of the clause map are pairwise distinct (`insert` replaces) -/
theorem cmap_keys_nodup (I : Inst) : (I.cmap.map (·.1)).Nodup := by
  unfold Inst.cmap
  exact foldl_insert_inv (fun m => (m.map (·.1)).Nodup) (fun c => ((min c.2.1 c.2.2, max c.2.1 c.2.2), c.1))
    (fun m c h => insertClause_nodup m _ _ h) I.clauses [] (by simp)

theorem insertClause_mem_key (m : CMap) (k : Int × Int) (w : Int) (e : (Int × Int) × Int)
    (he : e ∈ insertClause m k w) : e.1 = k ∨ e.1 ∈ m.map (·.1) := by
  have : e.1 ∈ (insertClause m k w).map (·.1) := List.mem_map.2 ⟨e, he, rfl⟩
  rw [insertClause_keys] at this
  split at this
  · exact Or.inr this
  · simp only [List.mem_append, List.mem_singleton] at this
    cases this with
    | inl h => exact Or.inr h
    | inr h => exact Or.inl h

theorem cmap_key_mem (cs : List (Int × Int × Int)) :
    ∀ m : CMap, ∀ e ∈ cs.foldl (fun m c => insertClause m (min c.2.1 c.2.2, max c.2.1 c.2.2) c.1) m,
      e.1 ∈ m.map (·.1) ∨ ∃ c ∈ cs, e.1 = (min c.2.1 c.2.2, max c.2.1 c.2.2) := by
  induction cs with
  | nil => intro m e he; exact Or.inl (List.mem_map.2 ⟨e, he, rfl⟩)
  | cons c cs ih =>
    intro m e he
    rw [List.foldl_cons] at he
    cases ih _ e he with
    | inl h =>
      obtain ⟨e', he', hk⟩ := List.mem_map.1 h
      cases insertClause_mem_key _ _ _ e' he' with
      | inl h' => exact Or.inr ⟨c, List.mem_cons_self .., by rw [← hk, h']⟩
      | inr h' => exact Or.inl (hk ▸ h')
    | inr h =>
      obtain ⟨c', hc', hk⟩ := h
      exact Or.inr ⟨c', List.mem_cons_of_mem _ hc', hk⟩

/-- the keys of the clause map are canonical pairs (`min`, `max`) of valid literals -/
theorem cmap_key_ok (I : Inst) (h : InstOk I) : ∀ e ∈ I.cmap, e.1.1 ≤ e.1.2 ∧ LitOk I.n e.1.1 ∧ LitOk I.n e.1.2 := by
  intro e he
  cases cmap_key_mem I.clauses [] e he with
  | inl h' => simp at h'
  | inr h' =>
    obtain ⟨c, hc, hk⟩ := h'
    obtain ⟨h1, h2⟩ := h c hc
    rw [hk]
    dsimp only
    unfold LitOk at *
    refine ⟨by omega, ?_, ?_⟩
    · rcases Int.le_total c.2.1 c.2.2 with hle | hle
      · rw [Int.min_eq_left hle]; exact h1
      · rw [Int.min_eq_right hle]; exact h2
    · rcases Int.le_total c.2.1 c.2.2 with hle | hle
      · rw [Int.max_eq_right hle]; exact h2
      · rw [Int.max_eq_left hle]; exact h1

theorem lookupC_nil (k : Int × Int) : lookupC [] k = 0 := rfl

theorem lookupC_cons (e : (Int × Int) × Int) (m : CMap) (k : Int × Int) :
    lookupC (e :: m) k = if e.1 = k then e.2 else lookupC m k := by
  unfold lookupC
  rw [List.find?_cons]
  by_cases h : e.1 = k
  · simp [h]
  · have h' : (e.1 == k) = false := by simpa using h
    simp [h', h]

theorem lookupC_absent (m : CMap) (k : Int × Int) (h : k ∉ m.map (·.1)) : lookupC m k = 0 := by
  unfold lookupC
  have : m.find? (fun e => e.1 == k) = none := by
    rw [List.find?_eq_none]
    intro e he hek
    exact h (List.mem_map.2 ⟨e, he, by simpa using hek⟩)
  rw [this]; rfl

/-- a table filled at pairwise distinct indices reads, at the index of a key, the value of this key -/
theorem foldl_set_getD (f : Int × Int → Nat) (k : Int × Int) :
    ∀ (m : CMap) (t0 : Array Int), (m.map (·.1)).Nodup → (∀ e ∈ m, f e.1 = f k → e.1 = k) → f k < t0.size →
      (m.foldl (fun t e => t.setIfInBounds (f e.1) e.2) t0).getD (f k) 0
        = if k ∈ m.map (·.1) then lookupC m k else t0.getD (f k) 0 := by
  intro m
  induction m with
  | nil => intro t0 _ _ _; simp
  | cons e m ih =>
    intro t0 hnd hinj hb
    rw [List.map_cons, List.nodup_cons] at hnd
    rw [List.foldl_cons, ih _ hnd.2 (fun e' he' => hinj e' (List.mem_cons_of_mem _ he'))
      (by rw [Array.size_setIfInBounds]; exact hb), lookupC_cons]
    by_cases hek : e.1 = k
    · have hk : k ∉ m.map (·.1) := hek ▸ hnd.1
      rw [if_neg hk, if_pos hek, if_pos (by rw [List.map_cons, ← hek]; exact List.mem_cons_self ..)]
      rw [Array.getD_eq_getD_getElem?, Array.getElem?_setIfInBounds, hek, if_pos rfl, if_pos hb]
      rfl
    · have hne : f e.1 ≠ f k := fun h => hek (hinj e (List.mem_cons_self ..) h)
      have hmem : (k ∈ (e :: m).map (·.1)) ↔ k ∈ m.map (·.1) := by
        rw [List.map_cons, List.mem_cons]
        constructor
        · rintro (h | h)
          · exact absurd h.symm hek
          · exact h
        · exact Or.inr
      rw [if_neg hek]
      have hget : (t0.setIfInBounds (f e.1) e.2).getD (f k) 0 = t0.getD (f k) 0 := by
        rw [Array.getD_eq_getD_getElem?, Array.getElem?_setIfInBounds, if_neg hne, ← Array.getD_eq_getD_getElem?]
      rw [hget]
      by_cases hk : k ∈ m.map (·.1)
      · rw [if_pos hk, if_pos (hmem.2 hk)]
      · rw [if_neg hk, if_neg (fun h => hk (hmem.1 h))]

theorem mkLit_lt {n : Nat} {x : Int} (h : LitOk n x) : mkLit x < 2 * n := by
  unfold LitOk at h; unfold mkLit
  split <;> omega

theorem mkLit_inj {x y : Int} (hx : x ≠ 0) (hy : y ≠ 0) (h : mkLit x = mkLit y) : x = y := by
  unfold mkLit at h
  split at h <;> split at h <;> omega

theorem pair_inj {N a b a' b' : Nat} (hb : b < N) (hb' : b' < N) (h : a * N + b = a' * N + b') :
    a = a' ∧ b = b' := by
  have h1 : b = b' := by
    have : (a * N + b) % N = (a' * N + b') % N := by rw [h]
    rw [Nat.add_comm, Nat.add_mul_mod_self_right, Nat.add_comm (a' * N), Nat.add_mul_mod_self_right,
      Nat.mod_eq_of_lt hb, Nat.mod_eq_of_lt hb'] at this
    exact this
  subst h1
  have h2 : a * N = a' * N := by omega
  exact ⟨Nat.eq_of_mul_eq_mul_right (by omega) h2, rfl⟩

theorem offset_le {n : Nat} {x y : Int} (h : x ≤ y) : offset n x y = mkLit x * (2 * n) + mkLit y := by
  unfold offset
  rw [Int.min_eq_left h, Int.max_eq_right h, Nat.mul_assoc]

theorem offset_minmax (n : Nat) (a b : Int) : offset n (min a b) (max a b) = offset n a b := by
  unfold offset
  have h1 : min (min a b) (max a b) = min a b := by omega
  have h2 : max (min a b) (max a b) = max a b := by omega
  rw [h1, h2]

theorem offset_lt {n : Nat} {x y : Int} (h : x ≤ y) (hx : LitOk n x) (hy : LitOk n y) :
    offset n x y < (2 * n) * (2 * n) := by
  rw [offset_le h]
  have h1 := mkLit_lt hx
  have h2 := mkLit_lt hy
  have h3 : (mkLit x + 1) * (2 * n) ≤ (2 * n) * (2 * n) := Nat.mul_le_mul_right _ h1
  rw [Nat.add_mul] at h3
  omega

theorem offset_inj {n : Nat} {x y x' y' : Int} (h : x ≤ y) (hx : LitOk n x) (hy : LitOk n y)
    (h' : x' ≤ y') (hx' : LitOk n x') (hy' : LitOk n y') (heq : offset n x y = offset n x' y') :
    x = x' ∧ y = y' := by
  rw [offset_le h, offset_le h'] at heq
  obtain ⟨h1, h2⟩ := pair_inj (mkLit_lt hy) (mkLit_lt hy') heq
  exact ⟨mkLit_inj hx.1 hx'.1 h1, mkLit_inj hy.1 hy'.1 h2⟩

theorem litOk_min {n : Nat} {a b : Int} (ha : LitOk n a) (hb : LitOk n b) : LitOk n (min a b) := by
  rcases Int.le_total a b with hle | hle
  · rw [Int.min_eq_left hle]; exact ha
  · rw [Int.min_eq_right hle]; exact hb

theorem litOk_max {n : Nat} {a b : Int} (ha : LitOk n a) (hb : LitOk n b) : LitOk n (max a b) := by
  rcases Int.le_total a b with hle | hle
  · rw [Int.max_eq_right hle]; exact hb
  · rw [Int.max_eq_left hle]; exact ha

/-- **the weight table read at `offset (a, b)` is the weight of the clause `{a, b}` in the clause map** -/
theorem wOf_weights (I : Inst) (h : InstOk I) (a b : Int) (ha : LitOk I.n a) (hb : LitOk I.n b) :
    wOf I.n I.weights a b = lookupC I.cmap (min a b, max a b) := by
  have hle : min a b ≤ max a b := by omega
  have hmin := litOk_min ha hb
  have hmax := litOk_max ha hb
  have key := foldl_set_getD (fun k => offset I.n k.1 k.2) (min a b, max a b) I.cmap
    (Array.replicate ((2 * I.n) * (2 * I.n)) 0) (cmap_keys_nodup I)
    (by
      intro e he heq
      obtain ⟨h1, h2, h3⟩ := cmap_key_ok I h e he
      obtain ⟨e1, e2⟩ := offset_inj h1 h2 h3 hle hmin hmax heq
      exact Prod.ext e1 e2)
    (by rw [Array.size_replicate]; exact offset_lt hle hmin hmax)
  unfold wOf Inst.weights
  rw [← offset_minmax]
  refine key.trans ?_
  split
  · rfl
  · rename_i hk
    rw [lookupC_absent _ _ hk, Array.getD_eq_getD_getElem?, Array.getElem?_replicate]
    split <;> rfl

theorem sum_map_zero {α : Type} (L : List α) : (L.map (fun _ => (0 : Int))).sum = 0 := by
  induction L with
  | nil => rfl
  | cons x xs ih => simp [ih]

/-- the sum of a function that vanishes outside one point -/
theorem sum_range_single (n v0 : Nat) (c : Int) :
    ((List.range n).map (fun v => if v = v0 then c else 0)).sum = if v0 < n then c else 0 := by
  induction n with
  | zero => simp
  | succ n ih =>
    rw [List.range_succ, List.map_append, List.sum_append, ih]
    simp only [List.map_cons, List.map_nil, List.sum_cons, List.sum_nil]
    by_cases h1 : v0 < n
    · rw [if_pos h1, if_neg (by omega), if_pos (by omega)]; omega
    · by_cases h2 : n = v0
      · rw [if_neg h1, if_pos h2, if_pos (by omega)]; omega
      · rw [if_neg h1, if_neg h2, if_neg (by omega)]; omega

/-- a canonical key of valid literals is the tautology of the variable `v` iff it is a tautology and `v` its variable -/
theorem key_taut_iff {n : Nat} {k : Int × Int} (hle : k.1 ≤ k.2) (h2 : LitOk n k.2) (v : Nat) :
    k = (fLit v, tLit v) ↔ (k.1 = - k.2 ∧ v = idx k.2) := by
  obtain ⟨x, y⟩ := k
  unfold LitOk at h2
  simp only [Prod.mk.injEq, fLit, tLit, idx] at *
  omega

theorem initial_fold (n : Nat) :
    ∀ (m : CMap) (s0 : Int), (m.map (·.1)).Nodup → (∀ e ∈ m, e.1.1 ≤ e.1.2 ∧ LitOk n e.1.1 ∧ LitOk n e.1.2) →
      m.foldl (fun s e => if e.1.1 = - e.1.2 then s + e.2 else s) s0
        = s0 + ((List.range n).map (fun v => lookupC m (fLit v, tLit v))).sum := by
  intro m
  induction m with
  | nil => intro s0 _ _; simp [lookupC_nil, sum_map_zero]
  | cons e m ih =>
    intro s0 hnd hok
    rw [List.map_cons, List.nodup_cons] at hnd
    obtain ⟨hle, _, h2⟩ := hok e (List.mem_cons_self ..)
    rw [List.foldl_cons, ih _ hnd.2 (fun e' he' => hok e' (List.mem_cons_of_mem _ he'))]
    have hpt : ∀ v ∈ List.range n, lookupC (e :: m) (fLit v, tLit v)
        = (if v = idx e.1.2 then (if e.1.1 = - e.1.2 then e.2 else 0) else 0) + lookupC m (fLit v, tLit v) := by
      intro v _
      rw [lookupC_cons]
      by_cases hk : e.1 = (fLit v, tLit v)
      · have := (key_taut_iff hle h2 v).1 hk
        rw [if_pos hk, if_pos this.2, if_pos this.1, lookupC_absent _ _ (hk ▸ hnd.1)]; omega
      · rw [if_neg hk]
        by_cases hv : v = idx e.1.2
        · have ht : ¬ e.1.1 = - e.1.2 := fun ht => hk ((key_taut_iff hle h2 v).2 ⟨ht, hv⟩)
          rw [if_pos hv, if_neg ht]; omega
        · rw [if_neg hv]; omega
    rw [List.map_congr_left hpt, sum_map_add, sum_range_single]
    have hlt : idx e.1.2 < n := by
      unfold LitOk at h2; unfold idx; omega
    rw [if_pos hlt]
    split <;> omega

/-- `Inst.initial` is the sum of the weights of the tautologies of the clause map -/
theorem initial_eq_lookup (I : Inst) (h : InstOk I) :
    I.initial = ((List.range I.n).map (fun v => lookupC I.cmap (fLit v, tLit v))).sum := by
  unfold Inst.initial
  rw [initial_fold I.n I.cmap 0 (cmap_keys_nodup I) (cmap_key_ok I h)]
  omega

theorem litOk_tLit {n v : Nat} (h : v < n) : LitOk n (tLit v) := by
  unfold LitOk tLit; omega

theorem litOk_fLit {n v : Nat} (h : v < n) : LitOk n (fLit v) := by
  unfold LitOk fLit; omega

/-- **the table built from an instance with valid literals meets the hypotheses of `rub_admissible` / `merge_ok`** -/
theorem tabOkOfInst (I : Inst) : TabOkOfInst I := by
  intro hperm hlit
  have hok : InstOk I := (instOk_iff I).2 hlit
  refine ⟨hperm, ?_, rfl, rfl⟩
  show I.initial = tautSum I.tab I.order
  unfold tautSum
  rw [perm_range_sum hperm, sumRange, initial_eq_lookup I hok]
  congr 1
  apply List.map_congr_left
  intro v hv
  have hv' : v < I.n := List.mem_range.1 hv
  show _ = wOf I.n I.weights (tLit v) (fLit v)
  rw [wOf_weights I hok _ _ (litOk_tLit hv') (litOk_fLit hv')]
  have h1 : min (tLit v) (fLit v) = fLit v := by unfold tLit fLit; omega
  have h2 : max (tLit v) (fLit v) = tLit v := by unfold tLit fLit; omega
  rw [h1, h2]

section Axioms
#print axioms tabOkOfInst
#print axioms wOf_weights
end Axioms

end Ddo.Examples.Max2satModel
