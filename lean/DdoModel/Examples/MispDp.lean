import DdoModel.Dp
import DdoModel.Examples.Misp
/-! The DP model, relaxation and ranking of the shipped misp example (`ddo/examples/misp/main.rs`) in Lean:
    definitions only (the driver engine `exmodel` compares them pointwise with the example's own code; the
    well-formedness theorems are in `MispModel.lean`).

Mirror of the Rust code.  A state is a `BitSet` of vertices `0 … n-1` (the vertices that may still be taken), modelled as
the **strictly increasing list** of its members (the harness prints states that way: what `BitSet::iter` yields).
* instance: `n` vertices, `weight[v]` (1 when the file has no `n` line for `v`: the reader's default, resolved by the
  harness), `edges` as the file lists them (0-based here; repetitions and both orientations allowed);
  `neighbors[v]` of the Rust code is the COMPLEMENT `{u < n | no edge u–v}` of the adjacency list (`nonNeighbors`; it
  contains `v` itself unless the file has a self-loop `e v v`);
* `initial_state` = `{0 … n-1}`, `initial_value` = 0;
* `transition(s, x := val)`: remove `x`; if `val = YES (1)` also intersect with `neighbors[x]`;
* `transition_cost` = `0` if `val = NO (0)`, else `weight[x]` (whatever the value);
* `for_each_in_domain(x, s)` calls back `[YES, NO]` if `x ∈ s`, else `[NO]`;
* `next_variable(_, layer)`: `heu[v]` = number of states of the layer that contain `v` (`v < n`); among the vertices
  with `heu[v] > 0` the one with the least count, the **first** such in index order (`Iterator::min_by_key` keeps the
  first minimum); `None` when no state of the layer contains a vertex (empty layer, or only empty states).  The
  depth is ignored.  [The counters live in a `thread_local` vector sized by the first instance the thread sees; the
  harness runs every instance in a thread of its own.]
* `is_impacted_by(x, s)` = `x ∈ s`;
* `merge` = union (of subsets of `{0 … n-1}`: `BitSet::with_capacity(n)` then `union_with`), `[]` ↦ `∅`;
  `relax` = the cost unchanged;
* `fast_upper_bound(s)` = `Σ_{v ∈ s} max(weight[v], 0)`;
* `MispRanking::compare(a, b)` = `a.len().cmp(b.len())` then `BitSet::cmp` = lexicographic comparison of the
  increasing member lists (`self.iter().cmp(other)` in bit-set 0.5.3). -/
namespace Ddo.Examples.MispModel
open Ddo Ddo.Examples Ddo.Examples.Util

structure Inst where
  n : Nat
  weight : List Int
  edges : List (Nat × Nat)

abbrev St := List Nat     -- the members, increasing

variable (I : Inst)

def Inst.w (v : Nat) : Int := (I.weight[v]?).getD 0

/-- some `e` line joins `u` and `v` (either orientation) -/
def Inst.adj (u v : Nat) : Bool := I.edges.any fun e => (e.1 == u && e.2 == v) || (e.1 == v && e.2 == u)

/-- the field `neighbors[v]` built by `read_instance`: the complement of the adjacency list of `v` -/
def Inst.nonNeighbors (v : Nat) : List Nat := (List.range I.n).filter fun u => !I.adj v u

/-- `transition` -/
def trans (s : St) (d : Dec) : St :=
  let r := s.filter (· != d.var)
  if d.val = 1 then r.filter (fun u => decide (u < I.n) && !I.adj d.var u) else r

/-- `heu[v]` of `next_variable`: the number of states of the layer that contain `v` -/
def occ (L : List St) (v : Nat) : Nat := (L.filter (·.contains v)).length

/-- `min_by_key(|(_, v)| *v)`: the first pair with the least second component -/
def firstMin : List (Nat × Nat) → Option (Nat × Nat)
  | [] => none
  | c :: r => some (r.foldl (fun best t => if t.2 < best.2 then t else best) c)

/-- `next_variable` -/
def nextVar (L : List St) : Option Nat :=
  (firstMin (((List.range I.n).map fun v => (v, occ L v)).filter fun p => decide (0 < p.2))).map (·.1)

def problem : Problem St :=
  { nbVars := I.n
    init := List.range I.n
    initVal := 0
    trans := trans I
    cost := fun _ _ d => if d.val = 0 then 0 else I.w d.var
    nextVar := fun _ L => nextVar I L
    domain := fun x s => if s.contains x then [1, 0] else [0]
    impacted := fun x s => s.contains x }

/-- `merge`: the union, as an increasing list -/
def mergeStates (X : List St) : St := (List.range I.n).filter fun v => X.any (·.contains v)

/-- `fast_upper_bound` -/
def rub (s : St) : Int := (s.map fun v => max (I.w v) 0).sum

def relaxation : Relax St :=
  { merge := mergeStates I
    relax := fun _ _ _ _ c => c
    rub := rub I }

/-- `Iterator::cmp` on the member lists -/
def lexCmp : List Nat → List Nat → Ordering
  | [], [] => .eq
  | [], _ :: _ => .lt
  | _ :: _, [] => .gt
  | a :: r, b :: t => (compare a b).then (lexCmp r t)

/-- `MispRanking::compare` -/
def rankCmp (a b : St) : Ordering := (compare a.length b.length).then (lexCmp a b)

/-! ### the potential (value-to-go) and layer validity used by `MispModel.lean` -/

/-- no edge of the instance has both end points in `T` (as `Misp.independent`, 0-based) -/
def indep (T : List Nat) : Bool := I.edges.all fun e => !(T.contains e.1 && T.contains e.2)

def wsum (T : List Nat) : Int := sum (T.map I.w)

/-- the weight of a maximum weight independent set within the vertices `s`: exhaustive enumeration of the sub-lists of
    `s` (as `Misp.best`; the empty set is independent: the default `0` is never used) -/
def mwis (s : List Nat) : Int :=
  (maxOf ((sublists s).filterMap fun T => if indep I T then some (wsum I T) else none)).getD 0

/-- value-to-go: what can still be collected among the vertices of the state (whatever the depth) -/
def H (_ : Nat) (s : St) : EInt := some (mwis I s)

/-- validity: a strictly increasing list of vertices of the graph (whatever the depth) -/
def V (_ : Nat) (s : St) : Prop := s.Pairwise (· < ·) ∧ ∀ v ∈ s, v < I.n

end Ddo.Examples.MispModel
