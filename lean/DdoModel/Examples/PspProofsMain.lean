import DdoModel.Examples.PspProofsExact
/-! The shipped psp example, summary.  `InstOk I`: an instance of the format (one row per item, non-negative costs, at most one
    unit of an item due per period); `StOk I s`: a state a compilation can build.

* `rubAdmissible : RubAdmissibleStmt I` (`PspProofsRub.lean`): the rough upper bound is admissible (the table of
  `ub_utils::all_mst` is no table of spanning trees, but a lower bound of every walk through the members all the same);
* `mergeOk_partial : I.T ≤ 2^63 → MergeOkStmt I` (`PspProofsMerge.lean`): under the triangle inequality the merged state is worth
  at least as much as every merged state; `mergeOk_fails_without_triangle`: not without it (finding D15);
* `dpExact : DpExactStmt I` (`PspProofsExact.lean`): the DP model is exact, WITHOUT the triangle inequality;
* `wfRel`, `noClampDom`, `psp_relaxed_ub_bestRem` (`PspProofsWf.lean`);
* below: `root_exact` (the specification `Psp.best` read off the value-to-go of the root), `root_none_iff`, and the closed
  corollary `psp_relaxed_ub` against `Psp.best`, with a non-vacuity instance. -/
namespace Ddo.Examples.PspModel
open Ddo Ddo.Examples Ddo.Examples.Util

/-- **the specification is the value-to-go of the root**: `Psp.best` is minus the value-to-go of the root of the DP model, `-1`
    when the root has no completion -/
theorem root_exact {I : Psp.Inst} (hI : InstOk I) :
    Psp.best I = ((bestRem (tabOf I) (initSt (tabOf I))).map (fun v => -v)).getD (-1) := by
  rw [best_eq_table, dpExact I hI]
  cases specBestExt (specTable I) [] <;> simp

/-- the root of the DP model has no completion iff the specification has no feasible plan -/
theorem root_none_iff {I : Psp.Inst} (hI : InstOk I) :
    bestRem (tabOf I) (initSt (tabOf I)) = none ↔ ¬ ∃ p, C16.PspD.Feasible I p := by
  rw [dpExact I hI, specBestExt_root, ← SpecUtil.minOf_none_iff (C16.psp_values I)]
  cases minOf _ <;> simp

/-- the costs are paid, never earned: `Psp.best I = -1` says that no plan meets the demands in time -/
theorem best_eq_neg_one_iff {I : Psp.Inst} (hI : InstOk I) : Psp.best I = -1 ↔ ¬ ∃ p, C16.PspD.Feasible I p := by
  rw [← root_none_iff hI, root_exact hI]
  cases hb : bestRem (tabOf I) (initSt (tabOf I)) with
  | none => simp
  | some o =>
    have hV := valid_init hI hb
    have := bestRem_nonpos hI hV.1 hb
    simp only [Option.map_some, Option.getD_some, reduceCtorEq, iff_false]
    omega

/-- **The shipped psp example**: a relaxed compilation of its model from the root (layer by layer, no cache, no dominance
    checker, width ≥ 1, any incumbent `lb` that the optimum beats) reports a best value `bv` that is at least the true
    optimum: minus the least cost `Psp.best I` of a production plan that meets every demand in time (`C16.psp_spec_adequate`)
    — the cost `-bv` the relaxed diagram stands for is a LOWER bound of the least cost —, for every instance of the format
    that has such a plan, whose changeover costs satisfy the triangle inequality, with costs small enough for `isize` and a
    horizon `≤ 2^63`. -/
theorem psp_relaxed_ub {K : Type} [DecidableEq K] {I : Psp.Inst} (hI : InstOk I) (htri : triangleB (tabOf I) = true)
    (cfg : Cfg St K) (cache : Cache St) (store : DomStore St K) (polls : Nat)
    (hP : cfg.P = problem (tabOf I)) (hR : cfg.R = relaxation (tabOf I))
    (hrs : cfg.root.state = initSt (tabOf I)) (hrv : cfg.root.value = 0) (hrd : cfg.root.depth = 0)
    (hrel : cfg.ctype = .relaxed) (hcache : cfg.useCache = false) (hdom : cfg.dom = none) (hW : 1 ≤ cfg.width)
    (qmax hmax : Int) (hq : ∀ r ∈ I.q, ∀ v ∈ r, v ≤ qmax) (hh : ∀ v ∈ I.h, v ≤ hmax) (hq0 : 0 ≤ qmax) (hh0 : 0 ≤ hmax)
    (hsmall : ((I.T : Int) + 2) * (qmax + hmax * (I.T : Int)) ≤ 4611686018427387904)
    (hT : (I.T : Int) ≤ isizeMax + 1)
    (hfeas : Psp.best I ≠ -1) (hlb : InI cfg.lb) (hgt : -(Psp.best I) > cfg.lb) :
    (compile cfg cache store polls none).1 = .ok →
    ∃ bv, (compile cfg cache store polls none).2.1.bestValue = some bv ∧ -(Psp.best I) ≤ bv := by
  have hroot : bestRem (tabOf I) (initSt (tabOf I)) = some (-(Psp.best I)) := by
    have h := root_exact hI
    cases hb : bestRem (tabOf I) (initSt (tabOf I)) with
    | none => rw [hb] at h; exact absurd h hfeas
    | some v =>
      rw [hb] at h
      have : Psp.best I = -v := by simpa using h
      rw [this]; simp
  exact psp_relaxed_ub_bestRem hI htri cfg cache store polls hP hR hrs hrv hrd hrel hcache hdom hW qmax hmax hq hh hq0 hh0
    hsmall hT (-(Psp.best I)) hroot hlb hgt

/-! ## non-vacuity: the instance of `PspProofsWf.lean` (3 items, 5 periods, metric changeover costs; width 1: every layer is
    merged); its least cost is 7 -/
namespace Demo

theorem best_val : Psp.best inst = 7 := by
  rw [root_exact instOk, root_val]; rfl

example : ∃ bv, (compile cfg (Cache.init 5) (DomStore.init 5) 0 none).2.1.bestValue = some bv ∧ -(Psp.best inst) ≤ bv :=
  psp_relaxed_ub instOk (by decide) cfg (Cache.init 5) (DomStore.init 5) 0 rfl rfl rfl rfl rfl rfl rfl rfl (by decide)
    3 2 (by decide) (by decide) (by decide) (by decide) (by decide) (by decide) (by rw [best_val]; decide) (by decide)
    (by rw [best_val]; decide) (by decide +kernel)

end Demo

#print axioms dpExact
#print axioms root_exact
#print axioms root_none_iff
#print axioms best_eq_neg_one_iff
#print axioms psp_relaxed_ub

end Ddo.Examples.PspModel
