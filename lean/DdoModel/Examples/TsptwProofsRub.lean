import DdoModel.Examples.TsptwProofsStar
/-! Admissibility of the rough upper bound `rub?` (`fast_upper_bound`) of the tsptw example for the potential `hStar`
    (`TsptwProofsStar.lean`) on every valid state each of whose cities can be entered from another position (`Alt`):
    * `sum_take_sortNat_le`: the `k` smallest elements of a list sum to at most any `k` of its elements;
    * `ce_le`: the cheapest edge into `j` is at most the distance from any other node;
    * `Wit` / `wit_of_vG`: a state with a legitimate completion worth `h` has a witness: the distinct cities visited (all the
      mandatory ones among them), each reachable in time through its cheapest edge, and the lower bounds on the length;
    * `rubMust_spec`, `rubMid_spec`, `rubTail_spec`, `rub?_eq`: what the three pieces of `fast_upper_bound` return when they
      do not panic; `rub_of_wit`: the bound is not "infeasible" and is at least the value of any witness;
    * `rub_hStar` (with the side condition `hL` on the LAST layer), `rub_hStar_lt` (no side condition below the last layer);
    * FINDING `rub_hStar_late_false`, `rub_admissible_late_false`: on a state of the last layer that is later than the depot's
      deadline (valid for `Valid` and for `validB`) the bound answers "infeasible" while nothing remains to be done (value-to-go
      `0`): the statement without `hL`, and the stated-only `rub_admissible`, are false as they stand. -/
namespace Ddo.Examples.TsptwModel
open Ddo Ddo.Examples

-- ------------------------------------------------------------------------------------------------------------------
-- the `k` smallest elements of a list sum to at most any `k` of its elements

theorem sum_take_insertSorted_succ (x : Nat) : ∀ (t : List Nat) (k : Nat),
    ((insertSorted x t).take (k + 1)).sum ≤ x + (t.take k).sum := by
  intro t
  induction t with
  | nil => intro k; simp [insertSorted]
  | cons y ys ih =>
    intro k
    unfold insertSorted
    split
    · simp [List.take_succ_cons]
    · cases k with
      | zero => simp [List.take_succ_cons]; omega
      | succ k' =>
        have := ih k'
        simp only [List.take_succ_cons, List.sum_cons] at this ⊢
        omega

theorem sum_take_cons_le : ∀ (ys : List Nat) (y k : Nat), (y :: ys).Pairwise (· ≤ ·) → k ≤ ys.length →
    ((y :: ys).take k).sum ≤ (ys.take k).sum := by
  intro ys
  induction ys with
  | nil => intro y k _ hk; simp at hk; subst hk; simp
  | cons z zs ih =>
    intro y k hs hk
    cases k with
    | zero => simp
    | succ k' =>
      have hyz : y ≤ z := (List.pairwise_cons.mp hs).1 z List.mem_cons_self
      have := ih z k' (List.pairwise_cons.mp hs).2 (by simpa using hk)
      simp only [List.take_succ_cons, List.sum_cons] at this ⊢
      omega

theorem mem_insertSorted {a x : Nat} : ∀ {t : List Nat}, a ∈ insertSorted x t ↔ a = x ∨ a ∈ t := by
  intro t
  induction t with
  | nil => simp [insertSorted]
  | cons y ys ih =>
    unfold insertSorted
    split
    · simp
    · simp only [List.mem_cons, ih]
      constructor
      · rintro (h | h | h)
        · exact Or.inr (Or.inl h)
        · exact Or.inl h
        · exact Or.inr (Or.inr h)
      · rintro (h | h | h)
        · exact Or.inr (Or.inl h)
        · exact Or.inl h
        · exact Or.inr (Or.inr h)

theorem sorted_insertSorted (x : Nat) : ∀ {t : List Nat}, t.Pairwise (· ≤ ·) → (insertSorted x t).Pairwise (· ≤ ·) := by
  intro t
  induction t with
  | nil => intro _; simp [insertSorted]
  | cons y ys ih =>
    intro hs
    have h1 := (List.pairwise_cons.mp hs).1
    have h2 := (List.pairwise_cons.mp hs).2
    unfold insertSorted
    split
    · next hxy =>
      refine List.pairwise_cons.mpr ⟨?_, hs⟩
      intro a ha
      rcases List.mem_cons.mp ha with rfl | ha
      · exact hxy
      · exact Nat.le_trans hxy (h1 a ha)
    · next hxy =>
      refine List.pairwise_cons.mpr ⟨?_, ih h2⟩
      intro a ha
      rcases mem_insertSorted.mp ha with rfl | ha
      · omega
      · exact h1 a ha

theorem length_insertSorted (x : Nat) : ∀ t : List Nat, (insertSorted x t).length = t.length + 1 := by
  intro t
  induction t with
  | nil => rfl
  | cons y ys ih =>
    unfold insertSorted
    split
    · rfl
    · simp [ih]

theorem sum_take_insertSorted_le (x : Nat) : ∀ (t : List Nat) (k : Nat), t.Pairwise (· ≤ ·) → k ≤ t.length →
    ((insertSorted x t).take k).sum ≤ (t.take k).sum := by
  intro t
  induction t with
  | nil => intro k _ hk; simp at hk; subst hk; simp
  | cons y ys ih =>
    intro k hs hk
    cases k with
    | zero => simp
    | succ k' =>
      have hk' : k' ≤ ys.length := by simpa using hk
      unfold insertSorted
      split
      · next hxy =>
        have := sum_take_cons_le ys y k' hs hk'
        simp only [List.take_succ_cons, List.sum_cons] at this ⊢
        omega
      · have := ih k' (List.pairwise_cons.mp hs).2 hk'
        simp only [List.take_succ_cons, List.sum_cons] at this ⊢
        omega

theorem sorted_sortNat : ∀ l : List Nat, (sortNat l).Pairwise (· ≤ ·) := by
  intro l
  induction l with
  | nil => exact List.Pairwise.nil
  | cons x t ih => exact sorted_insertSorted x ih

theorem length_sortNat : ∀ l : List Nat, (sortNat l).length = l.length := by
  intro l
  induction l with
  | nil => rfl
  | cons x t ih => show (insertSorted x (sortNat t)).length = _; rw [length_insertSorted, ih]; rfl

/-- the `k` smallest elements of `l` sum to at most any `k` elements of `l` -/
theorem sum_take_sortNat_le {m l : List Nat} (h : m.Sublist l) : ((sortNat l).take m.length).sum ≤ m.sum := by
  induction h with
  | slnil => simp
  | @cons m l x h ih =>
    have : ((sortNat (x :: l)).take m.length).sum ≤ ((sortNat l).take m.length).sum :=
      sum_take_insertSorted_le x (sortNat l) m.length (sorted_sortNat l) (by rw [length_sortNat]; exact h.length_le)
    omega
  | @cons_cons m l x h ih =>
    have : ((sortNat (x :: l)).take (m.length + 1)).sum ≤ x + ((sortNat l).take m.length).sum :=
      sum_take_insertSorted_succ x (sortNat l) m.length
    simp only [List.length_cons, List.sum_cons]
    omega

-- ------------------------------------------------------------------------------------------------------------------
-- the values of the partial look-ups

/-- the cheapest edge into `j` -/
def ceN (T : Tab) (j : Nat) : Nat := T.ce.getD j 0

theorem ce_le {T : Tab} (hT : TabOk T) {i j : Nat} (hi : i < T.n) (hj : j < T.n) (hne : i ≠ j) :
    ceN T j ≤ distOf T.d i j := by
  unfold ceN
  rw [hT.ce_eq]
  simp only [cheapestOf, List.getD_eq_getElem?_getD, List.getElem?_map, List.getElem?_range hj, Option.map_some,
    Option.getD_some]
  exact (foldl_min_le (fun i' => distOf T.d i' j) _ umax).2.1 i
    (List.mem_filter.mpr ⟨List.mem_range.mpr hi, by simpa using hne⟩)

theorem ce?_val {T : Tab} {i c : Nat} (h : T.ce[i]? = some c) : c = ceN T i := by
  simp [ceN, List.getD_eq_getElem?_getD, h]

theorem dist?_val {T : Tab} {i j x : Nat} (h : dist? T i j = some x) : x = distOf T.d i j := by
  unfold dist? at h
  unfold distOf
  cases h1 : T.d[i]? with
  | none => simp [h1] at h
  | some row =>
    simp only [h1, Option.bind_some] at h
    simp [List.getD_eq_getElem?_getD, h1, h]

theorem tw?_val {T : Tab} {j e l : Nat} (h : tw? T j = some (e, l)) : l = lN T j := by
  unfold tw? at h
  simp [lN, List.getD_eq_getElem?_getD, h]

theorem uadd?_val {a b c : Nat} (h : uadd? a b = some c) : c = a + b := by
  unfold uadd? at h
  split at h
  · cases h; rfl
  · cases h

theorem addDur?_val {el a : El} {x : Nat} (h : addDur? el x = some a) : a.earliest = el.earliest + x := by
  cases el with
  | fixed d =>
    simp only [addDur?] at h
    cases h1 : uadd? d x with
    | none => simp [h1] at h
    | some c =>
      simp only [h1, Option.map_some, Option.some.injEq] at h
      subst h
      rw [earliest_fixed, earliest_fixed]; exact uadd?_val h1
  | fuzzy e l =>
    simp only [addDur?, Option.bind_eq_bind, Option.pure_def] at h
    cases h1 : uadd? e x with
    | none => simp [h1] at h
    | some c =>
      cases h2 : uadd? l x with
      | none => simp [h1, h2] at h
      | some c2 =>
        simp only [h1, h2, Option.bind_some, Option.some.injEq] at h
        subst h
        rw [earliest_fuzzy, earliest_fuzzy]; exact uadd?_val h1

theorem foldlM_uadd?_val : ∀ (l : List Nat) (a x : Nat), l.foldlM uadd? a = some x → x = a + l.sum := by
  intro l
  induction l with
  | nil => intro a x h; simp at h; simp; omega
  | cons y t ih =>
    intro a x h
    rw [List.foldlM_cons] at h
    cases h1 : uadd? a y with
    | none => simp [h1] at h
    | some c =>
      simp only [h1, Option.bind_eq_bind, Option.bind_some] at h
      have := ih c x h
      have := uadd?_val h1
      simp only [List.sum_cons]; omega

theorem usum?_val {l : List Nat} {x : Nat} (h : usum? l = some x) : x = l.sum := by
  have := foldlM_uadd?_val l 0 x h
  omega

theorem mapM_val {α β : Type} (f : α → Option β) (g : α → β) : ∀ (l : List α) (r : List β), l.mapM f = some r →
    (∀ x ∈ l, ∀ y, f x = some y → y = g x) → r = l.map g := by
  intro l
  induction l with
  | nil => intro r h _; simp at h; subst h; rfl
  | cons a t ih =>
    intro r h hg
    rw [List.mapM_cons] at h
    cases h1 : f a with
    | none => simp [h1] at h
    | some b =>
      cases h2 : t.mapM f with
      | none => simp [h1, h2] at h
      | some r' =>
        simp only [h1, h2, Option.bind_eq_bind, Option.bind_some, Option.pure_def, Option.some.injEq] at h
        subst h
        rw [List.map_cons, ← hg a List.mem_cons_self b h1, ← ih r' h2 (fun x hx => hg x (List.mem_cons_of_mem _ hx))]

/-- what the loop of `fast_upper_bound` over `must_visit` returns -/
theorem rubMust_spec (T : Tab) (el : El) : ∀ (l : List Nat) (ct mand back : Nat) (res : Option (Nat × Nat × Nat)),
    rubMust? T el l ct mand back = some res →
    match res with
    | none => ct < l.length ∨ ∃ i ∈ l, el.earliest + ceN T i > lN T i
    | some (ct', mand', back') => ct' + l.length = ct ∧ mand' = mand + (l.map (ceN T)).sum ∧ back' ≤ back ∧
        ∀ i ∈ l, back' ≤ distOf T.d i 0 := by
  intro l
  induction l with
  | nil =>
    intro ct mand back res h
    simp only [rubMust?, Option.some.injEq] at h
    subst h
    simp
  | cons i r ih =>
    intro ct mand back res h
    rw [rubMust?] at h
    split at h
    · next hct =>
      simp only [Option.some.injEq] at h
      subst h
      left; simp; omega
    · next hct =>
      cases h1 : T.ce[i]? with
      | none => simp [h1] at h
      | some c =>
        cases h2 : uadd? mand c with
        | none => simp [h1, h2] at h
        | some mand' =>
          cases h3 : dist? T i 0 with
          | none => simp [h1, h3] at h
          | some di0 =>
            cases h4 : tw? T i with
            | none => simp [h1, h3, h4] at h
            | some p =>
              obtain ⟨ei, li⟩ := p
              cases h5 : addDur? el c with
              | none => simp [h1, h2, h3, h4, h5] at h
              | some a =>
                simp only [h1, h2, h3, h4, h5, Option.bind_eq_bind, Option.bind_some, Option.pure_def] at h
                have hc := ce?_val h1
                have hm := uadd?_val h2
                have hd := dist?_val h3
                have hl := tw?_val h4
                have ha := addDur?_val h5
                subst hc hd hl
                split at h
                · next hgt =>
                  simp only [Option.some.injEq] at h
                  subst h
                  right
                  exact ⟨i, List.mem_cons_self, by omega⟩
                · next hgt =>
                  have := ih _ _ _ _ h
                  cases res with
                  | none =>
                    simp only at this ⊢
                    rcases this with h' | ⟨k, hk, h'⟩
                    · left; simp; omega
                    · right; exact ⟨k, List.mem_cons_of_mem _ hk, h'⟩
                  | some q =>
                    obtain ⟨ct', mand'', back'⟩ := q
                    simp only at this ⊢
                    obtain ⟨a1, a2, a3, a4⟩ := this
                    refine ⟨by simp; omega, by simp only [List.map_cons, List.sum_cons]; omega, by omega, ?_⟩
                    intro k hk
                    rcases List.mem_cons.mp hk with rfl | hk
                    · omega
                    · exact a4 k hk

-- ------------------------------------------------------------------------------------------------------------------
-- what a legitimate completion is made of

/-- a legitimate completion of `s` worth at least `h`: the cities `cs` it visits before the depot and a lower bound `b` on its
    last leg, with the lower bounds the rough upper bound computes -/
structure Wit (T : Tab) (s : St) (h : Int) (cs : List Nat) (b : Nat) : Prop where
  nd : cs.Nodup
  sub : ∀ j ∈ cs, j ∈ s.must ∨ j ∈ mb s
  must : ∀ i ∈ s.must, i ∈ cs
  len : cs.length = T.n - s.depth - 1
  feas : ∀ j ∈ cs, s.el.earliest + ceN T j ≤ lN T j
  back : (cs = [] ∧ b = minD T s 0) ∨ (∃ j ∈ cs, b = distOf T.d j 0)
  tot : s.el.earliest + ((cs.map (ceN T)).sum + b) ≤ lN T 0
  val : h ≤ -(((cs.map (ceN T)).sum + b : Nat) : Int)

theorem addI_eq_some {a : EInt} {c h : Int} (e : a.addI c = some h) : ∃ h', a = some h' ∧ h = h' + c := by
  cases a with
  | none => simp [EInt.addI] at e
  | some x => exact ⟨x, rfl, by simpa [EInt.addI] using e.symm⟩

theorem termL_eq_some {s : St} {h : Int} (e : termL s = some h) : s.must = [] ∧ h = 0 := by
  unfold termL at e
  split at e
  · next hm => exact ⟨List.isEmpty_iff.mp hm, by cases e; rfl⟩
  · cases e

theorem ce_le_mdS {T : Tab} (hT : TabOk T) {s : St} (hV : Valid T s) (hA : Alt s) {j : Nat}
    (hj : j ∈ s.must ∨ j ∈ mb s) : ceN T j ≤ mdS T s j := by
  have hjr : 1 ≤ j ∧ j < T.n := by
    rcases hj with hj | hj
    · exact hV.must_rng j hj
    · exact hV.maybe_rng j hj
  have h0 : j ≠ 0 := by omega
  unfold mdS
  rw [if_neg h0]
  obtain ⟨p, hp, hpj, e⟩ := (minD'_spec (T := T) hV.pos_ne j).2.2.2 (hA j hj)
  rw [e]
  exact ce_le hT (hV.pos_lt p hp) hjr.2 hpj

/-- **soundness of the ingredients**: a state with a legitimate completion has a witness -/
theorem wit_of_vG {T : Tab} (hT : TabOk T) : ∀ (fuel : Nat) (s : St) (h : Int), Valid T s → Alt s → s.depth < T.n →
    fuel = T.n - s.depth → vG T (mdS T) termL fuel s = some h → ∃ cs b, Wit T s h cs b := by
  intro fuel
  induction fuel with
  | zero => intro s h _ _ hd hf _; omega
  | succ f ih =>
    intro s h hV hA hd hf hv
    simp only [vG] at hv
    rw [if_neg (by omega)] at hv
    obtain ⟨_, _, h3⟩ := foldl_max_specG (fun j => (vG T (mdS T) termL f (succSt s j (.fixed (arrG T (mdS T) s j)))).addI
        ((s.el.earliest : Int) - (arrG T (mdS T) s j : Nat))) (domG T (mdS T) s) none
    rcases h3 with h3 | ⟨j, hj, h3⟩
    · rw [h3] at hv; cases hv
    · rw [h3] at hv
      have hj := (mem_domG_iff T (mdS T) s j).mp hj
      have hjn := hj.lt hV hT.n_pos
      have hr : s.el.earliest + mdS T s j ≤ lN T j := by simpa [reachG] using hj.1
      obtain ⟨h', hv', hh⟩ := addI_eq_some hv
      have hV' : Valid T (succSt s j (.fixed (arrG T (mdS T) s j))) :=
        valid_succ' hV hd hjn (hj.last hT.n_pos) (arrG_small hT hjn hj.1) (arrG_small hT hjn hj.1)
      have hA' : Alt (succSt s j (.fixed (arrG T (mdS T) s j))) := alt_succ hV j _
      have harr : arrG T (mdS T) s j = max (s.el.earliest + mdS T s j) (eN T j) := rfl
      generalize arrG T (mdS T) s j = arr at *
      have hse : (succSt s j (.fixed arr)).el.earliest = arr := rfl
      have hsd : (succSt s j (.fixed arr)).depth = s.depth + 1 := rfl
      have hsm : (succSt s j (.fixed arr)).must = s.must.erase j := rfl
      by_cases hl : s.depth + 1 = T.n
      · have hj0 : j = 0 := hj.last hT.n_pos hl
        subst hj0
        have hf0 : f = 0 := by omega
        subst hf0
        simp only [vG] at hv'
        obtain ⟨hm, hh'⟩ := termL_eq_some hv'
        have h0 : 0 ∉ s.must := fun hm0 => by have := (hV.must_rng 0 hm0).1; omega
        rw [hsm, List.erase_of_not_mem h0] at hm
        have hmd : mdS T s 0 = minD T s 0 := by unfold mdS; rw [if_pos rfl]
        rw [hmd] at hr harr
        refine ⟨[], minD T s 0, List.nodup_nil, (fun j hj => by cases hj), ?_, ?_, (fun j hj => by cases hj), Or.inl ⟨rfl, rfl⟩,
          ?_, ?_⟩
        · intro i hi; rw [hm] at hi; cases hi
        · simp; omega
        · simp only [List.map_nil, List.sum_nil]; omega
        · simp only [List.map_nil, List.sum_nil]; omega
      · have hjm : j ∈ s.must ∨ j ∈ mb s := by
          rcases hj.2 with ⟨h1, _⟩ | ⟨_, _, h3⟩
          · omega
          · exact h3
        have hce := ce_le_mdS hT hV hA hjm
        obtain ⟨cs', b', W⟩ := ih _ h' hV' hA' (by rw [hsd]; omega) (by rw [hsd]; omega) hv'
        have hWfeas := W.feas
        have hWtot := W.tot
        have hWval := W.val
        have hWlen := W.len
        rw [hse] at hWfeas hWtot
        rw [hsd] at hWlen
        refine ⟨j :: cs', b', ?_, ?_, ?_, ?_, ?_, ?_, ?_, ?_⟩
        · refine List.nodup_cons.mpr ⟨?_, W.nd⟩
          intro hjc
          rcases W.sub j hjc with h1 | h1
          · rw [hsm] at h1; exact (hV.must_nd.mem_erase_iff.mp h1).1 rfl
          · rw [mb_succSt] at h1; exact (hV.maybe_nd.mem_erase_iff.mp h1).1 rfl
        · intro k hk
          rcases List.mem_cons.mp hk with rfl | hk
          · exact hjm
          · rcases W.sub k hk with h1 | h1
            · rw [hsm] at h1; exact Or.inl (List.mem_of_mem_erase h1)
            · rw [mb_succSt] at h1; exact Or.inr (List.mem_of_mem_erase h1)
        · intro i hi
          by_cases hij : i = j
          · rw [hij]; exact List.mem_cons_self
          · exact List.mem_cons_of_mem _ (W.must i (by rw [hsm]; exact (List.mem_erase_of_ne hij).mpr hi))
        · simp only [List.length_cons]; omega
        · intro k hk
          rcases List.mem_cons.mp hk with rfl | hk
          · omega
          · have := hWfeas k hk; omega
        · right
          rcases W.back with ⟨hc, hb⟩ | ⟨k, hk, hb⟩
          · refine ⟨j, List.mem_cons_self, ?_⟩
            rw [hb]
            simp [minD, succSt, posSet, minNat]
          · exact ⟨k, List.mem_cons_of_mem _ hk, hb⟩
        · simp only [List.map_cons, List.sum_cons]; omega
        · simp only [List.map_cons, List.sum_cons]; omega

-- ------------------------------------------------------------------------------------------------------------------
-- `rub?` in three pieces

/-- the test of `fast_upper_bound` on an optional city as the code computes it -/
def violF (T : Tab) (s : St) (i : Nat) : Option Bool := do
  let ce ← T.ce[i]?
  let (_, li) ← tw? T i
  let a ← addDur? s.el ce
  pure (decide (a.earliest > li))

/-- the part of `fast_upper_bound` about `maybe_visit` -/
def rubMid (T : Tab) (s : St) (ct mand back : Nat) : Option (Option (Nat × Nat)) :=
  match s.maybe with
  | none => pure (some (mand, back))
  | some ys => do
    let ces ← ys.mapM (T.ce[·]?)
    let backs ← ys.mapM (dist? T · 0)
    let viol ← ys.mapM (violF T s)
    let ct' := ct - 1
    if ys.length - (viol.filter id).length < ct' then pure none else do
      let extra ← usum? ((sortNat ces).take ct')
      let mand' ← uadd? mand extra
      pure (some (mand', backs.foldl min back))

/-- the end of `fast_upper_bound` -/
def rubTail (T : Tab) (s : St) (mand back : Nat) : Option (Option Int) := do
  let back ← (if mand = 0 then do let h ← minDist? T s 0; pure (min back h) else pure back : Option Nat)
  let total ← uadd? mand back
  let a ← addDur? s.el total
  let (_, l0) ← tw? T 0
  pure (if a.earliest > l0 then none else some (-(total : Int)))

theorem rub?_eq (T : Tab) (s : St) : rub? T s =
    if s.depth > T.n then none else
    (match rubMust? T s.el s.must (T.n - s.depth) 0 umax with
    | none => none
    | some none => some none
    | some (some (ct, mand, back)) => do
      let r ← rubMid T s ct mand back
      match r with
      | none => pure none
      | some (mand, back) => rubTail T s mand back) := rfl

/-- the test of `fast_upper_bound` on an optional city -/
def violP (T : Tab) (s : St) (i : Nat) : Bool := decide (s.el.earliest + ceN T i > lN T i)

theorem viol_val {T : Tab} {s : St} {i : Nat} {y : Bool} (h : violF T s i = some y) : y = violP T s i := by
  unfold violF at h
  cases h1 : T.ce[i]? with
  | none => simp [h1] at h
  | some c =>
    cases h4 : tw? T i with
    | none => simp [h1, h4] at h
    | some p =>
      obtain ⟨ei, li⟩ := p
      cases h5 : addDur? s.el c with
      | none => simp [h1, h4, h5] at h
      | some a =>
        simp only [h1, h4, h5, Option.bind_eq_bind, Option.bind_some, Option.pure_def, Option.some.injEq] at h
        have hc := ce?_val h1
        have hl := tw?_val h4
        have ha := addDur?_val h5
        subst hc hl h
        unfold violP
        rw [ha]

theorem rubMid_spec {T : Tab} {s : St} {ct mand back : Nat} {res : Option (Nat × Nat)}
    (h : rubMid T s ct mand back = some res) :
    match res with
    | none => (mb s).length - ((mb s).filter (violP T s)).length < ct - 1
    | some (mand', back') => mand' = mand + (((sortNat ((mb s).map (ceN T))).take (ct - 1)).sum) ∧ back' ≤ back ∧
        ∀ y ∈ mb s, back' ≤ distOf T.d y 0 := by
  unfold rubMid at h
  split at h
  · next hm =>
    simp only [Option.pure_def, Option.some.injEq] at h
    subst h
    simp [mb, hm, sortNat]
  · next ys hm =>
    have hmb : mb s = ys := by simp [mb, hm]
    rw [hmb]
    cases h1 : ys.mapM (T.ce[·]?) with
    | none => simp [h1] at h
    | some ces =>
      cases h2 : ys.mapM (dist? T · 0) with
      | none => simp [h1, h2] at h
      | some backs =>
        cases h3 : ys.mapM (violF T s) with
        | none => simp [h1, h2, h3] at h
        | some viol =>
          simp only [h1, h2, h3, Option.bind_eq_bind, Option.bind_some] at h
          have e1 := mapM_val _ (ceN T) ys ces h1 (fun x _ y hy => ce?_val hy)
          have e2 := mapM_val _ (distOf T.d · 0) ys backs h2 (fun x _ y hy => dist?_val hy)
          have e3 := mapM_val _ (violP T s) ys viol h3 (fun x _ y hy => viol_val hy)
          subst e1 e2 e3
          have ef : ((ys.map (violP T s)).filter id).length = (ys.filter (violP T s)).length := by
            rw [List.filter_map, List.length_map]; rfl
          rw [ef] at h
          split at h
          · next hlt =>
            simp only [Option.pure_def, Option.some.injEq] at h
            subst h
            exact hlt
          · next hlt =>
            cases h4 : usum? ((sortNat (ys.map (ceN T))).take (ct - 1)) with
            | none => simp [h4] at h
            | some extra =>
              cases h5 : uadd? mand extra with
              | none => simp [h4, h5] at h
              | some mand' =>
                simp only [h4, h5, Option.bind_some, Option.pure_def, Option.some.injEq] at h
                subst h
                have := usum?_val h4
                have := uadd?_val h5
                obtain ⟨k1, k2, _⟩ := foldl_min_le id (ys.map (distOf T.d · 0)) back
                refine ⟨by omega, k1, ?_⟩
                intro y hy
                exact k2 _ (List.mem_map.mpr ⟨y, hy, rfl⟩)

theorem rubTail_spec {T : Tab} (hT : TabOk T) {s : St} (hV : Valid T s) {mand back : Nat} {r : Option Int}
    (h : rubTail T s mand back = some r) :
    ∃ back', back' ≤ back ∧ (mand = 0 → back' ≤ minD T s 0) ∧
      r = if s.el.earliest + (mand + back') > lN T 0 then none else some (-((mand + back' : Nat) : Int)) := by
  have h0 : 0 < T.n := hT.n_pos
  unfold rubTail at h
  rw [minDist?_eq hT hV h0, tw?_eq hT h0] at h
  have key : ∀ back', ((uadd? mand back').bind fun total => (addDur? s.el total).bind fun a =>
      some (if a.earliest > lN T 0 then none else some (-(total : Int))) : Option (Option Int)) = some r →
      r = if s.el.earliest + (mand + back') > lN T 0 then none else some (-((mand + back' : Nat) : Int)) := by
    intro back' h
    cases h1 : uadd? mand back' with
    | none => simp [h1] at h
    | some total =>
      cases h2 : addDur? s.el total with
      | none => simp [h1, h2] at h
      | some a =>
        simp only [h1, h2, Option.bind_some, Option.some.injEq] at h
        have := uadd?_val h1
        have := addDur?_val h2
        subst h
        subst total
        rw [this]
  by_cases hm : mand = 0
  · subst hm
    simp only [if_true, Option.bind_eq_bind, Option.bind_some, Option.pure_def] at h
    exact ⟨min back (minD T s 0), Nat.min_le_left _ _, fun _ => Nat.min_le_right _ _, key _ h⟩
  · simp only [hm, if_false, Option.bind_eq_bind, Option.bind_some, Option.pure_def] at h
    exact ⟨back, Nat.le_refl _, fun e => absurd e hm, key _ h⟩

-- ------------------------------------------------------------------------------------------------------------------
-- the bound dominates every witness

/-- **the rough upper bound is at least the value of a witnessed completion** (and is not "infeasible") -/
theorem rub_of_wit {T : Tab} (hT : TabOk T) {s : St} (hV : Valid T s) {h : Int} {cs : List Nat} {b : Nat}
    (W : Wit T s h cs b) {r : Option Int} (hr : rub? T s = some r) : (some h : EInt) ≤ r := by
  -- the cities visited: the mandatory ones, then the optional ones in the order of `maybe_visit`
  have hnd2 : (s.must ++ (mb s).filter (fun x => decide (x ∈ cs))).Nodup := by
    refine List.nodup_append.mpr ⟨hV.must_nd, List.Nodup.sublist List.filter_sublist hV.maybe_nd, ?_⟩
    intro a ha c hc hac
    subst hac
    exact hV.disj a ha (List.mem_filter.mp hc).1
  have hperm : cs.Perm (s.must ++ (mb s).filter (fun x => decide (x ∈ cs))) := by
    refine (List.perm_ext_iff_of_nodup W.nd hnd2).mpr (fun a => ?_)
    simp only [List.mem_append, List.mem_filter, decide_eq_true_eq]
    constructor
    · intro ha
      rcases W.sub a ha with h1 | h1
      · exact Or.inl h1
      · exact Or.inr ⟨h1, ha⟩
    · rintro (h1 | h1)
      · exact W.must a h1
      · exact h1.2
  have hlen : cs.length = s.must.length + ((mb s).filter (fun x => decide (x ∈ cs))).length := by
    rw [hperm.length_eq, List.length_append]
  have hsum : (cs.map (ceN T)).sum = (s.must.map (ceN T)).sum
      + (((mb s).filter (fun x => decide (x ∈ cs))).map (ceN T)).sum := by
    rw [(hperm.map (ceN T)).sum_nat, List.map_append, List.sum_append]
  have hWlen := W.len
  have hWtot := W.tot
  have hWval := W.val
  generalize hopt : (mb s).filter (fun x => decide (x ∈ cs)) = opt at hlen hsum
  have hsub : (opt.map (ceN T)).Sublist ((mb s).map (ceN T)) := by
    rw [← hopt]; exact List.Sublist.map _ List.filter_sublist
  have hsort := sum_take_sortNat_le hsub
  rw [List.length_map] at hsort
  rw [rub?_eq, if_neg (by have := hV.depth_le; omega)] at hr
  cases hm : rubMust? T s.el s.must (T.n - s.depth) 0 umax with
  | none => simp [hm] at hr
  | some res =>
    have hspec := rubMust_spec T s.el _ _ _ _ _ hm
    simp only [hm] at hr
    cases res with
    | none =>
      exfalso
      simp only at hspec
      rcases hspec with h1 | ⟨i, hi, h1⟩
      · omega
      · have := W.feas i (W.must i hi); omega
    | some q =>
      obtain ⟨ct, mand, back⟩ := q
      simp only at hspec hr
      obtain ⟨a1, a2, a3, a4⟩ := hspec
      cases hmid : rubMid T s ct mand back with
      | none => simp [hmid] at hr
      | some res2 =>
        have hspec2 := rubMid_spec hmid
        simp only [hmid, Option.bind_eq_bind, Option.bind_some] at hr
        have hct : ct - 1 = opt.length := by omega
        cases res2 with
        | none =>
          exfalso
          simp only at hspec2
          have e1 := List.length_eq_countP_add_countP (violP T s) (l := mb s)
          have e2 : List.countP (fun x => decide (x ∈ cs)) (mb s)
              ≤ List.countP (fun a => decide ¬violP T s a = true) (mb s) := by
            apply List.countP_mono_left
            intro x hx hxc
            have hxc : x ∈ cs := by simpa using hxc
            have := W.feas x hxc
            simp only [violP, decide_eq_true_eq]
            omega
          rw [List.countP_eq_length_filter, List.countP_eq_length_filter] at e1
          rw [List.countP_eq_length_filter (p := fun x => decide (x ∈ cs)), hopt, List.countP_eq_length_filter] at e2
          omega
        | some q2 =>
          obtain ⟨mand', back'⟩ := q2
          simp only at hspec2 hr
          obtain ⟨c1, c2, c3⟩ := hspec2
          rw [hct] at c1
          obtain ⟨back'', d1, d2, d3⟩ := rubTail_spec hT hV hr
          have hmand : mand' ≤ (cs.map (ceN T)).sum := by omega
          have hback : back'' ≤ b := by
            rcases W.back with ⟨hc, hb⟩ | ⟨j, hj, hb⟩
            · have : mand' = 0 := by rw [hc] at hmand; simpa using hmand
              have := d2 this
              omega
            · rcases W.sub j hj with h1 | h1
              · have := a4 j h1; omega
              · have := c3 j h1; omega
          rw [d3, if_neg (by omega)]
          show h ≤ -((mand' + back'' : Nat) : Int)
          omega

/-- the witness of a state of the last layer that is not late at the depot -/
theorem wit_terminal {T : Tab} (hT : TabOk T) (hD : inDomain T = true) {s : St} (hV : Valid T s) (hd : s.depth = T.n)
    (hL : s.el.earliest ≤ lN T 0) {h : Int} (hh : termL s = some h) : Wit T s h [] (minD T s 0) := by
  obtain ⟨hm, h0⟩ := termL_eq_some hh
  have hz : minD T s 0 = 0 := by
    obtain ⟨⟨p, hp, e⟩, _⟩ := minD_spec (T := T) hV.pos_ne 0
    rw [e, hV.last_pos hd p hp]
    simp only [inDomain, Bool.and_eq_true, List.all_eq_true, decide_eq_true_eq, beq_iff_eq] at hD
    exact hD.1.1.2 0 (List.mem_range.mpr hT.n_pos)
  refine ⟨List.nodup_nil, (fun j hj => by cases hj), ?_, ?_, (fun j hj => by cases hj), Or.inl ⟨rfl, rfl⟩, ?_, ?_⟩
  · intro i hi; rw [hm] at hi; cases hi
  · simp; omega
  · simp only [List.map_nil, List.sum_nil]; omega
  · simp only [List.map_nil, List.sum_nil]; omega

/-- **`RubOk` for the potential `hStar`**: the rough upper bound dominates `hStar` on every valid state each of whose cities
    can be entered from another position, provided a state of the LAST layer is not later than the depot's deadline (what
    holds of every state the solver builds: the depot is entered only when `can_move_to`; without this the statement is
    false, `rub_hStar_late_false`) -/
theorem rub_hStar {T : Tab} (hT : TabOk T) (hD : inDomain T = true) {s : St} (hV : Valid T s) (hA : Alt s)
    (hL : s.depth = T.n → s.el.earliest ≤ lN T 0)
    {r : Option Int} (hr : rub? T s = some r) : hStar T s ≤ r := by
  cases hh : hStar T s with
  | none => exact EInt.none_le _
  | some h =>
    by_cases hd : s.depth < T.n
    · obtain ⟨cs, b, W⟩ := wit_of_vG hT _ s h hV hA hd rfl hh
      exact rub_of_wit hT hV W hr
    · have hdn : s.depth = T.n := by have := hV.depth_le; omega
      unfold hStar at hh
      have : T.n - s.depth = 0 := by omega
      rw [this] at hh
      exact rub_of_wit hT hV (wit_terminal hT hD hV hdn (hL hdn) hh) hr

/-- below the last layer no side condition is needed (nor the triangle inequality, the zero diagonal, closed windows) -/
theorem rub_hStar_lt {T : Tab} (hT : TabOk T) {s : St} (hV : Valid T s) (hA : Alt s) (hd : s.depth < T.n)
    {r : Option Int} (hr : rub? T s = some r) : hStar T s ≤ r := by
  cases hh : hStar T s with
  | none => exact EInt.none_le _
  | some h =>
    obtain ⟨cs, b, W⟩ := wit_of_vG hT _ s h hV hA hd rfl hh
    exact rub_of_wit hT hV W hr

-- ------------------------------------------------------------------------------------------------------------------
-- FINDING: without the side condition on the last layer the statement is false

/-- one node, the depot, due at time 0 -/
def lateT : Tab := { n := 1, d := [[0]], tw := [(0, 0)], ce := cheapestOf 1 [[0]] }
/-- the state of the last layer (back at the depot, nothing left to visit) at time 1: after the depot's deadline -/
def lateS : St := { pos := .node 0, el := .fixed 1, must := [], maybe := none, depth := 1 }

theorem late_tabOk : TabOk lateT := tabOk_of_tabOkB (by decide)
theorem late_inDomain : inDomain lateT = true := by decide
theorem late_validB : validB lateT lateS = true := by decide
theorem late_rubScope : rubScope lateS = true := rfl
theorem late_valid : Valid lateT lateS :=
  valid_of_validB late_validB List.nodup_nil List.nodup_nil (fun _ h => by cases h)
theorem late_alt : Alt lateS := by
  intro j hj
  rcases hj with hj | hj <;> cases hj
theorem late_rub : rub? lateT lateS = some none := by decide
theorem late_hStar : hStar lateT lateS = some 0 := by decide
theorem late_bestRemL : bestRemL lateT lateS = some 0 := by decide

/-- **the statement without `hL` is false**: a state of the last layer that is late at the depot is worth `0` for `hStar` (and for
    `bestRemL`: nothing remains to be done) while `fast_upper_bound` answers "infeasible" (`isize::MIN`) -/
theorem rub_hStar_late_false :
    ¬ (∀ {T : Tab}, TabOk T → inDomain T = true → ∀ {s : St}, Valid T s → Alt s →
        ∀ {r : Option Int}, rub? T s = some r → hStar T s ≤ r) := by
  intro h
  have := h late_tabOk late_inDomain late_valid late_alt late_rub
  rw [late_hStar] at this
  exact this

/-- the same state refutes the stated-only `rub_admissible` (`TsptwModel.lean`) at `lateT`: `validB` does not ask a state
    of the last layer to be in time at the depot -/
theorem rub_admissible_late_false : ¬ rub_admissible lateT := by
  intro h
  have := h late_inDomain lateS late_validB late_rubScope _ late_rub
  rw [late_bestRemL] at this
  exact this

end Ddo.Examples.TsptwModel

open Ddo.Examples.TsptwModel in
#print axioms rub_hStar_lt
open Ddo.Examples.TsptwModel in
#print axioms rub_hStar_late_false
open Ddo.Examples.TsptwModel in
#print axioms rub_admissible_late_false
open Ddo.Examples.TsptwModel in
#print axioms rub_hStar
