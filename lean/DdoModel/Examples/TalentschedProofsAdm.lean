import DdoModel.Examples.TalentschedProofsPath
/-! The combinatorial heart of the talentsched rough bound (Garcia de la Banda, Stuckey & Chu), for fixed sets `P` (actors on
    location) and `Q0` (scenes that must still be shot), along ANY order `q` of scenes:
    `2 · posK (Kq q) c 0 (piL q) ≤ 2 · den · G q + Nq q` (`smith_le_G`), where
    * `G q` is what the order pays at least (`TalentschedProofsPath.G`),
    * `piL q` lists the actors of `P` in the order in which they leave (the actors whose last scene of `Q0` comes first, first),
    * `Kq q a = den · Σ_{j ∈ q ∩ Q0, a ∈ P_j} duration_j / T_j` is (`den` times) the key of the code, `posK` the weighted
      completion times of the code's second loop — in the order `piL q` instead of the sorted order —,
    * `Nq q = 2 · den · Σ_j duration_j · (T_j + Q_j / T_j) / 2` is what the first loop of the code subtracts,
    * `den` is any common multiple `≥ 0` of the `T_j` (`den / T_j · T_j = den`).
    Proof: induction on `q`; shooting `j` first adds `m = duration_j · den / T_j` times the 0/1 key of `P_j` to the keys
    (`posK_lin`), the actors who leave after `j` (only `j` left to play) are in front with key 0 for the rest of the order
    (`posK_prefix_zero`), and `posK_ind_le` bounds the 0/1 part by `2·T_j·W − T_j² + Q_j` where `W` is the total cost of the
    actors of `P` still needed — exactly the `duration_j · (W − T_j)` that `G` pays for `j`, up to the correction term. -/
namespace Ddo.Examples.TalentschedModel
open Ddo Ddo.Examples Ddo.Examples.Util Ddo.SpecUtil

/-- `P_j`: the actors of `P` who play in scene `j` -/
def pjOf (T : Tab) (P j : Nat) : Nat := actS T j &&& P
/-- `T_j`, `Q_j` exactly as `rubScenes` computes them -/
def tjOf (T : Tab) (P j : Nat) : Int := sum ((bits (pjOf T P j)).map (costA T))
def qjOf (T : Tab) (P j : Nat) : Int := sum ((bits (pjOf T P j)).map fun a => costA T a * costA T a)
/-- the scenes the bound looks at -/
def relS (T : Tab) (P Q0 j : Nat) : Bool := Q0.testBit j && (pjOf T P j != 0)

def Kq (T : Tab) (P Q0 : Nat) (den : Int) (q : List Nat) (a : Nat) : Int :=
  (q.map fun j => if relS T P Q0 j then (if (pjOf T P j).testBit a then durS T j * (den / tjOf T P j) else 0) else 0).sum

def Nq (T : Tab) (P Q0 : Nat) (den : Int) (q : List Nat) : Int :=
  (q.map fun j => if relS T P Q0 j then
    durS T j * (tjOf T P j * den + qjOf T P j * (den / tjOf T P j)) else 0).sum

/-- the actors of `P` in the order in which they leave -/
def piL (T : Tab) (P Q0 : Nat) : List Nat → List Nat
  | [] => []
  | j :: q => (List.range 64).filter (fun a => inU T P Q0 (j :: q) a && !inU T P Q0 q a) ++ piL T P Q0 q

theorem sumRange_zero_fn (n : Nat) : sumRange n (fun _ => (0 : Int)) = 0 := by
  induction n with
  | zero => rfl
  | succ n ih => rw [sumRange_succ, ih]; rfl

theorem inU_cons (T : Tab) (P Q0 j : Nat) (q : List Nat) (a : Nat) :
    inU T P Q0 (j :: q) a = (P.testBit a && ((Q0.testBit j && (actS T j).testBit a) || later T Q0 q a)) := by
  simp [inU, later]

theorem inU_mono (T : Tab) (P Q0 j : Nat) (q : List Nat) (a : Nat) (h : inU T P Q0 q a = true) :
    inU T P Q0 (j :: q) a = true := by
  rw [inU_cons]
  simp only [inU, Bool.and_eq_true] at h
  simp [h.1, h.2]

theorem sum_piL (T : Tab) (P Q0 : Nat) (f : Nat → Int) : ∀ q,
    ((piL T P Q0 q).map f).sum = sumRange 64 fun a => if inU T P Q0 q a then f a else 0 := by
  intro q
  induction q with
  | nil =>
    have : (sumRange 64 fun a => if inU T P Q0 [] a then f a else 0) = sumRange 64 fun _ => 0 :=
      sumRange_congr fun a _ => by simp [inU, later]
    rw [this, sumRange_zero_fn]; rfl
  | cons j q ih =>
    rw [piL, List.map_append, List.sum_append, ih, sum_map_filter]
    show sumRange 64 _ + _ = _
    rw [← sumRange_add]
    apply sumRange_congr
    intro a _
    cases h : inU T P Q0 q a
    · simp
    · simp [inU_mono T P Q0 j q a h]

theorem mem_piL (T : Tab) (P Q0 : Nat) : ∀ (q : List Nat) (a : Nat),
    a ∈ piL T P Q0 q ↔ a < 64 ∧ inU T P Q0 q a = true := by
  intro q
  induction q with
  | nil => intro a; simp [piL, inU, later]
  | cons j q ih =>
    intro a
    rw [piL, List.mem_append, List.mem_filter, List.mem_range, ih]
    cases h : inU T P Q0 q a
    · simp
    · simp [inU_mono T P Q0 j q a h]

theorem nodup_piL (T : Tab) (P Q0 : Nat) : ∀ q, (piL T P Q0 q).Nodup := by
  intro q
  induction q with
  | nil => exact List.nodup_nil
  | cons j q ih =>
    rw [piL, List.nodup_append]
    refine ⟨List.nodup_range.filter _, ih, fun a ha b hb e => ?_⟩
    subst e
    have h1 := (List.mem_filter.mp ha).2
    have h2 := ((mem_piL T P Q0 q a).mp hb).2
    simp [h2] at h1

theorem Kq_cons (T : Tab) (P Q0 : Nat) (den : Int) (j : Nat) (q : List Nat) (a : Nat) :
    Kq T P Q0 den (j :: q) a =
      (if relS T P Q0 j then (if (pjOf T P j).testBit a then durS T j * (den / tjOf T P j) else 0) else 0) + Kq T P Q0 den q a := by
  simp [Kq]

theorem Nq_cons (T : Tab) (P Q0 : Nat) (den : Int) (j : Nat) (q : List Nat) :
    Nq T P Q0 den (j :: q) =
      (if relS T P Q0 j then durS T j * (tjOf T P j * den + qjOf T P j * (den / tjOf T P j)) else 0) + Nq T P Q0 den q := by
  simp [Nq]

theorem testBit_pjOf (T : Tab) (P j a : Nat) : (pjOf T P j).testBit a = ((actS T j).testBit a && P.testBit a) := by
  simp [pjOf, Nat.testBit_and]

/-- an actor of `P` who plays in no later scene of `Q0` has key 0 -/
theorem Kq_zero (T : Tab) (P Q0 : Nat) (den : Int) (a : Nat) (hP : P.testBit a = true) : ∀ q, later T Q0 q a = false →
    Kq T P Q0 den q a = 0 := by
  intro q
  induction q with
  | nil => intro _; rfl
  | cons j q ih =>
    intro h
    simp only [later, List.any_cons, Bool.or_eq_false_iff] at h
    rw [Kq_cons, ih h.2]
    have : (relS T P Q0 j && (pjOf T P j).testBit a) = false := by
      rw [relS, testBit_pjOf, hP]
      have h1 := h.1
      cases hq : Q0.testBit j <;> cases ha : (actS T j).testBit a <;> simp_all
    cases hr : relS T P Q0 j
    · simp
    · rw [hr] at this
      simp only [Bool.true_and] at this
      simp [this]

theorem G_nonneg (T : Tab) (hn : NonNeg T) (P Q0 : Nat) : ∀ q, 0 ≤ G T P Q0 q := by
  intro q
  induction q with
  | nil => exact Int.le_refl _
  | cons j q ih =>
    rw [G]
    have : 0 ≤ (if Q0.testBit j then
        durS T j * sumRange 64 (fun a => if inU T P Q0 q a && !(actS T j).testBit a then costA T a else 0) else 0) := by
      split
      · apply Int.mul_nonneg (hn.dur j)
        apply sumRange_nonneg
        intro a _
        split
        · exact hn.cost a
        · exact Int.le_refl _
      · exact Int.le_refl _
    omega

/-- **the bound, along any order of scenes** -/
theorem smith_le_G (T : Tab) (hn : NonNeg T) (P Q0 : Nat) (den : Int) (hden : 0 ≤ den) : ∀ (q : List Nat),
    (∀ j ∈ q, relS T P Q0 j = true → den / tjOf T P j * tjOf T P j = den) →
    2 * posK (Kq T P Q0 den q) (costA T) 0 (piL T P Q0 q) ≤ 2 * den * G T P Q0 q + Nq T P Q0 den q := by
  intro q
  induction q with
  | nil => intro _; simp [posK, piL, G, Nq]
  | cons j q ih =>
    intro hdiv
    have ih' := ih fun j' hj' => hdiv j' (List.mem_cons_of_mem _ hj')
    have hGq := G_nonneg T hn P Q0 q
    by_cases hrel : relS T P Q0 j = true
    · -- the scene counts
      have hQj : Q0.testBit j = true := by
        simp only [relS, Bool.and_eq_true] at hrel; exact hrel.1
      have hw := hdiv j List.mem_cons_self hrel
      -- the keys
      have hkey : ∀ a, Kq T P Q0 den (j :: q) a =
          Kq T P Q0 den q a + (durS T j * (den / tjOf T P j)) * indK (fun a => (pjOf T P j).testBit a) a := by
        intro a
        rw [Kq_cons, if_pos hrel, indK]
        split <;> omega
      have hlin := posK_lin (Kq T P Q0 den q) (indK fun a => (pjOf T P j).testBit a) (costA T)
        (durS T j * (den / tjOf T P j)) (piL T P Q0 (j :: q)) 0 0
      simp only [Int.mul_zero, Int.add_zero] at hlin
      have hcongr := posK_congr (c := costA T) (piL T P Q0 (j :: q)) 0 (fun a _ => hkey a)
      rw [hcongr, hlin]
      -- the actors who leave after `j` have key 0 afterwards
      have hpre : posK (Kq T P Q0 den q) (costA T) 0 (piL T P Q0 (j :: q)) = posK (Kq T P Q0 den q) (costA T) 0 (piL T P Q0 q) := by
        rw [piL]
        apply posK_prefix_zero
        intro a ha
        have h1 := (List.mem_filter.mp ha).2
        simp only [Bool.and_eq_true, Bool.not_eq_true'] at h1
        have hP : P.testBit a = true := by
          have := h1.1; rw [inU_cons] at this; simp only [Bool.and_eq_true] at this; exact this.1
        apply Kq_zero T P Q0 den a hP
        have := h1.2
        simp only [inU, hP, Bool.true_and] at this
        exact this
      rw [hpre]
      -- the 0/1 part
      have hone := posK_ind_le (fun a => (pjOf T P j).testBit a) (costA T) hn.cost (piL T P Q0 (j :: q)) 0
      have hT : sumT (fun a => (pjOf T P j).testBit a) (costA T) (piL T P Q0 (j :: q)) = tjOf T P j := by
        rw [sumT, sum_piL, tjOf, sum_bits_eq]
        apply sumRange_congr
        intro a _
        rw [inU_cons, testBit_pjOf, hQj]
        cases (actS T j).testBit a <;> cases P.testBit a <;> simp
      have hQ : sumQ (fun a => (pjOf T P j).testBit a) (costA T) (piL T P Q0 (j :: q)) = qjOf T P j := by
        rw [sumQ, sum_piL, qjOf, sum_bits_eq]
        apply sumRange_congr
        intro a _
        rw [inU_cons, testBit_pjOf, hQj]
        cases (actS T j).testBit a <;> cases P.testBit a <;> simp
      have hW : sumW (costA T) (piL T P Q0 (j :: q)) = tjOf T P j +
          sumRange 64 (fun a => if inU T P Q0 q a && !(actS T j).testBit a then costA T a else 0) := by
        rw [sumW, sum_piL, tjOf, sum_bits_eq, ← sumRange_add]
        apply sumRange_congr
        intro a _
        rw [inU_cons, testBit_pjOf, hQj, inU]
        cases (actS T j).testBit a <;> cases P.testBit a <;> cases later T Q0 q a <;> simp
      rw [hT, hQ, hW] at hone
      rw [G, Nq_cons, if_pos hrel, if_pos hQj]
      have hS : 0 ≤ sumRange 64 (fun a => if inU T P Q0 q a && !(actS T j).testBit a then costA T a else 0) := by
        apply sumRange_nonneg
        intro a _
        split
        · exact hn.cost a
        · exact Int.le_refl _
      have hd := hn.dur j
      have htj : 0 ≤ tjOf T P j := by
        rw [tjOf, sum_bits_eq]
        apply sumRange_nonneg
        intro a _
        split
        · exact hn.cost a
        · exact Int.le_refl _
      have hwn : 0 ≤ den / tjOf T P j := Int.ediv_nonneg hden htj
      have hm : 0 ≤ durS T j * (den / tjOf T P j) := Int.mul_nonneg hd hwn
      revert hone ih' hw hm
      generalize posK (indK fun a => (pjOf T P j).testBit a) (costA T) 0 (piL T P Q0 (j :: q)) = Y
      generalize posK (Kq T P Q0 den q) (costA T) 0 (piL T P Q0 q) = X
      generalize sumRange 64 (fun a => if inU T P Q0 q a && !(actS T j).testBit a then costA T a else 0) = S
      generalize den / tjOf T P j = w
      generalize tjOf T P j = t
      generalize qjOf T P j = qq
      generalize durS T j = dj
      generalize G T P Q0 q = Gq
      generalize Nq T P Q0 den q = Nn
      intro ih' hw hone hm
      subst hw
      have h2 := Int.mul_le_mul_of_nonneg_left hone hm
      grind
    · -- the scene does not count: nobody of `P` plays in it, or it is not in `Q0`
      have hno : ∀ a, (Q0.testBit j && ((actS T j).testBit a && P.testBit a)) = false := by
        intro a
        cases hq : Q0.testBit j
        · rfl
        · simp only [relS, hq, Bool.true_and, bne_iff_ne, ne_eq, Decidable.not_not] at hrel
          have := testBit_pjOf T P j a
          rw [hrel] at this
          simp only [Nat.zero_testBit] at this
          rw [← this]; rfl
      have hinU : ∀ a, inU T P Q0 (j :: q) a = inU T P Q0 q a := by
        intro a
        rw [inU_cons, inU]
        have := hno a
        revert this
        cases Q0.testBit j <;> cases (actS T j).testBit a <;> cases P.testBit a <;> simp
      have hpi : piL T P Q0 (j :: q) = piL T P Q0 q := by
        rw [piL]
        have : (List.range 64).filter (fun a => inU T P Q0 (j :: q) a && !inU T P Q0 q a) = [] := by
          rw [List.filter_eq_nil_iff]
          intro a _
          rw [hinU]
          simp
        rw [this]; rfl
      have hK : ∀ a, Kq T P Q0 den (j :: q) a = Kq T P Q0 den q a := by
        intro a; rw [Kq_cons, if_neg hrel]; omega
      rw [hpi, posK_congr (c := costA T) (piL T P Q0 q) 0 (fun a _ => hK a), Nq_cons, if_neg hrel]
      have hG := G_nonneg T hn P Q0 (j :: q)
      have hstep : G T P Q0 q ≤ G T P Q0 (j :: q) := by
        have e : G T P Q0 (j :: q) = (if Q0.testBit j then
          durS T j * sumRange 64 (fun a => if inU T P Q0 q a && !(actS T j).testBit a then costA T a else 0) else 0) + G T P Q0 q := rfl
        rw [e]
        have : 0 ≤ (if Q0.testBit j then
            durS T j * sumRange 64 (fun a => if inU T P Q0 q a && !(actS T j).testBit a then costA T a else 0) else 0) := by
          split
          · apply Int.mul_nonneg (hn.dur j)
            apply sumRange_nonneg
            intro a _
            split
            · exact hn.cost a
            · exact Int.le_refl _
          · exact Int.le_refl _
        omega
      have := Int.mul_le_mul_of_nonneg_left hstep hden
      grind

end Ddo.Examples.TalentschedModel

section
open Ddo.Examples.TalentschedModel
#print axioms smith_le_G
end
