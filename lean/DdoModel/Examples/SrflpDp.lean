import DdoModel.Dp
import DdoModel.Examples.Util
import DdoModel.Examples.Srflp
/-! The DP model, relaxation, ranking and width heuristic of the shipped srflp example
    (`ddo/examples/srflp/{state,model,relax,heuristics,io_utils}.rs`) in Lean: definitions only (the driver engine `exmodel`,
    family `srflp`, compares them pointwise with the example's own code, compiled into the harness; statements about them
    are in `SrflpModel.lean`).

Mirror of the Rust code.  MINIMISATION: ddo maximises, every transition cost is MINUS a cost, `initial_value = 0`.
* `io_utils::read_instance`: `n`, the `n` lengths, `n` rows of `n` flows; when the file NAME contains "Cl" every length gets
  a clearance of `+10` (`clear`).  `Srflp::new`: `sorted_lengths` = the pairs `(length, department)` in increasing
  (lexicographic) order, `sorted_flows` = the triples `(flows[i][j], i, j)`, `i < j`, in increasing order — the UPPER triangle;
* the state is `(must_place, maybe_place : Option set, cut, depth)`: departments are placed from left to right, `depth` of them
  are placed, `must_place` are the free ones (exact states: all of them), `cut[i]` = the total flow between the placed
  departments and the free department `i`; `next_variable(depth) = depth` (for `depth < n`, whatever the states): variable
  `k` decides which department stands at position `k`;
* `for_each_in_domain(_, s)`: the members of `must_place` (increasing), then — if `n - depth - |must_place| > 0` — the members
  of `maybe_place` (increasing).  The variable is not read.  `usize` subtraction: a panic (overflow checks: the harness
  profile, and the debug profile the example's tests run in) when `depth > n` or `|must_place| > n - depth`;
* `transition(s, d)`: `d` leaves both sets (`maybe_place` becomes `None` when it gets empty), `cut[d] := 0`, `cut[i] +=
  flows[d][i]` for the remaining members of `must_place`, then of `maybe_place` — ROW `d` of the flow matrix; `depth + 1`;
* `transition_cost(s, d) = -(Σ_{i ∈ must, i ≠ d} cut[i] + the k least cut[i], i ∈ maybe, i ≠ d) * lengths[d]` with
  `k = n - (depth+1) - |must \ {d}|` (nothing from `maybe_place` when `k = 0`): everything that stays free is separated from
  everything placed by the department `d`;
* `merge`: `depth` = the greatest; `must_place` = `Set64::empty()` INTERSECTED with every `must_place` — ALWAYS EMPTY (the
  accumulator of the intersection starts empty: as shipped, a merged state never has a `must_place`; harmless for
  admissibility, it only weakens the relaxation; reported); `maybe_place` = the union of all `must_place` and `maybe_place`
  (minus the merged `must_place`), `None` if empty; `cut[i]` = the least `cut[i]` over the states that hold `i` in one of
  their sets, `isize::MAX` for the others; `relax` = the cost unchanged;
* `fast_upper_bound(s) = -(cut_bound + edge_bound)`, `k = n - depth` departments to place, `k(k-1)/2` flows among them:
  `lengths` = walking `sorted_lengths`, the lengths of `must_place` and of the first `k - |must|` members of `maybe_place`
  (these also go to `maybe_lengths`), stop at `k` lengths; `flows` = walking `sorted_flows`, the flows inside `must_place`, the
  first `|must| (k - |must|)` flows between `must_place` and `maybe_place`, the first `(k-|must|)(k-|must|-1)/2` flows inside
  `maybe_place`, stop at `k(k-1)/2` flows; `ratios` = `(cut[i] / lengths[i] as f32, lengths[i], cut[i])` for `must_place`, and
  for `i < k - |must|` the `i`-th least length of `maybe_lengths` with the `(k-|must|-1-i)`-th least cut of `maybe_place`;
  sorted DECREASING (ratio — `OrderedFloat<f32>` —, then length, then cut); `cut_bound = Σ (lengths before) * cut` — Smith's rule
  for the least weighted completion time, correct when the order is that of the EXACT ratios: two distinct ratios that round
  to the same `f32` (cuts in the millions) are ordered by length, the wrong way round half of the time, and the bound then
  exceeds the best completion (finding `srflp-rub-f32`, reproduced end to end);
  `edge_bound`: the `k-1` greatest flows times `0`, the next `k-2` times `lengths[0]`, the next `k-3` times
  `lengths[0] + lengths[1]`, …  Panics: `depth ≥ n` (`k - 1` on `usize` 0 — no compilation asks the bound of a terminal state),
  `|must| > k`, an index out of range (fewer candidates than needed);
* `SrflpRanking::compare` = comparison of `depth`; `SrflpWidth::max_width = nb_vars * factor`; `is_impacted_by` is the
  default of the trait (`true`); `root_value() = Σ_{i<j} 0.5 * (l_i + l_j) * flows[i][j]` (`f64`), and `main.rs` prints
  `Objective: -best_value + root_value()`.

Sets are increasing lists of department numbers.  Not modelled: departments `≥ 64` (`Set64`), members `≥ n`, `isize` overflow. -/
namespace Ddo.Examples.SrflpModel
open Ddo Ddo.Examples Ddo.Examples.Util

structure St where
  depth : Nat
  must : List Nat
  maybe : Option (List Nat)
  cut : List Int
deriving DecidableEq, Repr

def isizeMax : Int := 9223372036854775807

/-- lexicographic `≤` on pairs / triples -/
def le2 (a b : Int × Nat) : Bool := decide (a.1 < b.1) || (a.1 == b.1 && decide (a.2 ≤ b.2))
def le3 (a b : Int × Nat × Nat) : Bool :=
  decide (a.1 < b.1) || (a.1 == b.1 && (decide (a.2.1 < b.2.1) || (a.2.1 == b.2.1 && decide (a.2.2 ≤ b.2.2))))
def sortInts (l : List Int) : List Int := l.mergeSort (fun a b => decide (a ≤ b))

/-- what the model functions need: the instance as the reader built it and the tables of `Srflp::new` -/
structure Tab where
  n : Nat
  len : List Int
  flw : List (List Int)
  sl : List (Int × Nat)
  sf : List (Int × Nat × Nat)

/-- `read_instance` (clearance included) then `Srflp::new` -/
def tabOf (n : Nat) (lens : List Int) (flows : List (List Int)) (clear : Bool) : Tab :=
  let len := if clear then lens.map (· + 10) else lens
  let fl := fun (i j : Nat) => (flows.getD i []).getD j 0
  { n := n, len := len, flw := flows,
    sl := ((List.range n).map (fun i => (len.getD i 0, i))).mergeSort le2,
    sf := ((List.range n).flatMap (fun i => ((List.range n).filter (fun j => decide (i < j))).map (fun j => (fl i j, i, j)))).mergeSort le3 }

variable (T : Tab)

def lenOf (i : Nat) : Int := T.len.getD i 0
def flow (d i : Nat) : Int := (T.flw.getD d []).getD i 0

/-- twice `root_value()` -/
def root2 : Int :=
  sum ((List.range T.n).flatMap fun i => ((List.range T.n).filter (fun j => decide (i < j))).map fun j => (lenOf T i + lenOf T j) * flow T i j)

/-- how Rust prints the `f64` `x2 / 2` (an integer or a half-integer) with `{}` -/
def showHalf (x2 : Int) : String :=
  let a := x2.natAbs
  (if x2 < 0 then "-" else "") ++ toString (a / 2) ++ (if a % 2 = 1 then ".5" else "")

def initSt : St := { depth := 0, must := List.range T.n, maybe := none, cut := List.replicate T.n 0 }

def nextVar (depth : Nat) : Option Nat := if depth < T.n then some depth else none

/-- `for_each_in_domain`; `none` = a panic (`usize` underflow) -/
def domain? (s : St) : Option (List Int) :=
  if T.n < s.depth then none else
  let ca := T.n - s.depth
  if ca < s.must.length then none else
  let must := s.must.map Int.ofNat
  if ca - s.must.length > 0 then
    match s.maybe with
    | some mb => some (must ++ mb.map Int.ofNat)
    | none => some must
  else some must

/-- `cut[i] += flows[d][i]` for the members of a set -/
def addRow (d : Nat) (members : List Nat) (cut : List Int) : List Int :=
  members.foldl (fun c i => c.set i (c.getD i 0 + flow T d i)) cut

/-- `transition`; `none` = a panic (`cut[d]` out of range: no such department, a negative value) -/
def trans? (s : St) (d : Dec) : Option St :=
  if d.val < 0 then none else
  let k := d.val.toNat
  if s.cut.length ≤ k ∨ 64 ≤ k then none else
  let remaining := s.must.filter (· ≠ k)
  let maybes : Option (List Nat) := match s.maybe with
    | some mb => let mb' := mb.filter (· ≠ k); if mb'.isEmpty then none else some mb'
    | none => none
  let cut := addRow T k (maybes.getD []) (addRow T k remaining (s.cut.set k 0))
  some { depth := s.depth + 1, must := remaining, maybe := maybes, cut := cut }

/-- `transition_cost`; `none` = a panic (`usize` underflow, `lengths[d]` out of range) -/
def cost? (s : St) (d : Dec) : Option Int :=
  if d.val < 0 then none else
  let k := d.val.toNat
  match T.len[k]? with
  | none => none
  | some lk =>
    if T.n < s.depth + 1 then none else
    let ca := T.n - (s.depth + 1)
    let others := s.must.filter (· ≠ k)
    if ca < others.length then none else
    let ca := ca - others.length
    let cutM := sum (others.map (fun i => s.cut.getD i 0))
    let cutY := if ca > 0 then
        match s.maybe with
        | some mb => sum ((sortInts ((mb.filter (· ≠ k)).map (fun i => s.cut.getD i 0))).take ca)
        | none => 0
      else 0
    some (-(cutM + cutY) * lk)

def trans (s : St) (d : Dec) : St := (trans? T s d).getD s
def cost (s : St) (d : Dec) : Int := (cost? T s d).getD 0
def domain (s : St) : List Int := (domain? T s).getD []

def problem : Problem St :=
  { nbVars := T.n
    init := initSt T
    initVal := 0
    trans := trans T
    cost := fun s _ d => cost T s d
    nextVar := fun depth _ => nextVar T depth
    domain := fun _ s => domain T s
    impacted := fun _ _ => true }

/-- set operations on increasing lists -/
def insSet (x : Nat) : List Nat → List Nat
  | [] => [x]
  | y :: ys => if x < y then x :: y :: ys else if x = y then y :: ys else y :: insSet x ys
def unionSet (a b : List Nat) : List Nat := b.foldl (fun acc x => insSet x acc) a
def interSet (a b : List Nat) : List Nat := a.filter (fun x => b.contains x)
def diffSet (a b : List Nat) : List Nat := a.filter (fun x => !b.contains x)

/-- `cut[i] = cut[i].min(state.cut[i])` for the members of a set -/
def minCuts (src : List Int) (members : List Nat) (cut : List Int) : List Int :=
  members.foldl (fun c i => c.set i (min (c.getD i 0) (src.getD i 0))) cut

/-- `SrflpRelax::merge`: the intersection starts from the EMPTY set, the merged `must_place` is always empty -/
def mergeStates (states : List St) : St :=
  let depth := states.foldl (fun d s => max d s.depth) 0
  let must := states.foldl (fun m s => interSet m s.must) []
  let maybeU := states.foldl (fun u s => unionSet (unionSet u s.must) (s.maybe.getD [])) []
  let cut := states.foldl (fun c s => minCuts s.cut (s.maybe.getD []) (minCuts s.cut s.must c)) (List.replicate T.n isizeMax)
  let maybe := diffSet maybeU must
  { depth := depth, must := must, maybe := if maybe.isEmpty then none else some maybe, cut := cut }

-- ------------------------------------------------------------------------------------------------------------------
-- `f32` ratios of the rough bound

def roundHalfEven (a b : Nat) : Nat :=
  let q := a / b
  let r := a % b
  if 2 * r < b then q else if b < 2 * r then q + 1 else if q % 2 = 0 then q else q + 1

/-- the `f32` nearest to the positive rational `num / den` (ties to even) as `(m, e)`: the value `m * 2^e` with
    `2^23 ≤ m < 2^24` (the ranges of subnormal and infinite results are not modelled: integers of `isize` are far from them) -/
def roundPos (num den : Nat) : Nat × Int :=
  let lg : Int := (Nat.log2 num : Int) - (Nat.log2 den : Int)
  let scaled := fun (e : Int) => if e ≥ 0 then (num, den * 2 ^ e.toNat) else (num * 2 ^ (-e).toNat, den)
  let e0 := lg - 23
  let s0 := scaled e0
  let e := if s0.1 ≥ s0.2 * 2 ^ 23 then e0 else e0 - 1
  let s := scaled e
  let m := roundHalfEven s.1 s.2
  if m = 2 ^ 24 then (2 ^ 23, e + 1) else (m, e)

/-- `(c as f32) / (l as f32)` as a key ordered like `OrderedFloat<f32>`: `(class, ±exponent, ±mantissa)`, classes
    `-2` = −∞, `-1` = negative, `0` = zero (of either sign), `1` = positive, `2` = +∞, `3` = NaN (the greatest, equal to itself) -/
def ratioKey (c l : Int) : Int × Int × Int :=
  if l = 0 then (if c > 0 then (2, 0, 0) else if c < 0 then (-2, 0, 0) else (3, 0, 0))
  else if c = 0 then (0, 0, 0)
  else
    let sg : Int := if (c > 0) = (l > 0) then 1 else -1
    let fc := roundPos c.natAbs 1
    let fl := roundPos l.natAbs 1
    let d := fc.2 - fl.2
    let q := if d ≥ 0 then roundPos (fc.1 * 2 ^ d.toNat) fl.1 else roundPos fc.1 (fl.1 * 2 ^ (-d).toNat)
    (sg, sg * q.2, sg * (q.1 : Int))

def leKey (a b : Int × Int × Int) : Bool :=
  decide (a.1 < b.1) || (a.1 == b.1 && (decide (a.2.1 < b.2.1) || (a.2.1 == b.2.1 && decide (a.2.2 ≤ b.2.2))))
/-- `≤` on `(ratio, length, cut)` -/
def leRatio (a b : (Int × Int × Int) × Int × Int) : Bool :=
  if a.1 == b.1 then (decide (a.2.1 < b.2.1) || (a.2.1 == b.2.1 && decide (a.2.2 ≤ b.2.2))) else leKey a.1 b.1

/-- the first loop of the bound: `(lengths, maybe_lengths, quota, stopped)` -/
def lengthsLoop (s : St) (ca quota : Nat) : List Int × List Int :=
  let r := T.sl.foldl (fun (acc : List Int × List Int × Nat × Bool) (e : Int × Nat) =>
    if acc.2.2.2 then acc else
    let ls := acc.1; let ms := acc.2.1; let q := acc.2.2.1
    let nxt : List Int × List Int × Nat :=
      if s.must.contains e.2 then (ls ++ [e.1], ms, q)
      else match s.maybe with
        | some mb => if mb.contains e.2 ∧ q > 0 then (ls ++ [e.1], ms ++ [e.1], q - 1) else (ls, ms, q)
        | none => (ls, ms, q)
    (nxt.1, nxt.2.1, nxt.2.2, decide (nxt.1.length = ca))) ([], [], quota, false)
  (r.1, r.2.1)

/-- the second loop of the bound: the flows kept, in increasing order -/
def flowsLoop (s : St) (nFlows q1 q2 : Nat) : List Int :=
  (T.sf.foldl (fun (acc : List Int × Nat × Nat × Bool) (e : Int × Nat × Nat) =>
    if acc.2.2.2 then acc else
    let fs := acc.1; let a := acc.2.1; let b := acc.2.2.1
    let i := e.2.1; let j := e.2.2
    let nxt : List Int × Nat × Nat :=
      if s.must.contains i ∧ s.must.contains j then (fs ++ [e.1], a, b)
      else match s.maybe with
        | some mb =>
          if a > 0 ∧ ((s.must.contains i ∧ mb.contains j) ∨ (mb.contains i ∧ s.must.contains j)) then (fs ++ [e.1], a - 1, b)
          else if mb.contains i ∧ mb.contains j ∧ b > 0 then (fs ++ [e.1], a, b - 1)
          else (fs, a, b)
        | none => (fs, a, b)
    (nxt.1, nxt.2.1, nxt.2.2, decide (nxt.1.length = nFlows))) ([], q1, q2, false)).1

/-- the last loop of the bound; `none` = an index out of range -/
def edgeBound? (flows lengths : List Int) (nFlows ca : Nat) : Option Int := do
  let r ← (List.range (ca - 1)).foldlM (fun (acc : Int × Nat × Int) (i : Nat) => do
      let inner ← (List.range (ca - (i + 1))).foldlM (fun (a : Int × Nat) (_ : Nat) => do
          let f ← flows[nFlows - 1 - a.2]?
          pure (a.1 + acc.2.2 * f, a.2 + 1)) (acc.1, acc.2.1)
      let l ← lengths[i]?
      pure (inner.1, inner.2, acc.2.2 + l)) ((0 : Int), (0 : Nat), (0 : Int))
  pure r.1

/-- `≤` on `(ratio, length, cut)` with the ratios compared EXACTLY (`c/l ≤ c'/l'` iff `c l' ≤ c' l`, positive lengths): what the
    sort of the bound would be without the rounding to `f32` (used only to name the violations that are due to the rounding) -/
def leRatioExact (a b : (Int × Int × Int) × Int × Int) : Bool :=
  let x := a.2.2 * b.2.1
  let y := b.2.2 * a.2.1
  if x == y then (decide (a.2.1 < b.2.1) || (a.2.1 == b.2.1 && decide (a.2.2 ≤ b.2.2))) else decide (x < y)

/-- `fast_upper_bound` with the order `le` on `(ratio, length, cut)`; `none` = a panic -/
def rubWith? (le : (Int × Int × Int) × Int × Int → (Int × Int × Int) × Int × Int → Bool) (s : St) : Option Int := do
  if T.n < s.depth then none
  let ca := T.n - s.depth
  if ca = 0 then none
  let nFlows := ca * (ca - 1) / 2
  let nMust := s.must.length
  if ca < nMust then none
  let nFromMaybe := ca - nMust
  let ll := lengthsLoop T s ca nFromMaybe
  let lengths := ll.1
  let maybeLengths := ll.2
  let flows := flowsLoop T s nFlows (nMust * nFromMaybe) (nFromMaybe * (nFromMaybe - 1) / 2)
  let r1 := s.must.map (fun i => (ratioKey (s.cut.getD i 0) (lenOf T i), lenOf T i, s.cut.getD i 0))
  let r2 ← match s.maybe with
    | none => some []
    | some mb =>
      let maybeCuts := sortInts (mb.map (fun i => s.cut.getD i 0))
      (List.range nFromMaybe).mapM (fun i => do
        let l ← maybeLengths[i]?
        let c ← maybeCuts[nFromMaybe - 1 - i]?
        pure (ratioKey c l, l, c))
  let ratios := (r1 ++ r2).mergeSort (fun a b => le b a)
  let cutBound := (ratios.foldl (fun (acc : Int × Int) r => (acc.1 + acc.2 * r.2.2, acc.2 + r.2.1)) (0, 0)).1
  let edgeBound ← edgeBound? flows lengths nFlows ca
  pure (-(cutBound + edgeBound))

/-- `fast_upper_bound` AS SHIPPED BEFORE the repair (`fix:` commit of /repo, finding D16): the ratios are compared as
    `OrderedFloat<f32>`, then by length, then by cut.  Kept with its violation witness (`SrflpModel.RubF32CounterexampleStmt`,
    the first generated case of the family). -/
def rubF32? (s : St) : Option Int := rubWith? T leRatio s
/-- the bound with exactly compared ratios -/
def rubExactRatio? (s : St) : Option Int := rubWith? T leRatioExact s
/-- `fast_upper_bound` (repaired code: `sort_unstable_by(|(l1, c1), (l2, c2)| (c2 * l1).cmp(&(c1 * l2)))` — decreasing exact
    ratio; the order among EQUAL ratios does not change `cut_bound`: swapping two neighbours changes it by `l c' - l' c = 0`);
    `none` = a panic -/
def rub? (s : St) : Option Int := rubExactRatio? T s

def relaxation : Relax St :=
  { merge := mergeStates T
    relax := fun _ _ _ _ c => c
    rub := fun s => (rub? T s).getD 0 }

/-- `SrflpRanking::compare` -/
def rankCmp (a b : St) : Ordering := compare a.depth b.depth
/-- `SrflpWidth::max_width` -/
def maxWidth (nbVars factor : Nat) : Nat := nbVars * factor

-- ------------------------------------------------------------------------------------------------------------------
-- what the driver evaluates pointwise (exhaustive enumeration over the remaining positions with the model's own functions)

/-- the value-to-go of `s`: the best total transition cost over ALL completions of `s` (every sequence of decisions, each
    in the domain of the state reached, down to `depth = n`); `none` = −∞, no completion.  `fuel ≥ n - s.depth`. -/
def bestRemF : Nat → St → EInt
  | 0, _ => some 0
  | fuel + 1, s =>
    if T.n ≤ s.depth then some 0 else
    (domain T s).foldl (fun acc v => EInt.max acc ((bestRemF fuel (trans T s ⟨s.depth, v⟩)).addI (cost T s ⟨s.depth, v⟩))) none
def bestRem (s : St) : EInt := bestRemF T (T.n - s.depth) s

/-- the instance is in the domain of the example: one positive length per department, a square matrix of symmetric
    non-negative flows -/
def inDomainB : Bool :=
  let ds := List.range T.n
  T.len.length == T.n && T.len.all (fun l => decide (0 < l)) && T.flw.length == T.n && T.flw.all (fun r => r.length == T.n)
  && ds.all (fun i => ds.all (fun j => decide (0 ≤ flow T i j) && (i == j || flow T i j == flow T j i)))

/-- the layer-validity predicate (`V` of `WfRel`), decided: not a terminal state, the two sets are disjoint sets of departments,
    `must_place` fits in the free positions and the two sets together fill them, one cut per department, the cuts of the
    members are non-negative (and no `isize::MAX` left by a merge).  It holds at the root (`n ≥ 1`), is kept by transitions on
    decisions of the domain (until the terminal layer) and by merges of valid states of one depth. -/
def validB (s : St) : Bool :=
  let mb := s.maybe.getD []
  decide (s.depth < T.n) && s.cut.length == T.n
  && (s.must ++ mb).all (fun i => decide (i < T.n) && decide (0 ≤ s.cut.getD i 0) && decide (s.cut.getD i 0 < 4611686018427387904))
  && s.must.all (fun i => !mb.contains i)
  && decide (s.must.length ≤ T.n - s.depth) && decide (T.n - s.depth ≤ s.must.length + mb.length)

/-- `RubOk` at one state: the bound `r` claimed for `s` dominates the value-to-go -/
def rubOkAt (s : St) (r : Int) : Bool := decide (bestRem T s ≤ some r)

/-- `MergeOk` (potential form, `Wf.lean`) at one merged-away state `u`, merged state `m`, arc cost `c` relaxed to `r`:
    if `u` has a completion worth `h` then `m` has one worth `h'` with `c + h ≤ r + h'` -/
def mergeOkAt (u m : St) (c r : Int) : Bool :=
  match bestRem T u with
  | none => true
  | some h =>
    match bestRem T m with
    | none => false
    | some h' => decide (c + h ≤ r + h')

-- ------------------------------------------------------------------------------------------------------------------
-- the independent specification (`Srflp.lean`), tabulated once per instance

/-- all orders of the departments with TWICE their cost, by the specification's own `perms` and `cost2`
    (`Srflp.spec` is the least cost of this table) -/
def specTable : List (List Nat × Int) :=
  (Srflp.perms (List.range T.n)).map fun p => (p, Srflp.cost2 (lenOf T) (flow T) p)

/-- twice the specification's least cost among the orders that begin with the decisions `decs`; `none` = there is none -/
def specBestExt (tbl : List (List Nat × Int)) (decs : List Int) : Option Int :=
  let pre := decs.map Int.toNat
  if decs.any (· < 0) then none else
  minOf ((tbl.filter (fun e => e.1.take pre.length == pre)).map (·.2))

/-- twice the objective `main.rs` prints for a solution whose prefix is worth `v` and can be completed for `h` more:
    `-(v + h) + root_value()` -/
def printed2 (v : Int) (h : EInt) : Option Int := h.map (fun h => root2 T - 2 * (v + h))

end Ddo.Examples.SrflpModel
