import DdoModel.Examples.Util
/-! Specification of the psp example (`ddo/examples/psp`): PIGMENT SEQUENCING PROBLEM (discrete lot sizing
    with stocking and sequence-dependent changeover costs, CSPLib 058).
    One machine, periods `0..T-1`, items `0..n-1`.  In each period the machine produces one unit of one
    item or stays idle.  `d[i][t] ∈ {0,1}` units of item `i` are due at the end of period `t`; a unit may be
    produced in its due period or earlier, in which case it is stocked at cost `h[i]` per period; exactly
    the demanded units are produced.  Whenever item `a` is produced and the NEXT produced item (idle periods
    skipped) is `b`, the changeover cost `q[a][b]` is paid (`q[a][a]` is 0 in every in-domain instance).
    Minimise total stocking + changeover cost.  ddo maximises minus the cost and the program prints the
    cost itself: `Objective: <min cost>`; when the demands cannot be met in time it prints `-1`.
    Instance file: `T`, `n`, `number of orders` on three lines, blank, `n` rows of `q` (row = from, column =
    to), blank, one row `h`, blank, `n` rows of `T` demands, optionally blank + a reference optimum.
    By exhaustive enumeration of all `(n+1)^T` production plans with the textbook inventory balance
    (stock of i after period t = produced up to t − due up to t ≥ 0, and 0 at the end), independently of
    the DP model. -/
namespace Ddo.Examples.Psp
open Ddo.Examples.Util

structure Inst where
  T : Nat
  n : Nat
  q : List (List Int)
  h : List Int
  d : List (List Int)

/-- a plan gives for each period `some item` or `none` (idle) -/
abbrev Plan := List (Option Nat)

/-- units of item `i` in stock at the end of period `t` -/
def stock (I : Inst) (p : Plan) (i t : Nat) : Int :=
  ((p.take (t + 1)).count (some i) : Int) - sum ((I.d.getD i []).take (t + 1))

def feasible (I : Inst) (p : Plan) : Bool :=
  (List.range I.n).all fun i =>
    (List.range I.T).all (fun t => decide (stock I p i t ≥ 0)) && (stock I p i (I.T - 1) == 0)

def stockingCost (I : Inst) (p : Plan) : Int :=
  sum <| (List.range I.n).map fun i => sum <| (List.range I.T).map fun t => I.h.getD i 0 * stock I p i t

def changeoverCost (I : Inst) : List Nat → Int
  | a :: b :: rest => (I.q.getD a []).getD b 0 + changeoverCost I (b :: rest)
  | _ => 0

def best (I : Inst) : Int :=
  let dom : List (Option Nat) := none :: (List.range I.n).map some
  let costs := (tuples dom I.T).filterMap fun p =>
    if feasible I p then some (stockingCost I p + changeoverCost I (p.filterMap id)) else none
  (minOf costs).getD (-1)

/-- tokens: `T n q[0][0] … q[n-1][n-1] h[0] … h[n-1] d[0][0] … d[0][T-1] … d[n-1][T-1]` -/
def specFromTokens : List Int → Option Int
  | T :: n :: rest =>
    if T < 1 ∨ n < 1 then none else
    let T := T.toNat; let n := n.toNat
    if rest.length ≠ n * n + n + n * T then none else do
      let q ← rows? n n (rest.take (n * n))
      let h := (rest.drop (n * n)).take n
      let d ← rows? T n (rest.drop (n * n + n))
      if d.all (·.all fun x => x = 0 ∨ x = 1) then pure (best { T, n, q, h, d }) else none
  | _ => none

end Ddo.Examples.Psp
