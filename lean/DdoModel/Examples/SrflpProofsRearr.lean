import DdoModel.Examples.SrflpModel
/-! The rearrangement inequality on lists of integers (no sign hypotheses), monotonicity of the sum of products, and the
    closed form of the last loop of the srflp rough bound (`edgeBound?`): the `dot` product of the flows read from the end with
    the weights `edgeWeights`. -/
namespace Ddo.Examples.SrflpModel
open Ddo Ddo.Examples Ddo.Examples.Util

/-! ### Part 1: the rearrangement inequality -/

def dot (xs ys : List Int) : Int := (List.zipWith (· * ·) xs ys).sum

@[simp] theorem dot_nil_left (ys : List Int) : dot [] ys = 0 := by simp [dot]
@[simp] theorem dot_nil_right (xs : List Int) : dot xs [] = 0 := by simp [dot]
@[simp] theorem dot_cons (x y : Int) (xs ys : List Int) : dot (x :: xs) (y :: ys) = x * y + dot xs ys := by
  simp [dot]

/-- a sum does not depend on the order of its terms -/
theorem perm_sum {l₁ l₂ : List Int} (h : l₁.Perm l₂) : l₁.sum = l₂.sum := by
  induction h with
  | nil => rfl
  | cons x _ ih => simp [ih]
  | swap x y l => simp only [List.sum_cons]; omega
  | trans _ _ ih1 ih2 => exact ih1.trans ih2

/-- `0 ≤ (x - xb) * (ya - y)` spelled out -/
theorem swap_le {x xb y ya : Int} (hx : xb ≤ x) (hy : y ≤ ya) : x * y + xb * ya ≤ x * ya + xb * y := by
  have h : 0 ≤ (x - xb) * (ya - y) := Int.mul_nonneg (by omega) (by omega)
  have e : (x - xb) * (ya - y) = x * ya + xb * y - (x * y + xb * ya) := by grind
  rw [e] at h
  omega

theorem rearrangement_aux : ∀ (n : Nat) (ps : List (Int × Int)) (xs ys : List Int), ps.length = n →
    xs.Perm (ps.map Prod.fst) → ys.Perm (ps.map Prod.snd) → xs.Pairwise (· ≥ ·) → ys.Pairwise (· ≤ ·) →
    dot xs ys ≤ (ps.map (fun p => p.1 * p.2)).sum := by
  intro n
  induction n with
  | zero =>
    intro ps xs ys hn hx hy _ _
    have hps : ps = [] := List.length_eq_zero_iff.mp hn
    subst hps
    have : xs = [] := by simpa using hx
    subst this
    simp
  | succ n ih =>
    intro ps xs ys hn hx hy hxs hys
    have hxl : xs.length = n + 1 := by rw [hx.length_eq]; simpa using hn
    have hyl : ys.length = n + 1 := by rw [hy.length_eq]; simpa using hn
    cases xs with
    | nil => simp at hxl
    | cons x xs' =>
    cases ys with
    | nil => simp at hyl
    | cons y ys' =>
    have hxmem : x ∈ ps.map Prod.fst := hx.subset List.mem_cons_self
    obtain ⟨⟨x', ya⟩, hp, hx'⟩ := List.mem_map.1 hxmem
    simp only at hx'
    subst hx'
    have hps : ps.Perm ((x', ya) :: ps.erase (x', ya)) := List.perm_cons_erase hp
    generalize ps.erase (x', ya) = ps1 at hps
    have hl1 : ps1.length = n := by
      have := hps.length_eq
      simp at this; omega
    have hx1 : xs'.Perm (ps1.map Prod.fst) := by
      have := hx.trans (hps.map Prod.fst)
      simp only [List.map_cons] at this
      exact this.cons_inv
    have hy1 : (y :: ys').Perm (ya :: ps1.map Prod.snd) := by
      have := hy.trans (hps.map Prod.snd)
      simpa only [List.map_cons] using this
    have hsum : (ps.map (fun p => p.1 * p.2)).sum = x' * ya + (ps1.map (fun p => p.1 * p.2)).sum := by
      rw [perm_sum (hps.map _)]; simp
    rw [hsum, dot_cons]
    by_cases hyy : y = ya
    · subst hyy
      have := ih ps1 xs' ys' hl1 hx1 hy1.cons_inv hxs.of_cons hys.of_cons
      omega
    · have hymem : y ∈ ps1.map Prod.snd := by
        have : y ∈ ya :: ps1.map Prod.snd := hy1.subset List.mem_cons_self
        rcases List.mem_cons.1 this with h | h
        · exact absurd h hyy
        · exact h
      obtain ⟨⟨xb, y'⟩, hq, hy'⟩ := List.mem_map.1 hymem
      simp only at hy'
      subst hy'
      have hps1 : ps1.Perm ((xb, y') :: ps1.erase (xb, y')) := List.perm_cons_erase hq
      generalize ps1.erase (xb, y') = ps2 at hps1
      have hl2 : ((xb, ya) :: ps2).length = n := by
        have := hps1.length_eq
        simp at this; simp; omega
      have hx2 : xs'.Perm (((xb, ya) :: ps2).map Prod.fst) := by
        have := hx1.trans (hps1.map Prod.fst)
        simpa only [List.map_cons] using this
      have hy2 : ys'.Perm (((xb, ya) :: ps2).map Prod.snd) := by
        have h1 : (ya :: ps1.map Prod.snd).Perm (ya :: y' :: ps2.map Prod.snd) := by
          have := (hps1.map Prod.snd).cons ya
          simpa only [List.map_cons] using this
        have h2 := (hy1.trans h1).trans (List.Perm.swap y' ya _)
        simpa only [List.map_cons] using h2.cons_inv
      have hsum1 : (ps1.map (fun p => p.1 * p.2)).sum = xb * y' + (ps2.map (fun p => p.1 * p.2)).sum := by
        rw [perm_sum (hps1.map _)]; simp
      have hih := ih ((xb, ya) :: ps2) xs' ys' hl2 hx2 hy2 hxs.of_cons hys.of_cons
      simp only [List.map_cons, List.sum_cons] at hih
      have hxb : xb ≤ x' := by
        have : xb ∈ xs' := hx2.symm.subset (by simp)
        exact List.rel_of_pairwise_cons hxs this
      have hya : y' ≤ ya := by
        have : ya ∈ ys' := hy2.symm.subset (by simp)
        exact List.rel_of_pairwise_cons hys this
      have := swap_le hxb hya
      rw [hsum1]
      omega

/-- rearrangement inequality: pairing the values `x` in DEcreasing order with the values `y` in INcreasing order gives the
    least sum of products among all pairings `ps` of the same values -/
theorem rearrangement (ps : List (Int × Int)) (xs ys : List Int)
    (hx : xs.Perm (ps.map Prod.fst)) (hy : ys.Perm (ps.map Prod.snd))
    (hxs : xs.Pairwise (· ≥ ·)) (hys : ys.Pairwise (· ≤ ·)) :
    dot xs ys ≤ (ps.map (fun p => p.1 * p.2)).sum :=
  rearrangement_aux ps.length ps xs ys rfl hx hy hxs hys

/-- `dot` is monotone in its right argument when the left one is non-negative.  (Core has no `List.Forall₂`, and
    `SrflpProofsSmith.lean` declares one at the root: to stay importable together the position-by-position `≤` is stated here
    with `zip`.) -/
theorem dot_mono_right (xs : List Int) (hx : ∀ x ∈ xs, 0 ≤ x) : ∀ (ys ys' : List Int),
    ys.length = ys'.length → (∀ p ∈ ys.zip ys', p.1 ≤ p.2) → dot xs ys ≤ dot xs ys' := by
  induction xs with
  | nil => intro ys ys' _ _; simp
  | cons x xs ih =>
    intro ys ys' hl h
    cases ys with
    | nil =>
      cases ys' with
      | nil => simp
      | cons _ _ => simp at hl
    | cons y ys =>
      cases ys' with
      | nil => simp at hl
      | cons y' ys' =>
        simp only [dot_cons]
        have hy : y ≤ y' := h (y, y') (by simp)
        have h1 := ih (fun z hz => hx z (List.mem_cons_of_mem _ hz)) ys ys' (by simpa using hl)
          (fun p hp => h p (by simp only [List.zip_cons_cons]; exact List.mem_cons_of_mem _ hp))
        have h2 := Int.mul_le_mul_of_nonneg_left hy (hx x List.mem_cons_self)
        omega

/-- weights may be lowered: if every triple `(x, w', w)` of `ps` has `0 ≤ x` and `w' ≤ w`, the sum of the `x * w'` is at most
    the sum of the `x * w` -/
theorem sum_mul_mono (ps : List (Int × Int × Int)) (h : ∀ p ∈ ps, 0 ≤ p.1 ∧ p.2.1 ≤ p.2.2) :
    (ps.map (fun p => p.1 * p.2.1)).sum ≤ (ps.map (fun p => p.1 * p.2.2)).sum := by
  induction ps with
  | nil => simp
  | cons p ps ih =>
    simp only [List.map_cons, List.sum_cons]
    have h1 := ih (fun q hq => h q (List.mem_cons_of_mem _ hq))
    have ⟨h0, hw⟩ := h p List.mem_cons_self
    have h2 := Int.mul_le_mul_of_nonneg_left hw h0
    omega

/-! ### Part 2: the last loop of the rough bound in closed form -/

/-- `cum` repeated `m` times, then `cum + l₀` repeated `m-1` times, … : the weights of the edge bound, `m = ca - 1` -/
def edgeWeights : Int → Nat → List Int → List Int
  | _, 0, _ => []
  | cum, m + 1, ls => List.replicate (m + 1) cum ++ (match ls with | [] => [] | l :: ls' => edgeWeights (cum + l) m ls')

theorem edgeWeights_ge (cum : Int) (m : Nat) (ls : List Int) (hls : ∀ l ∈ ls, 0 ≤ l) :
    ∀ w ∈ edgeWeights cum m ls, cum ≤ w := by
  induction m generalizing cum ls with
  | zero => intro w hw; simp [edgeWeights] at hw
  | succ m ih =>
    intro w hw
    cases ls with
    | nil =>
      simp only [edgeWeights, List.append_nil] at hw
      have := (List.mem_replicate.1 hw).2
      omega
    | cons l ls' =>
      simp only [edgeWeights, List.mem_append] at hw
      rcases hw with hw | hw
      · have := (List.mem_replicate.1 hw).2
        omega
      · have := ih (cum + l) ls' (fun z hz => hls z (List.mem_cons_of_mem _ hz)) w hw
        have := hls l List.mem_cons_self
        omega

/-- the weights increase when the lengths are non-negative -/
theorem edgeWeights_pairwise (cum : Int) (m : Nat) (ls : List Int) (hls : ∀ l ∈ ls, 0 ≤ l) :
    (edgeWeights cum m ls).Pairwise (· ≤ ·) := by
  induction m generalizing cum ls with
  | zero => simp [edgeWeights]
  | succ m ih =>
    have hrep : (List.replicate (m + 1) cum).Pairwise (· ≤ ·) :=
      List.pairwise_replicate.2 (Or.inr (Int.le_refl _))
    cases ls with
    | nil => simpa only [edgeWeights, List.append_nil] using hrep
    | cons l ls' =>
      simp only [edgeWeights]
      refine List.pairwise_append.2 ⟨hrep, ih _ _ (fun z hz => hls z (List.mem_cons_of_mem _ hz)), ?_⟩
      intro a ha b hb
      have h1 := (List.mem_replicate.1 ha).2
      have h2 := edgeWeights_ge (cum + l) m ls' (fun z hz => hls z (List.mem_cons_of_mem _ hz)) b hb
      have := hls l List.mem_cons_self
      omega

/-- the triangular numbers, by recursion (so that `omega` can be used) -/
def tri : Nat → Nat
  | 0 => 0
  | m + 1 => tri m + (m + 1)

theorem tri_two_mul (m : Nat) : 2 * tri m = m * (m + 1) := by
  induction m with
  | zero => rfl
  | succ m ih =>
    simp only [tri]
    have : (m + 1) * (m + 1 + 1) = m * (m + 1) + 2 * (m + 1) := by grind
    omega

theorem tri_eq (m : Nat) : tri m = m * (m + 1) / 2 := by
  have := tri_two_mul m
  omega

theorem edgeWeights_length_tri (cum : Int) (m : Nat) (ls : List Int) (h : m ≤ ls.length + 1) :
    (edgeWeights cum m ls).length = tri m := by
  induction m generalizing cum ls with
  | zero => simp [edgeWeights, tri]
  | succ m ih =>
    cases ls with
    | nil =>
      have : m = 0 := by simp at h; omega
      subst this
      simp [edgeWeights, tri]
    | cons l ls' =>
      simp only [edgeWeights, List.length_append, List.length_replicate, tri]
      rw [ih _ _ (by simpa using h)]
      omega

/-- there are `m (m + 1) / 2` weights, if there are at least `m - 1` lengths -/
theorem edgeWeights_length (cum : Int) (m : Nat) (ls : List Int) (h : m ≤ ls.length + 1) :
    (edgeWeights cum m ls).length = m * (m + 1) / 2 := by
  rw [edgeWeights_length_tri cum m ls h, tri_eq]

theorem dot_replicate_append (c : Int) (k : Nat) (W : List Int) : ∀ xs : List Int, k ≤ xs.length →
    dot xs (List.replicate k c ++ W) = c * (xs.take k).sum + dot (xs.drop k) W := by
  induction k with
  | zero => intro xs _; simp
  | succ k ih =>
    intro xs h
    cases xs with
    | nil => simp at h
    | cons x xs' =>
      have h' : k ≤ xs'.length := by simpa using h
      simp only [List.replicate_succ, List.cons_append, dot_cons, List.take_succ_cons, List.sum_cons, List.drop_succ_cons,
        ih xs' h']
      grind

/-- the inner loop: `l.length` more flows, read from the end, are charged `cum` each -/
theorem inner_fold {α : Type} (flows : List Int) (cum : Int) (l : List α) : ∀ (a : Int) (idx : Nat),
    idx + l.length ≤ flows.length →
    l.foldlM (fun (a : Int × Nat) (_ : α) => do
        let f ← flows[flows.length - 1 - a.2]?
        pure (a.1 + cum * f, a.2 + 1)) (a, idx)
      = some (a + cum * ((flows.reverse.drop idx).take l.length).sum, idx + l.length) := by
  induction l with
  | nil => intro a idx _; simp
  | cons x l ih =>
    intro a idx h
    simp only [List.length_cons] at h
    have hlt : idx < flows.reverse.length := by simp; omega
    have hget : flows[flows.length - 1 - idx]? = some (flows.reverse[idx]) := by
      rw [← List.getElem?_reverse (by omega)]
      exact List.getElem?_eq_getElem hlt
    rw [List.foldlM_cons]
    simp only [hget, Option.bind_eq_bind, Option.bind_some, Option.pure_def] at ih ⊢
    rw [ih _ _ (by omega), List.drop_eq_getElem_cons hlt, List.length_cons, List.take_succ_cons, List.sum_cons]
    congr 2
    · grind
    · omega

/-- one round of the outer loop of `edgeBound?` -/
def edgeStep (flows lengths : List Int) (nFlows ca : Nat) (acc : Int × Nat × Int) (i : Nat) : Option (Int × Nat × Int) := do
  let inner ← (List.range (ca - (i + 1))).foldlM (fun (a : Int × Nat) (_ : Nat) => do
      let f ← flows[nFlows - 1 - a.2]?
      pure (a.1 + acc.2.2 * f, a.2 + 1)) (acc.1, acc.2.1)
  let l ← lengths[i]?
  pure (inner.1, inner.2, acc.2.2 + l)

theorem edgeBound?_eq_step (flows lengths : List Int) (nFlows ca : Nat) :
    edgeBound? flows lengths nFlows ca
      = ((List.range (ca - 1)).foldlM (edgeStep flows lengths nFlows ca) ((0 : Int), (0 : Nat), (0 : Int))).bind
          (fun r => some r.1) := rfl

theorem outer_fold (flows lengths : List Int) (ca : Nat) : ∀ (m i : Nat) (a : Int) (idx : Nat) (cum : Int) (ls : List Int),
    i + m + 1 = ca → lengths.drop i = ls → m ≤ ls.length → idx + tri m ≤ flows.length →
    ∃ idx' cum', (List.range' i m).foldlM (edgeStep flows lengths flows.length ca) (a, idx, cum)
      = some (a + dot (flows.reverse.drop idx) (edgeWeights cum m ls), idx', cum') := by
  intro m
  induction m with
  | zero =>
    intro i a idx cum ls _ _ _ _
    exact ⟨idx, cum, by simp [edgeWeights]⟩
  | succ m ih =>
    intro i a idx cum ls hca hls hm hidx
    cases ls with
    | nil => simp at hm
    | cons l0 ls' =>
    simp only [tri] at hidx
    have hget : lengths[i]? = some l0 := by
      have := List.getElem?_drop (xs := lengths) (i := i) (j := 0)
      rw [hls] at this
      simpa using this.symm
    have hls' : lengths.drop (i + 1) = ls' := by
      have : (lengths.drop i).drop 1 = ls' := by rw [hls]; rfl
      rw [← this, List.drop_drop]
    have hcnt : ca - (i + 1) = m + 1 := by omega
    have hstep : edgeStep flows lengths flows.length ca (a, idx, cum) i
        = some (a + cum * ((flows.reverse.drop idx).take (m + 1)).sum, idx + (m + 1), cum + l0) := by
      unfold edgeStep
      simp only [hcnt]
      rw [inner_fold flows cum (List.range (m + 1)) a idx (by simp; omega)]
      simp [hget]
    obtain ⟨idx', cum', h⟩ := ih (i + 1) (a + cum * ((flows.reverse.drop idx).take (m + 1)).sum) (idx + (m + 1)) (cum + l0) ls'
      (by omega) hls' (by simpa using hm) (by omega)
    refine ⟨idx', cum', ?_⟩
    rw [List.range'_succ, List.foldlM_cons, hstep]
    simp only [Option.bind_eq_bind, Option.bind_some]
    rw [h]
    simp only [edgeWeights]
    rw [dot_replicate_append cum (m + 1) _ _ (by simp; omega), List.drop_drop]
    congr 2
    omega

theorem edgeBound?_eq (flows lengths : List Int) (ca : Nat) (hca : 1 ≤ ca) (hF : flows.length = ca * (ca - 1) / 2)
    (hL : ca - 1 ≤ lengths.length) :
    edgeBound? flows lengths (ca * (ca - 1) / 2) ca = some (dot flows.reverse (edgeWeights 0 (ca - 1) lengths)) := by
  rw [edgeBound?_eq_step, ← hF, List.range_eq_range']
  have htri : 0 + tri (ca - 1) ≤ flows.length := by
    rw [hF, tri_eq]
    have : ca - 1 + 1 = ca := by omega
    rw [this, Nat.mul_comm]
    omega
  obtain ⟨idx', cum', h⟩ := outer_fold flows lengths ca (ca - 1) 0 0 0 0 lengths (by omega) rfl hL htri
  rw [h]
  simp

example : edgeWeights 0 3 [1, 2, 3] = [0, 0, 0, 1, 1, 3] := by decide
example : edgeBound? [1, 2, 3, 4, 5, 6] [1, 2, 3] 6 4 = some (3 * 1 + 2 * 1 + 1 * 3) := by decide

/-- the edge bound is at most the sum of products of ANY pairing of the (increasing) flows with the weights `edgeWeights`
    (non-negative lengths): `edgeBound?_eq` and the rearrangement inequality -/
theorem edgeBound?_le (flows lengths : List Int) (ca : Nat) (hca : 1 ≤ ca) (hF : flows.length = ca * (ca - 1) / 2)
    (hL : ca - 1 ≤ lengths.length) (hfl : flows.Pairwise (· ≤ ·)) (hls : ∀ l ∈ lengths, 0 ≤ l)
    (ps : List (Int × Int)) (hx : flows.Perm (ps.map Prod.fst))
    (hy : (edgeWeights 0 (ca - 1) lengths).Perm (ps.map Prod.snd)) :
    ∃ b, edgeBound? flows lengths (ca * (ca - 1) / 2) ca = some b ∧ b ≤ (ps.map (fun p => p.1 * p.2)).sum := by
  refine ⟨_, edgeBound?_eq flows lengths ca hca hF hL, ?_⟩
  refine rearrangement ps _ _ ((List.reverse_perm flows).trans hx) hy ?_ (edgeWeights_pairwise 0 _ _ hls)
  rw [List.pairwise_reverse]
  exact hfl

#print axioms rearrangement
#print axioms edgeBound?_eq

end Ddo.Examples.SrflpModel
