import DdoModel.Dp
import DdoModel.Dominance
import DdoModel.Examples.Lcs
/-! The DP model, relaxation, ranking and dominance rule of the shipped lcs example
    (`ddo/examples/lcs/{io_utils,dp,model,dominance}.rs`, longest common subsequence of several strings) in Lean:
    definitions only (the driver engine `exmodel`, family `lcs`, compares them pointwise with the example's own code,
    compiled into the harness; statements about them are in `LcsModel.lean`).

Mirror of the Rust code (MAXIMISATION: every character taken is worth `1`).
* `io_utils.rs`, `read_instance`: header `<n_strings> <n_chars>`; every further line is `<length> <string>` (the length field
  is not read; a line with fewer than two tokens is the `Format` error); the alphabet is the sorted set of the characters of
  ALL the lines, character `c` becomes its rank in it; the strings are sorted by length (`sort_unstable_by_key`, an
  insertion sort on so few strings: ties keep the file order — checked by the `str` event); then for the first `n_strings`
  strings (fewer lines: a panic) and the characters `j < n_chars` (whatever the size of the alphabet):
  `next[str][j][pos]` = the least position `≥ pos` of string `str` that holds `j` (the length of the string if none),
  `rem[str][j][pos]` = the number of occurrences of `j` at positions `≥ pos`;
* `dp.rs` / `Lcs::new`: `tables[i][p][q]`, `i < n_strings - 1` (no string: `usize` underflow, a panic under the overflow
  checks of the harness profile) = the length of the longest common subsequence of the suffix `p…` of string `i` and the
  suffix `q…` of string `i + 1` (memoised recursion from `(0, 0)`; every entry is reached);
* `model.rs`: the state is the vector of the positions in the strings; root `0…0`, value `0`; `nb_variables` = the length
  of string `0` (the shortest); `next_variable(depth) = depth` while `depth < nb_variables`; `is_impacted_by(var, s)` =
  `var = s.position[0]` (LONG ARCS: a state waits until the variable of its position in string `0`);
  `for_each_in_domain`: the characters `c < n_chars` with `rem[i][c][pos_i] ≠ 0` for every string `i` (in increasing order;
  the strings are scanned in order and the scan stops at the first `0`), or `-1` (go to the end) when there is none — the
  variable is not read; `transition(s, c) = (next[i][c][pos_i] + 1)_i`, `transition(s, -1)` = the lengths;
  `transition_cost = 0` for `-1`, else `1`;
* `LcsRelax`: `merge` = position-wise minimum of the lengths and the merged states (in order; no state: the lengths);
  `relax = cost`; `fast_upper_bound(s) = min(Σ_c min_i rem[i][c][pos_i], min_i tables[i][pos_i][pos_{i+1}])`;
* `LcsRanking::compare(a, b)` = comparison of `Σ b.position` with `Σ a.position` over the indices of `a`;
* `LcsDominance`: key = `position[0]`, coordinates `-position[i]`, the value is used.
An index out of range is a panic: `none` below. -/
namespace Ddo.Examples.LcsModel
open Ddo Ddo.Examples Ddo.Examples.Util

abbrev St := List Nat

/-- what the model functions need: the `Lcs` value built by the reader and `Lcs::new` -/
structure Inst where
  nStrings : Nat
  nChars : Nat
  /-- all the strings of the file, mapped and sorted by length (`Lcs::strings`) -/
  strings : List (List Nat)
  /-- the mapping: rank ↦ character (code point) -/
  chars : List Int
  len : List Nat
  next : List (List (List Nat))
  rem : List (List (List Int))
  tables : List (List (List Int))

-- ------------------------------------------------------------------------------------------------------------------
-- the reader

/-- insertion of `x` after the elements that are not longer (stable) -/
def insertByLen (x : List Nat) : List (List Nat) → List (List Nat)
  | [] => [x]
  | y :: r => if x.length < y.length then x :: y :: r else y :: insertByLen x r
/-- stable sort by length -/
def sortByLen (l : List (List Nat)) : List (List Nat) := l.foldl (fun acc x => insertByLen x acc) []

def insertSorted (x : Int) : List Int → List Int
  | [] => [x]
  | y :: r => if x < y then x :: y :: r else if x = y then y :: r else y :: insertSorted x r
/-- the sorted set of the characters (`BTreeSet<char>`) -/
def alphabetOf (lines : List (List Int)) : List Int := lines.flatten.foldl (fun acc x => insertSorted x acc) []

def rankOf (al : List Int) (c : Int) : Nat := (al.takeWhile (· != c)).length

/-- `next_for_char`, positions `i … len` of a string whose suffix from `i` is given -/
def nextFrom (j : Nat) : Nat → List Nat → List Nat
  | i, [] => [i]
  | i, c :: r => let t := nextFrom j (i + 1) r; (if c = j then i else t.headD 0) :: t
/-- `rem_for_char` -/
def remFrom (j : Nat) : List Nat → List Int
  | [] => [0]
  | c :: r => let t := remFrom j r; (if c = j then t.headD 0 + 1 else t.headD 0) :: t

/-- one row of the 2-string table from the row below: `T[i][j] = max (T[i+1][j]) (T[i][j+1]) (T[i+1][j+1] + [a_i = b_j])` -/
def lcsRow (ai : Nat) : List Nat → List Int → List Int
  | [], _ => [0]
  | bj :: br, below =>
    let right := lcsRow ai br below.tail
    max (max (below.headD 0) (right.headD 0)) (below.tail.headD 0 + (if ai = bj then 1 else 0)) :: right
/-- `LcsDp::solve` -/
def lcsTable (b : List Nat) : List Nat → List (List Int)
  | [] => [List.replicate (b.length + 1) 0]
  | ai :: ar => let t := lcsTable b ar; lcsRow ai b (t.headD []) :: t

def pairTables : List (List Nat) → List (List (List Int))
  | a :: b :: r => lcsTable b a :: pairTables (b :: r)
  | _ => []

inductive ReadRes where
  | ok (I : Inst)
  | unreadable
  | panic

/-- `read_instance` followed by `Lcs::new`: header `k declared`, the lines as lists of code points -/
def readInst (k declared : Nat) (lines : List (List Int)) : ReadRes :=
  if lines.any (·.isEmpty) then .unreadable else
  let al := alphabetOf lines
  let strings := sortByLen (lines.map (·.map (rankOf al)))
  if strings.length < k then .panic else
  if k = 0 then .panic else
  let used := strings.take k
  .ok { nStrings := k, nChars := declared, strings := strings, chars := al,
        len := used.map (·.length),
        next := used.map (fun s => (List.range declared).map (fun j => nextFrom j 0 s)),
        rem := used.map (fun s => (List.range declared).map (fun j => remFrom j s)),
        tables := pairTables used }

-- ------------------------------------------------------------------------------------------------------------------
-- the model

variable (I : Inst)

def nbVars : Nat := I.len.headD 0

def initSt : St := List.replicate I.nStrings 0

def nextVar (depth : Nat) : Option Nat := if depth < nbVars I then some depth else none

def remAt (i c p : Nat) : Option Int := do let a ← I.rem[i]?; let b ← a[c]?; b[p]?
def nextAt (i c p : Nat) : Option Nat := do let a ← I.next[i]?; let b ← a[c]?; b[p]?
def tabAt (i p q : Nat) : Option Int := do let a ← I.tables[i]?; let b ← a[p]?; b[q]?

/-- the scan of the strings for one character (stops at the first string where it does not occur any more) -/
def charValid? (s : St) (c : Nat) : List Nat → Option Bool
  | [] => some true
  | i :: r => do
    let p ← s[i]?
    let x ← remAt I i c p
    if x = 0 then pure false else charValid? s c r

/-- `for_each_in_domain` (the variable is not read); `none` = a panic -/
def domain? (s : St) : Option (List Int) := do
  let ok ← (List.range I.nChars).mapM fun c => charValid? I s c (List.range I.nStrings)
  let cs := ((List.range I.nChars).zip ok).filterMap fun (c, b) => if b then some (c : Int) else none
  pure (if cs.isEmpty then [-1] else cs)

/-- `transition`; `none` = a panic -/
def trans? (s : St) (v : Int) : Option St :=
  if v = -1 then some I.len
  else if v < 0 then none
  else (List.range I.nStrings).mapM fun i => do
    let p ← s[i]?
    let x ← nextAt I i v.toNat p
    pure (x + 1)

/-- `transition_cost` -/
def cost (v : Int) : Int := if v = -1 then 0 else 1

/-- `is_impacted_by`; `none` = a panic (no position at all) -/
def impacted? (x : Nat) (s : St) : Option Bool := (s[0]?).map (x == ·)

def domain (s : St) : List Int := (domain? I s).getD []
def trans (s : St) (d : Dec) : St := (trans? I s d.val).getD s

def problem : Problem St :=
  { nbVars := nbVars I
    init := initSt I
    initVal := 0
    trans := trans I
    cost := fun _ _ d => cost d.val
    nextVar := fun depth _ => nextVar I depth
    domain := fun _ s => domain I s
    impacted := fun x s => (impacted? x s).getD false }

/-- `LcsRelax::merge`, in the order of the states; `none` = a panic (a position vector that is too short) -/
def merge? (X : List St) : Option St :=
  X.foldlM (fun acc s => (List.range I.nStrings).mapM fun i => do
    let a ← acc[i]?
    let b ← s[i]?
    pure (min a b)) I.len

/-- `fast_upper_bound`; `none` = a panic -/
def rub? (s : St) : Option Int := do
  let per ← (List.range I.nChars).mapM fun c => do
    let rs ← (List.range I.nStrings).mapM fun i => do let p ← s[i]?; remAt I i c p
    minOf rs
  let pw ← (List.range (I.nStrings - 1)).mapM fun i => do
    let p ← s[i]?
    let q ← s[i + 1]?
    tabAt I i p q
  pure (match minOf pw with | some m => min (sum per) m | none => sum per)

def relaxation : Relax St :=
  { merge := fun X => (merge? I X).getD I.len
    relax := fun _ _ _ _ c => c
    rub := fun s => (rub? I s).getD 0 }

def natSum (l : List Nat) : Nat := l.foldl (· + ·) 0

/-- `LcsRanking::compare`; `none` = a panic (`b` shorter than `a`) -/
def rankCmp? (a b : St) : Option Ordering := do
  let bs ← (List.range a.length).mapM fun i => b[i]?
  pure (compare (natSum bs) (natSum a))

/-- `LcsDominance` -/
def domRule : DomRule St Nat :=
  { key := fun s => s[0]?
    dims := fun s => s.length
    coord := fun s i => - (((s[i]?).getD 0 : Nat) : Int)
    useValue := true }

-- ------------------------------------------------------------------------------------------------------------------
-- what the driver evaluates pointwise (exhaustive enumeration with the model's own domains, transitions and costs)

/-- the value-to-go of `s`: the best total transition cost over ALL completions of `s`.  A state is branched on by the
    variable of its position in string `0` (long arcs), a state whose position `0` is the end of string `0` is terminal.
    `none` = −∞ (never, on this model: no domain is empty).  `fuel ≥ nbVars - s[0] + 1`. -/
def bestRemF : Nat → St → EInt
  | 0, _ => some 0
  | fuel + 1, s =>
    if s.headD 0 ≥ nbVars I then some 0 else
    (domain I s).foldl (fun acc v => EInt.max acc ((bestRemF fuel (trans I s ⟨s.headD 0, v⟩)).addI (cost v))) none
def bestRem (s : St) : EInt := bestRemF I (nbVars I + 1 - s.headD 0) s

/-- the states the pointwise statements are about: one position per string, none beyond the end of its string -/
def validB (s : St) : Bool := s.length == I.nStrings && (s.zip I.len).all (fun (p, l) => decide (p ≤ l))

/-- `RubOk` at one state: the bound `r` claimed for `s` dominates the value-to-go -/
def rubOkAt (s : St) (r : Int) : Bool := decide (bestRem I s ≤ some r)

/-- `MergeOk` (potential form, `Wf.lean`) at one merged-away state `u`, merged state `m`, arc cost `c` relaxed to `r`:
    if `u` has a completion worth `h` then `m` has one worth `h'` with `c + h ≤ r + h'` -/
def mergeOkAt (u m : St) (c r : Int) : Bool :=
  match bestRem I u with
  | none => true
  | some h =>
    match bestRem I m with
    | none => false
    | some h' => decide (c + h ≤ r + h')

/-- admissibility of a verdict of `partial_cmp(a, va, b, vb)` for two states of one key: the dominated side does not
    reach more than the dominating one -/
def domOkAt (a : St) (va : Int) (b : St) (vb : Int) (o : Ordering) : Bool :=
  let ta := (bestRem I a).addI va
  let tb := (bestRem I b).addI vb
  match o with
  | .lt => decide (ta ≤ tb)
  | .gt => decide (tb ≤ ta)
  | .eq => decide (ta ≤ tb) && decide (tb ≤ ta)

/-- replay of the decisions `(variable, value)` of a path from the root: increasing variables (the variables in between
    are long arcs or… not checked here: `impactedPath` says whether the path is a long-arc path), every value in the domain
    of the state reached; the state and the value reached -/
def replayFrom : St → Int → Option Nat → List (Nat × Int) → Option (St × Int)
  | s, v, _, [] => some (s, v)
  | s, v, last, (x, val) :: r =>
    if (match last with | some l => decide (l < x) | none => true) && decide (x < nbVars I) && (domain I s).contains val then
      replayFrom (trans I s ⟨x, val⟩) (v + cost val) (some x) r
    else none
def replay (ds : List (Nat × Int)) : Option (St × Int) := replayFrom I (initSt I) 0 none ds

-- ------------------------------------------------------------------------------------------------------------------
-- the independent specification (`Lcs.lean`)

/-- the common subsequences of the lines of the file (characters as code points): the subsequences of the first line that
    are subsequences of every other line (`Lcs.isSubseq`) -/
def commons : List (List Int) → List (List Int)
  | [] => []
  | first :: others => (sublists first).filter fun c => others.all (Lcs.isSubseq c)

/-- the longest among the common subsequences `cs` that begin with `pre` -/
def specOf (cs : List (List Int)) (pre : List Int) : Option Int :=
  maxOf (cs.filterMap fun c => if pre.isPrefixOf c then some (c.length : Int) else none)

/-- the specification's longest common subsequence among those that begin with the characters `pre`; with no character at
    all this is `Lcs.best` (`LcsModel.best_eq_specBestExt`) -/
def specBestExt (lines : List (List Int)) (pre : List Int) : Option Int := specOf (commons lines) pre

/-- the characters (code points) a list of decisions takes, in order -/
def prefixOf (ds : List (Nat × Int)) : List Int :=
  ds.filterMap fun (_, v) => if v < 0 then none else I.chars[v.toNat]?

/-- in the domain of the format: exactly `k ≥ 1` lines, no empty string, a declared alphabet size that covers the characters -/
def inDomain (k declared : Nat) (lines : List (List Int)) : Bool :=
  decide (1 ≤ k) && lines.length == k && lines.all (fun l => !l.isEmpty) && decide ((alphabetOf lines).length ≤ declared)

end Ddo.Examples.LcsModel
