import DdoModel.Examples.Max2satDp
import DdoModel.Proofs.SpecUtil
/-! Statements and proofs about the Lean model of the shipped max2sat example (`Max2satDp.lean`, the model the driver
    engine `exmodel` ties pointwise to the example's own code).

* `rub_admissible` (**proved**): for a table whose variable order is a permutation of the variables, whose `initial`
  is the sum of the tautology weights and whose `est` / `nk` tables are the ones `precompute_estimates` /
  `precompute_nks` build (`TabOk`, all four decided per instance by the driver: `tabOkB`), `fast_upper_bound`
  dominates the best total transition cost of any completion of any state (of the right length, at any depth):
  `bestRem T (T.n - s.1) s ≤ r` whenever `rub? T s = some r`.  Weights of any sign; the order plays no role.
  This is `RubOk` for the potential "best completion under the model's own transition costs".
* `merge_ok` (**proved**, same hypotheses): `merge` + `relax` over-approximate — for the states `ts` of one layer, each
  `t ∈ ts` and EVERY completion, the completion gains from `mergeStates ts`, counting the increase of the arc cost that
  `relax` applies (`Σ_v |t[v]| - |merged[v]|`), at least what it gains from `t`
  (`0 ≤ mergeGapMin T (T.n - t.1) t merged + relaxCost T.n t merged 0`): this is `MergeOk` for the same potential, and
  what the driver evaluates pointwise as `mergeOkAt`.  Key facts: the loss a completion can suffer on a free variable
  (`owedGap`) is INVARIANT under transitions (`mstep_le`), and for the merged benefit (`0`, or same sign and least
  absolute value: `mergeSub_prop`) it is at most `|t[v]| - |merged[v]|`.
* `DpExactStmt`, `TabOkOfInst` (stated here as `def … : Prop`, what the driver evaluates pointwise) are THEOREMS:
  `tabOkOfInst : TabOkOfInst I` (`Max2satProofsTab.lean`: the table built from an instance with valid literals is `TabOk`;
  `wOf_weights`: the `(2n)²` table read at `offset (a, b)` is the weight of the clause `{a, b}` in the clause map, `offset` is
  injective on canonical pairs of valid literals) and `dpExact : DpExactStmt I` (`Max2satProofsSpec.lean`, from
  `bestRem_isMax` in `Max2satProofsExact.lean`: the value-to-go is the best gain of a completion, one transition being an
  IDENTITY `gain_step`; and `satisfiedWeight_eq`: specification weight = `initial` + the weight the model reads in its
  table); `dpExact_prefix` (`Max2satProofsMain.lean`): along every path of the model, value + value-to-go = the best
  specification weight among the assignments extending the decisions taken.
* the `WfRelV` instance (`wfRelV`), the no-saturation clause (`noClampRel`) and the corollaries `max2sat_relaxed_ub`,
  `max2sat_relaxed_ub_spec` are in `Max2satProofsWf.lean` / `Max2satProofsMain.lean`, via the generic
  `Ddo.CoverRel.relaxed_ub_rel_valid` (`Proofs/MddCoverRel.lean`): the hypotheses `WfRel` / `NoClampDom` of the original
  `Ddo.C06.relaxed_ub_rel_dom` are UNSATISFIABLE for this model (`wfRel_false`: `next_variable` reads the depth from the
  first state of the list it is handed; `noClampDom_false`: `relax` adds a state-dependent correction). -/
namespace Ddo.Examples.Max2satModel
open Ddo Ddo.Examples Ddo.Examples.Util Ddo.SpecUtil

variable (T : Tab)

/-- `Σ_{l ∈ L} |s[l]|` -/
def absSum (s : St) (L : List Nat) : Int := (L.map (fun l => absI (get s l))).sum

/-- the hypotheses of `rub_admissible` on a table -/
structure TabOk : Prop where
  perm : T.order.Perm (List.range T.n)
  initial_eq : T.initial = tautSum T T.order
  est_eq : T.est = (List.range T.n).map (estimate T.n T.w T.order)
  nk_eq : T.nk = (List.range T.n).map (nkOf T.n T.w T.order)

/-- `tabOkB` (`Max2satDp.lean`: what the driver evaluates on every instance) decides them -/
theorem tabOkB_iff : tabOkB T = true ↔ TabOk T := by
  simp only [tabOkB, Bool.and_eq_true, List.isPerm_iff, beq_iff_eq]
  constructor
  · rintro ⟨⟨⟨h1, h2⟩, h3⟩, h4⟩; exact ⟨h1, h2, h3, h4⟩
  · rintro ⟨h1, h2, h3, h4⟩; exact ⟨⟨⟨h1, h2⟩, h3⟩, h4⟩

-- ------------------------------------------------------------------------------------------------------------------
-- sums

theorem foldl_add_map {α : Type} (f : α → Int) (L : List α) (a : Int) :
    L.foldl (fun acc l => acc + f l) a = a + (L.map f).sum := by
  induction L generalizing a with
  | nil => simp
  | cons x xs ih => simp only [List.foldl_cons, ih, List.map_cons, List.sum_cons]; omega

theorem sum_map_add {α : Type} (f g : α → Int) (L : List α) :
    (L.map (fun l => f l + g l)).sum = (L.map f).sum + (L.map g).sum := by
  induction L with
  | nil => simp
  | cons x xs ih => simp only [List.map_cons, List.sum_cons, ih]; omega

theorem sum_map_le {α : Type} (f g : α → Int) (L : List α) (h : ∀ l ∈ L, f l ≤ g l) :
    (L.map f).sum ≤ (L.map g).sum := by
  induction L with
  | nil => simp
  | cons x xs ih =>
    simp only [List.map_cons, List.sum_cons]
    have h1 := h x (List.mem_cons_self ..)
    have h2 := ih (fun l hl => h l (List.mem_cons_of_mem _ hl))
    omega

theorem sum_sublist_le {L L' : List Nat} (f : Nat → Int) (hf : ∀ l, 0 ≤ f l) (h : L.Sublist L') :
    (L.map f).sum ≤ (L'.map f).sum := by
  induction h with
  | slnil => simp
  | cons a _ ih => simp only [List.map_cons, List.sum_cons]; have := hf a; omega
  | cons_cons a _ ih => simp only [List.map_cons, List.sum_cons]; omega

-- ------------------------------------------------------------------------------------------------------------------
-- the weight table is symmetric

theorem offset_comm (n : Nat) (x y : Int) : offset n x y = offset n y x := by
  simp only [offset, Int.min_comm x y, Int.max_comm x y]

theorem wOf_comm (n : Nat) (w : Array Int) (x y : Int) : wOf n w x y = wOf n w y x := by
  simp only [wOf, offset_comm n x y]

theorem wt_comm (x y : Int) : T.wt x y = T.wt y x := wOf_comm _ _ _ _

-- ------------------------------------------------------------------------------------------------------------------
-- `estOver` peeled from the end

theorem estOver_snoc (n : Nat) (w : Array Int) (L : List Nat) (x : Nat) :
    estOver n w (L ++ [x]) = estOver n w L + (L.map (fun l => pairMax n w l x)).sum + selfTerm n w x := by
  induction L with
  | nil => simp [estOver]
  | cons v L ih =>
    simp only [List.cons_append, estOver, ih, foldl_add_map, List.map_append, List.sum_append, List.map_cons,
      List.map_nil, List.sum_cons, List.sum_nil]
    omega

-- ------------------------------------------------------------------------------------------------------------------
-- the benefits after a transition

theorem getD_addAt (r : List Int) (a i : Nat) (d : Int) (hi : i < r.length) :
    ((addAt r a d)[i]?).getD 0 = (r[i]?).getD 0 + (if a = i then d else 0) := by
  simp only [addAt, List.getElem?_modify, List.getElem?_eq_getElem hi, Option.map_eq_map, Option.map_some,
    Option.getD_some]
  split <;> omega

theorem length_fold_addAt (δ : Nat → Int) (L : List Nat) (r : List Int) :
    (L.foldl (fun r l => addAt r l (δ l)) r).length = r.length := by
  induction L generalizing r with
  | nil => rfl
  | cons a L ih => rw [List.foldl_cons, ih]; simp only [addAt, List.length_modify]

theorem getD_fold_addAt (δ : Nat → Int) (L : List Nat) (hnd : L.Nodup) (r : List Int) (i : Nat) (hi : i < r.length) :
    ((L.foldl (fun r l => addAt r l (δ l)) r)[i]?).getD 0 = (r[i]?).getD 0 + (if i ∈ L then δ i else 0) := by
  induction L generalizing r with
  | nil => simp
  | cons a L ih =>
    have hnd' := List.nodup_cons.mp hnd
    have hi' : i < (addAt r a (δ a)).length := by simp only [addAt, List.length_modify]; exact hi
    rw [List.foldl_cons, ih hnd'.2 _ hi', getD_addAt r a i (δ a) hi]
    by_cases hai : a = i
    · subst hai
      simp [hnd'.1]
    · have : i ≠ a := fun h => hai h.symm
      simp [hai, this]

/-- what a transition adds to the benefit of a free variable -/
def delta (x : Nat) (v : Int) (l : Nat) : Int :=
  if v = -1 then T.wt (tLit x) (tLit l) - T.wt (tLit x) (fLit l) else T.wt (fLit x) (tLit l) - T.wt (fLit x) (fLit l)

theorem trans_eq (s : St) (d : Dec) :
    trans T s d = (s.1 + 1, (varset T s.1).foldl (fun r l => addAt r l (delta T d.var d.val l)) (s.2.set d.var 0)) := by
  unfold trans delta
  by_cases h : d.val = -1 <;> simp [h]

theorem trans_depth (s : St) (d : Dec) : (trans T s d).1 = s.1 + 1 := by rw [trans_eq]

theorem trans_length (s : St) (d : Dec) : (trans T s d).2.length = s.2.length := by
  rw [trans_eq]; simp only [length_fold_addAt, List.length_set]

theorem get_trans (s : St) (d : Dec) (hnd : (varset T s.1).Nodup) (l : Nat) (hl : l ∈ varset T s.1)
    (hlt : l < s.2.length) (hne : l ≠ d.var) :
    get (trans T s d) l = get s l + delta T d.var d.val l := by
  rw [trans_eq]
  simp only [get]
  rw [getD_fold_addAt _ _ hnd _ _ (by simpa using hlt)]
  have : d.var ≠ l := fun h => hne h.symm
  simp [hl, this]

-- ------------------------------------------------------------------------------------------------------------------
-- the cost of a transition

def costHead (s : St) (x : Nat) (v : Int) : Int :=
  if v = -1 then pos (- get s x) + T.wt (fLit x) (fLit x) else pos (get s x) + T.wt (tLit x) (tLit x)

def costTerm (s : St) (x : Nat) (v : Int) (l : Nat) : Int :=
  if v = -1 then
    (T.wt (fLit x) (fLit l) + T.wt (fLit x) (tLit l))
      + min (pos (get s l) + T.wt (tLit x) (tLit l)) (pos (- get s l) + T.wt (tLit x) (fLit l))
  else
    (T.wt (tLit x) (fLit l) + T.wt (tLit x) (tLit l))
      + min (pos (get s l) + T.wt (fLit x) (tLit l)) (pos (- get s l) + T.wt (fLit x) (fLit l))

theorem cost_eq (s : St) (d : Dec) :
    cost T s d = costHead T s d.var d.val + ((varset T s.1).map (costTerm T s d.var d.val)).sum := by
  unfold cost costHead costTerm
  by_cases h : d.val = -1
  · simp only [h, if_true, foldl_add_map]; omega
  · simp only [h, if_false, foldl_add_map]; omega

/-- the heart of the bound: what the decision on `x` gains on the clauses shared with the free variable `l`, plus what is
    still owed on `l` afterwards, is at most what was owed on `l` before plus the best assignment of the pair -/
theorem step_le (s : St) (x : Nat) (v : Int) (l : Nat) :
    costTerm T s x v l + absI (get s l + delta T x v l) ≤ absI (get s l) + pairMax T.n T.w l x := by
  have e1 : wOf T.n T.w (tLit l) (tLit x) = T.wt (tLit x) (tLit l) := wOf_comm _ _ _ _
  have e2 : wOf T.n T.w (tLit l) (fLit x) = T.wt (fLit x) (tLit l) := wOf_comm _ _ _ _
  have e3 : wOf T.n T.w (fLit l) (tLit x) = T.wt (tLit x) (fLit l) := wOf_comm _ _ _ _
  have e4 : wOf T.n T.w (fLit l) (fLit x) = T.wt (fLit x) (fLit l) := wOf_comm _ _ _ _
  simp only [costTerm, delta, pairMax, e1, e2, e3, e4, pos, absI]
  generalize T.wt (tLit x) (tLit l) = tt
  generalize T.wt (tLit x) (fLit l) = tf
  generalize T.wt (fLit x) (tLit l) = ft
  generalize T.wt (fLit x) (fLit l) = ff
  generalize get s l = a
  by_cases h : v = -1
  · simp only [h, if_true]; omega
  · simp only [h, if_false]; omega

theorem head_le (s : St) (x : Nat) (v : Int) :
    costHead T s x v + tautOf T x ≤ absI (get s x) + selfTerm T.n T.w x := by
  simp only [costHead, tautOf, selfTerm, Tab.wt, pos, absI]
  generalize wOf T.n T.w (tLit x) (fLit x) = ta
  generalize wOf T.n T.w (tLit x) (tLit x) = up
  generalize wOf T.n T.w (fLit x) (fLit x) = un
  generalize get s x = a
  by_cases h : v = -1
  · simp only [h, if_true]; omega
  · simp only [h, if_false]; omega

-- ------------------------------------------------------------------------------------------------------------------
-- admissibility

/-- one branch of the recursion of `bestRem`: `L` = the variables free after the decision on `x`, `ih` = the bound
    below -/
theorem branch_le (s : St) (x : Nat) (v : Int) (L : List Nat) (rest : Int)
    (hvs : varset T s.1 = L) (hnd : (L ++ [x]).Nodup) (hlt : ∀ l ∈ L, l < s.2.length)
    (ih : rest + tautSum T L ≤ absSum (trans T s ⟨x, v⟩) L + estOver T.n T.w L) :
    cost T s ⟨x, v⟩ + rest + tautSum T (L ++ [x]) ≤ absSum s (L ++ [x]) + estOver T.n T.w (L ++ [x]) := by
  have hndL : L.Nodup := (List.nodup_append.mp hnd).1
  have hxL : ∀ l ∈ L, l ≠ x := fun l hl h => by
    have := (List.nodup_append.mp hnd).2.2 l hl x (by simp)
    exact this h
  -- the benefits after the transition
  have habs : absSum (trans T s ⟨x, v⟩) L = (L.map (fun l => absI (get s l + delta T x v l))).sum := by
    unfold absSum
    congr 1
    apply List.map_congr_left
    intro l hl
    rw [get_trans T s ⟨x, v⟩ (by rw [hvs]; exact hndL) l (by rw [hvs]; exact hl) (hlt l hl) (hxL l hl)]
  have hcost := cost_eq T s ⟨x, v⟩
  simp only [hvs] at hcost
  have hsum := sum_map_le (fun l => costTerm T s x v l + absI (get s l + delta T x v l))
    (fun l => absI (get s l) + pairMax T.n T.w l x) L (fun l _ => step_le T s x v l)
  rw [sum_map_add, sum_map_add] at hsum
  have hhead := head_le T s x v
  rw [estOver_snoc]
  simp only [tautSum, absSum, List.map_append, List.sum_append, List.map_cons, List.map_nil, List.sum_cons,
    List.sum_nil] at *
  omega

theorem bestRem_le (h : TabOk T) : ∀ (m : Nat) (s : St), s.2.length = T.n → s.1 + m = T.n →
    bestRem T m s + tautSum T (T.order.take m) ≤ absSum s (T.order.take m) + estOver T.n T.w (T.order.take m) := by
  have hlen : T.order.length = T.n := by rw [h.perm.length_eq, List.length_range]
  have hnd : T.order.Nodup := (h.perm.nodup_iff).mpr List.nodup_range
  have hmem : ∀ l ∈ T.order, l < T.n := fun l hl => List.mem_range.mp (h.perm.mem_iff.mp hl)
  intro m
  induction m with
  | zero => intro s _ _; simp [bestRem, tautSum, absSum, estOver]
  | succ m ih =>
    intro s hs hd
    have hm : m < T.order.length := by omega
    have hnv : nextVar T [s] = some T.order[m] := by
      have h1 : s.1 < T.n := by omega
      have h2 : T.n - s.1 - 1 = m := by omega
      simp only [nextVar, h1, if_true, h2, List.getElem?_eq_getElem hm]
    have htake : T.order.take (m + 1) = T.order.take m ++ [T.order[m]] := by
      rw [List.take_add_one, List.getElem?_eq_getElem hm]; rfl
    have hvs : varset T s.1 = T.order.take m := by
      unfold varset; congr 1; omega
    have hnd' : (T.order.take m ++ [T.order[m]]).Nodup := by
      rw [← htake]; exact (List.take_sublist _ _).nodup hnd
    have hlt : ∀ l ∈ T.order.take m, l < s.2.length := fun l hl => by
      rw [hs]; exact hmem l ((List.take_sublist _ _).subset hl)
    have hb : ∀ v : Int, cost T s ⟨T.order[m], v⟩ + bestRem T m (trans T s ⟨T.order[m], v⟩)
        + tautSum T (T.order.take m ++ [T.order[m]])
        ≤ absSum s (T.order.take m ++ [T.order[m]]) + estOver T.n T.w (T.order.take m ++ [T.order[m]]) := fun v =>
      branch_le T s T.order[m] v (T.order.take m) _ hvs hnd' hlt
        (ih (trans T s ⟨T.order[m], v⟩) (by rw [trans_length, hs]) (by rw [trans_depth]; omega))
    have h1 := hb 1
    have h2 := hb (-1)
    rw [htake]
    simp only [bestRem, hnv]
    omega

/-- `Σ_v |s[v]|` over all variables is the `rank` of the state -/
theorem absSum_range (s : St) : absSum s (List.range s.2.length) = rank s := by
  unfold absSum rank
  rw [sum_eq, sum_map_eq_sumRange s.2 absI 0]
  rfl

/-- **the rough upper bound of the max2sat example is admissible**: whenever `fast_upper_bound` answers (`r`), no
    completion of the state gains more than `r` under the model's own transition costs. -/
theorem rub_admissible (h : TabOk T) (s : St) (hs : s.2.length = T.n) (r : Int) (hr : rub? T s = some r) :
    bestRem T (T.n - s.1) s ≤ r := by
  have hlen : T.order.length = T.n := by rw [h.perm.length_eq, List.length_range]
  unfold rub? at hr
  rw [h.est_eq, h.nk_eq] at hr
  by_cases hk : s.1 < T.n
  · simp only [List.getElem?_map, List.getElem?_range hk, Option.map_some] at hr
    injection hr with hr
    have hb := bestRem_le T h (T.n - s.1) s hs (by omega)
    -- the free variables are a sub-list of all variables
    have h1 : absSum s (T.order.take (T.n - s.1)) ≤ rank s := by
      rw [← absSum_range, hs]
      have := sum_sublist_le (fun l => absI (get s l)) (fun l => by simp [absI]) (List.take_sublist (T.n - s.1) T.order)
      have hp := perm_sum_eq (h.perm.map (fun l => absI (get s l)))
      unfold absSum
      omega
    -- tautologies: free + decided = all
    have h2 : tautSum T T.order = tautSum T (T.order.take (T.n - s.1)) + tautSum T (T.order.drop (T.n - s.1)) := by
      unfold tautSum
      rw [← List.sum_append, ← List.map_append, List.take_append_drop]
    have h3 : nkOf T.n T.w T.order s.1 = tautSum T (T.order.drop (T.n - s.1)) := by
      unfold nkOf tautSum; rw [sum_eq]; rfl
    have h4 : estimate T.n T.w T.order s.1 = estOver T.n T.w (T.order.take (T.n - s.1)) := rfl
    rw [h.initial_eq, h2, h3, h4] at hr
    omega
  · have : ¬ s.1 < (List.range T.n).length := by simpa using hk
    simp [List.getElem?_eq_none (Nat.le_of_not_lt this)] at hr

-- ------------------------------------------------------------------------------------------------------------------
-- merge + relax over-approximate

/-- what a completion can lose on one variable when the benefit `a` is replaced by `b`: whichever value the variable
    takes -/
def owedGap (a b : Int) : Int := max (pos a - pos b) (pos (-a) - pos (-b))
def gapSum (t m : St) (L : List Nat) : Int := (L.map (fun l => owedGap (get t l) (get m l))).sum

/-- the decision on `x` and the free variable `l`: what the merged state gains less now, it is owed less later —
    the loss on `l` does not grow (it is in fact unchanged) -/
theorem mstep_le (t m : St) (x : Nat) (v : Int) (l : Nat) :
    costTerm T t x v l + owedGap (get t l + delta T x v l) (get m l + delta T x v l)
      ≤ costTerm T m x v l + owedGap (get t l) (get m l) := by
  simp only [costTerm, delta, owedGap, pos]
  generalize T.wt (tLit x) (tLit l) = tt
  generalize T.wt (tLit x) (fLit l) = tf
  generalize T.wt (fLit x) (tLit l) = ft
  generalize T.wt (fLit x) (fLit l) = ff
  generalize get t l = a
  generalize get m l = b
  by_cases h : v = -1
  · simp only [h, if_true]; omega
  · simp only [h, if_false]; omega

theorem mhead_le (t m : St) (x : Nat) (v : Int) :
    costHead T t x v ≤ costHead T m x v + owedGap (get t x) (get m x) := by
  simp only [costHead, owedGap, pos]
  generalize T.wt (tLit x) (tLit x) = up
  generalize T.wt (fLit x) (fLit x) = un
  generalize get t x = a
  generalize get m x = b
  by_cases h : v = -1
  · simp only [h, if_true]; omega
  · simp only [h, if_false]; omega

theorem mbranch_le (t m : St) (x : Nat) (v : Int) (L : List Nat) (rest : Int)
    (hvt : varset T t.1 = L) (hvm : varset T m.1 = L) (hnd : (L ++ [x]).Nodup)
    (hlt : ∀ l ∈ L, l < t.2.length) (hlm : ∀ l ∈ L, l < m.2.length)
    (ih : 0 ≤ rest + gapSum (trans T t ⟨x, v⟩) (trans T m ⟨x, v⟩) L) :
    0 ≤ cost T m ⟨x, v⟩ - cost T t ⟨x, v⟩ + rest + gapSum t m (L ++ [x]) := by
  have hndL : L.Nodup := (List.nodup_append.mp hnd).1
  have hxL : ∀ l ∈ L, l ≠ x := fun l hl h => by
    have := (List.nodup_append.mp hnd).2.2 l hl x (by simp)
    exact this h
  have hgap : gapSum (trans T t ⟨x, v⟩) (trans T m ⟨x, v⟩) L
      = (L.map (fun l => owedGap (get t l + delta T x v l) (get m l + delta T x v l))).sum := by
    unfold gapSum
    congr 1
    apply List.map_congr_left
    intro l hl
    rw [get_trans T t ⟨x, v⟩ (by rw [hvt]; exact hndL) l (by rw [hvt]; exact hl) (hlt l hl) (hxL l hl),
        get_trans T m ⟨x, v⟩ (by rw [hvm]; exact hndL) l (by rw [hvm]; exact hl) (hlm l hl) (hxL l hl)]
  have hct := cost_eq T t ⟨x, v⟩
  have hcm := cost_eq T m ⟨x, v⟩
  simp only [hvt] at hct
  simp only [hvm] at hcm
  have hsum := sum_map_le (fun l => costTerm T t x v l + owedGap (get t l + delta T x v l) (get m l + delta T x v l))
    (fun l => costTerm T m x v l + owedGap (get t l) (get m l)) L (fun l _ => mstep_le T t m x v l)
  rw [sum_map_add, sum_map_add] at hsum
  have hhead := mhead_le T t m x v
  simp only [gapSum, List.map_append, List.sum_append, List.map_cons, List.map_nil, List.sum_cons,
    List.sum_nil] at *
  omega

/-- every completion gains from `m` at least what it gains from `t`, minus what is owed less on the free variables -/
theorem mergeGap_ge (h : TabOk T) : ∀ (k : Nat) (t m : St), t.2.length = T.n → m.2.length = T.n → m.1 = t.1 →
    t.1 + k = T.n → 0 ≤ mergeGapMin T k t m + gapSum t m (T.order.take k) := by
  have hlen : T.order.length = T.n := by rw [h.perm.length_eq, List.length_range]
  have hnd : T.order.Nodup := (h.perm.nodup_iff).mpr List.nodup_range
  have hmem : ∀ l ∈ T.order, l < T.n := fun l hl => List.mem_range.mp (h.perm.mem_iff.mp hl)
  intro k
  induction k with
  | zero => intro t m _ _ _ _; simp [mergeGapMin, gapSum]
  | succ k ih =>
    intro t m ht hm hdm hd
    have hk : k < T.order.length := by omega
    have hnv : nextVar T [t] = some T.order[k] := by
      have h1 : t.1 < T.n := by omega
      have h2 : T.n - t.1 - 1 = k := by omega
      simp only [nextVar, h1, if_true, h2, List.getElem?_eq_getElem hk]
    have htake : T.order.take (k + 1) = T.order.take k ++ [T.order[k]] := by
      rw [List.take_add_one, List.getElem?_eq_getElem hk]; rfl
    have hvt : varset T t.1 = T.order.take k := by
      unfold varset; congr 1; omega
    have hvm : varset T m.1 = T.order.take k := by rw [hdm]; exact hvt
    have hnd' : (T.order.take k ++ [T.order[k]]).Nodup := by
      rw [← htake]; exact (List.take_sublist _ _).nodup hnd
    have hlt : ∀ l ∈ T.order.take k, l < t.2.length := fun l hl => by
      rw [ht]; exact hmem l ((List.take_sublist _ _).subset hl)
    have hlm : ∀ l ∈ T.order.take k, l < m.2.length := fun l hl => by
      rw [hm]; exact hmem l ((List.take_sublist _ _).subset hl)
    have hb : ∀ v : Int, 0 ≤ cost T m ⟨T.order[k], v⟩ - cost T t ⟨T.order[k], v⟩
        + mergeGapMin T k (trans T t ⟨T.order[k], v⟩) (trans T m ⟨T.order[k], v⟩)
        + gapSum t m (T.order.take k ++ [T.order[k]]) := fun v =>
      mbranch_le T t m T.order[k] v (T.order.take k) _ hvt hvm hnd' hlt hlm
        (ih (trans T t ⟨T.order[k], v⟩) (trans T m ⟨T.order[k], v⟩) (by rw [trans_length, ht]) (by rw [trans_length, hm])
          (by rw [trans_depth, trans_depth, hdm]) (by rw [trans_depth]; omega))
    have h1 := hb 1
    have h2 := hb (-1)
    rw [htake]
    simp only [mergeGapMin, hnv]
    omega

/-- the merged benefit `r` of a variable against the benefit `x` of one of the merged states: `0`, or of the same sign
    and no larger in absolute value -/
def MergedFrom (x r : Int) : Prop := r = 0 ∨ (0 < r ∧ r ≤ x) ∨ (r < 0 ∧ x ≤ r)

theorem mergeLoop_prop : ∀ (xs : List Int) (sign m sg mm : Int), (sign = 0 ∨ sign = 1 ∨ sign = -1) →
    mergeLoop xs sign m = some (sg, mm) →
    (sg = 0 ∨ sg = 1 ∨ sg = -1) ∧ (sign ≠ 0 → sg = sign) ∧ mm ≤ m ∧ (0 ≤ m → 0 ≤ mm) ∧
      ∀ x ∈ xs, mm ≤ absI x ∧ (sg = 0 → x = 0) ∧ (sg = 1 → 0 ≤ x) ∧ (sg = -1 → x ≤ 0) := by
  intro xs
  induction xs with
  | nil =>
    intro sign m sg mm hs he
    simp only [mergeLoop, Option.some.injEq, Prod.mk.injEq] at he
    obtain ⟨rfl, rfl⟩ := he
    exact ⟨hs, fun _ => rfl, Int.le_refl _, fun h => h, fun x hx => by cases hx⟩
  | cons x r ih =>
    intro sign m sg mm hs he
    simp only [mergeLoop] at he
    have habs : (0 : Int) ≤ absI x ∧ x ≤ absI x ∧ -x ≤ absI x ∧ (absI x = x ∨ absI x = -x) := by
      simp only [absI]; omega
    by_cases h1 : sign = 0 ∧ x ≠ 0
    · rw [if_pos h1] at he
      have hsx : x.sign = 1 ∨ x.sign = -1 := by
        rcases Int.lt_trichotomy x 0 with hx | hx | hx
        · exact Or.inr (Int.sign_eq_neg_one_of_neg hx)
        · exact absurd hx h1.2
        · exact Or.inl (Int.sign_eq_one_of_pos hx)
      have hsx' : (0 < x ∧ x.sign = 1) ∨ (x < 0 ∧ x.sign = -1) := by
        rcases Int.lt_trichotomy x 0 with hx | hx | hx
        · exact Or.inr ⟨hx, Int.sign_eq_neg_one_of_neg hx⟩
        · exact absurd hx h1.2
        · exact Or.inl ⟨hx, Int.sign_eq_one_of_pos hx⟩
      obtain ⟨a1, a2, a3, a4, a5⟩ := ih x.sign (min m (absI x)) sg mm (by omega) he
      have hsg : sg = x.sign := a2 (by omega)
      refine ⟨a1, fun hne => absurd h1.1 hne, by omega, by omega, ?_⟩
      intro y hy
      rcases List.mem_cons.mp hy with rfl | hy
      · refine ⟨by omega, by omega, by omega, by omega⟩
      · exact a5 y hy
    · rw [if_neg h1] at he
      by_cases h2 : sign * x < 0
      · rw [if_pos h2] at he; cases he
      · rw [if_neg h2] at he
        obtain ⟨a1, a2, a3, a4, a5⟩ := ih sign (min m (absI x)) sg mm hs he
        refine ⟨a1, a2, by omega, by omega, ?_⟩
        intro y hy
        rcases List.mem_cons.mp hy with rfl | hy
        · rcases hs with rfl | rfl | rfl
          · have hx0 : y = 0 := by
              by_cases hy0 : y = 0
              · exact hy0
              · exact absurd ⟨rfl, hy0⟩ h1
            subst hx0
            refine ⟨by omega, fun _ => rfl, fun _ => Int.le_refl _, fun _ => Int.le_refl _⟩
          · have := a2 (by omega)
            simp only [Int.one_mul] at h2
            refine ⟨by omega, by omega, by omega, by omega⟩
          · have := a2 (by omega)
            have h2' : ¬ (-y < 0) := by simpa using h2
            refine ⟨by omega, by omega, by omega, by omega⟩
        · exact a5 y hy

theorem mergeSub_prop (xs : List Int) : ∀ x ∈ xs, MergedFrom x (mergeSub xs) := by
  intro x hx
  unfold MergedFrom
  cases xs with
  | nil => cases hx
  | cons x0 r =>
    simp only [mergeSub]
    cases he : mergeLoop (x0 :: r) 0 (absI x0) with
    | none => exact Or.inl rfl
    | some p =>
      obtain ⟨sg, mm⟩ := p
      obtain ⟨a1, _, _, a4, a5⟩ := mergeLoop_prop (x0 :: r) 0 (absI x0) sg mm (Or.inl rfl) he
      have h0 : (0 : Int) ≤ absI x0 := by simp only [absI]; omega
      obtain ⟨b1, b2, b3, b4⟩ := a5 x hx
      have habs : absI x = x ∨ absI x = -x := by simp only [absI]; omega
      have hmm := a4 h0
      rcases a1 with rfl | rfl | rfl
      · simp
      · simp only [Int.one_mul]; have := b3 rfl; omega
      · have := b4 rfl
        have e : (-1 : Int) * mm = -mm := by omega
        simp only [e]; omega

theorem get_mergeStates (n : Nat) (ts : List St) (v : Nat) (hv : v < n) :
    get (mergeStates n ts) v = mergeSub (ts.map (fun s => get s v)) := by
  simp [get, mergeStates, List.getElem?_map, List.getElem?_range hv]

theorem owedGap_le {a b : Int} (h : MergedFrom a b) : owedGap a b ≤ absI a - absI b ∧ 0 ≤ absI a - absI b := by
  simp only [MergedFrom] at h
  simp only [owedGap, pos, absI]
  omega

/-- **merge and relax of the max2sat example over-approximate** (`MergeOk`): for states of one layer, each merged-away
    state `t` and every completion, the completion gains from the merged state, counting the increase of the arc cost
    `relax` applies (`relaxCost … 0`), at least what it gains from `t`. -/
theorem merge_ok (h : TabOk T) (ts : List St) (t : St) (ht : t ∈ ts) (hts : ∀ u ∈ ts, u.2.length = T.n ∧ u.1 = t.1)
    (hd : t.1 ≤ T.n) :
    0 ≤ mergeGapMin T (T.n - t.1) t (mergeStates T.n ts) + relaxCost T.n t (mergeStates T.n ts) 0 := by
  have hmlen : (mergeStates T.n ts).2.length = T.n := by simp [mergeStates]
  have hmd : (mergeStates T.n ts).1 = t.1 := by
    cases ts with
    | nil => cases ht
    | cons u r => simp [mergeStates, (hts u (List.mem_cons_self ..)).2]
  have hg := mergeGap_ge T h (T.n - t.1) t (mergeStates T.n ts) (hts t ht).1 hmlen hmd (by omega)
  have hmf : ∀ v, v < T.n → MergedFrom (get t v) (get (mergeStates T.n ts) v) := fun v hv => by
    rw [get_mergeStates _ _ _ hv]
    exact mergeSub_prop _ _ (List.mem_map_of_mem (f := fun s => get s v) ht)
  have hmem : ∀ l ∈ T.order, l < T.n := fun l hl => List.mem_range.mp (h.perm.mem_iff.mp hl)
  -- the loss on the free variables is covered by the increase of the arc cost
  have h1 : gapSum t (mergeStates T.n ts) (T.order.take (T.n - t.1))
      ≤ ((T.order.take (T.n - t.1)).map (fun v => absI (get t v) - absI (get (mergeStates T.n ts) v))).sum :=
    sum_map_le _ _ _ (fun l hl => (owedGap_le (hmf l (hmem l ((List.take_sublist _ _).subset hl)))).1)
  have h2 : ((T.order.take (T.n - t.1)).map (fun v => absI (get t v) - absI (get (mergeStates T.n ts) v))).sum
      ≤ (T.order.map (fun v => absI (get t v) - absI (get (mergeStates T.n ts) v))).sum := by
    -- non-negative terms on the variables of the order
    have hnn : ∀ l ∈ T.order, 0 ≤ absI (get t l) - absI (get (mergeStates T.n ts) l) :=
      fun l hl => (owedGap_le (hmf l (hmem l hl))).2
    have hsplit : (T.order.map (fun v => absI (get t v) - absI (get (mergeStates T.n ts) v))).sum
        = ((T.order.take (T.n - t.1)).map (fun v => absI (get t v) - absI (get (mergeStates T.n ts) v))).sum
          + ((T.order.drop (T.n - t.1)).map (fun v => absI (get t v) - absI (get (mergeStates T.n ts) v))).sum := by
      rw [← List.sum_append, ← List.map_append, List.take_append_drop]
    have hdrop := sum_map_le (fun _ => (0 : Int)) (fun v => absI (get t v) - absI (get (mergeStates T.n ts) v))
      (T.order.drop (T.n - t.1)) (fun l hl => hnn l ((List.drop_sublist _ _).subset hl))
    have hz : ((T.order.drop (T.n - t.1)).map (fun _ => (0 : Int))).sum = 0 := by
      induction (T.order.drop (T.n - t.1)) with
      | nil => rfl
      | cons a l ih => simp [ih]
    omega
  have h3 : relaxCost T.n t (mergeStates T.n ts) 0
      = (T.order.map (fun v => absI (get t v) - absI (get (mergeStates T.n ts) v))).sum := by
    unfold relaxCost
    rw [foldl_add_map, perm_sum_eq (h.perm.map _)]
    omega
  omega

-- ------------------------------------------------------------------------------------------------------------------
-- stated here (evaluated pointwise by the driver on every case); proved in `Max2satProofsTab.lean` (`tabOkOfInst`) and
-- `Max2satProofsSpec.lean` (`dpExact`)

/-- the DP model is exact: `initial_value` + the best completion of the root = the specification's optimum -/
def DpExactStmt (I : Inst) : Prop :=
  I.order.Perm (List.range I.n) → (∀ c ∈ I.clauses, c.2.1 ≠ 0 ∧ c.2.1.natAbs ≤ I.n ∧ c.2.2 ≠ 0 ∧ c.2.2.natAbs ≤ I.n) →
    Max2sat.best I.n I.effClauses = some (I.tab.initial + bestRem I.tab I.n (0, List.replicate I.n 0))

/-- the table `Max2Sat::new` builds from an instance with valid literals satisfies the hypotheses of `rub_admissible` -/
def TabOkOfInst (I : Inst) : Prop :=
  I.order.Perm (List.range I.n) → (∀ c ∈ I.clauses, c.2.1 ≠ 0 ∧ c.2.1.natAbs ≤ I.n ∧ c.2.2 ≠ 0 ∧ c.2.2.natAbs ≤ I.n) →
    TabOk I.tab

section Axioms
#print axioms rub_admissible
#print axioms merge_ok
end Axioms

end Ddo.Examples.Max2satModel
