import DdoModel.Examples.SrflpProofsMerge
import DdoModel.WfRel
/-! `WfRel` for the srflp example, CONDITIONAL on the admissibility of the rough bound on all good states (`RubHyp`: proved on
    exact states only, `SrflpProofsMain.lean`): every other clause — closure of the validity predicate under expansion and
    merge, attainment, termination, `MergeOk` — is proved. -/
namespace Ddo.Examples.SrflpModel
open Ddo Ddo.Examples Ddo.Examples.Util Ddo.SpecUtil

variable (T : Tab)

/-- the potential: the value-to-go of the model itself -/
def H : Nat → St → EInt := fun _ s => bestRem T s
/-- layer validity: a good state of that depth -/
def V : Nat → St → Prop := fun k s => Good T s ∧ s.depth = k

/-- what is missing for `WfRel`: the rough bound dominates the value-to-go of every good state (relaxed ones included) -/
def RubHyp : Prop := ∀ (s : St) (h : Int), Good T s → bestRem T s = some h → h ≤ (rub? T s).getD 0

theorem nextVar_some {k x : Nat} {L : List St} (h : (problem T).nextVar k L = some x) : k < T.n ∧ x = k := by
  simp only [problem, nextVar] at h
  split at h
  · exact ⟨by assumption, (Option.some.inj h).symm⟩
  · cases h

theorem valid_step (h64 : T.n ≤ 64) (hI : Inst T) {k : Nat} {s : St} (hV : V T k s) {x : Nat} {d : Int}
    (hd : d ∈ domain T s) : V T (k + 1) (trans T s ⟨x, d⟩) := by
  obtain ⟨hG, hk⟩ := hV
  obtain ⟨i, rfl, _⟩ := (mem_domain T hG d).mp hd
  have hin := (domain_lt T hG hd).1
  rw [trans_nat T s x i (by rw [hG.cut_len]; exact hin) (by omega)]
  exact ⟨good_step T hI hG hd, by simp [hk]⟩

/-- some decision of the domain attains the value-to-go -/
theorem att_good (h64 : T.n ≤ 64) {k : Nat} {s : St} (hV : V T k s) (hk : k < T.n) {h : Int} (hb : bestRem T s = some h)
    (x : Nat) : ∃ d ∈ domain T s, ∃ h', bestRem T (trans T s ⟨x, d⟩) = some h' ∧ h ≤ cost T s ⟨x, d⟩ + h' := by
  obtain ⟨hG, hd⟩ := hV
  unfold bestRem at hb
  have e : T.n - s.depth = (T.n - s.depth - 1) + 1 := by omega
  rw [e, bestRemF_succ T _ s (by omega)] at hb
  rcases foldl_emax_attained (fun v => (bestRemF T (T.n - s.depth - 1) (trans T s ⟨s.depth, v⟩)).addI (cost T s ⟨s.depth, v⟩))
    (domain T s) none with h0 | ⟨v, hv, h0⟩
  · rw [h0] at hb; cases hb
  · rw [h0] at hb
    refine ⟨v, hv, ?_⟩
    obtain ⟨i, rfl, _⟩ := (mem_domain T hG v).mp hv
    have hin := (domain_lt T hG hv).1
    have ht : ∀ y, trans T s ⟨y, (i : Int)⟩ = stepSt T s i := fun y =>
      trans_nat T s y i (by rw [hG.cut_len]; exact hin) (by omega)
    rw [ht] at hb ⊢
    unfold bestRem
    rw [stepSt_depth]
    have e2 : T.n - (s.depth + 1) = T.n - s.depth - 1 := by omega
    rw [e2]
    revert hb
    generalize bestRemF T (T.n - s.depth - 1) (stepSt T s i) = b
    intro hb
    cases b with
    | none => simp [EInt.addI] at hb
    | some h' =>
      refine ⟨h', rfl, ?_⟩
      simp only [EInt.addI, Option.map_some, Option.some.injEq] at hb
      have : cost T s ⟨x, (i : Int)⟩ = cost T s ⟨s.depth, (i : Int)⟩ := rfl
      omega

theorem valid_merge {k : Nat} {X : List St} (hne : X ≠ []) (hV : ∀ u ∈ X, V T k u) : V T k (mergeStates T X) := by
  refine ⟨good_merge T X hne k (fun w hw => (hV w hw).1) (fun w hw => (hV w hw).2), ?_⟩
  obtain ⟨u, hu⟩ := List.exists_mem_of_ne_nil X hne
  rw [merge_depth_eq T X u hu (fun w hw => by rw [(hV w hw).2, (hV u hu).2])]
  exact (hV u hu).2

/-- **`WfRel` of the srflp example, given the admissibility of the rough bound** -/
theorem wfRel_of_rub (h64 : T.n ≤ 64) (hT : InstOk T) (hR : RubHyp T) :
    WfRel (problem T) (relaxation T) (H T) (V T) where
  vstep := by
    intro k L x s d _ _ hV hd
    exact valid_step T h64 (inst_of_instOk T hT) hV hd
  vstepMerge := by
    intro k L x X d _ hne _ hV hd
    have hVm : V T k (mergeStates T X) := valid_merge T hne hV
    exact valid_step T h64 (inst_of_instOk T hT) hVm hd
  vmerge := by
    intro k X hne hV
    exact valid_merge T hne hV
  att := by
    intro k L x s h hnv _ hV hb
    obtain ⟨hk, _⟩ := nextVar_some T hnv
    exact att_good T h64 hV hk hb x
  attMerge := by
    intro k L x X h hnv hne _ hV hb
    obtain ⟨hk, _⟩ := nextVar_some T hnv
    have hVm : V T k (mergeStates T X) := valid_merge T hne hV
    exact att_good T h64 hVm hk hb x
  term := by
    intro k L s h hnv _ hV hb
    have hn : T.n ≤ s.depth := by
      simp only [problem, nextVar] at hnv
      split at hnv
      · cases hnv
      · rw [hV.2]; omega
    have : bestRem T s = some 0 := bestRem_terminal T s hn
    have hb' : bestRem T s = some h := hb
    rw [this] at hb'
    have := Option.some.inj hb'
    omega
  rub := by
    intro k s h hV hb
    exact hR s h hV.1 hb
  merge := by
    intro k X u src d c h hu hV hb
    have hle := bestRem_merge_ge T h64 (inst_of_instOk T hT) X u hu (fun w hw => (hV w hw).1)
      (fun w hw => by rw [(hV w hw).2, (hV u hu).2])
    have hb' : bestRem T u = some h := hb
    rw [hb'] at hle
    show ∃ h', bestRem T (mergeStates T X) = some h' ∧ c + h ≤ c + h'
    revert hle
    generalize bestRem T (mergeStates T X) = b
    intro hle
    cases b with
    | none => exact absurd hle (by simp)
    | some h' =>
      refine ⟨h', rfl, ?_⟩
      have : h ≤ h' := hle
      omega

#print axioms wfRel_of_rub

end Ddo.Examples.SrflpModel
