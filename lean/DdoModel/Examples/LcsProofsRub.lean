import DdoModel.Examples.LcsProofs
/-! The rough upper bound of the shipped lcs example is admissible (`rubAdmissible`): both `Σ_c min_i rem[i][c][pos_i]` and
    the entries `tables[i][pos_i][pos_{i+1}]` dominate the length of every common subsequence of the suffixes. -/
namespace Ddo.Examples.LcsModel
open Ddo Ddo.Examples Ddo.Examples.Util

theorem foldl_add_init : ∀ (l : List Int) (a : Int), l.foldl (· + ·) a = a + l.foldl (· + ·) 0 := by
  intro l
  induction l with
  | nil => intro a; simp
  | cons x t ih => intro a; rw [List.foldl_cons, List.foldl_cons, ih (a + x), ih (0 + x)]; omega

theorem sum_cons (x : Int) (l : List Int) : sum (x :: l) = x + sum l := by
  unfold sum; rw [List.foldl_cons, foldl_add_init]; omega

theorem length_eq_count_add (a : Nat) : ∀ c : List Nat, c.length = c.count a + (c.filter (· != a)).length := by
  intro c
  induction c with
  | nil => rfl
  | cons x t ih =>
    by_cases h : x = a
    · subst h; simp; omega
    · have : (x != a) = true := by simpa using h
      simp [this, h]; omega

/-- a list whose elements all belong to `l` is no longer than the sum over `l` of upper bounds of its counts -/
theorem length_le_sum_counts : ∀ (l : List Nat) (F : Nat → Int) (c : List Nat), (∀ x ∈ c, x ∈ l) →
    (∀ x ∈ l, (c.count x : Int) ≤ F x) → (c.length : Int) ≤ sum (l.map F) := by
  intro l
  induction l with
  | nil =>
    intro F c hc _
    cases c with
    | nil => simp [sum]
    | cons x t => exact absurd (hc x List.mem_cons_self) (by simp)
  | cons a l' ih =>
    intro F c hc hF
    rw [List.map_cons, sum_cons, length_eq_count_add a c]
    have h1 := hF a List.mem_cons_self
    have h2 := ih F (c.filter (· != a)) (by
      intro x hx
      obtain ⟨hx1, hx2⟩ := List.mem_filter.mp hx
      rcases List.mem_cons.mp (hc x hx1) with h | h
      · simp [h] at hx2
      · exact h) (by
      intro x hx
      have := List.Sublist.count_le x (List.filter_sublist (p := (· != a)) (l := c))
      have := hF x (List.mem_cons_of_mem _ hx)
      omega)
    omega

theorem foldl_min_ge : ∀ (l : List Int) (a B : Int), B ≤ a → (∀ y ∈ l, B ≤ y) → B ≤ l.foldl min a := by
  intro l
  induction l with
  | nil => intro a B h _; exact h
  | cons x t ih =>
    intro a B h hl
    rw [List.foldl_cons]
    exact ih _ B (by have := hl x List.mem_cons_self; omega) (fun y hy => hl y (List.mem_cons_of_mem _ hy))

theorem minOf_ge {l : List Int} {m B : Int} (h : minOf l = some m) (hl : ∀ y ∈ l, B ≤ y) : B ≤ m := by
  cases l with
  | nil => cases h
  | cons x t =>
    simp only [minOf, Option.some.injEq] at h
    rw [← h]
    exact foldl_min_ge t x B (hl x List.mem_cons_self) (fun y hy => hl y (List.mem_cons_of_mem _ hy))

theorem minOf_isSome {l : List Int} (h : l ≠ []) : minOf l = some ((minOf l).getD 0) := by
  cases l with
  | nil => exact absurd rfl h
  | cons x t => rfl

theorem mapM_forall {α β : Type} (f : α → Option β) (P : β → Prop) : ∀ l : List α, (∀ x ∈ l, ∃ y, f x = some y ∧ P y) →
    ∃ r, l.mapM f = some r ∧ ∀ y ∈ r, P y := by
  intro l
  induction l with
  | nil => intro _; exact ⟨[], rfl, fun y hy => by cases hy⟩
  | cons a t ih =>
    intro h
    obtain ⟨y, hy, hP⟩ := h a List.mem_cons_self
    obtain ⟨r, hr, hPr⟩ := ih (fun x hx => h x (List.mem_cons_of_mem _ hx))
    refine ⟨y :: r, by rw [List.mapM_cons, hy, hr]; rfl, ?_⟩
    intro z hz
    rcases List.mem_cons.mp hz with rfl | hz
    · exact hP
    · exact hPr z hz

theorem pairTables_getElem : ∀ (ws : List (List Nat)) (i : Nat), i + 1 < ws.length →
    (pairTables ws)[i]? = some (lcsTable (str ws (i + 1)) (str ws i)) := by
  intro ws
  induction ws with
  | nil => intro i hi; simp at hi
  | cons a r ih =>
    intro i hi
    cases r with
    | nil => simp at hi
    | cons b r' =>
      cases i with
      | zero => simp [pairTables, str]
      | succ j =>
        simp only [pairTables, List.getElem?_cons_succ]
        rw [ih j (by simpa using hi)]
        simp [str]

/-- the remaining occurrences of `x`, minimised over the strings -/
def minCnt (ws : List (List Nat)) (s : St) (x : Nat) : Int :=
  (minOf ((List.range ws.length).map fun i => (((suf ws s i).count x : Nat) : Int))).getD 0

section
variable {J : Inst} {ws : List (List Nat)} (hB : Built J ws)
include hB

theorem rub?_ge {s : St} (hV : Valid ws s) {c : List Nat} (hc : ∀ x ∈ c, x < J.nChars) (hcs : CS ws s c) :
    ∃ r, rub? J s = some r ∧ (c.length : Int) ≤ r := by
  have h0 : 0 < ws.length := List.length_pos_iff.mpr hB.ne
  have hper : (List.range J.nChars).mapM (fun c => do
      let rs ← (List.range J.nStrings).mapM fun i => do let p ← s[i]?; remAt J i c p
      minOf rs) = some ((List.range J.nChars).map (minCnt ws s)) := by
    apply mapM_total
    intro x hx
    have hx : x < J.nChars := List.mem_range.mp hx
    rw [mapM_total _ (fun i => (((suf ws s i).count x : Nat) : Int))]
    · simp only [Option.bind_eq_bind, Option.bind_some, hB.nStrings]
      exact minOf_isSome (by simpa using hB.ne)
    · intro i hi
      have hi : i < ws.length := by rw [← hB.nStrings]; exact List.mem_range.mp hi
      simp only [getElem?_of_valid hV hi, Option.bind_eq_bind, Option.bind_some, remAt_eq hB hi hx (hV.2 i hi)]
      rfl
  have hsum : (c.length : Int) ≤ sum ((List.range J.nChars).map (minCnt ws s)) := by
    apply length_le_sum_counts
    · intro x hx; exact List.mem_range.mpr (hc x hx)
    · intro x _
      refine minOf_ge (minOf_isSome (by simpa using hB.ne)) ?_
      intro y hy
      obtain ⟨i, hi, rfl⟩ := List.mem_map.mp hy
      have := List.Sublist.count_le x (hcs i (List.mem_range.mp hi))
      omega
  obtain ⟨pw, hpw, hpwP⟩ := mapM_forall (fun i => do
      let p ← s[i]?
      let q ← s[i + 1]?
      tabAt J i p q) (fun y => (c.length : Int) ≤ y) (List.range (J.nStrings - 1)) (by
    intro i hi
    have hi : i + 1 < ws.length := by have := List.mem_range.mp hi; rw [hB.nStrings] at this; omega
    have hi' : i < ws.length := by omega
    obtain ⟨row, x, h1, h2, h3⟩ := lcsTable_ub (str ws (i + 1)) (str ws i) (pos s i) (pos s (i + 1)) (hV.2 i hi')
      (hV.2 (i + 1) hi) c (hcs i hi') (hcs (i + 1) hi)
    refine ⟨x, ?_, h3⟩
    simp only [getElem?_of_valid hV hi, getElem?_of_valid hV hi', Option.bind_eq_bind, Option.bind_some, tabAt, hB.tables,
      pairTables_getElem ws i hi, h1, h2])
  unfold rub?
  simp only [Option.bind_eq_bind] at hper hpw ⊢
  simp only [hper, hpw, Option.bind_some]
  cases hm : minOf pw with
  | none => exact ⟨_, rfl, hsum⟩
  | some m =>
    refine ⟨_, rfl, ?_⟩
    have := minOf_ge hm hpwP
    show (c.length : Int) ≤ min _ m
    omega

end

/-- **`RubAdmissibleStmt` holds** -/
theorem rubAdmissible : RubAdmissibleStmt := by
  intro k declared lines J hJ s hs
  have hB := built_of_instOk hJ
  have hV := valid_of_validB hB hs
  obtain ⟨c, hc, h1, h2, _⟩ := bestRem_spec hB hV
  obtain ⟨r, hr, hle⟩ := rub?_ge hB hV h2 h1
  rw [hc]
  simp only [relaxation, hr, Option.getD_some]
  exact hle

#print axioms rubAdmissible

end Ddo.Examples.LcsModel
