import DdoModel.Examples.Util
/-! Specification of the golomb example (`ddo/examples/golomb`): OPTIMAL GOLOMB RULER with `n` marks.
    A Golomb ruler is a set of `n` integer marks `0 = m_1 < m_2 < … < m_n` whose `n(n-1)/2` pairwise
    differences are all distinct; its length is `m_n`; the problem asks for the shortest one.
    The example has no instance file: `n` is the positional command line argument.  Because ddo maximises,
    the model's value is minus the length and the program prints it as is: `Objective: -<shortest length>`
    (`-11` for `n = 5`; `0` for `n = 1`).  The model is limited to `n ≤ 15` (256-bit sets, positions ≤ n²+1).
    By exhaustive enumeration (depth first, a branch is abandoned only once two differences coincide —
    every extension of a non-Golomb set is non-Golomb) of the rulers of length ≤ L for L = 0, 1, 2, …;
    `0, 1, 3, 7, …, 2^(n-1) - 1` is a Golomb ruler, so the search stops at L < 2^(n-1).
    Independent of the DP model (and of its table of known optima). -/
namespace Ddo.Examples.Golomb

/-- all pairwise differences (with multiplicity) -/
def diffs : List Nat → List Nat
  | [] => []
  | m :: rest => rest.map (fun a => if a ≤ m then m - a else a - m) ++ diffs rest

def distinct : List Nat → Bool
  | [] => true
  | x :: xs => !(xs.contains x) && distinct xs

def golomb (marks : List Nat) : Bool := distinct (diffs marks)

/-- can `k` more marks, each larger than those of `marks` and ≤ `L`, be added keeping a Golomb ruler? -/
def canPlace (L : Nat) : Nat → List Nat → Bool
  | 0, _ => true
  | k + 1, marks => (List.range (L + 1)).any fun m =>
      marks.all (· < m) && golomb (m :: marks) && canPlace L k (m :: marks)

def shortest (n : Nat) : Option Nat :=
  (List.range (2 ^ (n - 1))).find? fun L => canPlace L (n - 1) [0]

/-- tokens: `n` -/
def specFromTokens : List Int → Option Int
  | [n] => if n < 1 then none else (shortest n.toNat).map fun L => -(L : Int)
  | _ => none

end Ddo.Examples.Golomb
