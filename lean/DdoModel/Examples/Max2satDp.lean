import DdoModel.Dp
import DdoModel.Examples.Max2sat
/-! The DP model, relaxation and ranking of the shipped max2sat example (`ddo/examples/max2sat/{model,relax,heuristics,
    data}.rs`) in Lean: definitions only (the driver engine `exmodel` compares them pointwise with the example's own
    code, compiled into the harness; statements and proofs about them are in `Max2satModel.lean`).

Mirror of the Rust code (state = `(depth, substates)`, `substates[v]` = marginal benefit of setting variable `v` to
true (`> 0`) or false (`< 0`) given the decisions made so far):
* literals are non-zero integers, `t(v) = v + 1`, `f(v) = -(v + 1)` for the variable `v` (0-based);
* `Weighed2Sat.weights` is a hash map keyed by `BinaryClause::new(x, y) = (min x y, max x y)`: a clause listed twice
  (in either literal order) keeps its LAST weight (`insertClause`); a unit clause is `(a, a)`, a tautology `(-a, a)`;
* `Max2Sat::new`: `weights[offset(a, b)] = w` with `offset(x, y) = mk_lit(min) * 2 * n + mk_lit(max)`,
  `mk_lit(x) = 2 * (|x| - 1) + [x > 0]` — a `(2n)²` table, `0` where no clause was given;
  `sum_of_clause_weights[idx a] += w`, and `[idx b] += w` unless the clause is a unit (a tautology counts twice for its
  variable); `initial` = the sum of the tautology weights;
* `vars_by_sum_of_clause_weights` = `sort_unstable_by_key` on that sum: a **parameter** here (`order`, what the code
  reveals); the driver checks that it is a permutation sorted by non-decreasing key and tells whether it is the stable
  order (it is: slices of at most 20 elements are insertion-sorted);
* `next_variable(_, layer)`: `None` on an empty layer; else with `d` the depth stored in the FIRST state of the layer,
  `order[n - d - 1]` if `d < n` (the depth argument is ignored);
* domain `[1, -1]` (call order: `T` then `F`), whatever the state;
* `varset(state)` = `order[0 .. n - (state.depth + 1)]`: the variables still free AFTER the decision at hand;
* `transition`: depth + 1, benefit of the decided variable reset to `0`, and for every `l` of `varset`
  `+= w(t k, t l) - w(t k, f l)` when `k` is set to false (then the clauses `k ∨ l`, `k ∨ ¬l` still depend on `l`),
  `+= w(f k, t l) - w(f k, f l)` otherwise (any value other than `-1` is treated as true);
* `transition_cost`: `(∓state[k])⁺` + the unit clause satisfied + per `l` of `varset` the clauses with `l` satisfied by
  the decision + `min((state[l])⁺ + w₁, (-state[l])⁺ + w₂)` (the gain that no longer depends on `l`);
* `merge`: per variable, `sign * min |b|` if all benefits have the same sign (zeros allowed), else `0`; the depth of the
  first state; `relax`: `cost + Σ_v |dst[v]| - |merged[v]|`;
* `fast_upper_bound(s) = Σ_v |s[v]| + estimates[k] - initial + nk[k]` with `k = s.depth`, where `estimates[k]` sums,
  over the free variables `order[0 .. n - k]`, the best of the four assignments of each pair plus tautology plus best
  unit clause of each, and `nk[k]` = the tautologies of the decided variables `order[n - k ..]`.  Both tables have `n`
  entries: on a terminal state (`depth = n`) the Rust code panics (index out of bounds); the library never asks;
* `Max2SatRanking::compare` = comparison of `Σ_v |s[v]|`. -/
namespace Ddo.Examples.Max2satModel
open Ddo Ddo.Examples Ddo.Examples.Util

abbrev St := Nat × List Int     -- (depth, substates)

/-- the instance as handed to the reader / constructor, and the variable order the constructor computed -/
structure Inst where
  n : Nat
  clauses : List (Int × Int × Int)    -- `(w, x, y)` in file order, literals as written; unit clause: `x = y`
  order : List Nat                     -- `vars_by_sum_of_clause_weights`

def idx (x : Int) : Nat := x.natAbs - 1
def mkLit (x : Int) : Nat := (x.natAbs - 1) + (x.natAbs - 1) + (if x > 0 then 1 else 0)
def offset (n : Nat) (x y : Int) : Nat := mkLit (min x y) * 2 * n + mkLit (max x y)
def tLit (v : Nat) : Int := (v : Int) + 1
def fLit (v : Nat) : Int := -((v : Int) + 1)
def pos (x : Int) : Int := max 0 x
def absI (x : Int) : Int := (x.natAbs : Int)

/-- `Weighed2Sat.weights`: the map from `(min, max)` literal pairs to weights; `insert` replaces -/
abbrev CMap := List ((Int × Int) × Int)
def insertClause (m : CMap) (k : Int × Int) (w : Int) : CMap :=
  if m.any (fun e => e.1 == k) then m.map (fun e => if e.1 == k then (k, w) else e) else m ++ [(k, w)]
def Inst.cmap (I : Inst) : CMap :=
  I.clauses.foldl (fun m c => insertClause m (min c.2.1 c.2.2, max c.2.1 c.2.2) c.1) []
/-- the clauses that count, as `(w, a, b)` with `a ≤ b` (input of the specification `Max2sat.best`) -/
def Inst.effClauses (I : Inst) : List (Int × Int × Int) := I.cmap.map (fun e => (e.2, e.1.1, e.1.2))

def addAt (l : List Int) (i : Nat) (w : Int) : List Int := l.modify i (· + w)

/-- `Max2Sat.weights` -/
def Inst.weights (I : Inst) : Array Int :=
  I.cmap.foldl (fun t e => t.setIfInBounds (offset I.n e.1.1 e.1.2) e.2) (Array.replicate ((2 * I.n) * (2 * I.n)) 0)
/-- `Max2Sat.sum_of_clause_weights` -/
def Inst.sums (I : Inst) : List Int :=
  I.cmap.foldl (fun s e =>
    let s := addAt s (idx e.1.1) e.2
    if e.1.1 ≠ e.1.2 then addAt s (idx e.1.2) e.2 else s) (List.replicate I.n 0)
/-- `Max2Sat.initial` -/
def Inst.initial (I : Inst) : Int :=
  I.cmap.foldl (fun s e => if e.1.1 = - e.1.2 then s + e.2 else s) 0

/-- insertion sort by key, stable: what `sort_unstable_by_key` does on slices of at most 20 elements -/
def insertByKey (key : Nat → Int) (x : Nat) : List Nat → List Nat
  | [] => [x]
  | y :: r => if key x < key y then x :: y :: r else y :: insertByKey key x r
def stableOrder (n : Nat) (key : Nat → Int) : List Nat :=
  (List.range n).foldl (fun acc x => insertByKey key x acc) []

/-- what the model functions need of a `Max2Sat` value -/
structure Tab where
  n : Nat
  w : Array Int
  order : List Nat
  initial : Int
  est : List Int
  nk : List Int

def wOf (n : Nat) (w : Array Int) (x y : Int) : Int := w.getD (offset n x y) 0

/-- the best of the four assignments of the pair `(vi, vj)` -/
def pairMax (n : Nat) (w : Array Int) (vi vj : Nat) : Int :=
  let tt := wOf n w (tLit vi) (tLit vj)
  let tf := wOf n w (tLit vi) (fLit vj)
  let ft := wOf n w (fLit vi) (tLit vj)
  let ff := wOf n w (fLit vi) (fLit vj)
  let wtt := tt + tf + ft
  let wtf := tt + tf + ff
  let wft := tt + ft + ff
  let wff := tf + ft + ff
  max (max wtt wtf) (max wft wff)

/-- tautology + best unit clause of `vi` -/
def selfTerm (n : Nat) (w : Array Int) (vi : Nat) : Int :=
  wOf n w (tLit vi) (fLit vi) + max (wOf n w (tLit vi) (tLit vi)) (wOf n w (fLit vi) (fLit vi))

def estOver (n : Nat) (w : Array Int) : List Nat → Int
  | [] => 0
  | vi :: rest => rest.foldl (fun acc vj => acc + pairMax n w vi vj) 0 + selfTerm n w vi + estOver n w rest

/-- `precompute_estimate(k)`: over the free variables `order[0 .. n - k]` -/
def estimate (n : Nat) (w : Array Int) (order : List Nat) (k : Nat) : Int := estOver n w (order.take (n - k))
/-- `precompute_nk(k)`: the tautologies of the decided variables `order[n - k ..]` -/
def nkOf (n : Nat) (w : Array Int) (order : List Nat) (k : Nat) : Int :=
  sum ((order.drop (n - k)).map (fun vi => wOf n w (tLit vi) (fLit vi)))

def Inst.tab (I : Inst) : Tab :=
  let w := I.weights
  { n := I.n, w := w, order := I.order, initial := I.initial,
    est := (List.range I.n).map (estimate I.n w I.order),
    nk := (List.range I.n).map (nkOf I.n w I.order) }

variable (T : Tab)

def Tab.wt (x y : Int) : Int := wOf T.n T.w x y

def get (s : St) (i : Nat) : Int := (s.2[i]?).getD 0

/-- `varset(state)`: the variables free after the decision taken in a state of depth `depth` -/
def varset (depth : Nat) : List Nat := T.order.take (T.n - (depth + 1))

def trans (s : St) (d : Dec) : St :=
  let k := d.var
  let ret := s.2.set k 0
  let ret :=
    if d.val = -1 then
      (varset T s.1).foldl (fun r l => addAt r l (T.wt (tLit k) (tLit l) - T.wt (tLit k) (fLit l))) ret
    else
      (varset T s.1).foldl (fun r l => addAt r l (T.wt (fLit k) (tLit l) - T.wt (fLit k) (fLit l))) ret
  (s.1 + 1, ret)

def cost (s : St) (d : Dec) : Int :=
  let k := d.var
  if d.val = -1 then
    pos (- get s k) + (varset T s.1).foldl (fun acc l =>
      acc + ((T.wt (fLit k) (fLit l) + T.wt (fLit k) (tLit l))
             + min (pos (get s l) + T.wt (tLit k) (tLit l)) (pos (- get s l) + T.wt (tLit k) (fLit l))))
      (T.wt (fLit k) (fLit k))
  else
    pos (get s k) + (varset T s.1).foldl (fun acc l =>
      acc + ((T.wt (tLit k) (fLit l) + T.wt (tLit k) (tLit l))
             + min (pos (get s l) + T.wt (fLit k) (tLit l)) (pos (- get s l) + T.wt (fLit k) (fLit l))))
      (T.wt (tLit k) (tLit k))

def nextVar (layer : List St) : Option Nat :=
  match layer with
  | [] => none
  | s :: _ => if s.1 < T.n then T.order[T.n - s.1 - 1]? else none

def problem : Problem St :=
  { nbVars := T.n
    init := (0, List.replicate T.n 0)
    initVal := T.initial
    trans := trans T
    cost := fun s _ d => cost T s d
    nextVar := fun _ layer => nextVar T layer
    domain := fun _ _ => [1, -1]
    impacted := fun _ _ => true }

/-- the inner loop of `merge` for one variable: `none` = the signs differ (`same = false`), else the sign met first and
    the least absolute value -/
def mergeLoop : List Int → Int → Int → Option (Int × Int)
  | [], sign, m => some (sign, m)
  | x :: r, sign, m =>
    let m := min m (absI x)
    if sign = 0 ∧ x ≠ 0 then mergeLoop r (Int.sign x) m
    else if sign * x < 0 then none
    else mergeLoop r sign m
def mergeSub (xs : List Int) : Int :=
  match xs with
  | [] => 0                    -- `states[0]` panics in Rust
  | x :: _ =>
    match mergeLoop xs 0 (absI x) with
    | none => 0
    | some (sg, m) => sg * m
def mergeStates (n : Nat) (states : List St) : St :=
  ((states.head?.map (·.1)).getD 0, (List.range n).map (fun v => mergeSub (states.map (fun s => get s v))))

def relaxCost (n : Nat) (dst relaxed : St) (c : Int) : Int :=
  (List.range n).foldl (fun acc v => acc + (absI (get dst v) - absI (get relaxed v))) c

def rank (s : St) : Int := sum (s.2.map absI)

/-- `fast_upper_bound`: `none` = index out of bounds in the tables (terminal state) -/
def rub? (s : St) : Option Int :=
  match T.est[s.1]?, T.nk[s.1]? with
  | some e, some k => some (rank s + e - T.initial + k)
  | _, _ => none

def relaxation : Relax St :=
  { merge := mergeStates T.n
    relax := fun _ dst relaxed _ c => relaxCost T.n dst relaxed c
    rub := fun s => (rub? T s).getD 0 }

/-- `Max2SatRanking::compare` (and `State::cmp`) -/
def rankCmp (a b : St) : Ordering := compare (rank a) (rank b)

-- ------------------------------------------------------------------------------------------------------------------
-- what the driver evaluates pointwise (exhaustive enumeration over the remaining variables)

/-- the best total transition cost of a completion of `s` (`fuel` ≥ the number of free variables) -/
def bestRem : Nat → St → Int
  | 0, _ => 0
  | fuel + 1, s =>
    match nextVar T [s] with
    | none => 0
    | some x =>
      max (cost T s ⟨x, 1⟩ + bestRem fuel (trans T s ⟨x, 1⟩))
          (cost T s ⟨x, -1⟩ + bestRem fuel (trans T s ⟨x, -1⟩))

/-- the least, over the completions, of (gain of the completion from `m`) − (its gain from `t`); both states have the
    same depth, hence the same next variable -/
def mergeGapMin : Nat → St → St → Int
  | 0, _, _ => 0
  | fuel + 1, t, m =>
    match nextVar T [t] with
    | none => 0
    | some x =>
      min (cost T m ⟨x, 1⟩ - cost T t ⟨x, 1⟩ + mergeGapMin fuel (trans T t ⟨x, 1⟩) (trans T m ⟨x, 1⟩))
          (cost T m ⟨x, -1⟩ - cost T t ⟨x, -1⟩ + mergeGapMin fuel (trans T t ⟨x, -1⟩) (trans T m ⟨x, -1⟩))

/-- `RubOk` at one state: the bound `r` claimed for `s` dominates every completion -/
def rubOkAt (s : St) (r : Int) : Bool := decide (bestRem T (T.n - s.1) s ≤ r)

/-- `MergeOk` at one merged-away state `t`, merged state `m`, and increase `delta` of the cost of the arc into `t` -/
def mergeOkAt (t m : St) (delta : Int) : Bool :=
  t.1 == m.1 && decide (0 ≤ mergeGapMin T (T.n - t.1) t m + delta)

/-- the tautology weight of a variable -/
def tautOf (v : Nat) : Int := T.wt (tLit v) (fLit v)
def tautSum (L : List Nat) : Int := (L.map (tautOf T)).sum

/-- the hypotheses of the admissibility theorem `rub_admissible` (`Max2satModel.lean`: `TabOk`), decided: the order is a
    permutation of the variables, `initial` is the sum of the tautology weights, the tables are the ones built by
    `precompute_estimates` / `precompute_nks` -/
def tabOkB : Bool :=
  T.order.isPerm (List.range T.n) && T.initial == tautSum T T.order
    && T.est == (List.range T.n).map (estimate T.n T.w T.order)
    && T.nk == (List.range T.n).map (nkOf T.n T.w T.order)

/-- all assignments (lists of the true variables, 1-based) with the weight the specification gives them -/
def specTable (n : Nat) (clauses : List (Int × Int × Int)) : List (List Int × Int) :=
  (sublists (oneTo n)).map (fun tr => (tr, Max2sat.satisfiedWeight clauses tr))
/-- the specification's optimum among the assignments that make all of `lits` true -/
def specBestExt (tbl : List (List Int × Int)) (lits : List Int) : Option Int :=
  maxOf ((tbl.filter (fun e => lits.all (fun l => Max2sat.litTrue e.1 l))).map (·.2))

end Ddo.Examples.Max2satModel
