import DdoModel.Examples.LcsModel
namespace Ddo.Examples.LcsModel
open Ddo Ddo.Examples Ddo.Examples.Util

/-- `c` is a common subsequence of all the strings `ws` -/
def ComSub {α : Type} (ws : List (List α)) (c : List α) : Prop := ∀ w ∈ ws, c.Sublist w

-- A. generic spec-side facts
theorem mem_sublists {α : Type} (c l : List α) : c ∈ sublists l ↔ c.Sublist l := by
  induction l generalizing c with
  | nil => simp [sublists]
  | cons x xs ih =>
    simp only [sublists, List.mem_append, List.mem_map, ih, List.sublist_cons_iff]
    constructor
    · rintro (h | ⟨r, hr, rfl⟩)
      · exact Or.inl h
      · exact Or.inr ⟨r, rfl, hr⟩
    · rintro (h | ⟨r, rfl, hr⟩)
      · exact Or.inl h
      · exact Or.inr ⟨r, hr, rfl⟩

theorem isSubseq_iff (c l : List Int) : Lcs.isSubseq c l = true ↔ c.Sublist l := by
  fun_induction Lcs.isSubseq c l with
  | case1 => simp
  | case2 => simp
  | case3 x xs ys ih =>
    rw [ih]
    exact (List.cons_sublist_cons).symm
  | case4 x xs y ys h ih =>
    rw [ih, List.sublist_cons_iff]
    constructor
    · exact Or.inl
    · rintro (h' | ⟨r, hr, _⟩)
      · exact h'
      · cases hr; exact absurd rfl h

theorem mem_commons (lines : List (List Int)) (c : List Int) (h : lines ≠ []) : c ∈ commons lines ↔ ComSub lines c := by
  cases lines with
  | nil => exact absurd rfl h
  | cons f o =>
    simp only [commons, List.mem_filter, mem_sublists, List.all_eq_true, isSubseq_iff, ComSub, List.mem_cons,
      forall_eq_or_imp]

theorem foldl_max_ge (l : List Int) (a : Int) : a ≤ l.foldl max a ∧ ∀ y ∈ l, y ≤ l.foldl max a := by
  induction l generalizing a with
  | nil => simp
  | cons x xs ih =>
    simp only [List.foldl_cons, List.mem_cons, forall_eq_or_imp]
    have := ih (max a x)
    refine ⟨by omega, by omega, this.2⟩

theorem foldl_max_mem (l : List Int) (a : Int) : l.foldl max a = a ∨ l.foldl max a ∈ l := by
  induction l generalizing a with
  | nil => simp
  | cons x xs ih =>
    simp only [List.foldl_cons, List.mem_cons]
    rcases ih (max a x) with h | h
    · rw [h]; omega
    · exact Or.inr (Or.inr h)

theorem maxOf_eq_some (l : List Int) (m : Int) (hm : m ∈ l) (hle : ∀ y ∈ l, y ≤ m) : maxOf l = some m := by
  cases l with
  | nil => cases hm
  | cons x xs =>
    simp only [maxOf, Option.some.injEq]
    have h1 := foldl_max_ge xs x
    have h2 := foldl_max_mem xs x
    have h3 : xs.foldl max x ∈ x :: xs := by
      rcases h2 with h | h
      · rw [h]; exact List.mem_cons_self ..
      · exact List.mem_cons_of_mem _ h
    have h4 := hle _ h3
    have h5 : m ≤ xs.foldl max x := by
      rcases List.mem_cons.mp hm with rfl | h
      · exact h1.1
      · exact h1.2 _ h
    omega

/-- the specification value: attained and maximal among the common subsequences that begin with `pre` -/
theorem specBestExt_eq (lines : List (List Int)) (hne : lines ≠ []) (pre : List Int) (M : Nat)
    (hatt : ∃ c : List Int, ComSub lines c ∧ pre <+: c ∧ c.length = M)
    (hmax : ∀ c : List Int, ComSub lines c → pre <+: c → c.length ≤ M) :
    specBestExt lines pre = some (M : Int) := by
  unfold specBestExt specOf
  apply maxOf_eq_some
  · obtain ⟨c, hc, hp, hl⟩ := hatt
    rw [List.mem_filterMap]
    refine ⟨c, (mem_commons lines c hne).mpr hc, ?_⟩
    rw [if_pos (List.isPrefixOf_iff_prefix.mpr hp), hl]
  · intro y hy
    rw [List.mem_filterMap] at hy
    obtain ⟨c, hc, hy⟩ := hy
    split at hy
    · next hp =>
      cases hy
      have := hmax c ((mem_commons lines c hne).mp hc) (List.isPrefixOf_iff_prefix.mp hp)
      omega
    · cases hy

-- B. reader facts
theorem mem_insertSorted (x y : Int) (l : List Int) : y ∈ insertSorted x l ↔ y = x ∨ y ∈ l := by
  induction l with
  | nil => simp [insertSorted]
  | cons a r ih =>
    unfold insertSorted
    split
    · simp
    · split
      · next h => subst h; simp
      · simp only [List.mem_cons, ih]
        constructor
        · rintro (h | h | h)
          · exact Or.inr (Or.inl h)
          · exact Or.inl h
          · exact Or.inr (Or.inr h)
        · rintro (h | h | h)
          · exact Or.inr (Or.inl h)
          · exact Or.inl h
          · exact Or.inr (Or.inr h)

theorem pairwise_insertSorted (x : Int) (l : List Int) (h : l.Pairwise (· < ·)) :
    (insertSorted x l).Pairwise (· < ·) := by
  induction l with
  | nil => simp [insertSorted]
  | cons a r ih =>
    rw [List.pairwise_cons] at h
    unfold insertSorted
    split
    · next hxa =>
      rw [List.pairwise_cons]
      refine ⟨?_, List.pairwise_cons.mpr h⟩
      intro b hb
      rcases List.mem_cons.mp hb with rfl | hb
      · exact hxa
      · have := h.1 b hb; omega
    · split
      · exact List.pairwise_cons.mpr h
      · next h1 h2 =>
        rw [List.pairwise_cons]
        refine ⟨?_, ih h.2⟩
        intro b hb
        rcases (mem_insertSorted x b r).mp hb with rfl | hb
        · omega
        · exact h.1 b hb

theorem foldl_insertSorted (xs : List Int) (acc : List Int) (h : acc.Pairwise (· < ·)) :
    (xs.foldl (fun acc x => insertSorted x acc) acc).Pairwise (· < ·) ∧
    ∀ y, y ∈ xs.foldl (fun acc x => insertSorted x acc) acc ↔ y ∈ acc ∨ y ∈ xs := by
  induction xs generalizing acc with
  | nil => simp [h]
  | cons x xs ih =>
    simp only [List.foldl_cons]
    have := ih (insertSorted x acc) (pairwise_insertSorted x acc h)
    refine ⟨this.1, ?_⟩
    intro y
    rw [this.2 y, mem_insertSorted, List.mem_cons]
    constructor
    · rintro ((h | h) | h)
      · exact Or.inr (Or.inl h)
      · exact Or.inl h
      · exact Or.inr (Or.inr h)
    · rintro (h | h | h)
      · exact Or.inl (Or.inr h)
      · exact Or.inl (Or.inl h)
      · exact Or.inr h

theorem alphabetOf_pairwise (lines : List (List Int)) : (alphabetOf lines).Pairwise (· < ·) :=
  (foldl_insertSorted lines.flatten [] List.Pairwise.nil).1

theorem mem_alphabetOf_iff (lines : List (List Int)) (x : Int) : x ∈ alphabetOf lines ↔ ∃ l ∈ lines, x ∈ l := by
  unfold alphabetOf
  rw [(foldl_insertSorted lines.flatten [] List.Pairwise.nil).2 x]
  simp [List.mem_flatten]

theorem rankOf_getElem_of_pairwise (al : List Int) (hp : al.Pairwise (· < ·)) (i : Nat) (h : i < al.length) :
    rankOf al al[i] = i := by
  induction al generalizing i with
  | nil => simp at h
  | cons a r ih =>
    rw [List.pairwise_cons] at hp
    cases i with
    | zero => simp [rankOf, List.takeWhile]
    | succ i =>
      have hi : i < r.length := by simpa using h
      have hlt := hp.1 r[i] (List.getElem_mem hi)
      have hne : (a != r[i]) = true := by simp; omega
      have := ih hp.2 i hi
      simp only [rankOf] at this ⊢
      simp only [List.getElem_cons_succ, List.takeWhile_cons, hne, if_true, List.length_cons, this]

theorem rankOf_getElem (lines : List (List Int)) (i : Nat) (h : i < (alphabetOf lines).length) :
    rankOf (alphabetOf lines) (alphabetOf lines)[i] = i :=
  rankOf_getElem_of_pairwise _ (alphabetOf_pairwise lines) i h

theorem getElem_rankOf (al : List Int) (x : Int) (h : x ∈ al) : al[rankOf al x]? = some x := by
  induction al with
  | nil => cases h
  | cons a r ih =>
    by_cases hax : a = x
    · subst hax; simp [rankOf, List.takeWhile]
    · have hne : (a != x) = true := by simp [hax]
      have hr : x ∈ r := by
        rcases List.mem_cons.mp h with h | h
        · exact absurd h.symm hax
        · exact h
      have := ih hr
      simp only [rankOf] at this ⊢
      simp only [List.takeWhile_cons, hne, if_true, List.length_cons, List.getElem?_cons_succ, this]

theorem rankOf_lt (al : List Int) (x : Int) (h : x ∈ al) : rankOf al x < al.length := by
  have := getElem_rankOf al x h
  rw [List.getElem?_eq_some_iff] at this
  exact this.1

theorem mem_alphabetOf (lines : List (List Int)) (l : List Int) (hl : l ∈ lines) (x : Int) (hx : x ∈ l) :
    x ∈ alphabetOf lines := (mem_alphabetOf_iff lines x).mpr ⟨l, hl, hx⟩

theorem length_insertByLen (x : List Nat) (l : List (List Nat)) : (insertByLen x l).length = l.length + 1 := by
  induction l with
  | nil => rfl
  | cons a r ih => unfold insertByLen; split <;> simp [ih]

theorem mem_insertByLen (x y : List Nat) (l : List (List Nat)) : y ∈ insertByLen x l ↔ y = x ∨ y ∈ l := by
  induction l with
  | nil => simp [insertByLen]
  | cons a r ih =>
    unfold insertByLen
    split
    · simp
    · simp only [List.mem_cons, ih]
      constructor
      · rintro (h | h | h)
        · exact Or.inr (Or.inl h)
        · exact Or.inl h
        · exact Or.inr (Or.inr h)
      · rintro (h | h | h)
        · exact Or.inr (Or.inl h)
        · exact Or.inl h
        · exact Or.inr (Or.inr h)

theorem foldl_insertByLen (xs acc : List (List Nat)) :
    (xs.foldl (fun acc x => insertByLen x acc) acc).length = acc.length + xs.length ∧
    ∀ y, y ∈ xs.foldl (fun acc x => insertByLen x acc) acc ↔ y ∈ acc ∨ y ∈ xs := by
  induction xs generalizing acc with
  | nil => simp
  | cons x xs ih =>
    simp only [List.foldl_cons]
    have := ih (insertByLen x acc)
    refine ⟨by rw [this.1, length_insertByLen, List.length_cons]; omega, ?_⟩
    intro y
    rw [this.2 y, mem_insertByLen, List.mem_cons]
    constructor
    · rintro ((h | h) | h)
      · exact Or.inr (Or.inl h)
      · exact Or.inl h
      · exact Or.inr (Or.inr h)
    · rintro (h | h | h)
      · exact Or.inl (Or.inr h)
      · exact Or.inl (Or.inl h)
      · exact Or.inr h

theorem length_sortByLen (l : List (List Nat)) : (sortByLen l).length = l.length := by
  unfold sortByLen; rw [(foldl_insertByLen l []).1]; simp

theorem mem_sortByLen (l : List (List Nat)) (y : List Nat) : y ∈ sortByLen l ↔ y ∈ l := by
  unfold sortByLen; rw [(foldl_insertByLen l []).2 y]; simp

theorem instOk_fields {k declared : Nat} {lines : List (List Int)} {J : Inst} (h : InstOk k declared lines J) :
    lines ≠ [] ∧ J.chars = alphabetOf lines ∧ J.nChars = declared ∧ (alphabetOf lines).length ≤ J.nChars ∧
    (∀ w : List Nat, w ∈ J.strings.take J.nStrings ↔ w ∈ lines.map (·.map (rankOf (alphabetOf lines)))) := by
  obtain ⟨hd, hr⟩ := h
  simp [inDomain] at hd
  obtain ⟨⟨⟨hk, hlen⟩, _⟩, hdecl⟩ := hd
  unfold readInst at hr
  split at hr
  · cases hr
  · simp only at hr
    split at hr
    · cases hr
    · split at hr
      · cases hr
      · cases hr
        refine ⟨?_, rfl, rfl, hdecl, ?_⟩
        · intro h0; subst h0; simp at hlen; omega
        · intro w
          simp only
          rw [List.take_of_length_le (by rw [length_sortByLen, List.length_map]; omega), mem_sortByLen]

-- C. the transfer
theorem unrank_rankOf (al : List Int) (x : Int) (h : x ∈ al) : al[rankOf al x]?.getD 0 = x := by
  rw [getElem_rankOf al x h]; rfl

theorem map_unrank_map_rankOf (al : List Int) (c : List Int) (h : ∀ x ∈ c, x ∈ al) :
    (c.map (rankOf al)).map (fun r => al[r]?.getD 0) = c := by
  rw [List.map_map]
  have : c.map ((fun r => al[r]?.getD 0) ∘ rankOf al) = c.map id :=
    List.map_congr_left (fun x hx => unrank_rankOf al x (h x hx))
  rw [this, List.map_id]

/-- transfer of an optimum from the mapped, sorted strings to the specification on the lines of the file -/
theorem spec_transfer {k declared : Nat} {lines : List (List Int)} {J : Inst} (hJ : InstOk k declared lines J)
    (pre : List Int) (hpre : ∀ x ∈ pre, x ∈ alphabetOf lines) (M : Nat)
    (hatt : ∃ c' : List Nat, ComSub (J.strings.take J.nStrings) c' ∧ pre.map (rankOf (alphabetOf lines)) <+: c' ∧ c'.length = M)
    (hmax : ∀ c' : List Nat, ComSub (J.strings.take J.nStrings) c' → pre.map (rankOf (alphabetOf lines)) <+: c' → c'.length ≤ M) :
    specBestExt lines pre = some (M : Int) := by
  obtain ⟨hne, _, _, _, hmem⟩ := instOk_fields hJ
  apply specBestExt_eq lines hne pre M
  · obtain ⟨c', hc', hp, hl⟩ := hatt
    refine ⟨c'.map (fun r => (alphabetOf lines)[r]?.getD 0), ?_, ?_, ?_⟩
    · intro l hl
      have hs : c'.Sublist (l.map (rankOf (alphabetOf lines))) :=
        hc' _ ((hmem _).mpr (List.mem_map_of_mem hl))
      obtain ⟨c₁, hc₁, heq⟩ := List.sublist_map_iff.mp hs
      rw [heq, map_unrank_map_rankOf _ c₁ (fun x hx => mem_alphabetOf lines l hl x (hc₁.subset hx))]
      exact hc₁
    · have := hp.map (fun r => (alphabetOf lines)[r]?.getD 0)
      rwa [map_unrank_map_rankOf _ pre hpre] at this
    · rw [List.length_map]; exact hl
  · intro c hc hp
    have := hmax (c.map (rankOf (alphabetOf lines))) ?_ (hp.map _)
    · rwa [List.length_map] at this
    · intro w hw
      obtain ⟨l, hl, rfl⟩ := List.mem_map.mp ((hmem w).mp hw)
      exact (hc l hl).map _

#print axioms spec_transfer
end Ddo.Examples.LcsModel
