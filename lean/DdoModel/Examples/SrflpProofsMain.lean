import DdoModel.Examples.SrflpProofsRub
import DdoModel.Examples.SrflpProofsLoops
import DdoModel.Examples.SrflpProofsEdge
import DdoModel.Examples.SrflpProofsWf
/-! The shipped srflp example, summary of what is proved about its Lean model (`SrflpDp.lean`; statements: `SrflpModel.lean`).

* Smith's rule, standalone (`SrflpProofsSmith.lean`): `wct_swap` (swapping two neighbours changes `cut_bound` by `l c' - l' c`),
  `wct_swap_eq` (equal ratios may be ordered arbitrarily: what the repaired `sort_unstable_by` relies on), `smith_rule_optimal`
  (decreasing exact ratio is cheapest among all orders), `wct_eq_of_smithSorted`, `smithSorted_mergeSort`, `cutBound_le`;
* the rearrangement inequality and the last loop of the bound in closed form (`SrflpProofsRearr.lean`: `rearrangement`,
  `edgeBound?_eq`, `edgeBound?_le`), the edge part is a lower bound of every order (`SrflpProofsEdge.lean`: `edgeCost_ge`), the
  two table walks on exact states (`SrflpProofsLoops.lean`);
* `rubAdmissible_exact_partial` (below): `RubAdmissibleExactRatioStmt` on EXACT states (`maybe_place = None`), for the tables
  `Srflp::new` builds, `n ≤ 64`, sets listed increasingly.  `rubAdmissible_needs_tabSorted`: the statement as written (any `Tab`
  with `InstOk`) is false — `InstOk` does not tie `sorted_lengths` / `sorted_flows` to the instance (not reachable);
* `mergeOk_partial` (`SrflpProofsMerge.lean`): `MergeOkStmt` for `n ≤ 64` and sets listed increasingly (`SetSt`);
* `dpExact_partial`, `dpExactPrefix_partial` (`SrflpProofsExact.lean`): `DpExactStmt`, `DpExactPrefixStmt` for `n ≤ 64`;
* `wfRel_of_rub` (`SrflpProofsWf.lean`): `WfRel` of the example given the admissibility of the bound on all good states
  (`RubHyp`, open for states with a `maybe_place`).
No `srflp_relaxed_ub`: besides `RubHyp`, `C06.relaxed_ub_rel_dom` asks `NoClampDom`, a bound on the transition cost of EVERY
state (valid or not); the srflp cost is `-(Σ cut) · length` with arbitrary cuts, so no such bound exists — the generic theorem
needs a clamp hypothesis relative to the validity predicate before it can apply to this example. -/
namespace Ddo.Examples.SrflpModel
open Ddo Ddo.Examples Ddo.Examples.Util Ddo.SpecUtil

variable (T : Tab)

/-- the bound of an exact state, unfolded -/
theorem rub_exact_eq {s : St} (hG : Good T s) (hm : s.maybe = none) (hd : s.depth < T.n) (r : Int)
    (h : rubExactRatio? T s = some r) :
    ∃ eb, edgeBound? (flowsLoop T s ((T.n - s.depth) * (T.n - s.depth - 1) / 2) (s.must.length * (T.n - s.depth - s.must.length))
              ((T.n - s.depth - s.must.length) * (T.n - s.depth - s.must.length - 1) / 2))
            (lengthsLoop T s (T.n - s.depth) (T.n - s.depth - s.must.length)).1
            ((T.n - s.depth) * (T.n - s.depth - 1) / 2) (T.n - s.depth) = some eb ∧
      r = -((((s.must.map (fun i => (ratioKey (cutAt s i) (lenOf T i), lenOf T i, cutAt s i))).mergeSort
              (fun a b => leRatioExact b a)).foldl
                (fun (acc : Int × Int) r => (acc.1 + acc.2 * r.2.2, acc.2 + r.2.1)) (0, 0)).1 + eb) := by
  have hl := must_length_exact T hG hm
  unfold rubExactRatio? rubWith? at h
  simp only [hm] at h
  have h1 : ¬ T.n < s.depth := by omega
  have h2 : ¬ T.n - s.depth = 0 := by omega
  have h3 : ¬ T.n - s.depth < s.must.length := by omega
  simp only [h1, h2, h3, if_false, Option.pure_def, Option.bind_eq_bind, Option.bind_some, List.append_nil] at h
  obtain ⟨eb, he, hr⟩ := Option.bind_eq_some_iff.mp h
  exact ⟨eb, he, (Option.some.inj hr).symm⟩

/-- conversely: the bound of an exact state is defined as soon as its last loop is -/
theorem rub_exact_some {s : St} (hG : Good T s) (hm : s.maybe = none) (hd : s.depth < T.n) (eb : Int)
    (he : edgeBound? (flowsLoop T s ((T.n - s.depth) * (T.n - s.depth - 1) / 2) (s.must.length * (T.n - s.depth - s.must.length))
              ((T.n - s.depth - s.must.length) * (T.n - s.depth - s.must.length - 1) / 2))
            (lengthsLoop T s (T.n - s.depth) (T.n - s.depth - s.must.length)).1
            ((T.n - s.depth) * (T.n - s.depth - 1) / 2) (T.n - s.depth) = some eb) :
    rubExactRatio? T s =
      some (-((((s.must.map (fun i => (ratioKey (cutAt s i) (lenOf T i), lenOf T i, cutAt s i))).mergeSort
              (fun a b => leRatioExact b a)).foldl
                (fun (acc : Int × Int) r => (acc.1 + acc.2 * r.2.2, acc.2 + r.2.1)) (0, 0)).1 + eb)) := by
  have hl := must_length_exact T hG hm
  unfold rubExactRatio? rubWith?
  simp only [hm]
  have h1 : ¬ T.n < s.depth := by omega
  have h2 : ¬ T.n - s.depth = 0 := by omega
  have h3 : ¬ T.n - s.depth < s.must.length := by omega
  simp only [h1, h2, h3, if_false, Option.pure_def, Option.bind_eq_bind, Option.bind_some, List.append_nil]
  rw [he]
  rfl

/-- every completion of an exact good state costs at least the bound -/
theorem pathCost_le_rub (hS : TabSorted T) (hI : Inst T) {s : St} (hG : Good T s) (hm : s.maybe = none) (hd : s.depth < T.n)
    (r : Int) (h : rubExactRatio? T s = some r) (q : List Nat) (hq : q.Perm s.must) : pathCost T s q ≤ r := by
  obtain ⟨eb, he, hr⟩ := rub_exact_eq T hG hm hd r h
  have hlen := must_length_exact T hG hm
  have hnd : s.must.Nodup := pairwise_lt_nodup hG.must_sorted
  have hqn : q.Nodup := hq.nodup_iff.mpr hnd
  have hql : q.length = T.n - s.depth := by rw [hq.length_eq, hlen]
  have hmem : ∀ i ∈ q, i < T.n := fun i hi => hG.lt i (Or.inl (hq.mem_iff.mp hi))
  -- the cut part: Smith's rule
  have hcut := cutBound_le (s.must.map (fun i => (ratioKey (cutAt s i) (lenOf T i), lenOf T i, cutAt s i)))
    (by
      intro x hx
      obtain ⟨i, hi, rfl⟩ := List.mem_map.mp hx
      exact hI.len_pos i (hG.lt i (Or.inl hi)))
    (q.map fun j => (lenOf T j, cutAt s j))
    (by
      rw [List.map_map]
      exact hq.map _)
  rw [← aft_eq_wct] at hcut
  -- the edge part: rearrangement
  obtain ⟨hLp, hLs⟩ := lengthsLoop_exact T hS hG hm (T.n - s.depth - s.must.length)
  obtain ⟨hFp, hFs⟩ := flowsLoop_exact T hS hG hm (s.must.length * (T.n - s.depth - s.must.length))
    ((T.n - s.depth - s.must.length) * (T.n - s.depth - s.must.length - 1) / 2)
  have hsym : ∀ i ∈ q, ∀ j ∈ q, flow T i j = flow T j i := fun i hi j hj => hI.flow_symm i j (hmem i hi) (hmem j hj)
  obtain ⟨b, hb, hble⟩ := edgeCost_ge (lenOf T) (flow T) q hqn (by omega)
    (fun i hi => Int.le_of_lt (hI.len_pos i (hmem i hi)))
    (fun i hi j hj => hI.flow_nonneg i j (hmem i hi) (hmem j hj))
    _ _ (hFp.trans (pairFlows_perm (flow T) hq.symm hsym)) hFs
    (hLp.trans (hq.symm.map _)) hLs
  rw [hql, he] at hb
  have hbe : eb = b := Option.some.inj hb
  have hpc := pathCost_eq T hI q s hG hm hq
  omega

/-- **the repaired rough bound is admissible on EXACT states** (`maybe_place = None`: the root and every state of an exact or
    restricted diagram): `RubAdmissibleExactRatioStmt` restricted to exact states, for tables built as `Srflp::new` builds them
    (`TabSorted`: the statement is FALSE without it, `rubAdmissible_needs_tabSorted`), at most 64 departments, sets listed
    increasingly.  Missing for the full statement: the states with a `maybe_place` (merged states and their descendants). -/
theorem rubAdmissible_exact_partial (h64 : T.n ≤ 64) (hS : TabSorted T) (hT : InstOk T) (s : St) (r : Int) (hs : StOk T s)
    (hset : SetSt s) (hm : s.maybe = none) (h : rubExactRatio? T s = some r) : bestRem T s ≤ (some r : EInt) := by
  have hI := inst_of_instOk T hT
  have hG := good_of_stOk T hs hset.1 hset.2
  have hd : s.depth < T.n := by
    unfold StOk validB at hs
    simp only [Bool.and_eq_true, decide_eq_true_eq] at hs
    exact hs.1.1.1.1.1
  have hlen := must_length_exact T hG hm
  unfold bestRem
  rw [← hlen]
  exact bestRemF_le_paths T h64 hI _ s r hG hm rfl (fun q hq => pathCost_le_rub T hS hI hG hm hd r h q hq)

/-- the same for `rub?` (the shipped, repaired `fast_upper_bound`) -/
theorem rubAdmissible_exact_partial' (h64 : T.n ≤ 64) (hS : TabSorted T) (hT : InstOk T) (s : St) (r : Int) (hs : StOk T s)
    (hset : SetSt s) (hm : s.maybe = none) (h : rub? T s = some r) : bestRem T s ≤ (some r : EInt) :=
  rubAdmissible_exact_partial T h64 hS hT s r hs hset hm h

/-! ### the statement as written needs the tables of `Srflp::new` -/

/-- an instance of the domain (3 departments of length 1, all flows 1) with a table `sorted_lengths` that is NOT the one
    `Srflp::new` builds (lengths 5 instead of 1) -/
def Tbad : Tab :=
  { n := 3, len := [1, 1, 1], flw := [[0, 1, 1], [1, 0, 1], [1, 1, 0]], sl := [(5, 0), (5, 1), (5, 2)],
    sf := [(1, 0, 1), (1, 0, 2), (1, 1, 2)] }

/-- `RubAdmissibleExactRatioStmt` quantifies over ALL `Tab` with `InstOk`, and `InstOk` does not tie `sl`/`sf` to the instance:
    as written it is false (kernel-checked).  NOT reachable: the driver and the example always build the tables from the
    instance (`tabOf`, `tabSorted_tabOf`); the hypothesis `TabSorted` is missing from the statement, not from the code. -/
theorem rubAdmissible_needs_tabSorted : ¬ RubAdmissibleExactRatioStmt Tbad := by
  intro h
  have h1 : inDomainB Tbad = true := by decide
  have h2 : validB Tbad (initSt Tbad) = true := by decide
  have hms : ((initSt Tbad).must.map (fun i => (ratioKey (cutAt (initSt Tbad) i) (lenOf Tbad i), lenOf Tbad i, cutAt (initSt Tbad) i))).mergeSort
      (fun a b => leRatioExact b a) = [((0, 0, 0), 1, 0), ((0, 0, 0), 1, 0), ((0, 0, 0), 1, 0)] := by
    rw [List.mergeSort_of_pairwise (by decide)]
    decide
  have h3 : rubExactRatio? Tbad (initSt Tbad) = some (-5) := by
    have e := rub_exact_some Tbad (good_init Tbad) rfl (by decide) 5 (by decide)
    rw [e, hms]
    decide
  have h4 : bestRem Tbad (initSt Tbad) = some (-1) := by decide +kernel
  have := h h1 (initSt Tbad) (-5) h2 h3
  rw [h4] at this
  exact absurd this (by decide)

#print axioms smith_rule_optimal
#print axioms wct_swap_eq
#print axioms cutBound_le
#print axioms rearrangement
#print axioms edgeCost_ge
#print axioms rubAdmissible_exact_partial
#print axioms rubAdmissible_needs_tabSorted
#print axioms mergeOk_partial
#print axioms dpExact_partial
#print axioms dpExactPrefix_partial
#print axioms wfRel_of_rub

end Ddo.Examples.SrflpModel

/-! `validB` does not ask the two lists to be sets; with repeated members `MergeOkStmt` fails (compiled evaluation, not a kernel
    proof: `bestRem` sorts with `mergeSort`, which `decide` cannot unfold).  Not reachable (`Set64`). -/
namespace Ddo.Examples.SrflpModel.NonSet
def Tg : Tab := tabOf 3 [1, 2, 3] [[0, 1, 2], [1, 0, 3], [2, 3, 0]] false
def u : St := { depth := 0, must := [2, 2, 2], maybe := some [1, 1, 1], cut := [0, 1, 2] }
def w : St := { depth := 0, must := [2, 2, 2], maybe := some [1, 0, 0], cut := [0, 1, 2] }
-- expected: `(true, true, true, some (-4), some (-7))`: the merged state is worth LESS than `w`
#eval (inDomainB Tg, validB Tg u, validB Tg w, bestRem Tg w, bestRem Tg (mergeStates Tg [u, w]))
end Ddo.Examples.SrflpModel.NonSet
