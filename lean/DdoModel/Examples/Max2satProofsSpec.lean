import DdoModel.Examples.Max2satProofsTab
import DdoModel.Examples.Max2satProofsExact
/-! The DP model of the max2sat example is exact, specification half, and the assembly `dpExact : DpExactStmt I`.
    `satisfiedWeight_eq`: the weight the independent specification (`Max2sat.satisfiedWeight`, on the clauses that count:
    `Inst.effClauses`) gives to an assignment is `initial` (the tautologies) + the weight `totW` the DP model reads in its
    `(2n)²` table for the same assignment, whatever the variable order. -/
namespace Ddo.Examples.Max2satModel
open Ddo Ddo.Examples Ddo.Examples.Util Ddo.SpecUtil

/-- the assignment of the variables (0-based) given by the list of the true variables (1-based, as in the specification) -/
def assignOf (trues : List Int) : Nat → Bool := fun i => trues.contains ((i : Int) + 1)

-- ------------------------------------------------------------------------------------------------------------------
-- literals under an assignment of the variables

/-- the truth value of a literal under an assignment of the (0-based) variables -/
def litT (x : Nat → Bool) (a : Int) : Bool := if a > 0 then x (idx a) else !x (idx a)

/-- weight `c a b` of the clause `{a, b}` if the assignment satisfies it -/
def hW (c : Int → Int → Int) (x : Nat → Bool) (a b : Int) : Int := if litT x a || litT x b then c a b else 0

/-- the two literals of each variable of a list -/
def lits (L : List Nat) : List Int := L.flatMap (fun i => [tLit i, fLit i])

/-- sum over all ORDERED pairs of members of `M` -/
def dbl (h : Int → Int → Int) (M : List Int) : Int := (M.map (fun a => (M.map (fun b => h a b)).sum)).sum
/-- sum over the diagonal -/
def diag (h : Int → Int → Int) (M : List Int) : Int := (M.map (fun a => h a a)).sum

@[simp] theorem litT_tLit (x : Nat → Bool) (i : Nat) : litT x (tLit i) = x i := by
  have h1 : tLit i > 0 := by unfold tLit; omega
  have h2 : idx (tLit i) = i := by unfold idx tLit; omega
  simp [litT, h1, h2]

@[simp] theorem litT_fLit (x : Nat → Bool) (i : Nat) : litT x (fLit i) = !x i := by
  have h1 : ¬ fLit i > 0 := by unfold fLit; omega
  have h2 : idx (fLit i) = i := by unfold idx fLit; omega
  simp [litT, h1, h2]

theorem litTrue_eq (trues : List Int) (a : Int) (ha : a ≠ 0) :
    Max2sat.litTrue trues a = litT (assignOf trues) a := by
  unfold Max2sat.litTrue litT assignOf
  by_cases h : a > 0
  · have e : ((idx a : Nat) : Int) + 1 = a := by unfold idx; omega
    simp only [h, if_true, e]
  · have e : ((idx a : Nat) : Int) + 1 = -a := by unfold idx; omega
    simp only [h, if_false, e]

theorem hW_comm {c : Int → Int → Int} (hc : ∀ a b, c a b = c b a) (x : Nat → Bool) (a b : Int) :
    hW c x a b = hW c x b a := by
  unfold hW; rw [Bool.or_comm, hc a b]

-- ------------------------------------------------------------------------------------------------------------------
-- step 1: doubling

theorem dbl_cons {h : Int → Int → Int} (hs : ∀ a b, h a b = h b a) (p : Int) (M : List Int) :
    dbl h (p :: M) = h p p + 2 * (M.map (h p)).sum + dbl h M := by
  unfold dbl
  simp only [List.map_cons, List.sum_cons]
  rw [sum_map_add (fun a => h a p) (fun a => (M.map (fun b => h a b)).sum)]
  have : M.map (fun a => h a p) = M.map (fun b => h p b) := List.map_congr_left (fun a _ => hs a p)
  rw [this]
  have e : M.map (h p) = M.map (fun b => h p b) := rfl
  rw [e]
  omega

theorem sum_lits (g : Int → Int) (L : List Nat) :
    ((lits L).map g).sum = (L.map (fun j => g (tLit j) + g (fLit j))).sum := by
  induction L with
  | nil => rfl
  | cons j L ih =>
    have : lits (j :: L) = tLit j :: fLit j :: lits L := rfl
    rw [this]
    simp only [List.map_cons, List.sum_cons, ih]
    omega

theorem pairW_eq (T : Tab) (x : Nat → Bool) (i j : Nat) :
    pairW T x i j = (hW T.wt x (tLit i) (tLit j) + hW T.wt x (tLit i) (fLit j))
      + (hW T.wt x (fLit i) (tLit j) + hW T.wt x (fLit i) (fLit j)) := by
  simp only [pairW, hW, litT_tLit, litT_fLit]
  omega

theorem unitW_eq (T : Tab) (x : Nat → Bool) (i : Nat) :
    unitW T x i = hW T.wt x (tLit i) (tLit i) + hW T.wt x (fLit i) (fLit i) := by
  simp only [unitW, hW, litT_tLit, litT_fLit, Bool.or_self]
  cases x i <;> simp

theorem taut_eq (T : Tab) (x : Nat → Bool) (i : Nat) : tautOf T i = hW T.wt x (tLit i) (fLit i) := by
  simp only [tautOf, hW, litT_tLit, litT_fLit]
  cases x i <;> simp

/-- each unordered pair of distinct literals is counted twice in `dbl`, each diagonal term once in `dbl`, once in `diag` -/
theorem double_totW (T : Tab) (x : Nat → Bool) (L : List Nat) :
    2 * (tautSum T L + totW T x L) = dbl (hW T.wt x) (lits L) + diag (hW T.wt x) (lits L) := by
  have hs : ∀ a b, hW T.wt x a b = hW T.wt x b a := hW_comm (wt_comm T) x
  induction L with
  | nil => rfl
  | cons i L ih =>
    have e : lits (i :: L) = tLit i :: fLit i :: lits L := rfl
    rw [e, dbl_cons hs, dbl_cons hs]
    simp only [diag, List.map_cons, List.sum_cons] at ih ⊢
    rw [sum_lits, sum_lits]
    simp only [tautSum, List.map_cons, List.sum_cons, totW] at ih ⊢
    have hp : (L.map (pairW T x i)).sum
        = (L.map (fun j => hW T.wt x (tLit i) (tLit j) + hW T.wt x (tLit i) (fLit j))).sum
          + (L.map (fun j => hW T.wt x (fLit i) (tLit j) + hW T.wt x (fLit i) (fLit j))).sum := by
      rw [← sum_map_add]
      exact congrArg List.sum (List.map_congr_left (fun j _ => pairW_eq T x i j))
    rw [hp, unitW_eq, taut_eq T x i]
    omega

-- ------------------------------------------------------------------------------------------------------------------
-- step 3: the doubled sum, read in a clause map

/-- the weight a clause map gives to the clause `{a, b}` -/
def cOf (m : CMap) (a b : Int) : Int := lookupC m (min a b, max a b)

theorem sum_single {M : List Int} (hM : M.Nodup) {a0 : Int} (ha : a0 ∈ M) (f : Int → Int) :
    (M.map (fun a => if a = a0 then f a else 0)).sum = f a0 := by
  induction M with
  | nil => cases ha
  | cons p M ih =>
    obtain ⟨hp, hM'⟩ := List.nodup_cons.mp hM
    simp only [List.map_cons, List.sum_cons]
    by_cases e : p = a0
    · subst e
      have : M.map (fun a => if a = p then f a else 0) = M.map (fun _ => (0 : Int)) :=
        List.map_congr_left (fun a ha' => by
          have : a ≠ p := fun e => hp (e ▸ ha')
          simp [this])
      rw [this, sum_map_zero]; simp
    · have ha' : a0 ∈ M := by
        rcases List.mem_cons.mp ha with h | h
        · exact absurd h.symm e
        · exact h
      rw [ih hM' ha']; simp [e]

theorem sum_none {M : List Int} {a0 : Int} (ha : a0 ∉ M) (f : Int → Int) :
    (M.map (fun a => if a = a0 then f a else 0)).sum = 0 := by
  have : M.map (fun a => if a = a0 then f a else 0) = M.map (fun _ => (0 : Int)) :=
    List.map_congr_left (fun a ha' => by
      have : a ≠ a0 := fun e => ha (e ▸ ha')
      simp [this])
  rw [this, sum_map_zero]

/-- one ordered pair in a double sum over a duplicate-free list -/
theorem dbl_single {M : List Int} (hM : M.Nodup) {a0 b0 : Int} (ha : a0 ∈ M) (hb : b0 ∈ M) (g : Int → Int → Int) :
    dbl (fun a b => if a = a0 ∧ b = b0 then g a b else 0) M = g a0 b0 := by
  unfold dbl
  have : M.map (fun a => (M.map (fun b => if a = a0 ∧ b = b0 then g a b else 0)).sum)
      = M.map (fun a => if a = a0 then (M.map (fun b => if b = b0 then g a b else 0)).sum else 0) :=
    List.map_congr_left (fun a _ => by
      by_cases e : a = a0
      · simp [e]
      · simp [e, sum_map_zero])
  rw [this, sum_single hM ha, sum_single hM hb]

theorem dbl_add (h1 h2 : Int → Int → Int) (M : List Int) :
    dbl (fun a b => h1 a b + h2 a b) M = dbl h1 M + dbl h2 M := by
  unfold dbl
  rw [← sum_map_add]
  exact congrArg List.sum (List.map_congr_left (fun a _ => sum_map_add _ _ _))

theorem diag_add (h1 h2 : Int → Int → Int) (M : List Int) :
    diag (fun a b => h1 a b + h2 a b) M = diag h1 M + diag h2 M := by
  unfold diag
  rw [← sum_map_add]

theorem dbl_congr {h1 h2 : Int → Int → Int} {M : List Int} (h : ∀ a ∈ M, ∀ b ∈ M, h1 a b = h2 a b) :
    dbl h1 M = dbl h2 M := by
  unfold dbl
  exact congrArg List.sum (List.map_congr_left (fun a ha =>
    congrArg List.sum (List.map_congr_left (fun b hb => h a ha b hb))))

theorem diag_congr {h1 h2 : Int → Int → Int} {M : List Int} (h : ∀ a ∈ M, h1 a a = h2 a a) :
    diag h1 M = diag h2 M := by
  unfold diag
  exact congrArg List.sum (List.map_congr_left (fun a ha => h a ha))

/-- the counting lemma: one canonical key `(a0, b0)` in the doubled sum -/
theorem dbl_key {M : List Int} (hM : M.Nodup) {a0 b0 : Int} (hab : a0 ≤ b0) (ha : a0 ∈ M) (hb : b0 ∈ M)
    (g : Int → Int → Int) (hg : ∀ a b, g a b = g b a) :
    dbl (fun a b => if (a0, b0) = (min a b, max a b) then g a b else 0) M
      + diag (fun a b => if (a0, b0) = (min a b, max a b) then g a b else 0) M = 2 * g a0 b0 := by
  by_cases e : a0 = b0
  · subst e
    have e1 : dbl (fun a b => if (a0, a0) = (min a b, max a b) then g a b else 0) M
        = dbl (fun a b => if a = a0 ∧ b = a0 then g a b else 0) M :=
      dbl_congr (fun a _ b _ => by
        have : ((a0, a0) = (min a b, max a b)) ↔ (a = a0 ∧ b = a0) := by
          simp only [Prod.mk.injEq]; omega
        simp only [this])
    have e2 : diag (fun a b => if (a0, a0) = (min a b, max a b) then g a b else 0) M
        = (M.map (fun a => if a = a0 then g a a else 0)).sum := by
      unfold diag
      exact congrArg List.sum (List.map_congr_left (fun a _ => by
        have : ((a0, a0) = (min a a, max a a)) ↔ a = a0 := by
          simp only [Prod.mk.injEq]; omega
        simp only [this]))
    rw [e1, e2, dbl_single hM ha ha, sum_single hM ha (fun a => g a a)]
    omega
  · have e1 : dbl (fun a b => if (a0, b0) = (min a b, max a b) then g a b else 0) M
        = dbl (fun a b => (if a = a0 ∧ b = b0 then g a b else 0) + (if a = b0 ∧ b = a0 then g a b else 0)) M :=
      dbl_congr (fun a _ b _ => by
        by_cases h1 : a = a0 ∧ b = b0
        · have h2 : ¬ (a = b0 ∧ b = a0) := by omega
          have h3 : (a0, b0) = (min a b, max a b) := by simp only [Prod.mk.injEq]; omega
          rw [if_pos h3, if_pos h1, if_neg h2]; omega
        · by_cases h2 : a = b0 ∧ b = a0
          · have h3 : (a0, b0) = (min a b, max a b) := by simp only [Prod.mk.injEq]; omega
            rw [if_pos h3, if_neg h1, if_pos h2]; omega
          · have h3 : ¬ (a0, b0) = (min a b, max a b) := by simp only [Prod.mk.injEq]; omega
            rw [if_neg h3, if_neg h1, if_neg h2]; omega)
    have e2 : diag (fun a b => if (a0, b0) = (min a b, max a b) then g a b else 0) M = 0 := by
      unfold diag
      have : M.map (fun a => if (a0, b0) = (min a a, max a a) then g a a else 0) = M.map (fun _ => (0 : Int)) :=
        List.map_congr_left (fun a _ => by
          have h3 : ¬ (a0, b0) = (min a a, max a a) := by simp only [Prod.mk.injEq]; omega
          rw [if_neg h3])
      rw [this, sum_map_zero]
    rw [e1, e2, dbl_add, dbl_single hM ha hb, dbl_single hM hb ha, hg b0 a0]
    omega

theorem dbl_zero (M : List Int) : dbl (fun _ _ => 0) M = 0 := by
  unfold dbl
  have : M.map (fun _ => (M.map (fun _ => (0 : Int))).sum) = M.map (fun _ => (0 : Int)) :=
    List.map_congr_left (fun _ _ => sum_map_zero M)
  rw [this, sum_map_zero]

/-- **the doubled sum read in a clause map with distinct canonical keys over `M` is twice the satisfied weight** -/
theorem dbl_lookup (x : Nat → Bool) {M : List Int} (hM : M.Nodup) (m : CMap) (hnd : (m.map (·.1)).Nodup)
    (hk : ∀ e ∈ m, e.1.1 ≤ e.1.2 ∧ e.1.1 ∈ M ∧ e.1.2 ∈ M) :
    dbl (hW (cOf m) x) M + diag (hW (cOf m) x) M
      = 2 * (m.map (fun e => if litT x e.1.1 || litT x e.1.2 then e.2 else 0)).sum := by
  induction m with
  | nil =>
    have e1 : dbl (hW (cOf []) x) M = dbl (fun _ _ => 0) M :=
      dbl_congr (fun a _ b _ => by simp [hW, cOf, lookupC_nil])
    have e2 : diag (hW (cOf []) x) M = 0 := by
      unfold diag
      have : M.map (fun a => hW (cOf []) x a a) = M.map (fun _ => (0 : Int)) :=
        List.map_congr_left (fun a _ => by simp [hW, cOf, lookupC_nil])
      rw [this, sum_map_zero]
    rw [e1, e2, dbl_zero]; rfl
  | cons e m ih =>
    obtain ⟨⟨a0, b0⟩, w⟩ := e
    simp only [List.map_cons, List.nodup_cons] at hnd
    obtain ⟨hab, ha, hb⟩ := hk _ List.mem_cons_self
    have ih' := ih hnd.2 (fun e he => hk e (List.mem_cons_of_mem _ he))
    let g : Int → Int → Int := fun a b => if litT x a || litT x b then w else 0
    have hg : ∀ a b, g a b = g b a := fun a b => by simp only [g, Bool.or_comm]
    have hsplit : ∀ a b, hW (cOf (((a0, b0), w) :: m)) x a b
        = (if (a0, b0) = (min a b, max a b) then g a b else 0) + hW (cOf m) x a b := by
      intro a b
      simp only [hW, cOf, lookupC_cons, g]
      by_cases hk' : (a0, b0) = (min a b, max a b)
      · rw [← hk', lookupC_absent m (a0, b0) hnd.1]
        simp
      · simp [hk']
    have e1 : dbl (hW (cOf (((a0, b0), w) :: m)) x) M
        = dbl (fun a b => (if (a0, b0) = (min a b, max a b) then g a b else 0) + hW (cOf m) x a b) M :=
      dbl_congr (fun a _ b _ => hsplit a b)
    have e2 : diag (hW (cOf (((a0, b0), w) :: m)) x) M
        = diag (fun a b => (if (a0, b0) = (min a b, max a b) then g a b else 0) + hW (cOf m) x a b) M :=
      diag_congr (fun a _ => hsplit a a)
    have key := dbl_key hM hab ha hb g hg
    rw [e1, e2, dbl_add, diag_add]
    simp only [List.map_cons, List.sum_cons]
    have hgw : g a0 b0 = if litT x a0 || litT x b0 then w else 0 := rfl
    dsimp only at hab ha hb ih' key ⊢
    omega

-- ------------------------------------------------------------------------------------------------------------------
-- the literals of a list of variables

theorem mem_lits {L : List Nat} {a : Int} : a ∈ lits L ↔ ∃ i ∈ L, a = tLit i ∨ a = fLit i := by
  simp [lits, List.mem_flatMap]

theorem nodup_lits {L : List Nat} (hL : L.Nodup) : (lits L).Nodup := by
  induction L with
  | nil => exact List.nodup_nil
  | cons i L ih =>
    obtain ⟨hi, hL'⟩ := List.nodup_cons.mp hL
    have e : lits (i :: L) = tLit i :: fLit i :: lits L := rfl
    rw [e]
    refine List.nodup_cons.mpr ⟨?_, List.nodup_cons.mpr ⟨?_, ih hL'⟩⟩
    · intro hm
      rcases List.mem_cons.mp hm with h | h
      · unfold tLit fLit at h; omega
      · obtain ⟨j, hj, h | h⟩ := mem_lits.mp h
        · have : i = j := by unfold tLit at h; omega
          exact hi (this ▸ hj)
        · unfold tLit fLit at h; omega
    · intro hm
      obtain ⟨j, hj, h | h⟩ := mem_lits.mp hm
      · unfold tLit fLit at h; omega
      · have : i = j := by unfold fLit at h; omega
        exact hi (this ▸ hj)

theorem litOk_mem_lits {n : Nat} {L : List Nat} (hL : ∀ i, i < n → i ∈ L) {a : Int} (ha : LitOk n a) : a ∈ lits L := by
  obtain ⟨h0, hn⟩ := ha
  refine mem_lits.mpr ⟨idx a, hL _ (by unfold idx; omega), ?_⟩
  unfold tLit fLit idx
  omega

theorem litOk_of_mem_lits {n : Nat} {L : List Nat} (hL : ∀ i ∈ L, i < n) {a : Int} (ha : a ∈ lits L) : LitOk n a := by
  obtain ⟨i, hi, h | h⟩ := mem_lits.mp ha
  · subst h; exact litOk_tLit (hL i hi)
  · subst h; exact litOk_fLit (hL i hi)

/-- **specification weight = tautologies + table weight**, for every assignment -/
theorem satisfiedWeight_eq (I : Inst) (hp : I.order.Perm (List.range I.n)) (h : InstOk I) (trues : List Int) :
    Max2sat.satisfiedWeight I.effClauses trues = I.tab.initial + totW I.tab (assignOf trues) I.order := by
  have hok : TabOk I.tab := tabOkOfInst I hp ((instOk_iff I).mp h)
  have hnd : I.order.Nodup := (hp.nodup_iff).mpr List.nodup_range
  have hmem : ∀ i ∈ I.order, i < I.n := fun i hi => List.mem_range.mp (hp.mem_iff.mp hi)
  have hmem' : ∀ i, i < I.n → i ∈ I.order := fun i hi => hp.mem_iff.mpr (List.mem_range.mpr hi)
  have hkeys := cmap_key_ok I h
  -- the specification side, in terms of `litT`
  have e1 : Max2sat.satisfiedWeight I.effClauses trues
      = (I.cmap.map (fun e => if litT (assignOf trues) e.1.1 || litT (assignOf trues) e.1.2 then e.2 else 0)).sum := by
    unfold Max2sat.satisfiedWeight Inst.effClauses
    rw [sum_eq, List.map_map]
    refine congrArg List.sum (List.map_congr_left (fun e he => ?_))
    obtain ⟨_, h1, h2⟩ := hkeys e he
    simp only [Function.comp, litTrue_eq trues _ h1.1, litTrue_eq trues _ h2.1]
  -- the doubled sum, read in the clause map and in the table
  have e2 := dbl_lookup (assignOf trues) (nodup_lits hnd) I.cmap (cmap_keys_nodup I)
    (fun e he => ⟨(hkeys e he).1, litOk_mem_lits hmem' (hkeys e he).2.1, litOk_mem_lits hmem' (hkeys e he).2.2⟩)
  have hc : ∀ a ∈ lits I.order, ∀ b ∈ lits I.order,
      hW (cOf I.cmap) (assignOf trues) a b = hW I.tab.wt (assignOf trues) a b := by
    intro a ha b hb
    have : I.tab.wt a b = cOf I.cmap a b :=
      wOf_weights I h a b (litOk_of_mem_lits hmem ha) (litOk_of_mem_lits hmem hb)
    simp only [hW, this]
  rw [dbl_congr hc, diag_congr (fun a ha => hc a ha a ha), ← double_totW] at e2
  have e3 : I.tab.initial = tautSum I.tab I.order := hok.initial_eq
  omega

/-- **the DP model of the max2sat example computes the optimum of the specification** -/
theorem dpExact (I : Inst) : DpExactStmt I := by
  intro hp hlits
  have h : InstOk I := (instOk_iff I).mpr hlits
  have hok : TabOk I.tab := tabOkOfInst I hp hlits
  have hmem : ∀ i ∈ I.order, i < I.n := fun i hi => List.mem_range.mp (hp.mem_iff.mp hi)
  have hL : ∀ v, v ∈ (sublists (oneTo I.n)).map (Max2sat.satisfiedWeight I.effClauses) ↔
      ∃ s : List Int, s.Sublist (oneTo I.n) ∧ Max2sat.satisfiedWeight I.effClauses s = v := by
    intro v
    simp only [List.mem_map, mem_sublists]
  show maxOf ((sublists (oneTo I.n)).map (Max2sat.satisfiedWeight I.effClauses)) = some _
  rw [maxOf_isMaxOf hL]
  have htr := IsMaxOf.transfer (F := fun s : List Int => s.Sublist (oneTo I.n))
    (G := fun _ : Nat → Bool => True) (f := Max2sat.satisfiedWeight I.effClauses)
    (g := fun x => I.tab.initial + totW I.tab x I.order)
    (fun s _ => ⟨assignOf s, trivial, (satisfiedWeight_eq I hp h s).symm⟩)
    (fun x _ => by
      let S : Int → Bool := fun v => decide (1 ≤ v ∧ v ≤ (I.n : Int)) && x (v.toNat - 1)
      have hS : ∀ v, S v = true → 1 ≤ v ∧ v ≤ (I.n : Int) := by
        intro v hv
        simp only [S, Bool.and_eq_true, decide_eq_true_eq] at hv
        exact hv.1
      refine ⟨(oneTo I.n).filter S, List.filter_sublist, ?_⟩
      rw [satisfiedWeight_eq I hp h]
      rw [totW_congr I.tab (assignOf ((oneTo I.n).filter S)) x I.order]
      intro l hl
      have hl' := hmem l hl
      unfold assignOf
      rw [contains_filter_oneTo hS]
      have e1 : (1 ≤ (l : Int) + 1 ∧ (l : Int) + 1 ≤ (I.n : Int)) := by omega
      have e2 : ((l : Int) + 1).toNat - 1 = l := by omega
      simp only [S, e1, e2, and_self, decide_true, Bool.true_and])
  rw [htr]
  obtain ⟨⟨x, _, hx⟩, hub⟩ := bestRem_root I.tab hok
  refine ⟨⟨x, trivial, ?_⟩, fun y _ => ?_⟩
  · show I.tab.initial + totW I.tab x I.order = _
    have : totW I.tab x I.order = bestRem I.tab I.n (0, List.replicate I.n 0) := hx
    omega
  · show I.tab.initial + totW I.tab y I.order ≤ _
    have : totW I.tab y I.order ≤ bestRem I.tab I.n (0, List.replicate I.n 0) := hub y trivial
    omega

section Axioms
#print axioms satisfiedWeight_eq
#print axioms dpExact
end Axioms

end Ddo.Examples.Max2satModel
