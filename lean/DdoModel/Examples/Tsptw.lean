/-! Specification of the tsptw example (`ddo/examples/tsptw`): the Travelling Salesman Problem with Time
    Windows, makespan objective.

    Problem.  Nodes `0 … n-1` (node `0` is the depot), a travel-time matrix `d` and a time window
    `[earliest i, latest i]` per node.  The salesman leaves the depot at time `0`, visits every other node exactly
    once and returns to the depot.  Travelling from `i` to `j` takes `d[i][j]`; he may not ARRIVE at `j` (the depot
    at the end of the tour included) after `latest j`; when he arrives before `earliest j` he waits until
    `earliest j`.  The cost of a tour is the time at which it ends (total travel time + total waiting time: that
    is what the example's `transition_cost` accumulates), and the program must report the minimum over all tours.

    Output convention.  The example does not print `Objective:`; it prints `status   : Proved|Timeout`,
    `lower bnd: <x>` and `upper bnd: <x>` where `<x>` is the best tour cost formatted with two decimals, or
    `+inf` (lower bnd) when no feasible tour exists.  The harness maps `lower bnd` to `obj`, in HUNDREDTHS of a
    time unit (`"12.50"` ↦ `1250`), `+inf` ↦ `-1`, and `status ≠ Proved` ↦ `aborted 1`.

    The specification enumerates all permutations of the nodes `1 … n-1` and simulates the clock.

    Instance file: `n`, then `n` rows of `n` decimal numbers, then `n` rows `earliest latest`; lines starting with
    `#` and empty lines are skipped.
    Spec tokens (all times in hundredths): `n`, the `n*n` matrix row by row, then `earliest latest` per node. -/
namespace Ddo.Examples.Tsptw

def inserts (x : Nat) : List Nat → List (List Nat)
  | [] => [[x]]
  | y :: ys => (x :: y :: ys) :: (inserts x ys).map (y :: ·)

def perms : List Nat → List (List Nat)
  | [] => [[]]
  | x :: xs => (perms xs).flatMap (inserts x)

/-- the time at which the salesman, standing at node `i` at time `t`, ends the visit of the nodes `route` in
    that order; `none` when he arrives somewhere after the closing of its window -/
def finish (d : Nat → Nat → Int) (earliest latest : Nat → Int) : Nat → Int → List Nat → Option Int
  | _, t, [] => some t
  | i, t, j :: rest =>
    let arrival := t + d i j
    if arrival ≤ latest j then finish d earliest latest j (max arrival (earliest j)) rest else none

def minimum : List Int → Option Int
  | [] => none
  | x :: xs => some (xs.foldl min x)

def spec (n : Nat) (d : Nat → Nat → Int) (earliest latest : Nat → Int) : Int :=
  let tours := (perms ((List.range n).drop 1)).map (fun p => p ++ [0])
  (minimum (tours.filterMap (finish d earliest latest 0 0))).getD (-1)

/-- tokens: `n`, `d[0][0] … d[n-1][n-1]`, `earliest_0 latest_0 … earliest_{n-1} latest_{n-1}` -/
def specFromTokens : List Int → Option Int
  | n :: rest =>
    let n := n.toNat
    let m := rest.toArray
    if n ≥ 1 ∧ m.size = n * n + 2 * n then
      some (spec n (fun i j => m.getD (i * n + j) 0)
                   (fun i => m.getD (n * n + 2 * i) 0) (fun i => m.getD (n * n + 2 * i + 1) 0))
    else none
  | _ => none

end Ddo.Examples.Tsptw
