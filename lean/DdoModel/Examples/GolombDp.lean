import DdoModel.Dp
import DdoModel.Examples.Golomb
/-! The DP model, relaxation and ranking of the shipped golomb example (`ddo/examples/golomb/main.rs`) in Lean: definitions
    only (the driver engine `exmodel`, family `golomb`, compares them pointwise with the example's own code, compiled into the
    harness; statements about them are in `GolombModel.lean`).

Mirror of the Rust code.  MINIMISATION: ddo maximises, every transition cost is MINUS a distance, `initial_value = 0`.
* the instance is `n`, the number of marks; `nb_variables = n - 1` (`usize`: a panic for `n = 0` under overflow checks), the
  first mark is at 0; `next_variable(depth) = depth` while `depth < n - 1`;
* the state is `(marks, distances, number_of_marks, last_mark)`, two 256-bit sets (`smallbitset::Set256`: `contains(x)` /
  `add(x)` index a two-block array with `x / 128` — a panic for `x ≥ 256`) and two `usize`; sets are modelled as increasing
  lists; the root is `({0}, {}, 1, 0)`;
* `for_each_in_domain(_, s)`: the positions `i = last_mark + 1 ..= ub` such that no mark `j` of `s` (increasing order, `any`
  stops at the first hit) has `i - j` (`usize`: a panic if `j > i`) in `distances`;
  `ub = (n*n+1)/2 - G[n/2 - k]` while `k = number_of_marks < n/2` (the first ⌊n/2⌋ marks stay in the first half: a ruler or
  its mirror image does), else `n*n+1 - G[n - k]` (`n - k`: a panic if `k > n`), `G` = `KNOWN_OPTIMAL_COSTS`, 29 entries
  (index out of range: a panic).  The variable is not read;
* `transition(s, l)`: `marks ∪ {l}`, `distances ∪ {l - i | i ∈ marks}` (a panic if some `i > l`, or `l ≥ 256`, or `l < 0`:
  `as usize`), `number_of_marks + 1`, `last_mark = l`;  `transition_cost = -(l - last_mark)`;
* `merge`: intersection of the marks, intersection of the distances, least `number_of_marks`, least `last_mark` (starting from
  the full sets and `usize::MAX`); `relax` = the cost unchanged;
* `fast_upper_bound(s) = -G[n - number_of_marks]`;  `GolombRanking::compare` = comparison of `last_mark`. -/
namespace Ddo.Examples.GolombModel
open Ddo Ddo.Examples

/-- `KNOWN_OPTIMAL_COSTS` -/
def knownOpt : List Nat :=
  [0, 0, 1, 3, 6, 11, 17, 25, 34, 44, 55, 72, 85, 106, 127, 151, 177, 199, 216, 246, 283, 333,
   356, 372, 425, 480, 492, 553, 585]

def usizeMax : Nat := 18446744073709551615
/-- capacity of `Set256` -/
def setCap : Nat := 256
/-- `x as isize` for a `usize` -/
def asIsize (x : Nat) : Int := if x < 9223372036854775808 then (x : Int) else (x : Int) - 18446744073709551616

structure St where
  marks : List Nat
  dists : List Nat
  nm : Nat
  last : Nat
deriving DecidableEq, Repr

/-- insertion into an increasing list (a set) -/
def ins (x : Nat) : List Nat → List Nat
  | [] => [x]
  | y :: r => if x < y then x :: y :: r else if x = y then y :: r else y :: ins x r

def inter (a b : List Nat) : List Nat := a.filter (b.contains ·)

def initSt : St := { marks := [0], dists := [], nm := 1, last := 0 }

/-- `nb_variables`; `none` = a panic (`n - 1` for `n = 0`) -/
def nbVars? (n : Nat) : Option Nat := if n = 0 then none else some (n - 1)
/-- `next_variable`; `none` = a panic, `some none` = `None` -/
def nextVar? (n depth : Nat) : Option (Option Nat) :=
  match nbVars? n with
  | none => none
  | some k => some (if depth < k then some depth else none)

/-- the upper end of the domain; `none` = a panic (table index out of range, `usize` underflow) -/
def ub? (n : Nat) (s : St) : Option Nat :=
  if s.nm < n / 2 then
    match knownOpt[n / 2 - s.nm]? with
    | none => none
    | some g => if (n * n + 1) / 2 < g then none else some ((n * n + 1) / 2 - g)
  else if n < s.nm then none
  else
    match knownOpt[n - s.nm]? with
    | none => none
    | some g => if n * n + 1 < g then none else some (n * n + 1 - g)

/-- `state.marks.iter().any(|j| state.distances.contains(i - j))` over the marks `js`; `none` = a panic -/
def blocked? (dists : List Nat) (i : Nat) : List Nat → Option Bool
  | [] => some false
  | j :: r =>
    if i < j then none
    else if setCap ≤ i - j then none
    else if dists.contains (i - j) then some true
    else blocked? dists i r

/-- the loop of `for_each_in_domain` over the candidate positions -/
def domLoop (s : St) : List Nat → Option (List Int)
  | [] => some []
  | i :: r =>
    match blocked? s.dists i s.marks with
    | none => none
    | some b =>
      match domLoop s r with
      | none => none
      | some l => some (if b then l else (i : Int) :: l)

/-- `for_each_in_domain` with the upper end lowered to `hi` (`domain?` = no lowering) -/
def domainCap? (n : Nat) (s : St) (hi : Nat) : Option (List Int) :=
  if usizeMax ≤ s.last then none else
  match ub? n s with
  | none => none
  | some ub =>
    let lb := s.last + 1
    domLoop s ((List.range (min ub hi + 1 - lb)).map (· + lb))

/-- `for_each_in_domain`; `none` = a panic -/
def domain? (n : Nat) (s : St) : Option (List Int) :=
  match ub? n s with
  | none => none
  | some ub => domainCap? n s ub

/-- `transition`; `none` = a panic -/
def trans? (s : St) (d : Dec) : Option St :=
  if d.val < 0 then none else
  let l := d.val.toNat
  if setCap ≤ l then none
  else if s.marks.any (fun i => decide (l < i)) then none
  else if usizeMax ≤ s.nm then none
  else some { marks := ins l s.marks, dists := s.marks.foldl (fun acc i => ins (l - i) acc) s.dists, nm := s.nm + 1, last := l }

/-- `transition_cost` -/
def cost (s : St) (d : Dec) : Int := -(d.val - asIsize s.last)

def trans (s : St) (d : Dec) : St := (trans? s d).getD s
def domain (n : Nat) (x : Nat) (s : St) : List Int := let _ := x; (domain? n s).getD []
def domainCap (n : Nat) (s : St) (hi : Nat) : List Int := (domainCap? n s hi).getD []

def problem (n : Nat) : Problem St :=
  { nbVars := n - 1
    init := initSt
    initVal := 0
    trans := trans
    cost := fun s _ d => cost s d
    nextVar := fun depth _ => (nextVar? n depth).getD none
    domain := domain n
    impacted := fun _ _ => true }

/-- `GolombRelax::merge` -/
def mergeStates (states : List St) : St :=
  states.foldl (fun (acc : St) (s : St) =>
      { marks := inter acc.marks s.marks, dists := inter acc.dists s.dists, nm := min acc.nm s.nm, last := min acc.last s.last })
    { marks := List.range setCap, dists := List.range setCap, nm := usizeMax, last := usizeMax }

/-- `fast_upper_bound`; `none` = a panic -/
def rub? (n : Nat) (s : St) : Option Int :=
  if n < s.nm then none else (knownOpt[n - s.nm]?).map (fun g => -(g : Int))

def relaxation (n : Nat) : Relax St :=
  { merge := mergeStates
    relax := fun _ _ _ _ c => c
    rub := fun s => (rub? n s).getD 0 }

/-- `GolombRanking::compare` -/
def rankCmp (a b : St) : Ordering := compare a.last b.last

-- ------------------------------------------------------------------------------------------------------------------
-- what the driver evaluates pointwise (exhaustive enumeration over the remaining variables with the model's own functions)

/-- the variable a state of a layered compilation is branched on: its depth -/
def varOf (s : St) : Nat := s.nm - 1

/-- the value-to-go of `s` with `fuel` variables left: the best total transition cost over ALL completions (every sequence of
    decisions, each in the domain of the state reached); `none` = −∞, no completion.  The reference definition: plain
    enumeration, usable for the smallest cases only. -/
def bestRemF (n : Nat) : Nat → St → EInt
  | 0, _ => some 0
  | fuel + 1, s =>
    (domain n (varOf s) s).foldl (fun acc v => EInt.max acc ((bestRemF n fuel (trans s ⟨varOf s, v⟩)).addI (cost s ⟨varOf s, v⟩))) none
def bestRem (n : Nat) (s : St) : EInt := bestRemF n (n - s.nm) s

/-- the same enumeration with the one cut that the shape of the costs allows: every cost is minus the step to the new mark, so
    a completion is worth `-(its last mark - s.last)`, and `fuel` further marks end at `i + fuel - 1` at least.  Least last mark
    over the completions that end below `bound` (`none`: no bound); `none` = there is none. -/
def leastEnd (n : Nat) : Nat → St → Option Nat → Option Nat
  | 0, s, bound =>
    match bound with
    | some b => if s.last < b then some s.last else none
    | none => some s.last
  | fuel + 1, s, bound =>
    let hi := match bound with | some b => b - 1 - fuel | none => usizeMax
    (domainCap n s hi).foldl (fun (best : Option Nat) (v : Int) =>
      let b' := match best with | some e => some e | none => bound
      let tooFar := match b' with | some b => decide (b ≤ v.toNat + fuel) | none => false
      if tooFar then best else
      match leastEnd n fuel (trans s ⟨varOf s, v⟩) b' with
      | some e => some e
      | none => best) none

/-- the value-to-go by the cut enumeration (`GolombModel.BestRemBBStmt`: it is `bestRem`; the driver compares the two on the
    small cases) -/
def bestRemBB (n : Nat) (s : St) : EInt :=
  match leastEnd n (n - s.nm) s none with
  | some e => some (-((e : Int) - (s.last : Int)))
  | none => none

/-- `RubOk` at one state: the bound `r` claimed for `s` dominates the value-to-go `h` -/
def rubOkAt (h : EInt) (r : Int) : Bool := decide (h ≤ some r)

/-- `MergeOk` (potential form, `Wf.lean`) at one merged-away state with value-to-go `hu`, merged state with value-to-go `hm`,
    arc cost `c` relaxed to `r`: `c + hu ≤ r + hm` -/
def mergeOkAt (hu hm : EInt) (c r : Int) : Bool :=
  match hu with
  | none => true
  | some h =>
    match hm with
    | none => false
    | some h' => decide (c + h ≤ r + h')

/-- the weaker over-approximation that `merge` does satisfy: in absolute positions.  Every path to a state `s` is worth
    `-s.last` (the costs telescope), so what a path through `u` can reach is `-u.last + hu`, and what the merged state offers —
    entered by its best arc, the one of the state with the least last mark — is `-m.last + hm`. -/
def mergeAbsOkAt (u m : St) (hu hm : EInt) (c r : Int) : Bool :=
  mergeOkAt (hu.addI (-(u.last : Int))) (hm.addI (-(m.last : Int))) c r

-- ------------------------------------------------------------------------------------------------------------------
-- the independent specification (`Golomb.lean`) for the extensions of a prefix

/-- the least length among the Golomb rulers (by the specification's own `Golomb.golomb`) that extend `marks` (decreasing: the
    head is the last mark) by `k` more marks, with all marks `≤ n²+1` and the first `⌊n/2⌋` marks `≤ ⌊(n²+1)/2⌋` (what the
    model's domains impose; every ruler or its mirror image satisfies the second), among the lengths below `bound`;
    the enumeration skips a mark `m` only when two differences coincide or when `m + (k-1)`, the least possible length, is not
    below the best length known -/
def specLeast (n : Nat) : Nat → List Nat → Option Nat → Option Nat
  | 0, marks, bound =>
    match bound with
    | some b => if marks.headD 0 < b then some (marks.headD 0) else none
    | none => some (marks.headD 0)
  | k + 1, marks, bound =>
    let last := marks.headD 0
    let top := if marks.length + 1 ≤ n / 2 then (n * n + 1) / 2 else n * n + 1
    (List.range (top - last)).foldl (fun (best : Option Nat) (j : Nat) =>
      let m := last + 1 + j
      let b' := match best with | some e => some e | none => bound
      let tooFar := match b' with | some b => decide (b ≤ m + k) | none => false
      if tooFar then best
      else if !Golomb.golomb (m :: marks) then best
      else
        match specLeast n k (m :: marks) b' with
        | some e => some e
        | none => best) none

/-- the specification's best value among the rulers extending the decisions `decs` (marks 2, 3, … in order) -/
def specBestExt (n : Nat) (decs : List Int) : EInt :=
  let marks := (decs.map Int.toNat).reverse ++ [0]
  (specLeast n (n - marks.length) marks none).map (fun L => -(L : Int))

end Ddo.Examples.GolombModel
