import DdoModel.Props.C06
import DdoModel.Examples.TsptwProofsMerge
/-! The tsptw model is well-formed (`WfRel`) relative to the layer validity `V` (valid state, every city still to visit can be
    entered from a position other than itself, stored depth = depth of the layer, in time at the depot on the last layer),
    with the potential `hStar`.
    * `brG_eq_vG`: the model's value-to-go is the total recursion `vG` with the model's distance;
    * `hStar_eq_bestRemL`: on the states none of whose positions is a city still to visit (every state reached exactly, the
      root), `hStar` is the model's legitimate value-to-go;
    * `rub_bestRemL_fails_merged` (**finding**): with the model's own value-to-go as potential the rough upper bound is NOT
      admissible on a merged state the solver builds (one of whose positions is also an optional city: the model moves there at
      no cost) — the reason for the potential `hStar`;
    * `wfRel_of_rub`: the `WfRel` instance, from the admissibility of the rough upper bound for `hStar` (`TsptwProofsRub.lean`);
    * `noClampDom_false`, `tsptw_relaxed_ub_of`: the corollary, conditional on the generic no-saturation hypothesis, which no
      relaxation with a state-dependent `relax` meets on arbitrary triples. -/
namespace Ddo.Examples.TsptwModel
open Ddo Ddo.Examples

section
variable {T : Tab} (hT : TabOk T)
include hT

/-- the total value-to-go only reads the earliest time of the elapsed time -/
theorem vG_el_indep (term : St → EInt)
    (hterm : ∀ m u, Sim m u → (term u).addI (-(u.el.earliest : Int)) ≤ (term m).addI (-(m.el.earliest : Int)))
    (md : St → Nat → Nat) (hmd : ∀ m u j, Sim m u → Valid T m → Valid T u → md m j ≤ md u j)
    (fuel : Nat) {s1 s2 : St} (h12 : Sim s1 s2) (h21 : Sim s2 s1) (h1 : Valid T s1) (h2 : Valid T s2) :
    vG T md term fuel s1 = vG T md term fuel s2 := by
  have a := simG_le hT md md term (fun _ => True) (fun _ => True) hterm (fun _ _ _ _ => trivial)
    (fun _ _ _ _ => trivial) (fun m u j h hm hu _ _ _ => hmd m u j h hm hu) fuel s1 s2 h12 h1 h2 trivial trivial
  have b := simG_le hT md md term (fun _ => True) (fun _ => True) hterm (fun _ _ _ _ => trivial)
    (fun _ _ _ _ => trivial) (fun m u j h hm hu _ _ _ => hmd m u j h hm hu) fuel s2 s1 h21 h2 h1 trivial trivial
  have he : s1.el.earliest = s2.el.earliest := Nat.le_antisymm h12.e h21.e
  rw [he] at a b
  exact EInt.addI_cancel (EInt.le_antisymm b a)

/-- **the model's value-to-go is the total recursion** on valid states -/
theorem brG_eq_vG (term : St → EInt)
    (hterm : ∀ m u, Sim m u → (term u).addI (-(u.el.earliest : Int)) ≤ (term m).addI (-(m.el.earliest : Int))) :
    ∀ (fuel : Nat) (s : St), Valid T s → brG T term fuel s = vG T (minD T) term fuel s := by
  intro fuel
  induction fuel with
  | zero => intro s _; rfl
  | succ n ih =>
    intro s hV
    simp only [brG, vG]
    by_cases hd : s.depth ≥ T.n
    · simp only [hd, if_true]
    · simp only [hd, if_false]
      rw [domain_eq_domG hT hV, List.foldl_map]
      refine foldl_max_congr
        (fun j => (brG T term n (trans T s ⟨s.depth, Int.ofNat j⟩)).addI (cost T s ⟨s.depth, Int.ofNat j⟩))
        (fun j => (vG T (minD T) term n (succSt s j (.fixed (arrG T (minD T) s j)))).addI
          ((s.el.earliest : Int) - (arrG T (minD T) s j : Nat))) _ _ ?_
      intro j hj
      have hj := (mem_domG_iff T (minD T) s j).mp hj
      have hjn := hj.lt hV hT.n_pos
      obtain ⟨el, ht, he, he1, he2⟩ := trans_eq hT hV hjn hj.1 s.depth
      have hd' : s.depth < T.n := by omega
      have hv1 := valid_succ' hV hd' hjn (hj.last hT.n_pos) he1 he2
      have ha : arrG T (minD T) s j = el.earliest := by rw [he]; rfl
      have hv2 : Valid T (succSt s j (.fixed (arrG T (minD T) s j))) :=
        valid_succ' hV hd' hjn (hj.last hT.n_pos) (arrG_small hT hjn hj.1) (arrG_small hT hjn hj.1)
      show (brG T term n (trans T s ⟨s.depth, (j : Int)⟩)).addI (cost T s ⟨s.depth, (j : Int)⟩) = _
      rw [ht, cost_eq hT hV hjn, ih _ hv1]
      rw [vG_el_indep hT term hterm (minD T) (fun m u j h hm hu => minD_anti h hm.pos_ne hu.pos_ne j) n
        (sim_succ (Sim.refl s) hV hV j (em := el) (eu := .fixed (arrG T (minD T) s j)) (by rw [ha]; exact Nat.le_refl _))
        (sim_succ (Sim.refl s) hV hV j (em := .fixed (arrG T (minD T) s j)) (eu := el) (by rw [ha]; exact Nat.le_refl _))
        hv1 hv2]
      rfl

theorem bestRemL_eq_vG {s : St} (hV : Valid T s) : bestRemL T s = vG T (minD T) termL (T.n - s.depth) s := by
  unfold bestRemL
  rw [bestRemLF_eq, brG_eq_vG hT termL termL_sim _ _ hV]

theorem bestRem_eq_vG {s : St} (hV : Valid T s) : bestRem T s = vG T (minD T) termAny (T.n - s.depth) s := by
  unfold bestRem
  rw [bestRemF_eq, brG_eq_vG hT termAny termAny_sim _ _ hV]

/-- **on the states none of whose positions is a city still to visit, `hStar` is the model's legitimate value-to-go** -/
theorem hStar_eq_bestRemL {s : St} (hV : Valid T s) (hC : Clean s) : hStar T s = bestRemL T s := by
  rw [bestRemL_eq_vG hT hV]
  unfold hStar
  have a := simG_le hT (minD T) (mdS T) termL (fun _ => True) (fun _ => True) termL_sim (fun _ _ _ _ => trivial)
    (fun _ _ _ _ => trivial)
    (fun m u j h hm hu _ _ _ => Nat.le_trans (minD_anti h hm.pos_ne hu.pos_ne j) (minD_le_mdS hu.pos_ne j))
    (T.n - s.depth) s s (Sim.refl s) hV hV trivial trivial
  have b := simG_le hT (mdS T) (minD T) termL Clean (fun _ => True) termL_sim (fun s j el hV => clean_succ hV j el)
    (fun _ _ _ _ => trivial)
    (fun m u j h hm hu hCm _ hj => by
      have : mdS T m j = minD T m j := by
        rcases hj.2 with ⟨_, h0⟩ | ⟨_, _, h3⟩
        · subst h0; rfl
        · apply mdS_eq_of_not_pos
          intro hp
          rcases h.cover j h3 with h' | h'
          · exact (hCm j hp).1 h'
          · exact (hCm j hp).2 h'
      rw [this]; exact minD_anti h hm.pos_ne hu.pos_ne j)
    (T.n - s.depth) s s (Sim.refl s) hV hV hC trivial
  exact EInt.addI_cancel (EInt.le_antisymm a b)

omit hT in
/-- a value-to-go is a negated duration -/
theorem vG_nonpos (md : St → Nat → Nat) : ∀ (fuel : Nat) (s : St) (h : Int), vG T md termL fuel s = some h → h ≤ 0 := by
  have hterm : ∀ (s : St) (h : Int), termL s = some h → h ≤ 0 := by
    intro s h hh
    unfold termL at hh
    split at hh
    · cases hh; exact Int.le_refl _
    · cases hh
  intro fuel
  induction fuel with
  | zero => intro s h hh; exact hterm s h hh
  | succ n ih =>
    intro s h hh
    simp only [vG] at hh
    split at hh
    · exact hterm s h hh
    · obtain ⟨_, _, h3⟩ := foldl_max_specG (fun j => (vG T md termL n (succSt s j (.fixed (arrG T md s j)))).addI
        ((s.el.earliest : Int) - (arrG T md s j : Nat))) (domG T md s) none
      rcases h3 with h3 | ⟨j, _, h3⟩
      · rw [h3] at hh; cases hh
      · rw [h3] at hh
        cases hv : vG T md termL n (succSt s j (.fixed (arrG T md s j))) with
        | none => rw [hv] at hh; cases hh
        | some h' =>
          rw [hv] at hh
          have := ih _ _ hv
          have e : h = h' + ((s.el.earliest : Int) - (arrG T md s j : Nat)) := by
            simpa [EInt.addI] using hh.symm
          have : s.el.earliest ≤ arrG T md s j := by unfold arrG; omega
          omega

/-- on every valid state of a layer but the last, some decision of the MODEL's domain does not lose potential -/
theorem att_hStar {s : St} (hV : Valid T s) (hd : s.depth < T.n) {h : Int} (hh : hStar T s = some h) (x : Nat) :
    ∃ d ∈ domain T s, ∃ h', hStar T (trans T s ⟨x, d⟩) = some h' ∧ h ≤ cost T s ⟨x, d⟩ + h' := by
  unfold hStar at hh
  obtain ⟨f, hf⟩ : ∃ f, T.n - s.depth = f + 1 := ⟨T.n - s.depth - 1, by omega⟩
  rw [hf] at hh
  simp only [vG] at hh
  rw [if_neg (by omega)] at hh
  obtain ⟨_, _, h3⟩ := foldl_max_specG (fun j => (vG T (mdS T) termL f (succSt s j (.fixed (arrG T (mdS T) s j)))).addI
    ((s.el.earliest : Int) - (arrG T (mdS T) s j : Nat))) (domG T (mdS T) s) none
  rcases h3 with h3 | ⟨j, hj, h3⟩
  · rw [h3] at hh; cases hh
  · rw [h3] at hh
    have hj := (mem_domG_iff T (mdS T) s j).mp hj
    have hjn := hj.lt hV hT.n_pos
    have hmd := minD_le_mdS (T := T) hV.pos_ne
    have hrS : s.el.earliest + mdS T s j ≤ lN T j := by simpa [reachG] using hj.1
    -- `j` is in the model's domain
    have hjm : InDom T s j := by
      refine ⟨?_, ?_⟩
      · have := hmd j
        simp only [reach, decide_eq_true_eq]; omega
      · rcases hj.2 with h1 | ⟨h1, h2, h3⟩
        · exact Or.inl h1
        · refine Or.inr ⟨h1, ?_, h3⟩
          intro i hi
          have : s.el.earliest + mdS T s i ≤ lN T i := by simpa [reachG] using h2 i hi
          have := hmd i
          simp only [reach, decide_eq_true_eq]; omega
    obtain ⟨el, ht, he, he1, he2⟩ := trans_eq hT hV hjn hjm.1 x
    refine ⟨(j : Int), (mem_domain_iff hT hV _).mpr ⟨j, rfl, hjm⟩, ?_⟩
    rw [ht, cost_eq hT hV hjn]
    have hvS : Valid T (succSt s j (.fixed (arrG T (mdS T) s j))) :=
      valid_succ' hV hd hjn (hj.last hT.n_pos) (arrG_small hT hjn hj.1) (arrG_small hT hjn hj.1)
    have hvM : Valid T (succSt s j el) := valid_succ' hV hd hjn (hj.last hT.n_pos) he1 he2
    have hle : el.earliest ≤ arrG T (mdS T) s j := by
      have := hmd j
      rw [he]; unfold arrG; omega
    have hsim : Sim (succSt s j el) (succSt s j (.fixed (arrG T (mdS T) s j))) :=
      sim_succ (Sim.refl s) hV hV j (em := el) (eu := .fixed (arrG T (mdS T) s j)) hle
    have key := sim_hStar hT hsim hvM hvS (alt_succ hV j _)
    have hfuel : T.n - (succSt s j el).depth = f := by show T.n - (s.depth + 1) = f; omega
    have hfuel' : T.n - (succSt s j (.fixed (arrG T (mdS T) s j))).depth = f := by show T.n - (s.depth + 1) = f; omega
    unfold hStar at key ⊢
    rw [hfuel] at key ⊢
    rw [hfuel'] at key
    cases hv : vG T (mdS T) termL f (succSt s j (.fixed (arrG T (mdS T) s j))) with
    | none => rw [hv] at hh; cases hh
    | some h0 =>
      rw [hv] at hh key
      obtain ⟨h', e', le'⟩ := EInt.of_addI_le key rfl
      refine ⟨h', e', ?_⟩
      have e : h = h0 + ((s.el.earliest : Int) - (arrG T (mdS T) s j : Nat)) := by
        simpa [EInt.addI] using hh.symm
      have e1 : ((succSt s j (.fixed (arrG T (mdS T) s j))).el.earliest : Int) = (arrG T (mdS T) s j : Nat) := rfl
      have e2 : ((succSt s j el).el.earliest : Int) = ((max (s.el.earliest + minD T s j) (eN T j) : Nat) : Int) := by
        show (el.earliest : Int) = _; rw [he]
      rw [e1, e2] at le'
      omega

end

-- ------------------------------------------------------------------------------------------------------------------
-- the `WfRel` instance

/-- the potential, whatever the layer -/
def H (T : Tab) (_ : Nat) (s : St) : EInt := hStar T s
/-- layer validity: a valid state, every city still to visit can be entered from another position, stored depth = layer, and
    a state of the last layer (the salesman is back at the depot) is there in time -/
def V (T : Tab) (k : Nat) (s : St) : Prop :=
  Valid T s ∧ Alt s ∧ s.depth = k ∧ (s.depth = T.n → s.el.earliest ≤ lN T 0)

theorem eN_le_lN {T : Tab} (hT : TabOk T) (hD : inDomain T = true) {j : Nat} (hj : j < T.n) : eN T j ≤ lN T j := by
  have h1 : j < T.tw.length := by rw [hT.tw_len]; exact hj
  simp only [inDomain, Bool.and_eq_true, List.all_eq_true, decide_eq_true_eq] at hD
  have := hD.2 _ (List.getElem_mem h1)
  simpa [eN, lN, List.getD_eq_getElem?_getD, List.getElem?_eq_getElem h1] using this

theorem V_init {T : Tab} (hT : TabOk T) : V T 0 (initSt T) :=
  ⟨valid_init hT, alt_of_clean (valid_init hT).pos_ne (clean_init hT), rfl, fun h => by
    have := hT.n_pos
    have h' : (0 : Nat) = T.n := h
    omega⟩

theorem vstepV {T : Tab} (hT : TabOk T) (hD : inDomain T = true) {k : Nat} {s : St} (hV : V T k s) (hk : k ≠ T.n) {d : Int}
    (hd : d ∈ domain T s) (x : Nat) : V T (k + 1) (trans T s ⟨x, d⟩) := by
  obtain ⟨hv, _, hdep, _⟩ := hV
  obtain ⟨j, rfl, hj⟩ := (mem_domain_iff hT hv d).mp hd
  have hjn := hj.lt hv hT.n_pos
  have hlt : s.depth < T.n := by have := hv.depth_le; omega
  obtain ⟨el, ht, he, he1, he2⟩ := trans_eq hT hv hjn hj.1 x
  rw [ht]
  refine ⟨valid_succ hT hv hlt hj he1 he2, alt_succ hv j el, by show s.depth + 1 = k + 1; rw [hdep], ?_⟩
  intro hl
  have hl : s.depth + 1 = T.n := hl
  have h0 : j = 0 := ((inDom_iff T s j).mp hj).last hT.n_pos hl
  subst h0
  have hr : s.el.earliest + minD T s 0 ≤ lN T 0 := by simpa [reach] using hj.1
  have := eN_le_lN hT hD hjn
  show el.earliest ≤ lN T 0
  rw [he]; omega

theorem vmergeV {T : Tab} (hT : TabOk T) {k : Nat} {X : List St} (hne : X ≠ []) (hX : ∀ u ∈ X, V T k u) :
    V T k (merge X) := by
  have hX' : ∀ s ∈ X, Valid T s ∧ s.depth = k := fun s hs => ⟨(hX s hs).1, (hX s hs).2.2.1⟩
  refine ⟨valid_merge hT hne hX', alt_merge hT hne hX' (fun s hs => (hX s hs).2.1), merge_depth_eq hne hX', ?_⟩
  intro hl
  obtain ⟨u, hu⟩ := List.exists_mem_of_ne_nil _ hne
  have h1 := (sim_merge hT hne hX' hu).e
  have h2 := (hX u hu).2.2.2 (by rw [(hX u hu).2.2.1, ← merge_depth_eq hne hX']; exact hl)
  omega

/-- **the tsptw model (repaired `relax`) is well-formed relative to `V`**, with the potential `hStar`, as soon as the rough
    upper bound is admissible for `hStar` on the valid states (`rub_hStar` of `TsptwProofsRub.lean`) -/
theorem wfRel_of_rub {T : Tab} (hT : TabOk T) (hD : inDomain T = true)
    (hrub : ∀ s, Valid T s → Alt s → (s.depth = T.n → s.el.earliest ≤ lN T 0) → ∀ r, rub? T s = some r → hStar T s ≤ r) :
    WfRel (problem T) (relaxation T) (H T) (V T) where
  vstep := by
    intro k L x s d hx _ hV hd
    obtain ⟨hk, rfl⟩ := nextVar_some hx
    exact vstepV hT hD hV hk hd _
  vstepMerge := by
    intro k L x X d hx hne _ hX hd
    obtain ⟨hk, rfl⟩ := nextVar_some hx
    exact vstepV hT hD (vmergeV hT hne hX) hk hd _
  vmerge := fun k X hne hX => vmergeV hT hne hX
  att := by
    intro k L x s h hx _ hV hh
    obtain ⟨hk, rfl⟩ := nextVar_some hx
    have hlt : s.depth < T.n := by have := hV.1.depth_le; have := hV.2.2.1; omega
    exact att_hStar hT hV.1 hlt hh _
  attMerge := by
    intro k L x X h hx hne _ hX hh
    obtain ⟨hk, rfl⟩ := nextVar_some hx
    have hV := vmergeV hT hne hX
    have hlt : (merge X).depth < T.n := by have := hV.1.depth_le; have := hV.2.2.1; omega
    exact att_hStar hT hV.1 hlt hh _
  term := by
    intro k L s h _ _ _ hh
    exact vG_nonpos _ _ _ _ hh
  rub := by
    intro k s h hV hh
    show h ≤ (match rub? T s with | some (some v) => v | _ => 0)
    cases hr : rub? T s with
    | none => exact vG_nonpos _ _ _ _ hh
    | some r =>
      have := hrub s hV.1 hV.2.1 hV.2.2.2 r hr
      have hh' : hStar T s = some h := hh
      rw [hh'] at this
      cases r with
      | none => exact absurd this (by simp)
      | some v => exact this
  merge := by
    intro k X u src d c h hu hX hh
    exact mergeOk_hStar hT k X u src d c h hu (fun s hs => ⟨(hX s hs).1, (hX s hs).2.2.1⟩) (hX u hu).2.1 hh

/-- **finding**: the no-saturation hypothesis of the generic theorems (`NoClampDom.relax`: the relaxed cost of ANY triple of
    states stays in `[-B, B]`) cannot be met by the repaired relaxation: `relax` adds `earliest(dest) − earliest(merged)`,
    unbounded over arbitrary pairs of states (as for mcp, `McpProofs.noClampDom_false`); the clause has to be restricted to the
    triples the compilation builds (valid states: times `< 2^40`) -/
theorem noClampDom_false (T : Tab) (rv B : Int) : ¬ NoClampDom (problem T) (relaxation T) rv B := by
  intro h
  have hB := h.nonneg
  have hr := (h.relax (initSt T) ⟨.node 0, .fixed (2 * B + 1).toNat, [], none, 0⟩ ⟨.node 0, .fixed 0, [], none, 0⟩ ⟨0, 0⟩ 0
    ⟨by omega, hB⟩).2
  simp only [relaxation, earliest_fixed] at hr
  omega

/-- the corollary as far as the generic theorem allows: a relaxed compilation (layer by layer, no cache, no dominance) of
    the tsptw model from the root reports at least the potential of the root — **conditional on `NoClampDom`**, which
    `noClampDom_false` shows unsatisfiable as stated: plumbing only (root validity, `WfRel`, the optimum as the potential of
    the root) until the no-saturation clause restricted to valid triples is available -/
theorem tsptw_relaxed_ub_of {K : Type} [DecidableEq K] {T : Tab} (hT : TabOk T) (hD : inDomain T = true)
    (hrub : ∀ s, Valid T s → Alt s → (s.depth = T.n → s.el.earliest ≤ lN T 0) → ∀ r, rub? T s = some r → hStar T s ≤ r)
    (cfg : Cfg St K) (B : Int) (cache : Cache St) (store : DomStore St K) (polls : Nat)
    (hP : cfg.P = problem T) (hR : cfg.R = relaxation T)
    (hrs : cfg.root.state = initSt T) (hrv : cfg.root.value = 0) (hrd : cfg.root.depth = 0)
    (hrel : cfg.ctype = .relaxed) (hcache : cfg.useCache = false) (hdom : cfg.dom = none) (hW : 1 ≤ cfg.width)
    (hB : NoClampDom (problem T) (relaxation T) 0 B) (hlb : InI cfg.lb)
    (o : Int) (ho : bestRemL T (initSt T) = some o) (hgt : o > cfg.lb) (hO : o ≤ iMax ∨ cfg.lb < iMax) :
    (compile cfg cache store polls none).1 = .ok →
    ∃ bv, (compile cfg cache store polls none).2.1.bestValue = some bv ∧ o ≤ bv := by
  refine C06.relaxed_ub_rel_dom cfg (H T) (V T) B cache store polls hrel hcache hdom hW ?_ ?_ ?_ hlb o ?_ hgt hO
  · rw [hP, hR]; exact wfRel_of_rub hT hD hrub
  · rw [hrd, hrs]; exact V_init hT
  · rw [hP, hR, hrv]; exact hB
  · unfold optOf
    rw [hrd, hrs, hrv]
    show (hStar T (initSt T)).addI 0 = some o
    rw [hStar_eq_bestRemL hT (valid_init hT) (clean_init hT), ho]
    simp [EInt.addI]

-- ------------------------------------------------------------------------------------------------------------------
-- why `hStar` and not the model's own value-to-go: the rough upper bound on a merged state

/-- 4 nodes, all travel times `1`, windows `[0,100]` -/
def rbT : Tab := tabOf 4 [0, 100, 100, 100,  100, 0, 100, 100,  100, 100, 0, 100,  100, 100, 100, 0]
  [(0, 10000), (0, 10000), (0, 10000), (0, 10000)]
/-- root → city 1 and root → city 2 -/
def rbU1 : St := { pos := .node 1, el := .fixed 10000, must := [2, 3], maybe := none, depth := 1 }
def rbU2 : St := { pos := .node 2, el := .fixed 10000, must := [1, 3], maybe := none, depth := 1 }
/-- their merge: the salesman stands on city 1 or 2, must visit 3 and one of 1, 2 -/
def rbM : St := { pos := .virt [1, 2], el := .fixed 10000, must := [3], maybe := some [1, 2], depth := 1 }

theorem rbT_tabOk : TabOk rbT := tabOk_of_tabOkB (by decide)
theorem rbT_inDomain : inDomain rbT = true := by decide
theorem rb_reached : trans? rbT (initSt rbT) ⟨0, 1⟩ = some rbU1 ∧ trans? rbT (initSt rbT) ⟨0, 2⟩ = some rbU2 := by decide
set_option maxRecDepth 100000 in
theorem rb_merged : merge [rbU1, rbU2] = rbM := by decide

set_option maxRecDepth 100000 in
/-- **finding** (`RubOk` with the model's own value-to-go fails outside `rubScope`, on a state the solver builds): on the merge
    of the two children `root → 1`, `root → 2` of the root of an instance of the domain, the rough upper bound is `-3` (three
    cheapest edges: into 3, into one of 1, 2, back to the depot) while the model's legitimate value-to-go is `-2`: the model
    lets the merged state "move" to city 1, on which it may stand, at no cost.  No tour does that (the tours through the two
    merged-away states are worth `-3`: the bound is right about them), so this is not a wrong bound of the solver; it is the
    reason why the `WfRel` instance uses the potential `hStar` (which is `-3` here) and not `bestRemL`. -/
theorem rub_bestRemL_fails_merged :
    rubScope rbM = false ∧ rub? rbT rbM = some (some (-30000)) ∧ bestRemL rbT rbM = some (-20000) ∧
    hStar rbT rbM = some (-30000) ∧ bestRemL rbT rbU1 = some (-30000) ∧ bestRemL rbT rbU2 = some (-30000) := by
  decide

/-- a `validB` "state" in `rubScope` that stands on a city it may still visit (no run of the Rust code builds it: a transition
    to a city removes it from both sets, and `rubScope` excludes the merged states of that kind) -/
def cexS : St := { pos := .node 1, el := .fixed 10000, must := [], maybe := some [1, 2], depth := 1 }

set_option maxRecDepth 100000 in
/-- **`rub_admissible` as stated (every `validB` state in `rubScope`) is false**: `rubScope` lets every single-position state
    in, also one whose position is an optional city; the model then moves to that city at no cost (`-1`: straight back to the
    depot) while the bound counts a cheapest edge into it (`-2`).  Not reachable.  The statement holds for the valid states
    none of whose positions is a city still to visit (`rub_admissible_partial`, `TsptwProofsMain.lean`). -/
theorem rub_admissible_false : ¬ rub_admissible cexT := by
  intro h
  have := h (by decide) cexS (by decide) (by decide) (some (-20000)) (by decide)
  revert this
  decide

#print axioms rub_bestRemL_fails_merged
#print axioms rub_admissible_false
#print axioms brG_eq_vG
#print axioms hStar_eq_bestRemL
#print axioms wfRel_of_rub
#print axioms noClampDom_false
#print axioms tsptw_relaxed_ub_of

end Ddo.Examples.TsptwModel
