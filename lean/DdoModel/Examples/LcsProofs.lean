import DdoModel.Examples.LcsModel
import DdoModel.Examples.LcsProofsTable
import DdoModel.Examples.LcsProofsDom
/-! Proofs about the Lean model of the shipped lcs example: the value-to-go `bestRem` of a valid state is the length of a
    longest common subsequence of the suffixes the state points at (`bestRem_spec`), hence it is antitone in the
    positions (`bestRemAntitone`), the merge operator is sound (`mergeOk`). -/
namespace Ddo.Examples.LcsModel
open Ddo Ddo.Examples Ddo.Examples.Util

-- ------------------------------------------------------------------------------------------------------------------
-- the tables of the reader, semantically

/-- the index of the first occurrence of `j` (the length when there is none) -/
def firstIdx (j : Nat) : List Nat → Nat
  | [] => 0
  | c :: r => if c = j then 0 else firstIdx j r + 1

theorem firstIdx_le (j : Nat) (l : List Nat) : firstIdx j l ≤ l.length := by
  induction l with
  | nil => simp [firstIdx]
  | cons c r ih => simp only [firstIdx]; split <;> simp <;> omega

theorem firstIdx_lt {j : Nat} {l : List Nat} (h : j ∈ l) : firstIdx j l < l.length := by
  induction l with
  | nil => cases h
  | cons c r ih =>
    simp only [firstIdx]
    split
    · simp
    · next hc =>
      have : j ∈ r := by
        rcases List.mem_cons.mp h with h | h
        · exact absurd h.symm hc
        · exact h
      have := ih this
      simp; omega

/-- a subsequence that begins with `j` continues after the first `j` -/
theorem sublist_after_first {j : Nat} {c l : List Nat} (h : (j :: c).Sublist l) :
    c.Sublist (l.drop (firstIdx j l + 1)) := by
  induction l with
  | nil => cases h
  | cons x r ih =>
    simp only [firstIdx]
    split
    · next hx =>
      subst hx
      simp only [Nat.zero_add, List.drop_succ_cons, List.drop_zero]
      rcases List.sublist_cons_iff.mp h with h | ⟨r', hr', h⟩
      · exact (List.sublist_cons_self _ _).trans h
      · cases hr'; exact h
    · next hx =>
      simp only [List.drop_succ_cons]
      rcases List.sublist_cons_iff.mp h with h | ⟨r', hr', h⟩
      · exact ih h
      · cases hr'; exact absurd rfl hx

/-- the first `j` followed by a subsequence of what comes after it -/
theorem cons_sublist_of_first {j : Nat} {c l : List Nat} (hj : j ∈ l) (h : c.Sublist (l.drop (firstIdx j l + 1))) :
    (j :: c).Sublist l := by
  induction l with
  | nil => cases hj
  | cons x r ih =>
    simp only [firstIdx] at h
    split at h
    · next hx =>
      subst hx
      simp only [Nat.zero_add, List.drop_succ_cons, List.drop_zero] at h
      exact List.cons_sublist_cons.mpr h
    · next hx =>
      simp only [List.drop_succ_cons] at h
      have : j ∈ r := by
        rcases List.mem_cons.mp hj with h | h
        · exact absurd h.symm hx
        · exact h
      exact (ih this h).cons _

theorem remFrom_head (j : Nat) (w : List Nat) : (remFrom j w).headD 0 = (w.count j : Int) := by
  induction w with
  | nil => simp [remFrom]
  | cons c r ih =>
    simp only [remFrom, List.headD_cons, ih, List.count_cons]
    by_cases h : c = j <;> simp [h]

theorem remFrom_getElem (j : Nat) : ∀ (w : List Nat) (p : Nat), p ≤ w.length →
    (remFrom j w)[p]? = some (((w.drop p).count j : Nat) : Int) := by
  intro w
  induction w with
  | nil => intro p hp; simp at hp; subst hp; simp [remFrom]
  | cons c r ih =>
    intro p hp
    cases p with
    | zero =>
      have := remFrom_head j (c :: r)
      cases hr : remFrom j (c :: r) with
      | nil => simp [remFrom] at hr
      | cons a t => rw [hr] at this; simp at this; simp [this]
    | succ p =>
      simp only [remFrom, List.getElem?_cons_succ, List.drop_succ_cons]
      exact ih p (by simpa using hp)

theorem nextFrom_head (j : Nat) : ∀ (w : List Nat) (i : Nat), (nextFrom j i w).headD 0 = i + firstIdx j w := by
  intro w
  induction w with
  | nil => intro i; simp [nextFrom, firstIdx]
  | cons c r ih =>
    intro i
    simp only [nextFrom, List.headD_cons, firstIdx, ih]
    by_cases h : c = j <;> simp [h]; omega

theorem nextFrom_getElem (j : Nat) : ∀ (w : List Nat) (i p : Nat), p ≤ w.length →
    (nextFrom j i w)[p]? = some (i + p + firstIdx j (w.drop p)) := by
  intro w
  induction w with
  | nil => intro i p hp; simp at hp; subst hp; simp [nextFrom, firstIdx]
  | cons c r ih =>
    intro i p hp
    cases p with
    | zero =>
      have := nextFrom_head j (c :: r) i
      cases hr : nextFrom j i (c :: r) with
      | nil => simp [nextFrom] at hr
      | cons a t => rw [hr] at this; simp at this; simp [this]
    | succ p =>
      simp only [nextFrom, List.getElem?_cons_succ, List.drop_succ_cons]
      rw [ih (i + 1) p (by simpa using hp)]
      congr 1; omega

-- ------------------------------------------------------------------------------------------------------------------
-- what the reader builds

/-- the `Lcs` value `J` is the one the reader builds for the strings `ws` -/
structure Built (J : Inst) (ws : List (List Nat)) : Prop where
  ne : ws ≠ []
  nStrings : J.nStrings = ws.length
  len : J.len = ws.map (·.length)
  next : J.next = ws.map (fun s => (List.range J.nChars).map (fun j => nextFrom j 0 s))
  rem : J.rem = ws.map (fun s => (List.range J.nChars).map (fun j => remFrom j s))
  tables : J.tables = pairTables ws

theorem built_of_instOk {k declared : Nat} {lines : List (List Int)} {J : Inst} (h : InstOk k declared lines J) :
    Built J (J.strings.take J.nStrings) := by
  obtain ⟨_, h⟩ := h
  unfold readInst at h
  split at h
  · cases h
  · simp only at h
    split at h
    · cases h
    · split at h
      · cases h
      · next h1 h2 =>
        cases h
        refine ⟨?_, ?_, rfl, rfl, rfl, rfl⟩
        · intro h0
          have := congrArg List.length h0
          simp only [List.length_take, List.length_nil] at this
          omega
        · simp only [List.length_take]; omega

/-- string `i` -/
def str (ws : List (List Nat)) (i : Nat) : List Nat := (ws[i]?).getD []
/-- position `i` of a state -/
def pos (s : St) (i : Nat) : Nat := (s[i]?).getD 0
/-- the suffix of string `i` the state points at -/
def suf (ws : List (List Nat)) (s : St) (i : Nat) : List Nat := (str ws i).drop (pos s i)

/-- one position per string, none beyond the end of its string -/
def Valid (ws : List (List Nat)) (s : St) : Prop := s.length = ws.length ∧ ∀ i, i < ws.length → pos s i ≤ (str ws i).length

/-- `c` is a common subsequence of the suffixes the state points at -/
def CS (ws : List (List Nat)) (s : St) (c : List Nat) : Prop := ∀ i, i < ws.length → c.Sublist (suf ws s i)

theorem mapM_total {α β : Type} (f : α → Option β) (g : α → β) : ∀ l : List α, (∀ x ∈ l, f x = some (g x)) →
    l.mapM f = some (l.map g) := by
  intro l
  induction l with
  | nil => intro _; rfl
  | cons a t ih =>
    intro h
    rw [List.mapM_cons, h a List.mem_cons_self, ih (fun x hx => h x (List.mem_cons_of_mem _ hx))]
    rfl

theorem zip_filterMap_eq (g : Nat → Bool) : ∀ l : List Nat,
    (l.zip (l.map g)).filterMap (fun (c, b) => if b then some (c : Int) else none) = (l.filter g).map (fun c : Nat => (c : Int)) := by
  intro l
  induction l with
  | nil => rfl
  | cons a t ih =>
    simp only [List.map_cons, List.zip_cons_cons, List.filterMap_cons, List.filter_cons]
    cases g a <;> simp [ih]

section
variable {J : Inst} {ws : List (List Nat)} (hB : Built J ws)
include hB

theorem valid_of_validB {s : St} (h : validB J s = true) : Valid ws s := by
  simp only [validB, Bool.and_eq_true, beq_iff_eq, List.all_eq_true, decide_eq_true_eq] at h
  obtain ⟨h1, h2⟩ := h
  refine ⟨by rw [h1, hB.nStrings], ?_⟩
  intro i hi
  have hs : i < s.length := by rw [h1, hB.nStrings]; exact hi
  have hz : (s.zip J.len)[i]? = some (s[i], (ws[i]).length) := by
    rw [List.getElem?_zip_eq_some]
    simp [hB.len, hi, hs]
  have := h2 _ (List.mem_of_getElem? hz)
  simp only at this
  simpa [pos, str, hs, hi] using this

theorem remAt_eq {i c p : Nat} (hi : i < ws.length) (hc : c < J.nChars) (hp : p ≤ (str ws i).length) :
    remAt J i c p = some ((((str ws i).drop p).count c : Nat) : Int) := by
  simp only [remAt, hB.rem, List.getElem?_map, List.getElem?_eq_getElem hi, Option.map_some, Option.bind_eq_bind,
    Option.bind_some, List.getElem?_range hc]
  simp only [str, List.getElem?_eq_getElem hi, Option.getD_some] at hp ⊢
  exact remFrom_getElem c _ p hp

theorem nextAt_eq {i c p : Nat} (hi : i < ws.length) (hc : c < J.nChars) (hp : p ≤ (str ws i).length) :
    nextAt J i c p = some (p + firstIdx c ((str ws i).drop p)) := by
  simp only [nextAt, hB.next, List.getElem?_map, List.getElem?_eq_getElem hi, Option.map_some, Option.bind_eq_bind,
    Option.bind_some, List.getElem?_range hc]
  simp only [str, List.getElem?_eq_getElem hi, Option.getD_some] at hp ⊢
  rw [nextFrom_getElem c _ 0 p hp]; simp

/-- `c` still occurs in every suffix -/
def common (ws : List (List Nat)) (s : St) (c : Nat) : Bool := (List.range ws.length).all fun i => decide (c ∈ suf ws s i)

/-- the characters of the domain -/
def chars (J : Inst) (ws : List (List Nat)) (s : St) : List Int :=
  ((List.range J.nChars).filter (common ws s)).map (fun c : Nat => (c : Int))

/-- the state after character `c` -/
def step (ws : List (List Nat)) (s : St) (c : Nat) : St :=
  (List.range ws.length).map fun i => pos s i + firstIdx c (suf ws s i) + 1

omit hB in
theorem getElem?_of_valid {s : St} (hV : Valid ws s) {i : Nat} (hi : i < ws.length) : s[i]? = some (pos s i) := by
  have : i < s.length := by rw [hV.1]; exact hi
  simp [pos, this]

theorem charValid?_eq {s : St} (hV : Valid ws s) {c : Nat} (hc : c < J.nChars) : ∀ l : List Nat, (∀ i ∈ l, i < ws.length) →
    charValid? J s c l = some (l.all fun i => decide (c ∈ suf ws s i)) := by
  intro l
  induction l with
  | nil => intro _; rfl
  | cons i r ih =>
    intro hl
    have hi : i < ws.length := hl i List.mem_cons_self
    unfold charValid?
    simp only [getElem?_of_valid hV hi, remAt_eq hB hi hc (hV.2 i hi), Option.bind_eq_bind, Option.bind_some]
    rw [ih (fun j hj => hl j (List.mem_cons_of_mem _ hj))]
    simp only [List.all_cons]
    by_cases hm : c ∈ suf ws s i
    · have : List.count c (List.drop (pos s i) (str ws i)) ≠ 0 := by
        have := List.count_pos_iff.mpr hm
        simp only [suf] at this
        omega
      simp [this, hm]
    · have : List.count c (List.drop (pos s i) (str ws i)) = 0 := by
        have := List.count_eq_zero.mpr hm
        simpa only [suf] using this
      simp [this, hm]

theorem domain_eq {s : St} (hV : Valid ws s) :
    domain J s = if (chars J ws s).isEmpty then [-1] else chars J ws s := by
  unfold domain domain?
  rw [mapM_total _ (common ws s)]
  · simp only [Option.bind_eq_bind, Option.bind_some, zip_filterMap_eq]
    rfl
  · intro c hc
    rw [hB.nStrings]
    exact charValid?_eq hB hV (List.mem_range.mp hc) _ (fun i hi => List.mem_range.mp hi)

theorem trans_char {s : St} (hV : Valid ws s) {c : Nat} (hc : c < J.nChars) (x : Nat) :
    trans J s ⟨x, (c : Int)⟩ = step ws s c := by
  unfold trans trans?
  have h1 : ¬ ((c : Int) = -1) := by omega
  have h2 : ¬ ((c : Int) < 0) := by omega
  simp only [h1, h2, if_false]
  rw [mapM_total _ (fun i => pos s i + firstIdx c (suf ws s i) + 1)]
  · simp [step, hB.nStrings]
  · intro i hi
    have hi : i < ws.length := by rw [← hB.nStrings]; exact List.mem_range.mp hi
    simp only [getElem?_of_valid hV hi, Int.toNat_natCast, nextAt_eq hB hi hc (hV.2 i hi), Option.bind_eq_bind,
      Option.bind_some]
    rfl

omit hB in
theorem trans_end (s : St) (x : Nat) : trans J s ⟨x, -1⟩ = J.len := by
  simp [trans, trans?]

omit hB in
theorem common_iff {s : St} {c : Nat} : common ws s c = true ↔ ∀ i, i < ws.length → c ∈ suf ws s i := by
  simp [common]

omit hB in
theorem mem_chars {s : St} {v : Int} : v ∈ chars J ws s ↔ ∃ c : Nat, c < J.nChars ∧ common ws s c = true ∧ v = (c : Int) := by
  simp only [chars, List.mem_map, List.mem_filter, List.mem_range]
  constructor
  · rintro ⟨c, ⟨h1, h2⟩, rfl⟩; exact ⟨c, h1, h2, rfl⟩
  · rintro ⟨c, h1, h2, rfl⟩; exact ⟨c, ⟨h1, h2⟩, rfl⟩

omit hB in
theorem pos_step {s : St} {c i : Nat} (hi : i < ws.length) :
    pos (step ws s c) i = pos s i + firstIdx c (suf ws s i) + 1 := by
  simp [pos, step, hi]

omit hB in
theorem suf_step {s : St} {c i : Nat} (hi : i < ws.length) :
    suf ws (step ws s c) i = (suf ws s i).drop (firstIdx c (suf ws s i) + 1) := by
  simp only [suf, pos_step hi, List.drop_drop]
  congr 1

omit hB in
theorem valid_step {s : St} (hV : Valid ws s) {c : Nat} (hc : common ws s c = true) : Valid ws (step ws s c) := by
  refine ⟨by simp [step], ?_⟩
  intro i hi
  rw [pos_step hi]
  have := firstIdx_lt (common_iff.mp hc i hi)
  have h2 := hV.2 i hi
  simp only [suf, List.length_drop] at this ⊢
  omega

theorem nbVars_eq : nbVars J = (str ws 0).length := by
  have : 0 < ws.length := List.length_pos_iff.mpr hB.ne
  simp [nbVars, hB.len, str, List.headD_eq_head?_getD, List.head?_eq_getElem?, this]

omit hB in
theorem headD_eq_pos (s : St) : s.headD 0 = pos s 0 := by
  simp [pos, List.headD_eq_head?_getD, List.head?_eq_getElem?]

omit hB in
theorem bestRemF_len (fuel : Nat) : bestRemF J fuel J.len = some 0 := by
  cases fuel with
  | zero => rfl
  | succ n => simp [bestRemF, nbVars]

end

-- the fold of `EInt.max`
theorem EInt.le_max_left (a b : EInt) : a ≤ EInt.max a b := by
  cases a <;> cases b <;> simp [EInt.max] <;> omega
theorem EInt.le_max_right (a b : EInt) : b ≤ EInt.max a b := by
  cases a <;> cases b <;> simp [EInt.max] <;> omega
theorem EInt.max_cases (a b : EInt) : EInt.max a b = a ∨ EInt.max a b = b := by
  cases a <;> cases b <;> simp [EInt.max] <;> omega

theorem foldl_max_spec (f : Int → EInt) : ∀ (l : List Int) (acc : EInt),
    acc ≤ l.foldl (fun a v => EInt.max a (f v)) acc ∧
    (∀ v ∈ l, f v ≤ l.foldl (fun a v => EInt.max a (f v)) acc) ∧
    (l.foldl (fun a v => EInt.max a (f v)) acc = acc ∨ ∃ v ∈ l, l.foldl (fun a v => EInt.max a (f v)) acc = f v) := by
  intro l
  induction l with
  | nil => intro acc; exact ⟨EInt.le_refl _, (fun v hv => by cases hv), Or.inl rfl⟩
  | cons x t ih =>
    intro acc
    obtain ⟨h1, h2, h3⟩ := ih (EInt.max acc (f x))
    rw [List.foldl_cons]
    refine ⟨EInt.le_trans (EInt.le_max_left _ _) h1, ?_, ?_⟩
    · intro v hv
      rcases List.mem_cons.mp hv with rfl | hv
      · exact EInt.le_trans (EInt.le_max_right _ _) h1
      · exact h2 v hv
    · rcases h3 with h3 | ⟨v, hv, h3⟩
      · rcases EInt.max_cases acc (f x) with h | h
        · left; rw [h3, h]
        · right; exact ⟨x, List.mem_cons_self, by rw [h3, h]⟩
      · right; exact ⟨v, List.mem_cons_of_mem _ hv, h3⟩

-- ------------------------------------------------------------------------------------------------------------------
-- the value-to-go is the length of a longest common subsequence of the suffixes

/-- `c` is a longest common subsequence (over the characters `< nChars`) of the suffixes the state points at -/
def IsLcs (J : Inst) (ws : List (List Nat)) (s : St) (c : List Nat) : Prop :=
  CS ws s c ∧ (∀ x ∈ c, x < J.nChars) ∧ ∀ c' : List Nat, (∀ x ∈ c', x < J.nChars) → CS ws s c' → c'.length ≤ c.length

section
variable {J : Inst} {ws : List (List Nat)} (hB : Built J ws)
include hB

omit hB in
theorem common_of_cs {s : St} {x : Nat} {t : List Nat} (h : CS ws s (x :: t)) : common ws s x = true :=
  common_iff.mpr fun i hi => (h i hi).subset List.mem_cons_self

omit hB in
theorem cs_step {s : St} {x : Nat} {t : List Nat} (h : CS ws s (x :: t)) : CS ws (step ws s x) t := by
  intro i hi
  rw [suf_step hi]
  exact sublist_after_first (h i hi)

theorem bestRemF_spec : ∀ (fuel : Nat) (s : St), Valid ws s → (str ws 0).length + 1 - pos s 0 ≤ fuel →
    ∃ c : List Nat, bestRemF J fuel s = some (c.length : Int) ∧ IsLcs J ws s c := by
  have h0 : 0 < ws.length := List.length_pos_iff.mpr hB.ne
  intro fuel
  induction fuel with
  | zero => intro s hV hf; have := hV.2 0 h0; omega
  | succ n ih =>
    intro s hV hf
    simp only [bestRemF]
    rw [headD_eq_pos, nbVars_eq hB]
    by_cases hend : pos s 0 ≥ (str ws 0).length
    · rw [if_pos hend]
      refine ⟨[], rfl, fun i _ => List.nil_sublist _, (fun x hx => by cases hx), ?_⟩
      intro c' _ hcs
      have := hcs 0 h0
      have he : suf ws s 0 = [] := by simp [suf]; omega
      rw [he] at this
      simp [List.sublist_nil.mp this]
    · rw [if_neg hend, domain_eq hB hV]
      by_cases hemp : (chars J ws s).isEmpty = true
      · rw [if_pos hemp]
        simp only [List.foldl_cons, List.foldl_nil, trans_end, bestRemF_len, cost]
        refine ⟨[], by simp [EInt.max, EInt.addI], fun i _ => List.nil_sublist _, (fun x hx => by cases hx), ?_⟩
        intro c' hc' hcs
        cases c' with
        | nil => simp
        | cons x t =>
          have : (x : Int) ∈ chars J ws s := mem_chars.mpr ⟨x, hc' x List.mem_cons_self, common_of_cs hcs, rfl⟩
          rw [List.isEmpty_iff.mp hemp] at this
          cases this
      · rw [if_neg hemp]
        have hf' : ∀ c : Nat, c < J.nChars → common ws s c = true → ∃ cc : List Nat,
            (bestRemF J n (trans J s ⟨pos s 0, (c : Int)⟩)).addI (cost (c : Int)) = some ((cc.length : Int) + 1) ∧
            IsLcs J ws (step ws s c) cc := by
          intro c hc hcm
          rw [trans_char hB hV hc]
          obtain ⟨cc, h1, h2⟩ := ih (step ws s c) (valid_step hV hcm) (by rw [pos_step h0]; omega)
          refine ⟨cc, ?_, h2⟩
          have : ¬ ((c : Int) = -1) := by omega
          simp [h1, EInt.addI, cost, this]
        obtain ⟨_, hall, hatt⟩ := foldl_max_spec
          (fun v => (bestRemF J n (trans J s ⟨pos s 0, v⟩)).addI (cost v)) (chars J ws s) none
        generalize List.foldl (fun acc v => EInt.max acc ((bestRemF J n (trans J s ⟨pos s 0, v⟩)).addI (cost v))) none
          (chars J ws s) = r at hall hatt ⊢
        have hne : chars J ws s ≠ [] := fun h => hemp (by simp [h])
        obtain ⟨v0, hv0⟩ := List.exists_mem_of_ne_nil _ hne
        obtain ⟨c0, hc0, hcm0, rfl⟩ := mem_chars.mp hv0
        obtain ⟨cc0, hcc0, _⟩ := hf' c0 hc0 hcm0
        have hr0 := hall _ hv0
        simp only [hcc0] at hr0
        rcases hatt with hr | ⟨v1, hv1, hr⟩
        · rw [hr] at hr0; exact absurd hr0 (by simp)
        · obtain ⟨c1, hc1, hcm1, rfl⟩ := mem_chars.mp hv1
          obtain ⟨cc1, hcc1, hl1, hl2, hl3⟩ := hf' c1 hc1 hcm1
          simp only [hcc1] at hr
          refine ⟨c1 :: cc1, by rw [hr]; simp, ?_, ?_, ?_⟩
          · intro i hi
            refine cons_sublist_of_first (common_iff.mp hcm1 i hi) ?_
            rw [← suf_step hi]
            exact hl1 i hi
          · intro x hx
            rcases List.mem_cons.mp hx with rfl | hx
            · exact hc1
            · exact hl2 x hx
          · intro c' hc' hcs
            cases c' with
            | nil => simp
            | cons x t =>
              have hx : x < J.nChars := hc' x List.mem_cons_self
              have hcm : common ws s x = true := common_of_cs hcs
              obtain ⟨ccx, hccx, _, _, hx3⟩ := hf' x hx hcm
              have h1 := hx3 t (fun y hy => hc' y (List.mem_cons_of_mem _ hy)) (cs_step hcs)
              have h2 := hall _ (mem_chars.mpr ⟨x, hx, hcm, rfl⟩)
              simp only [hccx, hr] at h2
              have h2 : (ccx.length : Int) + 1 ≤ (cc1.length : Int) + 1 := h2
              simp only [List.length_cons]
              omega

/-- **the value-to-go of a valid state is the length of a longest common subsequence of the suffixes it points at** -/
theorem bestRem_spec {s : St} (hV : Valid ws s) : ∃ c : List Nat, bestRem J s = some (c.length : Int) ∧ IsLcs J ws s c := by
  unfold bestRem
  rw [headD_eq_pos, nbVars_eq hB]
  exact bestRemF_spec hB _ s hV (Nat.le_refl _)

end

-- ------------------------------------------------------------------------------------------------------------------
-- antitonicity, the merge operator

theorem antitone_valid {J : Inst} {ws : List (List Nat)} (hB : Built J ws) {u m : St} (hu : Valid ws u) (hm : Valid ws m)
    (hle : ∀ i, i < ws.length → pos m i ≤ pos u i) : bestRem J u ≤ bestRem J m := by
  obtain ⟨cu, hcu, hu1, hu2, _⟩ := bestRem_spec hB hu
  obtain ⟨cm, hcm, _, _, hm3⟩ := bestRem_spec hB hm
  rw [hcu, hcm]
  have : cu.length ≤ cm.length := hm3 cu hu2 (fun i hi => (hu1 i hi).trans (List.drop_sublist_drop_left _ (hle i hi)))
  show (cu.length : Int) ≤ (cm.length : Int)
  omega

theorem posLe_pointwise {ws : List (List Nat)} {u m : St} (hu : Valid ws u) (hm : Valid ws m) (h : PosLe m u) :
    ∀ i, i < ws.length → pos m i ≤ pos u i := by
  intro i hi
  exact h.2 i _ _ (getElem?_of_valid hm hi) (getElem?_of_valid hu hi)

/-- **`BestRemAntitoneStmt` holds** -/
theorem bestRemAntitone : BestRemAntitoneStmt := by
  intro k declared lines J hJ u m hu hm hle
  have hB := built_of_instOk hJ
  exact antitone_valid hB (valid_of_validB hB hu) (valid_of_validB hB hm)
    (posLe_pointwise (valid_of_validB hB hu) (valid_of_validB hB hm) hle)

theorem foldl_merge_length (I : Inst) : ∀ (X : List St) (acc m : St), acc.length = I.nStrings →
    X.foldlM (mergeStep I) acc = some m → m.length = I.nStrings := by
  intro X
  induction X with
  | nil => intro acc m hacc h; simp only [List.foldlM_nil, pure, Option.some.injEq] at h; rw [← h]; exact hacc
  | cons x t ih =>
    intro acc m _ h
    simp only [List.foldlM_cons, bind, Option.bind] at h
    split at h
    · cases h
    · next acc' hstep => exact ih acc' m (mergeStep_spec I hstep).1 h

/-- the merged state of valid states is valid and position-wise no further than each of them -/
theorem merge_valid {J : Inst} {ws : List (List Nat)} (hB : Built J ws) {X : List St} {m : St}
    (h : merge? J X = some m) : Valid ws m ∧ ∀ u ∈ X, ∀ i, i < ws.length → pos m i ≤ pos u i := by
  have hlen : J.nStrings ≤ J.len.length := by rw [hB.len, hB.nStrings]; simp
  have hl : m.length = ws.length := by
    rw [← hB.nStrings]
    exact foldl_merge_length J X J.len m (by rw [hB.len, hB.nStrings]; simp) (by rw [← merge?_eq]; exact h)
  refine ⟨⟨hl, ?_⟩, ?_⟩
  · intro i hi
    obtain ⟨a, l, h1, h2, h3⟩ := merge_le_len J hlen h (i := i) (by rw [hB.nStrings]; exact hi)
    have : l = (str ws i).length := by
      simp [hB.len, hi] at h2
      simp [str, hi, h2]
    simp only [pos, h1, Option.getD_some]
    omega
  · intro u hu i hi
    obtain ⟨a, b, h1, h2, h3⟩ := merge_le J hlen h hu (i := i) (by rw [hB.nStrings]; exact hi)
    simp only [pos, h1, h2, Option.getD_some]
    exact h3

/-- **`MergeOkStmt` holds** -/
theorem mergeOk : MergeOkStmt := by
  intro k declared lines J hJ X u m src d c hX hu hm
  have hB := built_of_instOk hJ
  obtain ⟨hV, hle⟩ := merge_valid hB hm
  exact mergeOkAt_of_le J c (antitone_valid hB (valid_of_validB hB (hX u hu)) hV (hle u hu))

/-- **`DominanceOkStmt` holds** -/
theorem dominanceOk : DominanceOkStmt := dominanceOk_of_antitone bestRemAntitone

section
variable {J : Inst} {ws : List (List Nat)} (hB : Built J ws)
include hB

theorem valid_len : Valid ws J.len := by
  refine ⟨by rw [hB.len]; simp, ?_⟩
  intro i hi
  simp [pos, str, hB.len, hi]

theorem valid_init : Valid ws (initSt J) := by
  refine ⟨by simp [initSt, hB.nStrings], ?_⟩
  intro i hi
  simp [pos, initSt, hB.nStrings, hi]

end

end Ddo.Examples.LcsModel
