import DdoModel.Dp
import DdoModel.Examples.Psp
/-! The DP model, relaxation and ranking of the shipped psp example (`ddo/examples/psp/{model,ub_utils,io_utils}.rs`) in
    Lean: definitions only (the driver engine `exmodel`, family `psp`, compares them pointwise with the example's own code,
    compiled into the harness; statements about them are in `PspModel.lean`).

Mirror of the Rust code.  MINIMISATION: ddo maximises, every transition cost is MINUS a cost, `initial_value = 0`.
* `io_utils::read_instance` builds, per item `i`, `prev_demands[i][t]` (`t = 0..=horizon`) = the latest period `< t` in which
  `i` is due (`-1`: none), and `rem_demands[i][t]` (`t < horizon`) = the number of units of `i` due in periods `≤ t`;
* TIME GOES BACKWARDS: the state is `(time, next, prev_demands)`; the root has `time = horizon`, `next = -1`,
  `prev_demands[i] = prev_demands[i][horizon]` (the last due date of `i`); `next_variable(depth) = horizon - depth - 1` (for
  `depth < horizon`, whatever the states): the variable `t` decides what the machine produces in period `t`, the periods are
  decided from the last one to the first, and `state.time` = the number of periods still to decide = variable + 1;
  `state.next` = the item produced in the nearest later period with a production (`-1`: none yet — or forgotten by a merge);
  `state.prev_demands[i]` = the due date of the latest unit of `i` that is not produced yet (`-1`: all are);
* `for_each_in_domain(t, s)`: the items `i` (increasing) with `s.prev_demands[i] ≥ t` (a unit that may be produced now: not
  after its due date); `rem = Σ_{i, prev_demands[i] ≥ 0} rem_demands[i][prev_demands[i]]` = the units still to produce; nothing
  at all if `rem > t + 1` (more units than periods left); then `-1` (`IDLE`) if `rem < t + 1`.  The variable is the
  ARGUMENT, `s.time` is not read;
* `transition`: `time - 1` (`usize`: a panic on `time = 0` under overflow checks); for an item `d`: `next := d`,
  `prev_demands[d] := prev_demands[d][s.prev_demands[d]]` (index `-1 as usize`: a panic when nothing of `d` remains);
* `transition_cost = -(changeover[d][s.next] (0 if next = -1) + stocking[d] * (s.prev_demands[d] - t))`, `0` for `IDLE`;
  `t` is the variable of the decision, not `s.time`;
* `merge`: `time` = the least (starting from `horizon`), `next = -1` ALWAYS, `prev_demands` = the pointwise least (starting from
  `isize::MAX`, `zip`: over the common prefix); `relax` = the cost unchanged;
* `fast_upper_bound(s) = -(mst[members(s)] + ww)`: `members` = the bit set of the items with `prev_demands ≥ 0` and of `next`;
  `mst` = `ub_utils::all_mst(changeover)`, a table over all `2^n` subsets — NOT a spanning tree: over the members `a` in
  increasing order that are not `covered` yet, the least `min(q[a][b], q[b][a])` over the other members `b` (first least
  `b` wins) is added, `a` and that `b` become covered; `0` for fewer than two members;  `ww`: for `time = s.time-1 … 0`, every
  item pushes its pending units with due date `≥ time` (`(stocking, due)`) on a max-heap, then the greatest pair (stocking
  cost first, then due date) is popped and `stocking * (time - due)` is ADDED to `ww` — a number `≤ 0`: as shipped, the
  stocking part makes the bound WEAKER than `-mst` (a sign slip, harmless for admissibility; reported);
* `PspRanking::compare` = comparison of `Σ prev_demands`. -/
namespace Ddo.Examples.PspModel
open Ddo Ddo.Examples Ddo.Examples.Util

structure St where
  time : Nat
  next : Int
  pd : List Int
deriving DecidableEq, Repr

def isizeMax : Int := 9223372036854775807

/-- `prev_demands[i]` of `read_instance` for one row of demands: `horizon + 1` entries -/
def prevRow (H : Nat) (row : List Int) : List Int :=
  (List.range H).foldl (fun acc t => acc ++ [if row.getD t 0 > 0 then (t : Int) else acc.getLastD (-1)]) [-1]
/-- `rem_demands[i]` of `read_instance`: `horizon` entries -/
def remRow (H : Nat) (row : List Int) : List Int :=
  (List.range H).foldl (fun acc t => acc ++ [acc.getLastD 0 + row.getD t 0]) []

/-- `ub_utils::mst(members, changeover)`; `members` in increasing order -/
def mstOf (q : List (List Int)) (mem : List Nat) : Int :=
  if mem.length ≤ 1 then 0 else
  let qq := fun (a b : Nat) => (q.getD a []).getD b 0
  (mem.foldl (fun (acc : List Nat × Int) a =>
    if acc.1.contains a then acc else
    let best := mem.foldl (fun (e : Option Int × Nat) b =>
      if a = b then e else
      let ed := min (qq a b) (qq b a)
      match e.1 with
      | none => (some ed, b)        -- `emin = usize::MAX`
      | some m => if ed < m then (some ed, b) else e) (none, a)
    (a :: best.2 :: acc.1, acc.2 + best.1.getD 0)) ([], 0)).2
/-- the members of the bit set `mask` among `0..n` -/
def maskMembers (n mask : Nat) : List Nat := (List.range n).filter (fun k => mask.testBit k)
/-- `ub_utils::all_mst` -/
def allMst (q : List (List Int)) : List Int :=
  (List.range (2 ^ q.length)).map (fun mask => mstOf q (maskMembers q.length mask))

/-- what the model functions need: the `Psp` value built by the reader and the table of `PspRelax::new` -/
structure Tab where
  H : Nat
  n : Nat
  stk : List Int
  chg : List (List Int)
  prevD : List (List Int)
  remD : List (List Int)
  mst : List Int

def tabOf (I : Psp.Inst) : Tab :=
  { H := I.T, n := I.n, stk := I.h, chg := I.q,
    prevD := (List.range I.n).map (fun i => prevRow I.T (I.d.getD i [])),
    remD := (List.range I.n).map (fun i => remRow I.T (I.d.getD i [])),
    mst := allMst I.q }

variable (T : Tab)

def initSt : St :=
  { time := T.H, next := -1, pd := (List.range T.n).map (fun i => (T.prevD.getD i []).getD T.H (-1)) }

def nextVar (depth : Nat) : Option Nat := if depth < T.H then some (T.H - depth - 1) else none

/-- the units still to produce in `s`: `Σ_{i, prev_demands[i] ≥ 0} rem_demands[i][prev_demands[i]]`; `none` = out of range -/
def remOf? (s : St) : Option Int := do
  let rems ← ((List.range T.n).filter (fun i => decide (s.pd.getD i (-1) ≥ 0))).mapM (fun i => (T.remD.getD i [])[(s.pd.getD i 0).toNat]?)
  pure (sum rems)

/-- `for_each_in_domain`; `none` = a panic (`rem_demands[i][prev_demands[i]]` out of range) -/
def domain? (x : Nat) (s : St) : Option (List Int) := do
  let t : Int := x
  let items := List.range T.n
  let dom := items.filter (fun i => decide (s.pd.getD i (-1) ≥ t))
  let rem ← remOf? T s
  if rem > t + 1 then pure []
  else pure (dom.map (fun (i : Nat) => (i : Int)) ++ (if rem < t + 1 then [-1] else []))

/-- `transition`; `none` = a panic (`time - 1` on `usize` 0 under overflow checks — the harness profile, and the debug profile
    the example's tests run in; an index out of range: no such item, nothing of the item left) -/
def trans? (s : St) (d : Dec) : Option St :=
  if s.time = 0 then none
  else if d.val = -1 then some { s with time := s.time - 1 }
  else if d.val < 0 then none
  else
    let i := d.val.toNat
    match s.pd[i]? with
    | none => none
    | some cur =>
      if cur < 0 then none else
      match (T.prevD.getD i [])[cur.toNat]? with
      | none => none
      | some p => some { time := s.time - 1, next := d.val, pd := s.pd.set i p }

/-- `transition_cost`; `none` = a panic (index out of range) -/
def cost? (s : St) (d : Dec) : Option Int :=
  if d.val = -1 then some 0
  else if d.val < 0 then none
  else
    let i := d.val.toNat
    match s.pd[i]?, T.stk[i]? with
    | some cur, some h =>
      let stocking := h * (cur - (d.var : Int))
      if s.next = -1 then some (-(0 + stocking))
      else if s.next < 0 then none
      else match (T.chg.getD i [])[s.next.toNat]? with
        | some c => some (-(c + stocking))
        | none => none
    | _, _ => none

def trans (s : St) (d : Dec) : St := (trans? T s d).getD s
def cost (s : St) (d : Dec) : Int := (cost? T s d).getD 0
def domain (x : Nat) (s : St) : List Int := (domain? T x s).getD []

def problem : Problem St :=
  { nbVars := T.H
    init := initSt T
    initVal := 0
    trans := trans T
    cost := fun s _ d => cost T s d
    nextVar := fun depth _ => nextVar T depth
    domain := domain T
    impacted := fun _ _ => true }

/-- the `zip` of `merge`: pointwise least over the common prefix -/
def minZip : List Int → List Int → List Int
  | a :: as, b :: bs => min b a :: minZip as bs
  | as, [] => as
  | [], _ => []

/-- `PspRelax::merge`: `next` is ALWAYS `-1` -/
def mergeStates (states : List St) : St :=
  { time := states.foldl (fun t s => min t s.time) T.H
    next := -1
    pd := states.foldl (fun acc s => minZip acc s.pd) (List.replicate T.n isizeMax) }

/-- `PspRelax::members` as the index in the table; `none` = `next as usize` is no bit of a `Set32` -/
def memberMask? (s : St) : Option Nat :=
  if s.next < -1 ∨ s.next ≥ 32 then none else
  let base := (List.range s.pd.length).filter (fun i => decide (s.pd.getD i (-1) ≥ 0))
  let mem := if s.next ≥ 0 ∧ ¬ base.contains s.next.toNat then base ++ [s.next.toNat] else base
  some (mem.foldl (fun m i => m + 2 ^ i) 0)

/-- the greatest pair of the heap (stocking cost, then due date) and the rest -/
def popMax : List (Int × Int) → Option ((Int × Int) × List (Int × Int))
  | [] => none
  | x :: r =>
    let m := r.foldl (fun m y => if m.1 < y.1 ∨ (m.1 = y.1 ∧ m.2 < y.2) then y else m) x
    some (m, (x :: r).erase m)

/-- the `while` loop of the bound for item `i` at `time`: pending units with due date `≥ time` go on the heap -/
def drain (i : Nat) (time : Int) : Nat → Int → List (Int × Int) → Option (Int × List (Int × Int))
  | 0, d, hp => some (d, hp)
  | f + 1, d, hp =>
    if d ≥ time then
      match (T.prevD.getD i [])[d.toNat]? with
      | none => none
      | some d' => drain i time f d' ((T.stk.getD i 0, d) :: hp)
    else some (d, hp)
def drainAll (time : Int) : Nat → List Int → List (Int × Int) → Option (List Int × List (Int × Int))
  | _, [], hp => some ([], hp)
  | i, d :: ds, hp =>
    match drain T i time (T.H + 2) d hp with
    | none => none
    | some (d', hp') =>
      match drainAll time (i + 1) ds hp' with
      | none => none
      | some (ds', hp'') => some (d' :: ds', hp'')
/-- the outer loop, `time = k - 1 … 0`; the result is `ww` -/
def wwLoop : Nat → List Int → List (Int × Int) → Int → Option Int
  | 0, _, _, ww => some ww
  | t + 1, pd, hp, ww =>
    match drainAll T (t : Int) 0 pd hp with
    | none => none
    | some (pd', hp') =>
      match popMax hp' with
      | some ((c, due), hp'') => wwLoop t pd' hp'' (ww + c * ((t : Int) - due))
      | none => wwLoop t pd' hp' ww

/-- `fast_upper_bound`; `none` = a panic -/
def rub? (s : St) : Option Int := do
  let mask ← memberMask? s
  let co ← T.mst[mask]?
  let ww ← wwLoop T s.time s.pd [] 0
  pure (-(co + ww))

def relaxation : Relax St :=
  { merge := mergeStates T
    relax := fun _ _ _ _ c => c
    rub := fun s => (rub? T s).getD 0 }

/-- `PspRanking::compare` -/
def rank (s : St) : Int := sum s.pd
def rankCmp (a b : St) : Ordering := compare (rank a) (rank b)

-- ------------------------------------------------------------------------------------------------------------------
-- what the driver evaluates pointwise (exhaustive enumeration over the remaining periods with the model's own functions)

/-- the value-to-go of `s`: the best total transition cost over ALL completions of `s` (every sequence of decisions, each
    in the domain of the variable `time - 1` of the state reached, down to `time = 0`); `none` = −∞, no completion.
    `fuel ≥ s.time`. -/
def bestRemF : Nat → St → EInt
  | 0, _ => some 0
  | fuel + 1, s =>
    if s.time = 0 then some 0 else
    let x := s.time - 1
    (domain T x s).foldl (fun acc v => EInt.max acc ((bestRemF fuel (trans T s ⟨x, v⟩)).addI (cost T s ⟨x, v⟩))) none
def bestRem (s : St) : EInt := bestRemF T s.time s

/-- the layer-validity predicate (`V` of `WfRel`), decided: no more units to produce than periods left.  It holds at the
    root of every instance with a non-empty root domain, and is kept by transitions on decisions of the domain and by merges;
    the states that violate it have no completion, except the terminal ones (`time = 0`, something still to produce), which
    no compilation can build. -/
def validB (s : St) : Bool := match remOf? T s with | some r => decide (r ≤ (s.time : Int)) | none => false

/-- `RubOk` at one state: the bound `r` claimed for `s` dominates the value-to-go -/
def rubOkAt (s : St) (r : Int) : Bool := decide (bestRem T s ≤ some r)

/-- `MergeOk` (potential form, `Wf.lean`) at one merged-away state `u`, merged state `m`, arc cost `c` relaxed to `r`:
    if `u` has a completion worth `h` then `m` has one worth `h'` with `c + h ≤ r + h'` -/
def mergeOkAt (u m : St) (c r : Int) : Bool :=
  match bestRem T u with
  | none => true
  | some h =>
    match bestRem T m with
    | none => false
    | some h' => decide (c + h ≤ r + h')

/-- the triangle inequality on the changeover costs (equal indices included): the setting of the problem (CSPLib 058), and
    what the min-merge needs (dropping a production from a sequence must not cost) -/
def triangleB : Bool :=
  let items := List.range T.n
  let qq := fun (a b : Nat) => (T.chg.getD a []).getD b 0
  items.all fun a => items.all fun b => items.all fun c => decide (qq a c ≤ qq a b + qq b c)

-- ------------------------------------------------------------------------------------------------------------------
-- the independent specification (`Psp.lean`), tabulated once per instance

/-- all FEASIBLE plans with their cost, by the specification's own `feasible`, `stockingCost`, `changeoverCost`, in the
    order `Psp.best` enumerates them (`PspModel.best_eq_table`: `Psp.best` is the least cost of this table, `-1` if empty) -/
def specTable (I : Psp.Inst) : List (Psp.Plan × Int) :=
  let dom : List (Option Nat) := none :: (List.range I.n).map some
  (tuples dom I.T).filterMap fun p =>
    if Psp.feasible I p then some (p, Psp.stockingCost I p + Psp.changeoverCost I (p.filterMap id)) else none

/-- the plan entry of a decision value -/
def planEntry (v : Int) : Option Nat := if v < 0 then none else some v.toNat

/-- does the plan (indexed by period) extend the decisions `decs` taken for the periods `T-1, T-2, …` -/
def extends_ (p : Psp.Plan) (decs : List Int) : Bool :=
  (p.reverse.take decs.length) == decs.map planEntry

/-- the specification's least cost among the feasible plans extending the prefix; `none` = there is none -/
def specBestExt (tbl : List (Psp.Plan × Int)) (decs : List Int) : Option Int :=
  minOf ((tbl.filter (fun e => extends_ e.1 decs)).map (·.2))

end Ddo.Examples.PspModel
