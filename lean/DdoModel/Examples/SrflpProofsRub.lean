import DdoModel.Examples.SrflpProofsRubDefs
import DdoModel.Examples.SrflpProofsMerge
import DdoModel.Examples.SrflpProofsExact
/-! The rough upper bound of the srflp example on EXACT states (`maybe_place = None`): glue.
    * `pathCost_eq`: the cost of a completion is `-(Σ cut_j · (lengths before j) + Σ_{i<t<j} l_t f_ij)`;
    * `bestRemF_le_paths`: the value-to-go of an exact state is at most the best completion. -/
namespace Ddo.Examples.SrflpModel
open Ddo Ddo.Examples Ddo.Examples.Util Ddo.SpecUtil

variable (T : Tab)

theorem sum_map_add' (w v w' : Nat → Int) : ∀ r : List Nat, (∀ j ∈ r, w' j = w j + v j) →
    (r.map w').sum = (r.map w).sum + (r.map v).sum := by
  intro r
  induction r with
  | nil => intro _; simp
  | cons a r ih =>
    intro h
    have := ih (fun j hj => h j (List.mem_cons_of_mem _ hj))
    have := h a List.mem_cons_self
    simp only [List.map_cons, List.sum_cons]
    omega

theorem aft_congr_add (l w v w' : Nat → Int) : ∀ r : List Nat, (∀ j ∈ r, w' j = w j + v j) →
    aft l w' r = aft l w r + aft l v r := by
  intro r
  induction r with
  | nil => intro _; simp [aft]
  | cons a r ih =>
    intro h
    have h1 := ih (fun j hj => h j (List.mem_cons_of_mem _ hj))
    have h2 := sum_map_add' w v w' r (fun j hj => h j (List.mem_cons_of_mem _ hj))
    simp only [aft, h1, h2, Int.mul_add]
    omega

theorem wct_map (l w : Nat → Int) : ∀ (q : List Nat) (B : Int),
    wct B (q.map fun j => (l j, w j)) = B * (q.map w).sum + aft l w q := by
  intro q
  induction q with
  | nil => intro B; simp [aft]
  | cons t r ih =>
    intro B
    simp only [List.map_cons, wct, ih, aft, List.sum_cons]
    grind

theorem aft_eq_wct (l w : Nat → Int) (q : List Nat) : aft l w q = wct 0 (q.map fun j => (l j, w j)) := by
  rw [wct_map]; simp

/-- the remaining free departments after placing `i`, for an order `i :: r` of the free departments -/
theorem perm_filter_of_cons {i : Nat} {r must : List Nat} (hnd : must.Nodup) (hp : (i :: r).Perm must) :
    r.Perm (must.filter (· ≠ i)) := by
  have : must.filter (· ≠ i) = must.erase i := by
    rw [hnd.erase_eq_filter]
    apply List.filter_congr
    intro x _
    by_cases hx : x = i <;> simp [hx]
  rw [this]
  have := hp.erase i
  simpa using this

theorem mem_domain_must {s : St} (hG : Good T s) (_hm : s.maybe = none) {i : Nat} (hi : i ∈ s.must) : (i : Int) ∈ domain T s :=
  (mem_domain T hG _).mpr ⟨i, rfl, Or.inl hi⟩

/-- the cost of a completion of an exact state, as explicit sums -/
theorem pathCost_eq (hI : Inst T) : ∀ (q : List Nat) (s : St), Good T s → s.maybe = none → q.Perm s.must →
    -(pathCost T s q) = aft (lenOf T) (cutAt s) q + edgeCost (lenOf T) (flow T) q := by
  intro q
  induction q with
  | nil => intro s _ _ _; simp [pathCost, aft, edgeCost]
  | cons i r ih =>
    intro s hG hm hp
    have hnd : s.must.Nodup := pairwise_lt_nodup hG.must_sorted
    have him : i ∈ s.must := hp.mem_iff.mp List.mem_cons_self
    have hid := mem_domain_must T hG hm him
    have hr := perm_filter_of_cons hnd hp
    have hndq : (i :: r).Nodup := hp.nodup_iff.mpr hnd
    have hir : i ∉ r := (List.nodup_cons.mp hndq).1
    have hG' := good_step T hI hG hid
    have h1 := ih (stepSt T s i) hG' (stepSt_exact T hm i) (by rw [stepSt_must]; exact hr)
    have hcut : ∀ j ∈ r, cutAt (stepSt T s i) j = cutAt s j + flow T i j := by
      intro j hj
      have hjm : j ∈ s.must := hp.mem_iff.mp (List.mem_cons_of_mem _ hj)
      have hji : j ≠ i := fun e => hir (e ▸ hj)
      rw [cutAt_step T hG, if_neg hji, if_pos (Or.inl hjm)]
    rw [aft_congr_add (lenOf T) (cutAt s) (flow T i) _ r hcut] at h1
    have hc := cost_nat T hI hG hid s.depth
    rw [mbOf_exact hm] at hc
    simp only [List.filter_nil, List.map_nil, leastSum_nil, Int.add_zero] at hc
    have hs : sum ((s.must.filter (· ≠ i)).map (cutAt s)) = (r.map (cutAt s)).sum := by
      rw [sum_eq]
      exact perm_sum_eq (hr.symm.map _)
    rw [hs] at hc
    simp only [pathCost, aft, edgeCost, hc]
    rw [Int.neg_add, h1]
    generalize (r.map (cutAt s)).sum = A
    generalize lenOf T i = L
    have : -(-A * L) = L * A := by rw [Int.neg_mul, Int.neg_neg, Int.mul_comm]
    omega

/-- the value-to-go of an exact state is at most the best completion -/
theorem bestRemF_le_paths (h64 : T.n ≤ 64) (hI : Inst T) : ∀ (fuel : Nat) (s : St) (b : Int), Good T s → s.maybe = none →
    s.must.length = fuel → (∀ q, q.Perm s.must → pathCost T s q ≤ b) → bestRemF T fuel s ≤ some b := by
  intro fuel
  induction fuel with
  | zero =>
    intro s b _ _ hl hq
    have : s.must = [] := List.eq_nil_of_length_eq_zero hl
    have := hq [] (by rw [this])
    simp only [pathCost] at this
    simpa [bestRemF] using this
  | succ fuel ih =>
    intro s b hG hm hl hq
    have hd : s.depth < T.n := by
      have := hG.must_le
      omega
    rw [bestRemF_succ T fuel s hd]
    apply foldl_emax_le _ _ _ _ (EInt.none_le _)
    intro v hv
    obtain ⟨i, rfl, hi⟩ := (mem_domain T hG v).mp hv
    rw [mbOf_exact hm] at hi
    have him : i ∈ s.must := by
      rcases hi with h | ⟨_, h⟩
      · exact h
      · cases h
    have hin := (domain_lt T hG hv).1
    rw [trans_nat T s s.depth i (by rw [hG.cut_len]; exact hin) (by omega)]
    have hnd : s.must.Nodup := pairwise_lt_nodup hG.must_sorted
    have hlen : (stepSt T s i).must.length = fuel := by
      rw [stepSt_must]
      have : s.must.filter (· ≠ i) = s.must.erase i := by
        rw [hnd.erase_eq_filter]
        apply List.filter_congr
        intro x _
        by_cases hx : x = i <;> simp [hx]
      rw [this, List.length_erase_of_mem him]
      omega
    have h1 := ih (stepSt T s i) (b - cost T s ⟨s.depth, (i : Int)⟩) (good_step T hI hG hv) (stepSt_exact T hm i) hlen (by
      intro q hq'
      have hp : (i :: q).Perm s.must := by
        rw [stepSt_must] at hq'
        have : s.must.filter (· ≠ i) = s.must.erase i := by
          rw [hnd.erase_eq_filter]
          apply List.filter_congr
          intro x _
          by_cases hx : x = i <;> simp [hx]
        rw [this] at hq'
        exact (hq'.cons i).trans (List.perm_cons_erase him).symm
      have := hq (i :: q) hp
      simp only [pathCost] at this
      omega)
    revert h1
    generalize bestRemF T fuel (stepSt T s i) = e
    cases e <;> simp [EInt.addI]
    omega

end Ddo.Examples.SrflpModel
