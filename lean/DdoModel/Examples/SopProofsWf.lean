import DdoModel.Proofs.MddCoverRel
import DdoModel.Examples.SopProofsConc
/-! The sop model (repaired `can_schedule` / `transition`, D12) is well-formed relative to valid layers (`Ddo.WfRelV`), with
    the potential `hStar` (`SopProofsConc.lean`: the best value-to-go among the exact states a merged state stands for).

* `nextVar_some`, `ptrans_eq`, `pcost_eq`: the fields of `problem T` on decisions of the domain;
* `V`: layer validity (`Inv`, stored depth = layer, the last job still mandatory before the last layer, every pending job can
  follow one of the previous jobs); `v_init`, `v_succ`, `v_merge`: it holds at the root and is closed under the transitions
  of the domain and under `merge`;
* `inv_conc`, `inDom_conc`, `conc_succ`, `mdist_conc`, `conc_merge`: the exact states a state stands for (`Conc`) — every
  decision of an exact state is a decision of the state that stands for it, the successors correspond, the arc of the merged
  side is at least as good, and `merge X` stands for everything its members stand for;
* `bestRemF_le_zero`: a value-to-go is a negated length;
* `noClamp`: `NoClampRel` from a bound `B0` on the distances;
* `att_hStar`, `merge_hStar`, `hStar_le_zero`: the clauses of `WfRelV` for the potential;
* `wfRelV_of_rub`: the `WfRelV` instance, from the admissibility of the rough upper bound on the exact states a valid state
  stands for; `hStar_init`, `sop_relaxed_ub_of`: the relaxed-diagram corollary (`CoverRel.relaxed_ub_rel_valid`). -/
namespace Ddo.Examples.SopModel
open Ddo Ddo.Examples Ddo.Examples.Util

variable {T : Tab}

-- ------------------------------------------------------------------------------------------------------------------
-- 1. the fields of `problem T`

theorem nextVar_some {k : Nat} {L : List St} {x : Nat} (h : (problem T).nextVar k L = some x) : k < nv T ∧ x = k := by
  have h' : nextVar T k = some x := h
  unfold nextVar at h'
  split at h'
  · rename_i hk
    simp only [Option.some.injEq] at h'
    exact ⟨hk, h'.symm⟩
  · cases h'

theorem nextVar_iff (k : Nat) (L : List St) (x : Nat) : (problem T).nextVar k L = some x ↔ k < nv T ∧ x = k := by
  constructor
  · exact nextVar_some
  · rintro ⟨hk, rfl⟩
    show nextVar T x = some x
    unfold nextVar
    rw [if_pos hk]

theorem nextVar_none {k : Nat} {L : List St} (h : (problem T).nextVar k L = none) : nv T ≤ k := by
  have h' : nextVar T k = none := h
  unfold nextVar at h'
  split at h'
  · cases h'
  · omega

theorem ptrans_eq (hT : TabOk T) (s : St) {j : Nat} (hj : j < T.n) (x : Nat) :
    (problem T).trans s ⟨x, (j : Int)⟩ = succSt T s j := by
  show (trans? T s ⟨x, (j : Int)⟩).getD s = _
  rw [trans?_eq hT s hj]
  rfl

theorem pcost_eq (hT : TabOk T) {s : St} (hs : Inv T s) {j : Nat} (hj : j < T.n) (x : Nat) (s2 : St) :
    (problem T).cost s s2 ⟨x, (j : Int)⟩ = -mdist T s j := by
  show (cost? T s ⟨x, (j : Int)⟩).getD 0 = _
  rw [cost?_eq hT hs.prev_lt hj]
  rfl

theorem pdomain_eq (x : Nat) (s : St) : (problem T).domain x s = domain T s := rfl

-- ------------------------------------------------------------------------------------------------------------------
-- 2. layer validity

/-- the potential, whatever the layer -/
def H (T : Tab) : Nat → St → EInt := fun _ s => hStar T s

/-- layer validity: the invariant, the depth, the last job is still mandatory before the last layer, and every job pending
    can follow one of the previous jobs (the invariant the repaired `transition` maintains) -/
def V (T : Tab) : Nat → St → Prop := fun k s => Inv T s ∧ s.depth = k ∧
  (k < nv T → s.must.testBit (T.n - 1) = true) ∧
  (k < nv T → ∀ x, (s.must.testBit x = true ∨ (mb s).testBit x = true) → ∃ p, isPrev s p ∧ dfun T p x ≠ -1)

theorem mb_of_none {s : St} (h : s.maybe = none) : mb s = 0 := by simp [mb, h]
theorem mb_of_some {s : St} {y : Nat} (h : s.maybe = some y) : mb s = y := by simp [mb, h]

theorem card_eq_zero {m : Nat} (h : card m = 0) (x : Nat) : m.testBit x = false := by
  cases hb : m.testBit x with
  | false => rfl
  | true =>
    have hx := mem_bits.mpr hb
    have : bits m = [] := List.eq_nil_of_length_eq_zero h
    rw [this] at hx
    cases hx

/-- the count of `can_schedule`, whether there is a `maybe_schedule` set or not -/
theorem canB_count {s : St} (hs : Inv T s) {j : Nat} (hcan : canB T s j = true) :
    nv T - s.depth ≤ card s.must + card (diff (mb s) (predOf T j)) := by
  obtain ⟨_, hc2⟩ := (canB_iff s j).mp hcan
  cases hm : s.maybe with
  | none =>
    have hc := hs.count
    rw [mb_of_none hm, card_zero] at hc
    omega
  | some y =>
    rw [mb_of_some hm]
    exact hc2 y hm

/-- before the last variable the last job is not in the domain of a state in which it is mandatory: all the other jobs
    are its predecessors -/
theorem inDom_ne_last (hT : TabOk T) (hD : DomOk T) {s : St} (hs : Inv T s) (hlast : s.must.testBit (T.n - 1) = true)
    (hd : s.depth + 1 < nv T) {j : Nat} (hj : InDom T s j) : j ≠ T.n - 1 := by
  intro hjl
  subst hjl
  unfold InDom at hj
  have hl : ¬ s.depth = T.n - 2 := by unfold nv at hd; omega
  rw [if_neg hl] at hj
  obtain ⟨_, hcan⟩ := hj
  have hcnt := canB_count hs hcan
  obtain ⟨hc1, _⟩ := (canB_iff s (T.n - 1)).mp hcan
  have hn : T.n - 1 < T.n := by have := hT.n_pos; omega
  have hpred : ∀ x, x < T.n - 1 → (predOf T (T.n - 1)).testBit x = true := by
    intro x hx
    exact (hT.pred_spec (T.n - 1) x hn).mpr ⟨by omega, hD.last_row x hx⟩
  have h1 : card s.must ≤ 1 := by
    rw [← card_single (T.n - 1)]
    apply card_mono
    intro x hx
    rw [testBit_single]
    have hx2 := (hs.must_lt x hx).2
    by_cases hxl : x < T.n - 1
    · rw [hc1 x (hpred x hxl)] at hx; cases hx
    · simp; omega
  have h2 : card (diff (mb s) (predOf T (T.n - 1))) = 0 := by
    have : diff (mb s) (predOf T (T.n - 1)) = 0 := by
      apply eq_zero_of_testBit
      intro x
      rw [testBit_diff]
      cases hmx : (mb s).testBit x with
      | false => rfl
      | true =>
        have hx2 := (hs.maybe_lt x hmx).2
        by_cases hxl : x < T.n - 1
        · rw [hpred x hxl]; rfl
        · have : x = T.n - 1 := by omega
          subst this
          rw [hs.disj _ hlast] at hmx
          cases hmx
    rw [this, card_zero]
  omega

theorem v_succ (hT : TabOk T) (hD : DomOk T) {k : Nat} {s : St} (hV : V T k s) (hk : k < nv T) {j : Nat}
    (hj : InDom T s j) : V T (k + 1) (succSt T s j) := by
  obtain ⟨hs, hdep, hlast, hfol⟩ := hV
  have hd : s.depth < nv T := by omega
  have hjn := hj.lt hT hs
  refine ⟨inv_succ hT hs hd hj, by show s.depth + 1 = k + 1; omega, ?_, ?_⟩
  · intro hk1
    have hne := inDom_ne_last hT hD hs (hlast hk) (by omega) hj
    show (diff s.must (single j)).testBit (T.n - 1) = true
    rw [testBit_diff, hlast hk, testBit_single]
    simp [hne]
  · intro hk1 x hx
    have hl : ¬ s.depth = T.n - 2 := by unfold nv at hk1; omega
    unfold InDom at hj
    rw [if_neg hl] at hj
    obtain ⟨hc1, _⟩ := (canB_iff s j).mp hj.2
    refine ⟨j, rfl, ?_⟩
    have hxp : (predOf T j).testBit x = false ∧ x < T.n := by
      rcases hx with hx | hx
      · have hx' : (diff s.must (single j)).testBit x = true := hx
        rw [testBit_diff] at hx'
        simp only [Bool.and_eq_true] at hx'
        refine ⟨?_, (hs.must_lt x hx'.1).2⟩
        cases hp : (predOf T j).testBit x with
        | false => rfl
        | true => rw [hc1 x hp] at hx'; exact absurd hx'.1 (by simp)
      · rw [mb_succSt, testBit_diff, testBit_diff] at hx
        simp only [Bool.and_eq_true, Bool.not_eq_true'] at hx
        exact ⟨hx.2, (hs.maybe_lt x hx.1.1).2⟩
    intro hdx
    have := (hT.pred_spec j x hjn).mpr ⟨hxp.2, hdx⟩
    rw [hxp.1] at this
    cases this

theorem v_merge (hT : TabOk T) {k : Nat} {X : List St} (hne : X ≠ []) (hX : ∀ u ∈ X, V T k u) : V T k (merge X) := by
  obtain ⟨u, hu⟩ := List.exists_mem_of_ne_nil _ hne
  have hX' : ∀ s ∈ X, Inv T s ∧ s.depth = u.depth := fun s hs => ⟨(hX s hs).1, by rw [(hX s hs).2.1, (hX u hu).2.1]⟩
  refine ⟨inv_merge X hu hX', merge_depth X k hne (fun s hs => (hX s hs).2.1), ?_, ?_⟩
  · intro hk
    refine (merge_must X _).mpr ⟨by have := hT.n_le; omega, fun s hs => (hX s hs).2.2.1 hk⟩
  · intro hk x hx
    have : ∃ s ∈ X, s.must.testBit x = true ∨ (mb s).testBit x = true := by
      rcases hx with hx | hx
      · exact ⟨u, hu, Or.inl (((merge_must X x).mp hx).2 u hu)⟩
      · exact ((merge_mb X x).mp hx).1
    obtain ⟨s, hs, hsx⟩ := this
    obtain ⟨p, hp, hpd⟩ := (hX s hs).2.2.2 hk x hsx
    exact ⟨p, (merge_isPrev X p).mpr ⟨s, hs, hp⟩, hpd⟩

theorem initSt_must (T : Tab) : (initSt T).must = allJobs T.n := rfl

theorem inv_init (hT : TabOk T) : Inv T (initSt T) := by
  have hmb : mb (initSt T) = 0 := rfl
  refine ⟨Nat.zero_le _, ?_, ?_, ?_, ?_, ?_⟩
  · intro x hx
    rw [initSt_must, testBit_allJobs] at hx
    simpa using hx
  · intro x hx
    rw [hmb, Nat.zero_testBit] at hx; cases hx
  · intro x _
    rw [hmb, Nat.zero_testBit]
  · intro p hp
    have : p = 0 := hp
    have := hT.n_pos
    omega
  · rw [hmb, card_zero]
    show nv T - 0 ≤ card (ofList ((List.range T.n).drop 1)) + 0
    rw [card_ofList _ (List.Nodup.sublist (List.drop_sublist 1 _) List.nodup_range), List.length_drop, List.length_range]
    unfold nv
    omega

theorem v_init (hT : TabOk T) (hD : DomOk T) : V T 0 (initSt T) := by
  refine ⟨inv_init hT, rfl, ?_, ?_⟩
  · intro hk
    rw [initSt_must, testBit_allJobs]
    unfold nv at hk
    simp only [decide_eq_true_eq]
    omega
  · intro _ x hx
    have hmb : mb (initSt T) = 0 := rfl
    rw [hmb, Nat.zero_testBit, initSt_must, testBit_allJobs] at hx
    have hx' : 0 < x ∧ x < T.n := by simpa using hx
    refine ⟨0, rfl, ?_⟩
    have := hD.first_row x hx'.1 hx'.2
    omega

-- ------------------------------------------------------------------------------------------------------------------
-- 3. the exact states a state stands for

theorem isPrev_conc {s u : St} (hc : Conc T s u) {q : Nat} (hq : isPrev u q) : isPrev s q := by
  obtain ⟨p, hp, hip, _⟩ := hc.prev
  unfold isPrev at hq
  rw [hp] at hq
  have : q = p := hq
  rw [this]; exact hip

theorem inv_conc {s u : St} (hs : Inv T s) (hc : Conc T s u) : Inv T u := by
  have hmb : mb u = 0 := mb_of_none hc.maybe
  refine ⟨by rw [hc.depth]; exact hs.depth_le, ?_, ?_, ?_, ?_, ?_⟩
  · intro x hx
    rcases hc.hi x hx with h | h
    · exact hs.must_lt x h
    · exact hs.maybe_lt x h
  · intro x hx
    rw [hmb, Nat.zero_testBit] at hx; cases hx
  · intro x _
    rw [hmb, Nat.zero_testBit]
  · intro q hq
    exact hs.prev_lt q (isPrev_conc hc hq)
  · rw [hc.depth, hc.card]
    omega

/-- every decision of an exact state is a decision of the state that stands for it -/
theorem inDom_conc {s u : St} (_hs : Inv T s) (hc : Conc T s u) {j : Nat} (hj : InDom T u j) : InDom T s j := by
  have hmb : mb u = 0 := mb_of_none hc.maybe
  unfold InDom at hj ⊢
  rw [hc.depth] at hj
  split
  · rename_i hl; rw [if_pos hl] at hj; exact hj
  · rename_i hl
    rw [if_neg hl] at hj
    obtain ⟨hmem, hcan⟩ := hj
    have hju : u.must.testBit j = true := by
      rcases hmem with h | h
      · exact h
      · rw [hmb, Nat.zero_testBit] at h; cases h
    obtain ⟨hc1, _⟩ := (canB_iff u j).mp hcan
    have hnp : ∀ x, u.must.testBit x = true → (predOf T j).testBit x = false := by
      intro x hx
      cases hp : (predOf T j).testBit x with
      | false => rfl
      | true => rw [hc1 x hp] at hx; cases hx
    refine ⟨hc.hi j hju, (canB_iff s j).mpr ⟨?_, ?_⟩⟩
    · intro x hx
      cases hsx : s.must.testBit x with
      | false => rfl
      | true => rw [hnp x (hc.lo x hsx)] at hx; cases hx
    · intro y hy
      have hyb : mb s = y := mb_of_some hy
      have hsub : card u.must ≤ card (s.must ||| diff y (predOf T j)) := by
        apply card_mono
        intro x hx
        rw [Nat.testBit_or, Bool.or_eq_true]
        rcases hc.hi x hx with h | h
        · exact Or.inl h
        · right; rw [testBit_diff, ← hyb, h, hnp x hx]; rfl
      have hle := card_union_le s.must (diff y (predOf T j))
      have := hc.card
      omega

/-- the arc of the state that stands for an exact state is at least as good -/
theorem mdist_conc (hT : TabOk T) {s u : St} (hs : Inv T s) (hc : Conc T s u) {j : Nat} (hj : j < T.n) :
    mdist T s j ≤ mdist T u j := by
  have hu := inv_conc hs hc
  obtain ⟨_, _, _, h4⟩ := mdist_spec hT hu.prev_lt hj
  obtain ⟨_, g2, g3, _⟩ := mdist_spec hT hs.prev_lt hj
  rcases h4 with h4 | ⟨p, hp, hne, h4⟩
  · rw [h4]; exact g2
  · have := g3 p (isPrev_conc hc hp)
    unfold dI at this
    rw [if_neg hne] at this
    rw [h4]; exact this

/-- the successors correspond -/
theorem conc_succ {k : Nat} {s u : St} (hV : V T k s) (hk : k < nv T) (hc : Conc T s u) {j : Nat} (hj : InDom T u j) :
    Conc T (succSt T s j) (succSt T u j) := by
  obtain ⟨hs, hdep, hlast, _⟩ := hV
  have hmb : mb u = 0 := mb_of_none hc.maybe
  have hcard := hc.card
  -- `j` is one of the jobs of `u`, and no other job of `u` is a predecessor of `j`
  have hkey : u.must.testBit j = true ∧ ∀ x, u.must.testBit x = true → x ≠ j → (predOf T j).testBit x = false := by
    unfold InDom at hj
    rw [hc.depth] at hj
    by_cases hl : s.depth = T.n - 2
    · rw [if_pos hl] at hj
      subst hj
      have hjl := hc.lo _ (hlast hk)
      refine ⟨hjl, ?_⟩
      intro x hx hne
      have h1 := card_diff_single hjl
      have h0 : card (diff u.must (single (T.n - 1))) = 0 := by unfold nv at hcard hk; omega
      have := card_eq_zero h0 x
      rw [testBit_diff, hx, testBit_single] at this
      have hne' : ¬ T.n - 1 = x := fun e => hne e.symm
      simp [hne'] at this
    · rw [if_neg hl] at hj
      obtain ⟨hmem, hcan⟩ := hj
      obtain ⟨hc1, _⟩ := (canB_iff u j).mp hcan
      refine ⟨?_, ?_⟩
      · rcases hmem with h | h
        · exact h
        · rw [hmb, Nat.zero_testBit] at h; cases h
      · intro x hx _
        cases hp : (predOf T j).testBit x with
        | false => rfl
        | true => rw [hc1 x hp] at hx; cases hx
  obtain ⟨hju, hnp⟩ := hkey
  refine ⟨⟨j, rfl, rfl, ?_⟩, ?_, ?_, ?_, ?_, ?_⟩
  · show (diff u.must (single j)).testBit j = false
    rw [testBit_diff, testBit_single]; simp
  · show u.maybe.map _ = none
    rw [hc.maybe]; rfl
  · show u.depth + 1 = s.depth + 1
    rw [hc.depth]
  · intro x hx
    have hx' : (diff s.must (single j)).testBit x = true := hx
    show (diff u.must (single j)).testBit x = true
    rw [testBit_diff] at hx' ⊢
    simp only [Bool.and_eq_true] at hx' ⊢
    exact ⟨hc.lo x hx'.1, hx'.2⟩
  · intro x hx
    have hx' : (diff u.must (single j)).testBit x = true := hx
    rw [mb_succSt]
    show (diff s.must (single j)).testBit x = true ∨ _
    rw [testBit_diff, testBit_single] at hx'
    simp only [Bool.and_eq_true, Bool.not_eq_true', decide_eq_false_iff_not] at hx'
    have hxj : x ≠ j := fun e => hx'.2 e.symm
    simp only [testBit_diff, testBit_single]
    rcases hc.hi x hx'.1 with h | h
    · left; simp [h, hx'.2]
    · right; simp [h, hx'.2, hnp x hx'.1 hxj]
  · show card (diff u.must (single j)) = nv T - (s.depth + 1)
    have := card_diff_single hju
    omega

/-- `merge X` stands for everything its members stand for -/
theorem conc_merge {X : List St} {u w : St} (hu : u ∈ X) (hX : ∀ s ∈ X, Inv T s ∧ s.depth = u.depth)
    (hc : Conc T u w) : Conc T (merge X) w := by
  have hd := merge_depth X u.depth (List.ne_nil_of_mem hu) (fun s hs => (hX s hs).2)
  obtain ⟨p, hp, hip, hwp⟩ := hc.prev
  refine ⟨⟨p, hp, (merge_isPrev X p).mpr ⟨u, hu, hip⟩, hwp⟩, hc.maybe, by rw [hd]; exact hc.depth, ?_, ?_, ?_⟩
  · intro x hx
    exact hc.lo x (((merge_must X x).mp hx).2 u hu)
  · intro x hx
    exact merge_pend X hu x (hc.hi x hx)
  · rw [hd]; exact hc.card

-- ------------------------------------------------------------------------------------------------------------------
-- 4. a value-to-go is a negated length

theorem mdist_nonneg (hT : TabOk T) {s : St} (hs : Inv T s) {j : Nat} (hj : j < T.n) : 0 ≤ mdist T s j := by
  obtain ⟨h1, _, _, h4⟩ := mdist_spec hT hs.prev_lt hj
  rcases h4 with h4 | ⟨p, hp, hne, h4⟩
  · rw [h4]; simp [imax]
  · rw [h4] at h1 ⊢
    omega

theorem bestRemF_le_zero (hT : TabOk T) : ∀ (fuel : Nat) (s : St) (h : Int), Inv T s →
    bestRemF T .code fuel s = some h → h ≤ 0 := by
  intro fuel
  induction fuel with
  | zero =>
    intro s h _ hh
    have : (some 0 : EInt) = some h := hh
    cases this
    exact Int.le_refl _
  | succ f ih =>
    intro s h hs hh
    by_cases hd : nv T ≤ s.depth
    · rw [bestRemF_done _ s hd] at hh
      cases hh
      exact Int.le_refl _
    · have hd' : s.depth < nv T := by omega
      obtain ⟨j, hj, h', hh', he⟩ := bestRemF_att hT hs hd' f hh
      have h1 := ih _ _ (inv_succ hT hs hd' hj) hh'
      have h2 := mdist_nonneg hT hs (hj.lt hT hs)
      omega

theorem bestRem_le_zero (hT : TabOk T) {s : St} (hs : Inv T s) {h : Int} (hh : bestRem T s = some h) : h ≤ 0 :=
  bestRemF_le_zero hT _ s h hs hh

-- ------------------------------------------------------------------------------------------------------------------
-- 5. no saturation

/-- the distances of the table are at most `B0` -/
def Small (T : Tab) (B0 : Int) : Prop := ∀ i j, i < T.n → j < T.n → dfun T i j ≤ B0

/-- the arc into a job of the domain of a valid state is a distance of the table -/
theorem mdist_valid (hT : TabOk T) {k : Nat} {s : St} (hV : V T k s) (hk : k < nv T) {j : Nat} (hj : InDom T s j) :
    ∃ p, p < T.n ∧ dfun T p j ≠ -1 ∧ 0 ≤ mdist T s j ∧ mdist T s j ≤ dfun T p j := by
  obtain ⟨hs, hdep, hlast, hfol⟩ := hV
  have hjn := hj.lt hT hs
  have hpend : s.must.testBit j = true ∨ (mb s).testBit j = true := by
    unfold InDom at hj
    split at hj
    · subst hj; exact Or.inl (hlast hk)
    · exact hj.1
  obtain ⟨p, hp, hne⟩ := hfol hk j hpend
  obtain ⟨_, _, h3, _⟩ := mdist_spec hT hs.prev_lt hjn
  have := h3 p hp
  unfold dI at this
  rw [if_neg hne] at this
  exact ⟨p, hs.prev_lt p hp, hne, mdist_nonneg hT hs hjn, this⟩

theorem noClamp (hT : TabOk T) {B0 : Int} (hB0 : 0 ≤ B0) (hsmall : Small T B0)
    (hprod : ((nv T : Int) + 2) * B0 ≤ 4611686018427387904) :
    NoClampRel (problem T) (relaxation T) (V T) 0 B0 B0 where
  nonneg := hB0
  le := Int.le_refl _
  root := ⟨by omega, hB0⟩
  cost := by
    intro k L x s d hx _ hV hd
    obtain ⟨hk, rfl⟩ := nextVar_some hx
    have hd' : s.depth < nv T := by have := hV.2.1; omega
    obtain ⟨j, rfl, hj⟩ := (mem_domain_iff hT hV.1 hd' d).mp hd
    have hjn := hj.lt hT hV.1
    rw [pcost_eq hT hV.1 hjn]
    obtain ⟨p, hp, _, h0, h1⟩ := mdist_valid hT hV hk hj
    have := hsmall p j hp hjn
    omega
  relax := by
    intro k X u src d c _ _ hc
    rw [relax_eq]
    exact hc
  small := hprod

-- ------------------------------------------------------------------------------------------------------------------
-- 6. the potential

/-- on every valid state of a layer but the last, some decision of the domain does not lose potential -/
theorem att_hStar (hT : TabOk T) {k : Nat} {s : St} (hV : V T k s) (hk : k < nv T) {h : Int}
    (hh : hStar T s = some h) :
    ∃ j, InDom T s j ∧ ∃ h', hStar T (succSt T s j) = some h' ∧ h ≤ -mdist T s j + h' := by
  have hs := hV.1
  have hdep := hV.2.1
  obtain ⟨u, hc, hb⟩ := hStar_att hs hh
  have hu := inv_conc hs hc
  have hdu : u.depth < nv T := by rw [hc.depth]; omega
  obtain ⟨f, hf⟩ : ∃ f, nv T - u.depth = f + 1 := ⟨nv T - u.depth - 1, by omega⟩
  unfold bestRem at hb
  rw [hf] at hb
  obtain ⟨j, hj, h', hh', he⟩ := bestRemF_att hT hu hdu f hb
  have hjs := inDom_conc hs hc hj
  have hjn := hj.lt hT hu
  have hd : s.depth < nv T := by omega
  have hc' := conc_succ hV hk hc hj
  have hge := hStar_ge (inv_succ hT hs hd hjs) hc'
  have hfuel : nv T - (succSt T u j).depth = f := by rw [succSt_depth]; omega
  unfold bestRem at hge
  rw [hfuel, hh'] at hge
  have hmd := mdist_conc hT hs hc hjn
  refine ⟨j, hjs, ?_⟩
  cases hv : hStar T (succSt T s j) with
  | none => rw [hv] at hge; exact absurd hge (by simp)
  | some h'' =>
    rw [hv] at hge
    have : h' ≤ h'' := hge
    exact ⟨h'', rfl, by omega⟩

/-- the potential of `merge X` is at least that of every member -/
theorem merge_hStar {k : Nat} {X : List St} {u : St} (hu : u ∈ X) (hX : ∀ w ∈ X, V T k w) {h : Int}
    (hh : hStar T u = some h) : ∃ h', hStar T (merge X) = some h' ∧ h ≤ h' := by
  have hX' : ∀ s ∈ X, Inv T s ∧ s.depth = u.depth := fun s hs => ⟨(hX s hs).1, by rw [(hX s hs).2.1, (hX u hu).2.1]⟩
  obtain ⟨w, hc, hb⟩ := hStar_att (hX u hu).1 hh
  have hge := hStar_ge (inv_merge X hu hX') (conc_merge hu hX' hc)
  rw [hb] at hge
  cases hv : hStar T (merge X) with
  | none => rw [hv] at hge; exact absurd hge (by simp)
  | some h' =>
    rw [hv] at hge
    exact ⟨h', rfl, hge⟩

/-- the potential is a negated length -/
theorem hStar_le_zero (hT : TabOk T) {s : St} (hs : Inv T s) {h : Int} (hh : hStar T s = some h) : h ≤ 0 := by
  obtain ⟨u, hc, hb⟩ := hStar_att hs hh
  exact bestRem_le_zero hT (inv_conc hs hc) hb

-- ------------------------------------------------------------------------------------------------------------------
-- 7. the `WfRelV` instance

/-- **the sop model (repaired code) is well-formed relative to the valid layers `V`**, with the potential `hStar`, as soon as
    the rough upper bound of a state (invariant `Inv`, the last job mandatory before the last layer) dominates the value-to-go
    of every exact state it stands for -/
theorem wfRelV_of_rub {T : Tab} (hT : TabOk T) (hD : DomOk T)
    (hrub : ∀ (s u : St) (r : Int), Inv T s → (s.depth < nv T → s.must.testBit (T.n - 1) = true) → Conc T s u →
      rub? T s = some r → bestRem T u ≤ some r) :
    WfRelV (problem T) (relaxation T) (H T) (V T) := by
  have hstep : ∀ (k : Nat) (s : St) (d : Int) (x : Nat), V T k s → k < nv T → d ∈ domain T s →
      V T (k + 1) ((problem T).trans s ⟨x, d⟩) := by
    intro k s d x hV hk hd
    have hd' : s.depth < nv T := by have := hV.2.1; omega
    obtain ⟨j, rfl, hj⟩ := (mem_domain_iff hT hV.1 hd' d).mp hd
    rw [ptrans_eq hT s (hj.lt hT hV.1)]
    exact v_succ hT hD hV hk hj
  have hatt : ∀ (k : Nat) (s : St) (h : Int) (x : Nat), V T k s → k < nv T → hStar T s = some h →
      ∃ d ∈ (problem T).domain x s, ∃ h', H T (k + 1) ((problem T).trans s ⟨x, d⟩) = some h' ∧
        h ≤ (problem T).cost s ((problem T).trans s ⟨x, d⟩) ⟨x, d⟩ + h' := by
    intro k s h x hV hk hh
    have hd' : s.depth < nv T := by have := hV.2.1; omega
    obtain ⟨j, hj, h', hh', hle⟩ := att_hStar hT hV hk hh
    have hjn := hj.lt hT hV.1
    refine ⟨(j : Int), (mem_domain_iff hT hV.1 hd' _).mpr ⟨j, rfl, hj⟩, h', ?_, ?_⟩
    · rw [ptrans_eq hT s hjn]; exact hh'
    · rw [pcost_eq hT hV.1 hjn]; exact hle
  exact {
    vstep := by
      intro k L x s d hx hL hs hd
      obtain ⟨hk, rfl⟩ := nextVar_some hx
      exact hstep _ s d _ (hL s hs) hk hd
    vstepMerge := by
      intro k L x X d hx hL hne hsub hd
      obtain ⟨hk, rfl⟩ := nextVar_some hx
      exact hstep _ _ d _ (v_merge hT hne (fun u hu => hL u (hsub u hu))) hk hd
    vmerge := fun k X hne hX => v_merge hT hne hX
    att := by
      intro k L x s h hx hL hs hh
      obtain ⟨hk, rfl⟩ := nextVar_some hx
      exact hatt _ s h _ (hL s hs) hk hh
    attMerge := by
      intro k L x X h hx hL hne hsub hh
      obtain ⟨hk, rfl⟩ := nextVar_some hx
      exact hatt _ _ h _ (v_merge hT hne (fun u hu => hL u (hsub u hu))) hk hh
    term := by
      intro k L s h _ hL hs hh
      exact hStar_le_zero hT (hL s hs).1 hh
    rub := by
      intro k s h hV hh
      have hh' : hStar T s = some h := hh
      show h ≤ (rub? T s).getD 0
      cases hr : rub? T s with
      | none => exact hStar_le_zero hT hV.1 hh'
      | some r =>
        obtain ⟨u, hc, hb⟩ := hStar_att hV.1 hh'
        have := hrub s u r hV.1 (fun hd => hV.2.2.1 (by have := hV.2.1; omega)) hc hr
        rw [hb] at this
        exact this
    merge := by
      intro k X u src d c h hu hX hh
      obtain ⟨h', e, hle⟩ := merge_hStar hu hX hh
      refine ⟨h', e, ?_⟩
      rw [relax_eq]
      omega }

-- ------------------------------------------------------------------------------------------------------------------
-- the corollary

/-- the only exact state the root stands for is the root -/
theorem conc_init {u : St} (hc : Conc T (initSt T) u) : u = initSt T := by
  obtain ⟨p, hp, hip, _⟩ := hc.prev
  have hp0 : p = 0 := hip
  have hmust : u.must = (initSt T).must := by
    apply Nat.eq_of_testBit_eq
    intro x
    cases hx : (initSt T).must.testBit x with
    | true => exact hc.lo x hx
    | false =>
      cases hux : u.must.testBit x with
      | false => rfl
      | true =>
        rcases hc.hi x hux with h | h
        · rw [hx] at h; cases h
        · have hmb : mb (initSt T) = 0 := rfl
          rw [hmb, Nat.zero_testBit] at h; cases h
  have h1 := hc.maybe
  have h2 := hc.depth
  cases u with
  | mk pr mu ma de =>
    simp only at hp hmust h1 h2
    subst hp hmust h1 h2 hp0
    rfl

theorem conc_init_self (hT : TabOk T) : Conc T (initSt T) (initSt T) := by
  refine ⟨⟨0, rfl, rfl, ?_⟩, rfl, rfl, fun _ h => h, fun _ h => Or.inl h, ?_⟩
  · rw [initSt_must, testBit_allJobs]; simp
  · have := (inv_init hT).count
    have hmb : mb (initSt T) = 0 := rfl
    rw [hmb, card_zero] at this
    have h2 : card (initSt T).must ≤ nv T - (initSt T).depth := by
      show card (ofList ((List.range T.n).drop 1)) ≤ nv T - 0
      rw [card_ofList _ (List.Nodup.sublist (List.drop_sublist 1 _) List.nodup_range), List.length_drop,
        List.length_range]
      unfold nv
      omega
    omega

/-- at the root the potential is the model's value-to-go -/
theorem hStar_init (hT : TabOk T) : hStar T (initSt T) = bestRem T (initSt T) := by
  have hge := hStar_ge (inv_init hT) (conc_init_self hT)
  cases hv : hStar T (initSt T) with
  | none =>
    rw [hv] at hge
    cases hb : bestRem T (initSt T) with
    | none => rfl
    | some b => rw [hb] at hge; exact absurd hge (by simp)
  | some h =>
    obtain ⟨u, hc, hb⟩ := hStar_att (inv_init hT) hv
    rw [conc_init hc] at hb
    exact hb.symm

/-- **The shipped sop example** (repaired code): a relaxed compilation of its model from the root (layer by layer, no cache,
    no dominance checker, width ≥ 1, any incumbent `lb` that the optimum beats) reports a best value that is at least the
    value-to-go of the root, for every well-formed table of the domain whose distances are at most `B0` with
    `(nb_variables + 2) · B0 ≤ 2^62` — as soon as the rough upper bound is admissible (`hrub`) -/
theorem sop_relaxed_ub_of {K : Type} [DecidableEq K] {T : Tab} (hT : TabOk T) (hD : DomOk T)
    (hrub : ∀ (s u : St) (r : Int), Inv T s → (s.depth < nv T → s.must.testBit (T.n - 1) = true) → Conc T s u →
      rub? T s = some r → bestRem T u ≤ some r)
    (cfg : Cfg St K) (B0 : Int) (cache : Cache St) (store : DomStore St K) (polls : Nat)
    (hP : cfg.P = problem T) (hR : cfg.R = relaxation T)
    (hrs : cfg.root.state = initSt T) (hrv : cfg.root.value = 0) (hrd : cfg.root.depth = 0)
    (hrel : cfg.ctype = .relaxed) (hcache : cfg.useCache = false) (hdom : cfg.dom = none) (hW : 1 ≤ cfg.width)
    (hB0 : 0 ≤ B0) (hsmall : ∀ i j, i < T.n → j < T.n → dfun T i j ≤ B0)
    (hprod : ((nv T : Int) + 2) * B0 ≤ 4611686018427387904)
    (hlb : InI cfg.lb) (o : Int) (ho : bestRem T (initSt T) = some o) (hgt : o > cfg.lb)
    (hO : o ≤ iMax ∨ cfg.lb < iMax) :
    (compile cfg cache store polls none).1 = .ok →
    ∃ bv, (compile cfg cache store polls none).2.1.bestValue = some bv ∧ o ≤ bv := by
  refine CoverRel.relaxed_ub_rel_valid cfg (H T) (V T) B0 B0 cache store polls hrel hcache hdom hW ?_ ?_ ?_ hlb o ?_ hgt hO
  · rw [hP, hR]; exact wfRelV_of_rub hT hD hrub
  · rw [hrd, hrs]; exact v_init hT hD
  · rw [hP, hR, hrv]; exact noClamp hT hB0 hsmall hprod
  · unfold optOf
    rw [hrd, hrs, hrv]
    show (hStar T (initSt T)).addI 0 = some o
    rw [hStar_init hT, ho]
    simp [EInt.addI]

#print axioms v_init
#print axioms v_succ
#print axioms v_merge
#print axioms inDom_conc
#print axioms conc_succ
#print axioms conc_merge
#print axioms bestRemF_le_zero
#print axioms noClamp
#print axioms att_hStar
#print axioms merge_hStar
#print axioms wfRelV_of_rub
#print axioms hStar_init
#print axioms sop_relaxed_ub_of

end Ddo.Examples.SopModel
