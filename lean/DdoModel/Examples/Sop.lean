/-! Specification of the sop example (`ddo/examples/sop`): the Sequential Ordering Problem.

    Problem.  Jobs `0 … n-1` and an `n × n` integer matrix `d` (TSPLIB `EDGE_WEIGHT_SECTION`, full matrix).
    `d[i][j] = -1` is not a distance: it states the precedence constraint "job `j` must be processed before
    job `i`".  A solution is a sequence that contains every job exactly once, starts with job `0`, ends with job
    `n-1`, and places `j` before `i` whenever `d[i][j] = -1`.  Its cost is the sum of `d[a][b]` over consecutive
    jobs `a, b` of the sequence.  The program must print the minimum cost (it maximises the negated cost and prints
    `Objective: -best`), and `Objective: -1` when no sequence satisfies the constraints.

    The specification enumerates all permutations of the inner jobs `1 … n-2`; it is written from the statement
    above and shares nothing with the DP model (no state, no merge, no bound).

    Instance file: header lines are skipped up to the line containing `EDGE_WEIGHT_SECTION`; then `n`, then `n`
    rows of `n` integers; further lines (`EOF`) are ignored.
    Spec tokens: `n` followed by the `n*n` matrix entries, row by row. -/
namespace Ddo.Examples.Sop

/-- all ways to insert `x` into a list -/
def inserts (x : Nat) : List Nat → List (List Nat)
  | [] => [[x]]
  | y :: ys => (x :: y :: ys) :: (inserts x ys).map (y :: ·)

/-- all permutations of a list -/
def perms : List Nat → List (List Nat)
  | [] => [[]]
  | x :: xs => (perms xs).flatMap (inserts x)

/-- a sequence respects the precedences iff no later job `j` is required before an earlier job `i`
    (`d i j = -1` reads "`j` before `i`") -/
def respects (d : Nat → Nat → Int) : List Nat → Bool
  | [] => true
  | i :: later => later.all (fun j => d i j != -1) && respects d later

/-- sum of the distances between consecutive jobs -/
def cost (d : Nat → Nat → Int) : List Nat → Int
  | i :: j :: rest => d i j + cost d (j :: rest)
  | _ => 0

def minimum : List Int → Option Int
  | [] => none
  | x :: xs => some (xs.foldl min x)

/-- the value the program must print for the `n × n` matrix `d` (`n ≥ 1`) -/
def spec (n : Nat) (d : Nat → Nat → Int) : Int :=
  let seqs : List (List Nat) :=
    if n = 1 then [[0]]
    else (perms ((List.range (n - 1)).drop 1)).map (fun p => 0 :: p ++ [n - 1])
  ((minimum ((seqs.filter (respects d)).map (cost d))).getD (-1))

/-- tokens: `n d[0][0] d[0][1] … d[n-1][n-1]` -/
def specFromTokens : List Int → Option Int
  | n :: rest =>
    let n := n.toNat
    let m := rest.toArray
    if n ≥ 1 ∧ m.size = n * n then some (spec n (fun i j => m.getD (i * n + j) 0)) else none
  | _ => none

end Ddo.Examples.Sop
