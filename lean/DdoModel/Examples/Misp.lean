import DdoModel.Examples.Util
/-! Specification of the misp example (`ddo/examples/misp`): MAXIMUM WEIGHT INDEPENDENT SET.
    Given an undirected graph on vertices `1..n` with an integer weight per vertex, find a set of
    pairwise non-adjacent vertices of maximum total weight.  The program prints that maximum weight
    (`Objective: <w>`).  The empty set is independent, so the printed value is never negative (it is `0`
    on a graph whose weights are all ≤ 0) and the `-1` of `best_value.unwrap_or(-1)` never shows up.
    Instance file (DIMACS `.clq` flavour): `p edge <n> <m>`, optional `n <vertex> <weight>` lines
    (vertices without such a line weigh 1), `e <u> <v>` lines (1-based, undirected, repetitions harmless),
    `c …` comments.  A vertex carrying a self-loop `e v v` belongs to no independent set (textbook
    definition; the generator only produces self-loops under the tag `ood_self_loop`).
    By exhaustive enumeration of all `2^n` vertex subsets, independently of the DP model. -/
namespace Ddo.Examples.Misp
open Ddo.Examples.Util

/-- no edge has both end points in `s` -/
def independent (edges : List (Int × Int)) (s : List Int) : Bool :=
  edges.all fun (u, v) => !(s.contains u && s.contains v)

/-- `weights` lists the weight of vertex 1, 2, …; `edges` are pairs of 1-based vertices -/
def best (weights : List Int) (edges : List (Int × Int)) : Option Int :=
  let vertices : List (Int × Int) := (oneTo weights.length).zip weights
  maxOf <| (sublists vertices).filterMap fun s =>
    if independent edges (s.map (·.1)) then some (sum (s.map (·.2))) else none

/-- tokens: `n m w_1 … w_n u_1 v_1 … u_m v_m` -/
def specFromTokens : List Int → Option Int
  | n :: m :: rest =>
    if n < 0 ∨ m < 0 ∨ rest.length ≠ n.toNat + 2 * m.toNat then none else
    let weights := rest.take n.toNat
    match pairs? (rest.drop n.toNat) with
    | none => none
    | some edges =>
      if edges.all (fun (u, v) => 1 ≤ u ∧ u ≤ n ∧ 1 ≤ v ∧ v ≤ n) then best weights edges else none
  | _ => none

end Ddo.Examples.Misp
