import DdoModel.Examples.SrflpProofsRub
import DdoModel.Examples.SrflpProofsEdge
import DdoModel.Examples.SrflpProofsLoops
/-! Shared definitions for the admissibility proof of the srflp rough bound on MERGED states (states with a `maybe_place`).

    A completion of a state `(M = must_place, Y = maybe_place)` is an order `q` of `n - depth` departments that holds all of `M`
    and otherwise members of `Y`.  Its cost is bounded below (superadditivity of "the sum of the `r` least") by
    `GG l c M Y q + EE l f M Y q`: the cost of the path with the FIXED weights `c` (the cuts of the state), plus, for every
    department `j` of the path, the cost of the rest of the path with the fixed weights `f j` (row `j` of the flows).
    `vrow` turns "the sum of the `r` least weights among what is left of `Y`" into consistent per-position virtual weights. -/
namespace Ddo.Examples.SrflpModel
open Ddo Ddo.Examples Ddo.Examples.Util Ddo.SpecUtil

/-- the number of members of `q` that are not in `M` (the optional picks of the path) -/
def nonM (M q : List Nat) : Nat := (q.filter (fun i => !M.contains i)).length

/-- the cost of the path `q` with FIXED weights `w`: the department `j` pays `l j` times (the weights of the members of `M`
    after it + the `r` least weights among what is left of `Y`, `r` = the number of optional picks after it) -/
def GG (l w : Nat → Int) (M : List Nat) : List Nat → List Nat → Int
  | _, [] => 0
  | Y, j :: q =>
    l j * (((q.filter (fun i => M.contains i)).map w).sum + leastSum (nonM M q) ((Y.filter (· ≠ j)).map w))
      + GG l w M (Y.filter (· ≠ j)) q

/-- the edge part: every department `j` of the path, once placed, adds row `j` of the flows to the weights -/
def EE (l : Nat → Int) (f : Nat → Nat → Int) (M : List Nat) : List Nat → List Nat → Int
  | _, [] => 0
  | Y, j :: q => GG l (f j) M (Y.filter (· ≠ j)) q + EE l f M (Y.filter (· ≠ j)) q

/-- consistent virtual weights: a member of `M` keeps its weight, an optional pick gets the difference between the sum of
    the `r + 1` least weights of `Y` and the sum of the `r` least weights of `Y` without it (`r` optional picks after it) -/
def vrow (v : Nat → Int) (M : List Nat) : List Nat → List Nat → List Int
  | _, [] => []
  | Y, j :: q =>
    (if M.contains j then v j
      else leastSum (nonM M q + 1) (Y.map v) - leastSum (nonM M q) ((Y.filter (· ≠ j)).map v))
      :: vrow v M (Y.filter (· ≠ j)) q

/-- `Σ_t ls[t] · Σ_{t' > t} vs[t']` -/
def aftV : List Int → List Int → Int
  | l :: ls, _ :: vs => l * vs.sum + aftV ls vs
  | _, _ => 0

/-- the flows between the members of `M` and those of `Y` -/
def crossFlows (f : Nat → Nat → Int) (M Y : List Nat) : List Int := M.flatMap (fun i => Y.map (f i))

@[simp] theorem nonM_nil (M : List Nat) : nonM M [] = 0 := rfl
theorem nonM_cons (M : List Nat) (j : Nat) (q : List Nat) :
    nonM M (j :: q) = (if M.contains j then 0 else 1) + nonM M q := by
  unfold nonM
  rw [List.filter_cons]
  cases h : M.contains j
  · simp; omega
  · simp

end Ddo.Examples.SrflpModel
