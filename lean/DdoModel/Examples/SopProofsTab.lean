import DdoModel.Examples.SopProofsConc
import DdoModel.Examples.SopProofsExact
/-! The tables the reader and `Sop::new` build (`tabOf`) from an instance of the input domain (`inDomain`, at most 256 jobs,
    `isize` entries) satisfy `TabOk` and `DomOk`; a degenerate table (no `predecessors` at all: NOT one `tabOf` builds) on
    which `MergeOkStmt` fails, which is why `mergeOk` asks for `TabOk`. -/
namespace Ddo.Examples.SopModel
open Ddo Ddo.Examples Ddo.Examples.Util

/-- the entries of an instance of the domain -/
theorem inDomain_entries {n : Nat} {rows : List (List Int)} (hD : inDomain n rows = true) :
    rows.length = n ∧ (∀ r ∈ rows, r.length = n) ∧ ∀ i j, i < n → j < n →
      (if i = j then dfun (tabOf n rows) i j = 0
       else if j = 0 then dfun (tabOf n rows) i j = -1
       else if i = n - 1 then dfun (tabOf n rows) i j = -1
       else if i = 0 ∨ j = n - 1 then 0 ≤ dfun (tabOf n rows) i j
       else -1 ≤ dfun (tabOf n rows) i j) := by
  simp only [inDomain, Bool.and_eq_true, decide_eq_true_eq, List.all_eq_true, beq_iff_eq, List.mem_range] at hD
  obtain ⟨⟨⟨_, hlen⟩, hrow⟩, hent⟩ := hD
  refine ⟨hlen, hrow, ?_⟩
  intro i j hi hj
  have := hent i hi j hj
  rw [Exact.dfun_tabOf]
  by_cases c1 : i = j
  · simpa [c1] using this
  · by_cases c2 : j = 0
    · simpa [c1, c2] using this
    · by_cases c3 : i = n - 1
      · simpa [c1, c2, c3] using this
      · by_cases c4 : i = 0 ∨ j = n - 1
        · rcases c4 with c4 | c4 <;> simpa [c1, c2, c3, c4] using this
        · have c5 : ¬ i = 0 := fun e => c4 (Or.inl e)
          have c6 : ¬ j = n - 1 := fun e => c4 (Or.inr e)
          simpa [c1, c2, c3, c5, c6] using this

/-- an entry of the table is an entry of a row -/
theorem dfun_mem_rows {n : Nat} {rows : List (List Int)} (hlen : rows.length = n) (hrow : ∀ r ∈ rows, r.length = n)
    {i j : Nat} (hi : i < n) (hj : j < n) : ∃ r ∈ rows, dfun (tabOf n rows) i j ∈ r := by
  have hi' : i < rows.length := by omega
  have hj' : j < (rows[i]).length := by rw [hrow _ (List.getElem_mem hi')]; exact hj
  refine ⟨rows[i], List.getElem_mem hi', ?_⟩
  rw [Exact.dfun_tabOf]
  simp [List.getD_eq_getElem?_getD, hi', hj']

/-- **the tables of the input domain are well-formed**: an instance of the format with at most 256 jobs (`Set256`) and
    `isize` entries -/
theorem tabOk_tabOf {n : Nat} {rows : List (List Int)} (hD : inDomain n rows = true) (hn : n ≤ 256)
    (hb : ∀ r ∈ rows, ∀ w ∈ r, w ≤ imax) : TabOk (tabOf n rows) := by
  have hb' : ∀ r ∈ rows, ∀ w ∈ r, w ≤ -imin := fun r hr w hw => by
    have := hb r hr w hw
    simp only [imax, imin] at *
    omega
  have hok := Exact.ok_tabOf hD hn hb'
  obtain ⟨hlen, hrow, _⟩ := inDomain_entries hD
  have hTn : (tabOf n rows).n = n := rfl
  refine ⟨hok.n_pos, hok.n_le, hok.dist, hok.d_ge, ?_, ?_, ?_, ?_⟩
  · intro i j hi hj
    obtain ⟨r, hr, hw⟩ := dfun_mem_rows hlen hrow (by rw [← hTn]; exact hi) (by rw [← hTn]; exact hj)
    exact hb r hr _ hw
  · intro j hj
    obtain ⟨p, hp, _⟩ := hok.pred j hj
    rw [hp]
    unfold predOf
    simp [Array.getD_eq_getD_getElem?, hp]
  · intro j x hj
    obtain ⟨p, hp, hspec⟩ := hok.pred j hj
    have : predOf (tabOf n rows) j = p := by
      unfold predOf
      simp [Array.getD_eq_getD_getElem?, hp]
    rw [this]
    exact hspec x
  · intro i hi
    have hi' : i < n := hi
    show (((List.range n).map (cheapOf n _)).toArray)[i]? = _
    simp [hi']
    rfl

theorem domOk_tabOf {n : Nat} {rows : List (List Int)} (hD : inDomain n rows = true) : DomOk (tabOf n rows) := by
  obtain ⟨_, _, hE⟩ := inDomain_entries hD
  have hTn : (tabOf n rows).n = n := rfl
  refine ⟨?_, ?_, ?_, ?_⟩
  · intro j hj
    rw [hTn] at hj ⊢
    have := hE (n - 1) j (by omega) (by omega)
    rw [if_neg (by omega)] at this
    split at this
    · exact this
    · simpa using this
  · intro i h0 hi
    rw [hTn] at hi
    have := hE i 0 hi (by omega)
    rw [if_neg (by omega)] at this
    simpa using this
  · intro j h0 hj
    rw [hTn] at hj
    have := hE 0 j (by omega) hj
    rw [if_neg (by omega), if_neg (by omega)] at this
    split at this
    · omega
    · simpa using this
  · intro i hi
    rw [hTn] at hi ⊢
    by_cases h0 : i = n - 1
    · omega
    · have := hE i (n - 1) (by omega) (by omega)
      rw [if_neg (by omega)] at this
      split at this
      · omega
      · simpa [h0] using this

/-- **`MergeOkStmt` on every instance of the input domain** -/
theorem mergeOk_tabOf {n : Nat} {rows : List (List Int)} (hD : inDomain n rows = true) (hn : n ≤ 256)
    (hb : ∀ r ∈ rows, ∀ w ∈ r, w ≤ imax) : MergeOkStmt (tabOf n rows) :=
  mergeOk (tabOk_tabOf hD hn hb)

-- ------------------------------------------------------------------------------------------------------------------
-- `MergeOkStmt T` for EVERY `T` is false: a table without `predecessors`

/-- 4 jobs, a full matrix, but an EMPTY `predecessors` table (no `tabOf` builds this): `transition` from a state with a
    `maybe_schedule` set panics (`predecessors[j]` out of range), the same transition from the exact state does not -/
def degT : Tab :=
  { n := 4, d := #[#[0, 1, 1, 1], #[-1, 0, 1, 1], #[-1, 1, 0, 1], #[-1, -1, -1, 0]], pred := #[], cheap := #[[], [], [], []] }
def degU : St := ⟨.job 1, ofList [3], none, 2⟩
def degW : St := ⟨.job 1, ofList [3], some (ofList [2]), 2⟩

/-- as stated for an ARBITRARY table `MergeOkStmt` is false; not reachable: the table is not one the reader builds
    (`mergeOk_tabOf`: it holds on all of those) -/
theorem mergeOk_false_degenerate : ¬ MergeOkStmt degT := by
  intro h
  have h1 := h [degU, degW] degU 0 (by decide +kernel) (by decide +kernel) (by decide +kernel)
  revert h1
  decide +kernel

#print axioms tabOk_tabOf
#print axioms domOk_tabOf
#print axioms mergeOk
#print axioms mergeOk_tabOf
#print axioms mergeOk_false_degenerate

end Ddo.Examples.SopModel
