import DdoModel.Examples.Util
/-! Specification of the max2sat example (`ddo/examples/max2sat`): WEIGHTED MAX-2-SAT.
    Given Boolean variables `1..n` and weighted clauses of one or two literals (a literal is `+v` or `-v`),
    find the truth assignment maximising the total weight of the SATISFIED clauses.  The program prints
    that maximum (`Objective: <w>`; tautologies `v ∨ ¬v` are always satisfied and count).
    Instance file (`.wcnf` flavour): `p wcnf <n> <m>`, then `<w> <x> <y> 0` (binary clause; `x = y`
    is a unit clause, `x = -y` a tautology) or `<w> <x> 0` (unit clause), `c …` comments.
    Each clause is meant to be listed once: the reader keeps only the LAST weight of a clause listed
    several times, whereas this specification (like every MaxSAT definition) adds them up — the
    generator produces repeated clauses only under the tag `ood_duplicate_clauses`.
    By exhaustive enumeration of all `2^n` assignments, independently of the DP model. -/
namespace Ddo.Examples.Max2sat
open Ddo.Examples.Util

/-- an assignment is the list of the variables set to true -/
def litTrue (trues : List Int) (l : Int) : Bool :=
  if l > 0 then trues.contains l else !(trues.contains (-l))

def satisfiedWeight (clauses : List (Int × Int × Int)) (trues : List Int) : Int :=
  sum <| clauses.map fun (w, x, y) => if litTrue trues x || litTrue trues y then w else 0

def best (n : Nat) (clauses : List (Int × Int × Int)) : Option Int :=
  let vars : List Int := oneTo n
  maxOf <| (sublists vars).map (satisfiedWeight clauses)

/-- tokens: `n m (w x y)*m`; a unit clause is given as `w x x` -/
def specFromTokens : List Int → Option Int
  | n :: m :: rest =>
    if n < 0 ∨ m < 0 then none else
    match triples? rest with
    | none => none
    | some clauses =>
      let okLit := fun (l : Int) => l ≠ 0 ∧ -n ≤ l ∧ l ≤ n
      if clauses.length = m.toNat ∧ clauses.all (fun (_, x, y) => okLit x ∧ okLit y)
      then best n.toNat clauses else none
  | _ => none

end Ddo.Examples.Max2sat
