import DdoModel.Examples.TalentschedProofsExact
import DdoModel.Examples.TalentschedProofsSmith
/-! Completions of an arbitrary (exact or merged) talentsched state as lists of scenes, and what every completion pays AT LEAST
    to the actors who are on location in the state.
    * `IsRun T s d q`: `q` is a sequence of decisions, each in the domain of the state reached; `bestRemF_run`: the value-to-go
      is the `runCost` of such a sequence of length `fuel`;
    * `run_mem`, `run_nodup`, `run_covers`: the scenes of a run are distinct members of the two sets of the state, and a run down
      to depth `n` from a state with `Inv` shoots every scene of `scenes`;
    * `G`: for the fixed sets `P` (actors) and `Q0` (scenes): while a scene `j ∈ Q0` is shot, every actor of `P` who still
      plays in a later scene of `Q0` and not in `j` is paid; `runCost_le_G`: a run from `s` pays at least `G` with
      `P = present s`, `Q0 = s.scenes` (the scenes of `maybe` and the actors who arrive later only add to the pay). -/
namespace Ddo.Examples.TalentschedModel
open Ddo Ddo.Examples Ddo.Examples.Util Ddo.SpecUtil

def IsRun (T : Tab) : St → Nat → List Nat → Prop
  | _, _, [] => True
  | s, d, j :: q => (j : Int) ∈ domain T d s ∧ IsRun T (trans s ⟨d, (j : Int)⟩) (d + 1) q

/-- the value-to-go is attained by a run -/
theorem bestRemF_run (T : Tab) : ∀ (fuel d : Nat) (s : St) (h : Int), bestRemF T fuel d s = some h →
    ∃ q, q.length = fuel ∧ IsRun T s d q ∧ h = runCost T s d q := by
  intro fuel
  induction fuel with
  | zero =>
    intro d s h hh
    rw [bestRemF] at hh
    cases hh
    exact ⟨[], rfl, trivial, rfl⟩
  | succ fuel ih =>
    intro d s h hh
    rw [bestRemF] at hh
    rcases foldl_emax_attained (fun v => (bestRemF T fuel (d + 1) (trans s ⟨d, v⟩)).addI (cost T s ⟨d, v⟩)) (domain T d s) none
      with e | ⟨v, hv, e⟩
    · rw [e] at hh; cases hh
    · rw [e] at hh
      obtain ⟨j, rfl, _, _⟩ := (mem_domain T d s v).mp hv
      cases hb : bestRemF T fuel (d + 1) (trans s ⟨d, (j : Int)⟩) with
      | none => rw [hb] at hh; cases hh
      | some h' =>
        rw [hb] at hh
        obtain ⟨q, hl, hr, he⟩ := ih (d + 1) _ h' hb
        refine ⟨j :: q, by simp [hl], ⟨hv, hr⟩, ?_⟩
        simp only [EInt.addI, Option.map_some, Option.some.injEq] at hh
        rw [runCost, ← he]
        omega

theorem run_head {T : Tab} {s : St} {d j : Nat} (h : (j : Int) ∈ domain T d s) :
    j < 64 ∧ (s.scenes.testBit j = true ∨ (d + card s.scenes < T.n ∧ s.maybe.testBit j = true)) := by
  obtain ⟨i, e, h64, hi⟩ := (mem_domain T d s _).mp h
  have : j = i := by omega
  subst this
  exact ⟨h64, hi⟩

/-- the scenes of a run are in the two sets of the state -/
theorem run_mem (T : Tab) : ∀ (q : List Nat) (s : St) (d : Nat), IsRun T s d q →
    ∀ j ∈ q, s.scenes.testBit j = true ∨ s.maybe.testBit j = true := by
  intro q
  induction q with
  | nil => intro s d _ j hj; cases hj
  | cons j0 q ih =>
    intro s d hr j hj
    obtain ⟨h64, h0⟩ := run_head hr.1
    rcases List.mem_cons.mp hj with rfl | hj
    · rcases h0 with h0 | h0
      · exact Or.inl h0
      · exact Or.inr h0.2
    · have hr2 := hr.2
      rw [trans_nat s d j0 h64] at hr2
      have := ih _ _ hr2 j hj
      dsimp only at this
      rw [testBit_sdiff_bit, testBit_sdiff_bit] at this
      simp only [Bool.and_eq_true] at this
      rcases this with h | h
      · exact Or.inl h.1
      · exact Or.inr h.1

theorem run_nodup (T : Tab) : ∀ (q : List Nat) (s : St) (d : Nat), IsRun T s d q → q.Nodup := by
  intro q
  induction q with
  | nil => intro _ _ _; exact List.nodup_nil
  | cons j0 q ih =>
    intro s d hr
    obtain ⟨h64, _⟩ := run_head hr.1
    have hr2 := hr.2
    rw [trans_nat s d j0 h64] at hr2
    refine List.nodup_cons.mpr ⟨fun hj => ?_, ih _ _ hr2⟩
    have := run_mem T q _ _ hr2 j0 hj
    dsimp only at this
    rw [testBit_sdiff_bit, testBit_sdiff_bit] at this
    simp at this

theorem card_zero_testBit {m j : Nat} (h : card m = 0) (hj : j < 64) : m.testBit j = false := by
  cases hb : m.testBit j
  · rfl
  · have := card_lt_of_sub (a := 0) (b := m) (fun i hi => by simp at hi) hj (by simp) hb
    have h0 : card 0 = 0 := rfl
    omega

/-- a run down to depth `n` shoots every scene that must be shot -/
theorem run_covers (T : Tab) : ∀ (q : List Nat) (s : St) (d : Nat), IsRun T s d q → Inv T d s → q.length + d = T.n →
    ∀ j, j < 64 → s.scenes.testBit j = true → j ∈ q := by
  intro q
  induction q with
  | nil =>
    intro s d _ hi hl j hj hb
    have := hi.room
    simp only [List.length_nil] at hl
    have hc : card s.scenes = 0 := by omega
    rw [card_zero_testBit hc hj] at hb
    cases hb
  | cons j0 q ih =>
    intro s d hr hi hl j hj hb
    obtain ⟨h64, h0⟩ := run_head hr.1
    by_cases e : j = j0
    · subst e; exact List.mem_cons_self
    · have hr2 := hr.2
      rw [trans_nat s d j0 h64] at hr2
      refine List.mem_cons_of_mem _ (ih _ _ hr2 (hi.step h64 h0) (by simp only [List.length_cons] at hl; omega) j hj ?_)
      dsimp only
      rw [testBit_sdiff_bit, hb]
      simp [e]

/-! ### what a run pays at least -/

theorem sumRange_le {n : Nat} {f g : Nat → Int} (h : ∀ i, i < n → f i ≤ g i) : sumRange n f ≤ sumRange n g := by
  induction n with
  | zero => exact Int.le_refl _
  | succ n ih =>
    rw [sumRange_succ, sumRange_succ]
    have := ih (fun i hi => h i (by omega))
    have := h n (by omega)
    omega

theorem sumRange_mul_left (n : Nat) (m : Int) (f : Nat → Int) : m * sumRange n f = sumRange n fun i => m * f i := by
  induction n with
  | zero => simp
  | succ n ih => rw [sumRange_succ, sumRange_succ, Int.mul_add, ih]

theorem sumRange_nonneg {n : Nat} {f : Nat → Int} (h : ∀ i, i < n → 0 ≤ f i) : 0 ≤ sumRange n f := by
  have := sumRange_le (f := fun _ => 0) (g := f) h
  have h0 : sumRange n (fun _ => (0 : Int)) = 0 := by
    induction n with
    | zero => rfl
    | succ n ih => rw [sumRange_succ, ih (fun i hi => h i (by omega)) (sumRange_le fun i hi => h i (by omega))]; rfl
  omega

/-- actor `a` plays in a scene of `Q0` that is in the list -/
def later (T : Tab) (Q0 : Nat) (q : List Nat) (a : Nat) : Bool := q.any fun j => Q0.testBit j && (actS T j).testBit a

/-- … and is one of the actors `P` -/
def inU (T : Tab) (P Q0 : Nat) (q : List Nat) (a : Nat) : Bool := P.testBit a && later T Q0 q a

def G (T : Tab) (P Q0 : Nat) : List Nat → Int
  | [] => 0
  | j :: q => (if Q0.testBit j then
      durS T j * sumRange 64 (fun a => if inU T P Q0 q a && !(actS T j).testBit a then costA T a else 0) else 0) + G T P Q0 q

/-- the actors `P` played in a scene that the state takes as shot -/
def SeenIn (T : Tab) (P : Nat) (s : St) : Prop :=
  ∀ a, P.testBit a = true → ∃ i, i < T.n ∧ s.maybe.testBit i = false ∧ s.scenes.testBit i = false ∧ (actS T i).testBit a = true

theorem SeenIn.step {T : Tab} {P : Nat} {s : St} (h : SeenIn T P s) (j : Nat) :
    SeenIn T P { scenes := sdiff s.scenes (1 <<< j), maybe := sdiff s.maybe (1 <<< j) } := by
  intro a ha
  obtain ⟨i, hi, hM, hS, hA⟩ := h a ha
  refine ⟨i, hi, ?_, ?_, hA⟩
  · dsimp only; rw [testBit_sdiff_bit, hM]; rfl
  · dsimp only; rw [testBit_sdiff_bit, hS]; rfl

theorem seenIn_present (T : Tab) (s : St) : SeenIn T (present T s) s := fun a ha =>
  ((testBit_present T s a).mp ha).1

/-- **every run pays at least `G`** to the actors `P` for the scenes `Q0`, provided the actors `P` have been seen, and the scenes
    of `Q0` still in the run are mandatory scenes of the state -/
theorem runCost_le_G (T : Tab) (hn : NonNeg T) (P Q0 : Nat) (hQ : ∀ j, Q0.testBit j = true → j < T.n) :
    ∀ (q : List Nat) (s : St) (d : Nat), IsRun T s d q → Inv T d s → SeenIn T P s →
      (∀ j ∈ q, Q0.testBit j = true → s.scenes.testBit j = true) → runCost T s d q ≤ -G T P Q0 q := by
  intro q
  induction q with
  | nil => intro s d _ _ _ _; exact Int.le_refl _
  | cons j q ih =>
    intro s d hr hi hseen hmust
    obtain ⟨h64, h0⟩ := run_head hr.1
    have hnd := List.nodup_cons.mp (run_nodup T _ _ _ hr)
    have hr2 := hr.2
    rw [runCost, G, trans_nat s d j h64]
    rw [trans_nat s d j h64] at hr2
    have hrec := ih _ _ hr2 (hi.step h64 h0) (hseen.step j) (fun j' hj' hQ' => by
      dsimp only
      rw [testBit_sdiff_bit, hmust j' (List.mem_cons_of_mem _ hj') hQ']
      have : j' ≠ j := fun e => hnd.1 (e ▸ hj')
      simp [this])
    have hstep : cost T s ⟨d, (j : Int)⟩ ≤ -(if Q0.testBit j then
        durS T j * sumRange 64 (fun a => if inU T P Q0 q a && !(actS T j).testBit a then costA T a else 0) else 0) := by
      by_cases hQj : Q0.testBit j = true
      · rw [if_pos hQj]
        have hjn := hQ j hQj
        unfold cost cost?
        have hc : ¬ ((j : Int) < 0 ∨ (j : Int) ≥ (T.n : Int)) := by omega
        simp only [hc, if_false, Option.getD_some, Int.toNat_natCast]
        rw [sum_bits_eq, sumRange_mul_left]
        apply Int.neg_le_neg
        apply sumRange_le
        intro a _
        have hca := hn.cost a
        have hdj := hn.dur j
        by_cases hu : (inU T P Q0 q a && !(actS T j).testBit a) = true
        · rw [if_pos hu]
          simp only [Bool.and_eq_true, Bool.not_eq_true', inU, later, List.any_eq_true] at hu
          obtain ⟨⟨hP, j', hj', hQ', hA'⟩, hnA⟩ := hu
          have hpres : (present T s).testBit a = true := by
            rw [testBit_present]
            refine ⟨hseen a hP, ⟨j', hQ j' hQ', ?_, hmust j' (List.mem_cons_of_mem _ hj') hQ', hA'⟩⟩
            cases hm : s.maybe.testBit j'
            · rfl
            · exact absurd ⟨hmust j' (List.mem_cons_of_mem _ hj') hQ', hm⟩ (hi.disj j')
          have : (sdiff (present T s) (actS T j)).testBit a = true := by
            rw [testBit_sdiff, hpres, hnA]; rfl
          rw [if_pos this, Int.mul_comm]
          exact Int.le_refl _
        · rw [if_neg hu, Int.mul_zero]
          split
          · exact Int.mul_nonneg hca hdj
          · exact Int.le_refl _
      · rw [if_neg hQj]
        exact cost_nonpos T hn s _
    omega

end Ddo.Examples.TalentschedModel

section
open Ddo.Examples.TalentschedModel
#print axioms bestRemF_run
#print axioms run_covers
#print axioms runCost_le_G
end
