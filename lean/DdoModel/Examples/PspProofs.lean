import DdoModel.Examples.PspModel
/-! Basic facts about the Lean model of the psp example (`PspDp.lean`): the tables of the reader in closed form (`prevF`,
    `remF`), the units still to produce (`rem`), the domain, the transition and its cost in closed form on the states a
    compilation can build (`Ok`), and the value-to-go `bestRem` as a maximum (`bestRem_ge`, `bestRem_att`). -/
namespace Ddo.Examples.PspModel
open Ddo Ddo.Examples Ddo.Examples.Util

-- ------------------------------------------------------------------------------------------------------------------
-- the tables of the reader

/-- the latest period `< t` in which the row has a demand, `-1` if none -/
def prevF (row : List Int) : Nat → Int
  | 0 => -1
  | t + 1 => if row.getD t 0 > 0 then (t : Int) else prevF row t
/-- the number of units due in the periods `< t` -/
def remF (row : List Int) : Nat → Int
  | 0 => 0
  | t + 1 => remF row t + row.getD t 0

theorem prevRow_succ (H : Nat) (row : List Int) :
    prevRow (H + 1) row = prevRow H row ++ [if row.getD H 0 > 0 then (H : Int) else (prevRow H row).getLastD (-1)] := by
  unfold prevRow
  rw [List.range_succ, List.foldl_append]
  rfl

theorem prevRow_eq (row : List Int) : ∀ H : Nat, prevRow H row = (List.range (H + 1)).map (prevF row) := by
  intro H
  induction H with
  | zero => rfl
  | succ H ih =>
    rw [prevRow_succ, ih, List.range_succ (n := H + 1), List.map_append]
    congr 1
    simp [List.range_succ, prevF]

theorem remRow_succ (H : Nat) (row : List Int) :
    remRow (H + 1) row = remRow H row ++ [(remRow H row).getLastD 0 + row.getD H 0] := by
  unfold remRow
  rw [List.range_succ, List.foldl_append]
  rfl

theorem remRow_eq (row : List Int) : ∀ H : Nat, remRow H row = (List.range H).map (fun t => remF row (t + 1)) := by
  intro H
  induction H with
  | zero => rfl
  | succ H ih =>
    rw [remRow_succ, ih, List.range_succ (n := H), List.map_append]
    congr 1
    cases H with
    | zero => simp [remF]
    | succ H => simp [List.range_succ, remF]

theorem prevF_lt (row : List Int) : ∀ t : Nat, -1 ≤ prevF row t ∧ prevF row t < (t : Int) := by
  intro t
  induction t with
  | zero => simp [prevF]
  | succ t ih =>
    unfold prevF
    split <;> omega

/-- `prevF` points at a demand -/
theorem prevF_due (row : List Int) : ∀ t : Nat, prevF row t = -1 ∨ (0 ≤ prevF row t ∧ 0 < row.getD (prevF row t).toNat 0) := by
  intro t
  induction t with
  | zero => simp [prevF]
  | succ t ih =>
    unfold prevF
    split
    · next h => right; exact ⟨by omega, by simpa using h⟩
    · exact ih

/-- `prevF` is the LATEST demand before `t` -/
theorem prevF_latest (row : List Int) : ∀ (t e : Nat), e < t → 0 < row.getD e 0 → (e : Int) ≤ prevF row t := by
  intro t
  induction t with
  | zero => intro e he; omega
  | succ t ih =>
    intro e he hd
    unfold prevF
    split
    · omega
    · next h =>
      have : e ≠ t := by intro h'; subst h'; exact h hd
      exact ih e (by omega) hd

/-- no unit is due strictly between `prevF t` and `t` -/
theorem remF_prevF (row : List Int) (hbin : ∀ t, row.getD t 0 = 0 ∨ row.getD t 0 = 1) :
    ∀ t : Nat, remF row t = remF row (prevF row t + 1).toNat := by
  intro t
  induction t with
  | zero => simp [prevF, remF]
  | succ t ih =>
    unfold prevF
    split
    · simp
    · next h =>
      rw [← ih]
      show remF row t + row.getD t 0 = remF row t
      have := hbin t
      omega

theorem remF_nonneg (row : List Int) (hbin : ∀ t, row.getD t 0 = 0 ∨ row.getD t 0 = 1) : ∀ t : Nat, 0 ≤ remF row t := by
  intro t
  induction t with
  | zero => simp [remF]
  | succ t ih => have := hbin t; simp only [remF]; omega

theorem remF_mono (row : List Int) (hbin : ∀ t, row.getD t 0 = 0 ∨ row.getD t 0 = 1) :
    ∀ (t t' : Nat), t ≤ t' → remF row t ≤ remF row t' := by
  intro t t' h
  induction t' with
  | zero => have : t = 0 := by omega
            subst this; exact Int.le_refl _
  | succ t' ih =>
    by_cases he : t = t' + 1
    · subst he; exact Int.le_refl _
    · have := ih (by omega)
      have := hbin t'
      simp only [remF]; omega

-- ------------------------------------------------------------------------------------------------------------------
-- the states

/-- the demands of item `i` -/
def rowOf (I : Psp.Inst) (i : Nat) : List Int := I.d.getD i []
/-- `prev_demands[i]` of the state (`-1` out of range) -/
def pdAt (s : St) (i : Nat) : Int := s.pd.getD i (-1)
/-- the units of a row still to produce when the latest pending one is due at `p` -/
def contrib (row : List Int) (p : Int) : Int := if p ≥ 0 then remF row (p.toNat + 1) else 0
def sumTo : Nat → (Nat → Int) → Int
  | 0, _ => 0
  | n + 1, f => sumTo n f + f n
/-- the units still to produce -/
def rem (I : Psp.Inst) (s : St) : Int := sumTo I.n (fun i => contrib (rowOf I i) (pdAt s i))

/-- one entry per item, each the due date of a unit of the item or `-1` -/
structure Ok (I : Psp.Inst) (s : St) : Prop where
  len : s.pd.length = I.n
  due : ∀ i, i < I.n → pdAt s i = -1 ∨ (0 ≤ pdAt s i ∧ 0 < (rowOf I i).getD (pdAt s i).toNat 0)

theorem sumTo_congr {n : Nat} {f g : Nat → Int} (h : ∀ i, i < n → f i = g i) : sumTo n f = sumTo n g := by
  induction n with
  | zero => rfl
  | succ n ih => simp only [sumTo]; rw [ih (fun i hi => h i (by omega)), h n (by omega)]

theorem sumTo_le {n : Nat} {f g : Nat → Int} (h : ∀ i, i < n → f i ≤ g i) : sumTo n f ≤ sumTo n g := by
  induction n with
  | zero => exact Int.le_refl _
  | succ n ih =>
    simp only [sumTo]
    have := ih (fun i hi => h i (by omega))
    have := h n (by omega)
    omega

theorem sumTo_nonneg {n : Nat} {f : Nat → Int} (h : ∀ i, i < n → 0 ≤ f i) : 0 ≤ sumTo n f := by
  induction n with
  | zero => exact Int.le_refl _
  | succ n ih =>
    simp only [sumTo]
    have := ih (fun i hi => h i (by omega))
    have := h n (by omega)
    omega

/-- changing one term -/
theorem sumTo_update {n : Nat} {f g : Nat → Int} {c : Nat} (hc : c < n) (h : ∀ i, i < n → i ≠ c → f i = g i) :
    sumTo n f = sumTo n g + (f c - g c) := by
  induction n with
  | zero => omega
  | succ n ih =>
    simp only [sumTo]
    by_cases he : c = n
    · subst he
      rw [sumTo_congr (fun i hi => h i (by omega) (by omega))]
      omega
    · rw [ih (by omega) (fun i hi hne => h i (by omega) hne), h n (by omega) (by omega)]
      omega

theorem sum_append_single (l : List Int) (x : Int) : sum (l ++ [x]) = sum l + x := by
  simp [sum, List.foldl_append]

theorem sum_filter_range (p : Nat → Bool) (g : Nat → Int) : ∀ n : Nat,
    sum (((List.range n).filter p).map g) = sumTo n (fun i => if p i then g i else 0) := by
  intro n
  induction n with
  | zero => rfl
  | succ n ih =>
    rw [List.range_succ, List.filter_append, List.map_append]
    simp only [sumTo]
    cases hp : p n
    · simp [hp, ih]
    · simp only [List.filter_cons, hp, if_true, List.filter_nil, List.map_cons, List.map_nil, sum_append_single, ih]

theorem mapM_total {α β : Type} (f : α → Option β) (g : α → β) : ∀ l : List α, (∀ x ∈ l, f x = some (g x)) →
    l.mapM f = some (l.map g) := by
  intro l
  induction l with
  | nil => intro _; rfl
  | cons a t ih =>
    intro h
    rw [List.mapM_cons, h a List.mem_cons_self, ih (fun x hx => h x (List.mem_cons_of_mem _ hx))]
    rfl

section
variable {I : Psp.Inst} (hI : InstOk I)
include hI

theorem row_len {i : Nat} (hi : i < I.n) : (rowOf I i).length = I.T := by
  unfold rowOf
  have h1 : i < I.d.length := by rw [hI.drows.1]; exact hi
  rw [List.getD_eq_getElem?_getD, List.getElem?_eq_getElem h1]
  exact (hI.drows.2 _ (List.getElem_mem h1)).1

theorem row_bin (i t : Nat) : (rowOf I i).getD t 0 = 0 ∨ (rowOf I i).getD t 0 = 1 := by
  unfold rowOf
  by_cases h1 : i < I.d.length
  · rw [List.getD_eq_getElem?_getD (l := I.d), List.getElem?_eq_getElem h1]
    simp only [Option.getD_some]
    by_cases h2 : t < I.d[i].length
    · rw [List.getD_eq_getElem?_getD, List.getElem?_eq_getElem h2]
      exact (hI.drows.2 _ (List.getElem_mem h1)).2 _ (List.getElem_mem h2)
    · left; simp [List.getD_eq_getElem?_getD, List.getElem?_eq_none (Nat.le_of_not_lt h2)]
  · left; simp [List.getD_eq_getElem?_getD, List.getElem?_eq_none (Nat.le_of_not_lt h1)]

theorem contrib_nonneg (i : Nat) (p : Int) : 0 ≤ contrib (rowOf I i) p := by
  unfold contrib
  split
  · exact remF_nonneg _ (row_bin hI i) _
  · exact Int.le_refl _

theorem contrib_mono (i : Nat) {p p' : Int} (h : p ≤ p') : contrib (rowOf I i) p ≤ contrib (rowOf I i) p' := by
  unfold contrib
  split
  · next h1 =>
    rw [if_pos (by omega)]
    exact remF_mono _ (row_bin hI i) _ _ (by omega)
  · split
    · exact remF_nonneg _ (row_bin hI i) _
    · exact Int.le_refl _

/-- a pending due date is a period of the horizon -/
theorem Ok.lt_T {s : St} (hs : Ok I s) {i : Nat} (hi : i < I.n) : pdAt s i < (I.T : Int) := by
  rcases hs.due i hi with h | ⟨h0, h1⟩
  · omega
  · by_cases hlt : (pdAt s i).toNat < (rowOf I i).length
    · rw [row_len hI hi] at hlt; omega
    · simp [List.getD_eq_getElem?_getD, List.getElem?_eq_none (Nat.le_of_not_lt hlt)] at h1

end

-- ------------------------------------------------------------------------------------------------------------------
-- the model functions in closed form

theorem tab_prevD (I : Psp.Inst) {i : Nat} (hi : i < I.n) :
    (tabOf I).prevD.getD i [] = (List.range (I.T + 1)).map (prevF (rowOf I i)) := by
  simp [tabOf, List.getD_eq_getElem?_getD, hi, prevRow_eq, rowOf]

theorem tab_remD (I : Psp.Inst) {i : Nat} (hi : i < I.n) :
    (tabOf I).remD.getD i [] = (List.range I.T).map (fun t => remF (rowOf I i) (t + 1)) := by
  simp [tabOf, List.getD_eq_getElem?_getD, hi, remRow_eq, rowOf]

/-- the changeover cost paid when `i` is produced and the next produced item is `nx` (`-1`: none) -/
def chgTo (I : Psp.Inst) (nx : Int) (i : Nat) : Int := if nx = -1 then 0 else (I.q.getD i []).getD nx.toNat 0
def stkOf (I : Psp.Inst) (i : Nat) : Int := I.h.getD i 0
/-- `next` is an item or `-1` -/
def NextOk (I : Psp.Inst) (s : St) : Prop := s.next = -1 ∨ (0 ≤ s.next ∧ s.next < I.n)

theorem pdAt_set (s : St) {i : Nat} (hi : i < s.pd.length) (p : Int) (t : Nat) (nx : Int) (j : Nat) :
    pdAt { time := t, next := nx, pd := s.pd.set i p } j = if j = i then p else pdAt s j := by
  unfold pdAt
  simp only [List.getD_eq_getElem?_getD, List.getElem?_set]
  by_cases h : i = j
  · subst h; simp [hi]
  · have : ¬ j = i := fun h' => h h'.symm
    simp [h, this]

section
variable {I : Psp.Inst} (hI : InstOk I)
include hI

theorem remOf?_eq {s : St} (hs : Ok I s) : remOf? (tabOf I) s = some (rem I s) := by
  unfold remOf?
  have hn : (tabOf I).n = I.n := rfl
  rw [hn, mapM_total _ (fun i => contrib (rowOf I i) (pdAt s i))]
  · simp only [Option.bind_eq_bind, Option.bind_some, Option.pure_def, Option.some.injEq]
    rw [sum_filter_range]
    unfold rem
    apply sumTo_congr
    intro i _
    show (if decide (s.pd.getD i (-1) ≥ 0) = true then contrib (rowOf I i) (pdAt s i) else 0) = contrib (rowOf I i) (pdAt s i)
    by_cases h : pdAt s i ≥ 0
    · rw [if_pos (by simpa [pdAt] using h)]
    · rw [if_neg (by simpa [pdAt] using h)]; simp [contrib, h]
  · intro i hi
    rw [List.mem_filter, List.mem_range] at hi
    obtain ⟨hi, hp⟩ := hi
    have hp : 0 ≤ pdAt s i := by simpa [pdAt] using hp
    have hlt := hs.lt_T hI hi
    have he : s.pd.getD i 0 = pdAt s i := by
      have : i < s.pd.length := by rw [hs.len]; exact hi
      simp [pdAt, List.getD_eq_getElem?_getD, List.getElem?_eq_getElem this]
    rw [tab_remD I hi, he]
    have : (pdAt s i).toNat < I.T := by omega
    simp [contrib, hp, this]

theorem mem_domain {s : St} (hs : Ok I s) (x : Nat) (d : Int) :
    d ∈ domain (tabOf I) x s ↔
      rem I s ≤ (x : Int) + 1 ∧ ((d = -1 ∧ rem I s < (x : Int) + 1) ∨ ∃ i : Nat, i < I.n ∧ d = (i : Int) ∧ (x : Int) ≤ pdAt s i) := by
  unfold domain domain?
  rw [remOf?_eq hI hs]
  have hn : (tabOf I).n = I.n := rfl
  simp only [Option.bind_eq_bind, Option.bind_some, Option.pure_def, hn]
  by_cases h1 : rem I s > (x : Int) + 1
  · simp only [h1, if_true, Option.getD_some, List.not_mem_nil, false_iff]
    intro h; omega
  · simp only [h1, if_false, Option.getD_some, List.mem_append, List.mem_map, List.mem_filter, List.mem_range]
    constructor
    · rintro (⟨i, ⟨hi, hp⟩, rfl⟩ | h)
      · exact ⟨by omega, Or.inr ⟨i, hi, rfl, by simpa [pdAt] using hp⟩⟩
      · split at h
        · next h2 => simp at h; exact ⟨by omega, Or.inl ⟨h, h2⟩⟩
        · cases h
    · rintro ⟨_, (⟨rfl, h2⟩ | ⟨i, hi, rfl, hp⟩)⟩
      · right; simp [h2]
      · left; exact ⟨i, ⟨hi, by simpa [pdAt] using hp⟩, rfl⟩

omit hI in
theorem trans_idle {s : St} (ht : s.time ≠ 0) (x : Nat) : trans (tabOf I) s ⟨x, -1⟩ = { s with time := s.time - 1 } := by
  simp [trans, trans?, ht]

theorem trans_item {s : St} (hs : Ok I s) (ht : s.time ≠ 0) (x : Nat) {i : Nat} (hi : i < I.n) (hp : 0 ≤ pdAt s i) :
    trans (tabOf I) s ⟨x, (i : Int)⟩ =
      { time := s.time - 1, next := (i : Int), pd := s.pd.set i (prevF (rowOf I i) (pdAt s i).toNat) } := by
  have hlen : i < s.pd.length := by rw [hs.len]; exact hi
  have hlt := hs.lt_T hI hi
  have h1 : ¬ ((i : Int) = -1) := by omega
  have h2 : ¬ ((i : Int) < 0) := by omega
  have h3 : s.pd[i]? = some (pdAt s i) := by
    simp [pdAt, List.getD_eq_getElem?_getD, List.getElem?_eq_getElem hlen]
  have h4 : ¬ (pdAt s i < 0) := by omega
  have h5 : (pdAt s i).toNat < I.T + 1 := by omega
  simp only [trans, trans?, ht, if_false, h1, h2, Int.toNat_natCast, h3, h4, tab_prevD I hi]
  simp [h5]

omit hI in
theorem cost_idle (s : St) (x : Nat) : cost (tabOf I) s ⟨x, -1⟩ = 0 := by
  simp [cost, cost?]

theorem cost_item {s : St} (hs : Ok I s) (hnx : NextOk I s) (x : Nat) {i : Nat} (hi : i < I.n) :
    cost (tabOf I) s ⟨x, (i : Int)⟩ = -(chgTo I s.next i + stkOf I i * (pdAt s i - (x : Int))) := by
  have hlen : i < s.pd.length := by rw [hs.len]; exact hi
  have h1 : ¬ ((i : Int) = -1) := by omega
  have h2 : ¬ ((i : Int) < 0) := by omega
  have h3 : s.pd[i]? = some (pdAt s i) := by
    simp [pdAt, List.getD_eq_getElem?_getD, List.getElem?_eq_getElem hlen]
  have hh : i < I.h.length := by rw [hI.hrow.1]; exact hi
  have h4 : (tabOf I).stk[i]? = some (stkOf I i) := by
    show I.h[i]? = _
    simp [stkOf, List.getD_eq_getElem?_getD, List.getElem?_eq_getElem hh]
  simp only [cost, cost?, h1, h2, if_false, Int.toNat_natCast, h3, h4]
  rcases hnx with hn | ⟨hn0, hn1⟩
  · simp [hn, chgTo]
  · have h5 : ¬ (s.next = -1) := by omega
    have h6 : ¬ (s.next < 0) := by omega
    have hq : i < I.q.length := by rw [hI.qrows.1]; exact hi
    have hrow : (I.q.getD i []).length = I.n := by
      rw [List.getD_eq_getElem?_getD, List.getElem?_eq_getElem hq]
      exact (hI.qrows.2 _ (List.getElem_mem hq)).1
    have h7 : s.next.toNat < (I.q.getD i []).length := by rw [hrow]; omega
    have h8 : (tabOf I).chg = I.q := rfl
    simp only [h5, h6, if_false, h8, List.getElem?_eq_getElem h7, chgTo, Option.getD_some]
    rw [List.getD_eq_getElem?_getD (l := I.q.getD i []), List.getElem?_eq_getElem h7]
    rfl

end

-- ------------------------------------------------------------------------------------------------------------------
-- transitions keep `Ok`; the units still to produce

theorem contrib_prevF (row : List Int) (hbin : ∀ t, row.getD t 0 = 0 ∨ row.getD t 0 = 1) (t : Nat) :
    contrib row (prevF row t) = remF row t := by
  have h1 := prevF_lt row t
  have h2 := remF_prevF row hbin t
  unfold contrib
  split
  · next h =>
    rw [h2]; congr 1; omega
  · next h =>
    have : prevF row t = -1 := by omega
    rw [h2, this]; rfl

theorem contrib_due (row : List Int) (hbin : ∀ t, row.getD t 0 = 0 ∨ row.getD t 0 = 1) {c : Int} (h0 : 0 ≤ c)
    (hd : 0 < row.getD c.toNat 0) : contrib row c = remF row c.toNat + 1 := by
  unfold contrib
  rw [if_pos h0]
  simp only [remF]
  have := hbin c.toNat
  omega

section
variable {I : Psp.Inst} (hI : InstOk I)
include hI

/-- the state after producing item `i` -/
def produce (I : Psp.Inst) (s : St) (i : Nat) : St :=
  { time := s.time - 1, next := (i : Int), pd := s.pd.set i (prevF (rowOf I i) (pdAt s i).toNat) }
/-- the state after an idle period -/
def idle (s : St) : St := { s with time := s.time - 1 }

omit hI in
theorem pdAt_produce {s : St} (hs : Ok I s) {i : Nat} (hi : i < I.n) (j : Nat) :
    pdAt (produce I s i) j = if j = i then prevF (rowOf I i) (pdAt s i).toNat else pdAt s j :=
  pdAt_set s (by rw [hs.len]; exact hi) _ _ _ j

omit hI in
theorem ok_produce {s : St} (hs : Ok I s) {i : Nat} (hi : i < I.n) : Ok I (produce I s i) where
  len := by simp [produce, hs.len]
  due := by
    intro j hj
    rw [pdAt_produce hs hi]
    split
    · next h => subst h; exact prevF_due _ _
    · exact hs.due j hj

omit hI in
theorem ok_idle {s : St} (hs : Ok I s) : Ok I (idle s) := ⟨hs.len, hs.due⟩

omit hI in
theorem rem_idle (s : St) : rem I (idle s) = rem I s := rfl

theorem rem_produce {s : St} (hs : Ok I s) {i : Nat} (hi : i < I.n) (hp : 0 ≤ pdAt s i) :
    rem I (produce I s i) = rem I s - 1 := by
  unfold rem
  rw [sumTo_update (c := i) (f := fun j => contrib (rowOf I j) (pdAt s j))
    (g := fun j => contrib (rowOf I j) (pdAt (produce I s i) j)) hi]
  · simp only [pdAt_produce hs hi, if_true]
    rw [contrib_prevF _ (row_bin hI i)]
    rcases hs.due i hi with h | ⟨h0, h1⟩
    · omega
    · rw [contrib_due _ (row_bin hI i) h0 h1]; omega
  · intro j _ hne
    simp only [pdAt_produce hs hi, if_neg hne]

theorem trans_item' {s : St} (hs : Ok I s) (ht : s.time ≠ 0) (x : Nat) {i : Nat} (hi : i < I.n) (hp : 0 ≤ pdAt s i) :
    trans (tabOf I) s ⟨x, (i : Int)⟩ = produce I s i := trans_item hI hs ht x hi hp

omit hI in
theorem trans_idle' {s : St} (ht : s.time ≠ 0) (x : Nat) : trans (tabOf I) s ⟨x, -1⟩ = idle s := trans_idle ht x

/-- the decisions of the domain, one by one -/
theorem domain_cases {s : St} (hs : Ok I s) (ht : s.time ≠ 0) {x : Nat} {d : Int} (hd : d ∈ domain (tabOf I) x s) :
    rem I s ≤ (x : Int) + 1 ∧
    ((d = -1 ∧ rem I s < (x : Int) + 1 ∧ trans (tabOf I) s ⟨x, d⟩ = idle s) ∨
     ∃ i : Nat, i < I.n ∧ d = (i : Int) ∧ (x : Int) ≤ pdAt s i ∧ trans (tabOf I) s ⟨x, d⟩ = produce I s i) := by
  obtain ⟨h1, h2⟩ := (mem_domain hI hs x d).mp hd
  refine ⟨h1, ?_⟩
  rcases h2 with ⟨rfl, h2⟩ | ⟨i, hi, rfl, hp⟩
  · exact Or.inl ⟨rfl, h2, trans_idle ht x⟩
  · exact Or.inr ⟨i, hi, rfl, hp, trans_item hI hs ht x hi (by omega)⟩

theorem trans_time {s : St} (hs : Ok I s) (ht : s.time ≠ 0) {x : Nat} {d : Int} (hd : d ∈ domain (tabOf I) x s) :
    (trans (tabOf I) s ⟨x, d⟩).time = s.time - 1 := by
  rcases (domain_cases hI hs ht hd).2 with ⟨_, _, h⟩ | ⟨i, _, _, _, h⟩ <;> rw [h] <;> rfl

theorem ok_trans {s : St} (hs : Ok I s) (ht : s.time ≠ 0) {x : Nat} {d : Int} (hd : d ∈ domain (tabOf I) x s) :
    Ok I (trans (tabOf I) s ⟨x, d⟩) := by
  rcases (domain_cases hI hs ht hd).2 with ⟨_, _, h⟩ | ⟨i, hi, _, _, h⟩ <;> rw [h]
  · exact ok_idle hs
  · exact ok_produce hs hi

end

-- ------------------------------------------------------------------------------------------------------------------
-- the value-to-go as a maximum

theorem emax_le_left (a b : EInt) : a ≤ EInt.max a b := by
  cases a <;> cases b <;> simp [EInt.max] <;> omega
theorem emax_le_right (a b : EInt) : b ≤ EInt.max a b := by
  cases a <;> cases b <;> simp [EInt.max] <;> omega
theorem emax_cases (a b : EInt) : EInt.max a b = a ∨ EInt.max a b = b := by
  cases a <;> cases b <;> simp [EInt.max] <;> omega

theorem foldl_emax (f : Int → EInt) : ∀ (l : List Int) (acc : EInt),
    acc ≤ l.foldl (fun a v => EInt.max a (f v)) acc ∧
    (∀ v ∈ l, f v ≤ l.foldl (fun a v => EInt.max a (f v)) acc) ∧
    (l.foldl (fun a v => EInt.max a (f v)) acc = acc ∨ ∃ v ∈ l, l.foldl (fun a v => EInt.max a (f v)) acc = f v) := by
  intro l
  induction l with
  | nil => intro acc; exact ⟨EInt.le_refl _, (fun v hv => by cases hv), Or.inl rfl⟩
  | cons x t ih =>
    intro acc
    obtain ⟨h1, h2, h3⟩ := ih (EInt.max acc (f x))
    rw [List.foldl_cons]
    refine ⟨EInt.le_trans (emax_le_left _ _) h1, ?_, ?_⟩
    · intro v hv
      rcases List.mem_cons.mp hv with rfl | hv
      · exact EInt.le_trans (emax_le_right _ _) h1
      · exact h2 v hv
    · rcases h3 with h3 | ⟨v, hv, h3⟩
      · rcases emax_cases acc (f x) with h | h
        · left; rw [h3, h]
        · right; exact ⟨x, List.mem_cons_self, by rw [h3, h]⟩
      · right; exact ⟨v, List.mem_cons_of_mem _ hv, h3⟩

theorem bestRem_zero (T : Tab) {s : St} (h : s.time = 0) : bestRem T s = some 0 := by
  unfold bestRem; rw [h]; rfl

theorem bestRem_succ (T : Tab) {s : St} (h : s.time ≠ 0) :
    bestRem T s = (domain T (s.time - 1) s).foldl (fun acc v =>
      EInt.max acc ((bestRemF T (s.time - 1) (trans T s ⟨s.time - 1, v⟩)).addI (cost T s ⟨s.time - 1, v⟩))) none := by
  unfold bestRem
  obtain ⟨k, hk⟩ : ∃ k, s.time = k + 1 := ⟨s.time - 1, by omega⟩
  rw [hk]
  simp only [bestRemF, hk, Nat.add_sub_cancel]
  simp

section
variable {I : Psp.Inst} (hI : InstOk I)
include hI

/-- every decision of the domain gives a lower bound of the value-to-go -/
theorem bestRem_ge {s : St} (hs : Ok I s) (ht : s.time ≠ 0) {d : Int} (hd : d ∈ domain (tabOf I) (s.time - 1) s) :
    (bestRem (tabOf I) (trans (tabOf I) s ⟨s.time - 1, d⟩)).addI (cost (tabOf I) s ⟨s.time - 1, d⟩) ≤ bestRem (tabOf I) s := by
  rw [bestRem_succ _ ht]
  have := (foldl_emax (fun v => (bestRemF (tabOf I) (s.time - 1) (trans (tabOf I) s ⟨s.time - 1, v⟩)).addI
    (cost (tabOf I) s ⟨s.time - 1, v⟩)) (domain (tabOf I) (s.time - 1) s) none).2.1 d hd
  unfold bestRem
  rw [trans_time hI hs ht hd]
  exact this

/-- the value-to-go is attained by a decision of the domain -/
theorem bestRem_att {s : St} (hs : Ok I s) (ht : s.time ≠ 0) {h : Int} (hh : bestRem (tabOf I) s = some h) :
    ∃ d ∈ domain (tabOf I) (s.time - 1) s, ∃ h', bestRem (tabOf I) (trans (tabOf I) s ⟨s.time - 1, d⟩) = some h' ∧
      h = h' + cost (tabOf I) s ⟨s.time - 1, d⟩ := by
  rw [bestRem_succ _ ht] at hh
  rcases (foldl_emax (fun v => (bestRemF (tabOf I) (s.time - 1) (trans (tabOf I) s ⟨s.time - 1, v⟩)).addI
    (cost (tabOf I) s ⟨s.time - 1, v⟩)) (domain (tabOf I) (s.time - 1) s) none).2.2 with h0 | ⟨d, hd, h0⟩
  · rw [h0] at hh; cases hh
  · rw [h0] at hh
    refine ⟨d, hd, ?_⟩
    unfold bestRem
    rw [trans_time hI hs ht hd]
    cases hb : bestRemF (tabOf I) (s.time - 1) (trans (tabOf I) s ⟨s.time - 1, d⟩) with
    | none => rw [hb] at hh; cases hh
    | some h' =>
      rw [hb] at hh
      simp only [EInt.addI, Option.map_some, Option.some.injEq] at hh
      exact ⟨h', rfl, hh.symm⟩

end

end Ddo.Examples.PspModel
