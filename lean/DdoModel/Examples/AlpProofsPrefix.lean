import DdoModel.Examples.AlpProofsExact
/-! alp example, exactness of the DP model (2): the prefix form `DpExactStmt`.

* `state_exact`: for a valid state `s` whose runways are a permutation of the physical runways `ph`, and a list `L` of
  landings of the specification COMPATIBLE with `ph` (the earliest time of `Alp.delay` after `L` on a runway — separation
  from ALL of `L` — is the arrival time of the model after the state of the runway — separation from the last landing),
  the value-to-go is minus the least delay `Alp.delay … L` over the orders and runway assignments of the aircraft left;
* `RInv`: the invariant of `replayPhys` (the tagged sort carries the physical identities; compatibility is kept by the
  triangle inequality, `arrP_skip`);
* `dpExact : DpExactStmt I`. -/
namespace Ddo.Examples.AlpModel
open Ddo Ddo.Examples Ddo.Examples.Util Ddo.C16 Ddo.SpecUtil

variable (I : Inst)

/-- the delays `Alp.delay` computes after the landings `L`, over the orders of `rest` and the runway assignments -/
def valuesL (rest : List Nat) (L : List (Nat × Nat × Int)) : List Int :=
  (Alp.perms rest).flatMap (fun o =>
    (Alp.assignments I.nbRunways rest.length).filterMap (fun rs => Alp.delay I.specInst (o.zip rs) L))

theorem mem_valuesL {rest : List Nat} (hnd : rest.Nodup) (L : List (Nat × Nat × Int)) (x : Int) :
    x ∈ valuesL I rest L ↔
      ∃ o : List Nat, o.Perm rest ∧ ∃ rw : Nat → Nat, (∀ a ∈ o, rw a < I.nbRunways) ∧
        Alp.delay I.specInst (o.map fun a => (a, rw a)) L = some x := by
  unfold valuesL
  simp only [List.mem_flatMap, List.mem_filterMap, alp_perms, mem_perms, alp_assignments, mem_tuples,
    List.mem_range]
  constructor
  · rintro ⟨o, ho, rs, ⟨hlen, hr⟩, hd⟩
    have hnd' : o.Nodup := ho.symm.nodup hnd
    have hlen' : rs.length = o.length := by rw [hlen, ho.length_eq]
    obtain ⟨rw, rfl⟩ := exists_map_eq hnd' rs hlen' 0
    refine ⟨o, ho, rw, fun a ha => hr _ (List.mem_map_of_mem ha), ?_⟩
    rw [← zip_map_self]; exact hd
  · rintro ⟨o, ho, rw, hr, hd⟩
    refine ⟨o, ho, o.map rw, ⟨by rw [List.length_map, ho.length_eq], ?_⟩, ?_⟩
    · intro y hy
      obtain ⟨a, ha, rfl⟩ := List.mem_map.mp hy
      exact hr a ha
    · rw [zip_map_self]; exact hd

/-- the landings `L` of the specification are compatible with the physical runways `ph` -/
def Compat (ph : List Rw) (L : List (Nat × Nat × Int)) : Prop :=
  ∀ ρ b, ρ < I.nbRunways → b < I.nbAircraft → alpEarliest I.specInst b ρ L (I.tgt b) = arrP I (phAt ph ρ) b

theorem sched_of_delay {s : St} {ph : List Rw} {L : List (Nat × Nat × Int)} (hc : Compat I ph L) {rest : List Nat}
    (hnd : rest.Nodup) (hrest : ∀ a, a ∈ rest ↔ RemAc I s.1 a) {x : Int} (hx : x ∈ valuesL I rest L) :
    ∃ σ, Sched I s.1 ph σ ∧ cost I σ = x := by
  obtain ⟨o, ho, rw, hr, hd⟩ := (mem_valuesL I hnd L x).mp hx
  have hndo : o.Nodup := ho.symm.nodup hnd
  obtain ⟨t, w1, w2, w3, w4⟩ := alp_delay_sound I.specInst rw o hndo L x hd
  have hacs : (o.map (fun a => (⟨a, rw a, t a⟩ : Ev))).map Ev.ac = o := by
    rw [List.map_map]
    exact List.map_id' _ |>.symm ▸ (List.map_congr_left (fun a _ => rfl))
  refine ⟨o.map (fun a => ⟨a, rw a, t a⟩), ⟨?_, ?_, ?_, ?_⟩, ?_⟩
  · rw [hacs]; exact hndo
  · intro a
    rw [hacs, ho.mem_iff, hrest]
  · intro e he
    obtain ⟨a, ha, rfl⟩ := List.mem_map.mp he
    have hR : RemAc I s.1 a := (hrest a).mp (ho.mem_iff.mp ha)
    refine ⟨hr a ha, (w1 a ha).2, ?_⟩
    show arrP I (phAt ph (rw a)) a ≤ t a
    rw [← hc (rw a) a (hr a ha) hR.lt]
    exact (alpEarliest_spec I.specInst a (rw a) L (I.tgt a)).2.2 (t a) (w1 a ha).1 (w2 a ha)
  · exact List.pairwise_map.mpr w3
  · unfold cost
    rw [List.map_map, w4]
    rfl

theorem delay_of_sched {s : St} {ph : List Rw} {L : List (Nat × Nat × Int)} (hc : Compat I ph L) {rest : List Nat}
    (hnd : rest.Nodup) (hrest : ∀ a, a ∈ rest ↔ RemAc I s.1 a) {σ : List Ev} (h : Sched I s.1 ph σ) :
    ∃ x, x ∈ valuesL I rest L ∧ x ≤ cost I σ := by
  let frw : Nat → Nat := fun a => ((σ.find? (fun x => x.ac == a)).map Ev.rw).getD 0
  let ft : Nat → Int := fun a => ((σ.find? (fun x => x.ac == a)).map Ev.t).getD 0
  have hfrw : ∀ e ∈ σ, frw e.ac = e.rw := fun e he => by
    show ((σ.find? (fun x => x.ac == e.ac)).map Ev.rw).getD 0 = e.rw
    rw [find_ev σ h.nodup e he]; rfl
  have hft : ∀ e ∈ σ, ft e.ac = e.t := fun e he => by
    show ((σ.find? (fun x => x.ac == e.ac)).map Ev.t).getD 0 = e.t
    rw [find_ev σ h.nodup e he]; rfl
  have hperm : (σ.map Ev.ac).Perm rest :=
    (List.perm_ext_iff_of_nodup h.nodup hnd).mpr (fun a => (h.mem a).trans (hrest a).symm)
  obtain ⟨v, hv, hle⟩ := alp_delay_dominant I.specInst frw ft (σ.map Ev.ac) L
    (by
      intro a ha
      obtain ⟨e, he, rfl⟩ := List.mem_map.mp ha
      show I.tgt e.ac ≤ ft e.ac ∧ ft e.ac ≤ I.lat e.ac
      rw [hft e he]
      obtain ⟨_, h2, h3⟩ := h.ok e he
      exact ⟨Int.le_trans (tgt_le_arrP I _ _) h3, h2⟩)
    (by
      intro a ha x hx hrw
      obtain ⟨e, he, rfl⟩ := List.mem_map.mp ha
      rw [hfrw e he] at hrw
      rw [hft e he]
      obtain ⟨h1, _, h3⟩ := h.ok e he
      have hR : RemAc I s.1 e.ac := (h.mem e.ac).mp (List.mem_map_of_mem he)
      rw [← hc e.rw e.ac h1 hR.lt] at h3
      exact Int.le_trans ((alpEarliest_spec I.specInst e.ac e.rw L (I.tgt e.ac)).2.1 x hx hrw) h3)
    (by
      refine List.pairwise_map.mpr (List.Pairwise.imp_of_mem ?_ h.sep)
      intro a b ha hb hab
      show frw a.ac = frw b.ac → ft a.ac + I.sepAt (I.cls a.ac) (I.cls b.ac) ≤ ft b.ac
      rw [hfrw a ha, hfrw b hb, hft a ha, hft b hb]
      exact hab)
  refine ⟨v, (mem_valuesL I hnd L v).mpr ⟨σ.map Ev.ac, hperm, frw, ?_, hv⟩, ?_⟩
  · intro a ha
    obtain ⟨e, he, rfl⟩ := List.mem_map.mp ha
    rw [hfrw e he]
    exact (h.ok e he).1
  · refine Int.le_trans hle (Int.le_of_eq ?_)
    unfold cost
    rw [List.map_map]
    congr 1
    apply List.map_congr_left
    intro e he
    show ft e.ac - I.tgt e.ac = e.t - I.tgt e.ac
    rw [hft e he]

/-- **exactness of the DP model at a state**: the value-to-go of a valid state is minus the least delay the specification
    computes, after landings `L` compatible with the runways of the state, over the aircraft left -/
theorem state_exact (hD : InDom I) (hS : InDomS I) {s : St} {ph : List Rw} {L : List (Nat × Nat × Int)} {rest : List Nat}
    (hW : StW I s) (hR : RemOk I s.1) (hp : s.2.Perm ph) (hc : Compat I ph L)
    (hnd : rest.Nodup) (hrest : ∀ a, a ∈ rest ↔ RemAc I s.1 a) :
    best I s = (minOf (valuesL I rest L)).map (fun d => -d) := by
  have hle : ∀ y ∈ valuesL I rest L, (some (-y) : EInt) ≤ best I s := by
    intro y hy
    obtain ⟨σ, hσ, hcσ⟩ := sched_of_delay I hc hnd hrest hy
    have := sched_le_best I hD hS _ _ _ σ hW hR hp (Nat.le_refl _) hσ
    rw [hcσ] at this
    exact this
  cases hb : best I s with
  | none =>
    have : valuesL I rest L = [] := by
      cases hv : valuesL I rest L with
      | nil => rfl
      | cons y r =>
        have := hle y (by rw [hv]; exact List.mem_cons_self ..)
        rw [hb] at this
        exact absurd this (by simp)
    rw [this]; rfl
  | some v =>
    obtain ⟨σ, hσ, hcσ⟩ := best_sched I hD _ _ _ v hW hR hp (Nat.le_refl _) hb
    obtain ⟨x, hx, hxle⟩ := delay_of_sched I hc hnd hrest hσ
    have hlow : ∀ y ∈ valuesL I rest L, -v ≤ y := by
      intro y hy
      have := hle y hy
      rw [hb] at this
      have := (EInt.some_le_some _ _).mp this
      omega
    have hxv : x = -v := by
      have := hlow x hx
      rw [hcσ] at hxle
      omega
    have : minOf (valuesL I rest L) = some (-v) := minOf_eq_some.mpr ⟨hxv ▸ hx, hlow⟩
    rw [this]
    simp

-- ------------------------------------------------------------------------------------------------------------------
-- the tagged sort of `replayPhys`

theorem span_loop_eq {α : Type} (p : α → Bool) : ∀ (l acc : List α),
    List.span.loop p l acc = (acc.reverse ++ l.takeWhile p, l.dropWhile p) := by
  intro l
  induction l with
  | nil => intro acc; simp [List.span.loop]
  | cons a r ih =>
    intro acc
    unfold List.span.loop
    cases h : p a with
    | true => simp only [ih]; simp [h]
    | false => simp [h]

theorem span_eq {α : Type} (p : α → Bool) (l : List α) : l.span p = (l.takeWhile p, l.dropWhile p) := by
  unfold List.span
  rw [span_loop_eq]
  simp

/-- the insertion step of the tagged sort -/
def insT (x : Rw × Nat) (l : List (Rw × Nat)) : List (Rw × Nat) :=
  (l.span (fun y => !rwLe x.1 y.1)).1 ++ x :: (l.span (fun y => !rwLe x.1 y.1)).2

def sortT (l : List (Rw × Nat)) : List (Rw × Nat) := l.foldr insT []

theorem insT_eq (x : Rw × Nat) (l : List (Rw × Nat)) :
    insT x l = l.takeWhile (fun y => !rwLe x.1 y.1) ++ x :: l.dropWhile (fun y => !rwLe x.1 y.1) := by
  unfold insT
  rw [span_eq]

theorem insT_perm (x : Rw × Nat) (l : List (Rw × Nat)) : (insT x l).Perm (x :: l) := by
  rw [insT_eq]
  refine List.perm_middle.trans ?_
  rw [List.takeWhile_append_dropWhile]

theorem insT_fst (x : Rw × Nat) (l : List (Rw × Nat)) : (insT x l).map Prod.fst = insertRw x.1 (l.map Prod.fst) := by
  rw [insT_eq]
  induction l with
  | nil => simp [insertRw]
  | cons y r ih =>
    cases h : rwLe x.1 y.1 with
    | true => simp [h, insertRw]
    | false =>
      simp only [List.takeWhile_cons, List.dropWhile_cons, h, Bool.not_false, if_true, List.cons_append, List.map_cons,
        insertRw, Bool.false_eq_true, if_false]
      rw [ih]

theorem sortT_perm (l : List (Rw × Nat)) : (sortT l).Perm l := by
  induction l with
  | nil => exact List.Perm.refl _
  | cons x r ih => exact (insT_perm x _).trans (List.Perm.cons x ih)

theorem sortT_fst (l : List (Rw × Nat)) : (sortT l).map Prod.fst = sortRw (l.map Prod.fst) := by
  induction l with
  | nil => rfl
  | cons x r ih =>
    show (insT x (sortT r)).map Prod.fst = insertRw x.1 (sortRw (r.map Prod.fst))
    rw [insT_fst, ih]

theorem zip_map_fst_snd {α β : Type} (l : List (α × β)) : (l.map Prod.fst).zip (l.map Prod.snd) = l := by
  induction l with
  | nil => rfl
  | cons x r ih => simp [ih]

theorem replayPhys_nil (s : St) (phys : List Nat) (v : Int) (acc : List (Nat × Nat)) :
    replayPhys I [] s phys v acc = some (s, v, acc) := by rw [replayPhys]

theorem replayPhys_neg (ds : List Int) (s : St) (phys : List Nat) (v : Int) (acc : List (Nat × Nat)) :
    replayPhys I (-1 :: ds) s phys v acc
      = if (domain I s).contains (-1) then replayPhys I ds s phys v acc else none := by
  rw [replayPhys]; simp

theorem replayPhys_step {d : Int} (ds : List Int) {s : St} (phys : List Nat) (v : Int) (acc : List (Nat × Nat))
    {a : Nat} {s2 : St} {k : Int} (h1 : d ≠ -1) (h2 : (domain I s).contains d = true)
    (h3 : aircraftOf? I s (fromDecision I d).1 = some a) (h4 : trans? I s d = some s2) (h5 : cost? I s d = some k) :
    replayPhys I (d :: ds) s phys v acc =
      replayPhys I ds s2
        ((sortT ((s.2.zip phys).set (fromDecision I d).2
          ((arrival I s.2 a (fromDecision I d).2, ((fromDecision I d).1 : Int)),
            (phys[(fromDecision I d).2]?).getD 0))).map Prod.snd)
        (v + k) (acc ++ [(a, (phys[(fromDecision I d).2]?).getD 0)]) := by
  rw [replayPhys]
  simp only [h1, if_false, h2, Bool.not_true, h3, h4, h5]
  rfl

theorem replayPhys_not {d : Int} (ds : List Int) {s : St} (phys : List Nat) (v : Int) (acc : List (Nat × Nat))
    (h1 : d ≠ -1) (h2 : (domain I s).contains d = false) : replayPhys I (d :: ds) s phys v acc = none := by
  rw [replayPhys]
  simp only [h1, if_false, h2, Bool.not_false, if_true]

-- ------------------------------------------------------------------------------------------------------------------
-- the invariant of `replayPhys`

/-- the physical runways, tagged by their identity -/
def tagZ (ph : List Rw) : List (Rw × Nat) := (List.range I.nbRunways).map (fun ρ => (phAt ph ρ, ρ))

theorem tagZ_set {ph : List Rw} {ρ : Nat} (hρ : ρ < ph.length) (x : Rw) :
    (tagZ I ph).set ρ (x, ρ) = tagZ I (ph.set ρ x) := by
  apply List.ext_getElem
  · simp [tagZ]
  · intro j h1 h2
    rw [List.getElem_set]
    simp only [tagZ, List.getElem_map, List.getElem_range]
    by_cases e : ρ = j
    · subst e
      rw [if_pos rfl, phAt_set_self hρ]
    · rw [if_neg e, phAt_set_ne e]

/-- state `s` with physical identities `phys`, value `v`, landings `acc`; `ph` = the physical runways, `L` = the landings of
    the specification -/
structure RInv (s : St) (phys : List Nat) (v : Int) (acc : List (Nat × Nat)) (ph : List Rw)
    (L : List (Nat × Nat × Int)) : Prop where
  w : StW I s
  remOk : RemOk I s.1
  plen : phys.length = I.nbRunways
  phlen : ph.length = I.nbRunways
  tag : (s.2.zip phys).Perm (tagZ I ph)
  compat : Compat I ph L
  pre : ∀ todo, Alp.delay I.specInst (acc ++ todo) [] = (Alp.delay I.specInst todo L).map (fun rest => -v + rest)
  rem : ∀ a, a < I.nbAircraft → (RemAc I s.1 a ↔ a ∉ acc.map Prod.fst)

theorem RInv.perm {s : St} {phys : List Nat} {v : Int} {acc : List (Nat × Nat)} {ph : List Rw}
    {L : List (Nat × Nat × Int)} (h : RInv I s phys v acc ph L) : s.2.Perm ph := by
  have h1 := h.tag.map Prod.fst
  rw [List.map_fst_zip (by rw [h.w.2.1, h.plen]; exact Nat.le_refl _)] at h1
  have h2 : (tagZ I ph).map Prod.fst = ph := by
    apply List.ext_getElem
    · simp [tagZ, h.phlen]
    · intro j h1 h2
      simp only [tagZ, List.map_map, List.getElem_map, List.getElem_range, Function.comp]
      exact phAt_eq h2
  rw [h2] at h1
  exact h1

theorem rinv_init (hD : InDom I) (hS : InDomS I) :
    RInv I (initState I) (List.range I.nbRunways) 0 [] (List.replicate I.nbRunways (0, -1)) [] where
  w := stW_init I
  remOk := remOk_init I hS
  plen := List.length_range
  phlen := List.length_replicate
  tag := by
    have : (initState I).2.zip (List.range I.nbRunways) = tagZ I (List.replicate I.nbRunways (0, -1)) := by
      apply List.ext_getElem
      · simp [tagZ, initState]
      · intro j h1 h2
        simp [tagZ, initState, phAt_replicate]
    rw [this]
  compat := by
    intro ρ b _ _
    rw [phAt_replicate, arrP_empty]
    rfl
  pre := by
    intro todo
    rw [List.nil_append]
    cases Alp.delay I.specInst todo [] <;> simp
  rem := by
    intro a ha
    simp [remAc_init I hD hS, ha]

/-- one landing of `replayPhys` keeps the invariant -/
theorem rinv_step (hD : InDom I) {s : St} {phys : List Nat} {v : Int} {acc : List (Nat × Nat)} {ph : List Rw}
    {L : List (Nat × Nat × Int)} (h : RInv I s phys v acc ph L) {d : Int} (hd : d ∈ domain I s) (hne : d ≠ -1) :
    ∃ a s2 k ph2 L2, aircraftOf? I s (fromDecision I d).1 = some a ∧ trans? I s d = some s2 ∧ cost? I s d = some k ∧
      RInv I s2
        ((sortT ((s.2.zip phys).set (fromDecision I d).2
          ((arrival I s.2 a (fromDecision I d).2, ((fromDecision I d).1 : Int)),
            (phys[(fromDecision I d).2]?).getD 0))).map Prod.snd)
        (v + k) (acc ++ [(a, (phys[(fromDecision I d).2]?).getD 0)]) ph2 L2 := by
  have hW := h.w
  have htot : totRem s ≠ 0 := by
    intro h0
    rw [domain_zero I h0] at hd
    exact hne (List.mem_singleton.mp hd)
  obtain ⟨c, k0, i, hk, hpos, hi, e, hl⟩ := mem_domain I (by omega) hd
  subst e
  have hc : c < I.nbClasses := by rw [← hW.1]; exact lt_of_getElem?_some hk
  obtain ⟨k', rfl⟩ : ∃ k', k0 = k' + 1 := ⟨k0 - 1, by omega⟩
  obtain ⟨a, ha, haR⟩ := first_exists I h.remOk hk
  rw [acOf_some I ha] at hl
  have his : i < s.2.length := by rw [hW.2.1]; exact hi
  have hip : i < phys.length := by rw [h.plen]; exact hi
  obtain ⟨t1, t2⟩ := trans_toDecision I hc hk ha (r := i) his
  obtain ⟨han, hca⟩ := nextTab_succ I ha
  rw [fromDecision_toDecision I hc i]
  have hac : aircraftOf? I s c = some a := by unfold aircraftOf?; rw [hk]; exact ha
  -- the physical runway
  have hiz : i < (s.2.zip phys).length := by rw [List.length_zip]; omega
  have hzi : (s.2.zip phys)[i] = (s.2[i], phys[i]) := List.getElem_zip
  have hm : (s.2[i], phys[i]) ∈ tagZ I ph := by rw [← hzi]; exact h.tag.mem_iff.mp (List.getElem_mem hiz)
  obtain ⟨ρ, hρ, eρ⟩ := List.mem_map.mp hm
  rw [List.mem_range] at hρ
  obtain ⟨e1, e2⟩ := Prod.mk.inj eρ
  have hρph : ρ < ph.length := by rw [h.phlen]; exact hρ
  have hρz : ρ < (tagZ I ph).length := by simp [tagZ]; exact hρ
  have ephys : (phys[i]?).getD 0 = ρ := by rw [List.getElem?_eq_getElem hip, e2]; rfl
  have erw : rwAt s i = phAt ph ρ := by unfold rwAt; rw [List.getElem?_eq_getElem his, e1]; rfl
  rw [ephys]
  refine ⟨a, _, _, ph.set ρ (arrP I (rwAt s i) a, (c : Int)), (ρ, a, arrP I (rwAt s i) a) :: L, hac, t1, t2, ?_⟩
  have hrwok : RwOk I (rwAt s i) := hW.2.2 _ (rwAt_mem his)
  have hsl : s.2.length = I.nbRunways := hW.2.1
  have hpl : phys.length = I.nbRunways := h.plen
  have hsorted : ((sortT ((s.2.zip phys).set i ((arrival I s.2 a i, (c : Int)), ρ))).map Prod.fst)
      = (land I s c i a k').2 := by
    rw [sortT_fst, List.map_set, List.map_fst_zip (by omega)]
    rfl
  refine ⟨stW_land I hD hW hk ha, remOk_set I h.remOk hk, ?_, ?_, ?_, ?_, ?_, ?_⟩
  · rw [List.length_map, (sortT_perm _).length_eq, List.length_set, List.length_zip]; omega
  · rw [List.length_set]; exact h.phlen
  · rw [← hsorted, zip_map_fst_snd]
    refine (sortT_perm _).trans ?_
    rw [← tagZ_set I hρph]
    refine set_perm_of_perm h.tag hiz hρz ?_ _
    rw [hzi]
    simp only [tagZ, List.getElem_map, List.getElem_range]
    rw [← e1, ← e2]
  · -- compatibility
    intro ρ' b hρ' hb
    have hsp := alpEarliest_spec I.specInst b ρ' L
    by_cases hrr : ρ' = ρ
    · subst hrr
      rw [phAt_set_self hρph, arrP_known]
      have e : alpEarliest I.specInst b ρ' ((ρ', a, arrP I (rwAt s i) a) :: L) (I.tgt b)
          = alpEarliest I.specInst b ρ' L (max (I.tgt b) (arrP I (rwAt s i) a + I.sepAt (I.cls a) (I.cls b))) := by
        show alpEarliest I.specInst b ρ' L
          (if ρ' = ρ' then max (I.tgt b) (arrP I (rwAt s i) a + I.sepAt (I.cls a) (I.cls b)) else I.tgt b) = _
        rw [if_pos rfl]
      rw [e, hca]
      obtain ⟨s1, _, s3⟩ := hsp (max (I.tgt b) (arrP I (rwAt s i) a + I.sepAt c (I.cls b)))
      apply Int.le_antisymm
      · apply s3 _ (Int.le_refl _)
        intro x hx hxr
        have h1 := (hsp (I.tgt b)).2.1 x hx hxr
        rw [h.compat ρ' b hρ' hb, ← erw] at h1
        have h2 := arrP_skip I hD hrwok han hb
        rw [arrP_known, hca] at h2
        omega
      · exact s1
    · rw [phAt_set_ne (Ne.symm hrr)]
      have e : alpEarliest I.specInst b ρ' ((ρ, a, arrP I (rwAt s i) a) :: L) (I.tgt b)
          = alpEarliest I.specInst b ρ' L (I.tgt b) := by
        show alpEarliest I.specInst b ρ' L
          (if ρ = ρ' then max (I.tgt b) (arrP I (rwAt s i) a + I.sepAt (I.cls a) (I.cls b)) else I.tgt b) = _
        rw [if_neg (Ne.symm hrr)]
      rw [e]
      exact h.compat ρ' b hρ' hb
  · -- the delay of the prefix
    intro todo
    rw [List.append_assoc, h.pre, List.singleton_append, alp_delay_cons]
    have e0 : alpEarliest I.specInst a ρ L (I.specInst.target a) = arrP I (rwAt s i) a := by
      rw [erw]; exact h.compat ρ a hρ han
    rw [e0, if_pos (show arrP I (rwAt s i) a ≤ I.specInst.latest a from hl), Option.map_map]
    congr 1
    funext rest
    show -v + (arrP I (rwAt s i) a - I.tgt a + rest) = -(v + -(arrP I (rwAt s i) a - I.tgt a)) + rest
    omega
  · intro b hb
    show RemAc I (s.1.set c k') b ↔ _
    rw [remAc_set I hk ha, h.rem b hb]
    simp only [List.map_append, List.map_cons, List.map_nil, List.mem_append, List.mem_singleton, not_or]

theorem replay_inv (hD : InDom I) : ∀ (decs : List Int) (s : St) (phys : List Nat) (v : Int) (acc : List (Nat × Nat))
    (ph : List Rw) (L : List (Nat × Nat × Int)), RInv I s phys v acc ph L → ∀ (s' : St) (v' : Int) (pre : List (Nat × Nat)),
    replayPhys I decs s phys v acc = some (s', v', pre) → ∃ phys' ph' L', RInv I s' phys' v' pre ph' L' := by
  intro decs
  induction decs with
  | nil =>
    intro s phys v acc ph L h s' v' pre hr
    rw [replayPhys_nil] at hr
    simp only [Option.some.injEq, Prod.mk.injEq] at hr
    obtain ⟨rfl, rfl, rfl⟩ := hr
    exact ⟨phys, ph, L, h⟩
  | cons d ds ih =>
    intro s phys v acc ph L h s' v' pre hr
    by_cases hd : d = -1
    · subst hd
      rw [replayPhys_neg] at hr
      split at hr
      · exact ih _ _ _ _ _ _ h _ _ _ hr
      · cases hr
    · cases hcont : (domain I s).contains d with
      | false => rw [replayPhys_not I ds phys v acc hd hcont] at hr; cases hr
      | true =>
        have hmem : d ∈ domain I s := by simpa using hcont
        obtain ⟨a, s2, k, ph2, L2, h3, h4, h5, hinv⟩ := rinv_step I hD h hmem hd
        rw [replayPhys_step I ds phys v acc hd hcont h3 h4 h5] at hr
        exact ih _ _ _ _ _ _ hinv _ _ _ hr

theorem minOf_map_add (X : List Int) (v : Int) :
    minOf (X.map (fun rest => -v + rest)) = (minOf X).map (fun rest => -v + rest) := by
  cases hm : minOf X with
  | none =>
    rw [minOf_eq_none.mp hm]; rfl
  | some m =>
    obtain ⟨h1, h2⟩ := minOf_eq_some.mp hm
    apply minOf_eq_some.mpr
    refine ⟨List.mem_map.mpr ⟨m, h1, rfl⟩, ?_⟩
    intro y hy
    obtain ⟨x, hx, rfl⟩ := List.mem_map.mp hy
    have := h2 x hx
    show -v + m ≤ -v + x
    omega

/-- **exactness of the DP model of the shipped alp example** (`DpExactStmt`, every prefix): along any path of the model
    from the root, value + best completion is minus the least delay of the specification among the schedules that extend
    the landings of the path -/
theorem dpExact : DpExactStmt I := by
  intro hdom decs s v pre hr
  have hD := inDom_of I hdom
  have hS := inDomS_of I hdom
  obtain ⟨phys, ph, L, h⟩ := replay_inv I hD decs _ _ _ _ _ _ (rinv_init I hD hS) s v pre hr
  have hnd : ((List.range I.nbAircraft).filter (fun a => !(pre.any (fun p => p.1 == a)))).Nodup :=
    List.Nodup.sublist List.filter_sublist List.nodup_range
  have hrest : ∀ a, a ∈ (List.range I.nbAircraft).filter (fun a => !(pre.any (fun p => p.1 == a))) ↔ RemAc I s.1 a := by
    intro a
    rw [List.mem_filter, List.mem_range]
    have hany : (pre.any (fun p => p.1 == a)) = true ↔ a ∈ pre.map Prod.fst := by
      simp only [List.any_eq_true, beq_iff_eq, List.mem_map]
    constructor
    · rintro ⟨ha, hn⟩
      refine (h.rem a ha).mpr ?_
      intro hm
      rw [hany.mpr hm] at hn
      cases hn
    · intro hR
      refine ⟨hR.lt, ?_⟩
      have := (h.rem a hR.lt).mp hR
      cases hb : pre.any (fun p => p.1 == a) with
      | false => rfl
      | true => exact absurd (hany.mp hb) this
  have hst := state_exact I hD hS h.w h.remOk (RInv.perm I h) h.compat hnd hrest
  have hspec : specExt I pre = (minOf (valuesL I ((List.range I.nbAircraft).filter
      (fun a => !(pre.any (fun p => p.1 == a)))) L)).map (fun rest => -v + rest) := by
    rw [← minOf_map_add, ← alp_minimum]
    unfold specExt valuesL
    simp only [h.pre, List.map_flatMap, List.map_filterMap]
  rw [hspec, hst]
  cases minOf (valuesL I ((List.range I.nbAircraft).filter (fun a => !(pre.any (fun p => p.1 == a)))) L) with
  | none => rfl
  | some m =>
    show some (-m + v) = some (-(-v + m))
    congr 1
    omega

#print axioms state_exact
#print axioms dpExact

end Ddo.Examples.AlpModel
