import DdoModel.Examples.TalentschedProofsRub
/-! The single-machine part of the talentsched rough bound, on plain lists of actors (no state, no instance).
    The actors on location are the jobs of one machine: actor `a` has weight `c a` and length `key a * c a`
    (`key a = Σ_j duration_j / T_j` over the scenes `j` he still plays in: the duration of every scene is split among the
    actors on location who play in it, in proportion to their costs).
    * `posK key c e l`: `Σ_{a ∈ l} c a * (e + the lengths of the jobs up to a, a included)` — the weighted completion times,
      what the second loop of `fast_upper_bound` accumulates (`fold_eq_posK`);
    * `posK_smith`: a list sorted by increasing `key` (= length / weight: Smith's ratio) is cheapest among its permutations;
    * `posK_lin`: `posK` is linear in `key`; `posK_prefix_zero`: jobs of length 0 in front cost nothing (from `e = 0`);
    * `posK_ind_le`: for a 0/1 key (the actors of ONE scene `j`), whatever the order,
      `2 · posK ≤ 2·e·W + 2·T·W − T² + Q` (`W` = total weight of the list, `T`, `Q` = Σ cost, Σ cost² of the actors of `j`):
      the worst case has the actors of `j` in front.  This is where the correction term `(T_j − Q_j / T_j) / 2` of the code
      comes from. -/
namespace Ddo.Examples.TalentschedModel
open Ddo Ddo.Examples Ddo.Examples.Util Ddo.SpecUtil

def posK (key c : Nat → Int) : Int → List Nat → Int
  | _, [] => 0
  | e, a :: l => c a * (e + key a * c a) + posK key c (e + key a * c a) l

theorem posK_cons (key c : Nat → Int) (e : Int) (a : Nat) (l : List Nat) :
    posK key c e (a :: l) = c a * (e + key a * c a) + posK key c (e + key a * c a) l := rfl

/-- the total length of the jobs of `l` -/
def lenK (key c : Nat → Int) (l : List Nat) : Int := (l.map fun a => key a * c a).sum

theorem posK_append (key c : Nat → Int) : ∀ (xs ys : List Nat) (e : Int),
    posK key c e (xs ++ ys) = posK key c e xs + posK key c (e + lenK key c xs) ys := by
  intro xs
  induction xs with
  | nil => intro ys e; simp [posK, lenK]
  | cons a xs ih =>
    intro ys e
    rw [List.cons_append, posK_cons, posK_cons, ih]
    have : e + lenK key c (a :: xs) = e + key a * c a + lenK key c xs := by
      simp only [lenK, List.map_cons, List.sum_cons]; omega
    rw [this]; omega

theorem posK_swap_nil (key c : Nat → Int) (e : Int) (post : List Nat) (a b : Nat) :
    posK key c e (a :: b :: post) - posK key c e (b :: a :: post) = c a * c b * (key a - key b) := by
  simp only [posK_cons]
  have h : e + key b * c b + key a * c a = e + key a * c a + key b * c b := by omega
  rw [h]
  grind

/-- moving `a` to the front over jobs of ratio at least that of `a` does not increase the cost -/
theorem posK_move_front (key c : Nat → Int) (hc : ∀ a, 0 ≤ c a) (a : Nat) (post : List Nat) : ∀ (pre : List Nat) (e : Int),
    (∀ x ∈ pre, key a ≤ key x) → posK key c e (a :: (pre ++ post)) ≤ posK key c e (pre ++ a :: post) := by
  intro pre
  induction pre with
  | nil => intro e _; exact Int.le_refl _
  | cons x pre ih =>
    intro e hx
    show posK key c e (a :: x :: (pre ++ post)) ≤ posK key c e (x :: (pre ++ a :: post))
    have h1 := ih (e + key x * c x) (fun y hy => hx y (List.mem_cons_of_mem _ hy))
    have h2 := posK_swap_nil key c e (pre ++ post) a x
    have h3 := hx x List.mem_cons_self
    have h4 : posK key c e (x :: a :: (pre ++ post)) =
        c x * (e + key x * c x) + posK key c (e + key x * c x) (a :: (pre ++ post)) := rfl
    have h5 : posK key c e (x :: (pre ++ a :: post)) =
        c x * (e + key x * c x) + posK key c (e + key x * c x) (pre ++ a :: post) := rfl
    have h6 : c a * c x * (key a - key x) ≤ 0 :=
      Int.mul_nonpos_of_nonneg_of_nonpos (Int.mul_nonneg (hc a) (hc x)) (by omega)
    omega

/-- **Smith's rule**: a list of jobs in increasing order of `key` (length / weight) is cheapest among its permutations -/
theorem posK_smith (key c : Nat → Int) (hc : ∀ a, 0 ≤ c a) : ∀ {l l' : List Nat} (e : Int),
    l.Pairwise (fun a b => key a ≤ key b) → l'.Perm l → posK key c e l ≤ posK key c e l' := by
  intro l
  induction l with
  | nil => intro l' e _ hp; rw [List.perm_nil.mp hp]; exact Int.le_refl _
  | cons a rest ih =>
    intro l' e hs hp
    have hs' := List.pairwise_cons.mp hs
    have ha : a ∈ l' := hp.mem_iff.mpr List.mem_cons_self
    obtain ⟨pre, post, rfl⟩ := List.append_of_mem ha
    have hperm : (pre ++ post).Perm rest := (List.perm_cons a).mp (List.perm_middle.symm.trans hp)
    have h1 := posK_move_front key c hc a post pre e
      (fun x hx => hs'.1 x (hperm.mem_iff.mp (List.mem_append_left _ hx)))
    have h2 := ih (e + key a * c a) hs'.2 hperm
    have h3 : posK key c e (a :: (pre ++ post)) = c a * (e + key a * c a) + posK key c (e + key a * c a) (pre ++ post) := rfl
    have h4 : posK key c e (a :: rest) = c a * (e + key a * c a) + posK key c (e + key a * c a) rest := rfl
    omega

/-- `posK` is linear in the key (and the start) -/
theorem posK_lin (k1 k2 c : Nat → Int) (m : Int) : ∀ (l : List Nat) (e1 e2 : Int),
    posK (fun a => k1 a + m * k2 a) c (e1 + m * e2) l = posK k1 c e1 l + m * posK k2 c e2 l := by
  intro l
  induction l with
  | nil => intro e1 e2; simp [posK]
  | cons a l ih =>
    intro e1 e2
    simp only [posK_cons]
    have h : e1 + m * e2 + (k1 a + m * k2 a) * c a = (e1 + k1 a * c a) + m * (e2 + k2 a * c a) := by grind
    rw [h, ih]
    grind

theorem posK_congr {k1 k2 c : Nat → Int} : ∀ (l : List Nat) (e : Int), (∀ a ∈ l, k1 a = k2 a) →
    posK k1 c e l = posK k2 c e l := by
  intro l
  induction l with
  | nil => intro e _; rfl
  | cons a l ih =>
    intro e h
    simp only [posK_cons]
    rw [h a List.mem_cons_self, ih _ fun x hx => h x (List.mem_cons_of_mem _ hx)]

/-- jobs of length 0 at the front, started at 0, cost nothing and delay nobody -/
theorem posK_prefix_zero (key c : Nat → Int) (l : List Nat) : ∀ (pre : List Nat), (∀ a ∈ pre, key a = 0) →
    posK key c 0 (pre ++ l) = posK key c 0 l := by
  intro pre
  induction pre with
  | nil => intro _; rfl
  | cons a pre ih =>
    intro h
    rw [List.cons_append, posK_cons, h a List.mem_cons_self]
    simp only [Int.zero_mul, Int.add_zero, Int.mul_zero, Int.zero_add]
    exact ih fun x hx => h x (List.mem_cons_of_mem _ hx)

/-- the 0/1 key of the actors selected by `b` -/
def indK (b : Nat → Bool) (a : Nat) : Int := if b a then 1 else 0

def sumW (c : Nat → Int) (l : List Nat) : Int := (l.map c).sum
def sumT (b : Nat → Bool) (c : Nat → Int) (l : List Nat) : Int := (l.map fun a => if b a then c a else 0).sum
def sumQ (b : Nat → Bool) (c : Nat → Int) (l : List Nat) : Int := (l.map fun a => if b a then c a * c a else 0).sum

theorem sumT_nonneg (b : Nat → Bool) (c : Nat → Int) (hc : ∀ a, 0 ≤ c a) : ∀ l, 0 ≤ sumT b c l := by
  intro l
  induction l with
  | nil => exact Int.le_refl _
  | cons a l ih =>
    have : sumT b c (a :: l) = (if b a then c a else 0) + sumT b c l := by simp [sumT]
    rw [this]
    have := hc a
    split <;> omega

/-- **one scene**: with the 0/1 key of the actors of one scene, in ANY order of the list,
    `2 · posK ≤ 2·e·W + 2·T·W − T² + Q` -/
theorem posK_ind_le (b : Nat → Bool) (c : Nat → Int) (hc : ∀ a, 0 ≤ c a) : ∀ (l : List Nat) (e : Int),
    2 * posK (indK b) c e l ≤
      2 * e * sumW c l + 2 * sumT b c l * sumW c l - sumT b c l * sumT b c l + sumQ b c l := by
  intro l
  induction l with
  | nil => intro e; simp [posK, sumW, sumT, sumQ]
  | cons a l ih =>
    intro e
    have hW : sumW c (a :: l) = c a + sumW c l := by simp [sumW]
    have hT : sumT b c (a :: l) = (if b a then c a else 0) + sumT b c l := by simp [sumT]
    have hQ : sumQ b c (a :: l) = (if b a then c a * c a else 0) + sumQ b c l := by simp [sumQ]
    have hT0 := sumT_nonneg b c hc l
    have hca := hc a
    rw [posK_cons, hW, hT, hQ]
    have ih' := ih (e + indK b a * c a)
    revert ih'
    generalize sumW c l = W
    generalize sumT b c l = T at hT0 ⊢
    generalize sumQ b c l = Q
    generalize c a = ca at hca ⊢
    by_cases hb : b a = true
    · simp only [indK, hb, if_true]
      generalize posK (indK b) c (e + 1 * ca) l = X
      intro ih'
      grind
    · simp only [indK, hb]
      simp only [Bool.false_eq_true, if_false]
      generalize posK (indK b) c (e + 0 * ca) l = X
      intro ih'
      have := Int.mul_nonneg hT0 hca
      grind

end Ddo.Examples.TalentschedModel

section
open Ddo.Examples.TalentschedModel
#print axioms posK_smith
#print axioms posK_lin
#print axioms posK_ind_le
end
